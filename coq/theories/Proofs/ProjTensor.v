(** C08, array level (generic part): algebra of nested arrays over a commutative monoid and of the
    one-axis projection operator [proj_axis], for arbitrary dimension, axis and entry type.
    Instantiated in ProjSpectrum.v with (R, +, 0) for the data and (bool, ||, false) for the mask. *)
From Coq Require Import List Arith Lia Bool.
From Dadi Require Import Model.Projection.
Import ListNotations.

(** well-shaped arrays: [wf d sh x] = x is a rectangular array of shape sh *)
Fixpoint wf {B : Type} (d : nat) (sh : list nat) : tens B d -> Prop :=
  match d with
  | O => fun _ => sh = []
  | S d' => fun l => match sh with
                     | [] => False
                     | L :: sh' => length l = L /\ Forall (wf d' sh') l
                     end
  end.

Lemma nth_map_seq' {B} (f : nat -> B) a len i d : i < len -> nth i (map f (seq a len)) d = f (a + i).
Proof. intros. rewrite (nth_indep _ d (f 0)) by (rewrite map_length, seq_length; lia).
  rewrite map_nth, seq_nth by lia. reflexivity. Qed.

Lemma nth_map_in {B C} (g : B -> C) l j e e' : j < length l -> nth j (map g l) e' = g (nth j l e).
Proof. intros. rewrite (nth_indep _ e' (g e)) by (rewrite map_length; lia). apply map_nth. Qed.

Lemma seq_S_cons L : seq 0 (S L) = 0 :: seq 1 L.
Proof. reflexivity. Qed.


(** *** shape bookkeeping (any entry type) *)
Fixpoint set_nth {T : Type} (ax : nat) (v : T) (l : list T) : list T :=
  match l with
  | [] => []
  | a :: t => match ax with O => v :: t | S ax' => a :: set_nth ax' v t end
  end.

Lemma wf_tmap {B C} d (f : B -> C) : forall sh x, wf d sh x -> wf d sh (tmap d f x).
Proof. induction d; intros sh x Hw; [exact Hw|]. destruct sh as [|L sh]; [contradiction|]. destruct Hw as [HL Hall].
  split; [cbn [tmap]; rewrite map_length; exact HL|]. cbn [tmap]. apply Forall_map.
  eapply Forall_impl; [|exact Hall]. intros y Hy. apply IHd, Hy. Qed.

Lemma wf_trev {B} d : forall sh (x : tens B d), wf d sh x -> wf d sh (trev d x).
Proof. induction d; intros sh x Hw; [exact Hw|]. destruct sh as [|L sh]; [contradiction|]. destruct Hw as [HL Hall].
  split; [cbn [trev]; rewrite rev_length, map_length; exact HL|]. cbn [trev]. apply Forall_rev, Forall_map.
  eapply Forall_impl; [|exact Hall]. intros y Hy. apply IHd, Hy. Qed.

Lemma trev_tmap {B C} d (f : B -> C) : forall x, trev d (tmap d f x) = tmap d f (trev d x).
Proof. induction d; intros x; [reflexivity|]. cbn [trev tmap]. rewrite map_rev, !map_map. f_equal.
  apply map_ext. intros y. apply IHd. Qed.

Lemma rev_map_seq {B} (G : nat -> B) m : rev (map G (seq 0 (S m))) = map (fun i => G (m - i)) (seq 0 (S m)).
Proof. induction m; [reflexivity|]. rewrite seq_S at 1. change (seq 0 (S (S m))) with (0 :: seq 1 (S m)).
  rewrite map_app, rev_app_distr. cbn [map rev app]. rewrite IHm, <- seq_shift, map_map. reflexivity. Qed.

Lemma rev_seq m : rev (seq 0 (S m)) = map (fun i => m - i) (seq 0 (S m)).
Proof. rewrite <- (map_id (seq 0 (S m))) at 1. apply (rev_map_seq (fun i => i)). Qed.

Section Generic.
  Context {A : Type} (zero : A) (add : A -> A -> A).
  Hypothesis add_comm : forall a b, add a b = add b a.
  Hypothesis add_assoc : forall a b c, add a (add b c) = add (add a b) c.
  Hypothesis add_0_l : forall a, add zero a = a.

  Notation tz := (tzero zero).
  Notation ta := (tadd add).
  Notation bs := (bsum zero add).

  Lemma add_0_r a : add a zero = a.
  Proof. rewrite add_comm. apply add_0_l. Qed.

  (** *** [ladd] *)
  Lemma ladd_nil_r {T} (f : T -> T -> T) x : ladd f x [] = x.
  Proof. destruct x; reflexivity. Qed.
  Lemma ladd_comm {T} (f : T -> T -> T) : (forall a b, f a b = f b a) -> forall x y, ladd f x y = ladd f y x.
  Proof. intros Hc. induction x; destruct y; cbn; try reflexivity. rewrite Hc, IHx. reflexivity. Qed.
  Lemma ladd_assoc {T} (f : T -> T -> T) : (forall a b c, f a (f b c) = f (f a b) c) ->
    forall x y z, ladd f x (ladd f y z) = ladd f (ladd f x y) z.
  Proof. intros Ha. induction x; destruct y; destruct z; cbn; try reflexivity. rewrite Ha, IHx. reflexivity. Qed.
  Lemma map_ladd {T U} (f : T -> T -> T) (f' : U -> U -> U) (g : T -> U) :
    (forall a b, g (f a b) = f' (g a) (g b)) -> forall x y, map g (ladd f x y) = ladd f' (map g x) (map g y).
  Proof. intros Hg. induction x; destruct y; cbn; try reflexivity. rewrite Hg, IHx. reflexivity. Qed.
  Lemma ladd_length {T} (f : T -> T -> T) x y : length (ladd f x y) = Nat.max (length x) (length y).
  Proof. revert y; induction x; destruct y; cbn; try reflexivity. rewrite IHx. reflexivity. Qed.
  Lemma ladd_map_same {T U} (f : U -> U -> U) (g g' : T -> U) x :
    ladd f (map g x) (map g' x) = map (fun y => f (g y) (g' y)) x.
  Proof. induction x; cbn; [reflexivity|]. rewrite IHx. reflexivity. Qed.
  Lemma nth_ladd {T} (f : T -> T -> T) (e : T) : (forall a, f e a = a) -> (forall a, f a e = a) ->
    forall x y j, nth j (ladd f x y) e = f (nth j x e) (nth j y e).
  Proof. intros Hl Hr. induction x; destruct y; destruct j; cbn;
      try (symmetry; apply Hl); try (symmetry; apply Hr); try reflexivity.
    apply IHx. Qed.

  (** *** the monoid of d-dimensional arrays *)
  Lemma tadd_0_l d x : ta d (tz d) x = x.
  Proof. destruct d; cbn; [apply add_0_l | reflexivity]. Qed.
  Lemma tadd_0_r d x : ta d x (tz d) = x.
  Proof. destruct d; cbn; [apply add_0_r | apply ladd_nil_r]. Qed.
  Lemma tadd_comm d : forall x y, ta d x y = ta d y x.
  Proof. induction d; cbn; [apply add_comm | apply ladd_comm, IHd]. Qed.
  Lemma tadd_assoc d : forall x y z, ta d x (ta d y z) = ta d (ta d x y) z.
  Proof. induction d; cbn; [apply add_assoc | apply ladd_assoc, IHd]. Qed.
  Lemma tadd_swap4 d a b c e : ta d (ta d a b) (ta d c e) = ta d (ta d a c) (ta d b e).
  Proof. rewrite <- !tadd_assoc. f_equal. rewrite !tadd_assoc. f_equal. apply tadd_comm. Qed.

  (** *** finite sums of arrays *)
  Lemma bsum_nil d g : bs d g [] = tz d.
  Proof. reflexivity. Qed.
  Lemma bsum_cons d g a l : bs d g (a :: l) = ta d (g a) (bs d g l).
  Proof. reflexivity. Qed.
  Ltac bsimp := rewrite ?bsum_cons, ?bsum_nil.
  Lemma bsum_ext_in d g g' l : (forall j, In j l -> g j = g' j) -> bs d g l = bs d g' l.
  Proof. induction l; bsimp; intros E; [reflexivity|]. rewrite E, IHl by (intros; try apply E; cbn; auto). reflexivity. Qed.
  Lemma bsum_zero d g l : (forall j, In j l -> g j = tz d) -> bs d g l = tz d.
  Proof. induction l; bsimp; intros E; [reflexivity|]. rewrite E, IHl by (intros; try apply E; cbn; auto). apply tadd_0_l. Qed.
  Lemma bsum_add d g g' l : bs d (fun j => ta d (g j) (g' j)) l = ta d (bs d g l) (bs d g' l).
  Proof. induction l; bsimp; [symmetry; apply tadd_0_l|]. rewrite IHl. apply tadd_swap4. Qed.
  Lemma bsum_swap d (g : nat -> nat -> tens A d) l1 l2 :
    bs d (fun i => bs d (fun j => g i j) l2) l1 = bs d (fun j => bs d (fun i => g i j) l1) l2.
  Proof. induction l1; bsimp. - symmetry; apply bsum_zero; reflexivity. - rewrite IHl1, <- bsum_add. reflexivity. Qed.
  Lemma bsum_app d g l1 l2 : bs d g (l1 ++ l2) = ta d (bs d g l1) (bs d g l2).
  Proof. induction l1; cbn [app]; bsimp; [symmetry; apply tadd_0_l|]. rewrite IHl1. apply tadd_assoc. Qed.
  Lemma bsum_rev d g l : bs d g (rev l) = bs d g l.
  Proof. induction l; cbn [rev]; [reflexivity|]. rewrite bsum_app, IHl. bsimp. rewrite tadd_0_r. apply tadd_comm. Qed.
  Lemma bsum_map d g (h : nat -> nat) l : bs d g (map h l) = bs d (fun j => g (h j)) l.
  Proof. induction l; cbn [map]; bsimp; [reflexivity|]. rewrite IHl. reflexivity. Qed.
  Lemma bsum_single d g l k : In k l -> NoDup l -> (forall j, In j l -> j <> k -> g j = tz d) -> bs d g l = g k.
  Proof. induction l; intros Hin Hnd Hz; [contradiction|]. bsimp. inversion Hnd; subst. destruct Hin as [->|Hin].
    - rewrite bsum_zero; [apply tadd_0_r|]. intros j Hj. apply Hz; [right; exact Hj|]. intros ->. contradiction.
    - rewrite IHl; [|exact Hin|assumption|intros j Hj Hne; apply Hz; [right; exact Hj|exact Hne]].
      rewrite Hz; [apply tadd_0_l|left; reflexivity|]. intros ->. contradiction. Qed.

  (** sums over an index range longer than the array: the missing slices are zero *)
  Lemma bsum_seq_extend d (g : nat -> tens A d) L L' :
    L <= L' -> (forall j, L <= j -> g j = tz d) -> bs d g (seq 0 L') = bs d g (seq 0 L).
  Proof. intros Hle Hz. replace L' with (L + (L' - L)) by lia. rewrite seq_app, bsum_app.
    rewrite (bsum_zero d g (seq (0 + L) (L' - L))); [apply tadd_0_r|].
    intros j Hj. apply in_seq in Hj. apply Hz. lia. Qed.

  (** *** entrywise maps *)
  Definition additive (f : A -> A) : Prop := f zero = zero /\ forall a b, f (add a b) = add (f a) (f b).

  Lemma tmap_ext {B C} d (f g : B -> C) : (forall a, f a = g a) -> forall x, tmap d f x = tmap d g x.
  Proof. intros E. induction d; cbn; intros x; [apply E | apply map_ext, IHd]. Qed.
  Lemma tmap_tmap {B C D} d (f : C -> D) (g : B -> C) : forall x, tmap d f (tmap d g x) = tmap d (fun a => f (g a)) x.
  Proof. induction d; cbn; intros x; [reflexivity|]. rewrite map_map. apply map_ext, IHd. Qed.
  Lemma tmap_id {B} d : forall x : tens B d, tmap d (fun a => a) x = x.
  Proof. induction d; cbn; intros x; [reflexivity|]. rewrite (map_ext _ (fun y => y)) by apply IHd. apply map_id. Qed.
  Lemma tmap_tzero d f : additive f -> tmap d f (tz d) = tz d.
  Proof. intros [H0 _]. destruct d; cbn; [exact H0 | reflexivity]. Qed.
  Lemma tmap_tadd d f : additive f -> forall x y, tmap d f (ta d x y) = ta d (tmap d f x) (tmap d f y).
  Proof. intros [_ Ha]. induction d; cbn; [apply Ha | apply map_ladd, IHd]. Qed.
  Lemma tmap_bsum d f g l : additive f -> tmap d f (bs d g l) = bs d (fun j => tmap d f (g j)) l.
  Proof. intros Hf. induction l; bsimp; [apply tmap_tzero, Hf|]. rewrite tmap_tadd, IHl by exact Hf. reflexivity. Qed.

  Lemma additive_compose f g : additive f -> additive g -> additive (fun a => f (g a)).
  Proof. intros [F0 Fa] [G0 Ga]. split; [rewrite G0; exact F0 | intros; rewrite Ga, Fa; reflexivity]. Qed.

  (** a non-empty sum of entrywise images of ONE array is the entrywise image under the summed map *)
  Notation asum := (bsum zero add 0).
  Lemma bsum_tmap_same d (u : nat -> A -> A) : forall l k x,
    bs d (fun i => tmap d (u i) x) (k :: l) = tmap d (fun a => asum (fun i => u i a) (k :: l)) x.
  Proof. induction d; intros l k x; [reflexivity|]. revert k. induction l; intros k.
    - bsimp. rewrite tadd_0_r. cbn [tmap]. apply map_ext. intros y. rewrite <- (IHd [] k y). bsimp.
      rewrite tadd_0_r. reflexivity.
    - rewrite bsum_cons, IHl. cbn [tmap tadd]. rewrite ladd_map_same. apply map_ext. intros y.
      rewrite <- (IHd (a :: l) k y), <- (IHd l a y). reflexivity. Qed.

  (** *** one-axis projection: basic facts *)
  Notation pj0 := (proj0 zero add).
  Notation pj := (proj_axis zero add).

  Lemma proj0_length d f m xs : length (pj0 d f m xs) = m + 1.
  Proof. unfold proj0. rewrite map_length, seq_length. reflexivity. Qed.
  Lemma proj0_nth d f m xs i e : i <= m ->
    nth i (pj0 d f m xs) e = bs d (fun j => tmap d (f i j) (nth j xs (tz d))) (seq 0 (length xs)).
  Proof. intros Hi. unfold proj0. rewrite nth_map_seq' by lia. reflexivity. Qed.

  (** projection is additive (no shape condition: missing slices count as zero) *)
  Lemma proj_axis_tadd d : forall ax f m, (forall i j, additive (f i j)) ->
    forall x y, pj d ax f m (ta d x y) = ta d (pj d ax f m x) (pj d ax f m y).
  Proof. induction d; intros ax f m Hf x y; [reflexivity|]. destruct ax as [|ax].
    - cbn [proj_axis tadd]. unfold proj0. rewrite ladd_map_same. apply map_ext. intros i.
      rewrite ladd_length.
      rewrite (bsum_ext_in d _ (fun j => ta d (tmap d (f i j) (nth j x (tz d))) (tmap d (f i j) (nth j y (tz d))))).
      2:{ intros j _. rewrite nth_ladd by (intros; first [apply tadd_0_l | apply tadd_0_r]). apply tmap_tadd, Hf. }
      rewrite bsum_add. f_equal; apply bsum_seq_extend; try lia;
        intros j Hj; rewrite nth_overflow by lia; apply tmap_tzero, Hf.
    - cbn [proj_axis tadd]. apply map_ladd. intros. apply IHd, Hf. Qed.

  Lemma proj_axis_tmap d : forall ax f m u, additive u -> (forall i j a, u (f i j a) = f i j (u a)) ->
    forall x, pj d ax f m (tmap d u x) = tmap d u (pj d ax f m x).
  Proof. induction d; intros ax f m u Hu Hc x; [reflexivity|]. destruct ax as [|ax].
    - cbn [proj_axis tmap]. unfold proj0. rewrite map_map, map_length. apply map_ext. intros i.
      rewrite tmap_bsum by exact Hu. apply bsum_ext_in. intros j Hj. apply in_seq in Hj.
      rewrite (nth_map_in _ _ _ (tz d)) by lia. rewrite !tmap_tmap. apply tmap_ext. intros a. symmetry. apply Hc.
    - cbn [proj_axis tmap]. rewrite !map_map. apply map_ext. intros y. apply IHd; assumption. Qed.

  (** an additive operator distributes over non-empty sums *)
  Lemma additive_op_bsum d (P : tens A d -> tens A d) : (forall x y, P (ta d x y) = ta d (P x) (P y)) ->
    forall g l k, P (bs d g (k :: l)) = bs d (fun j => P (g j)) (k :: l).
  Proof. intros HP g. induction l; intros k.
    - bsimp. rewrite !tadd_0_r. reflexivity.
    - rewrite bsum_cons, HP, IHl. reflexivity. Qed.

  Lemma proj0_map_commute d f m (P : tens A d -> tens A d) xs : 1 <= length xs ->
    (forall x y, P (ta d x y) = ta d (P x) (P y)) ->
    (forall i j y, P (tmap d (f i j) y) = tmap d (f i j) (P y)) ->
    pj0 d f m (map P xs) = map P (pj0 d f m xs).
  Proof. intros HL Ha Hm. unfold proj0. rewrite map_map, map_length. apply map_ext. intros i.
    destruct (length xs) as [|L] eqn:EL; [lia|]. rewrite seq_S_cons, additive_op_bsum by exact Ha.
    rewrite <- seq_S_cons. apply bsum_ext_in. intros j Hj. apply in_seq in Hj.
    rewrite (nth_map_in _ _ _ (tz d)) by lia. symmetry. apply Hm. Qed.

  (** *** axes commute *)
  Theorem proj_axis_commute d : forall a b f g m m' sh (x : tens A d),
    a <> b -> wf d sh x -> Forall (fun L => 1 <= L) sh ->
    (forall i j, additive (f i j)) -> (forall i j, additive (g i j)) ->
    (forall i j i' j' v, f i j (g i' j' v) = g i' j' (f i j v)) ->
    pj d a f m (pj d b g m' x) = pj d b g m' (pj d a f m x).
  Proof. induction d; intros a b f g m m' sh x Hab Hwf Hpos Hf Hg Hc; [reflexivity|].
    destruct sh as [|L sh]; [contradiction|]. destruct Hwf as [HL Hall]. inversion Hpos; subst.
    destruct a as [|a]; destruct b as [|b]; [contradiction| | |].
    - cbn [proj_axis]. apply proj0_map_commute; [assumption| |].
      + apply proj_axis_tadd, Hg.
      + intros i j y. apply proj_axis_tmap; [apply Hf|]. intros. apply Hc.
    - cbn [proj_axis]. symmetry. apply proj0_map_commute; [assumption| |].
      + apply proj_axis_tadd, Hf.
      + intros i j y. apply proj_axis_tmap; [apply Hg|]. intros. symmetry. apply Hc.
    - cbn [proj_axis]. rewrite !map_map. apply map_ext_in. intros y Hy.
      rewrite Forall_forall in Hall. apply (IHd a b f g m m' sh); auto. Qed.

  (** *** two stages equal one stage *)
  Lemma proj0_compose d f g h l m xs :
    (forall i k, additive (f i k)) ->
    (forall i j v, i <= m -> j < length xs -> bsum zero add 0 (fun k => f i k (g k j v)) (seq 0 (l + 1)) = h i j v) ->
    pj0 d f m (pj0 d g l xs) = pj0 d h m xs.
  Proof. intros Hf Hh. unfold proj0 at 1 3. apply map_ext_in. intros i Hi. apply in_seq in Hi.
    rewrite proj0_length.
    rewrite (bsum_ext_in d _ (fun k => bs d (fun j => tmap d (fun v => f i k (g k j v)) (nth j xs (tz d))) (seq 0 (length xs)))).
    2:{ intros k Hk. apply in_seq in Hk. rewrite proj0_nth by lia. rewrite tmap_bsum by apply Hf.
        apply bsum_ext_in. intros j _. apply tmap_tmap. }
    rewrite bsum_swap. apply bsum_ext_in. intros j Hj. apply in_seq in Hj.
    replace (l + 1) with (S l) by lia. rewrite seq_S_cons, bsum_tmap_same. rewrite <- seq_S_cons.
    apply tmap_ext. intros v. replace (S l) with (l + 1) by lia. apply Hh; lia. Qed.

  Theorem proj_axis_compose d : forall ax f g h l m sh (x : tens A d),
    wf d sh x ->
    (forall i k, additive (f i k)) ->
    (forall i j v, i <= m -> j < nth ax sh 0 -> bsum zero add 0 (fun k => f i k (g k j v)) (seq 0 (l + 1)) = h i j v) ->
    pj d ax f m (pj d ax g l x) = pj d ax h m x.
  Proof. induction d; intros ax f g h l m sh x Hwf Hf Hh; [reflexivity|].
    destruct sh as [|L sh]; [contradiction|]. destruct Hwf as [HL Hall]. destruct ax as [|ax].
    - cbn [proj_axis]. apply proj0_compose; [exact Hf|]. intros. apply Hh; [assumption|]. cbn [nth]. rewrite <- HL. assumption.
    - cbn [proj_axis]. rewrite map_map. apply map_ext_in. intros y Hy. rewrite Forall_forall in Hall.
      apply (IHd ax f g h l m sh); auto. Qed.

  (** *** totals *)
  Fixpoint ttotal (d : nat) : tens A d -> A :=
    match d with
    | O => fun a => a
    | S d' => fun l => fold_right (fun y acc => add (ttotal d' y) acc) zero l
    end.

  Lemma add_swap4 a b c e : add (add a b) (add c e) = add (add a c) (add b e).
  Proof. exact (tadd_swap4 0 a b c e). Qed.
  Lemma ttotal_tzero d : ttotal d (tz d) = zero.
  Proof. destruct d; reflexivity. Qed.
  Lemma ttotal_tadd d : forall x y, ttotal d (ta d x y) = add (ttotal d x) (ttotal d y).
  Proof. induction d; [reflexivity|]. cbn [tadd]. induction x; destruct y; cbn [ladd ttotal fold_right].
    - symmetry; apply add_0_l. - symmetry; apply add_0_l. - symmetry; apply add_0_r.
    - change (fold_right (fun y acc => add (ttotal d y) acc) zero (ladd (ta d) x y)) with (ttotal (S d) (ladd (ta d) x y)).
      rewrite IHx, IHd. apply add_swap4. Qed.
  Lemma ttotal_bsum d g l : ttotal d (bs d g l) = asum (fun j => ttotal d (g j)) l.
  Proof. induction l; bsimp; [apply ttotal_tzero|]. rewrite ttotal_tadd, IHl. reflexivity. Qed.
  Lemma ttotal_map d (E : nat -> tens A d) l : ttotal (S d) (map E l) = asum (fun i => ttotal d (E i)) l.
  Proof. induction l; [reflexivity|]. cbn [map]. bsimp. rewrite <- IHl. reflexivity. Qed.
  Lemma asum_nth {T} (u : T -> A) e xs :
    asum (fun j => u (nth j xs e)) (seq 0 (length xs)) = fold_right (fun y acc => add (u y) acc) zero xs.
  Proof. induction xs; [reflexivity|]. cbn [length]. rewrite seq_S_cons, <- seq_shift, bsum_cons, bsum_map.
    cbn [nth fold_right]. rewrite IHxs. reflexivity. Qed.
  Lemma ttotal_tmap_sum d (u : nat -> A -> A) l : forall y,
    asum (fun i => ttotal d (tmap d (u i) y)) l = ttotal d (tmap d (fun a => asum (fun i => u i a) l) y).
  Proof. induction d; intros y; [reflexivity|]. induction y.
    - cbn [tmap map ttotal fold_right]. apply (bsum_zero 0). reflexivity.
    - cbn [tmap map ttotal fold_right]. rewrite <- IHd.
      change (fold_right (fun y0 acc => add (ttotal d y0) acc) zero (map (tmap d (fun a0 => asum (fun i => u i a0) l)) y))
        with (ttotal (S d) (tmap (S d) (fun a0 => asum (fun i => u i a0) l) y)).
      rewrite <- IHy. rewrite <- (bsum_add 0). reflexivity. Qed.

  Lemma proj0_total d (f : nat -> nat -> A -> A) m xs :
    (forall j v, j < length xs -> asum (fun i => f i j v) (seq 0 (m + 1)) = v) ->
    ttotal (S d) (pj0 d f m xs) = ttotal (S d) xs.
  Proof. intros Hs. unfold proj0. rewrite ttotal_map.
    rewrite (bsum_ext_in 0 _ (fun i => asum (fun j => ttotal d (tmap d (f i j) (nth j xs (tz d)))) (seq 0 (length xs))))
      by (intros; apply ttotal_bsum).
    rewrite (bsum_swap 0).
    rewrite (bsum_ext_in 0 _ (fun j => ttotal d (nth j xs (tz d)))).
    - apply (asum_nth (ttotal d)).
    - intros j Hj. apply in_seq in Hj. rewrite ttotal_tmap_sum. f_equal.
      rewrite <- (tmap_id d (nth j xs (tz d))) at 2. apply tmap_ext. intros v. apply Hs. lia. Qed.

  Theorem proj_axis_total d : forall ax (f : nat -> nat -> A -> A) m sh (x : tens A d),
    wf d sh x ->
    (forall j v, j < nth ax sh 0 -> asum (fun i => f i j v) (seq 0 (m + 1)) = v) ->
    ttotal d (pj d ax f m x) = ttotal d x.
  Proof. induction d; intros ax f m sh x Hwf Hs; [reflexivity|].
    destruct sh as [|L sh]; [contradiction|]. destruct Hwf as [HL Hall]. destruct ax as [|ax].
    - cbn [proj_axis]. apply proj0_total. intros. apply Hs. cbn [nth]. rewrite <- HL. assumption.
    - cbn [proj_axis]. cbn [nth] in Hs. clear HL. induction Hall; [reflexivity|]. cbn [map ttotal fold_right].
      rewrite (IHd ax f m sh) by assumption. f_equal. exact IHHall. Qed.

  (** *** shapes are preserved *)
  Lemma Forall_ladd {T} (P : T -> Prop) (f : T -> T -> T) : (forall a b, P a -> P b -> P (f a b)) ->
    forall x y, Forall P x -> Forall P y -> Forall P (ladd f x y).
  Proof. intros Hf. induction x; destruct y; cbn; intros Hx Hy; auto. inversion Hx; inversion Hy; subst. constructor; auto. Qed.
  Lemma wf_tadd d : forall sh x y, wf d sh x -> wf d sh y -> wf d sh (ta d x y).
  Proof. induction d; intros sh x y Hx Hy; [exact Hx|]. destruct sh as [|L sh]; [contradiction|].
    destruct Hx as [Lx Ax]; destruct Hy as [Ly Ay]. split.
    - cbn [tadd]. rewrite ladd_length, Lx, Ly. apply Nat.max_id.
    - cbn [tadd]. apply Forall_ladd; auto. Qed.
  Lemma wf_bsum_ne d sh g : forall l k, (forall j, In j (k :: l) -> wf d sh (g j)) -> wf d sh (bs d g (k :: l)).
  Proof. induction l; intros k Hg.
    - bsimp. rewrite tadd_0_r. apply Hg. left; reflexivity.
    - rewrite bsum_cons. apply wf_tadd; [apply Hg; left; reflexivity|]. apply IHl. intros j Hj. apply Hg. right; exact Hj. Qed.

  Theorem wf_proj_axis d : forall ax f m sh (x : tens A d),
    wf d sh x -> Forall (fun L => 1 <= L) sh -> ax < d -> wf d (set_nth ax (m + 1) sh) (pj d ax f m x).
  Proof. induction d; intros ax f m sh x Hw Hpos Hax; [lia|].
    destruct sh as [|L sh]; [contradiction|]. destruct Hw as [HL Hall].
    apply Forall_cons_iff in Hpos. destruct Hpos as [HposL Hpos']. destruct ax as [|ax].
    - cbn [proj_axis set_nth]. split; [apply proj0_length|]. unfold proj0. apply Forall_map, Forall_forall. intros i _.
      match goal with |- context [seq 0 ?n] => replace n with L by (symmetry; exact HL) end.
      destruct L as [|L]; [lia|]. rewrite seq_S_cons. apply wf_bsum_ne. intros j Hj.
      rewrite <- seq_S_cons in Hj. apply in_seq in Hj. apply wf_tmap. rewrite Forall_forall in Hall. apply Hall, nth_In.
      eapply Nat.lt_le_trans; [|apply Nat.eq_le_incl; symmetry; exact HL]. lia.
    - cbn [proj_axis set_nth]. split; [rewrite map_length; exact HL|]. apply Forall_map.
      eapply Forall_impl; [|exact Hall]. intros y Hy. apply IHd; auto. lia. Qed.

  (** *** entry formula: each projected entry is the weighted sum along the axis *)
  Fixpoint tget (d : nat) (idx : list nat) : tens A d -> A :=
    match d with
    | O => fun a => a
    | S d' => fun l => match idx with [] => zero | i :: idx' => tget d' idx' (nth i l (tz d')) end
    end.
  Definition upd (ax j : nat) (idx : list nat) : list nat := firstn ax idx ++ j :: skipn (S ax) idx.

  Lemma tget_tzero d : forall idx, tget d idx (tz d) = zero.
  Proof. induction d; intros idx; [reflexivity|]. cbn [tget tzero]. destruct idx as [|i idx]; [reflexivity|].
    destruct i; exact (IHd idx). Qed.
  Lemma tget_tadd d : forall idx x y, tget d idx (ta d x y) = add (tget d idx x) (tget d idx y).
  Proof. induction d; intros idx x y; [reflexivity|]. cbn [tget tadd]. destruct idx as [|i idx]; [symmetry; apply add_0_l|].
    rewrite nth_ladd by (intros; first [apply tadd_0_l | apply tadd_0_r]). apply IHd. Qed.
  Lemma tget_bsum d idx g l : tget d idx (bs d g l) = asum (fun j => tget d idx (g j)) l.
  Proof. induction l; bsimp; [apply tget_tzero|]. rewrite tget_tadd, IHl. reflexivity. Qed.
  Lemma tget_tmap d f : f zero = zero -> forall idx x, tget d idx (tmap d f x) = f (tget d idx x).
  Proof. intros H0. induction d; intros idx x; [reflexivity|]. cbn [tget tmap]. destruct idx as [|i idx]; [symmetry; exact H0|].
    destruct (lt_dec i (length x)) as [Hlt|Hge].
    - rewrite (nth_map_in _ _ _ (tz d)) by exact Hlt. apply IHd.
    - apply Nat.nlt_ge in Hge. rewrite !nth_overflow by (rewrite ?map_length; exact Hge).
      rewrite tget_tzero. symmetry; exact H0. Qed.

  Theorem proj_axis_entry d : forall ax (f : nat -> nat -> A -> A) m sh (x : tens A d) idx,
    wf d sh x -> ax < d -> length idx = d -> nth ax idx 0 <= m -> (forall i j, f i j zero = zero) ->
    tget d idx (pj d ax f m x)
    = asum (fun j => f (nth ax idx 0) j (tget d (upd ax j idx) x)) (seq 0 (nth ax sh 0)).
  Proof. induction d; intros ax f m sh x idx Hw Hax Hlen Hi H0; [lia|].
    destruct sh as [|L sh]; [contradiction|]. destruct Hw as [HL Hall]. destruct idx as [|i idx]; [discriminate|].
    destruct ax as [|ax].
    - cbn [proj_axis tget nth] in *. rewrite proj0_nth by exact Hi. rewrite tget_bsum.
      rewrite <- HL.
      apply (bsum_ext_in 0). intros j _. rewrite tget_tmap by apply H0. reflexivity.
    - cbn [proj_axis tget nth] in *. unfold upd. cbn [firstn skipn app]. fold (upd ax).
      destruct (lt_dec i (length x)) as [Hlt|Hge].
      + rewrite (nth_map_in _ _ _ (tz d)) by exact Hlt. rewrite Forall_forall in Hall.
        rewrite (IHd ax f m sh) by (auto; try lia; apply Hall, nth_In; exact Hlt). reflexivity.
      + apply Nat.nlt_ge in Hge. rewrite !nth_overflow by (rewrite ?map_length; exact Hge). rewrite tget_tzero. symmetry. apply (bsum_zero 0).
        intros j _. rewrite (nth_overflow x) by exact Hge. rewrite tget_tzero. apply H0. Qed.

  (** *** reversal of all axes commutes with projection when the coefficients are mirror symmetric *)
  Lemma ladd_app {T} (f : T -> T -> T) a1 b1 a2 b2 : length a1 = length b1 ->
    ladd f (a1 ++ a2) (b1 ++ b2) = ladd f a1 b1 ++ ladd f a2 b2.
  Proof. revert b1. induction a1; destruct b1; cbn; intros E; try discriminate; [reflexivity|]. rewrite IHa1 by lia. reflexivity. Qed.
  Lemma ladd_rev {T} (f : T -> T -> T) a : forall b, length a = length b -> ladd f (rev a) (rev b) = rev (ladd f a b).
  Proof. induction a; destruct b; cbn; intros E; try discriminate; [reflexivity|].
    rewrite ladd_app by (rewrite !rev_length; lia). rewrite IHa by lia. reflexivity. Qed.
  Lemma map_ladd_P {T U} (P : T -> Prop) (f : T -> T -> T) (f' : U -> U -> U) (g : T -> U) :
    (forall a b, P a -> P b -> g (f a b) = f' (g a) (g b)) ->
    forall x y, Forall P x -> Forall P y -> map g (ladd f x y) = ladd f' (map g x) (map g y).
  Proof. intros Hg. induction x; destruct y; cbn; intros Hx Hy; try reflexivity.
    inversion Hx; inversion Hy; subst. rewrite Hg, IHx by assumption. reflexivity. Qed.

  Lemma trev_tadd d : forall sh x y, wf d sh x -> wf d sh y -> trev d (ta d x y) = ta d (trev d x) (trev d y).
  Proof. induction d; intros sh x y Hx Hy; [reflexivity|]. destruct sh as [|L sh]; [contradiction|].
    destruct Hx as [Lx Ax]; destruct Hy as [Ly Ay]. cbn [trev tadd].
    rewrite ladd_rev by (rewrite !map_length; etransitivity; [exact Lx | symmetry; exact Ly]). f_equal.
    apply (map_ladd_P (wf d sh)); auto. intros. apply (IHd sh); assumption. Qed.
  Lemma trev_bsum_ne d sh g : forall l k, (forall j, In j (k :: l) -> wf d sh (g j)) ->
    trev d (bs d g (k :: l)) = bs d (fun j => trev d (g j)) (k :: l).
  Proof. induction l; intros k Hg.
    - bsimp. rewrite !tadd_0_r. reflexivity.
    - rewrite bsum_cons, (trev_tadd d sh).
      + rewrite IHl by (intros j Hj; apply Hg; right; exact Hj). reflexivity.
      + apply Hg. left; reflexivity.
      + apply wf_bsum_ne. intros j Hj; apply Hg; right; exact Hj. Qed.

  Theorem proj_axis_trev d : forall ax (f : nat -> nat -> A -> A) m n sh (x : tens A d),
    wf d sh x -> ax < d -> nth ax sh 0 = S n ->
    (forall i j v, i <= m -> j <= n -> f (m - i) (n - j) v = f i j v) ->
    pj d ax f m (trev d x) = trev d (pj d ax f m x).
  Proof. induction d; intros ax f m n sh x Hw Hax Hn Hsym; [lia|].
    destruct sh as [|L sh]; [contradiction|]. destruct Hw as [HL Hall]. destruct ax as [|ax].
    - cbn [nth] in Hn. rewrite Hn in HL. clear Hn. change (list (tens A d)) in (type of x).
      change (length x = S n) in HL.
      cbn [proj_axis trev]. unfold proj0. rewrite map_map.
      replace (m + 1) with (S m) by lia. rewrite rev_map_seq. rewrite rev_length, map_length, HL.
      apply map_ext_in. intros i Hi. apply in_seq in Hi.
      rewrite Forall_forall in Hall.
      assert (Hx : forall j, j <= n -> wf d sh (nth j x (tz d))) by (intros; apply Hall, nth_In; lia).
      rewrite (seq_S_cons n).
      rewrite (trev_bsum_ne d sh) by (intros j Hj; rewrite <- seq_S_cons in Hj; apply in_seq in Hj; apply wf_tmap, Hx; lia).
      rewrite <- !seq_S_cons.
      rewrite <- (bsum_rev d (fun j => trev d (tmap d (f (m - i) j) (nth j x (tz d))))), rev_seq, bsum_map.
      apply bsum_ext_in. intros j Hj. apply in_seq in Hj.
      rewrite rev_nth by (rewrite map_length; lia). rewrite map_length, HL.
      rewrite (nth_map_in _ _ _ (tz d)) by lia. replace (S n - S j) with (n - j) by lia.
      rewrite trev_tmap. apply tmap_ext. intros v. rewrite <- (Hsym (m - i) (n - j)) by lia.
      replace (m - (m - i)) with i by lia. replace (n - (n - j)) with j by lia. reflexivity.
    - cbn [nth] in Hn. cbn [proj_axis trev]. rewrite map_rev, !map_map. f_equal. apply map_ext_in. intros y Hy.
      rewrite Forall_forall in Hall. apply (IHd ax f m n sh); auto. lia. Qed.
End Generic.
