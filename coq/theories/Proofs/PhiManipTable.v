(** The 14 pulse functions and the 5 constructors, as PhiManip.py wires them today (Model.PhiManip tables),
    on one strictly increasing grid shared by all axes (what dadi.Integration assumes):
    acceptance on the simplex, conservation, identity at proportion 0, pure split = copy,
    and what the proportion test really rejects. *)
From Coq Require Import String.
From Coq Require Import List Arith Bool ZArith Reals Lra Lia.
From Dadi Require Import Base.Num Base.NumR Model.Tridiag Model.Scheme Model.NDSweep Model.PhiManip
  Proofs.PhiManipSums Proofs.PhiManipDeposit Proofs.PhiManipND.
Import ListNotations.
Local Open Scope R_scope.

(** ** descriptor-level facts, by computation on the tables *)
Lemma pulse_table_wf : forallb wf_desc pulse_table = true. Proof. reflexivity. Qed.
Lemma cons_table_wf : forallb wf_desc cons_table = true. Proof. reflexivity. Qed.
(** the functions that hand over the destination's own grid for depositing and integrating ... *)
Lemma own_grid_functions :
  map pd_name (filter own_grid pulse_table) =
  ["phi_2D_admix_1_into_2"; "phi_2D_admix_2_into_1"; "phi_3D_admix_1_and_2_into_3"; "phi_3D_admix_1_and_3_into_2";
   "phi_3D_admix_2_and_3_into_1"; "phi_4D_admix_into_1"; "phi_4D_admix_into_2"; "phi_5D_admix_into_1"]%string.
Proof. reflexivity. Qed.
(** ... and those that pass another axis' grid (harmless on a shared grid) *)
Lemma other_grid_functions :
  map pd_name (filter (fun p => negb (own_grid p)) pulse_table) =
  ["phi_4D_admix_into_4"; "phi_4D_admix_into_3"; "phi_5D_admix_into_2"; "phi_5D_admix_into_3";
   "phi_5D_admix_into_4"; "phi_5D_admix_into_5"]%string.
Proof. reflexivity. Qed.

Lemma nth_repeat_lt {A} (a d : A) n j : (j < n)%nat -> nth j (repeat a n) d = a.
Proof. revert j. induction n; intros [|j] H; simpl; auto; try lia. apply IHn. lia. Qed.
Lemma nsum_nth_seq (cs : list R) d : length cs = d -> nsum (map (fun j => nth j cs 0) (seq 0 d)) = nsum cs.
Proof. intros <-. now rewrite map_nth_seq. Qed.

Section Shared.
  Variable g : list R.
  Hypothesis HL : (2 <= length g)%nat.
  Hypothesis Hinc : incr g.
  Let L := length g.

  (** a convex combination of grid coordinates lies inside the grid *)
  Lemma adz_in_range d (cs : list R) idx :
    length cs = d -> Forall (fun c => 0 <= c) cs -> nsum cs = 1 -> (idx < prodn (repeat L d))%nat ->
    nthF g 0 <= adfreq (repeat g d) cs (unflat (repeat L d) idx) <= nthF g (L - 1).
  Proof. intros Hc Hpos Hsum Hidx.
    rewrite (adfreq_as_sum _ _ _ d); auto; [|now rewrite repeat_length|now rewrite unflat_length, repeat_length].
    pose proof (unflat_lt _ _ Hidx) as Hlt.
    destruct (nsum_convex (fun j => nth j cs 0) (fun j => nthF (nth j (repeat g d) []) (nth j (unflat (repeat L d) idx) 0%nat))
                (nthF g 0) (nthF g (L - 1)) d) as [B1 B2].
    - intros j Hj. rewrite Forall_forall in Hpos. apply Hpos. apply nth_In. lia.
    - intros j Hj. rewrite nth_repeat_lt by auto.
      assert (Hn : (nth j (unflat (repeat L d) idx) 0 < L)%nat).
      { pose proof (Forall2_nth_lt _ _ j Hlt) as H. rewrite repeat_length in H. specialize (H Hj).
        now rewrite nth_repeat_lt in H by auto. }
      split; apply grid_mono; auto; unfold L in *; lia.
    - rewrite nsum_nth_seq, Hsum in * by auto. lra. Qed.

  (** ** every pulse wired to g for depositing and integrating, with convex coefficients: conservation *)
  Lemma shared_pulse_preserves d dest (cs phi : list R) (gs : list (list R)) :
    (dest < d)%nat -> length cs = d -> Forall (fun c => 0 <= c) cs -> nsum cs = 1 -> nth dest gs [] = g ->
    marginal_out (repeat L d) gs dest (pulse (repeat L d) (repeat g d) cs dest g g phi) = marginal_out (repeat L d) gs dest phi.
  Proof. intros Hd Hc Hpos Hsum Hg.
    apply pulse_preserves_others; auto.
    - now rewrite nth_repeat_lt.
    - intros o i q Ho Hi Hq. unfold dep_ok. apply Rgt_not_eq. apply dep_den_pos; auto.
      apply adz_in_range; auto.
      rewrite (prodn_split (repeat L d) dest) by (now rewrite repeat_length).
      set (len := nth dest (repeat L d) 0%nat) in *. set (inner := prodn (skipn (S dest) (repeat L d))) in *.
      set (outer := prodn (firstn dest (repeat L d))) in *.
      assert ((o * len + i + 1) <= outer * len)%nat by nia. nia. Qed.

  (** unit coefficient vector: the ad-mixed frequency is the coordinate along that axis *)
  Lemma adfreq_unit d dest (cs : list R) (ix : list nat) :
    (dest < d)%nat -> length cs = d -> length ix = d ->
    (forall j, (j < d)%nat -> nth j cs 0 = if Nat.eqb j dest then 1 else 0) ->
    adfreq (repeat g d) cs ix = nthF g (nth dest ix 0%nat).
  Proof. intros Hd Hc Hix Hu. rewrite (adfreq_as_sum _ _ _ d); auto; [|now rewrite repeat_length].
    rewrite (nsum_map_ext _ (fun j => if Nat.eqb j dest then nthF (nth j (repeat g d) []) (nth j ix 0%nat) else 0)).
    - rewrite (nsum_single0 (fun j => nthF (nth j (repeat g d) []) (nth j ix 0%nat))) by auto. now rewrite nth_repeat_lt.
    - intros j Hj. apply in_seq in Hj. rewrite Hu by lia. destruct (Nat.eqb j dest); lra. Qed.

  Lemma shared_pulse_unit d dest (cs phi : list R) :
    (dest < d)%nat -> length cs = d -> length phi = prodn (repeat L d) ->
    (forall j, (j < d)%nat -> nth j cs 0 = if Nat.eqb j dest then 1 else 0) ->
    pulse (repeat L d) (repeat g d) cs dest g g phi = phi.
  Proof. intros Hd Hc Hphi Hu. apply pulse_unit_is_identity; auto.
    - now rewrite nth_repeat_lt.
    - rewrite Hphi. apply prodn_split. now rewrite repeat_length.
    - intros o i q Ho Hi Hq. rewrite (adfreq_unit d dest); auto; [|now rewrite unflat_length, repeat_length].
      f_equal. apply unflat_nth_axis; auto. now rewrite repeat_length. Qed.

  (** ** new population with convex coefficients: integrating it out returns the incoming density *)
  Lemma shared_new_pop_exact d (cs phi : list R) (gs : list (list R)) :
    length cs = d -> Forall (fun c => 0 <= c) cs -> nsum cs = 1 -> length phi = prodn (repeat L d) -> length gs = d ->
    marginal_out (repeat L d ++ [L]) (gs ++ [g]) d (new_pop (repeat L d) (repeat g d) cs g phi) = phi.
  Proof. intros Hc Hpos Hsum Hphi Hgs.
    pose proof (new_pop_marginal_exact (repeat L d) (repeat g d) gs cs g phi) as H.
    rewrite repeat_length in H. apply H; auto.
    intros idx Hidx. unfold dep_ok. apply Rgt_not_eq. apply dep_den_pos; auto. apply adz_in_range; auto. Qed.

  (** unit coefficient vector at axis j: every entry is copied to the new-axis index equal to its j-th index,
      divided by the trapezoid weight -- a pure split is a copy of its parent *)
  Lemma shared_new_pop_unit_is_copy d j (cs phi : list R) :
    (j < d)%nat -> length cs = d ->
    (forall i, (i < d)%nat -> nth i cs 0 = if Nat.eqb i j then 1 else 0) ->
    new_pop (repeat L d) (repeat g d) cs g phi =
    flat_map (fun idx => map (fun k => if Nat.eqb k (nth j (unflat (repeat L d) idx) 0%nat) then nthF phi idx / trap_w g k else 0)
                             (seq 0 L)) (seq 0 (prodn (repeat L d))).
  Proof. intros Hj Hc Hu. unfold new_pop. apply flat_map_ext_in. intros idx Hidx. apply in_seq in Hidx.
    rewrite (adfreq_unit d j); auto; [|now rewrite unflat_length, repeat_length].
    assert (Hn : (nth j (unflat (repeat L d) idx) 0 < L)%nat).
    { pose proof (unflat_lt (repeat L d) idx ltac:(lia)) as Hlt.
      pose proof (Forall2_nth_lt _ _ j Hlt) as H. rewrite repeat_length in H. specialize (H Hj).
      now rewrite nth_repeat_lt in H by auto. }
    rewrite deposit_on_grid by auto. apply map_seq_ext. intros k Hk.
    destruct (Nat.eqb k (nth j (unflat (repeat L d) idx) 0%nat)) eqn:E; auto. apply Nat.eqb_eq in E. now rewrite E. Qed.
End Shared.

(** ** the tables *)
Definition simplex (ps : list R) : Prop := Forall (fun p => 0 <= p) ps /\ nsum ps <= 1.

Ltac in_table H := cbn [In pulse_table cons_table] in H; repeat (destruct H as [<- | H]); [.. | contradiction].
Ltac list_len ps H :=
  repeat (destruct ps as [|? ps]; cbn [length] in H; try discriminate H; try lia); clear H.
Ltac forall_inv :=
  repeat match goal with
  | H : Forall _ (_ :: _) |- _ => inversion H; clear H; subst
  | H : Forall _ [] |- _ => clear H
  end.
Ltac unfold_desc :=
  cbn [run_desc desc_args pd_args pd_dest pd_gdep pd_gint pd_axgrids pd_dim mkp map eval_arg nthF nth rest_of fold_left
       coefs_of app repeat Nat.sub] in *.

(** the proportion test on the simplex: never trips *)
Lemma simplex_not_rejected p ps : In p pulse_table \/ In p cons_table -> length ps = (pd_dim p - 1)%nat \/ pd_args p = [PZ 1] \/ pd_args p = [PZ 0] ->
  simplex ps -> rejected (desc_args p ps) = false.
Proof. intros [Hin | Hin] Hlen [Hpos Hsum]; in_table Hin; cbn [pd_dim pd_args mkp Nat.sub] in Hlen;
  try (destruct Hlen as [Hlen | [Hlen | Hlen]]; try discriminate Hlen);
  try reflexivity;
  try (list_len ps Hlen; forall_inv; unfold nsum in Hsum; cbn [fold_right] in Hsum; numR;
       unfold desc_args, rejected, nltb; cbn [pd_args mkp map eval_arg nthF nth rest_of fold_left lsum]; numR;
       try reflexivity;
       match goal with |- negb (Rleb ?a ?b) = false => replace (Rleb a b) with true; [reflexivity | symmetry; apply Rleb_true; lra] end). Qed.

Ltac simplex_hyps ps Hlen Hs :=
  destruct Hs as [Hpos Hsum]; list_len ps Hlen; forall_inv; unfold nsum in Hsum; cbn [fold_right] in Hsum; numR.
Ltac convex_side :=
  match goal with
  | |- (_ < _)%nat => lia
  | |- length _ = _ => reflexivity
  | |- Forall _ _ => repeat (apply Forall_cons; [numR; lra|]); apply Forall_nil
  | |- nsum _ = _ => unfold nsum; cbn [fold_right]; numR; lra
  | |- _ => idtac
  end.

(** ** all 14 pulse functions, shared grid, proportions in the simplex: accepted, and the joint density
    of the other populations (destination integrated out) is unchanged *)
Theorem pulse14_preserve_others p : In p pulse_table ->
  forall (g ps phi : list R) (gs' : list (list R)), (2 <= length g)%nat -> incr g ->
  length ps = (pd_dim p - 1)%nat -> simplex ps ->
  let d := pd_dim p in let sh := repeat (length g) d in
  exists r dest, pd_dest p = Some dest /\ run_desc p sh (repeat g d) ps phi = Some r /\
    (nth dest gs' [] = g -> marginal_out sh gs' dest r = marginal_out sh gs' dest phi).
Proof. intros Hin g ps phi gs' HL Hinc Hlen Hs d sh. subst d sh.
  assert (Hrej : rejected (desc_args p ps) = false) by (apply simplex_not_rejected; auto).
  unfold run_desc. rewrite Hrej. clear Hrej.
  in_table Hin; cbn [pd_dim mkp Nat.sub] in Hlen; simplex_hyps ps Hlen Hs; unfold_desc;
  (eexists; eexists; split; [reflexivity | split; [reflexivity | intros Hg]]);
  match goal with
  | |- marginal_out _ _ ?dest (pulse _ _ ?cs _ _ _ _) = _ =>
      let d := eval cbn [List.length] in (List.length cs) in
      apply (shared_pulse_preserves g HL Hinc d dest cs phi gs'); convex_side; try exact Hg
  end. Qed.

Ltac unit_side :=
  match goal with
  | |- (_ < _)%nat => lia
  | |- length _ = _ => first [reflexivity | assumption]
  | |- forall j, (j < _)%nat -> nth j _ _ = _ =>
      let j := fresh "j" in let Hj := fresh "Hj" in intros j Hj;
      repeat (destruct j as [|j]; [cbn [nth Nat.eqb]; numR; lra | try lia])
  | |- _ => idtac
  end.

(** ** all 14 pulse functions at proportion 0 are the identity *)
Theorem pulse14_zero_identity p : In p pulse_table ->
  forall (g phi : list R), (2 <= length g)%nat -> incr g ->
  let d := pd_dim p in let sh := repeat (length g) d in
  length phi = prodn sh ->
  run_desc p sh (repeat g d) (repeat 0 (d - 1)) phi = Some phi.
Proof. intros Hin g phi HL Hinc d sh Hphi. subst d sh.
  assert (Hrej : rejected (desc_args p (repeat 0 (pd_dim p - 1))) = false).
  { apply simplex_not_rejected; auto. { left. now rewrite repeat_length. }
    in_table Hin; (split; [cbn [pd_dim mkp Nat.sub repeat]; repeat (apply Forall_cons; [lra|]); apply Forall_nil
                          | cbn [pd_dim mkp Nat.sub repeat]; unfold nsum; cbn [fold_right]; numR; lra]). }
  unfold run_desc. rewrite Hrej. clear Hrej.
  in_table Hin; unfold_desc; f_equal;
  match goal with
  | |- pulse _ _ ?cs ?dest _ _ _ = _ =>
      let d := eval cbn [List.length] in (List.length cs) in
      apply (shared_pulse_unit g HL Hinc d dest cs phi); unit_side
  end. Qed.

(** ** the constructors 2->3 (admix, split_1, split_2), 3->4, 4->5 on a shared grid: accepted on the simplex and
    integrating the new population out returns the incoming density exactly *)
Theorem cons5_marginal_exact p : In p cons_table ->
  forall (g ps phi : list R) (gs' : list (list R)), (2 <= length g)%nat -> incr g ->
  (length ps = (pd_dim p - 1)%nat \/ pd_args p = [PZ 1] \/ pd_args p = [PZ 0]) -> simplex ps ->
  let d := pd_dim p in let sh := repeat (length g) d in
  length phi = prodn sh -> length gs' = d ->
  exists r, run_desc p sh (repeat g (S d)) ps phi = Some r /\
    marginal_out (sh ++ [length g]) (gs' ++ [g]) d r = phi.
Proof. intros Hin g ps phi gs' HL Hinc Hlen Hs d sh Hphi Hgs. subst d sh.
  assert (Hrej : rejected (desc_args p ps) = false) by (apply simplex_not_rejected; auto).
  unfold run_desc. rewrite Hrej. clear Hrej.
  in_table Hin; cbn [pd_dim pd_args mkp Nat.sub] in Hlen, Hgs;
  try (destruct Hlen as [Hlen | [Hlen | Hlen]]; try discriminate Hlen);
  match type of Hlen with
  | List.length _ = _ => simplex_hyps ps Hlen Hs
  | _ => clear Hlen
  end; unfold_desc;
  (eexists; split; [reflexivity|]);
  match goal with
  | |- marginal_out _ _ _ (new_pop _ _ ?cs _ _) = _ =>
      let d := eval cbn [List.length] in (List.length cs) in
      apply (shared_new_pop_exact g HL Hinc d cs phi gs'); convex_side; try assumption
  end. Qed.
