(** Main theorems on the cache-generation protocol: multi-process build = single-process build for every
    schedule, errors poison, split jobs. *)
From Coq Require Import List Arith Bool Lia Permutation FinFun.
From Dadi Require Import Model.Sched Proofs.SchedProofs.
Import ListNotations.

Section SchedMain.
  Variables G V E : Type.
  Variable f : G -> V + E.
  Notation job := (job G).
  Notation res := (@res V E).
  Notation run := (run G V E f).

  Lemma single_is_collect (js : list job) acc :
    single_slots G V E f js acc = collect V E (map run js) acc.
  Proof.
    revert acc; induction js as [|j js IH]; intros acc; [reflexivity|].
    cbn [single_slots map collect]. unfold Sched.run at 1. destruct (f (snd j)); [apply IH | reflexivity].
  Qed.

  Lemma res_or_err (l : list res) : Forall (is_res V E) l \/ exists e, In (ErrObj e) l.
  Proof.
    induction l as [|r l [IH|[e He]]]; [left; constructor| |right; exists e; right; exact He].
    destruct r as [i v|e]; [left; constructor; [exact I | exact IH] | right; exists e; left; reflexivity].
  Qed.

  Lemma ridx_run_ok (js : list job) : Forall (is_res V E) (map run js) ->
    map (ridx V E) (map run js) = map Some (map fst js).
  Proof.
    induction js as [|j js IH]; intros HF; [reflexivity|]. cbn [map] in *. inversion HF; subst.
    rewrite IH by assumption. f_equal. unfold Sched.run in *. destruct (f (snd j)); [reflexivity | contradiction].
  Qed.

  (** *** every complete interleaving builds exactly what the sequential loop builds (also in the presence of errors) *)
  Lemma build_slots_is_single k n (js : list job) sigma :
    NoDup (map fst js) -> done G V E (exec G V E f k js sigma) ->
    build_slots G V E f k n js sigma = single_slots G V E f js (repeat None n).
  Proof.
    intros HN Hd. unfold build_slots. rewrite single_is_collect.
    pose proof (done_results G V E f k js sigma Hd) as P.
    destruct (res_or_err (map run js)) as [HF|[e He]].
    - symmetry. apply collect_perm; [symmetry; exact P | exact HF |].
      rewrite ridx_run_ok by exact HF. apply Injective_map_NoDup; [|exact HN]. intros a b Hab; congruence.
    - rewrite !collect_error; [reflexivity | exists e; exact He |].
      exists e. eapply Permutation_in; [symmetry; exact P | exact He].
  Qed.

  Lemma map_fst_combine_seq {A} a (l : list A) : map fst (combine (seq a (length l)) l) = seq a (length l).
  Proof. revert a; induction l as [|x l IH]; intros a; [reflexivity|]. cbn. f_equal. apply IH. Qed.
  Lemma jobs_NoDup (gammas : list G) : NoDup (map fst (jobs_of G gammas)).
  Proof. unfold jobs_of. rewrite map_fst_combine_seq. apply seq_NoDup. Qed.
  Lemma filter_NoDup_fst (p : job -> bool) (js : list job) : NoDup (map fst js) -> NoDup (map fst (filter p js)).
  Proof.
    induction js as [|j js IH]; intros HN; [constructor|]. cbn [map] in HN. inversion HN; subst.
    cbn [filter]. destruct (p j); [|apply IH; assumption]. cbn [map]. constructor; [|apply IH; assumption].
    intros Hin. apply H1. apply in_map_iff in Hin. destruct Hin as [x [Hx Hf]]. apply filter_In in Hf.
    apply in_map_iff. exists x. tauto.
  Qed.

  Theorem schedule_independent_1d k (gammas : list G) sigma :
    done G V E (exec G V E f k (jobs_of G gammas) sigma) ->
    build1d G V E f k gammas sigma = single1d G V E f gammas.
  Proof.
    intros Hd. unfold build1d, single1d. rewrite build_slots_is_single; [reflexivity | apply jobs_NoDup | exact Hd].
  Qed.

  Theorem schedule_independent_split k s id (gammas : list G) sigma :
    done G V E (exec G V E f k (split_filter G s id (jobs_of G gammas)) sigma) ->
    build_split G V E f k s id gammas sigma = single_split G V E f s id gammas.
  Proof.
    intros Hd. unfold build_split, single_split. apply build_slots_is_single; [|exact Hd].
    unfold split_filter. apply filter_NoDup_fst, jobs_NoDup.
  Qed.

  (** *** what the sequential loop builds *)
  Lemma set_nth_app {A} (pre : list A) x y rest : set_nth (length pre) x (pre ++ y :: rest) = pre ++ x :: rest.
  Proof. induction pre; cbn; congruence. Qed.

  Lemma single_slots_ok (gs : list G) : forall (vals : list V) (pre : list (option V)) post,
    map f gs = map inl vals ->
    single_slots G V E f (combine (seq (length pre) (length gs)) gs) (pre ++ repeat None (length gs) ++ post)
    = Some (pre ++ map Some vals ++ post).
  Proof.
    induction gs as [|g gs IH]; intros vals pre post Hm.
    - destruct vals; [reflexivity | discriminate].
    - destruct vals as [|v vals]; [discriminate|]. cbn [map] in Hm. inversion Hm as [[Hg Hrest]].
      cbn [length seq combine single_slots fst snd repeat app]. rewrite Hg.
      rewrite set_nth_app.
      replace (pre ++ Some v :: repeat None (length gs) ++ post) with ((pre ++ [Some v]) ++ repeat None (length gs) ++ post)
        by (rewrite <- app_assoc; reflexivity).
      replace (S (length pre)) with (length (pre ++ [Some v])) by (rewrite app_length; cbn; lia).
      rewrite (IH vals (pre ++ [Some v]) post Hrest). rewrite <- app_assoc. reflexivity.
  Qed.

  Lemma all_some_map (vals : list V) : all_some V (map Some vals) = Some vals.
  Proof. induction vals; cbn; [reflexivity|]. rewrite IHvals. reflexivity. Qed.

  Lemma single1d_ok (gammas : list G) (vals : list V) : map f gammas = map inl vals -> single1d G V E f gammas = Some vals.
  Proof.
    intros Hm. unfold single1d, jobs_of.
    pose proof (single_slots_ok gammas vals [] [] Hm) as Hs. cbn [length app] in Hs. rewrite !app_nil_r in Hs.
    rewrite Hs. apply all_some_map.
  Qed.

  Lemma single_slots_err (js : list job) acc j e : In j js -> f (snd j) = inr e -> single_slots G V E f js acc = None.
  Proof.
    revert acc; induction js as [|j0 js IH]; intros acc Hin He; [destruct Hin|].
    cbn [single_slots]. destruct (f (snd j0)) eqn:E0; [|reflexivity].
    destruct Hin as [->|Hin]; [congruence|]. apply IH; assumption.
  Qed.

  Lemma in_jobs_of (gammas : list G) g : In g gammas -> exists i, In (i, g) (jobs_of G gammas).
  Proof.
    unfold jobs_of. generalize 0. induction gammas as [|x l IH]; intros a Hin; [destruct Hin|].
    cbn [length seq combine]. destruct Hin as [->|Hin].
    - exists a. left; reflexivity.
    - destruct (IH (S a) Hin) as [i Hi]. exists i. right; exact Hi.
  Qed.

  Lemma single1d_err (gammas : list G) g e : In g gammas -> f g = inr e -> single1d G V E f gammas = None.
  Proof.
    intros Hin He. unfold single1d. destruct (in_jobs_of gammas g Hin) as [i Hi].
    rewrite (single_slots_err _ _ (i, g) e Hi He). reflexivity.
  Qed.

  (** *** the statements used in Props/C17.v *)
  Theorem cache_schedule_independent k (gammas : list G) (vals : list V) sigma :
    map f gammas = map inl vals ->
    done G V E (exec G V E f k (jobs_of G gammas) sigma) ->
    build1d G V E f k gammas sigma = Some vals.
  Proof. intros Hm Hd. rewrite schedule_independent_1d by exact Hd. apply single1d_ok, Hm. Qed.

  Theorem worker_error_poisons k (gammas : list G) sigma g e :
    In g gammas -> f g = inr e ->
    done G V E (exec G V E f k (jobs_of G gammas) sigma) ->
    build1d G V E f k gammas sigma = None.
  Proof. intros Hin He Hd. rewrite schedule_independent_1d by exact Hd. eapply single1d_err; eauto. Qed.

  (** never silently absorbed: a cache is produced only if no job raised, and then it is map f *)
  Theorem build_some_only_if_no_error k (gammas : list G) sigma c :
    done G V E (exec G V E f k (jobs_of G gammas) sigma) ->
    build1d G V E f k gammas sigma = Some c -> map f gammas = map inl c.
  Proof.
    intros Hd Hb. rewrite schedule_independent_1d in Hb by exact Hd.
    assert (Hall : (exists vals, map f gammas = map inl vals) \/ (exists g e, In g gammas /\ f g = inr e)).
    { clear. induction gammas as [|g l [[vals Hv]|[g' [e [Hin He]]]]].
      - left; exists []; reflexivity.
      - destruct (f g) as [v|e] eqn:Eg.
        + left; exists (v :: vals); cbn; rewrite Eg, Hv; reflexivity.
        + right; exists g, e; split; [left; reflexivity | exact Eg].
      - right; exists g', e; split; [right; exact Hin | exact He]. }
    destruct Hall as [[vals Hv]|[g [e [Hin He]]]].
    - rewrite (single1d_ok gammas vals Hv) in Hb. inversion Hb; subst. exact Hv.
    - rewrite (single1d_err gammas g e Hin He) in Hb. discriminate.
  Qed.

  (** *** complete schedules exist for every number of workers >= 1 (non-vacuity of [done]) *)
  Lemma step_pop k j (q : list job) rs : 0 < k ->
    step G V E f k (@mk G V E (j :: q) [] rs) 0 = @mk G V E q [(0, j)] rs.
  Proof. intros Hk. unfold step. destruct (Nat.leb k 0) eqn:Ek; [apply Nat.leb_le in Ek; lia|]. reflexivity. Qed.
  Lemma step_push k j (q : list job) rs : 0 < k ->
    step G V E f k (@mk G V E q [(0, j)] rs) 0 = @mk G V E q [] (rs ++ [run j]).
  Proof. intros Hk. unfold step. destruct (Nat.leb k 0) eqn:Ek; [apply Nat.leb_le in Ek; lia|]. reflexivity. Qed.
  Lemma sequential_schedule_done_aux k (q : list job) rs : 0 < k ->
    exists s', fold_left (step G V E f k) (repeat 0 (2 * length q)) (@mk G V E q [] rs) = s' /\ done G V E s'.
  Proof.
    intros Hk. revert rs; induction q as [|j q IH]; intros rs.
    - eexists; split; [reflexivity | split; reflexivity].
    - replace (2 * length (j :: q)) with (S (S (2 * length q))) by (cbn; lia).
      cbn [repeat fold_left]. rewrite step_pop, step_push by exact Hk. apply IH.
  Qed.
  Theorem complete_schedule_exists k (js : list job) : 0 < k -> exists sigma, done G V E (exec G V E f k js sigma).
  Proof.
    intros Hk. exists (repeat 0 (2 * length js)). unfold exec, init.
    destruct (sequential_schedule_done_aux k js [] Hk) as [s' [Hs Hd]]. rewrite Hs. exact Hd.
  Qed.
End SchedMain.
