(** * FastSpec: error bounds of the fast exponentials against the real exponential.
    - [Qexp_fast] (Model/QFast.v, 96-bit fixed point on Z; the [nexp] slot of the dictionary NumQfast used by C11):
        xf = floor(x 2^96), k = floor((2 xf + L)/(2 L)), r = xf - k L (L = QFast.fln2), 22-term Taylor at r 2^-96
        (arguments of either sign: every floor is toward -infinity), result t 2^k / 2^96.
        |Qexp_fast x - exp x| <= exp x (133 + B/10) 2^-96  for |x| <= B <= 2^64;   <= exp x 2^-88 for |x| <= 1024.
    - [Dexp_fast] (Model/DFast.v, 160-bit fixed point on Bignums; the [nexp] slot of NumDF used by C01):
        same reduction with L = NumQ.fln2, 18-term Taylor at (r >> 6) 2^-160, 6 squarings, Dnorm.
        |Dexp_fast x - exp x| <= exp x 2^-126 for |x| <= 2^16 (every input, normalised or not). *)
From Coq Require Import ZArith QArith Qreduction Qabs Qreals Reals Lia Lra Psatz.
From Interval Require Import Tactic.
From Bignums Require Import BigZ.
From Dadi Require Import Base.Num Base.NumQ Base.NumD Proofs.NumDSpec Proofs.QexpSpec Proofs.NumDTrans
  Proofs.FixSeries Proofs.QlnSpec Model.QFast Model.DFast.
Local Open Scope R_scope.

(** ** real-number lemmas *)
Lemma exp_small t : - (1 / 2) <= t <= 1 / 2 -> - (2 * Rabs t) <= exp t - 1 <= 2 * Rabs t.
Proof.
  intro Ht. pose proof (exp_ineq1_le t) as H1. pose proof (exp_ineq1_le (- t)) as H2. rewrite exp_Ropp in H2.
  pose proof (exp_pos t) as Hp.
  assert (H3 : exp t * (1 - t) <= 1).
  { assert (/ exp t * exp t = 1) by (apply Rinv_l; lra). nra. }
  unfold Rabs. destruct (Rcase_abs t) as [Hn | Hn].
  - split; [lra |]. assert (exp t <= 1); [| lra]. nra.
  - split; [lra |]. assert (exp t <= 1 + 2 * t); [| lra].
    apply Rmult_le_reg_r with (1 - t); [lra |]. nra.
Qed.

Lemma Rabs_mul_le a b A B : Rabs a <= A -> Rabs b <= B -> Rabs (a * b) <= A * B.
Proof.
  intros Ha Hb. rewrite Rabs_mult. apply Rmult_le_compat; try apply Rabs_pos; assumption.
Qed.

(** the reduction x = k ln 2 + r in fixed point with w = 2^p, and the reconstruction T 2^k *)
Lemma exp_reduce_R (xr w XF K LL RR T c eta : R) (k : Z) :
  0 < w -> K = IZR k -> xr * w - 1 < XF <= xr * w -> RR = XF - K * LL ->
  - (c / w) <= LL / w - ln 2 <= c / w -> 0 <= c ->
  (Rabs K * c + 1) / w <= 1 / 2 ->
  0 <= eta <= 1 ->
  - (eta * exp (RR / w)) <= T - exp (RR / w) <= eta * exp (RR / w) ->
  Rabs (T * powerRZ 2 k - exp xr) <= (eta + 4 * ((Rabs K * c + 1) / w)) * exp xr.
Proof.
  intros Hw HK Hxf Hr Hl Hc Htau Heta HT.
  assert (Hiw : 0 < / w) by (apply Rinv_0_lt_compat, Hw).
  set (tau := (Rabs K * c + 1) / w) in *.
  set (theta := xr - XF / w).
  assert (Hth : 0 <= theta < / w).
  { unfold theta, Rdiv. assert (E : xr = xr * w * / w) by (field; lra).
    split.
    - assert (XF * / w <= xr * w * / w) by (apply Rmult_le_compat_r; lra). lra.
    - assert ((xr * w - 1) * / w < XF * / w) by (apply Rmult_lt_compat_r; lra).
      replace ((xr * w - 1) * / w) with (xr * w * / w - / w) in * by ring. lra. }
  set (lam := LL / w - ln 2) in *.
  set (sigma := K * lam + theta).
  assert (Hsig : - tau <= sigma <= tau).
  { assert (Hkl : Rabs (K * lam) <= Rabs K * (c / w)).
    { apply Rabs_mul_le; [lra | apply Rabs_le_iff; lra]. }
    apply Rabs_le_iff in Hkl. unfold sigma, tau, Rdiv in *. lra. }
  assert (Ex : xr = RR / w + K * ln 2 + sigma).
  { unfold sigma, lam, theta. rewrite Hr. field. lra. }
  set (G := exp (RR / w)) in *. set (P := powerRZ 2 k).
  assert (HP : P = exp (K * ln 2)) by (unfold P; rewrite HK, exp_kln2; reflexivity).
  assert (HG : 0 < G) by apply exp_pos. assert (HP0 : 0 < P) by apply powerRZ2_pos.
  set (E := exp xr). assert (HE : 0 < E) by apply exp_pos.
  set (Si := exp (- sigma)).
  assert (HPG : P * G = E * Si).
  { unfold E, Si, G. rewrite HP, Ex. rewrite <- !exp_plus. f_equal. ring. }
  assert (Htau0 : 0 <= tau) by lra.
  assert (HSi : - (2 * tau) <= Si - 1 <= 2 * tau).
  { pose proof (exp_small (- sigma) ltac:(lra)) as H. fold Si in H.
    assert (Rabs (- sigma) <= tau) by (apply Rabs_le_iff; lra). lra. }
  assert (EE : T * P - E = P * (T - G) + E * (Si - 1)) by (first [lra | nra]).
  rewrite EE. clear EE.
  set (a := T - G) in *.
  assert (Ha : - (eta * (E * Si)) <= P * a <= eta * (E * Si)).
  { rewrite <- HPG. split; nra. }
  assert (HSi0 : 0 <= Si <= 1 + 2 * tau) by lra.
  assert (H1 : eta * (E * Si) <= eta * E + 2 * tau * E).
  { assert (eta * (E * Si) <= eta * (E * (1 + 2 * tau))).
    { apply Rmult_le_compat_l; [lra |]. apply Rmult_le_compat_l; lra. }
    assert (eta * E * (2 * tau) <= 1 * E * (2 * tau)).
    { apply Rmult_le_compat_r; [lra |]. apply Rmult_le_compat_r; lra. }
    lra. }
  assert (H2 : - (2 * tau * E) <= E * (Si - 1) <= 2 * tau * E) by (split; nra).
  apply Rabs_le_iff. split; lra.
Qed.

Lemma k_bound_R xr w XF K LL RR : 1000 <= w -> xr * w - 1 < XF <= xr * w -> RR = XF - K * LL ->
  - LL <= 2 * RR <= LL -> 69 / 100 * w <= LL <= 7 / 10 * w -> Rabs K <= 29 / 20 * Rabs xr + 1.
Proof.
  intros Hw Hxf Hr Hrr HL.
  assert (Hax : - Rabs xr <= xr <= Rabs xr) by (apply Rabs_le_iff; lra).
  destruct (Rle_lt_dec 0 K) as [HK | HK].
  - rewrite (Rabs_pos_eq K HK).
    assert (H1 : K * (69 / 100 * w) <= K * LL) by (apply Rmult_le_compat_l; lra).
    assert (H2 : K * (69 / 100) * w <= (xr + 7 / 20) * w) by lra.
    assert (H3 : K * (69 / 100) <= xr + 7 / 20) by (apply Rmult_le_reg_r with w; lra).
    lra.
  - rewrite (Rabs_left K HK).
    assert (H1 : (- K) * (69 / 100 * w) <= (- K) * LL) by (apply Rmult_le_compat_l; lra).
    assert (H2 : (- K) * (69 / 100) * w <= (- xr + 7 / 20 + 1 / 1000) * w) by lra.
    assert (H3 : (- K) * (69 / 100) <= - xr + 7 / 20 + 1 / 1000) by (apply Rmult_le_reg_r with w; lra).
    lra.
Qed.

(** the integer side of the reduction *)
Lemma reduce_Z xf L : (0 < L)%Z ->
  let k := ((2 * xf + L) / (2 * L))%Z in let r := (xf - k * L)%Z in (- L <= 2 * r < L)%Z.
Proof.
  intros HL k r. pose proof (Z.div_mod (2 * xf + L) (2 * L) ltac:(lia)) as Hd.
  pose proof (Z.mod_pos_bound (2 * xf + L) (2 * L) ltac:(lia)) as Hm. fold k in Hd. unfold r. nia.
Qed.

Lemma Rtaylor_poly n y : Rtaylor n 1 y 1 1 = sum_f_R0 (expterm y) n.
Proof.
  pose proof (Rtaylor_sum n 0 y) as H. cbn [Nat.add] in H. rewrite <- H.
  assert (E0 : expterm y 0 = 1) by (unfold expterm; cbn [fact pow INR]; field).
  cbn [sum_f_R0]. rewrite E0. cbn [INR]. reflexivity.
Qed.

(** from the integer Taylor value to a relative bound: |t/w - exp y| <= (4 n + 1)/w, exp y >= 7/10 *)
Lemma taylor_rel t w P y n4 : 0 < w -> - n4 <= t - w * P <= n4 -> - / w <= P - exp y <= / w -> 7 / 10 <= exp y ->
  0 <= n4 ->
  - ((n4 + 1) * (10 / 7) / w * exp y) <= t / w - exp y <= (n4 + 1) * (10 / 7) / w * exp y.
Proof.
  intros Hw Ht HP He Hn. assert (Hiw : 0 < / w) by (apply Rinv_0_lt_compat, Hw).
  assert (E : t / w - exp y = (t - w * P) * / w + (P - exp y)) by (field; lra). rewrite E.
  assert (H1 : - (n4 * / w) <= (t - w * P) * / w <= n4 * / w) by (split; nra).
  set (G := exp y) in *.
  assert (H2 : (n4 + 1) * / w <= (n4 + 1) * (10 / 7) / w * G).
  { unfold Rdiv. assert (0 <= (n4 + 1) * / w) by nra. nra. }
  lra.
Qed.

(** ** Qexp_fast *)
Definition Vf : R := IZR ffp1.
Lemma ffp1_pos : (0 < ffp1)%Z. Proof. vm_compute. reflexivity. Qed.
Lemma Vf_pos : 0 < Vf. Proof. apply IZR_lt, ffp1_pos. Qed.
Lemma Vf_val : Vf = 2 ^ 96. Proof. unfold Vf. rewrite pow_IZR. f_equal. Qed.
Lemma W_Vf : W ffp = Vf. Proof. reflexivity. Qed.
Lemma ffp_nonneg : (0 <= ffp)%Z. Proof. unfold ffp. lia. Qed.
Lemma Vf_big : 1000 <= Vf. Proof. rewrite Vf_val. lra. Qed.

Lemma fexp_taylor_fast_g : forall n k x term acc, fexp_taylor_fast n k x term acc = gtaylor ffp n k x term acc.
Proof. induction n as [| n IH]; intros; cbn [fexp_taylor_fast gtaylor]; [reflexivity | apply IH]. Qed.

Lemma Lf_pos : (0 < QFast.fln2)%Z. Proof. vm_compute. reflexivity. Qed.
Lemma Lf_spec : - ((1 / 60) / Vf) <= IZR QFast.fln2 / Vf - ln 2 <= (1 / 60) / Vf.
Proof. rewrite Vf_val. unfold QFast.fln2. split; interval with (i_prec 200). Qed.
Lemma Lf_range : 69 / 100 * Vf <= IZR QFast.fln2 <= 7 / 10 * Vf.
Proof. rewrite Vf_val. unfold QFast.fln2. split; lra. Qed.

Lemma T22_near_exp y : - (35 / 100) <= y <= 35 / 100 -> Rabs (Rtaylor 22 1 y 1 1 - exp y) <= / 2 ^ 100.
Proof.
  intro Hy. cbn [Rtaylor].
  interval with (i_prec 150, i_taylor y, i_degree 26).
Qed.
Lemma exp_m35 : 7 / 10 <= exp (- (35 / 100)). Proof. interval with (i_prec 40). Qed.

Lemma Qfast_result_R (t k : Z) :
  Q2R (if (0 <=? k)%Z then Qred ((t * 2 ^ k) # (Z.to_pos ffp1)) else Qred (t # (Z.to_pos (ffp1 * 2 ^ (- k))))) =
  IZR t / Vf * powerRZ 2 k.
Proof.
  pose proof Vf_pos as HV.
  destruct (Z.leb_spec 0 k) as [Hk | Hk].
  - rewrite (Qeq_eqR _ _ (Qred_correct _)). unfold Q2R. cbn [Qnum Qden].
    rewrite (Z2Pos.id ffp1 ffp1_pos), mult_IZR, (powerRZ2_IZR k Hk). fold Vf. field. lra.
  - rewrite (Qeq_eqR _ _ (Qred_correct _)). unfold Q2R. cbn [Qnum Qden].
    assert (H2 : (0 < 2 ^ (- k))%Z) by (apply Z.pow_pos_nonneg; lia).
    rewrite Z2Pos.id by (pose proof ffp1_pos; nia).
    rewrite mult_IZR, <- (powerRZ2_IZR (- k)) by lia. fold Vf.
    pose proof (powerRZ2_opp k) as Ho. pose proof (powerRZ2_pos k) as H1. pose proof (powerRZ2_pos (- k)) as H3.
    set (a := powerRZ 2 k) in *. set (b := powerRZ 2 (- k)) in *.
    replace a with (/ b).
    + field. split; lra.
    + apply Rmult_eq_reg_r with b; [| lra]. rewrite Rinv_l by lra. lra.
Qed.

Lemma to_ffix_R (x : Q) : Q2R x * Vf - 1 < IZR (to_ffix x) <= Q2R x * Vf.
Proof.
  unfold to_ffix. pose proof (Zdiv_R (Qnum x * ffp1) (Zpos (Qden x)) ltac:(lia)) as H.
  rewrite mult_IZR in H. fold Vf in H.
  replace (IZR (Qnum x) * Vf / IZR (Z.pos (Qden x))) with (Q2R x * Vf) in H by (unfold Q2R, Rdiv; ring).
  exact H.
Qed.

(** generic assembly: all concrete integers abstracted to real variables *)
Lemma exp_fast_assemble (xr w XF K LL RR t P c n4 B : R) (k : Z) :
  1000 <= w -> K = IZR k -> xr * w - 1 < XF <= xr * w -> RR = XF - K * LL -> - LL <= 2 * RR <= LL ->
  69 / 100 * w <= LL <= 7 / 10 * w ->
  - (c / w) <= LL / w - ln 2 <= c / w -> 0 <= c <= 1 ->
  Rabs xr <= B -> (29 / 20 * B + 2) / w <= 1 / 2 ->
  - n4 <= t - w * P <= n4 -> - / w <= P - exp (RR / w) <= / w -> 0 <= n4 -> (n4 + 1) * (10 / 7) / w <= 1 ->
  Rabs (t / w * powerRZ 2 k - exp xr) <= ((n4 + 1) * (10 / 7) + 4 * ((29 / 20 * B + 1) * c + 1)) / w * exp xr.
Proof.
  intros Hw HK Hxf Hr Hrr HL Hl Hc HB HBw Ht HP Hn Heta1.
  assert (Hw0 : 0 < w) by lra. assert (Hiw : 0 < / w) by (apply Rinv_0_lt_compat, Hw0).
  pose proof (k_bound_R xr w XF K LL RR Hw Hxf Hr Hrr HL) as HKb.
  assert (HKB : Rabs K <= 29 / 20 * B + 1) by lra.
  assert (Hy : - (35 / 100) <= RR / w <= 35 / 100).
  { unfold Rdiv. split.
    - apply Rmult_le_reg_r with w; [lra |]. rewrite Rmult_assoc, Rinv_l by lra. lra.
    - apply Rmult_le_reg_r with w; [lra |]. rewrite Rmult_assoc, Rinv_l by lra. lra. }
  assert (He : 7 / 10 <= exp (RR / w)).
  { eapply Rle_trans; [apply exp_m35 |]. apply exp_le. lra. }
  pose proof (taylor_rel t w P (RR / w) n4 Hw0 Ht HP He Hn) as HT.
  set (eta := (n4 + 1) * (10 / 7) / w) in *.
  assert (Heta : 0 <= eta <= 1).
  { split; [| exact Heta1]. unfold eta, Rdiv. apply Rmult_le_pos; [| lra]. apply Rmult_le_pos; lra. }
  assert (HKc : Rabs K * c <= (29 / 20 * B + 1) * c).
  { apply Rmult_le_compat_r; lra. }
  assert (HKc1 : Rabs K * c <= (29 / 20 * B + 1) * 1).
  { apply Rmult_le_compat; try lra. apply Rabs_pos. }
  assert (Htau : (Rabs K * c + 1) / w <= 1 / 2).
  { eapply Rle_trans; [| exact HBw]. unfold Rdiv. apply Rmult_le_compat_r; lra. }
  pose proof (exp_reduce_R xr w XF K LL RR (t / w) c eta k Hw0 HK Hxf Hr Hl ltac:(lra) Htau Heta HT) as Hmain.
  eapply Rle_trans; [exact Hmain |].
  apply Rmult_le_compat_r; [left; apply exp_pos |].
  assert (Hm : (Rabs K * c + 1) / w <= ((29 / 20 * B + 1) * c + 1) / w).
  { unfold Rdiv. apply Rmult_le_compat_r; lra. }
  unfold eta, Rdiv in *. lra.
Qed.

Theorem Qexp_fast_spec_gen : forall (x : Q) (B : R), Rabs (Q2R x) <= B -> B <= 2 ^ 64 ->
  Rabs (Q2R (Qexp_fast x) - exp (Q2R x)) <= (133 + B / 10) / 2 ^ 96 * exp (Q2R x).
Proof.
  intros x B HB HB64. pose proof Vf_pos as HV. pose proof Vf_big as HVb.
  unfold Qexp_fast. cbv zeta.
  set (xf := to_ffix x). set (k := ((2 * xf + QFast.fln2) / (2 * QFast.fln2))%Z).
  set (r := (xf - k * QFast.fln2)%Z).
  rewrite Qfast_result_R.
  pose proof (reduce_Z xf QFast.fln2 Lf_pos) as Hrz. cbv zeta in Hrz. fold k r in Hrz.
  assert (Hrr : - IZR QFast.fln2 <= 2 * IZR r <= IZR QFast.fln2).
  { destruct Hrz as [H1 H2]. apply IZR_le in H1. apply IZR_lt in H2.
    rewrite opp_IZR in H1. rewrite mult_IZR in H1, H2. lra. }
  assert (Hr : IZR r = IZR xf - IZR k * IZR QFast.fln2).
  { unfold r. rewrite minus_IZR, mult_IZR. reflexivity. }
  assert (Hy : - (35 / 100) <= IZR r / Vf <= 35 / 100).
  { pose proof Lf_range as HL. unfold Rdiv. assert (Hi : 0 < / Vf) by (apply Rinv_0_lt_compat, HV). split.
    - apply Rmult_le_reg_r with Vf; [lra |]. rewrite Rmult_assoc, Rinv_l by lra. lra.
    - apply Rmult_le_reg_r with Vf; [lra |]. rewrite Rmult_assoc, Rinv_l by lra. lra. }
  (* the Taylor loop *)
  rewrite fexp_taylor_fast_g.
  pose proof (gtaylor_inv ffp ffp_nonneg 22 1 r ffp1 ffp1 Vf Vf 0 0 (IZR r / Vf)) as HT.
  rewrite W_Vf in HT.
  assert (HT' : - (0 + 4 * INR 22) <= IZR (gtaylor ffp 22 1 r ffp1 ffp1) - Rtaylor 22 1 (IZR r / Vf) Vf Vf <= 0 + 4 * INR 22).
  { apply HT; try lia; try reflexivity; try lra; fold Vf; lra. }
  clear HT. replace (INR 22) with 22 in HT' by (rewrite INR_IZR_INZ; reflexivity).
  set (t := gtaylor ffp 22 1 r ffp1 ffp1) in *. clearbody t.
  assert (Esc : Rtaylor 22 1 (IZR r / Vf) Vf Vf = Vf * Rtaylor 22 1 (IZR r / Vf) 1 1).
  { rewrite <- Rtaylor_scale. f_equal; ring. }
  rewrite Esc in HT'.
  pose proof (T22_near_exp (IZR r / Vf) Hy) as HP. apply Rabs_le_iff in HP.
  assert (Hsm : / 2 ^ 100 <= / Vf).
  { rewrite Vf_val. apply Rinv_le_contravar; [apply pow_lt; lra | apply Rle_pow; [lra | lia]]. }
  set (P := Rtaylor 22 1 (IZR r / Vf) 1 1) in *. clearbody P.
  pose proof (exp_fast_assemble (Q2R x) Vf (IZR xf) (IZR k) (IZR QFast.fln2) (IZR r) (IZR t) P (1 / 60) 88 B k
    HVb eq_refl (to_ffix_R x) Hr Hrr Lf_range Lf_spec ltac:(lra) HB) as HA.
  assert (H64 : (29 / 20 * B + 2) / Vf <= 1 / 2).
  { rewrite Vf_val. unfold Rdiv. apply Rmult_le_reg_r with (2 ^ 96); [apply pow_lt; lra |].
    rewrite Rmult_assoc, Rinv_l by (apply Rgt_not_eq, pow_lt; lra). lra. }
  assert (H88 : (88 + 1) * (10 / 7) / Vf <= 1).
  { rewrite Vf_val. lra. }
  specialize (HA H64 ltac:(lra) ltac:(lra) ltac:(lra) H88).
  eapply Rle_trans; [exact HA |]. apply Rmult_le_compat_r; [left; apply exp_pos |].
  rewrite <- Vf_val. unfold Rdiv. apply Rmult_le_compat_r; [left; apply Rinv_0_lt_compat, HV |].
  assert (0 <= B) by (eapply Rle_trans; [apply Rabs_pos | exact HB]). lra.
Qed.

Theorem Qexp_fast_spec : forall x : Q, (Qabs x <= 1024)%Q ->
  Rabs (Q2R (Qexp_fast x) - exp (Q2R x)) <= exp (Q2R x) / 2 ^ 88.
Proof.
  intros x Hx. apply Qle_Rle in Hx. rewrite Q2R_Qabs in Hx.
  replace (Q2R 1024) with 1024 in Hx by (unfold Q2R; cbn [Qnum Qden]; lra).
  pose proof (Qexp_fast_spec_gen x 1024 Hx ltac:(lra)) as H.
  eapply Rle_trans; [exact H |]. unfold Rdiv. rewrite (Rmult_comm (exp (Q2R x))).
  apply Rmult_le_compat_r; [left; apply exp_pos |]. lra.
Qed.

(** ** Dexp_fast *)
Local Notation zz := BigZ.to_Z.

Lemma exp_fast_assemble2 (xr w XF K LL RR T c eta B : R) (k : Z) :
  1000 <= w -> K = IZR k -> xr * w - 1 < XF <= xr * w -> RR = XF - K * LL -> - LL <= 2 * RR <= LL ->
  69 / 100 * w <= LL <= 7 / 10 * w ->
  - (c / w) <= LL / w - ln 2 <= c / w -> 0 <= c ->
  Rabs xr <= B -> ((29 / 20 * B + 1) * c + 1) / w <= 1 / 2 -> 0 <= eta <= 1 ->
  - (eta * exp (RR / w)) <= T - exp (RR / w) <= eta * exp (RR / w) ->
  Rabs (T * powerRZ 2 k - exp xr) <= (eta + 4 * (((29 / 20 * B + 1) * c + 1) / w)) * exp xr.
Proof.
  intros Hw HK Hxf Hr Hrr HL Hl Hc HB HBw Heta HT.
  assert (Hw0 : 0 < w) by lra. assert (Hiw : 0 < / w) by (apply Rinv_0_lt_compat, Hw0).
  pose proof (k_bound_R xr w XF K LL RR Hw Hxf Hr Hrr HL) as HKb.
  assert (HKB : Rabs K <= 29 / 20 * B + 1) by lra.
  assert (HKc : Rabs K * c <= (29 / 20 * B + 1) * c) by (apply Rmult_le_compat_r; lra).
  assert (Hm : (Rabs K * c + 1) / w <= ((29 / 20 * B + 1) * c + 1) / w).
  { unfold Rdiv. apply Rmult_le_compat_r; lra. }
  pose proof (exp_reduce_R xr w XF K LL RR T c eta k Hw0 HK Hxf Hr Hl Hc ltac:(lra) Heta HT) as Hmain.
  eapply Rle_trans; [exact Hmain |].
  apply Rmult_le_compat_r; [left; apply exp_pos |]. lra.
Qed.

(** the squared Taylor value against exp of the unshifted remainder:  y' = floor(r/64)/w,  64 y' in (r/w - 64/w, r/w] *)
Lemma shift6_rel (T G' G a d : R) : 0 < G -> 0 <= a -> 0 <= d <= 1 ->
  - (a * G') <= T - G' <= a * G' -> G * (1 - d) <= G' <= G ->
  - ((a + d) * G) <= T - G <= (a + d) * G.
Proof. intros HG Ha Hd HT HG'. split; nra. Qed.

Lemma zz_fP : zz fP = fp. Proof. reflexivity. Qed.
Lemma zz_ln2B : zz ln2B = NumQ.fln2. Proof. unfold ln2B. apply BigZ.spec_of_Z. Qed.
Lemma fmulB_spec a b : zz (fmulB a b) = gmul fp (zz a) (zz b).
Proof. unfold fmulB, gmul. rewrite BigZ.spec_shiftr, BigZ.spec_mul, zz_fP. reflexivity. Qed.
Lemma zz_1 : zz 1%bigZ = 1%Z. Proof. reflexivity. Qed.
Lemma zz_2 : zz 2%bigZ = 2%Z. Proof. reflexivity. Qed.
Lemma zz_6 : zz 6%bigZ = 6%Z. Proof. reflexivity. Qed.
Lemma taylorB_spec : forall n k x t a,
  zz (taylorB n k x t a) = gtaylor fp n (zz k) (zz x) (zz t) (zz a).
Proof.
  induction n as [| n IH]; intros k x t a; cbn [taylorB gtaylor]; [reflexivity |].
  rewrite IH, !BigZ.spec_add, BigZ.spec_div, fmulB_spec, zz_1. reflexivity.
Qed.
Lemma squareB_spec : forall n y, zz (squareB n y) = gsquare fp n (zz y).
Proof.
  induction n as [| n IH]; intro y; cbn [squareB gsquare]; [reflexivity |].
  rewrite IH, fmulB_spec. reflexivity.
Qed.
Lemma shiftB_spec a s :
  zz (shiftB a s) = if (0 <=? zz s)%Z then (zz a * 2 ^ zz s)%Z else (zz a / 2 ^ (- zz s))%Z.
Proof.
  unfold shiftB. rewrite BigZ.spec_leb. change (zz 0%bigZ) with 0%Z.
  destruct (Z.leb_spec 0 (zz s)) as [H | H].
  - rewrite BigZ.spec_shiftl, Z.shiftl_mul_pow2 by exact H. reflexivity.
  - rewrite BigZ.spec_shiftr, BigZ.spec_opp, Z.shiftr_div_pow2 by lia. reflexivity.
Qed.

Lemma Q2R_2 : Q2R 2 = 2. Proof. unfold Q2R. cbn [Qnum Qden]. lra. Qed.
Lemma Q2R_p2 e : Q2R (p2 e) = powerRZ 2 e.
Proof.
  unfold p2. rewrite RMicromega.Q2RpowerRZ, Q2R_2; [reflexivity |]. left. intro H. discriminate H.
Qed.
Lemma Q2R_V m e : Q2R (V m e) = IZR m * powerRZ 2 e.
Proof. unfold V. rewrite Q2R_mult, Q2R_inject_Z, Q2R_p2. reflexivity. Qed.
Lemma powerRZ2_U : powerRZ 2 fp = U.
Proof. rewrite powerRZ2_IZR by (unfold fp; lia). reflexivity. Qed.
Lemma U_big1000 : 1000 <= U. Proof. rewrite U_val. lra. Qed.

Lemma Ld_pos : (0 < NumQ.fln2)%Z. Proof. vm_compute. reflexivity. Qed.
Lemma Ld_range : 69 / 100 * U <= IZR NumQ.fln2 <= 7 / 10 * U.
Proof. rewrite U_val. unfold NumQ.fln2. split; lra. Qed.
Lemma Ld_spec : - (45 / U) <= IZR NumQ.fln2 / U - ln 2 <= 45 / U.
Proof. apply Rabs_le_iff, fln2_spec. Qed.

Lemma T18_near_exp y : - (1 / 128) <= y <= 1 / 128 -> Rabs (Rtaylor 18 1 y 1 1 - exp y) <= / 2 ^ 160.
Proof.
  intro Hy. cbn [Rtaylor].
  interval with (i_prec 240, i_taylor y, i_degree 22).
Qed.

(** the fixed-point argument: xf = floor (x 2^160) for x = m 2^e *)
Lemma dexp_xf_R (m e : Z) :
  let xf := if (0 <=? e + fp)%Z then (m * 2 ^ (e + fp))%Z else (m / 2 ^ (- (e + fp)))%Z in
  let xr := IZR m * powerRZ 2 e in
  xr * U - 1 < IZR xf <= xr * U.
Proof.
  cbv zeta.
  assert (E : IZR m * powerRZ 2 e * U = IZR m * powerRZ 2 (e + fp)).
  { rewrite powerRZ_add by lra. rewrite powerRZ2_U. ring. }
  rewrite E. destruct (Z.leb_spec 0 (e + fp)) as [H | H].
  - rewrite mult_IZR, <- powerRZ2_IZR by exact H. lra.
  - assert (H2 : (0 < 2 ^ (- (e + fp)))%Z) by (apply Z.pow_pos_nonneg; lia).
    pose proof (Zdiv_R m (2 ^ (- (e + fp))) H2) as Hd.
    rewrite <- powerRZ2_IZR in Hd by lia.
    replace (IZR m / powerRZ 2 (- (e + fp))) with (IZR m * powerRZ 2 (e + fp)) in Hd.
    + exact Hd.
    + rewrite powerRZ_neg'. unfold Rdiv. rewrite Rinv_inv. reflexivity.
Qed.

(** the core, on Z: Taylor at floor(r/64), six squarings, against exp (r/U) *)
Lemma dexp_core (r : Z) : - (35 / 100) <= IZR r / U <= 35 / 100 ->
  let t := gsquare fp 6 (gtaylor fp 18 1 (r / 2 ^ 6) fp1 fp1) in
  - (6930 / U * exp (IZR r / U)) <= IZR t / U - exp (IZR r / U) <= 6930 / U * exp (IZR r / U).
Proof.
  intros Hr. cbv zeta. pose proof U_pos as HU. pose proof U_small as HUs.
  assert (HiU : 0 < / U) by (apply Rinv_0_lt_compat, HU).
  set (r' := (r / 2 ^ 6)%Z).
  pose proof (Zdiv_R r (2 ^ 6) ltac:(lia)) as Hr'. fold r' in Hr'.
  change (IZR (2 ^ 6)) with 64 in Hr'.
  set (y := IZR r' / U).
  assert (Hy64 : IZR r / U - 64 / U <= 64 * y <= IZR r / U).
  { unfold y, Rdiv in *. split; nra. }
  assert (Hy : - (1 / 128) <= y <= 1 / 128) by (unfold Rdiv in *; lra).
  (* Taylor *)
  pose proof (gtaylor_inv fp fp_nonneg 18 1 r' fp1 fp1 U U 0 0 y) as HT.
  rewrite W_U in HT.
  assert (HT' : - (0 + 4 * INR 18) <= IZR (gtaylor fp 18 1 r' fp1 fp1) - Rtaylor 18 1 y U U <= 0 + 4 * INR 18).
  { apply HT; try lia; try reflexivity; try lra; fold U; lra. }
  clear HT. replace (INR 18) with 18 in HT' by (rewrite INR_IZR_INZ; reflexivity).
  set (t0 := gtaylor fp 18 1 r' fp1 fp1) in *. clearbody t0.
  assert (Esc : Rtaylor 18 1 y U U = U * Rtaylor 18 1 y 1 1) by (rewrite <- Rtaylor_scale; f_equal; ring).
  rewrite Esc in HT'.
  pose proof (T18_near_exp y Hy) as HP. apply Rabs_le_iff in HP.
  assert (Hsm : / 2 ^ 160 = / U) by (rewrite U_val; reflexivity).
  rewrite Hsm in HP.
  set (P := Rtaylor 18 1 y 1 1) in *. clearbody P.
  assert (He : 7 / 10 <= exp y).
  { eapply Rle_trans; [apply exp_m35 |]. apply exp_le. lra. }
  pose proof (taylor_rel (IZR t0) U P y 72 HU ltac:(lra) HP He ltac:(lra)) as H0.
  (* squarings *)
  set (a0 := (72 + 1) * (10 / 7)) in *.
  pose proof (gsquare_inv fp fp_nonneg 6 t0 y a0) as HS. rewrite W_U in HS.
  assert (Ha0 : 0 <= a0) by (unfold a0; lra).
  assert (HaW : 2 ^ 6 * (a0 + 3) * (2 ^ 6 * (a0 + 3)) <= U) by (rewrite U_val; unfold a0; lra).
  assert (Hw6 : - (1 / 2) <= 2 ^ 6 * y <= 1 / 2) by (unfold Rdiv in *; lra).
  specialize (HS Ha0 HaW Hw6 H0).
  set (t := gsquare fp 6 t0) in *. clearbody t.
  replace (2 ^ 6 * y) with (64 * y) in HS by ring.
  assert (Ha6 : (2 ^ 6 * (a0 + 3) - 3) / U <= 6865 / U).
  { unfold Rdiv. apply Rmult_le_compat_r; [lra |]. unfold a0. lra. }
  set (G' := exp (64 * y)) in *. set (G := exp (IZR r / U)).
  assert (HG : 0 < G) by apply exp_pos. assert (HG'0 : 0 < G') by apply exp_pos.
  assert (HGG : G * (1 - 64 / U) <= G' <= G).
  { split; [| apply exp_le; lra].
    unfold G', G. replace (64 * y) with (IZR r / U + (64 * y - IZR r / U)) by ring. rewrite exp_plus.
    pose proof (exp_ineq1_le (64 * y - IZR r / U)) as H1.
    apply Rmult_le_compat_l; [left; apply exp_pos | lra]. }
  assert (HS' : - (6865 / U * G') <= IZR t / U - G' <= 6865 / U * G').
  { set (a6 := (2 ^ 6 * (a0 + 3) - 3) / U) in *.
    assert (a6 * G' <= 6865 / U * G') by (apply Rmult_le_compat_r; lra). lra. }
  pose proof (shift6_rel (IZR t / U) G' G (6865 / U) (64 / U) HG) as Hfin.
  replace (6930 / U) with (6865 / U + 64 / U + 1 / U) by (field; lra).
  assert (H6865 : 0 <= 6865 / U) by (unfold Rdiv; nra).
  assert (H64 : 0 <= 64 / U <= 1) by (unfold Rdiv; split; nra).
  specialize (Hfin H6865 H64 HS' HGG).
  assert (0 <= 1 / U * G) by (unfold Rdiv; nra).
  lra.
Qed.

Lemma final_combine d v E u e1 : 0 < E -> Rabs (d - v) <= u * Rabs v -> Rabs (v - E) <= e1 * E -> 0 <= u -> 0 <= e1 ->
  Rabs (d - E) <= (u * (1 + e1) + e1) * E.
Proof.
  intros HE H1 H2 Hu He.
  assert (Hv : Rabs v <= (1 + e1) * E).
  { replace v with ((v - E) + E) by ring. eapply Rle_trans; [apply Rabs_triang |].
    rewrite (Rabs_pos_eq E) by lra. lra. }
  replace (d - E) with ((d - v) + (v - E)) by ring.
  eapply Rle_trans; [apply Rabs_triang |].
  assert (u * Rabs v <= u * ((1 + e1) * E)) by (apply Rmult_le_compat_l; assumption).
  lra.
Qed.

Lemma v_shift (T : R) (k : Z) : T * powerRZ 2 (k - fp) = T / U * powerRZ 2 k.
Proof.
  unfold Z.sub. rewrite powerRZ_add by lra. rewrite powerRZ_neg', powerRZ2_U. unfold Rdiv. ring.
Qed.

Lemma D2Q_one : Q2R (D2Q (mkD 1 0)) = 1.
Proof. assert (E : (D2Q (mkD 1 0) == 1)%Q) by reflexivity. rewrite (Qeq_eqR _ _ E). apply RMicromega.Q2R_1. Qed.

Lemma Q2R_65536 : Q2R 65536 = 65536. Proof. unfold Q2R. cbn [Qnum Qden]. lra. Qed.

Theorem Dexp_fast_spec : forall x : D, (Qabs (D2Q x) <= 65536)%Q ->
  Rabs (Q2R (D2Q (Dexp_fast x)) - exp (Q2R (D2Q x))) <= exp (Q2R (D2Q x)) / 2 ^ 126.
Proof.
  intros x Hx. pose proof U_pos as HU. assert (HiU : 0 < / U) by (apply Rinv_0_lt_compat, HU).
  set (m := zz (dm x)). set (e := zz (de x)).
  assert (Exr : Q2R (D2Q x) = IZR m * powerRZ 2 e) by (rewrite (Qeq_eqR _ _ (D2Q_V x)), Q2R_V; reflexivity).
  apply Qle_Rle in Hx. rewrite Q2R_Qabs, Q2R_65536 in Hx. rewrite Exr in *.
  set (xr := IZR m * powerRZ 2 e) in *.
  pose proof (exp_pos xr) as HE.
  unfold Dexp_fast. rewrite biszero_spec. fold m.
  destruct (Z.eqb_spec m 0) as [Hm0 | Hm0].
  - (* x = 0 *)
    rewrite D2Q_one. assert (E0 : xr = 0) by (unfold xr; rewrite Hm0; ring).
    rewrite E0, exp_0. replace (1 - 1) with 0 by ring. rewrite Rabs_R0. lra.
  - match goal with |- context [BigZ.ltb ?a ?b] => rewrite (BigZ.spec_ltb a b); change (zz b) with (-170)%Z end.
    rewrite BigZ.spec_add, bbits_spec. fold m e.
    destruct (Z.ltb_spec (Z.log2 (Z.abs m) + 1 + e) (-170)) as [Hs | Hs].
    + (* |x| < 2^-171 *)
      rewrite D2Q_one.
      destruct (V_mag m e Hm0) as [_ Hmag].
      assert (Hle : (p2 (Z.log2 (Z.abs m) + 1 + e) <= p2 (-171))%Q) by (apply p2_le; lia).
      apply Qlt_Rlt in Hmag. apply Qle_Rle in Hle.
      rewrite Q2R_Qabs, Q2R_V in Hmag. rewrite !Q2R_p2 in *. fold xr in Hmag.
      change (powerRZ 2 (-171)) with (/ 2 ^ Pos.to_nat 171) in Hle.
      replace (Pos.to_nat 171) with 171%nat in Hle by reflexivity.
      assert (Hax : Rabs xr <= / 2 ^ 171) by lra.
      assert (H171 : / 2 ^ 171 <= 1 / 2) by lra.
      assert (Hxr : - (1 / 2) <= xr <= 1 / 2) by (apply Rabs_le_iff; lra).
      pose proof (exp_small xr Hxr) as Hsm.
      assert (H170 : 2 * / 2 ^ 171 <= (1 / 2) / 2 ^ 126) by lra.
      apply Rabs_le_iff. unfold Rdiv in *. split; nra.
    + (* main branch *)
      cbv zeta.
      set (xfB := shiftB (dm x) (de x + fP)).
      set (kB := BigZ.div (2 * xfB + ln2B) (2 * ln2B)).
      set (rB := (xfB - kB * ln2B)%bigZ).
      set (oneB := BigZ.shiftl 1 fP).
      set (tB := squareB 6 (taylorB 18 1 (BigZ.shiftr rB 6) oneB oneB)).
      assert (Hone : zz oneB = fp1) by (vm_compute; reflexivity).
      assert (Hxf : zz xfB = if (0 <=? e + fp)%Z then (m * 2 ^ (e + fp))%Z else (m / 2 ^ (- (e + fp)))%Z).
      { unfold xfB. rewrite shiftB_spec, BigZ.spec_add, zz_fP. reflexivity. }
      assert (Hk : zz kB = ((2 * zz xfB + NumQ.fln2) / (2 * NumQ.fln2))%Z).
      { unfold kB. rewrite BigZ.spec_div, BigZ.spec_add, !BigZ.spec_mul, zz_2, zz_ln2B. reflexivity. }
      assert (Hr : zz rB = (zz xfB - zz kB * NumQ.fln2)%Z).
      { unfold rB. rewrite BigZ.spec_sub, BigZ.spec_mul, zz_ln2B. reflexivity. }
      assert (Ht : zz tB = gsquare fp 6 (gtaylor fp 18 1 (zz rB / 2 ^ 6) fp1 fp1)).
      { unfold tB. rewrite squareB_spec, taylorB_spec, BigZ.spec_shiftr, zz_6, Z.shiftr_div_pow2, zz_1, Hone by lia.
        reflexivity. }
      pose proof (dexp_xf_R m e) as HxfR. cbv zeta in HxfR. rewrite <- Hxf in HxfR. fold xr in HxfR.
      pose proof (reduce_Z (zz xfB) NumQ.fln2 Ld_pos) as Hrz. cbv zeta in Hrz. rewrite <- Hk, <- Hr in Hrz.
      clearbody xfB kB rB tB. clear Hxf Hone.
      set (xf := zz xfB) in *. set (k := zz kB) in *. set (r := zz rB) in *. set (t := zz tB) in *.
      assert (Hrr : - IZR NumQ.fln2 <= 2 * IZR r <= IZR NumQ.fln2).
      { destruct Hrz as [H1 H2]. apply IZR_le in H1. apply IZR_lt in H2.
        rewrite opp_IZR in H1. rewrite mult_IZR in H1, H2. lra. }
      assert (HrR : IZR r = IZR xf - IZR k * IZR NumQ.fln2).
      { rewrite Hr, minus_IZR, mult_IZR. reflexivity. }
      assert (Hy : - (35 / 100) <= IZR r / U <= 35 / 100).
      { pose proof Ld_range as HL. unfold Rdiv. split.
        - apply Rmult_le_reg_r with U; [lra |]. rewrite Rmult_assoc, Rinv_l by lra. lra.
        - apply Rmult_le_reg_r with U; [lra |]. rewrite Rmult_assoc, Rinv_l by lra. lra. }
      pose proof (dexp_core r Hy) as Hc. cbv zeta in Hc. rewrite <- Ht in Hc. clear Ht.
      assert (Heta : 0 <= 6930 / U <= 1) by (rewrite U_val; lra).
      assert (HBw : ((29 / 20 * 65536 + 1) * 45 + 1) / U <= 1 / 2) by (rewrite U_val; lra).
      pose proof (exp_fast_assemble2 xr U (IZR xf) (IZR k) (IZR NumQ.fln2) (IZR r) (IZR t / U) 45 (6930 / U) 65536 k
        U_big1000 eq_refl HxfR HrR Hrr Ld_range Ld_spec ltac:(lra) Hx HBw Heta Hc) as HA.
      (* the rounding of Dnorm *)
      pose proof (Dnorm_err tB (kB - fP)) as Hn. apply Qle_Rle in Hn.
      rewrite Q2R_mult, !Q2R_Qabs, Q2R_minus, Q2R_uD, Q2R_V in Hn.
      rewrite BigZ.spec_sub, zz_fP in Hn. fold t k in Hn.
      rewrite (v_shift (IZR t) k) in Hn.
      set (v := IZR t / U * powerRZ 2 k) in *.
      set (e1 := 6930 / U + 4 * (((29 / 20 * 65536 + 1) * 45 + 1) / U)) in *.
      assert (He1 : 0 <= e1) by (unfold e1, Rdiv; nra).
      pose proof (final_combine _ v (exp xr) (/ 2 ^ 127) e1 HE Hn HA ltac:(lra) He1) as Hf.
      eapply Rle_trans; [exact Hf |]. unfold Rdiv. rewrite (Rmult_comm (exp xr)).
      apply Rmult_le_compat_r; [lra |].
      unfold e1. rewrite U_val. lra.
Qed.

(** the accuracy claimed in the header of Model/QFast.v (relative 2^-84) holds on |x| <= 2^15 *)
Theorem Qexp_fast_spec_84 : forall x : Q, (Qabs x <= 32768)%Q ->
  Rabs (Q2R (Qexp_fast x) - exp (Q2R x)) <= exp (Q2R x) / 2 ^ 84.
Proof.
  intros x Hx. apply Qle_Rle in Hx. rewrite Q2R_Qabs in Hx.
  replace (Q2R 32768) with 32768 in Hx by (unfold Q2R; cbn [Qnum Qden]; lra).
  pose proof (Qexp_fast_spec_gen x 32768 Hx ltac:(lra)) as H.
  eapply Rle_trans; [exact H |]. unfold Rdiv. rewrite (Rmult_comm (exp (Q2R x))).
  apply Rmult_le_compat_r; [left; apply exp_pos |]. lra.
Qed.

(** the slots of the dictionaries *)
Theorem NumDF_nexp_spec : forall x : D, (Qabs (D2Q x) <= 65536)%Q ->
  Rabs (Q2R (D2Q (@nexp D NumDF x)) - exp (Q2R (D2Q x))) <= exp (Q2R (D2Q x)) / 2 ^ 126.
Proof. exact Dexp_fast_spec. Qed.
Theorem NumDF_nln_spec : forall x : D,
  (/ inject_Z (2 ^ 1024) <= D2Q x)%Q -> (D2Q x <= inject_Z (2 ^ 1024))%Q ->
  Rabs (Q2R (D2Q (@nln D NumDF x)) - ln (Q2R (D2Q x))) <= / 2 ^ 117.
Proof. exact NumD_nln_spec. Qed.
