(** C10 proofs over the real-number instance: marginalize, filter_pops, reorder_pops. *)
From Coq Require Import String.
From Coq Require Import ZArith Reals List Bool Arith Lia Lra Permutation Sorted.
From Dadi Require Import Base.Num Base.NumR Model.PopOps Proofs.PopOpsBig Proofs.PopOpsIdx Proofs.PopOpsPF.
Import ListNotations.
Local Open Scope R_scope.

(** ** the three monoids *)
Lemma Rp_assoc : forall x y z : R, x + (y + z) = x + y + z. Proof. intros; ring. Qed.
Lemma Rp_comm : forall x y : R, x + y = y + x. Proof. intros; ring. Qed.
Lemma Rp_0_l : forall x : R, 0 + x = x. Proof. intros; ring. Qed.

Notation PFR := (PF R Rplus 0).
Notation PFall := (PF bool andb true).
Notation PFany := (PF bool orb false).

Ltac monR := first [exact Rp_assoc | exact Rp_comm | exact Rp_0_l].
Ltac monA := first [exact andb_assoc | exact andb_comm | exact andb_true_l].
Ltac monO := first [exact orb_assoc | exact orb_comm | exact orb_false_l].
Ltac mon := first [monR | monA | monO].

Lemma nsum_big {A} (l : list A) (g : A -> R) : nsum (map g l) = big Rplus 0 l g.
Proof. induction l as [|x l IH]; [reflexivity|]. change (nsum (map g (x :: l))) with (g x + nsum (map g l)).
  rewrite IH. reflexivity. Qed.
Lemma forallb_big {A} (l : list A) (g : A -> bool) : forallb g l = big andb true l g.
Proof. induction l as [|x l IH]; [reflexivity|]. simpl. rewrite IH. reflexivity. Qed.
Lemma existsb_big {A} (l : list A) (g : A -> bool) : existsb g l = big orb false l g.
Proof. induction l as [|x l IH]; [reflexivity|]. simpl. rewrite IH. reflexivity. Qed.

Lemma fiber_sum_big shape f (g : idx -> R) J :
  fiber_sum shape f g J = big Rplus 0 (indices shape) (fun I => if idx_eqb (f I) J then g I else 0).
Proof. unfold fiber_sum. now rewrite nsum_big. Qed.
Lemma fiber_all_big shape f g J :
  fiber_all shape f g J = big andb true (indices shape) (fun I => if idx_eqb (f I) J then g I else true).
Proof. unfold fiber_all. rewrite forallb_big. apply big_ext. intros I _. destruct (idx_eqb (f I) J); reflexivity. Qed.
Lemma fiber_any_big shape f g J :
  fiber_any shape f g J = big orb false (indices shape) (fun I => if idx_eqb (f I) J then g I else false).
Proof. unfold fiber_any. rewrite existsb_big. apply big_ext. intros I _. destruct (idx_eqb (f I) J); reflexivity. Qed.

Lemma PFR_fiber S1 f g1 S2 g2 : PFR S1 f g1 S2 g2 <-> (forall J, inr S2 J -> g2 J = fiber_sum S1 f g1 J).
Proof. unfold PF. split; intros P J HJ; [rewrite fiber_sum_big | rewrite <- fiber_sum_big]; auto. Qed.
Lemma PFall_fiber S1 f g1 S2 g2 : PFall S1 f g1 S2 g2 <-> (forall J, inr S2 J -> g2 J = fiber_all S1 f g1 J).
Proof. unfold PF. split; intros P J HJ; [rewrite fiber_all_big | rewrite <- fiber_all_big]; auto. Qed.
Lemma PFany_fiber S1 f g1 S2 g2 : PFany S1 f g1 S2 g2 <-> (forall J, inr S2 J -> g2 J = fiber_any S1 f g1 J).
Proof. unfold PF. split; intros P J HJ; [rewrite fiber_any_big | rewrite <- fiber_any_big]; auto. Qed.

Lemma etotal_big (a : spec R) : etotal a = big Rplus 0 (indices (sh a)) (eff a).
Proof. unfold etotal. apply nsum_big. Qed.
Lemma total_big (a : spec R) : total a = big Rplus 0 (indices (sh a)) (va a).
Proof. unfold total. apply nsum_big. Qed.

(** ** marginalize *)
Lemma sum_axis_eff (a : spec R) k J : eff (sum_axis k a) J = va (sum_axis k a) J.
Proof. unfold eff. destruct (mk (sum_axis k a) J) eqn:E; [|reflexivity]. simpl in *.
  rewrite forallb_forall in E. rewrite nsum_big. symmetry. apply big_e; try monR.
  intros j Hj. unfold eff. now rewrite (E j Hj). Qed.

Lemma sum_axis_PF (a : spec R) k : (k < length (sh a))%nat ->
  PFR (sh a) (remove_nth k) (eff a) (sh (sum_axis k a)) (eff (sum_axis k a)) /\
  PFall (sh a) (remove_nth k) (mk a) (sh (sum_axis k a)) (mk (sum_axis k a)).
Proof. intros Hk. split; simpl sh.
  - apply PF_remove; try monR; auto; intros J _; rewrite sum_axis_eff; simpl; apply nsum_big.
  - apply PF_remove; try monA; auto; intros J _; simpl; apply forallb_big. Qed.

Lemma fold_sum_axis ks : forall a : spec R, valid_seq (length (sh a)) ks ->
  let o := fold_left (fun o k => sum_axis k o) ks a in
  let f := fun I : idx => fold_left (fun acc k => remove_nth k acc) ks I in
  sh o = f (sh a) /\ PFR (sh a) f (eff a) (sh o) (eff o) /\ PFall (sh a) f (mk a) (sh o) (mk o).
Proof. induction ks as [|k ks IH]; intros a Hv; simpl in *.
  - repeat split; apply PF_id; mon.
  - destruct Hv as [Hk Hv]. destruct (sum_axis_PF a k Hk) as [P1 P2].
    assert (Hv' : valid_seq (length (sh (sum_axis k a))) ks) by (simpl; now rewrite remove_nth_length).
    destruct (IH _ Hv') as (E & Q1 & Q2). split; [exact E|]. split.
    + eapply (PF_comp R Rplus 0); try monR; eauto. apply maps_remove.
    + eapply (PF_comp bool andb true); try monA; eauto. apply maps_remove. Qed.

Lemma valid_over_spec d over : valid_over d over = true ->
  NoDup over /\ Forall (fun k => (k < d)%nat) over /\ (length over < d)%nat.
Proof. unfold valid_over. rewrite !andb_true_iff. intros [[H1 H2] H3]. repeat split.
  - clear H2 H3. induction over as [|x l IH]; [constructor|]. simpl in H1. apply andb_true_iff in H1 as [Hx Hl].
    constructor; auto. intros Hin. apply negb_true_iff in Hx. unfold memb in Hx.
    assert (existsb (Nat.eqb x) l = true); [|congruence]. apply existsb_exists. exists x. split; auto. apply Nat.eqb_refl.
  - apply Forall_forall. intros k Hk. rewrite forallb_forall in H2. apply Nat.ltb_lt. auto.
  - now apply Nat.ltb_lt. Qed.

Lemma valid_seq_over (a : spec R) over :
  NoDup over -> Forall (fun k => (k < length (sh a))%nat) over -> valid_seq (length (sh a)) (rev (isort over)).
Proof. intros Hnd Hall. apply desc_valid_seq; [now apply desc_over|].
  rewrite Forall_forall in *. intros x Hx. apply Hall. now apply (proj1 (in_rev_isort x over)). Qed.

Lemma maps_drop_axes over S : maps S (drop_axes over S) (drop_axes over).
Proof. intros I HI. unfold drop_axes. now apply Forall2_fold_remove. Qed.

(** marginalize of an unfolded spectrum: the explicit re-indexing sum over the dropped populations *)
Theorem marginalize_spec (a : spec R) over mc :
  fo a = false -> NoDup over -> Forall (fun k => (k < length (sh a))%nat) over ->
  let out := marginalize_core over mc a in
  sh out = drop_axes over (sh a) /\ ids out = option_map (drop_axes over) (ids a) /\ fo out = false /\
  forall J, inr (sh out) J ->
    mk out J = fiber_all (sh a) (drop_axes over) (mk a) J || (mc && is_corner (sh out) J) /\
    (mk out J = false -> va out J = fiber_sum (sh a) (drop_axes over) (eff a) J).
Proof. intros Hfo Hnd Hall. unfold marginalize_core. rewrite Hfo.
  destruct (fold_sum_axis (rev (isort over)) a (valid_seq_over a over Hnd Hall)) as (E & P1 & P2).
  set (o := fold_left (fun o k => sum_axis k o) (rev (isort over)) a) in *.
  pose proof (proj1 (PFR_fiber _ _ _ _ _) P1
              : forall J, inr (sh o) J -> eff o J = fiber_sum (sh a) (drop_axes over) (eff a) J) as P1'.
  pose proof (proj1 (PFall_fiber _ _ _ _ _) P2
              : forall J, inr (sh o) J -> mk o J = fiber_all (sh a) (drop_axes over) (mk a) J) as P2'.
  clear P1 P2. rename P1' into P1. rename P2' into P2.
  destruct mc; simpl; (split; [exact E|]); (split; [reflexivity|]); (split; [reflexivity|]); intros J HJ.
  - split; [now rewrite (P2 J HJ)|]. intros Hm. apply orb_false_iff in Hm as [Hm _].
    rewrite <- (P1 J HJ). unfold eff. now rewrite Hm.
  - split; [now rewrite (P2 J HJ), orb_false_r|]. intros Hm.
    rewrite <- (P1 J HJ). unfold eff. now rewrite Hm. Qed.

Theorem marginalize_folded (a : spec R) over mc :
  fo a = true -> marginalize_core over mc a = fold (marginalize_core over mc (unfold a)).
Proof. intros Hfo. unfold marginalize_core. rewrite Hfo. reflexivity. Qed.

Theorem marginalize_conserves_total (a : spec R) over :
  fo a = false -> NoDup over -> Forall (fun k => (k < length (sh a))%nat) over ->
  etotal (marginalize_core over false a) = etotal a.
Proof. intros Hfo Hnd Hall. unfold marginalize_core. rewrite Hfo.
  destruct (fold_sum_axis (rev (isort over)) a (valid_seq_over a over Hnd Hall)) as (E & P1 & _).
  set (o := fold_left (fun o k => sum_axis k o) (rev (isort over)) a) in *.
  rewrite !etotal_big. simpl sh.
  transitivity (big Rplus 0 (indices (sh o)) (eff o)); [reflexivity|].
  eapply (PF_total R Rplus 0); try monR; eauto. rewrite E. apply maps_drop_axes. Qed.

Theorem marginalize_accepts (a : spec R) over mc :
  valid_over (length (sh a)) over = true -> marginalize over mc a = Some (marginalize_core over mc a).
Proof. intros Hv. unfold marginalize. now rewrite Hv. Qed.

(** labels and coordinates are moved by one and the same selection of surviving axes *)
Theorem marginalize_labels_follow_axes (a : spec R) over mc :
  let ks := kept over (length (sh a)) in
  (forall I : idx, length I = length (sh a) -> drop_axes over I = select 0%nat ks I) /\
  (forall l : list string, ids a = Some l -> length l = length (sh a) ->
     ids (marginalize_core over mc a) = Some (select EmptyString ks l) \/ fo a = true).
Proof. split.
  - intros I HI. rewrite (drop_axes_select 0%nat), HI. reflexivity.
  - intros l Hl Hlen. destruct (fo a) eqn:Hfo; [now right|left].
    unfold marginalize_core. rewrite Hfo, Hl. destruct mc; simpl; now rewrite (drop_axes_select EmptyString), Hlen. Qed.

(** ** filter_pops *)
Lemma remove_first_filter q l :
  NoDup l -> In q l -> remove_first q l = Some (filter (fun k => negb (Nat.eqb k q)) l).
Proof. induction 1 as [|y l Hy Hl IH]; intros Hin; [contradiction|]. simpl.
  destruct (Nat.eqb q y) eqn:E.
  - apply Nat.eqb_eq in E. subst y. rewrite Nat.eqb_refl. simpl. f_equal.
    symmetry. rewrite <- (filter_ext_in (fun _ => true)); [clear; induction l; simpl; congruence|].
    intros k Hk. symmetry. apply negb_true_iff, Nat.eqb_neq. intros ->. contradiction.
  - apply Nat.eqb_neq in E. destruct Hin as [->|Hin]; [contradiction|]. rewrite (IH Hin). simpl.
    replace (Nat.eqb y q) with false by (symmetry; apply Nat.eqb_neq; auto). reflexivity. Qed.

Lemma filter_filter {A} (P Q : A -> bool) l : filter Q (filter P l) = filter (fun x => P x && Q x) l.
Proof. induction l as [|x l IH]; simpl; auto. destruct (P x); simpl; [destruct (Q x)|]; simpl; now rewrite IH. Qed.

Lemma filter_toremove_gen d keep : forall P : nat -> bool,
  NoDup keep -> (forall p, In p keep -> (1 <= p <= d)%nat /\ P (pred p) = true) ->
  fold_left (fun acc p => match acc with
                          | None => None
                          | Some l => match p with O => None | S q => remove_first q l end
                          end) keep (Some (filter P (seq 0 d)))
  = Some (filter (fun k => P k && negb (memb (S k) keep)) (seq 0 d)).
Proof. induction keep as [|p keep IH]; intros P Hnd Hin; simpl.
  - f_equal. apply filter_ext. intros k. now rewrite andb_true_r.
  - inversion Hnd as [|? ? Hp Hnd']; subst. destruct (Hin p (or_introl eq_refl)) as [Hr HP].
    destruct p as [|q]; [lia|]. simpl in HP.
    rewrite remove_first_filter.
    + rewrite filter_filter. rewrite IH; auto.
      * f_equal. apply filter_ext. intros k. unfold memb. simpl.
        rewrite negb_orb, <- andb_assoc. reflexivity.
      * intros p' Hp'. destruct (Hin p' (or_intror Hp')) as [Hr' HP']. split; auto. rewrite HP'. simpl.
        apply negb_true_iff, Nat.eqb_neq. intros E. apply Hp. replace (S q) with p' by lia. exact Hp'.
    + apply NoDup_filter, seq_NoDup.
    + apply filter_In. split; [apply in_seq; lia | exact HP]. Qed.

Theorem filter_pops_is_marginalize (a : spec R) keep :
  NoDup keep -> Forall (fun p => (1 <= p <= length (sh a))%nat) keep ->
  filter_pops keep a
  = marginalize (filter (fun k => negb (memb (S k) keep)) (seq 0 (length (sh a)))) true a.
Proof. intros Hnd Hall. unfold filter_pops, filter_toremove.
  replace (seq 0 (length (sh a))) with (filter (fun _ => true) (seq 0 (length (sh a)))) at 1
    by (clear; induction (seq 0 (length (sh a))); simpl; congruence).
  rewrite filter_toremove_gen; auto.
  rewrite Forall_forall in Hall. intros p Hp. split; auto. Qed.
