(** * DemesPulse: a pulse is a set of (source, proportion) pairs.
    [_admix_phi] looks each listed source up among the current populations and [_make_sorted_proportions_list] writes the
    proportion listed WITH that source at the source's position.  Hence the order in which the pairs are listed is
    irrelevant: permuting the (source, proportion) pairs of a pulse changes neither the call the event produces
    ([pulse_source_order_irrelevant]) nor the program of the whole importer ([front_pulse_listing_irrelevant]).
    Pairing the proportions with the source indices taken in POPULATION order (instead of the order of the listing)
    breaks this ([pairing_by_population_order_refuted]).
    Statements about the model as it runs; stated on R like the rest. *)
From Coq Require Import ZArith Reals List Bool Arith Lra Lia Permutation.
From Dadi Require Import Base.Num Base.NumR Model.DemesFront Proofs.DemesBase Proofs.DemesUnits Proofs.DemesOrder.
Import ListNotations.
Local Open Scope R_scope.

(** ** lists *)
Lemma set_nth_comm {A} (a b : A) l : forall i j, i <> j -> set_nth i a (set_nth j b l) = set_nth j b (set_nth i a l).
Proof.
  induction l as [|x l IH]; intros [|i] [|j] Hij; cbn [set_nth]; auto; try congruence.
  f_equal. apply IH. congruence.
Qed.

Definition place {A} (l : list A) (ip : nat * A) : list A := set_nth (fst ip) (snd ip) l.

Lemma fold_place_perm {A} (ps qs : list (nat * A)) : Permutation ps qs -> NoDup (map fst ps) ->
  forall l, fold_left place ps l = fold_left place qs l.
Proof.
  induction 1 as [|x ps qs P IH|x y ps|ps qs rs P1 IH1 P2 IH2]; intros ND l.
  - reflexivity.
  - cbn [fold_left]. apply IH. cbn [map] in ND. now inversion ND.
  - cbn [fold_left]. f_equal. unfold place. apply set_nth_comm. cbn [map] in ND. inversion ND as [|? ? Hn _]. subst.
    intros E. apply Hn. left. congruence.
  - rewrite IH1 by auto. apply IH2. eapply Permutation_NoDup; [apply Permutation_map; exact P1|exact ND].
Qed.

Lemma map_fst_combine {A B} (a : list A) : forall (b : list B), length a = length b -> map fst (combine a b) = a.
Proof. induction a as [|x a IH]; intros [|y b] E; cbn in *; auto; try discriminate. f_equal. apply IH. lia. Qed.
Lemma map_snd_combine {A B} (a : list A) : forall (b : list B), length a = length b -> map snd (combine a b) = b.
Proof. induction a as [|x a IH]; intros [|y b] E; cbn in *; auto; try discriminate. f_equal. apply IH. lia. Qed.
Lemma combine_map_l {A B C} (f : A -> C) (a : list A) : forall (b : list B),
  combine (map f a) b = map (fun p => (f (fst p), snd p)) (combine a b).
Proof. induction a as [|x a IH]; intros [|y b]; cbn; auto. f_equal. apply IH. Qed.

Lemma NoDup_map_inj_on {A B} (f : A -> B) l : (forall x y, In x l -> In y l -> f x = f y -> x = y) -> NoDup l -> NoDup (map f l).
Proof.
  intros Hinj ND. induction ND as [|x l Hx ND IH]; cbn [map]; constructor.
  - intros Hin. apply in_map_iff in Hin as (y & E & Hy). assert (y = x) by (apply Hinj; cbn; auto). subst. auto.
  - apply IH. intros; apply Hinj; cbn; auto.
Qed.

Lemma index_of_lt x ids : forall i, index_of x ids = Some i -> (i < length ids)%nat.
Proof.
  induction ids as [|y ids IH]; intros i; cbn [index_of]; [discriminate|].
  destruct (Nat.eqb x y).
  - intros [= <-]. cbn. lia.
  - destruct (index_of x ids); [|discriminate]. intros [= <-]. cbn. specialize (IH _ eq_refl). lia.
Qed.

(** ** _make_sorted_proportions_list: the proportion listed with a source lands at that source's position *)
Lemma sorted_props_perm (props props' : list R) sis sis' dest len :
  NoDup sis -> length sis = length props ->
  Permutation (combine sis props) (combine sis' props') ->
  sorted_props props sis dest len = sorted_props props' sis' dest len.
Proof.
  intros ND EL P. unfold sorted_props.
  change (fun (l : list R) (ip : nat * R) => set_nth (fst ip) (snd ip) l) with (@place R).
  rewrite (fold_place_perm _ _ P); [reflexivity|]. now rewrite map_fst_combine.
Qed.

Section Lookup.
  Variable ids : list nat.
  Notation idx := (idx ids).

  Lemma indices_of_perm xs ys is_ : Permutation xs ys -> indices_of xs ids = Some is_ -> indices_of ys ids = Some (map idx ys).
  Proof.
    intros P E. destruct (indices_of_spec _ _ _ E) as [_ F]. apply indices_of_found.
    eapply Permutation_Forall; eauto.
  Qed.

  Lemma idx_inj_found x y : index_of x ids <> None -> index_of y ids <> None -> idx x = idx y -> x = y.
  Proof.
    unfold DemesOrder.idx. destruct (index_of x ids) as [i|] eqn:Ex; [|congruence]. destruct (index_of y ids) as [j|] eqn:Ey; [|congruence].
    intros _ _ ->. apply index_of_nth in Ex. apply index_of_nth in Ey. congruence.
  Qed.
End Lookup.

(** ** the pulse event *)
Theorem pulse_source_order_irrelevant : forall srcs props srcs' props' dst (s : st R),
  NoDup srcs -> ~ In dst srcs -> length srcs = length props -> length srcs' = length props' ->
  Permutation (combine srcs props) (combine srcs' props') ->
  apply_event (EPulse srcs dst props) s = apply_event (EPulse srcs' dst props') s.
Proof.
  intros srcs props srcs' props' dst s ND Hdst EL EL' P.
  assert (PS : Permutation srcs srcs').
  { rewrite <- (map_fst_combine srcs props EL), <- (map_fst_combine srcs' props' EL'). now apply Permutation_map. }
  unfold apply_event. destruct (negb (s_ok s)); [reflexivity|].
  set (ids := s_ids s).
  destruct (indices_of srcs ids) as [sis|] eqn:E1.
  - rewrite (indices_of_perm ids _ _ _ PS E1).
    destruct (index_of dst ids) as [di|] eqn:ED; [|reflexivity].
    destruct (indices_of_spec _ _ _ E1) as [-> F].
    assert (NDi : NoDup (map (idx ids) srcs)).
    { apply NoDup_map_inj_on; auto. intros x y Hx Hy. rewrite Forall_forall in F. apply idx_inj_found; auto. }
    assert (SP : sorted_props props (map (idx ids) srcs) (Some di) (length ids)
                 = sorted_props props' (map (idx ids) srcs') (Some di) (length ids)).
    { apply sorted_props_perm; auto.
      - now rewrite map_length.
      - rewrite !combine_map_l. now apply Permutation_map. }
    rewrite SP.
    destruct (length ids) as [|[|[|n]]] eqn:EN; try reflexivity.
    (* two populations: the only population that is not the destination is the only possible source *)
    assert (L1 : (length srcs <= 1)%nat).
    { rewrite <- (map_length (idx ids) srcs).
      apply (NoDup_incl_length (l' := [(1 - di)%nat]) NDi).
      intros i Hi. apply in_map_iff in Hi as (x & <- & Hx). left.
      rewrite Forall_forall in F. specialize (F x Hx). unfold DemesOrder.idx.
      destruct (index_of x ids) as [i|] eqn:Ex; [|congruence].
      pose proof (index_of_lt _ _ _ Ex) as Li. pose proof (index_of_lt _ _ _ ED) as Ld. rewrite EN in Li, Ld.
      assert (i <> di).
      { intros ->. apply Hdst. apply index_of_nth in Ex. apply index_of_nth in ED. rewrite <- ED, Ex. exact Hx. }
      lia. }
    assert (props = props') as <-; [|reflexivity].
    rewrite <- (map_snd_combine srcs props EL), <- (map_snd_combine srcs' props' EL'). f_equal.
    pose proof (Permutation_length P) as PL. rewrite !combine_length, <- EL, <- EL', !Nat.min_id in PL.
    destruct srcs as [|x [|? ?]]; cbn in L1; try lia.
    + destruct srcs'; [|cbn in PL; lia]. reflexivity.
    + destruct props as [|p [|? ?]]; cbn in EL; try lia. cbn [combine] in P |- *. now apply Permutation_length_1_inv in P.
  - destruct (indices_of srcs' ids) as [sis'|] eqn:E2; [|reflexivity].
    rewrite (indices_of_perm ids _ _ _ (Permutation_sym PS) E2) in E1. discriminate.
Qed.

(** ** the whole program: events that differ in the listing of the pairs of their pulses only *)
Inductive ev_equiv : event R -> event R -> Prop :=
| eve_same e : ev_equiv e e
| eve_pulse srcs props srcs' props' dst :
    NoDup srcs -> ~ In dst srcs -> length srcs = length props -> length srcs' = length props' ->
    Permutation (combine srcs props) (combine srcs' props') ->
    ev_equiv (EPulse srcs dst props) (EPulse srcs' dst props').
Definition tev_equiv (a b : tevent R) : Prop := fst a = fst b /\ ev_equiv (snd a) (snd b).

Lemma apply_event_equiv e e' (s : st R) : ev_equiv e e' -> apply_event e s = apply_event e' s.
Proof. intros [|]; [reflexivity|]. now apply pulse_source_order_irrelevant. Qed.

Lemma events_at_equiv evs evs' t : Forall2 tev_equiv evs evs' -> Forall2 ev_equiv (events_at evs t) (events_at evs' t).
Proof.
  unfold events_at. induction 1 as [|a b evs evs' [Et Ee] _ IH]; cbn [filter map]; [constructor|].
  rewrite Et. destruct (teqb (Fin (fst b)) t); cbn [map]; auto.
Qed.

Lemma fold_apply_equiv l l' : Forall2 ev_equiv l l' ->
  forall s : st R, fold_left (fun s ev => apply_event ev s) l s = fold_left (fun s ev => apply_event ev s) l' s.
Proof. induction 1 as [|e e' l l' He _ IH]; intros s; cbn [fold_left]; auto. rewrite (apply_event_equiv _ _ s He). apply IH. Qed.

Lemma run_step_equiv ws all evs evs' stp (s : st R) : Forall2 tev_equiv evs evs' ->
  run_step ws all evs stp s = run_step ws all evs' stp s.
Proof.
  intros E. unfold run_step. cbv zeta.
  now rewrite (fold_apply_equiv _ _ (events_at_equiv evs evs' (snd (st_iv stp)) E)).
Qed.

Theorem core_pulse_listing_irrelevant : forall ws pnu (g : graph R) evs evs' sampled frozen Ne ns,
  Forall2 tev_equiv evs evs' ->
  core ws pnu g evs sampled frozen Ne ns = core ws pnu g evs' sampled frozen Ne ns.
Proof.
  intros ws pnu g evs evs' sampled frozen Ne ns E. unfold core. f_equal. unfold core_run.
  destruct (existsb _ _); [reflexivity|]. cbv zeta. unfold run_steps. apply fold_left_ext'.
  intros s stp. apply run_step_equiv. apply Forall2_app; auto.
  clear. induction (marg_events g sampled) as [|x l IH]; constructor; auto. split; [reflexivity|constructor].
Qed.

(** ** the graph: the program depends on the pulses of the graph through their times only (the sources, destination
    and proportions reach the importer through the event list) *)
Definition same_but_pulse_listing (g g' : graph R) : Prop :=
  g_demes g = g_demes g' /\ g_migs g = g_migs g' /\ map p_time (g_pulses g) = map p_time (g_pulses g').

Lemma core_graph_pulses ws pnu (g g' : graph R) evs sampled frozen Ne ns : same_but_pulse_listing g g' ->
  core ws pnu g evs sampled frozen Ne ns = core ws pnu g' evs sampled frozen Ne ns.
Proof.
  destruct g as [ds ms ps], g' as [ds' ms' ps']. intros (Hd & Hm & Hp). cbn [g_demes g_migs g_pulses] in *. subst ds' ms'.
  assert (I : intervals (mkGraph ds ms ps) = intervals (mkGraph ds ms ps')).
  { unfold intervals, break_points. cbn [g_demes g_migs g_pulses].
    replace (map (fun p : pulse R => Fin (p_time p)) ps) with (map (@Fin R) (map p_time ps)) by (now rewrite map_map).
    rewrite Hp. now rewrite map_map. }
  unfold core, core_run, plan, used_intervals. rewrite <- I. reflexivity.
Qed.

Lemma slice_same g g' t : same_but_pulse_listing g g' -> same_but_pulse_listing (slice g t) (slice g' t).
Proof.
  intros (Hd & Hm & Hp). unfold slice. destruct (neqb t n0); [now repeat split|].
  repeat split; cbn [g_demes g_migs g_pulses]; [now rewrite Hd|now rewrite Hm|].
  revert Hp. generalize (g_pulses g') as ps'. induction (g_pulses g) as [|p ps IH]; intros [|p' ps'] Hp; cbn in Hp; try discriminate; auto.
  injection Hp as Ht Hp. cbn [flat_map]. rewrite Ht. destruct (p_time p' <=? t)%num; cbn [app map p_time]; [|f_equal]; auto.
Qed.
Lemma rename_same a b g g' : same_but_pulse_listing g g' -> same_but_pulse_listing (rename_deme a b g) (rename_deme a b g').
Proof.
  intros (Hd & Hm & Hp). unfold rename_deme. repeat split; cbn [g_demes g_migs g_pulses]; [now rewrite Hd|now rewrite Hm|].
  rewrite !map_map. cbn [p_time]. exact Hp.
Qed.
Lemma add_frozen_same sd new st_ sz g g' :
  same_but_pulse_listing g g' -> same_but_pulse_listing (add_frozen sd new st_ sz g) (add_frozen sd new st_ sz g').
Proof. intros (Hd & Hm & Hp). unfold add_frozen. repeat split; cbn [g_demes g_migs g_pulses]; auto. now rewrite Hd. Qed.
Lemma in_generations_same k g g' : same_but_pulse_listing g g' -> same_but_pulse_listing (in_generations k g) (in_generations k g').
Proof.
  intros (Hd & Hm & Hp). unfold in_generations. repeat split; cbn [g_demes g_migs g_pulses]; [now rewrite Hd|now rewrite Hm|].
  rewrite !map_map. cbn [p_time]. rewrite <- !(map_map p_time (fun x => x / k)%num). now rewrite Hp.
Qed.

Lemma augment_loop_same t l : forall g g' ren sampled frozen, same_but_pulse_listing g g' ->
  same_but_pulse_listing (fst (fst (augment_loop t l g ren sampled frozen))) (fst (fst (augment_loop t l g' ren sampled frozen)))
  /\ snd (fst (augment_loop t l g ren sampled frozen)) = snd (fst (augment_loop t l g' ren sampled frozen))
  /\ snd (augment_loop t l g ren sampled frozen) = snd (augment_loop t l g' ren sampled frozen).
Proof.
  induction l as [|a l IH]; intros g g' ren sampled frozen S; cbn [augment_loop]; [cbn [fst snd]; split; [exact S|split; reflexivity]|].
  destruct (find _ ren) as [p|]; destruct (n0 <? as_time a)%num; try (apply IH; now apply add_frozen_same);
    destruct (n0 <? t)%num; apply IH; auto; now apply rename_same.
Qed.

(** permuting the listed (source, proportion) pairs of the pulses - in the graph and in the events `demes` reports for
    it - does not change the program of the importer *)
Theorem front_pulse_listing_irrelevant : forall ws pnu gt (g g' : graph R) sampled times new_ids sizes evs evs' Ne ns,
  same_but_pulse_listing g g' -> Forall2 tev_equiv evs evs' ->
  front ws pnu gt g sampled times new_ids sizes evs Ne ns = front ws pnu gt g' sampled times new_ids sizes evs' Ne ns.
Proof.
  intros ws pnu gt g g' sampled times new_ids sizes evs evs' Ne ns S E. rewrite !front_unfold. cbv zeta.
  assert (Tm : times_of g sampled times = times_of g' sampled times).
  { destruct S as (Hd & _). unfold times_of, default_times, find_deme. now rewrite Hd. }
  rewrite <- Tm. destruct (existsb _ (times_of g sampled times)).
  - rewrite !augment_unfold.
    destruct (augment_loop_same (nmin_list (times_of g sampled times))
                (mk_asamples (nmin_list (times_of g sampled times)) sampled (times_of g sampled times) new_ids sizes)
                _ _ [] [] [] (slice_same g g' (nmin_list (times_of g sampled times)) S)) as (S1 & E2 & E3).
    destruct (augment_loop _ _ (slice g _) _ _ _) as [[g1 s1] f1], (augment_loop _ _ (slice g' _) _ _ _) as [[g1' s1'] f1'].
    cbn [fst snd] in *. subst s1' f1'.
    rewrite (core_pulse_listing_irrelevant ws pnu _ evs evs' s1 f1 Ne ns E). apply core_graph_pulses.
    destruct gt; auto. now apply in_generations_same.
  - rewrite (core_pulse_listing_irrelevant ws pnu _ evs evs' sampled [] Ne ns E). apply core_graph_pulses.
    destruct gt; auto. now apply in_generations_same.
Qed.

(** ** pairing the proportions with the source positions taken in population order (ascending) instead of the order of
    the listing: sources listed (position 2, position 0) with proportions (1/4, 1/8) give (1/8 at 0, 1/4 at 2); the
    ascending positions (0, 2) paired with the proportions as listed give the exchanged pulse *)
Lemma pairing_by_population_order_refuted : exists (props : list R) sis sorted_sis,
  Permutation sis sorted_sis /\ NoDup sis /\ length sis = length props /\
  sorted_props props sorted_sis (Some 1%nat) 3 <> sorted_props props sis (Some 1%nat) 3.
Proof.
  exists [/ 4; / 8], [2%nat; 0%nat], [0%nat; 2%nat]. repeat split.
  - apply perm_swap.
  - constructor; [intros [H|[]]; discriminate|]. constructor; [intros []|constructor].
  - unfold sorted_props. cbn. intros H. injection H as H _. lra.
Qed.
