(** Facts about the equilibrium density model (Model/Equilibrium.v) on the real-number instance:
    stationarity under the documented drift-selection equation, non-negativity / finiteness, the regime switches. *)
From Coq Require Import Reals List Lra Lia Arith Bool.
From Coquelicot Require Import Coquelicot.
From Interval Require Import Tactic.
From Dadi Require Import Base.Num Base.NumR Model.Equilibrium.
Import ListNotations.
Local Open Scope R_scope.

(** ** real-number reading of the pointwise formulas *)
Definition bR (beta : R) : R := 4 * beta / ((beta + 1) * (beta + 1)).
Lemma bfac_R beta : bfac beta = bR beta.
Proof. unfold bfac, bR, nfour, n2. numR. replace ((1 + 1) * (1 + 1)) with 4 by ring. reflexivity. Qed.
Lemma bR_pos beta : 0 < beta -> 0 < bR beta.
Proof. intros. unfold bR. apply Rdiv_lt_0_compat; nra. Qed.

Lemma exp_ne_1 u : u <> 0 -> exp u <> 1.
Proof.
  intros Hu He. destruct (Rtotal_order u 0) as [H|[H|H]]; [|contradiction|].
  - pose proof (exp_increasing u 0 H) as Hi. rewrite exp_0 in Hi. lra.
  - pose proof (exp_increasing 0 u H) as Hi. rewrite exp_0 in Hi. lra.
Qed.
Lemma exp_lt_1 u : u < 0 -> exp u < 1.
Proof. intros H. pose proof (exp_increasing u 0 H) as Hi. rewrite exp_0 in Hi. exact Hi. Qed.
Lemma exp_gt_1 u : 0 < u -> 1 < exp u.
Proof. intros H. pose proof (exp_increasing 0 u H) as Hi. rewrite exp_0 in Hi. exact Hi. Qed.

(** the two interior formulas and the x = 1 values *)
Definition genicA (g x : R) : R := 1 / (x * (1 - x)) * (1 - exp (- (2 * g) * (1 - x))) / (1 - exp (- (2 * g))).
Definition genicB (g x : R) : R := 1 / (x * (1 - x)) * exp (2 * g * x).
Ltac two := replace (1 + 1) with 2 in * by ring.
Lemma genic_pt_A g x : -300 < g -> genic_pt g x = genicA g x.
Proof.
  intros Hg. unfold genic_pt, genicA, thr300, nltb, n2. numR. two.
  destruct (Rleb g (- (300))) eqn:E; [apply Rleb_true in E; lra|reflexivity].
Qed.
Lemma genic_pt_B g x : g <= -300 -> genic_pt g x = genicB g x.
Proof.
  intros Hg. unfold genic_pt, genicB, thr300, nltb, n2. numR. two.
  destruct (Rleb g (- (300))) eqn:E; [reflexivity|apply Rleb_false in E; lra].
Qed.
Lemma genic_limit_A g : g < 300 -> genic_limit g = 2 * g * exp (2 * g) / (exp (2 * g) - 1).
Proof.
  intros Hg. unfold genic_limit, thr300, nltb, n2. numR. two.
  destruct (Rleb 300 g) eqn:E; [apply Rleb_true in E; lra|reflexivity].
Qed.
Lemma genic_limit_B g : 300 <= g -> genic_limit g = 2 * g.
Proof.
  intros Hg. unfold genic_limit, thr300, nltb, n2. numR. two.
  destruct (Rleb 300 g) eqn:E; [reflexivity|apply Rleb_false in E; lra].
Qed.

(** ** the density times x(1-x): G(x) = x(1-x) phi(x) *)
Definition GA (K g x : R) : R := K * (1 - exp (- (2 * g) * (1 - x))) / (1 - exp (- (2 * g))).
Definition GA1 (K g x : R) : R := K * (- (2 * g) * exp (- (2 * g) * (1 - x))) / (1 - exp (- (2 * g))).
Definition GA2 (K g x : R) : R := K * (- (2 * g) * (2 * g) * exp (- (2 * g) * (1 - x))) / (1 - exp (- (2 * g))).
Definition GB (K g x : R) : R := K * exp (2 * g * x).
Definition GB1 (K g x : R) : R := K * (2 * g * exp (2 * g * x)).
Definition GB2 (K g x : R) : R := K * (2 * g * (2 * g) * exp (2 * g * x)).

Lemma GA_is_density K g x : 0 < x < 1 -> x * (1 - x) * (genicA g x * K) = GA K g x.
Proof.
  intros Hx. unfold genicA, GA, Rdiv. set (d := / (1 - exp (- (2 * g)))). field. nra.
Qed.
Lemma GB_is_density K g x : 0 < x < 1 -> x * (1 - x) * (genicB g x * K) = GB K g x.
Proof. intros Hx. unfold genicB, GB. field. nra. Qed.

Lemma GA_derive K g x : is_derive (GA K g) x (GA1 K g x).
Proof. unfold GA, GA1. auto_derive; [exact I|]. unfold Rdiv, Rminus. ring. Qed.
Lemma GA1_derive K g x : is_derive (GA1 K g) x (GA2 K g x).
Proof. unfold GA1, GA2. auto_derive; [exact I|]. unfold Rdiv, Rminus. ring. Qed.
Lemma GB_derive K g x : is_derive (GB K g) x (GB1 K g x).
Proof. unfold GB, GB1. auto_derive; [exact I|]. ring. Qed.
Lemma GB1_derive K g x : is_derive (GB1 K g) x (GB2 K g x).
Proof. unfold GB1, GB2. auto_derive; [exact I|]. ring. Qed.

(** ** stationarity.  Documented scheme (Integration.py / integration_shared.c), h = 1/2:
       V(x) = x(1-x)/nu * (beta+1)^2/(4 beta) = x(1-x)/(nu b),   M(x) = gamma * 2 (h + (1-2h) x) x(1-x) = gamma x(1-x),
       d phi/dt = 1/2 d^2(V phi)/dx^2 - d(M phi)/dx = - dJ/dx,   J = M phi - 1/2 d(V phi)/dx.
    With G = x(1-x) phi:  J = gamma G - G'/(2 nu b),  stationarity  G''/(2 nu b) - gamma G' = 0.
    Mutations enter at x -> 0 at rate theta0/2 per unit time; matching the drift-dominated boundary layer gives
    G(0) = 2 (nu b) (theta0/2) = theta0 nu b; x = 1 is absorbing, G(1) = 0. *)
Lemma geff_ne0 nu gamma beta : 0 < nu -> 0 < beta -> gamma <> 0 -> gamma * nu * bR beta <> 0.
Proof.
  intros Hn Hb Hg. pose proof (bR_pos beta Hb) as Hbb.
  apply Rmult_integral_contrapositive_currified; [apply Rmult_integral_contrapositive_currified; lra|lra].
Qed.

Lemma genic_is_stationary_lemma : forall nu theta0 gamma beta x,
  0 < nu -> 0 < beta -> gamma <> 0 ->
  let b := bR beta in let g := gamma * nu * b in let K := nu * theta0 * b in
  (* (1) the model's interior density times x(1-x) is G (regime A above the guard, B below) *)
  (0 < x < 1 -> -300 < g -> x * (1 - x) * (genic_pt g x * nu * theta0 * bfac beta) = GA K g x) /\
  (0 < x < 1 -> g <= -300 -> x * (1 - x) * (genic_pt g x * nu * theta0 * bfac beta) = GB K g x) /\
  (* (2) G', G'' *)
  is_derive (GA K g) x (GA1 K g x) /\ is_derive (GA1 K g) x (GA2 K g x) /\
  is_derive (GB K g) x (GB1 K g x) /\ is_derive (GB1 K g) x (GB2 K g x) /\
  (* (3) the stationary equation, in both regimes *)
  GA2 K g x / (2 * nu * b) - gamma * GA1 K g x = 0 /\
  GB2 K g x / (2 * nu * b) - gamma * GB1 K g x = 0 /\
  (* (4) boundary values: mutation influx theta0/2 at 0 (G(0) = 2 nu b theta0/2), absorption at 1 *)
  GA K g 0 = 2 * (nu * b) * (theta0 / 2) /\ GA K g 1 = 0 /\ GB K g 0 = 2 * (nu * b) * (theta0 / 2) /\
  (* (5) the flux is the same at every x: the rate theta0/2 of new mutations times the fixation factor 2g/(1-e^{-2g}) *)
  gamma * GA K g x - GA1 K g x / (2 * nu * b) = theta0 / 2 * (2 * g / (1 - exp (- (2 * g)))).
Proof.
  intros nu theta0 gamma beta x Hn Hb Hg b g K.
  pose proof (bR_pos beta Hb) as Hbb. fold b in Hbb.
  assert (Hg0 : g <> 0) by (apply geff_ne0; assumption).
  assert (HD : 1 - exp (- (2 * g)) <> 0).
  { apply Rminus_eq_contra. intro He. symmetry in He. revert He. apply exp_ne_1. lra. }
  assert (H1 : 0 < x < 1 -> -300 < g -> x * (1 - x) * (genic_pt g x * nu * theta0 * bfac beta) = GA K g x).
  { intros Hx HgA. rewrite genic_pt_A by exact HgA. rewrite bfac_R. fold b.
    rewrite <- (GA_is_density K g x Hx). unfold K. ring. }
  assert (H2 : 0 < x < 1 -> g <= -300 -> x * (1 - x) * (genic_pt g x * nu * theta0 * bfac beta) = GB K g x).
  { intros Hx HgB. rewrite genic_pt_B by exact HgB. rewrite bfac_R. fold b.
    rewrite <- (GB_is_density K g x Hx). unfold K. ring. }
  assert (H7 : GA2 K g x / (2 * nu * b) - gamma * GA1 K g x = 0).
  { unfold GA2, GA1. generalize HD. generalize (exp (- (2 * g) * (1 - x))). generalize (exp (- (2 * g))).
    intros E E' HE. unfold g. field. split; [exact HE|lra]. }
  assert (H8 : GB2 K g x / (2 * nu * b) - gamma * GB1 K g x = 0).
  { unfold GB2, GB1. generalize (exp (2 * g * x)). intros E. unfold g. field. lra. }
  assert (H9 : GA K g 0 = 2 * (nu * b) * (theta0 / 2)).
  { unfold GA, K. replace (- (2 * g) * (1 - 0)) with (- (2 * g)) by ring. field. exact HD. }
  assert (H10 : GA K g 1 = 0).
  { unfold GA. replace (- (2 * g) * (1 - 1)) with 0 by ring. rewrite exp_0. unfold Rdiv. ring. }
  assert (H11 : GB K g 0 = 2 * (nu * b) * (theta0 / 2)).
  { unfold GB, K. replace (2 * g * 0) with 0 by ring. rewrite exp_0. field. }
  assert (H12 : gamma * GA K g x - GA1 K g x / (2 * nu * b) = theta0 / 2 * (2 * g / (1 - exp (- (2 * g))))).
  { unfold GA, GA1, K. generalize HD. generalize (exp (- (2 * g) * (1 - x))). generalize (exp (- (2 * g))).
    intros E E' HE. unfold g. field. split; [exact HE|lra]. }
  exact (conj H1 (conj H2 (conj (GA_derive K g x) (conj (GA1_derive K g x) (conj (GB_derive K g x) (conj (GB1_derive K g x)
         (conj H7 (conj H8 (conj H9 (conj H10 (conj H11 H12))))))))))).
Qed.

(** neutral density: G = theta0 nu b (1 - x), flux = theta0/2 exactly (the mutation influx) *)
Lemma snm_flux_is_influx nu theta0 beta x :
  0 < nu -> 0 < beta -> 0 < x < 1 ->
  let b := bR beta in let G := fun y => nu * theta0 * b * (1 - y) in
  x * (1 - x) * (snm_pt nu theta0 x * bfac beta) = G x /\
  is_derive G x (- (nu * theta0 * b)) /\ 0 * G x - (- (nu * theta0 * b)) / (2 * nu * b) = theta0 / 2.
Proof.
  intros Hn Hb Hx b G. pose proof (bR_pos beta Hb) as Hbb. fold b in Hbb.
  split; [|split].
  - unfold snm_pt, G. numR. rewrite bfac_R. fold b. field. lra.
  - unfold G. auto_derive; [exact I|]. ring.
  - field. lra.
Qed.

(** the PRE-REPAIR form (selection strength gamma, not gamma*nu; [phi_1D_prefix]) is not stationary for nu <> 1:
    witness nu = 2, gamma = -5, beta = 1, theta0 = 1, x = 1/2 *)
Lemma genic_prefix_form_not_stationary :
  exists nu theta0 gamma beta x, 0 < nu /\ 0 < beta /\ 0 < x < 1 /\
    let b := bR beta in let g_old := gamma * 1 * b in let K := 1 * (nu * theta0) * b in
    x * (1 - x) * (genic_pt g_old x * 1 * (nu * theta0) * bfac beta) = GA K g_old x /\
    GA2 K g_old x / (2 * nu * b) - gamma * GA1 K g_old x < - (3 / 10).
Proof.
  exists 2, 1, (-5), 1, (1/2). split; [lra|]. split; [lra|]. split; [lra|]. cbv zeta.
  assert (Hb1 : bR 1 = 1) by (unfold bR; field). split.
  - assert (Hf : bfac 1 = 1) by (transitivity (bR 1); [apply bfac_R | exact Hb1]). rewrite Hf, Hb1.
    rewrite genic_pt_A by lra. rewrite <- (GA_is_density (1 * (2 * 1) * 1) (-5 * 1 * 1) (1/2)) by lra. ring.
  - rewrite Hb1. unfold GA2, GA1. interval.
Qed.

(** ** normal form of the list function on a standard grid 0 :: m1 :: ms ++ [1] *)
Lemma phi_genic_std m1 ms nu theta0 gamma beta : gamma <> 0 ->
  let g := gamma * nu * bfac beta in
  phi_genic (0 :: m1 :: ms ++ [1]) nu theta0 gamma beta =
  map (fun p => p * nu * theta0 * bfac beta)
      (genic_pt g m1 :: genic_pt g m1 :: map (genic_pt g) ms ++ [genic_limit g]).
Proof.
  intros Hg g. unfold phi_genic. numR.
  replace (Reqb gamma 0) with false by (symmetry; apply Reqb_false; exact Hg).
  unfold headF, lastF, middle. cbn [hd tl].
  replace (Reqb 0 0) with true by (symmetry; apply Reqb_true; reflexivity).
  assert (Hl : last (0 :: m1 :: ms ++ [1]) n0 = 1)
    by (change (0 :: m1 :: ms ++ [1]) with ((0 :: m1 :: ms) ++ [1]); rewrite last_last; reflexivity).
  rewrite !Hl.
  replace (Reqb 1 1) with true by (symmetry; apply Reqb_true; reflexivity).
  cbn [length Nat.leb andb].
  change (m1 :: ms ++ [1]) with ((m1 :: ms) ++ [1]). rewrite removelast_last.
  fold g. cbn [map copy1to0 app]. unfold set_last.
  change (genic_pt g m1 :: genic_pt g m1 :: map (genic_pt g) ms ++ [0])
    with ((genic_pt g m1 :: genic_pt g m1 :: map (genic_pt g) ms) ++ [0]).
  rewrite removelast_last. reflexivity.
Qed.

(** ** elementary exponential inequalities *)
Lemma key_ineq u : u * exp (- u) <= 1 - exp (- u) <= u.
Proof.
  split.
  - pose proof (exp_ineq1_le u) as H. pose proof (exp_pos (- u)) as Hp.
    assert (He : exp u * exp (- u) = 1) by (rewrite <- exp_plus; replace (u + - u) with 0 by ring; apply exp_0).
    assert ((1 + u) * exp (- u) <= exp u * exp (- u)) by (apply Rmult_le_compat_r; lra). lra.
  - pose proof (exp_ineq1_le (- u)). lra.
Qed.
Lemma exp_sum_ge2 c : 2 <= exp c + exp (- c).
Proof. pose proof (exp_ineq1_le c). pose proof (exp_ineq1_le (- c)). lra. Qed.
Lemma expm1_le c : exp c - 1 <= c * exp c.
Proof.
  destruct (key_ineq c) as [_ H]. pose proof (exp_pos c) as Hp.
  assert (He : exp c * exp (- c) = 1) by (rewrite <- exp_plus; replace (c + - c) with 0 by ring; apply exp_0).
  assert ((1 - exp (- c)) * exp c <= c * exp c) by (apply Rmult_le_compat_r; lra). nra.
Qed.

Lemma le_div_r a b c : 0 < c -> a * c <= b -> a <= b / c.
Proof. intros Hc H. apply (proj1 (Rle_div_r a b c Hc)). exact H. Qed.
Lemma div_le_l a b c : 0 < c -> a <= b * c -> a / c <= b.
Proof. intros Hc H. apply (proj2 (Rle_div_l a b c Hc)). exact H. Qed.

(** the ratio R(a,s) = (1 - e^{-a s}) / (1 - e^{-a}) for 0 < s <= 1 lies in [s e^{-|a|}, s e^{|a|}] and in (0, 1] *)
Definition ratio (a s : R) : R := (1 - exp (- a * s)) / (1 - exp (- a)).
Lemma ratio_bounds a s : a <> 0 -> 0 < s <= 1 ->
  s * exp (- Rabs a) <= ratio a s <= s * exp (Rabs a) /\ 0 < ratio a s <= 1.
Proof.
  intros Ha Hs. unfold ratio.
  destruct (key_ineq a) as [Hd1 Hd2]. destruct (key_ineq (a * s)) as [Hn1 Hn2].
  replace (- (a * s)) with (- a * s) in * by ring.
  pose proof (exp_pos (- a)) as Hpa. pose proof (exp_pos (- a * s)) as Hps. pose proof (exp_pos a) as Hpp.
  assert (Hea : exp a * exp (- a) = 1) by (rewrite <- exp_plus; replace (a + - a) with 0 by ring; apply exp_0).
  destruct (Rtotal_order a 0) as [Hneg|[H0|Hpos]]; [|contradiction|].
  - (* a < 0 : numerator and denominator negative *)
    rewrite (Rabs_left a Hneg).
    assert (HD : 1 - exp (- a) < 0) by (pose proof (exp_gt_1 (- a)); lra).
    assert (HN : 1 - exp (- a * s) < 0) by (pose proof (exp_gt_1 (- a * s)); nra).
    assert (Hmono : exp (- a * s) <= exp (- a)).
    { destruct (Req_dec s 1) as [->|Hs1]; [right; f_equal; ring|]. left. apply exp_increasing. nra. }
    replace ((1 - exp (- a * s)) / (1 - exp (- a))) with ((exp (- a * s) - 1) / (exp (- a) - 1))
      by (field; lra).
    assert (HD' : 0 < exp (- a) - 1) by lra.
    replace (- - a) with a by ring.
    split; [split|split].
    + apply le_div_r; [exact HD'|].
      (* s e^{a} (e^{-a} - 1) <= e^{-as} - 1 ; use e^{-a}-1 <= -a e^{-a} and -a s <= e^{-as}-1 *)
      assert (exp (- a) - 1 <= - a * exp (- a)) by lra.
      assert (s * exp a * (exp (- a) - 1) <= s * exp a * (- a * exp (- a))) by (apply Rmult_le_compat_l; nra).
      nra.
    + apply div_le_l; [exact HD'|].
      (* e^{-as} - 1 <= -a s e^{-as} <= -a s e^{-a} <= s e^{-a} (e^{-a}-1) since -a <= e^{-a} - 1 *)
      assert (exp (- a * s) - 1 <= - a * s * exp (- a * s)) by lra.
      assert (- a * s * exp (- a * s) <= - a * s * exp (- a)) by (apply Rmult_le_compat_l; nra).
      assert (- a * (s * exp (- a)) <= (exp (- a) - 1) * (s * exp (- a))) by (apply Rmult_le_compat_r; nra).
      nra.
    + apply Rdiv_lt_0_compat; lra.
    + apply div_le_l; [exact HD'|]. lra.
  - (* a > 0 *)
    rewrite (Rabs_right a) by lra.
    assert (HD : 0 < 1 - exp (- a)) by (pose proof (exp_lt_1 (- a)); lra).
    assert (HN : 0 < 1 - exp (- a * s)) by (pose proof (exp_lt_1 (- a * s)); nra).
    assert (Hmono : exp (- a) <= exp (- a * s)).
    { destruct (Req_dec s 1) as [->|Hs1]; [right; f_equal; ring|]. left. apply exp_increasing. nra. }
    split; [split|split].
    + apply le_div_r; [exact HD|].
      (* s e^{-a} (1 - e^{-a}) <= s e^{-a} a <= a s e^{-as} <= 1 - e^{-as} *)
      assert (s * exp (- a) * (1 - exp (- a)) <= s * exp (- a) * a) by (apply Rmult_le_compat_l; nra).
      assert (a * s * exp (- a) <= a * s * exp (- a * s)) by (apply Rmult_le_compat_l; nra).
      nra.
    + apply div_le_l; [exact HD|].
      (* 1 - e^{-as} <= a s = s e^{a} (a e^{-a}) <= s e^{a} (1 - e^{-a}) *)
      assert (s * exp a * (a * exp (- a)) <= s * exp a * (1 - exp (- a))) by (apply Rmult_le_compat_l; nra).
      nra.
    + apply Rdiv_lt_0_compat; lra.
    + apply div_le_l; [exact HD|]. lra.
Qed.

Lemma genicA_ratio g x : genicA g x = 1 / (x * (1 - x)) * ratio (2 * g) (1 - x).
Proof. unfold genicA, ratio. unfold Rdiv. replace (- (2 * g) * (1 - x)) with (- (2 * g) * (1 - x)) by ring. ring. Qed.

(** ** non-negativity and finiteness of the genic form *)
Lemma genic_pt_bounds g x : g <> 0 -> 0 < x < 1 -> 0 < genic_pt g x <= 1 / (x * (1 - x)).
Proof.
  intros Hg Hx. assert (Hxx : 0 < x * (1 - x)) by nra.
  assert (Hi : 0 < 1 / (x * (1 - x))) by (apply Rdiv_lt_0_compat; lra).
  destruct (Rlt_le_dec (-300) g) as [HA|HB].
  - rewrite genic_pt_A by exact HA. rewrite genicA_ratio.
    destruct (ratio_bounds (2 * g) (1 - x)) as [_ [Hp H1]]; [lra|lra|]. split; nra.
  - rewrite genic_pt_B by exact HB. unfold genicB.
    pose proof (exp_pos (2 * g * x)) as Hp. assert (exp (2 * g * x) < 1) by (apply exp_lt_1; nra). split; nra.
Qed.
Lemma genic_limit_pos g : g <> 0 -> 0 < genic_limit g.
Proof.
  intros Hg. destruct (Rlt_le_dec g 300) as [HA|HB].
  - rewrite genic_limit_A by exact HA. pose proof (exp_pos (2 * g)) as Hp.
    destruct (Rtotal_order g 0) as [Hn|[H0|Hpos]]; [|contradiction|].
    + assert (exp (2 * g) < 1) by (apply exp_lt_1; lra).
      replace (2 * g * exp (2 * g) / (exp (2 * g) - 1)) with ((- (2 * g)) * exp (2 * g) / (1 - exp (2 * g))) by (field; lra).
      apply Rdiv_lt_0_compat; nra.
    + assert (1 < exp (2 * g)) by (apply exp_gt_1; lra). apply Rdiv_lt_0_compat; nra.
  - rewrite genic_limit_B by exact HB. lra.
Qed.

(** every entry of the genic density on a standard grid is non-negative (positive) *)
Lemma phi_genic_nonneg m1 ms nu theta0 gamma beta :
  0 < nu -> 0 < theta0 -> 0 < beta -> gamma <> 0 -> List.Forall (fun m => 0 < m < 1) (m1 :: ms) ->
  List.Forall (fun p => 0 < p) (phi_genic (0 :: m1 :: ms ++ [1]) nu theta0 gamma beta).
Proof.
  intros Hn Ht Hb Hg Hm. rewrite phi_genic_std by exact Hg. cbv zeta.
  set (g := gamma * nu * bfac beta).
  assert (Hg0 : g <> 0) by (unfold g; rewrite bfac_R; apply geff_ne0; assumption).
  assert (Hbf : 0 < bfac beta) by (rewrite bfac_R; apply bR_pos; exact Hb).
  assert (Hsc : forall p, 0 < p -> 0 < p * nu * theta0 * bfac beta).
  { intros p Hp. apply Rmult_lt_0_compat; [apply Rmult_lt_0_compat; [apply Rmult_lt_0_compat|]|]; assumption. }
  apply Forall_forall. intros y Hy. apply in_map_iff in Hy. destruct Hy as [p [<- Hin]]. apply Hsc.
  inversion Hm as [|? ? Hm1 Hms]; subst.
  destruct Hin as [<-|[<-|Hin]]; try (apply genic_pt_bounds; assumption).
  apply in_app_or in Hin. destruct Hin as [Hin|[<-|[]]].
  - apply in_map_iff in Hin. destruct Hin as [m [<- Hmi]]. apply genic_pt_bounds; [exact Hg0|].
    rewrite Forall_forall in Hms. apply Hms. exact Hmi.
  - apply genic_limit_pos. exact Hg0.
Qed.

(** finiteness: every argument of exp stays below 600 < ln(DBL_MAX) = 709.78 and no divisor vanishes *)
Lemma phi_finite_on_grid_lemma g x : g <> 0 -> 0 <= x <= 1 ->
  (-300 < g -> - (2 * g) * (1 - x) <= 600 /\ - (2 * g) < 600 /\ 1 - exp (- (2 * g)) <> 0) /\
  (g <= -300 -> 2 * g * x <= 0) /\
  (g < 300 -> 2 * g < 600 /\ exp (2 * g) - 1 <> 0) /\
  (0 < x < 1 -> x * (1 - x) <> 0 /\ 0 < genic_pt g x <= 1 / (x * (1 - x))) /\
  0 < genic_limit g.
Proof.
  intros Hg Hx. split; [|split; [|split; [|split]]].
  - intros HA. split; [|split]; try nra.
    apply Rminus_eq_contra. intro He. symmetry in He. revert He. apply exp_ne_1. lra.
  - intros HB. nra.
  - intros HA. split; [lra|]. apply Rminus_eq_contra. apply exp_ne_1. lra.
  - intros Hxx. split; [nra|]. apply genic_pt_bounds; assumption.
  - apply genic_limit_pos. exact Hg.
Qed.

(** ** continuity at the gamma = 0 switch: |phi_genic(g, x) - phi_snm(x)| <= C(x) |g| with C(x) = 2 e^{2|g|} / x *)
Lemma switch_gamma0_lemma g x : g <> 0 -> -300 < g -> 0 < x < 1 ->
  Rabs (genic_pt g x - 1 / x) <= 2 * exp (2 * Rabs g) / x * Rabs g.
Proof.
  intros Hg HA Hx. rewrite genic_pt_A by exact HA. rewrite genicA_ratio.
  destruct (ratio_bounds (2 * g) (1 - x)) as [[Hlo Hhi] _]; [lra|lra|].
  set (r := ratio (2 * g) (1 - x)) in *. set (c := Rabs (2 * g)) in *.
  assert (Hc : c = 2 * Rabs g) by (unfold c; rewrite Rabs_mult, (Rabs_right 2); lra).
  assert (Hc0 : 0 <= c) by (unfold c; apply Rabs_pos).
  pose proof (exp_sum_ge2 c) as H2. pose proof (expm1_le c) as H3. pose proof (exp_pos c) as Hp.
  replace (1 / (x * (1 - x)) * r - 1 / x) with ((r - (1 - x)) / (x * (1 - x))) by (field; lra).
  assert (Hd : Rabs (r - (1 - x)) <= (1 - x) * (exp c - 1)).
  { apply Rabs_le. split; nra. }
  unfold Rdiv at 1. rewrite Rabs_mult, (Rabs_right (/ (x * (1 - x)))).
  2: { apply Rle_ge. left. apply Rinv_0_lt_compat. nra. }
  rewrite <- Hc.
  apply Rle_trans with ((1 - x) * (exp c - 1) * / (x * (1 - x))).
  - apply Rmult_le_compat_r; [left; apply Rinv_0_lt_compat; nra|exact Hd].
  - replace ((1 - x) * (exp c - 1) * / (x * (1 - x))) with ((exp c - 1) / x) by (field; lra).
    replace (2 * exp c / x * Rabs g) with ((c * exp c) / x) by (rewrite Hc; field; lra).
    apply Rmult_le_compat_r; [left; apply Rinv_0_lt_compat; lra|exact H3].
Qed.

(** ** the gaps at the |gamma| = 300 guards *)
Lemma exp600_huge : / (exp 600 - 1) < / 10 ^ 260.
Proof. interval. Qed.
Lemma switch_300_gap_lemma g x : g <= -300 -> 0 < x < 1 ->
  Rabs (genicA g x - genicB g x) <= 1 / (x * (1 - x)) * / (exp 600 - 1).
Proof.
  intros Hg Hx. unfold genicA, genicB.
  set (c := - (2 * g)). assert (Hc : 600 <= c) by (unfold c; lra).
  assert (Hec : exp 600 <= exp c) by (destruct Hc as [Hc|<-]; [left; apply exp_increasing; exact Hc|right; reflexivity]).
  assert (H600 : 1 < exp 600) by (apply exp_gt_1; lra).
  replace (2 * g * x) with (- (c * x)) by (unfold c; ring).
  assert (He : exp (c * (1 - x)) = exp c * exp (- (c * x))) by (rewrite <- exp_plus; f_equal; ring).
  rewrite He. pose proof (exp_pos (- (c * x))) as Hp.
  assert (Hlt : exp (- (c * x)) < 1) by (apply exp_lt_1; nra).
  replace (1 / (x * (1 - x)) * (1 - exp c * exp (- (c * x))) / (1 - exp c) - 1 / (x * (1 - x)) * exp (- (c * x)))
    with (1 / (x * (1 - x)) * (- ((1 - exp (- (c * x))) / (exp c - 1)))) by (field; lra).
  assert (Hxx : 0 < 1 / (x * (1 - x))) by (apply Rdiv_lt_0_compat; nra).
  rewrite Rabs_mult, (Rabs_right (1 / (x * (1 - x)))) by lra. rewrite Rabs_Ropp.
  apply Rmult_le_compat_l; [lra|].
  rewrite Rabs_right.
  - apply Rle_trans with (1 / (exp c - 1)).
    + apply Rmult_le_compat_r; [left; apply Rinv_0_lt_compat; lra|lra].
    + unfold Rdiv. rewrite Rmult_1_l. apply Rinv_le_contravar; lra.
  - apply Rle_ge. apply Rmult_le_pos; [lra|left; apply Rinv_0_lt_compat; lra].
Qed.
Lemma limit_x1_switch_gap_lemma g : 300 <= g ->
  Rabs (2 * g * exp (2 * g) / (exp (2 * g) - 1) - 2 * g) <= 2 * g * / (exp 600 - 1).
Proof.
  intros Hg.
  assert (Hec : exp 600 <= exp (2 * g)).
  { destruct (Req_dec (2 * g) 600) as [->|Hne]; [right; reflexivity|left; apply exp_increasing; lra]. }
  assert (H600 : 1 < exp 600) by (apply exp_gt_1; lra).
  replace (2 * g * exp (2 * g) / (exp (2 * g) - 1) - 2 * g) with (2 * g * / (exp (2 * g) - 1)) by (field; lra).
  rewrite Rabs_right.
  - apply Rmult_le_compat_l; [lra|]. apply Rinv_le_contravar; lra.
  - apply Rle_ge. apply Rmult_le_pos; [lra|left; apply Rinv_0_lt_compat; lra].
Qed.

(** ** general dominance: the quadrature oracle returns the integral *)
Section GeneralH.
  Variable ovf : R.
  Variable quad : (R -> R) -> R -> R -> R.
  Hypothesis quad_is_RInt : forall f a b, quad f a b = RInt f a b.

  Definition QR (g h x : R) : R := 4 * g * h * x + 2 * g * (1 - 2 * h) * (x * x).
  Definition QR' (g h x : R) : R := 4 * g * (h + (1 - 2 * h) * x).
  Definition eQ (g h x : R) : R := exp (- QR g h x).

  Lemma eQ_cont g h x : continuous (eQ g h) x.
  Proof. apply (ex_derive_continuous (eQ g h)). unfold eQ, QR. auto_derive. exact I. Qed.
  Lemma eQ_ex g h a b : ex_RInt (eQ g h) a b.
  Proof. apply (ex_RInt_continuous (V := R_CompleteNormedModule)). intros z _. apply eQ_cont. Qed.
  Lemma eQ_pos g h x : 0 < eQ g h x.
  Proof. apply exp_pos. Qed.
  Lemma I0_pos g h : 0 < RInt (eQ g h) 0 1.
  Proof. apply RInt_gt_0; [lra| |]; intros; [apply eQ_pos|apply eQ_cont]. Qed.

  (** the two integrands of the source in terms of e^{-Q} *)
  Lemma integrand_adj_R g h qa xi : integrand_adj g h qa xi = exp (- qa) * eQ g h xi.
  Proof.
    unfold integrand_adj, eQ, QR, nfour, n2. numR. two. rewrite <- exp_plus. f_equal. ring.
  Qed.
  Lemma integrand_in_R g h q xi : integrand_in g h q xi = exp (QR g h q) * eQ g h xi.
  Proof.
    unfold integrand_in, eQ, QR, nfour, n2. numR. two. rewrite <- exp_plus. f_equal. ring.
  Qed.
  Lemma RInt_scaled c g h a b : RInt (fun xi => c * eQ g h xi) a b = c * RInt (eQ g h) a b.
  Proof. apply (RInt_scal (eQ g h) a b c). apply eQ_ex. Qed.

  (** both branches of the numerator are e^{Q(x)} int_x^1 e^{-Q} / int_0^1 e^{-Q} (the Qadjust factor cancels) *)
  Lemma Qf_R g h x : Qf g h x = QR g h x.
  Proof. unfold Qf, QR, nfour, n2. numR. two. ring. Qed.
  Lemma qadjust_nonneg g : 0 <= g -> qadjust ovf g = 0.
  Proof.
    intros Hg. unfold qadjust, nltb. numR.
    replace (Rleb 0 g) with true by (symmetry; apply Rleb_true; exact Hg). reflexivity.
  Qed.

  (** both branches of the numerator are e^{Q(x)} int_x^1 e^{-Q} / int_0^1 e^{-Q} (the Qadjust factor cancels) *)
  Lemma general_raw_canonical g h x :
    general_raw ovf quad g h (general_int0 ovf quad g h) x = exp (QR g h x) * RInt (eQ g h) x 1 / RInt (eQ g h) 0 1.
  Proof.
    pose proof (I0_pos g h) as HI.
    unfold general_raw, general_int0. rewrite !quad_is_RInt.
    unfold nltb. numR. destruct (Rleb 0 g) eqn:E; cbn [negb].
    - apply Rleb_true in E. rewrite (qadjust_nonneg g E).
      rewrite (RInt_ext (integrand_adj g h 0) (fun xi => exp (- 0) * eQ g h xi) 0 1)
        by (intros; apply integrand_adj_R).
      rewrite RInt_scaled.
      rewrite (RInt_ext (integrand_in g h x) (fun xi => exp (QR g h x) * eQ g h xi) x 1)
        by (intros; apply integrand_in_R).
      rewrite RInt_scaled. rewrite Ropp_0, exp_0. field. lra.
    - generalize (qadjust ovf g). intros qa. pose proof (exp_pos (- qa)) as Hq.
      rewrite (RInt_ext (integrand_adj g h qa) (fun xi => exp (- qa) * eQ g h xi) 0 1)
        by (intros; apply integrand_adj_R).
      rewrite (RInt_ext (integrand_adj g h qa) (fun xi => exp (- qa) * eQ g h xi) x 1)
        by (intros; apply integrand_adj_R).
      rewrite !RInt_scaled. rewrite Qf_R. field. lra.
  Qed.

  (** G_h(x) = x(1-x) phi(x) for general dominance, and its derivative *)
  Definition Gh (K g h x : R) : R := K * exp (QR g h x) * RInt (eQ g h) x 1 / RInt (eQ g h) 0 1.
  Definition Gh1 (K g h x : R) : R := QR' g h x * Gh K g h x - K / RInt (eQ g h) 0 1.

  Lemma Jx_derive g h x : is_derive (fun y => RInt (eQ g h) y 1) x (- eQ g h x).
  Proof.
    apply (is_derive_RInt' (eQ g h) (fun y => RInt (eQ g h) y 1) x 1).
    - apply filter_forall. intros y. apply (RInt_correct (eQ g h)). apply eQ_ex.
    - apply eQ_cont.
  Qed.
  Lemma Gh_derive K g h x : is_derive (Gh K g h) x (Gh1 K g h x).
  Proof.
    pose proof (I0_pos g h) as HI.
    pose proof (Jx_derive g h x) as HJ.
    assert (HE : is_derive (fun y => K * exp (QR g h y)) x (K * (QR' g h x * exp (QR g h x)))).
    { unfold QR, QR'. auto_derive; [exact I|]. ring. }
    pose proof (is_derive_mult (fun y => K * exp (QR g h y)) (fun y => RInt (eQ g h) y 1) x _ _ HE HJ Rmult_comm) as HM.
    pose proof (is_derive_scal (fun y => K * exp (QR g h y) * RInt (eQ g h) y 1) x (/ RInt (eQ g h) 0 1) _ HM) as HS.
    apply (is_derive_ext (fun y => / RInt (eQ g h) 0 1 * (K * exp (QR g h y) * RInt (eQ g h) y 1))).
    - intros t. unfold Gh, Rdiv. match goal with |- ?a = ?b => change (@eq R a b) end. ring.
    - match type of HS with is_derive _ _ ?l => replace (Gh1 K g h x) with l end; [exact HS|].
      unfold Gh1, Gh.
      assert (Hex : eQ g h x = / exp (QR g h x)) by (unfold eQ; rewrite exp_Ropp; reflexivity).
      rewrite Hex. pose proof (exp_pos (QR g h x)) as Hp.
      generalize dependent (exp (QR g h x)). intros E Hex Hp.
      generalize dependent (RInt (eQ g h) 0 1). intros I0 HI _.
      generalize (RInt (eQ g h) x 1). intros Jx.
      unfold plus, mult; cbn. intros. field. lra.
  Qed.

  (** *** stationarity for general dominance.  M(x) = gamma 2 (h + (1-2h) x) x(1-x), V = x(1-x)/(nu b):
      the flux J = M phi - (V phi)'/2 = gamma 2 (h+(1-2h)x) G - G'/(2 nu b) is the same at every x *)
  Lemma general_h_is_stationary_lemma nu theta0 gamma h beta x : 0 < nu -> 0 < beta ->
    let b := bR beta in let g := gamma * nu * b in let K := nu * theta0 * b in
    (0 < x < 1 -> x * (1 - x) * (general_raw ovf quad g h (general_int0 ovf quad g h) x * (1 / (x * (1 - x))) * nu * theta0 * bfac beta)
                  = Gh K g h x) /\
    is_derive (Gh K g h) x (Gh1 K g h x) /\
    gamma * 2 * (h + (1 - 2 * h) * x) * Gh K g h x - Gh1 K g h x / (2 * nu * b) = theta0 / 2 * / RInt (eQ g h) 0 1 /\
    Gh K g h 0 = 2 * (nu * b) * (theta0 / 2) /\ Gh K g h 1 = 0.
  Proof.
    intros Hn Hb b g K. pose proof (bR_pos beta Hb) as Hbb. fold b in Hbb.
    pose proof (I0_pos g h) as HI.
    split; [|split; [|split; [|split]]].
    - intros Hx. rewrite general_raw_canonical, bfac_R. fold b. unfold Gh, K. field. repeat split; lra.
    - apply Gh_derive.
    - unfold Gh1, QR'. generalize (Gh K g h x). intros G. revert HI. generalize (RInt (eQ g h) 0 1). intros I0 HI.
      unfold K, g. field. repeat split; lra.
    - unfold Gh, K. replace (QR g h 0) with 0 by (unfold QR; ring). rewrite exp_0. field. lra.
    - unfold Gh. rewrite RInt_point. unfold zero; cbn. unfold Rdiv. ring.
  Qed.

  (** *** at h = 1/2 the quadrature form is the genic closed form *)
  Lemma RInt_eQ_half g a b : g <> 0 -> RInt (eQ g (1 / 2)) a b = (exp (- (2 * g) * a) - exp (- (2 * g) * b)) / (2 * g).
  Proof.
    intros Hg.
    rewrite (RInt_ext (eQ g (1 / 2)) (fun xi => exp (- (2 * g) * xi))).
    2:{ intros xi _. unfold eQ, QR. f_equal. field. }
    apply is_RInt_unique.
    replace ((exp (- (2 * g) * a) - exp (- (2 * g) * b)) / (2 * g))
      with (minus ((fun xi => - exp (- (2 * g) * xi) / (2 * g)) b) ((fun xi => - exp (- (2 * g) * xi) / (2 * g)) a))
      by (unfold minus, plus, opp; cbn; field; lra).
    apply (is_RInt_derive (V := R_CompleteNormedModule) (fun xi => - exp (- (2 * g) * xi) / (2 * g)) (fun xi => exp (- (2 * g) * xi)) a b).
    - intros y _. auto_derive; [exact I|]. field. lra.
    - intros y _. apply (ex_derive_continuous (fun xi => exp (- (2 * g) * xi))). auto_derive. exact I.
  Qed.

  Lemma general_h_at_half_lemma g x : g <> 0 ->
    general_raw ovf quad g (1 / 2) (general_int0 ovf quad g (1 / 2)) x = ratio (2 * g) (1 - x).
  Proof.
    intros Hg. rewrite general_raw_canonical. rewrite !RInt_eQ_half by exact Hg. unfold ratio.
    assert (HD : 1 - exp (- (2 * g)) <> 0).
    { apply Rminus_eq_contra. intro He. symmetry in He. revert He. apply exp_ne_1. lra. }
    replace (QR g (1 / 2) x) with (2 * g * x) by (unfold QR; field).
    replace (- (2 * g) * 0) with 0 by ring. replace (- (2 * g) * 1) with (- (2 * g)) by ring. rewrite exp_0.
    assert (H1 : exp (2 * g * x) * exp (- (2 * g) * x) = 1) by (rewrite <- exp_plus; replace (2 * g * x + - (2 * g) * x) with 0 by ring; apply exp_0).
    assert (H2 : exp (2 * g * x) * exp (- (2 * g)) = exp (- (2 * g) * (1 - x))) by (rewrite <- exp_plus; f_equal; ring).
    rewrite <- H2.
    replace (exp (2 * g * x) * ((exp (- (2 * g) * x) - exp (- (2 * g))) / (2 * g)) / ((1 - exp (- (2 * g))) / (2 * g)))
      with ((exp (2 * g * x) * exp (- (2 * g) * x) - exp (2 * g * x) * exp (- (2 * g))) / (1 - exp (- (2 * g)))) by (field; lra).
    rewrite H1. reflexivity.
  Qed.

  (** the interior entries of the two code paths agree at h = 1/2, and so does the x = 1 value (Qadjust = 0) *)
  Lemma general_h_at_half_is_genic_lemma g x : g <> 0 -> -300 < g ->
    general_raw ovf quad g (1 / 2) (general_int0 ovf quad g (1 / 2)) x * (1 / (x * (1 - x))) = genic_pt g x /\
    (qadjust ovf g = 0 -> g < 300 -> 1 / general_int0 ovf quad g (1 / 2) = genic_limit g).
  Proof.
    intros Hg HA. split.
    - rewrite general_h_at_half_lemma by exact Hg. rewrite genic_pt_A by exact HA. rewrite genicA_ratio. ring.
    - intros Hq HB. unfold general_int0. rewrite quad_is_RInt, Hq.
      rewrite (RInt_ext (integrand_adj g (1 / 2) 0) (fun xi => exp (- 0) * eQ g (1 / 2) xi) 0 1)
        by (intros; apply integrand_adj_R).
      rewrite RInt_scaled, RInt_eQ_half by exact Hg. rewrite genic_limit_A by exact HB.
      replace (- (2 * g) * 0) with 0 by ring. replace (- (2 * g) * 1) with (- (2 * g)) by ring. rewrite Ropp_0, exp_0.
      assert (HD : 1 - exp (- (2 * g)) <> 0).
      { apply Rminus_eq_contra. intro He. symmetry in He. revert He. apply exp_ne_1. lra. }
      assert (H1 : exp (2 * g) * exp (- (2 * g)) = 1) by (rewrite <- exp_plus; replace (2 * g + - (2 * g)) with 0 by ring; apply exp_0).
      pose proof (exp_pos (2 * g)) as Hp.
      replace (exp (2 * g) - 1) with (exp (2 * g) * (1 - exp (- (2 * g)))) by (rewrite Rmult_minus_distr_l, H1; ring).
      field. repeat split; lra.
  Qed.
End GeneralH.
