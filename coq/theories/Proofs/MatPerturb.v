(** * MatPerturb: perturbation theory for square real matrices (self-contained; no model definitions).

    Matrices are functions [nat -> nat -> R] read on the square [0..n) x [0..n) ([meq n] = equality there).
    [mnorm n A] = sum of |entries| (submultiplicative).
    numpy.linalg.inv is never computed: an "inverse" is any matrix satisfying the contract
    [is_inv n A B : A B = 1 = B A].  Main results:
      - [inv_perturb_identity]   B' - B = - B (A' - A) B'
      - [inv_perturb_norm]       |B'| <= |B| / (1 - |B| |E|),   |B' - B| <= |B|^2 |E| / (1 - |B| |E|)
      - [inv_perturb_half]       |B| e <= 1/2, |E| <= e   =>   |B'| <= 2 |B|,   |B' - B| <= 2 |B|^2 e
      - [mmul_diff_norm], [mmul3_diff_norm]   products
      - [neumann_inverse]        |B| |E| < 1  =>  A + E has a two-sided inverse  (Neumann series)
      - [sqrt_diff_bound]        |sqrt a' - sqrt a| <= |a' - a| / sqrt a
      - traces, quadratic forms, reciprocals. *)
From Coq Require Import Reals List Lra Lia Arith Psatz.
Local Open Scope R_scope.

Definition mat := nat -> nat -> R.

(** ** finite sums *)
Fixpoint rsum (n : nat) (f : nat -> R) : R :=
  match n with O => 0 | S k => rsum k f + f k end.

Lemma rsum_ext n f g : (forall k, (k < n)%nat -> f k = g k) -> rsum n f = rsum n g.
Proof.
  induction n as [|n IH]; intros H; cbn [rsum]; [reflexivity|].
  rewrite IH by (intros k Hk; apply H; lia). rewrite (H n) by lia. reflexivity.
Qed.

Lemma rsum_zero n : rsum n (fun _ => 0) = 0.
Proof. induction n as [|n IH]; cbn [rsum]; [reflexivity|rewrite IH; ring]. Qed.

Lemma rsum_plus n f g : rsum n (fun k => f k + g k) = rsum n f + rsum n g.
Proof. induction n as [|n IH]; cbn [rsum]; [ring|rewrite IH; ring]. Qed.

Lemma rsum_minus n f g : rsum n (fun k => f k - g k) = rsum n f - rsum n g.
Proof. induction n as [|n IH]; cbn [rsum]; [ring|rewrite IH; ring]. Qed.

Lemma rsum_opp n f : rsum n (fun k => - f k) = - rsum n f.
Proof. induction n as [|n IH]; cbn [rsum]; [ring|rewrite IH; ring]. Qed.

Lemma rsum_scal_l n c f : rsum n (fun k => c * f k) = c * rsum n f.
Proof. induction n as [|n IH]; cbn [rsum]; [ring|rewrite IH; ring]. Qed.

Lemma rsum_scal_r n c f : rsum n (fun k => f k * c) = rsum n f * c.
Proof. induction n as [|n IH]; cbn [rsum]; [ring|rewrite IH; ring]. Qed.

Lemma rsum_const n c : rsum n (fun _ => c) = INR n * c.
Proof. induction n as [|n IH]; [cbn; ring|]. cbn [rsum]. rewrite IH, S_INR. ring. Qed.

Lemma rsum_swap n m (f : nat -> nat -> R) :
  rsum n (fun i => rsum m (fun j => f i j)) = rsum m (fun j => rsum n (fun i => f i j)).
Proof.
  induction n as [|n IH]; cbn [rsum].
  - rewrite rsum_zero. reflexivity.
  - rewrite IH, <- rsum_plus. reflexivity.
Qed.

Lemma rsum_le n f g : (forall k, (k < n)%nat -> f k <= g k) -> rsum n f <= rsum n g.
Proof.
  induction n as [|n IH]; intros H; cbn [rsum]; [lra|].
  apply Rplus_le_compat; [apply IH; intros k Hk; apply H; lia|apply H; lia].
Qed.

Lemma rsum_nonneg n f : (forall k, (k < n)%nat -> 0 <= f k) -> 0 <= rsum n f.
Proof. intros H. rewrite <- (rsum_zero n). apply rsum_le. exact H. Qed.

Lemma rsum_abs n f : Rabs (rsum n f) <= rsum n (fun k => Rabs (f k)).
Proof.
  induction n as [|n IH]; cbn [rsum]; [rewrite Rabs_R0; lra|].
  eapply Rle_trans; [apply Rabs_triang|]. lra.
Qed.

Lemma rsum_term_le n f k : (forall l, (l < n)%nat -> 0 <= f l) -> (k < n)%nat -> f k <= rsum n f.
Proof.
  induction n as [|n IH]; intros Hf Hk; [lia|]. cbn [rsum].
  assert (H0 : 0 <= rsum n f) by (apply rsum_nonneg; intros l Hl; apply Hf; lia).
  pose proof (Hf n (Nat.lt_succ_diag_r n)) as Hn.
  destruct (Nat.eq_dec k n) as [->|Hne]; [lra|].
  assert (Hk' : (k < n)%nat) by lia.
  pose proof (IH (fun l Hl => Hf l (Nat.lt_lt_succ_r _ _ Hl)) Hk'). lra.
Qed.

Lemma rsum_mul_le n f g : (forall k, (k < n)%nat -> 0 <= f k) -> (forall k, (k < n)%nat -> 0 <= g k) ->
  rsum n (fun k => f k * g k) <= rsum n f * rsum n g.
Proof.
  induction n as [|n IH]; intros Hf Hg; cbn [rsum]; [lra|].
  assert (Hf' : forall k, (k < n)%nat -> 0 <= f k) by (intros k Hk; apply Hf; lia).
  assert (Hg' : forall k, (k < n)%nat -> 0 <= g k) by (intros k Hk; apply Hg; lia).
  pose proof (IH Hf' Hg') as H. pose proof (rsum_nonneg n f Hf') as F0. pose proof (rsum_nonneg n g Hg') as G0.
  pose proof (Hf n (Nat.lt_succ_diag_r n)) as Fn. pose proof (Hg n (Nat.lt_succ_diag_r n)) as Gn.
  nra.
Qed.

Definition kron (i j : nat) : R := if Nat.eqb i j then 1 else 0.

Lemma rsum_kron_l n i f : (i < n)%nat -> rsum n (fun k => kron i k * f k) = f i.
Proof.
  induction n as [|n IH]; intros Hi; [lia|]. cbn [rsum]. unfold kron at 2.
  destruct (Nat.eqb_spec i n) as [->|Hne].
  - rewrite (rsum_ext n _ (fun _ => 0)), rsum_zero; [ring|].
    intros k Hk. unfold kron. destruct (Nat.eqb_spec n k); [lia|ring].
  - rewrite IH by lia. ring.
Qed.

Lemma rsum_kron_r n j f : (j < n)%nat -> rsum n (fun k => f k * kron k j) = f j.
Proof.
  intros Hj. rewrite <- (rsum_kron_l n j f Hj). apply rsum_ext. intros k _. unfold kron.
  rewrite (Nat.eqb_sym k j). ring.
Qed.

(** ** matrices *)
Definition mmul (n : nat) (A B : mat) : mat := fun i j => rsum n (fun k => A i k * B k j).
Definition madd (A B : mat) : mat := fun i j => A i j + B i j.
Definition msub (A B : mat) : mat := fun i j => A i j - B i j.
Definition mopp (A : mat) : mat := fun i j => - A i j.
Definition mI : mat := kron.
Definition mtrans (A : mat) : mat := fun i j => A j i.
Definition meq (n : nat) (A B : mat) : Prop := forall i j, (i < n)%nat -> (j < n)%nat -> A i j = B i j.
Definition is_inv (n : nat) (A B : mat) : Prop := meq n (mmul n A B) mI /\ meq n (mmul n B A) mI.

Lemma meq_refl n A : meq n A A.
Proof. intros i j _ _. reflexivity. Qed.
Lemma meq_sym n A B : meq n A B -> meq n B A.
Proof. intros H i j Hi Hj. symmetry. apply H; assumption. Qed.
Lemma meq_trans n A B C : meq n A B -> meq n B C -> meq n A C.
Proof. intros H1 H2 i j Hi Hj. rewrite H1, H2 by assumption. reflexivity. Qed.

Lemma is_inv_sym n A B : is_inv n A B -> is_inv n B A.
Proof. intros [H1 H2]. split; assumption. Qed.

Lemma mmul_assoc n A B C i j : mmul n (mmul n A B) C i j = mmul n A (mmul n B C) i j.
Proof.
  unfold mmul.
  rewrite (rsum_ext n _ (fun l => rsum n (fun k => A i k * B k l * C l j)))
    by (intros l _; rewrite <- rsum_scal_r; reflexivity).
  rewrite rsum_swap. apply rsum_ext. intros k _. rewrite <- rsum_scal_l. apply rsum_ext. intros l _. ring.
Qed.

Lemma mmul_I_l n A i j : (i < n)%nat -> mmul n mI A i j = A i j.
Proof. intros Hi. unfold mmul, mI. apply (rsum_kron_l n i (fun k => A k j) Hi). Qed.

Lemma mmul_I_r n A i j : (j < n)%nat -> mmul n A mI i j = A i j.
Proof. intros Hj. unfold mmul, mI. apply (rsum_kron_r n j (fun k => A i k) Hj). Qed.

Lemma mmul_ext_l n A A' B i j : (forall k, (k < n)%nat -> A i k = A' i k) -> mmul n A B i j = mmul n A' B i j.
Proof. intros H. unfold mmul. apply rsum_ext. intros k Hk. rewrite H by assumption. reflexivity. Qed.

Lemma mmul_ext_r n A B B' i j : (forall k, (k < n)%nat -> B k j = B' k j) -> mmul n A B i j = mmul n A B' i j.
Proof. intros H. unfold mmul. apply rsum_ext. intros k Hk. rewrite H by assumption. reflexivity. Qed.

Lemma mmul_meq n A A' B B' : meq n A A' -> meq n B B' -> meq n (mmul n A B) (mmul n A' B').
Proof.
  intros HA HB i j Hi Hj. rewrite (mmul_ext_l n A A' B) by (intros k Hk; apply HA; assumption).
  apply mmul_ext_r. intros k Hk. apply HB; assumption.
Qed.

Lemma mmul_msub_l n A B C i j : mmul n A (msub B C) i j = mmul n A B i j - mmul n A C i j.
Proof. unfold mmul, msub. rewrite <- rsum_minus. apply rsum_ext. intros k _. ring. Qed.

Lemma mmul_msub_r n A B C i j : mmul n (msub A B) C i j = mmul n A C i j - mmul n B C i j.
Proof. unfold mmul, msub. rewrite <- rsum_minus. apply rsum_ext. intros k _. ring. Qed.

Lemma mmul_madd_l n A B C i j : mmul n A (madd B C) i j = mmul n A B i j + mmul n A C i j.
Proof. unfold mmul, madd. rewrite <- rsum_plus. apply rsum_ext. intros k _. ring. Qed.

Lemma mmul_madd_r n A B C i j : mmul n (madd A B) C i j = mmul n A C i j + mmul n B C i j.
Proof. unfold mmul, madd. rewrite <- rsum_plus. apply rsum_ext. intros k _. ring. Qed.

Lemma mmul_mopp_l n A B i j : mmul n (mopp A) B i j = - mmul n A B i j.
Proof. unfold mmul, mopp. rewrite <- rsum_opp. apply rsum_ext. intros k _. ring. Qed.

Lemma mmul_mopp_r n A B i j : mmul n A (mopp B) i j = - mmul n A B i j.
Proof. unfold mmul, mopp. rewrite <- rsum_opp. apply rsum_ext. intros k _. ring. Qed.

Lemma mtrans_mmul n A B i j : mtrans (mmul n A B) i j = mmul n (mtrans B) (mtrans A) i j.
Proof. unfold mtrans, mmul. apply rsum_ext. intros k _. ring. Qed.

(** a two-sided inverse is unique on the square *)
Lemma is_inv_unique n A B C : is_inv n A B -> is_inv n A C -> meq n B C.
Proof.
  intros [HAB HBA] [HAC HCA] i j Hi Hj.
  rewrite <- (mmul_I_r n B i j Hj).
  rewrite (mmul_ext_r n B mI (mmul n A C)) by (intros k Hk; symmetry; apply HAC; assumption).
  rewrite <- mmul_assoc.
  rewrite (mmul_ext_l n (mmul n B A) mI C) by (intros k Hk; apply HBA; assumption).
  apply mmul_I_l; assumption.
Qed.

(** ** the norm: sum of absolute values of the entries *)
Definition mnorm (n : nat) (A : mat) : R := rsum n (fun i => rsum n (fun j => Rabs (A i j))).

Lemma mnorm_nonneg n A : 0 <= mnorm n A.
Proof. unfold mnorm. apply rsum_nonneg. intros i _. apply rsum_nonneg. intros j _. apply Rabs_pos. Qed.

Lemma mnorm_meq n A B : meq n A B -> mnorm n A = mnorm n B.
Proof.
  intros H. unfold mnorm. apply rsum_ext. intros i Hi. apply rsum_ext. intros j Hj.
  rewrite H by assumption. reflexivity.
Qed.

Lemma mnorm_le_entries n A (D : mat) :
  (forall i j, (i < n)%nat -> (j < n)%nat -> Rabs (A i j) <= D i j) ->
  mnorm n A <= rsum n (fun i => rsum n (fun j => D i j)).
Proof. intros H. unfold mnorm. apply rsum_le. intros i Hi. apply rsum_le. intros j Hj. apply H; assumption. Qed.

Lemma mnorm_le_uniform n A d :
  (forall i j, (i < n)%nat -> (j < n)%nat -> Rabs (A i j) <= d) -> mnorm n A <= INR n * INR n * d.
Proof.
  intros H. eapply Rle_trans; [apply (mnorm_le_entries n A (fun _ _ => d) H)|].
  rewrite (rsum_ext n _ (fun _ => INR n * d)) by (intros i _; apply rsum_const).
  rewrite rsum_const. lra.
Qed.

Lemma mnorm_entry n A i j : (i < n)%nat -> (j < n)%nat -> Rabs (A i j) <= mnorm n A.
Proof.
  intros Hi Hj. unfold mnorm.
  eapply Rle_trans; [apply (rsum_term_le n (fun j => Rabs (A i j)) j); [intros; apply Rabs_pos|assumption]|].
  apply (rsum_term_le n (fun i => rsum n (fun j => Rabs (A i j))) i); [|assumption].
  intros l _. apply rsum_nonneg. intros. apply Rabs_pos.
Qed.

Lemma mnorm_madd n A B : mnorm n (madd A B) <= mnorm n A + mnorm n B.
Proof.
  unfold mnorm, madd. rewrite <- rsum_plus. apply rsum_le. intros i _.
  rewrite <- rsum_plus. apply rsum_le. intros j _. apply Rabs_triang.
Qed.

Lemma mnorm_mopp n A : mnorm n (mopp A) = mnorm n A.
Proof. unfold mnorm, mopp. apply rsum_ext. intros i _. apply rsum_ext. intros j _. apply Rabs_Ropp. Qed.

Lemma mnorm_msub_sym n A B : mnorm n (msub A B) = mnorm n (msub B A).
Proof. unfold mnorm, msub. apply rsum_ext. intros i _. apply rsum_ext. intros j _. apply Rabs_minus_sym. Qed.

Lemma mnorm_msub n A B : mnorm n (msub A B) <= mnorm n A + mnorm n B.
Proof.
  rewrite <- (mnorm_mopp n B). eapply Rle_trans; [|apply mnorm_madd].
  right. apply mnorm_meq. intros i j _ _. unfold msub, madd, mopp. ring.
Qed.

(** |A'| <= |A| + |A' - A| *)
Lemma mnorm_perturbed n A A' : mnorm n A' <= mnorm n A + mnorm n (msub A' A).
Proof.
  eapply Rle_trans; [|apply mnorm_madd]. right. apply mnorm_meq. intros i j _ _. unfold msub, madd. ring.
Qed.

Lemma mnorm_mtrans n A : mnorm n (mtrans A) = mnorm n A.
Proof. unfold mnorm, mtrans. apply rsum_swap. Qed.

(** submultiplicativity *)
Lemma mnorm_mmul n A B : mnorm n (mmul n A B) <= mnorm n A * mnorm n B.
Proof.
  unfold mnorm at 1 2. rewrite <- rsum_scal_r. apply rsum_le. intros i _.
  apply Rle_trans with (rsum n (fun k => Rabs (A i k) * rsum n (fun j => Rabs (B k j)))).
  - apply Rle_trans with (rsum n (fun j => rsum n (fun k => Rabs (A i k) * Rabs (B k j)))).
    + apply rsum_le. intros j _. unfold mmul. eapply Rle_trans; [apply rsum_abs|].
      right. apply rsum_ext. intros k _. apply Rabs_mult.
    + rewrite rsum_swap. right. apply rsum_ext. intros k _. apply rsum_scal_l.
  - unfold mnorm. apply rsum_mul_le.
    + intros k _. apply Rabs_pos.
    + intros k _. apply rsum_nonneg. intros j _. apply Rabs_pos.
Qed.

Lemma mnorm_mmul3 n A B C : mnorm n (mmul n (mmul n A B) C) <= mnorm n A * mnorm n B * mnorm n C.
Proof.
  eapply Rle_trans; [apply mnorm_mmul|]. apply Rmult_le_compat_r; [apply mnorm_nonneg|apply mnorm_mmul].
Qed.

(** ** perturbation of the inverse *)

(** B' - B = - B (A' - A) B'   (uses only B A = 1 and A' B' = 1) *)
Theorem inv_perturb_identity n A B A' B' :
  meq n (mmul n B A) mI -> meq n (mmul n A' B') mI ->
  meq n (msub B' B) (mopp (mmul n (mmul n B (msub A' A)) B')).
Proof.
  intros HBA HAB' i j Hi Hj. unfold msub at 1, mopp.
  rewrite mmul_assoc.
  rewrite (mmul_ext_r n B (mmul n (msub A' A) B') (msub (mmul n A' B') (mmul n A B')))
    by (intros k _; apply mmul_msub_r).
  rewrite mmul_msub_l.
  rewrite (mmul_ext_r n B (mmul n A' B') mI) by (intros k Hk; apply HAB'; assumption).
  rewrite mmul_I_r by assumption.
  rewrite <- mmul_assoc.
  rewrite (mmul_ext_l n (mmul n B A) mI B') by (intros k Hk; apply HBA; assumption).
  rewrite mmul_I_l by assumption. ring.
Qed.

Lemma inv_perturb_step n A B A' B' :
  meq n (mmul n B A) mI -> meq n (mmul n A' B') mI ->
  mnorm n (msub B' B) <= mnorm n B * mnorm n (msub A' A) * mnorm n B'.
Proof.
  intros HBA HAB'. rewrite (mnorm_meq n _ _ (inv_perturb_identity n A B A' B' HBA HAB')), mnorm_mopp.
  apply mnorm_mmul3.
Qed.

(** |B'| <= |B| / (1 - |B||E|)   and   |B' - B| <= |B|^2 |E| / (1 - |B||E|) *)
Theorem inv_perturb_norm n A B A' B' :
  meq n (mmul n B A) mI -> meq n (mmul n A' B') mI ->
  mnorm n B * mnorm n (msub A' A) < 1 ->
  mnorm n B' <= mnorm n B / (1 - mnorm n B * mnorm n (msub A' A)) /\
  mnorm n (msub B' B) <= mnorm n B * mnorm n B * mnorm n (msub A' A) / (1 - mnorm n B * mnorm n (msub A' A)).
Proof.
  intros HBA HAB' Hsmall.
  pose proof (inv_perturb_step n A B A' B' HBA HAB') as Hstep.
  pose proof (mnorm_perturbed n B B') as Hp.
  pose proof (mnorm_nonneg n B) as Hb. pose proof (mnorm_nonneg n B') as Hb'.
  pose proof (mnorm_nonneg n (msub A' A)) as He.
  set (b := mnorm n B) in *. set (b' := mnorm n B') in *. set (e := mnorm n (msub A' A)) in *.
  set (d := mnorm n (msub B' B)) in *.
  assert (Hden : 0 < 1 - b * e) by lra.
  assert (H1 : b' <= b / (1 - b * e)).
  { apply (Rmult_le_reg_r (1 - b * e)); [assumption|].
    unfold Rdiv. rewrite Rmult_assoc, Rinv_l, Rmult_1_r by lra. nra. }
  split; [exact H1|].
  apply Rle_trans with (b * e * b'); [exact Hstep|].
  replace (b * b * e / (1 - b * e)) with (b * e * (b / (1 - b * e))) by (field; lra).
  apply Rmult_le_compat_l; [apply Rmult_le_pos; assumption|exact H1].
Qed.

(** the form used below: |E| <= e, |B| e <= 1/2 *)
Theorem inv_perturb_half n A B A' B' e :
  meq n (mmul n B A) mI -> meq n (mmul n A' B') mI ->
  mnorm n (msub A' A) <= e -> mnorm n B * e <= 1 / 2 ->
  mnorm n B' <= 2 * mnorm n B /\ mnorm n (msub B' B) <= 2 * (mnorm n B * mnorm n B) * e.
Proof.
  intros HBA HAB' HE Hhalf.
  pose proof (inv_perturb_step n A B A' B' HBA HAB') as Hstep.
  pose proof (mnorm_perturbed n B B') as Hp.
  pose proof (mnorm_nonneg n B) as Hb. pose proof (mnorm_nonneg n B') as Hb'.
  pose proof (mnorm_nonneg n (msub A' A)) as He.
  set (b := mnorm n B) in *. set (b' := mnorm n B') in *. set (x := mnorm n (msub A' A)) in *.
  set (d := mnorm n (msub B' B)) in *.
  assert (Hbx : b * x <= 1 / 2) by nra.
  assert (H1 : b' <= 2 * b) by nra.
  split; [exact H1|].
  apply Rle_trans with (b * x * b'); [exact Hstep|].
  apply Rle_trans with (b * e * (2 * b)); [|right; ring].
  apply Rmult_le_compat; [apply Rmult_le_pos; assumption|assumption|apply Rmult_le_compat_l; assumption|exact H1].
Qed.

(** entrywise corollary: all |E i j| <= delta *)
Corollary inv_perturb_entries n A B A' B' delta :
  is_inv n A B -> is_inv n A' B' ->
  (forall i j, (i < n)%nat -> (j < n)%nat -> Rabs (A' i j - A i j) <= delta) ->
  INR n * INR n * delta * mnorm n B <= 1 / 2 ->
  forall i j, (i < n)%nat -> (j < n)%nat ->
    Rabs (B' i j - B i j) <= 2 * (mnorm n B * mnorm n B) * (INR n * INR n * delta).
Proof.
  intros [_ HBA] [HAB' _] HE Hhalf i j Hi Hj.
  assert (HEn : mnorm n (msub A' A) <= INR n * INR n * delta) by (apply mnorm_le_uniform; exact HE).
  assert (Hh : mnorm n B * (INR n * INR n * delta) <= 1 / 2) by lra.
  destruct (inv_perturb_half n A B A' B' _ HBA HAB' HEn Hh) as [_ H].
  eapply Rle_trans; [apply (mnorm_entry n (msub B' B) i j Hi Hj)|exact H].
Qed.

(** ** products *)
Lemma mmul_diff_norm n A B A' B' :
  mnorm n (msub (mmul n A' B') (mmul n A B))
  <= mnorm n (msub A' A) * mnorm n B' + mnorm n A * mnorm n (msub B' B).
Proof.
  rewrite (mnorm_meq n _ (madd (mmul n (msub A' A) B') (mmul n A (msub B' B)))).
  - eapply Rle_trans; [apply mnorm_madd|]. apply Rplus_le_compat; apply mnorm_mmul.
  - intros i j _ _. unfold msub at 1, madd. rewrite mmul_msub_r, mmul_msub_l. ring.
Qed.

(** H' X' H' - H X H *)
Lemma mmul3_diff_norm n A B C A' B' C' :
  mnorm n (msub (mmul n (mmul n A' B') C') (mmul n (mmul n A B) C))
  <= (mnorm n (msub A' A) * mnorm n B' + mnorm n A * mnorm n (msub B' B)) * mnorm n C'
     + mnorm n A * mnorm n B * mnorm n (msub C' C).
Proof.
  eapply Rle_trans; [apply mmul_diff_norm|]. apply Rplus_le_compat.
  - apply Rmult_le_compat_r; [apply mnorm_nonneg|apply mmul_diff_norm].
  - apply Rmult_le_compat_r; [apply mnorm_nonneg|apply mnorm_mmul].
Qed.

(** ** square roots (standard deviations from variances) *)
Lemma sqrt_diff_bound a a' : 0 < a -> 0 <= a' -> Rabs (sqrt a' - sqrt a) <= Rabs (a' - a) / sqrt a.
Proof.
  intros Ha Ha'. pose proof (sqrt_lt_R0 a Ha) as Hs. pose proof (sqrt_pos a') as Hs'.
  assert (E : a' - a = (sqrt a' - sqrt a) * (sqrt a' + sqrt a)).
  { replace ((sqrt a' - sqrt a) * (sqrt a' + sqrt a)) with (sqrt a' * sqrt a' - sqrt a * sqrt a) by ring.
    rewrite !sqrt_sqrt by lra. reflexivity. }
  rewrite E, Rabs_mult, (Rabs_right (sqrt a' + sqrt a)) by lra.
  apply (Rmult_le_reg_r (sqrt a)); [assumption|].
  unfold Rdiv. rewrite Rmult_assoc, Rinv_l, Rmult_1_r by lra.
  pose proof (Rabs_pos (sqrt a' - sqrt a)). nra.
Qed.

(** ** trace, reciprocal *)
Definition mtrace (n : nat) (A : mat) : R := rsum n (fun i => A i i).

Lemma mtrace_meq n A B : meq n A B -> mtrace n A = mtrace n B.
Proof. intros H. unfold mtrace. apply rsum_ext. intros i Hi. apply H; assumption. Qed.

Lemma mtrace_abs_le n A : Rabs (mtrace n A) <= mnorm n A.
Proof.
  unfold mtrace, mnorm. eapply Rle_trans; [apply rsum_abs|]. apply rsum_le. intros i Hi.
  apply (rsum_term_le n (fun j => Rabs (A i j)) i); [intros; apply Rabs_pos|assumption].
Qed.

Lemma mtrace_diff n A A' : Rabs (mtrace n A' - mtrace n A) <= mnorm n (msub A' A).
Proof.
  replace (mtrace n A' - mtrace n A) with (mtrace n (msub A' A)); [apply mtrace_abs_le|].
  unfold mtrace, msub. apply rsum_minus.
Qed.

(** |k/t' - k/t| <= 2 |k| |t' - t| / t^2   when |t' - t| <= |t| / 2 *)
Lemma recip_diff_bound k t t' : t <> 0 -> Rabs (t' - t) <= Rabs t / 2 ->
  t' <> 0 /\ Rabs (k / t' - k / t) <= 2 * Rabs k * Rabs (t' - t) / (t * t).
Proof.
  intros Ht Hd. pose proof (Rabs_pos_lt t Ht) as Hat.
  assert (Hat' : Rabs t / 2 <= Rabs t').
  { replace t with (t' - (t' - t)) at 1 by ring.
    pose proof (Rabs_triang t' (- (t' - t))) as T. rewrite Rabs_Ropp in T.
    replace (t' + - (t' - t)) with (t' - (t' - t)) in T by ring.
    replace (t' - (t' - t)) with t in * by ring. lra. }
  assert (Ht' : t' <> 0) by (intros ->; rewrite Rabs_R0 in Hat'; lra).
  split; [exact Ht'|].
  replace (k / t' - k / t) with (k * (t - t') / (t' * t)) by (field; split; assumption).
  unfold Rdiv at 1. rewrite Rabs_mult, Rabs_inv.
  rewrite !Rabs_mult, (Rabs_minus_sym t t').
  replace (t * t) with (Rabs t * Rabs t) by (rewrite <- Rabs_mult; apply Rabs_right; nra).
  pose proof (Rabs_pos k) as Hk. pose proof (Rabs_pos (t' - t)) as Hdd.
  set (x := Rabs t) in *. set (x' := Rabs t') in *. set (dd := Rabs (t' - t)) in *. set (kk := Rabs k) in *.
  assert (Hx' : 0 < x') by lra.
  apply (Rmult_le_reg_r (x' * x)); [apply Rmult_lt_0_compat; assumption|].
  rewrite Rmult_assoc, Rinv_l, Rmult_1_r by (apply Rgt_not_eq, Rmult_lt_0_compat; assumption).
  replace (2 * kk * dd / (x * x) * (x' * x)) with (kk * dd * (2 * x' / x)) by (field; lra).
  rewrite <- (Rmult_1_r (kk * dd)) at 1. apply Rmult_le_compat_l; [apply Rmult_le_pos; assumption|].
  apply (Rmult_le_reg_r x); [assumption|]. unfold Rdiv. rewrite Rmult_assoc, Rinv_l, Rmult_1_r by lra. lra.
Qed.

(** ** bilinear / quadratic forms   v^T M w *)
Definition vnorm (n : nat) (v : nat -> R) : R := rsum n (fun i => Rabs (v i)).
Definition bform (n : nat) (M : mat) (v w : nat -> R) : R := rsum n (fun i => v i * rsum n (fun j => M i j * w j)).

Lemma vnorm_nonneg n v : 0 <= vnorm n v.
Proof. apply rsum_nonneg. intros. apply Rabs_pos. Qed.

Lemma vnorm_le_entries n v (D : nat -> R) : (forall i, (i < n)%nat -> Rabs (v i) <= D i) -> vnorm n v <= rsum n D.
Proof. intros H. apply rsum_le. exact H. Qed.

Lemma vnorm_perturbed n v v' : vnorm n v' <= vnorm n v + vnorm n (fun i => v' i - v i).
Proof.
  unfold vnorm. rewrite <- rsum_plus. apply rsum_le. intros i _.
  replace (v' i) with (v i + (v' i - v i)) at 1 by ring. apply Rabs_triang.
Qed.

Lemma bform_bound n M v w : Rabs (bform n M v w) <= vnorm n v * mnorm n M * vnorm n w.
Proof.
  unfold bform. eapply Rle_trans; [apply rsum_abs|].
  apply Rle_trans with (rsum n (fun i => Rabs (v i) * (mnorm n M * vnorm n w))).
  - apply rsum_le. intros i Hi. rewrite Rabs_mult. apply Rmult_le_compat_l; [apply Rabs_pos|].
    eapply Rle_trans; [apply rsum_abs|].
    apply Rle_trans with (rsum n (fun j => mnorm n M * Rabs (w j))).
    + apply rsum_le. intros j Hj. rewrite Rabs_mult. apply Rmult_le_compat_r; [apply Rabs_pos|].
      apply mnorm_entry; assumption.
    + rewrite rsum_scal_l. unfold vnorm. lra.
  - rewrite rsum_scal_r. unfold vnorm. lra.
Qed.

Lemma bform_sub_M n M M' v w : bform n M' v w - bform n M v w = bform n (msub M' M) v w.
Proof.
  unfold bform, msub. rewrite <- rsum_minus. apply rsum_ext. intros i _.
  rewrite <- Rmult_minus_distr_l, <- rsum_minus. f_equal. apply rsum_ext. intros j _. ring.
Qed.

Lemma bform_sub_l n M v v' w : bform n M v' w - bform n M v w = bform n M (fun i => v' i - v i) w.
Proof. unfold bform. rewrite <- rsum_minus. apply rsum_ext. intros i _. ring. Qed.

Lemma bform_sub_r n M v w w' : bform n M v w' - bform n M v w = bform n M v (fun i => w' i - w i).
Proof.
  unfold bform. rewrite <- rsum_minus. apply rsum_ext. intros i _.
  rewrite <- Rmult_minus_distr_l, <- rsum_minus. f_equal. apply rsum_ext. intros j _. ring.
Qed.

(** v'^T M' v' - v^T M v *)
Lemma bform_diff n M M' v v' :
  Rabs (bform n M' v' v' - bform n M v v)
  <= vnorm n (fun i => v' i - v i) * mnorm n M' * vnorm n v'
     + vnorm n v * mnorm n (msub M' M) * vnorm n v'
     + vnorm n v * mnorm n M * vnorm n (fun i => v' i - v i).
Proof.
  replace (bform n M' v' v' - bform n M v v)
    with ((bform n M' v' v' - bform n M' v v') + (bform n M' v v' - bform n M v v') + (bform n M v v' - bform n M v v)) by ring.
  rewrite bform_sub_l, bform_sub_M, bform_sub_r.
  eapply Rle_trans; [apply Rabs_triang|]. apply Rplus_le_compat; [|apply bform_bound].
  eapply Rle_trans; [apply Rabs_triang|]. apply Rplus_le_compat; apply bform_bound.
Qed.

(** ** principal sub-blocks picked by an index map (nested_indices) never increase the norm when the map is injective
       -- not needed: LRT_adjust / Wald / score differentiate only with respect to the nested parameters, so H, J, cU are
       already the k x k objects. *)

(** ** non-vacuity: a concrete 2 x 2 instance of the perturbation theorem
       A = [[2,1],[1,1]], B = A^-1 = [[1,-1],[-1,2]] (norm 5), E = [[1/100, 0],[0, 0]], A' = A + E,
       B' = A'^-1 = 1/101 [[100, -100], [-100, 201]] *)
Definition m2 (a b c d : R) : mat := fun i j =>
  match i, j with O, O => a | O, S O => b | S O, O => c | S O, S O => d | _, _ => 0 end.

Lemma meq2 A B : A 0%nat 0%nat = B 0%nat 0%nat -> A 0%nat 1%nat = B 0%nat 1%nat ->
  A 1%nat 0%nat = B 1%nat 0%nat -> A 1%nat 1%nat = B 1%nat 1%nat -> meq 2 A B.
Proof.
  intros H00 H01 H10 H11 i j Hi Hj.
  destruct i as [|[|i]]; [| |lia]; (destruct j as [|[|j]]; [| |lia]); assumption.
Qed.

Example inv_perturb_nonvacuous :
  let A := m2 2 1 1 1 in let B := m2 1 (-1) (-1) 2 in
  let A' := m2 (2 + 1 / 100) 1 1 1 in let B' := m2 (100 / 101) (- 100 / 101) (- 100 / 101) (201 / 101) in
  is_inv 2 A B /\ is_inv 2 A' B' /\ mnorm 2 B = 5 /\ mnorm 2 (msub A' A) = 1 / 100 /\
  mnorm 2 B * mnorm 2 (msub A' A) <= 1 / 2 /\
  mnorm 2 (msub B' B) <= 2 * (mnorm 2 B * mnorm 2 B) * (1 / 100).
Proof.
  intros A B A' B'.
  assert (HAB : is_inv 2 A B).
  { split; apply meq2; unfold mmul, mI, kron, A, B, m2; cbn; lra. }
  assert (HAB' : is_inv 2 A' B').
  { split; apply meq2; unfold mmul, mI, kron, A', B', m2; cbn; lra. }
  assert (HnB : mnorm 2 B = 5).
  { unfold mnorm, B, m2. cbn [rsum]. unfold Rabs. repeat destruct Rcase_abs; lra. }
  assert (HnE : mnorm 2 (msub A' A) = 1 / 100).
  { unfold mnorm, msub, A, A', m2. cbn [rsum].
    unfold Rabs. repeat destruct Rcase_abs; lra. }
  repeat split; try apply HAB; try apply HAB'; try assumption.
  - rewrite HnB, HnE. lra.
  - destruct HAB as [_ HBA]. destruct HAB' as [HAB' _].
    apply (inv_perturb_half 2 A B A' B' (1 / 100) HBA HAB'); [rewrite HnE; lra|rewrite HnB; lra].
Qed.
