(** C04, isolated subsets, line level (A): when the advection term vanishes in the first and last cell and the
    diffusion term vanishes at the first and last grid point (no migration, no selection, grid from 0 to 1), the
    tridiagonal system of one implicit step decouples: rows 1..N-2 form a closed system, the first (last) unknown is
    driven by it but does not feed back.  Hence the interior of the result does not depend on the corner flags nor on
    the two end values of the input, and weighted sums over a family of lines commute with the step. *)
From Coq Require Import Reals List Lra Lia Arith Bool.
From Dadi Require Import Base.Num Base.NumR Model.Tridiag Model.Scheme
  Proofs.TridiagProofs Proofs.SchemeProofs Proofs.SumLemmas Proofs.Linearity Proofs.NDLines.
Import ListNotations.
Local Open Scope R_scope.

(** ** the Thomas algorithm on a system whose second row has a = 0 / whose last-but-one row has c = 0 *)
Definition row_a (r : @row R) : R := let '(a, _, _, _) := r in a.
Definition row_c (r : @row R) : R := let '(_, _, c, _) := r in c.

Lemma thomas_decouple_first (r0 : @row R) b1 c1 r1 t :
  thomas (r0 :: (0, b1, c1, r1) :: t) = hd 0 (thomas (r0 :: (0, b1, c1, r1) :: t)) :: thomas ((0, b1, c1, r1) :: t).
Proof.
  destruct r0 as [[[a0 b0] c0] rr0]. unfold thomas. cbn [fwd]. numR.
  replace (b1 - 0 * (c0 / b0)) with b1 by ring.
  replace (r1 - 0 * (rr0 / b0)) with r1 by ring.
  cbn [back]. destruct (back (fwd b1 (r1 / b1) c1 t)) as [ys cy]. cbn [fst hd]. reflexivity.
Qed.

(** c of the last row of [l] (c0 if [l] is empty) *)
Fixpoint last_c (c0 : R) (l : list (@row R)) : R :=
  match l with [] => c0 | (_, _, c, _) :: t => last_c c t end.

Lemma fwd_snoc0 : forall l bet u c last, last_c c l = 0 ->
  exists uu, fwd bet u c (l ++ [last]) = fwd bet u c l ++ [(0, uu)].
Proof.
  induction l as [|[[[a b] c'] r] t IH]; intros bet u c last Hc.
  - cbn [last_c] in Hc. subst c. destruct last as [[[a b] c'] r]. cbn [app fwd]. numR.
    eexists. f_equal. f_equal. unfold Rdiv. ring.
  - cbn [last_c] in Hc. cbn [app fwd].
    destruct (IH (nsub b (nmul a (ndiv c bet))) (ndiv (nsub r (nmul a u)) (nsub b (nmul a (ndiv c bet)))) c' last Hc) as [uu E].
    exists uu. rewrite E. reflexivity.
Qed.

Lemma back_snoc0 : forall (l : list (R * R)) uu,
  back (l ++ [(0, uu)]) = (fst (back l) ++ [uu - 0], snd (back l)).
Proof.
  induction l as [|[g u] t IH]; intros uu.
  - cbn [app back fst snd]. numR. f_equal. ring.
  - cbn [app back]. rewrite IH. destruct (back t) as [xs cy]. cbn [fst snd app]. reflexivity.
Qed.

Lemma thomas_decouple_last (r0 : @row R) t last : last_c (row_c r0) t = 0 ->
  exists x, thomas (r0 :: t ++ [last]) = thomas (r0 :: t) ++ [x].
Proof.
  destruct r0 as [[[a0 b0] c0] rr0]. cbn [row_c]. intros Hc. unfold thomas.
  destruct (fwd_snoc0 t b0 (ndiv rr0 b0) c0 last Hc) as [uu E]. rewrite E.
  exists (uu - 0).
  change ((n0, ndiv rr0 b0) :: fwd b0 (ndiv rr0 b0) c0 t ++ [(0, uu)])
    with (((n0, ndiv rr0 b0) :: fwd b0 (ndiv rr0 b0) c0 t) ++ [(0, uu)]).
  rewrite back_snoc0. reflexivity.
Qed.

Lemma last_c_map_seq (f : nat -> @row R) : forall m s c0,
  last_c c0 (map f (seq s m)) = match m with O => c0 | S m' => row_c (f (s + m')%nat) end.
Proof.
  induction m as [|m IH]; intros s c0; [reflexivity|].
  cbn [seq map last_c]. destruct (f s) as [[[a b] c] r] eqn:E. rewrite IH.
  destruct m as [|m']; [rewrite Nat.add_0_r, E; reflexivity|]. f_equal. f_equal. lia.
Qed.

Lemma thomas_seq_drop_first (f : nat -> @row R) N : (2 <= N)%nat -> row_a (f 1%nat) = 0 ->
  thomas (map f (seq 0 N)) = hd 0 (thomas (map f (seq 0 N))) :: thomas (map f (seq 1 (N - 1))).
Proof.
  intros HN Ha. destruct N as [|[|m]]; try lia. replace (S (S m) - 1)%nat with (S m) by lia. cbn [seq map].
  destruct (f 1%nat) as [[[a b] c] r]. cbn [row_a] in Ha. subst a. apply thomas_decouple_first.
Qed.

Lemma thomas_seq_drop_last (f : nat -> @row R) s n : (2 <= n)%nat -> row_c (f (s + n - 2)%nat) = 0 ->
  exists x, thomas (map f (seq s n)) = thomas (map f (seq s (n - 1))) ++ [x].
Proof.
  intros Hn Hc. destruct n as [|[|m]]; try lia.
  replace (S (S m) - 1)%nat with (S m) by lia. rewrite (seq_S (S m)), map_app. cbn [map seq].
  apply thomas_decouple_last. rewrite last_c_map_seq.
  destruct m as [|m']; [replace s with (s + 2 - 2)%nat at 1 by lia; exact Hc|].
  replace (S s + m')%nat with (s + S (S (S m')) - 2)%nat by lia. exact Hc.
Qed.

(** locality: entry i of the solution only depends on the rows it is coupled to *)
Theorem thomas_local (f f' : nat -> @row R) N i : (3 <= N)%nat -> (i < N)%nat ->
  row_a (f 1%nat) = 0 -> row_a (f' 1%nat) = 0 -> row_c (f (N - 2)%nat) = 0 -> row_c (f' (N - 2)%nat) = 0 ->
  (forall i', (1 <= i' <= N - 2)%nat -> f i' = f' i') ->
  (i = 0%nat -> f 0%nat = f' 0%nat) -> (i = (N - 1)%nat -> f (N - 1)%nat = f' (N - 1)%nat) ->
  nth i (thomas (map f (seq 0 N))) 0 = nth i (thomas (map f' (seq 0 N))) 0.
Proof.
  intros HN Hi Ha Ha' Hc Hc' Hmid H0 H1.
  assert (Hlen : forall (g : nat -> @row R) s n, length (thomas (map g (seq s n))) = n).
  { intros g s n. rewrite thomas_length, map_length, seq_length. reflexivity. }
  destruct (Nat.eq_dec i 0) as [Ei|Ei].
  - (* first entry: rows 0..N-2 *)
    destruct (thomas_seq_drop_last f 0 N ltac:(lia) ltac:(cbn [plus]; exact Hc)) as [x E].
    destruct (thomas_seq_drop_last f' 0 N ltac:(lia) ltac:(cbn [plus]; exact Hc')) as [x' E'].
    rewrite E, E'. rewrite !app_nth1 by (rewrite Hlen; lia).
    f_equal. f_equal. apply map_ext_in. intros j Hj. apply in_seq in Hj.
    destruct (Nat.eq_dec j 0) as [->|Hj0]; [apply H0; exact Ei | apply Hmid; lia].
  - rewrite (thomas_seq_drop_first f N ltac:(lia) Ha), (thomas_seq_drop_first f' N ltac:(lia) Ha').
    destruct i as [|i]; [lia|]. cbn [nth].
    destruct (Nat.eq_dec (S i) (N - 1)) as [El|El].
    + f_equal. f_equal. apply map_ext_in. intros j Hj. apply in_seq in Hj.
      destruct (Nat.eq_dec j (N - 1)) as [->|Hjl]; [apply H1; exact El | apply Hmid; lia].
    + destruct (thomas_seq_drop_last f 1 (N - 1) ltac:(lia) ltac:(replace (1 + (N - 1) - 2)%nat with (N - 2)%nat by lia; exact Hc)) as [x E].
      destruct (thomas_seq_drop_last f' 1 (N - 1) ltac:(lia) ltac:(replace (1 + (N - 1) - 2)%nat with (N - 2)%nat by lia; exact Hc')) as [x' E'].
      rewrite E, E'. rewrite !app_nth1 by (rewrite Hlen; lia).
      f_equal. f_equal. apply map_ext_in. intros j Hj. apply in_seq in Hj. apply Hmid. lia.
Qed.

(** ** one implicit step on a line whose end cells carry no advection and whose end points carry no diffusion *)
Section IsoLine.
  Variable xs : list R.
  Variable Vf Mf : R -> R.
  Variable nu : R.
  Variable dt : R.
  Variable dj : bool.
  Notation N := (length xs).
  Hypothesis HN : (3 <= N)%nat.
  Hypothesis HM0 : Mf (xint xs 0) = 0.
  Hypothesis HM1 : Mf (xint xs (N - 2)) = 0.
  Hypothesis HV0 : Vf (x xs 0) = 0.
  Hypothesis HV1 : Vf (x xs (N - 1)) = 0.

  (** the sub-diagonal entry of row 1 and the super-diagonal entry of row N-2 vanish *)
  Lemma coef_a_1_zero : coef_a xs Vf Mf dj 1 = 0.
  Proof.
    unfold coef_a, atemp. cbn [Nat.eqb Nat.sub]. rewrite HM0, HV0. numR. unfold Rdiv. ring.
  Qed.
  Lemma coef_c_Nm2_zero : coef_c xs Vf Mf dj (N - 2) = 0.
  Proof.
    unfold coef_c, ctemp. fold (Scheme.N xs). unfold Scheme.N.
    destruct (Nat.eqb_spec (N - 2) (N - 1)) as [E|E]; [lia|].
    replace (S (N - 2)) with (N - 1)%nat by lia. rewrite HM1, HV1. numR. unfold Rdiv. ring.
  Qed.

  Definition lrow (c0 c1 : bool) (phi : list R) (i : nat) : @row R :=
    (coef_a xs Vf Mf dj i, coef_b xs Vf Mf nu c0 c1 dt dj i, coef_c xs Vf Mf dj i, nthF phi i / dt).
  Lemma line_solve_as_seq c0 c1 phi :
    line_solve xs Vf Mf nu c0 c1 dt dj phi = thomas (map (lrow c0 c1 phi) (seq 0 N)).
  Proof.
    unfold line_solve. rewrite line_rows_eq_spec by lia. unfold line_rows_spec. fold (Scheme.N xs). unfold Scheme.N.
    reflexivity.
  Qed.

  (** (A) locality of the step.  Entry i of the result depends on: the interior input values (indices 1..N-2);
      for i = 0 also on the flag c0 and the input at 0; for i = N-1 also on the flag c1 and the input at N-1. *)
  Theorem line_solve_local c0 c1 c0' c1' (phi phi' : list R) i : (i < N)%nat ->
    (forall i', (1 <= i' <= N - 2)%nat -> nthF phi i' = nthF phi' i') ->
    (i = 0%nat -> c0 = c0' /\ nthF phi 0 = nthF phi' 0) ->
    (i = (N - 1)%nat -> c1 = c1' /\ nthF phi (N - 1) = nthF phi' (N - 1)) ->
    nthF (line_solve xs Vf Mf nu c0 c1 dt dj phi) i = nthF (line_solve xs Vf Mf nu c0' c1' dt dj phi') i.
  Proof.
    intros Hi Hmid H0 H1. rewrite !line_solve_as_seq. unfold nthF. numR.
    apply thomas_local; try assumption; try (cbn [lrow row_a row_c]; first [exact coef_a_1_zero | exact coef_c_Nm2_zero]).
    - intros i' Hi'. unfold lrow. rewrite (Hmid i' Hi'). f_equal. f_equal. f_equal.
      unfold coef_b, coef_b0, bc0, bc1. fold (Scheme.N xs). unfold Scheme.N.
      destruct (Nat.eqb_spec i' 0) as [E|E]; [lia|]. destruct (Nat.eqb_spec i' (N - 1)) as [E'|E']; [lia|]. reflexivity.
    - intros E. destruct (H0 E) as [-> Hp]. unfold lrow. rewrite Hp. f_equal. f_equal. f_equal.
      unfold coef_b, coef_b0. fold (Scheme.N xs). unfold Scheme.N.
      destruct (Nat.eqb_spec 0 (N - 1)) as [E'|E']; [lia|]. reflexivity.
    - intros E. destruct (H1 E) as [-> Hp]. unfold lrow. rewrite Hp. f_equal. f_equal. f_equal.
      unfold coef_b, coef_b0. fold (Scheme.N xs). unfold Scheme.N.
      destruct (Nat.eqb_spec (N - 1) 0) as [E'|E']; [lia|]. reflexivity.
  Qed.

  (** in particular: the corner flag c0 (resp. c1) influences the first (resp. last) entry only *)
  Corollary line_solve_flag0_only_first c0 c0' c1 phi i : (1 <= i < N)%nat ->
    nthF (line_solve xs Vf Mf nu c0 c1 dt dj phi) i = nthF (line_solve xs Vf Mf nu c0' c1 dt dj phi) i.
  Proof. intros Hi. apply line_solve_local; try lia; auto. Qed.
  Corollary line_solve_flag1_only_last c0 c1 c1' phi i : (i < N - 1)%nat ->
    nthF (line_solve xs Vf Mf nu c0 c1 dt dj phi) i = nthF (line_solve xs Vf Mf nu c0 c1' dt dj phi) i.
  Proof. intros Hi. apply line_solve_local; try lia; auto. Qed.
  (** the interior of the result is a function of the interior of the input alone *)
  Corollary interior_closed_when_V_vanishes c0 c1 c0' c1' (phi phi' : list R) i : (1 <= i <= N - 2)%nat ->
    (forall i', (1 <= i' <= N - 2)%nat -> nthF phi i' = nthF phi' i') ->
    nthF (line_solve xs Vf Mf nu c0 c1 dt dj phi) i = nthF (line_solve xs Vf Mf nu c0' c1' dt dj phi') i.
  Proof. intros Hi Hmid. apply line_solve_local; try lia; auto. Qed.

  (** ** finite weighted sums of lines commute with the step (same flags) *)
  Definition wsum_lines (L : nat) (w : nat -> R) (lines : nat -> list R) : list R :=
    map (fun i => rsum L (fun j => w j * nthF (lines j) i)) (seq 0 N).
  Lemma wsum_lines_length L w lines : length (wsum_lines L w lines) = N.
  Proof. unfold wsum_lines. rewrite map_length, seq_length. reflexivity. Qed.
  Lemma wsum_lines_nth L w lines i : (i < N)%nat -> nthF (wsum_lines L w lines) i = rsum L (fun j => w j * nthF (lines j) i).
  Proof. intros Hi. unfold wsum_lines, nthF. rewrite nth_map_seq0 by exact Hi. reflexivity. Qed.

  Lemma line_solve_wsum c0 c1 L w lines : (forall j, (j < L)%nat -> length (lines j) = N) ->
    line_solve xs Vf Mf nu c0 c1 dt dj (wsum_lines L w lines) =
    wsum_lines L w (fun j => line_solve xs Vf Mf nu c0 c1 dt dj (lines j)).
  Proof.
    induction L as [|L IH]; intros Hl.
    - (* the step maps the zero line to the zero line *)
      set (Z := wsum_lines 0 w lines).
      assert (EZ : Z = lincomb 0 0 Z Z).
      { apply nth_ext with (d := 0) (d' := 0).
        - rewrite lincomb_length by reflexivity. reflexivity.
        - intros i Hi. unfold Z in Hi. rewrite wsum_lines_length in Hi.
          change (nthF Z i = nthF (lincomb 0 0 Z Z) i). rewrite nthF_lincomb by reflexivity.
          unfold Z. rewrite wsum_lines_nth by exact Hi. rewrite rsum_0. ring. }
      rewrite EZ. rewrite line_solve_linear by (try lia; reflexivity).
      apply nth_ext with (d := 0) (d' := 0).
      + rewrite lincomb_length by reflexivity. rewrite line_solve_length, wsum_lines_length. reflexivity.
      + intros i Hi. rewrite lincomb_length in Hi by reflexivity. rewrite line_solve_length in Hi.
        change (nthF (lincomb 0 0 (line_solve xs Vf Mf nu c0 c1 dt dj Z) (line_solve xs Vf Mf nu c0 c1 dt dj Z)) i =
                nthF (wsum_lines 0 w (fun j => line_solve xs Vf Mf nu c0 c1 dt dj (lines j))) i).
        rewrite nthF_lincomb by reflexivity. rewrite wsum_lines_nth by exact Hi. rewrite rsum_0. ring.
    - assert (E : wsum_lines (S L) w lines = lincomb 1 (w L) (wsum_lines L w lines) (lines L)).
      { apply nth_ext with (d := 0) (d' := 0).
        - rewrite lincomb_length by (rewrite wsum_lines_length, Hl by lia; reflexivity). rewrite !wsum_lines_length. reflexivity.
        - intros i Hi. rewrite wsum_lines_length in Hi.
          change (nthF (wsum_lines (S L) w lines) i = nthF (lincomb 1 (w L) (wsum_lines L w lines) (lines L)) i).
          rewrite nthF_lincomb by (rewrite wsum_lines_length, Hl by lia; reflexivity).
          rewrite !wsum_lines_nth by exact Hi. rewrite rsum_S. ring. }
      rewrite E. rewrite line_solve_linear by (try lia; rewrite wsum_lines_length, Hl by lia; reflexivity).
      rewrite IH by (intros; apply Hl; lia).
      apply nth_ext with (d := 0) (d' := 0).
      + rewrite lincomb_length by (rewrite wsum_lines_length, line_solve_length; reflexivity). rewrite !wsum_lines_length. reflexivity.
      + intros i Hi. rewrite lincomb_length in Hi by (rewrite wsum_lines_length, line_solve_length; reflexivity).
        rewrite wsum_lines_length in Hi.
        change (nthF (lincomb 1 (w L) (wsum_lines L w (fun j => line_solve xs Vf Mf nu c0 c1 dt dj (lines j)))
                              (line_solve xs Vf Mf nu c0 c1 dt dj (lines L))) i =
                nthF (wsum_lines (S L) w (fun j => line_solve xs Vf Mf nu c0 c1 dt dj (lines j))) i).
        rewrite nthF_lincomb by (rewrite wsum_lines_length, line_solve_length; reflexivity).
        rewrite !wsum_lines_nth by exact Hi. rewrite rsum_S. ring.
  Qed.

  (** (C), line level: a weighted sum over a family of lines that are stepped with their own corner flags equals the
      step (with flags c0', c1') of the weighted sum, at every entry whose flag dependence is matched. *)
  Theorem line_solve_wsum_flags (c0' c1' : bool) L (w : nat -> R) (lines : nat -> list R) (c0j c1j : nat -> bool) i :
    (i < N)%nat -> (forall j, (j < L)%nat -> length (lines j) = N) ->
    (i = 0%nat -> forall j, (j < L)%nat -> c0j j = c0') ->
    (i = (N - 1)%nat -> forall j, (j < L)%nat -> c1j j = c1') ->
    rsum L (fun j => w j * nthF (line_solve xs Vf Mf nu (c0j j) (c1j j) dt dj (lines j)) i) =
    nthF (line_solve xs Vf Mf nu c0' c1' dt dj (wsum_lines L w lines)) i.
  Proof.
    intros Hi Hl H0 H1. rewrite line_solve_wsum by exact Hl. rewrite wsum_lines_nth by exact Hi.
    apply rsum_ext. intros j Hj. f_equal.
    apply line_solve_local; [exact Hi | reflexivity | |].
    - intros E. split; [apply H0; assumption | reflexivity].
    - intros E. split; [apply H1; assumption | reflexivity].
  Qed.
End IsoLine.
