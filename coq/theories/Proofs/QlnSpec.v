(** * QlnSpec: error bound of the rational logarithm [Qln] of Base/NumQ.v (the [nln] slot of the dictionaries NumQ,
    NumD, NumDF) against the real logarithm, and of its constant [fln2] against ln 2.

    Qln x (x = n/d > 0):  e = log2 n - log2 d,  m = x / 2^e in (1/2, 2),  mf = floor(m 2^160),
    z = floor((mf - 2^160) 2^160 / (mf + 2^160))  (|z| 2^-160 <= 1/3 + 2^-159),
    A = z + sum_{i=1..52} floor(pw_i / (2i+1))   with pw_i = floor(pw_{i-1} z2 / 2^160), z2 = floor(z^2 / 2^160),
    result (2 A + e fln2) / 2^160,  fln2 = 2 fatanh(floor(2^160/3), 52).
    Bound:  |Qln x - ln x| <= (226 + 45 |e|) 2^-160      (ABSOLUTE error; holds for every positive rational)
      - 208: the 2 x 52 x 2 floors of the series (gatanh_inv), 2: the series remainder (atanh_remainder),
        16: the two floors in mf and z (8 = sup of the derivative bound used for ln((1+z)/(1-z)) on |z| <= 1/2),
        45: |fln2 2^-160 - ln 2| <= 45 2^-160 (the true value is 44.45 2^-160).
    For 2^-1024 <= x <= 2^1024 this is <= 2^-144.
    The comment in Base/NumQ.v ("relative error below 2^-100") is true of [Qexp] but NOT of [Qln] as a relative
    statement: near 1 the logarithm vanishes and the absolute error stays (Qln_relative_refuted: Qln (1 + 2^-200) = 0). *)
From Coq Require Import ZArith QArith Qreduction Qabs Qreals Reals Lia Lra Psatz.
From Interval Require Import Tactic.
From Bignums Require Import BigZ.
From Dadi Require Import Base.Num Base.NumQ Base.NumD Proofs.NumDSpec Proofs.QexpSpec Proofs.NumDTrans Proofs.FixSeries.
Local Open Scope R_scope.

(** ** the loops of NumQ are the generic loops at p = 160 *)
Lemma fatanh_series_g : forall n k z2 pw acc, fatanh_series n k z2 pw acc = gatanh fp n k z2 pw acc.
Proof. induction n as [| n IH]; intros; cbn [fatanh_series gatanh]; [reflexivity | apply IH]. Qed.
Lemma W_U : W fp = U. Proof. reflexivity. Qed.
Lemma fp_nonneg : (0 <= fp)%Z. Proof. unfold fp. lia. Qed.

Lemma Q2R_inject_Z z : Q2R (inject_Z z) = IZR z.
Proof. unfold Q2R, inject_Z. cbn [Qnum Qden]. rewrite Rinv_1. ring. Qed.

Lemma U_big : / U <= / 2 ^ 100.
Proof. rewrite U_val. apply Rinv_le_contravar; [apply pow_lt; lra | apply Rle_pow; [lra | lia]]. Qed.
Lemma U_small : / U <= 1 / 1000000.
Proof. eapply Rle_trans; [apply U_big |]. lra. Qed.

(** ** the constant ln 2 *)
Lemma fln2_spec : Rabs (IZR fln2 / U - ln 2) <= 45 / U.
Proof. rewrite U_val. unfold fln2. interval with (i_prec 220). Qed.

Lemma div_bound a b c w : 0 < w -> - c <= a - w * b <= c -> - (c / w) <= a / w - b <= c / w.
Proof.
  intros Hw H. assert (E : a / w - b = (a - w * b) * / w) by (field; lra). rewrite E.
  assert (0 < / w) by (apply Rinv_0_lt_compat, Hw). unfold Rdiv. split; nra.
Qed.

Lemma assemble a P L M w : - (104 / w) <= a / w - P <= 104 / w -> - / w <= L / 2 - P <= / w ->
  0 <= M - L <= 16 * / w -> - (226 / w) <= 2 * a / w - M <= 226 / w.
Proof.
  intros H1 H2 H3. unfold Rdiv in *. set (x := a * / w) in *.
  replace (2 * a * / w) with (2 * x) by (unfold x; ring). lra.
Qed.

Lemma ln_assemble a e f w m l c1 c2 : 0 < w -> - (c1 / w) <= a / w - m <= c1 / w -> Rabs (f / w - l) <= c2 / w ->
  Rabs ((a + e * f) / w - (m + e * l)) <= (c1 + c2 * Rabs e) / w.
Proof.
  intros Hw H1 H2. replace ((a + e * f) / w - (m + e * l)) with ((a / w - m) + e * (f / w - l)) by (field; lra).
  apply Rabs_le_iff in H2. assert (Hi : 0 < / w) by (apply Rinv_0_lt_compat, Hw).
  set (t := f / w - l) in *. set (c := a / w - m) in *.
  assert (H0 : 0 <= c2 / w) by lra.
  assert (He : - (Rabs e * (c2 / w)) <= e * t <= Rabs e * (c2 / w)).
  { unfold Rabs. destruct (Rcase_abs e); split; nra. }
  apply Rabs_le_iff. unfold Rdiv in *. split; lra.
Qed.

(** ** ln((1+z)/(1-z)) under a perturbation of z *)
Lemma phi_perturb z1 z2 : - (1 / 2) <= z1 -> z1 <= z2 -> z2 <= 1 / 2 ->
  0 <= ln ((1 + z2) / (1 - z2)) - ln ((1 + z1) / (1 - z1)) <= 8 * (z2 - z1).
Proof.
  intros H1 H12 H2.
  set (a := (1 + z1) / (1 - z1)). set (b := (1 + z2) / (1 - z2)).
  assert (Ha : 0 < a) by (unfold a; apply Rdiv_lt_0_compat; lra).
  assert (Hb : 0 < b) by (unfold b; apply Rdiv_lt_0_compat; lra).
  assert (E : ln b - ln a = ln (b / a)).
  { unfold Rdiv at 1. rewrite ln_mult, ln_Rinv; try lra. apply Rinv_0_lt_compat, Ha. }
  rewrite E.
  assert (Er : b / a - 1 = 2 * (z2 - z1) / ((1 - z2) * (1 + z1))).
  { unfold a, b. field. repeat split; lra. }
  assert (Hden : / 4 <= (1 - z2) * (1 + z1)) by nra.
  assert (Hr : 0 <= b / a - 1 <= 8 * (z2 - z1)).
  { rewrite Er. split.
    - apply Rmult_le_pos; [lra | left; apply Rinv_0_lt_compat; lra].
    - unfold Rdiv. assert (/ ((1 - z2) * (1 + z1)) <= 4).
      { replace 4 with (/ / 4) by field. apply Rinv_le_contravar; lra. }
      nra. }
  assert (Hba : 0 < b / a) by lra.
  destruct (ln_near1 (b / a) Hba) as [L Up].
  split; [| lra].
  assert (0 <= 1 - / (b / a)); [| lra].
  assert (/ (b / a) <= / 1) by (apply Rinv_le_contravar; lra). rewrite Rinv_1 in *. lra.
Qed.

(** ** the core: from the reduced argument to 2 atanh, entirely on the fixed-point integers *)
(** mR in (1/2, 2) is the exact reduced argument; mf = floor (mR U) *)
Lemma ln_core : forall (mf : Z) (mR : R), 1 / 2 < mR < 2 -> mR * U - 1 < IZR mf <= mR * U ->
  let z := ((mf - fp1) * fp1 / (mf + fp1))%Z in
  - (226 / U) <= IZR (2 * fatanh z 52) / U - ln mR <= 226 / U.
Proof.
  intros mf mR HmR Hmf z. pose proof U_pos as HU. pose proof U_small as HUs.
  assert (HiU : 0 < / U) by (apply Rinv_0_lt_compat, HU).
  assert (HUU : U * / U = 1) by (apply Rinv_r; lra).
  set (m' := IZR mf / U).
  assert (Hm' : mR - / U < m' <= mR).
  { unfold m', Rdiv. split.
    - apply Rmult_lt_reg_r with U; [lra |]. rewrite Rmult_assoc, Rinv_l by lra. nra.
    - apply Rmult_le_reg_r with U; [lra |]. rewrite Rmult_assoc, Rinv_l by lra. nra. }
  assert (Emf : IZR mf = m' * U) by (unfold m'; field; lra).
  (* z *)
  assert (HB : (0 < mf + fp1)%Z).
  { apply lt_IZR. rewrite plus_IZR. fold U. nra. }
  pose proof (Zdiv_R ((mf - fp1) * fp1) (mf + fp1) HB) as Hz. fold z in Hz.
  rewrite mult_IZR, minus_IZR, plus_IZR in Hz. fold U in Hz. rewrite Emf in Hz.
  set (z' := (m' - 1) / (m' + 1)).
  assert (Ez' : (m' * U - U) * U / (m' * U + U) = z' * U) by (unfold z'; field; repeat split; nra).
  rewrite Ez' in Hz.
  set (zR := IZR z / U).
  assert (EzR : IZR z = zR * U) by (unfold zR; field; lra).
  assert (HzR : z' - / U < zR <= z').
  { rewrite EzR in Hz. split; nra. }
  set (zs := (mR - 1) / (mR + 1)).
  assert (Hzs : - (1 / 3) < zs < 1 / 3).
  { unfold zs. split.
    - apply Rmult_lt_reg_r with (mR + 1); [lra |]. unfold Rdiv. rewrite Rmult_assoc, Rinv_l by lra. lra.
    - apply Rmult_lt_reg_r with (mR + 1); [lra |]. unfold Rdiv. rewrite Rmult_assoc, Rinv_l by lra. lra. }
  assert (Hd1 : 0 <= zs - z' <= / U).
  { assert (E : zs - z' = 2 * (mR - m') / ((mR + 1) * (m' + 1))) by (unfold zs, z'; field; split; lra).
    rewrite E. assert (Hden : 2 <= (mR + 1) * (m' + 1)) by nra.
    assert (Hi : 0 < / ((mR + 1) * (m' + 1)) <= / 2).
    { split; [apply Rinv_0_lt_compat; lra | apply Rinv_le_contravar; lra]. }
    unfold Rdiv. split; [apply Rmult_le_pos; lra | nra]. }
  assert (Hdelta : zs - 2 * / U <= zR <= zs) by lra.
  assert (HzR35 : - (35 / 100) <= zR <= 35 / 100) by lra.
  (* the series *)
  unfold fatanh. rewrite fatanh_series_g.
  change (fmul z z) with (gmul fp z z).
  set (z2 := gmul fp z z).
  pose proof (gmul_R fp fp_nonneg z z) as Hz2. fold z2 in Hz2. rewrite W_U in Hz2.
  assert (Hz2' : zR * zR - / U <= IZR z2 / U <= zR * zR).
  { rewrite EzR in Hz2. replace (zR * U * (zR * U) / U) with (zR * zR * U) in Hz2 by (field; lra).
    unfold Rdiv. split.
    - apply Rmult_le_reg_r with U; [lra |]. rewrite Rmult_assoc, Rinv_l by lra. nra.
    - apply Rmult_le_reg_r with U; [lra |]. rewrite Rmult_assoc, Rinv_l by lra. nra. }
  assert (Hz20 : 0 <= IZR z2 / U).
  { apply Rmult_le_pos; [| lra]. apply IZR_le. unfold z2, gmul. apply Z.shiftr_nonneg. nia. }
  pose proof (gatanh_inv fp fp_nonneg 52 1 z2 z z (zR * zR) (IZR z) (IZR z) 0 0) as HA.
  rewrite W_U in HA.
  assert (HA' : - (0 + 2 * INR 52) <= IZR (gatanh fp 52 1 z2 z z) - Ratanh 52 1 (zR * zR) (IZR z) (IZR z) <= 0 + 2 * INR 52).
  { apply HA; try lra; try lia.
    - nra.
    - rewrite EzR. nra. }
  clear HA. replace (INR 52) with 52 in HA' by (rewrite INR_IZR_INZ; reflexivity).
  set (A := gatanh fp 52 1 z2 z z) in *. clearbody A.
  assert (Esc : Ratanh 52 1 (zR * zR) (IZR z) (IZR z) = U * atanh_poly 52 zR).
  { rewrite EzR. replace (zR * U) with (U * zR) by ring. rewrite Ratanh_scale, Ratanh_poly. reflexivity. }
  rewrite Esc in HA'.
  (* remainder *)
  assert (Hrem : Rabs (atanh_rem 52 zR) <= / U).
  { eapply Rle_trans; [apply (atanh_remainder 52 zR (35 / 100)); [lra | exact HzR35] |].
    rewrite U_val. interval with (i_prec 200). }
  apply Rabs_le_iff in Hrem. unfold atanh_rem in Hrem.
  rewrite ln_ratio in Hrem by lra.
  set (L := ln ((1 + zR) / (1 - zR))) in *.
  (* perturbation of the argument *)
  assert (EmR : mR = (1 + zs) / (1 - zs)) by (unfold zs; field; lra).
  pose proof (phi_perturb zR zs ltac:(lra) ltac:(lra) ltac:(lra)) as Hphi.
  rewrite <- EmR in Hphi. fold L in Hphi.
  (* assembly *)
  rewrite mult_IZR.
  set (P := atanh_poly 52 zR) in *.
  assert (HAU : - (104 / U) <= IZR A / U - P <= 104 / U) by (apply div_bound; lra).
  assert (Hrem' : - / U <= L / 2 - P <= / U) by lra.
  assert (Hphi' : 0 <= ln mR - L <= 16 * / U) by lra.
  exact (assemble (IZR A) P L (ln mR) U HAU Hrem' Hphi').
Qed.

(** ** the reduction *)
Definition Qln_e (x : Q) : Z := (Z.log2 (Qnum x) - Z.log2 (Zpos (Qden x)))%Z.
Definition Qln_m (x : Q) : Q :=
  let e := Qln_e x in if (0 <=? e)%Z then Qred (x / inject_Z (2 ^ e)) else Qred (x * inject_Z (2 ^ (- e))).

Lemma Qln_m_R x : Q2R (Qln_m x) = Q2R x * powerRZ 2 (- Qln_e x).
Proof.
  unfold Qln_m. cbv zeta. set (e := Qln_e x).
  destruct (Z.leb_spec 0 e) as [He | He].
  - rewrite (Qeq_eqR _ _ (Qred_correct _)).
    assert (H2 : (0 < 2 ^ e)%Z) by (apply Z.pow_pos_nonneg; lia).
    rewrite Q2R_div.
    2:{ intro H. apply Qeq_eqR in H. rewrite Q2R_inject_Z, RMicromega.Q2R_0 in H. apply eq_IZR in H. lia. }
    rewrite Q2R_inject_Z, powerRZ_neg', (powerRZ2_IZR e He). reflexivity.
  - rewrite (Qeq_eqR _ _ (Qred_correct _)), Q2R_mult, Q2R_inject_Z, (powerRZ2_IZR (- e)) by lia. reflexivity.
Qed.

Lemma to_fix_R (m : Q) : Q2R m * U - 1 < IZR (to_fix m) <= Q2R m * U.
Proof.
  unfold to_fix. pose proof (Zdiv_R (Qnum m * fp1) (Zpos (Qden m)) ltac:(lia)) as H.
  rewrite mult_IZR in H. fold U in H.
  replace (IZR (Qnum m) * U / IZR (Z.pos (Qden m))) with (Q2R m * U) in H by (unfold Q2R, Rdiv; ring).
  exact H.
Qed.

Lemma Qln_unfold x : (0 < Qnum x)%Z ->
  Qln x = of_fix (2 * fatanh (((to_fix (Qln_m x)) - fp1) * fp1 / (to_fix (Qln_m x) + fp1))%Z 52 + Qln_e x * NumQ.fln2).
Proof.
  intro Hx. unfold Qln, Qln_m, Qln_e. destruct (Qnum x) as [| q | q] eqn:E; try lia. reflexivity.
Qed.

Definition eps_ln (e : Z) : R := (226 + 45 * IZR (Z.abs e)) / 2 ^ 160.

Theorem Qln_spec_gen : forall x : Q, (0 < Qnum x)%Z ->
  Rabs (Q2R (Qln x) - ln (Q2R x)) <= eps_ln (Qln_e x).
Proof.
  intros x Hx. pose proof U_pos as HU. assert (HiU : 0 < / U) by (apply Rinv_0_lt_compat, HU).
  rewrite (Qln_unfold x Hx), Q2R_of_fix.
  set (d := Zpos (Qden x)). assert (Hd : (0 < d)%Z) by (unfold d; lia).
  destruct (reduce_R (Qnum x) d Hx Hd) as [Hm Hln]. cbv zeta in Hm, Hln.
  change (Z.log2 (Qnum x) - Z.log2 d)%Z with (Qln_e x) in Hm, Hln.
  assert (Ex : IZR (Qnum x) / IZR d = Q2R x) by reflexivity.
  rewrite Ex in Hm, Hln. rewrite <- Qln_m_R in Hm, Hln.
  set (mR := Q2R (Qln_m x)) in *. set (e := Qln_e x) in *.
  pose proof (to_fix_R (Qln_m x)) as Hmf. fold mR in Hmf.
  pose proof (ln_core (to_fix (Qln_m x)) mR Hm Hmf) as Hc. cbv zeta in Hc.
  set (A2 := (2 * fatanh ((to_fix (Qln_m x) - fp1) * fp1 / (to_fix (Qln_m x) + fp1)) 52)%Z) in *.
  rewrite plus_IZR, mult_IZR, Hln.
  unfold eps_ln. rewrite <- U_val, abs_IZR.
  apply ln_assemble; [exact HU | exact Hc | exact fln2_spec].
Qed.

(** the reduction exponent of an argument in [2^-B, 2^B] *)
Lemma Qln_e_bound x B : (0 <= B)%Z -> (/ inject_Z (2 ^ B) <= x)%Q -> (x <= inject_Z (2 ^ B))%Q ->
  (0 < Qnum x)%Z /\ (Z.abs (Qln_e x) <= B + 1)%Z.
Proof.
  intros HB Hlo Hhi.
  assert (H2 : (0 < 2 ^ B)%Z) by (apply Z.pow_pos_nonneg; lia).
  assert (Hlo' : (Zpos (Qden x) <= 2 ^ B * Qnum x)%Z).
  { destruct (2 ^ B)%Z as [| q | q] eqn:E; try lia.
    unfold Qle, Qinv, inject_Z in Hlo. cbn [Qnum Qden] in Hlo. lia. }
  assert (Hhi' : (Qnum x <= 2 ^ B * Zpos (Qden x))%Z).
  { unfold Qle, inject_Z in Hhi. cbn [Qnum Qden] in Hhi. lia. }
  assert (Hn : (0 < Qnum x)%Z) by nia.
  split; [exact Hn |].
  pose proof (reduce_e_bound (Qnum x) (Zpos (Qden x)) B Hn ltac:(lia) HB Hlo' Hhi') as H.
  unfold Qln_e. lia.
Qed.

Theorem Qln_spec : forall x : Q, (/ inject_Z (2 ^ 1024) <= x)%Q -> (x <= inject_Z (2 ^ 1024))%Q ->
  Rabs (Q2R (Qln x) - ln (Q2R x)) <= / 2 ^ 144.
Proof.
  intros x Hlo Hhi. destruct (Qln_e_bound x 1024 ltac:(lia) Hlo Hhi) as [Hn He].
  eapply Rle_trans; [apply (Qln_spec_gen x Hn) |].
  unfold eps_ln. apply IZR_le in He. change (IZR (1024 + 1)) with 1025 in He.
  assert (H : (226 + 45 * 1025) / 2 ^ 160 <= / 2 ^ 144) by lra.
  eapply Rle_trans; [| exact H]. unfold Rdiv. apply Rmult_le_compat_r; [| lra].
  left. apply Rinv_0_lt_compat, pow_lt. lra.
Qed.

(** the model's totalisation *)
Lemma Qln_nonpos x : (Qnum x <= 0)%Z -> Qln x = 0%Q.
Proof. intro H. unfold Qln. destruct (Qnum x); try reflexivity. lia. Qed.

(** exact at 1 *)
Lemma Qln_1 : Qln 1 = 0%Q. Proof. vm_compute. reflexivity. Qed.

(** no relative bound near 1: ln (1 + 2^-200) > 0 but Qln returns 0 (relative error 1) *)
Theorem Qln_relative_refuted : exists x : Q, (1 < x)%Q /\ (x <= 2)%Q /\ Qln x = 0%Q /\ 0 < ln (Q2R x).
Proof.
  exists ((2 ^ 200 + 1) # (2 ^ 200))%Q. split; [reflexivity |]. split; [discriminate |]. split.
  - vm_compute. reflexivity.
  - rewrite <- ln_1. apply ln_increasing; [lra |].
    unfold Q2R. cbn [Qnum Qden].
    assert (H : 0 < IZR (Z.pos (2 ^ 200))) by (apply IZR_lt; lia).
    apply Rmult_lt_reg_r with (IZR (Z.pos (2 ^ 200))); [exact H |].
    rewrite Rmult_assoc, Rinv_l by lra. rewrite Rmult_1_l, Rmult_1_r. apply IZR_lt. lia.
Qed.

Lemma ln_le' x y : 0 < x -> x <= y -> ln x <= ln y.
Proof. intros Hx [H | ->]; [left; apply ln_increasing; assumption | lra]. Qed.

(** ** the [nln] slot of NumD (and of NumDF, which has the same slot) *)
Theorem NumD_nln_spec : forall x : D,
  (/ inject_Z (2 ^ 1024) <= D2Q x)%Q -> (D2Q x <= inject_Z (2 ^ 1024))%Q ->
  Rabs (Q2R (D2Q (nln x)) - ln (Q2R (D2Q x))) <= / 2 ^ 117.
Proof.
  intros x Hlo Hhi. pose proof (Qln_spec (D2Q x) Hlo Hhi) as H1. pose proof (NumD_nln_rounding x) as H2.
  apply Qle_Rle in H2. rewrite Q2R_mult, !Q2R_Qabs, Q2R_minus, Q2R_uD in H2.
  (* |ln x| <= 1024 ln 2 <= 710 *)
  assert (Hx : / 2 ^ 1024 <= Q2R (D2Q x) <= 2 ^ 1024).
  { apply Qle_Rle in Hlo, Hhi. rewrite Q2R_inject_Z in Hhi.
    rewrite Q2R_inv, Q2R_inject_Z in Hlo.
    2:{ intro H. apply Qeq_eqR in H. rewrite Q2R_inject_Z, RMicromega.Q2R_0 in H. apply eq_IZR in H. lia. }
    assert (E : 2 ^ 1024 = IZR (2 ^ 1024)) by (rewrite pow_IZR; reflexivity).
    rewrite E. split; assumption. }
  assert (Hpos : 0 < Q2R (D2Q x)).
  { eapply Rlt_le_trans; [| apply Hx]. apply Rinv_0_lt_compat, pow_lt. lra. }
  assert (Hln : - 710 <= ln (Q2R (D2Q x)) <= 710).
  { assert (Hl2 : 1024 * ln 2 <= 710) by (interval with (i_prec 40)).
    assert (E : ln (2 ^ 1024) = 1024 * ln 2).
    { rewrite ln_pow by lra. replace (INR 1024) with 1024 by (rewrite INR_IZR_INZ; reflexivity). reflexivity. }
    split.
    - assert (H : ln (/ 2 ^ 1024) <= ln (Q2R (D2Q x))).
      { apply ln_le'; [apply Rinv_0_lt_compat, pow_lt; lra | apply Hx]. }
      rewrite ln_Rinv in H by (apply pow_lt; lra). lra.
    - assert (H : ln (Q2R (D2Q x)) <= ln (2 ^ 1024)) by (apply ln_le'; [exact Hpos | apply Hx]). lra. }
  set (L := ln (Q2R (D2Q x))) in *. set (q := Q2R (Qln (D2Q x))) in *. set (r := Q2R (D2Q (nln x))) in *.
  apply Rabs_le_iff in H1.
  assert (Hq : Rabs q <= 711).
  { apply Rabs_le_iff. assert (/ 2 ^ 144 <= 1) by lra. lra. }
  assert (H3 : / 2 ^ 127 * Rabs q <= / 2 ^ 127 * 711) by (apply Rmult_le_compat_l; lra).
  assert (H4 : / 2 ^ 144 + / 2 ^ 127 * 711 <= / 2 ^ 117) by lra.
  replace (r - L) with ((r - q) + (q - L)) by ring.
  eapply Rle_trans; [apply Rabs_triang |].
  assert (Rabs (q - L) <= / 2 ^ 144) by (apply Rabs_le_iff; lra). lra.
Qed.

(** relative form of the rounding part, for reporting: |nln x - Qln x| <= 2^-127 |Qln x| is NumDTrans.NumD_nln_rounding *)

(** the rational constant [Qln2] *)
Theorem Qln2_spec : Rabs (Q2R Qln2 - ln 2) <= 45 / 2 ^ 160.
Proof. unfold Qln2. rewrite Q2R_of_fix, <- U_val. exact fln2_spec. Qed.

(** relative form, away from 1: wherever |ln x| >= 2^-44 (e.g. |x - 1| >= 2^-43) the relative error is <= 2^-100 *)
Theorem Qln_relative_away : forall x : Q, (/ inject_Z (2 ^ 1024) <= x)%Q -> (x <= inject_Z (2 ^ 1024))%Q ->
  / 2 ^ 44 <= Rabs (ln (Q2R x)) -> Rabs (Q2R (Qln x) - ln (Q2R x)) <= Rabs (ln (Q2R x)) / 2 ^ 100.
Proof.
  intros x Hlo Hhi Haway. eapply Rle_trans; [apply (Qln_spec x Hlo Hhi) |].
  assert (H : / 2 ^ 144 = / 2 ^ 44 / 2 ^ 100) by (unfold Rdiv; rewrite <- Rinv_mult; f_equal; lra).
  rewrite H. unfold Rdiv. apply Rmult_le_compat_r; [| exact Haway].
  left. apply Rinv_0_lt_compat, pow_lt. lra.
Qed.

(** sharper form: the Qln error plus one relative rounding of the result *)
Theorem NumD_nln_spec_rel : forall x : D,
  (/ inject_Z (2 ^ 1024) <= D2Q x)%Q -> (D2Q x <= inject_Z (2 ^ 1024))%Q ->
  Rabs (Q2R (D2Q (nln x)) - ln (Q2R (D2Q x))) <= / 2 ^ 144 + / 2 ^ 127 * (Rabs (ln (Q2R (D2Q x))) + / 2 ^ 144).
Proof.
  intros x Hlo Hhi. pose proof (Qln_spec (D2Q x) Hlo Hhi) as H1. pose proof (NumD_nln_rounding x) as H2.
  apply Qle_Rle in H2. rewrite Q2R_mult, !Q2R_Qabs, Q2R_minus, Q2R_uD in H2.
  set (L := ln (Q2R (D2Q x))) in *. set (q := Q2R (Qln (D2Q x))) in *. set (r := Q2R (D2Q (nln x))) in *.
  assert (Hq : Rabs q <= Rabs L + / 2 ^ 144).
  { replace q with (L + (q - L)) by ring. eapply Rle_trans; [apply Rabs_triang |]. lra. }
  assert (H3 : / 2 ^ 127 * Rabs q <= / 2 ^ 127 * (Rabs L + / 2 ^ 144)) by (apply Rmult_le_compat_l; lra).
  replace (r - L) with ((r - q) + (q - L)) by ring.
  eapply Rle_trans; [apply Rabs_triang |]. lra.
Qed.
