(** C18: rational-number lemmas: sums, powers, factorials, binomials (binomial theorem, Vandermonde). *)
From Coq Require Import ZArith QArith Qreduction List Bool Arith Lia Lqa Factorial Setoid Morphisms.
From Dadi Require Import Model.LowPass Proofs.LowPassBinom.
From Dadi Require Proofs.LowPassVander.
Import ListNotations.
Local Open Scope Q_scope.

(** ** sums *)
Lemma qsum_cons a l : qsum (a :: l) = a + qsum l.
Proof. reflexivity. Qed.

Lemma qsum_nil : qsum [] = 0.
Proof. reflexivity. Qed.

Lemma qsum_app a b : qsum (a ++ b) == qsum a + qsum b.
Proof. induction a; cbn [app]; rewrite ?qsum_cons, ?qsum_nil; [lra | rewrite IHa; lra]. Qed.

Lemma qsum_map_ext {A} (f g : A -> Q) l : (forall x, In x l -> f x == g x) -> qsum (map f l) == qsum (map g l).
Proof.
  induction l as [|a l IH]; intros H; [reflexivity|]. cbn [map]. rewrite !qsum_cons.
  rewrite (H a (or_introl eq_refl)), IH; [reflexivity|]. intros; apply H; now right.
Qed.

Lemma qsum_map_scale {A} (c : Q) (f : A -> Q) l : qsum (map (fun x => c * f x) l) == c * qsum (map f l).
Proof. induction l; cbn [map]; rewrite ?qsum_cons, ?qsum_nil; [lra | rewrite IHl; lra]. Qed.

Lemma qsum_map_add {A} (f g : A -> Q) l : qsum (map (fun x => f x + g x) l) == qsum (map f l) + qsum (map g l).
Proof. induction l; cbn [map]; rewrite ?qsum_cons, ?qsum_nil; [lra | rewrite IHl; lra]. Qed.

Lemma qsum_nonneg l : (forall x, In x l -> 0 <= x) -> 0 <= qsum l.
Proof.
  induction l as [|a l IH]; intros H; [rewrite qsum_nil; lra|]. rewrite qsum_cons.
  assert (0 <= a) by (apply H; now left). assert (0 <= qsum l) by (apply IH; intros; apply H; now right). lra.
Qed.

Lemma qsum_map_nonneg {A} (f : A -> Q) l : (forall x, In x l -> 0 <= f x) -> 0 <= qsum (map f l).
Proof. intros H. apply qsum_nonneg. intros y Hy. apply in_map_iff in Hy. destruct Hy as (x & <- & Hx). auto. Qed.

Lemma qsum_map_le {A} (f g : A -> Q) l : (forall x, In x l -> f x <= g x) -> qsum (map f l) <= qsum (map g l).
Proof.
  induction l as [|a l IH]; intros H; [cbn [map]; rewrite !qsum_nil; lra|]. cbn [map]. rewrite !qsum_cons.
  assert (f a <= g a) by (apply H; now left). assert (qsum (map f l) <= qsum (map g l)) by (apply IH; intros; apply H; now right). lra.
Qed.

Lemma qsum_pos l : (forall x, In x l -> 0 < x) -> l <> [] -> 0 < qsum l.
Proof.
  destruct l as [|a l]; intros H N; [congruence|]. rewrite qsum_cons.
  assert (0 < a) by (apply H; now left).
  assert (0 <= qsum l) by (apply qsum_nonneg; intros; apply Qlt_le_weak, H; now right). lra.
Qed.

Lemma qsum_zero {A} (f : A -> Q) l : (forall x, In x l -> f x == 0) -> qsum (map f l) == 0.
Proof.
  induction l as [|a l IH]; intros H; [reflexivity|]. cbn [map]. rewrite qsum_cons.
  rewrite (H a (or_introl eq_refl)), IH; [lra|]. intros; apply H; now right.
Qed.

Lemma qsum_seq_extend (f : nat -> Q) K N : (K <= N)%nat -> (forall i, (K <= i)%nat -> f i == 0) ->
  qsum (map f (seq 0 N)) == qsum (map f (seq 0 K)).
Proof.
  intros KN Z. replace N with (K + (N - K))%nat by lia. rewrite seq_app, map_app, qsum_app.
  rewrite (qsum_zero f (seq (0 + K) (N - K))); [lra|]. intros i Hi. apply in_seq in Hi. apply Z. lia.
Qed.

Lemma qsum_Forall2 a b : Forall2 Qeq a b -> qsum a == qsum b.
Proof. induction 1; [reflexivity|]. rewrite !qsum_cons, H, IHForall2. reflexivity. Qed.

(** ** powers *)
Lemma qpow_S x n : qpow x (S n) = x * qpow x n.
Proof. reflexivity. Qed.

#[global] Instance qpow_proper : Proper (Qeq ==> eq ==> Qeq) qpow.
Proof. intros x y E n m <-. induction n; [reflexivity|]. rewrite !qpow_S, IHn, E. reflexivity. Qed.

Lemma qpow_nonneg x n : 0 <= x -> 0 <= qpow x n.
Proof. intros H. induction n; [cbn; lra|]. rewrite qpow_S. apply Qmult_le_0_compat; assumption. Qed.

Lemma qpow_pos x n : 0 < x -> 0 < qpow x n.
Proof. intros H. induction n; [cbn; lra|]. rewrite qpow_S. apply Qmult_lt_0_compat; assumption. Qed.

Lemma qpow_le1 x n : 0 <= x <= 1 -> qpow x n <= 1.
Proof.
  intros H. induction n; [cbn; lra|]. rewrite qpow_S.
  assert (0 <= qpow x n) by (apply qpow_nonneg; lra). nra.
Qed.

Lemma qpow_add x a b : qpow x (a + b) == qpow x a * qpow x b.
Proof. induction a; cbn [Nat.add]; rewrite ?qpow_S; [cbn; lra | rewrite IHa; lra]. Qed.

Lemma qpow_1 n : qpow 1 n == 1.
Proof. induction n; [reflexivity|]. rewrite qpow_S, IHn. lra. Qed.

Lemma qpow_0 n : qpow 0 (S n) == 0.
Proof. rewrite qpow_S. lra. Qed.

Lemma qpow_mul x y n : qpow (x * y) n == qpow x n * qpow y n.
Proof. induction n; [cbn; lra|]. rewrite !qpow_S, IHn. lra. Qed.

(** ** naturals and factorials *)
Lemma qnat_add a b : qnat (a + b) == qnat a + qnat b.
Proof. unfold qnat. rewrite Nat2Z.inj_add, inject_Z_plus. reflexivity. Qed.
Lemma qnat_mul a b : qnat (a * b) == qnat a * qnat b.
Proof. unfold qnat. rewrite Nat2Z.inj_mul, inject_Z_mult. reflexivity. Qed.
Lemma qnat_nonneg a : 0 <= qnat a.
Proof. unfold qnat. change 0 with (inject_Z 0). rewrite <- Zle_Qle. lia. Qed.
Lemma qnat_pos a : (0 < a)%nat -> 0 < qnat a.
Proof. intros H. unfold qnat. change 0 with (inject_Z 0). rewrite <- Zlt_Qlt. lia. Qed.
Lemma qnat_S a : qnat (S a) == 1 + qnat a.
Proof. change (S a) with (1 + a)%nat. rewrite qnat_add. reflexivity. Qed.
Lemma qnat_0 : qnat 0 == 0.
Proof. reflexivity. Qed.

Lemma zfact_fact n : zfact n = Z.of_nat (fact n).
Proof.
  induction n; [reflexivity|]. change (zfact (S n)) with (Z.of_nat (S n) * zfact n)%Z.
  rewrite IHn, <- Nat2Z.inj_mul. reflexivity.
Qed.
Lemma qfact_qnat n : qfact n = qnat (fact n).
Proof. unfold qfact, qnat. now rewrite zfact_fact. Qed.
Lemma qfact_pos n : 0 < qfact n.
Proof. rewrite qfact_qnat. apply qnat_pos, lt_O_fact. Qed.

Lemma qsum_qnat {A} (f : A -> nat) l : qsum (map (fun x => qnat (f x)) l) == qnat (list_sum (map f l)).
Proof.
  induction l; [reflexivity|]. cbn [map]. rewrite qsum_cons.
  change (list_sum (f a :: map f l)) with (f a + list_sum (map f l))%nat. rewrite qnat_add, IHl. reflexivity.
Qed.

(** ** binomials *)
Lemma binN_gt : forall n k, (n < k)%nat -> binN n k = 0%nat.
Proof. induction n; destruct k; intros H; try lia; cbn; [reflexivity|]. rewrite !IHn; lia. Qed.

Lemma binQ_binN n k : binQ n k == qnat (binN n k).
Proof.
  unfold binQ. destruct (Nat.leb_spec k n) as [H|H].
  - pose proof (@LowPassVander.binN_fact n k H) as E.
    assert (E' : qnat (binN n k) * (qfact k * qfact (n - k)) == qfact n).
    { rewrite !qfact_qnat, <- !qnat_mul, E. reflexivity. }
    pose proof (qfact_pos k). pose proof (qfact_pos (n - k)).
    rewrite <- E'. field. split; lra.
  - rewrite binN_gt by lia. reflexivity.
Qed.

Lemma binQ_nonneg n k : 0 <= binQ n k.
Proof. rewrite binQ_binN. apply qnat_nonneg. Qed.

Lemma binN_pos : forall n k, (k <= n)%nat -> (0 < binN n k)%nat.
Proof. induction n; destruct k; intros H; cbn; try lia. assert (0 < binN n k)%nat by (apply IHn; lia). lia. Qed.

Lemma binQ_pos n k : (k <= n)%nat -> 0 < binQ n k.
Proof. intros H. rewrite binQ_binN. apply qnat_pos, binN_pos, H. Qed.

Lemma binQ_n0 n : binQ n 0 == 1.
Proof. rewrite binQ_binN. destruct n; reflexivity. Qed.
Lemma binQ_nn n : binQ n n == 1.
Proof. rewrite binQ_binN. induction n; [reflexivity|]. cbn [binN]. rewrite (binN_gt n (S n)) by lia. rewrite Nat.add_0_r. exact IHn. Qed.

(** binomial theorem *)
Section BinomialTheorem.
  Variables p q : Q.
  Let T (n k : nat) : Q := qnat (binN n k) * qpow p k * qpow q (n - k).

  Lemma seq0_S m : seq 0 (S m) = 0%nat :: map S (seq 0 m).
  Proof. cbn. now rewrite seq_shift. Qed.

  Lemma binom_step n :
    qsum (map (T (S n)) (seq 0 (S (S n)))) == (p + q) * qsum (map (T n) (seq 0 (S n))).
  Proof.
    rewrite (seq0_S (S n)). cbn [map]. rewrite qsum_cons, map_map.
    set (U := fun k' => qnat (binN n (S k')) * qpow p (S k') * qpow q (n - k')).
    rewrite (qsum_map_ext (fun x => T (S n) (S x)) (fun k' => p * T n k' + U k')).
    2:{ intros k' _. unfold T, U. cbn [binN]. rewrite qnat_add, !qpow_S. cbn [Nat.sub]. ring. }
    rewrite qsum_map_add, qsum_map_scale.
    assert (EU : qsum (map U (seq 0 (S n))) == q * qsum (map (fun k' => T n (S k')) (seq 0 n))).
    { rewrite seq_S, map_app, qsum_app. cbn [map Nat.add]. rewrite qsum_cons.
      assert (Z : U n == 0). { unfold U. rewrite binN_gt by lia. rewrite qnat_0. ring. }
      rewrite Z. rewrite <- qsum_map_scale. cbn [qsum fold_right].
      rewrite (qsum_map_ext U (fun x => q * T n (S x))); [lra|].
      intros k' Hk. apply in_seq in Hk. unfold U, T.
      replace (n - k')%nat with (S (n - S k')) by lia. rewrite !qpow_S. ring. }
    rewrite EU. rewrite (seq0_S n). cbn [map]. rewrite qsum_cons, map_map.
    assert (B0 : forall m, binN m 0 = 1%nat) by (destruct m; reflexivity).
    assert (T0 : T (S n) 0 == q * T n 0).
    { unfold T. rewrite !B0, !Nat.sub_0_r, qpow_S. ring. }
    rewrite T0. ring.
  Qed.

  Theorem binomial_theorem n : qsum (map (T n) (seq 0 (S n))) == qpow (p + q) n.
  Proof.
    induction n.
    - cbn [seq map]. rewrite qsum_cons, qsum_nil. unfold T. cbn [binN Nat.sub qpow]. change (qnat 1) with 1. ring.
    - rewrite binom_step, IHn, qpow_S. reflexivity.
  Qed.
End BinomialTheorem.

Lemma binpmf_sum n p : qsum (map (fun k => binpmf k n p) (seq 0 (S n))) == 1.
Proof.
  rewrite (qsum_map_ext _ (fun k => qnat (binN n k) * qpow p k * qpow (1 - p) (n - k))).
  - rewrite binomial_theorem. setoid_replace (p + (1 - p)) with 1 by ring. apply qpow_1.
  - intros k _. unfold binpmf. rewrite binQ_binN. reflexivity.
Qed.

Lemma binpmf_nonneg k n p : 0 <= p <= 1 -> 0 <= binpmf k n p.
Proof.
  intros H. unfold binpmf. apply Qmult_le_0_compat; [apply Qmult_le_0_compat|].
  - apply binQ_nonneg. - apply qpow_nonneg; lra. - apply qpow_nonneg; lra.
Qed.

(** Vandermonde *)
Lemma vandermonde_Q a b j :
  qsum (map (fun i => binQ a i * binQ b (j - i)) (seq 0 (S j))) == binQ (a + b) j.
Proof.
  rewrite (qsum_map_ext _ (fun i => qnat (binN a i * binN b (j - i)))).
  - rewrite qsum_qnat, LowPassVander.vander_nat, binQ_binN. reflexivity.
  - intros i _. rewrite !binQ_binN, qnat_mul. reflexivity.
Qed.

(** the hypergeometric row sums to one *)
Lemma hyper_sum n m j : (m <= n)%nat -> (j <= n)%nat ->
  qsum (map (fun i => if (i <=? j)%nat then binQ m i * binQ (n - m) (j - i) else 0) (seq 0 (S m))) == binQ n j.
Proof.
  intros mn jn.
  set (g := fun i => if (i <=? j)%nat then binQ m i * binQ (n - m) (j - i) else 0).
  assert (Zm : forall i, (S m <= i)%nat -> g i == 0).
  { intros i Hi. unfold g. destruct (i <=? j)%nat; [|reflexivity]. rewrite (binQ_binN m i), binN_gt by lia. rewrite qnat_0. ring. }
  assert (Zj : forall i, (S j <= i)%nat -> g i == 0).
  { intros i Hi. unfold g. destruct (Nat.leb_spec i j); [lia|reflexivity]. }
  rewrite <- (qsum_seq_extend g (S m) (S (Nat.max m j))) by (auto; lia).
  rewrite (qsum_seq_extend g (S j) (S (Nat.max m j))) by (auto; lia).
  rewrite (qsum_map_ext g (fun i => binQ m i * binQ (n - m) (j - i))).
  - rewrite vandermonde_Q. replace (m + (n - m))%nat with n by lia. reflexivity.
  - intros i Hi. apply in_seq in Hi. unfold g. destruct (Nat.leb_spec i j); [reflexivity|lia].
Qed.
