(** C18: what holds for EVERY draw of the simulated calling model (Model/LowPassSim.v):
    no simulated locus falls outside the bins 0..n_subsampling, so the returned array is a probability vector. *)
From Coq Require Import ZArith QArith Qreduction List Bool Arith Lia Lqa Sorted Setoid Morphisms.
From Dadi Require Import Model.LowPass Model.LowPassCheck Model.LowPassSim Model.LowPassSimCheck
  Proofs.LowPassPart Proofs.LowPassQ Proofs.LowPassProb Proofs.LowPassMat.
Import ListNotations.
Local Open Scope nat_scope.

(** ** counting *)
Lemma bump_length : forall c i m, length (bump i m c) = length c.
Proof. induction c as [|x c IH]; intros [|i] m; cbn; auto. Qed.

Lemma bump_sum : forall c i m, i < length c -> list_sum (bump i m c) = list_sum c + m.
Proof.
  induction c as [|x c IH]; intros [|i] m H; cbn [length] in H; try lia; cbn [bump]; rewrite !list_sum_cons.
  - lia.
  - rewrite IH by lia. lia.
Qed.

Lemma bump_zero : forall c i, bump i 0 c = c.
Proof. induction c as [|x c IH]; intros [|i]; cbn [bump]; auto. - now rewrite Nat.add_0_r. - now rewrite IH. Qed.

Lemma bump_bump0 c a b : bump 0 a (bump 0 b c) = bump 0 (b + a) c.
Proof. destruct c; cbn [bump]; [reflexivity|]. f_equal. lia. Qed.

Lemma prod_pos dims : Forall (fun n => 0 < n) dims -> 0 < fold_right Nat.mul 1 dims.
Proof. induction 1; cbn [fold_right]; [lia|]. nia. Qed.

Lemma flat_index_lt : forall dims v i, flat_index dims v = Some i -> i < fold_right Nat.mul 1 dims.
Proof.
  induction dims as [|n dims IH]; intros [|x v] i H; cbn [flat_index] in H; try discriminate.
  - inversion H. cbn. lia.
  - destruct (Nat.ltb_spec x n) as [L|L]; [|discriminate].
    destruct (flat_index dims v) as [r|] eqn:E; [|discriminate]. inversion H; subst. apply IH in E. cbn [fold_right]. nia.
Qed.

Lemma flat_index_some : forall dims v, Forall2 (fun x n => x < n) v dims -> exists i, flat_index dims v = Some i.
Proof.
  intros dims v H. induction H as [|x n v dims L _ [r IH]]; cbn [flat_index]; [now exists 0|].
  destruct (Nat.ltb_spec x n); [|lia]. rewrite IH. eexists; reflexivity.
Qed.

Definition in_range (dims v : list nat) : Prop := Forall2 (fun x n => x < n) v dims.

Lemma bump_vec_length dims c v : length (bump_vec dims c v) = length c.
Proof. unfold bump_vec. destruct (flat_index dims v); [apply bump_length | reflexivity]. Qed.

Lemma fold_bump_vec_length dims : forall vs c, length (fold_left (bump_vec dims) vs c) = length c.
Proof. induction vs as [|v vs IH]; intros c; cbn [fold_left]; [reflexivity|]. now rewrite IH, bump_vec_length. Qed.

Lemma fold_bump_vec_sum dims : forall vs c, length c = fold_right Nat.mul 1 dims -> Forall (in_range dims) vs ->
  list_sum (fold_left (bump_vec dims) vs c) = list_sum c + length vs.
Proof.
  induction vs as [|v vs IH]; intros c L H; cbn [fold_left length]; [lia|].
  inversion H as [|? ? Hv Hvs]; subst. rewrite IH; [|now rewrite bump_vec_length | exact Hvs].
  unfold bump_vec. destruct (flat_index_some dims v Hv) as [i E]. rewrite E.
  rewrite bump_sum by (rewrite L; eapply flat_index_lt; eauto). lia.
Qed.

(** ** genotype calls *)
Definition callval (g : nat) : Prop := g <= 2 \/ g = nocall.

Lemma gcall_val r : callval (gcall r).
Proof. destruct r as [[|a] [|b]]; cbn; unfold callval, nocall; lia. Qed.

Lemma filter_length_le' {A} (f : A -> bool) l : length (filter f l) <= length l.
Proof. induction l as [|x l IH]; cbn [filter]; [lia|]. destruct (f x); cbn [length]; lia. Qed.

Lemma filter_length_all {A} (f : A -> bool) l : length (filter f l) = length l -> forall x, In x l -> f x = true.
Proof.
  induction l as [|y l IH]; intros H x Hx; [destruct Hx|]. cbn [filter] in H.
  destruct (f y) eqn:E; cbn [length] in H.
  - destruct Hx as [<-|Hx]; [exact E | apply IH; [lia | exact Hx]].
  - pose proof (filter_length_le' f l). lia.
Qed.

Lemma ncalled_le row : ncalled row <= length row.
Proof. apply filter_length_le'. Qed.

Lemma all_called_le2 row : Forall callval row -> ncalled row = length row -> Forall (fun g => g <= 2) row.
Proof.
  intros V H. rewrite Forall_forall in *. intros g Hg. pose proof (filter_length_all _ _ H g Hg) as E. cbn in E.
  apply negb_true_iff, Nat.eqb_neq in E. destruct (V g Hg); [assumption|contradiction].
Qed.

Lemma list_sum_le2' l : Forall (fun g => g <= 2) l -> list_sum l <= 2 * length l.
Proof. induction 1; [cbn; lia|]. rewrite list_sum_cons. cbn [length]. lia. Qed.

(** ** numpy.sort of a row of calls *)
Lemma insert_sorted_In x : forall l z, In z (insert_sorted x l) <-> z = x \/ In z l.
Proof.
  induction l as [|y l IH]; intros z; cbn [insert_sorted]; [cbn; intuition|].
  destruct (x <=? y); cbn [In]; [intuition|]. rewrite IH. intuition.
Qed.

Lemma insert_sorted_sorted x : forall l, StronglySorted le l -> StronglySorted le (insert_sorted x l).
Proof.
  induction l as [|y l IH]; intros S; cbn [insert_sorted]; [repeat constructor|].
  inversion S as [|? ? Sl Hy]; subst.
  destruct (Nat.leb_spec x y).
  - constructor; [exact S|]. constructor; [assumption|]. eapply Forall_impl; [|exact Hy]. cbn. lia.
  - constructor; [apply IH, Sl|]. rewrite Forall_forall in *. intros z Hz. apply insert_sorted_In in Hz. destruct Hz as [->|Hz]; [lia|auto].
Qed.

Lemma sort_row_sorted l : StronglySorted le (sort_row l).
Proof. induction l as [|x l IH]; cbn [sort_row fold_right]; [constructor|]. apply insert_sorted_sorted, IH. Qed.

Lemma sort_row_In l z : In z (sort_row l) <-> In z l.
Proof.
  induction l as [|x l IH]; cbn [sort_row fold_right]; [reflexivity|].
  fold (sort_row l). rewrite insert_sorted_In, IH. cbn. intuition.
Qed.

Lemma ncalled_cons x l : ncalled (x :: l) = (if x =? nocall then 0 else 1) + ncalled l.
Proof. unfold ncalled. cbn [filter]. destruct (x =? nocall); reflexivity. Qed.

Lemma ncalled_insert x : forall l, ncalled (insert_sorted x l) = ncalled (x :: l).
Proof.
  induction l as [|y l IH]; cbn [insert_sorted]; [reflexivity|].
  destruct (x <=? y); [reflexivity|]. rewrite ncalled_cons, IH, !ncalled_cons. lia.
Qed.

Lemma ncalled_sort l : ncalled (sort_row l) = ncalled l.
Proof.
  induction l as [|x l IH]; [reflexivity|]. cbn [sort_row fold_right]. fold (sort_row l).
  rewrite ncalled_insert, !ncalled_cons, IH. reflexivity.
Qed.

Lemma ncalled_all_nocall s : Forall (le nocall) s -> Forall callval s -> ncalled s = 0.
Proof.
  induction 1 as [|z s Hz _ IH]; intros V; [reflexivity|]. inversion V as [|? ? Vz Vs]; subst.
  rewrite ncalled_cons, IH by exact Vs.
  assert (z = nocall) by (destruct Vz; unfold nocall in *; [lia|assumption]). subst z. reflexivity.
Qed.

(** the called genotypes come first in a sorted row *)
Lemma sorted_called_first : forall s, StronglySorted le s -> Forall callval s ->
  Forall (fun g => g <= 2) (firstn (ncalled s) s).
Proof.
  induction s as [|y s IH]; intros S V; [constructor|].
  inversion S as [|? ? Ss Hy]; subst. inversion V as [|? ? Vy Vs]; subst.
  rewrite ncalled_cons. destruct (Nat.eqb_spec y nocall) as [E|E].
  - (* everything after a no-call is a no-call *)
    assert (Z : ncalled s = 0) by (apply ncalled_all_nocall; [subst y; exact Hy | exact Vs]).
    rewrite Z. cbn. constructor.
  - cbn [Nat.add firstn]. constructor; [destruct Vy; [assumption|contradiction] | apply IH; assumption].
Qed.

Lemma sub_row_le2 r sel : Forall callval r -> Forall (fun g => g <= 2) (sub_row r sel).
Proof.
  intros V. unfold sub_row. cbv zeta.
  assert (F : Forall (fun g => g <= 2) (firstn (ncalled r) (sort_row r))).
  { rewrite <- ncalled_sort. apply sorted_called_first; [apply sort_row_sorted|].
    rewrite Forall_forall in *. intros g Hg. apply V, sort_row_In, Hg. }
  rewrite Forall_forall in *. intros g Hg. apply in_map_iff in Hg. destruct Hg as (i & <- & _).
  destruct (Nat.lt_ge_cases i (length (firstn (ncalled r) (sort_row r)))) as [L|L].
  - apply F, nth_In, L.
  - rewrite nth_overflow by exact L. lia.
Qed.

(** ** per-population called allele counts stay within 0..n_subsampling *)
Lemma reorder_incl N k rows r : In r (reorder N k rows) -> In r rows.
Proof.
  unfold reorder. rewrite in_flat_map. intros (c & _ & H). apply filter_In in H. tauto.
Qed.

Lemma subsample_sums_bound N k rows sels :
  Forall (Forall callval) rows -> Forall (fun sel => length sel <= k) sels ->
  Forall (fun s => s <= 2 * k) (map (@list_sum) (subsample_1D N k rows sels)).
Proof.
  intros V L. rewrite Forall_forall in *. intros s Hs. apply in_map_iff in Hs. destruct Hs as (g & <- & Hg).
  unfold subsample_1D in Hg. apply in_map_iff in Hg. destruct Hg as ([r sel] & <- & Hp). cbn [fst snd].
  pose proof (in_combine_l _ _ _ _ Hp) as Hr. pose proof (in_combine_r _ _ _ _ Hp) as Hsel.
  apply reorder_incl in Hr. pose proof (sub_row_le2 r sel (V r Hr)) as B. apply list_sum_le2' in B.
  unfold sub_row in B at 2. cbv zeta in B. rewrite map_length in B. specialize (L sel Hsel). lia.
Qed.

Lemma enough_calls_nth : forall pops c, enough_calls pops c = true ->
  forall i p row, nth_error pops i = Some p -> nth_error c i = Some row -> sp_nsub p / 2 <= ncalled row.
Proof.
  unfold enough_calls. induction pops as [|q pops IH]; intros c H i p row Hp Hr; [destruct i; discriminate|].
  destruct c as [|r c]; [destruct i; discriminate|]. cbn [combine forallb fst snd] in H. apply andb_true_iff in H. destruct H as [H1 H2].
  destruct i as [|i]; cbn [nth_error] in Hp, Hr.
  - inversion Hp; inversion Hr; subst. now apply Nat.leb_le.
  - eapply IH; eauto.
Qed.

Lemma pop_sums_bound p rows sels :
  Forall (Forall callval) rows ->
  (sp_nsub p = sp_nseq p -> Forall (fun row => row = [] \/ (sp_nsub p / 2 <= ncalled row /\ length row <= sp_nseq p / 2)) rows) ->
  Forall (fun sel => length sel <= sp_nsub p / 2) sels ->
  Forall (fun s => s <= sp_nsub p) (pop_sums p rows sels).
Proof.
  intros V A L. unfold pop_sums. destruct (Nat.eqb_spec (sp_nsub p) (sp_nseq p)) as [E|E].
  - specialize (A E). rewrite Forall_forall in *. intros s Hs. apply in_map_iff in Hs. destruct Hs as (row & <- & Hrow).
    destruct (A row Hrow) as [-> |[H1 H2]]; [cbn; lia|].
    rewrite E in H1. pose proof (ncalled_le row). assert (Hc : ncalled row = length row) by lia.
    pose proof (all_called_le2 row (V row Hrow) Hc) as B. apply list_sum_le2' in B.
    pose proof (Nat.div_mod (sp_nseq p) 2 ltac:(lia)). lia.
  - eapply Forall_impl; [|apply subsample_sums_bound; eassumption].
    cbv beta. intros s Hs. pose proof (Nat.div_mod (sp_nsub p) 2 ltac:(lia)). lia.
Qed.

(** what a draw must satisfy: the partition has n_sequenced/2 individuals per population, a choice has at most
    n_subsampling/2 positions (anything else about the draws is arbitrary) *)
Definition draw_ok (pops : list spop) (pd : pdraw) : Prop :=
  Forall2 (fun p pt => length pt = sp_nseq p / 2) pops (pd_part pd) /\
  Forall2 (fun p s => Forall (fun sel => length sel <= sp_nsub p / 2) s) pops (pd_sel pd).

Lemma Forall2_nth_error {A B} (P : A -> B -> Prop) : forall a b, Forall2 P a b ->
  forall i x, nth_error a i = Some x -> exists y, nth_error b i = Some y /\ P x y.
Proof.
  induction 1 as [|x0 y0 a b H0 _ IH]; intros [|i] x Hx; cbn [nth_error] in *; try discriminate.
  - inversion Hx; subst. eauto.
  - eauto.
Qed.

Lemma nth_error_nth' {A} (l : list A) i x d : nth_error l i = Some x -> nth i l d = x.
Proof. revert i. induction l; intros [|i] H; cbn in *; try discriminate; [now inversion H | auto]. Qed.

Lemma locus_calls_val part loc : Forall (Forall callval) (locus_calls (locus_reads part loc)).
Proof.
  unfold locus_calls. rewrite Forall_forall. intros row H. apply in_map_iff in H. destruct H as (r & <- & _).
  rewrite Forall_forall. intros g Hg. apply in_map_iff in Hg. destruct Hg as (x & <- & _). apply gcall_val.
Qed.

Lemma locus_calls_row_length part loc i :
  length (nth i (locus_calls (locus_reads part loc)) []) <= length (nth i part []).
Proof.
  unfold locus_calls, locus_reads. revert loc i. induction part as [|pt part IH]; intros loc i.
  - cbn. destruct i; cbn; lia.
  - destruct loc as [|ds loc]; [cbn; destruct i; cbn; lia|]. cbn [combine map fst snd]. destruct i as [|i]; cbn [nth].
    + unfold pop_reads. rewrite !map_length, combine_length. lia.
    + apply IH.
Qed.

Lemma kept_calls_spec pops pd c : In c (kept_calls pops pd) ->
  enough_calls pops c = true /\ exists loc, c = locus_calls (locus_reads (pd_part pd) loc).
Proof.
  unfold kept_calls. cbv zeta. intros H. apply filter_In in H. destruct H as [H E]. split; [exact E|].
  apply in_map_iff in H. destruct H as (r & <- & Hr). apply filter_In in Hr. destruct Hr as [Hr _].
  apply in_map_iff in Hr. destruct Hr as (loc & <- & _). eauto.
Qed.

Lemma pops_sums_in_range pops pd : draw_ok pops pd ->
  forall pre rest, pops = pre ++ rest ->
  Forall2 (fun p s => Forall (fun x => x <= sp_nsub p) s) rest (pops_sums (length pre) rest (kept_calls pops pd) (pd_sel pd)).
Proof.
  intros [HP HS] pre rest. revert pre. induction rest as [|p rest IH]; intros pre E; cbn [pops_sums]; [constructor|].
  constructor.
  - assert (Hp : nth_error pops (length pre) = Some p) by (subst pops; rewrite nth_error_app2, Nat.sub_diag by lia; reflexivity).
    apply pop_sums_bound.
    + rewrite Forall_forall. intros row Hrow. apply in_map_iff in Hrow. destruct Hrow as (c & <- & Hc).
      apply kept_calls_spec in Hc. destruct Hc as [_ [loc ->]].
      pose proof (locus_calls_val (pd_part pd) loc) as V. rewrite Forall_forall in V.
      destruct (nth_in_or_default (length pre) (locus_calls (locus_reads (pd_part pd) loc)) []) as [I| ->]; [auto|constructor].
    + intros Eq. rewrite Forall_forall. intros row Hrow. apply in_map_iff in Hrow. destruct Hrow as (c & <- & Hc).
      apply kept_calls_spec in Hc. destruct Hc as [En [loc ->]].
      destruct (nth_error (locus_calls (locus_reads (pd_part pd) loc)) (length pre)) as [row|] eqn:Er.
      * right. rewrite (nth_error_nth' _ _ _ [] Er). split; [eapply enough_calls_nth; eauto|].
        pose proof (locus_calls_row_length (pd_part pd) loc (length pre)) as LL. rewrite (nth_error_nth' _ _ _ [] Er) in LL.
        destruct (Forall2_nth_error _ _ _ HP _ _ Hp) as (pt & Hpt & Lpt). rewrite (nth_error_nth' _ _ _ [] Hpt) in LL. lia.
      * left. apply nth_error_None in Er. now apply nth_overflow.
    + destruct (Forall2_nth_error _ _ _ HS _ _ Hp) as (s & Hs & Ls). now rewrite (nth_error_nth' _ _ _ [] Hs).
  - replace (S (length pre)) with (length (pre ++ [p])) by (rewrite app_length; cbn; lia).
    apply IH. rewrite <- app_assoc. exact E.
Qed.

Lemma zipn_in_range pops ss n : Forall2 (fun p s => Forall (fun x => x <= sp_nsub p) s) pops ss ->
  Forall (in_range (sim_dims pops)) (zipn ss n).
Proof.
  intros H. unfold zipn. rewrite Forall_forall. intros v Hv. apply in_map_iff in Hv. destruct Hv as (i & <- & _).
  unfold in_range, sim_dims. induction H as [|p s pops ss Hs _ IH]; cbn [map]; constructor; [|exact IH].
  destruct (Nat.lt_ge_cases i (length s)) as [L|L].
  - rewrite Forall_forall in Hs. specialize (Hs _ (nth_In s 0 L)). lia.
  - rewrite nth_overflow by exact L. lia.
Qed.

(** ** the un-normalised spectrum counts every simulated locus exactly once *)
Definition total_loci (draws : list pdraw) : nat := list_sum (map (fun pd => length (pd_loci pd)) draws).

Lemma sim_size_pos pops : 0 < sim_size pops.
Proof.
  unfold sim_size, sim_dims. apply prod_pos. rewrite Forall_forall. intros n H. apply in_map_iff in H. destruct H as (p & <- & _). lia.
Qed.

Lemma sim_partition_total pops pd : draw_ok pops pd ->
  Forall (in_range (sim_dims pops)) (snd (sim_partition pops pd)) /\
  fst (sim_partition pops pd) + length (snd (sim_partition pops pd)) = length (pd_loci pd).
Proof.
  intros D. unfold sim_partition. cbv zeta. cbn [fst snd]. split.
  - apply zipn_in_range. apply (pops_sums_in_range pops pd D [] pops eq_refl).
  - unfold zipn, kept_calls. cbv zeta. rewrite !map_length, seq_length.
    set (rs := map (locus_reads (pd_part pd)) (pd_loci pd)).
    set (poly := filter (fun r => 2 <=? t_alt r) rs).
    pose proof (filter_length_le' (fun r => 2 <=? t_alt r) rs) as L1. fold poly in L1.
    pose proof (filter_length_le' (enough_calls pops) (map locus_calls poly)) as L2. rewrite map_length in L2.
    assert (length rs = length (pd_loci pd)) by (unfold rs; now rewrite map_length).
    lia.
Qed.

Theorem sim_counts_total pops draws : Forall (draw_ok pops) draws ->
  length (sim_counts pops draws) = sim_size pops /\ list_sum (sim_counts pops draws) = total_loci draws.
Proof.
  intros H. unfold sim_counts, total_loci.
  assert (G : forall c, length c = sim_size pops ->
    let r := fold_left (fun c pd => let r := sim_partition pops pd in fold_left (bump_vec (sim_dims pops)) (snd r) (bump 0 (fst r) c)) draws c in
    length r = sim_size pops /\ list_sum r = list_sum c + list_sum (map (fun pd => length (pd_loci pd)) draws)).
  { induction H as [|pd draws Hpd _ IH]; intros c L; cbn [fold_left map]; [cbn; lia|].
    destruct (sim_partition_total pops pd Hpd) as [R T].
    specialize (IH (fold_left (bump_vec (sim_dims pops)) (snd (sim_partition pops pd)) (bump 0 (fst (sim_partition pops pd)) c))).
    cbv zeta in IH |- *. destruct IH as [I1 I2]; [now rewrite fold_bump_vec_length, bump_length|].
    split; [exact I1|]. rewrite I2, fold_bump_vec_sum; [|rewrite bump_length; exact L | exact R].
    rewrite bump_sum by (rewrite L; apply sim_size_pos). rewrite list_sum_cons. lia. }
  specialize (G (repeat 0 (sim_size pops)) (repeat_length _ _)). cbv zeta in G. destruct G as [G1 G2].
  split; [exact G1|]. rewrite G2.
  assert (Z : forall n, list_sum (repeat 0 n) = 0) by (induction n; [reflexivity|]; cbn [repeat]; rewrite list_sum_cons; lia).
  rewrite Z. lia.
Qed.

Local Open Scope Q_scope.

(** simulate_GATK_multisample_calling returns a probability vector over the bins, whatever was drawn *)
Theorem simulate_prob_vector pops draws : Forall (draw_ok pops) draws -> (0 < total_loci draws)%nat ->
  prob_vector (sim_size pops) (simulate pops draws).
Proof.
  intros H T. destruct (sim_counts_total pops draws H) as [L S]. unfold simulate. cbv zeta. rewrite S.
  assert (TP : 0 < qnat (total_loci draws)) by (apply qnat_pos; exact T).
  split; [now rewrite map_length|]. split.
  - intros e He. apply in_map_iff in He. destruct He as (x & <- & _). rewrite Qred_correct.
    unfold Qdiv. apply Qmult_le_0_compat; [apply qnat_nonneg | apply Qinv_le_0_compat; lra].
  - rewrite <- (map_map qnat (fun w => Qred (w / qnat (total_loci draws)))). rewrite qsum_div_red.
    rewrite (qsum_qnat (fun x => x)), map_id, S. field. lra.
Qed.

(** the boolean the replay evaluates on every recorded draw implies the hypothesis *)
Lemma all2b_Forall2 {A B} (f : A -> B -> bool) : forall a b, all2b f a b = true -> Forall2 (fun x y => f x y = true) a b.
Proof.
  induction a as [|x a IH]; intros [|y b] H; cbn [all2b] in H; try discriminate; [constructor|].
  apply andb_true_iff in H. destruct H. constructor; auto.
Qed.

Lemma sels_okb_sound : forall pops kept sels i, sels_okb i pops kept sels = true ->
  Forall2 (fun p s => Forall (fun sel => (length sel <= sp_nsub p / 2)%nat) s) pops sels.
Proof.
  induction pops as [|p pops IH]; intros kept [|s sels] i H; cbn [sels_okb] in H; try discriminate; [constructor|].
  apply andb_true_iff in H. destruct H as [H1 H2]. constructor; [|eapply IH; eauto].
  destruct (sp_nsub p =? sp_nseq p)%nat.
  - destruct s; [constructor|discriminate].
  - apply all2b_Forall2 in H1. clear -H1. induction H1 as [|r sel rs s H _ IH]; constructor; [|exact IH].
    unfold sel_okb in H. apply andb_true_iff in H. destruct H as [H _]. apply andb_true_iff in H. destruct H as [H _].
    apply Nat.eqb_eq in H. lia.
Qed.

Theorem pdraw_okb_sound pops pd : pdraw_okb pops pd = true -> draw_ok pops pd.
Proof.
  unfold pdraw_okb. intros H. apply andb_true_iff in H. destruct H as [H H3]. apply andb_true_iff in H. destruct H as [H1 _].
  split; [|eapply sels_okb_sound; eauto].
  clear H3. apply all2b_Forall2 in H1. induction H1 as [|p pt ps pts E _ IH]; [constructor|]. constructor; [|exact IH].
  apply andb_true_iff in E. destruct E as [E _]. now apply Nat.eqb_eq in E.
Qed.
