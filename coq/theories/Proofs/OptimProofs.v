(** Proofs about the optimiser glue (C12), on the real-number instance of Model/Optim.v. *)
From Coq Require Import ZArith Reals List Bool Lra Lia.
From Dadi Require Import Base.Num Base.NumR Model.Optim Proofs.OptimProject.
Import ListNotations.
Local Open Scope R_scope.

Ltac inv H := inversion H; subst; clear H.

(** the optimiser contract (what is assumed of nlopt / scipy.optimize): it evaluates the start first, evaluates only
    points of the right length inside the box it was handed, returns a point it evaluated, reports that point's value,
    and no evaluated point is better *)
Definition contract (maximize : bool) (lo hi : list (xnum R)) (x0 : list R) (f : list R -> R) (r : oresult R) : Prop :=
  hd_error (o_trace r) = Some x0 /\
  Forall (fun x => box_ok lo hi x = true /\ length x = length x0) (o_trace r) /\
  In (o_x r) (o_trace r) /\
  o_f r = f (o_x r) /\
  Forall (fun x => if maximize then f x <= o_f r else o_f r <= f x) (o_trace r).

Definition positive (l : list R) : Prop := Forall (fun x => 0 < x) l.

Lemma map_exp_ln l : positive l -> map exp (map ln l) = l.
Proof. induction 1; cbn; auto. rewrite exp_ln by auto. f_equal; auto. Qed.

Lemma list_eqb_true (a b : list R) : list_eqb a b = true -> a = b.
Proof.
  unfold list_eqb. rewrite andb_true_iff. intros [Hl He]. apply Nat.eqb_eq in Hl.
  revert b Hl He; induction a as [|x a IH]; intros [|y b] Hl He; cbn in *; try discriminate; auto.
  apply andb_true_iff in He as [Hxy He]. numR. apply Reqb_true in Hxy. subst. f_equal. apply IH; auto.
Qed.

(** the boolean contract evaluated in the correspondence check implies the contract *)
Lemma contractb_sound maximize lo hi x0 f r : contractb maximize lo hi x0 f r = true -> contract maximize lo hi x0 f r.
Proof.
  unfold contractb, contract. rewrite !andb_true_iff. intros [[[[H1 H2] H3] H4] H5]. repeat split.
  - destruct (o_trace r) as [|x t]; try discriminate. apply list_eqb_true in H1. subst; reflexivity.
  - rewrite forallb_forall in H2. apply Forall_forall. intros x Hx. specialize (H2 x Hx).
    apply andb_true_iff in H2 as [Ha Hb]. split; auto. apply Nat.eqb_eq; auto.
  - apply existsb_exists in H3 as [x [Hx He]]. apply list_eqb_true in He. subst; auto.
  - numR. apply Reqb_true in H4; auto.
  - rewrite forallb_forall in H5. apply Forall_forall. intros x Hx. specialize (H5 x Hx).
    destruct maximize; numR; apply Rleb_true in H5; auto.
Qed.

Section OptimProofs.
  Variable ll_multinom ll_plain : list R -> option R.
  Notation OF := (object_func ll_multinom ll_plain).
  Notation G := (ll_guard ll_multinom ll_plain).
  Notation PEN := (IZR (-100000000)).

  (** ** _object_func *)
  Lemma object_func_cases params lower upper multinom fixed s :
    let pu := project_up 0 params fixed in
    (in_bounds lower upper pu = false /\ OF params lower upper multinom fixed s = (- PEN / s, []))
    \/ (in_bounds lower upper pu = true /\ OF params lower upper multinom fixed s = (- G multinom pu / s, [pu])).
  Proof.
    cbv zeta. unfold object_func, in_bounds, out_of_bounds_val. numR.
    destruct (viol_lower lower _); cbn; auto. destruct (viol_upper upper _); cbn; auto.
  Qed.

  (** every model evaluation made by _object_func is at the expanded argument and has passed the bound test *)
  Lemma object_func_evals params lower upper multinom fixed s e :
    In e (snd (OF params lower upper multinom fixed s)) ->
    e = project_up 0 params fixed /\ in_bounds lower upper e = true.
  Proof.
    destruct (object_func_cases params lower upper multinom fixed s) as [[Hb ->]|[Hb ->]]; cbn; intros Hin.
    - contradiction.
    - destruct Hin as [<-|[]]. auto.
  Qed.

  Lemma in_bounds_none p : in_bounds (F:=R) None None p = true.
  Proof. reflexivity. Qed.

  (** ** never_evaluates_out_of_bounds: from the bound test alone, for ANY optimiser and any point it may try *)
  Theorem never_evaluates_out_of_bounds (cfg : wcfg) (O : optimiser R) p0 lower upper fixed multinom s w :
    wc_obj_bounds cfg = true ->
    scipy_wrapper ll_multinom ll_plain cfg O p0 lower upper fixed multinom s = Some w ->
    Forall (fun e => in_bounds lower upper e = true) (w_evals w).
  Proof.
    intros Hc Hw. unfold scipy_wrapper, bind in Hw.
    destruct (oracle_bounds _ to_lo _ _ _); try discriminate.
    destruct (oracle_bounds _ to_hi _ _ _); try discriminate.
    destruct (project_down p0 fixed); try discriminate.
    inv Hw. cbn [w_evals]. apply Forall_forall. intros e He. apply in_flat_map in He as [x [_ He]].
    unfold scipy_objective in He. rewrite Hc in He. apply object_func_evals in He. tauto.
  Qed.

  (** the same for the objective itself, for any argument whatsoever *)
  Theorem object_func_never_out_of_bounds params lower upper multinom fixed s :
    Forall (fun e => in_bounds lower upper e = true) (snd (OF params lower upper multinom fixed s)).
  Proof. apply Forall_forall. intros e He. apply object_func_evals in He. tauto. Qed.

  (** ** NLopt_mod.opt *)
  Definition tr (lg : bool) (x : list R) : list R := if lg then map exp x else x.

  Lemma opt_objective_spec multinom fixed lg x :
    opt_objective ll_multinom ll_plain multinom fixed lg x
    = (G multinom (project_up 0 (tr lg x) fixed), [project_up 0 (tr lg x) fixed]).
  Proof.
    unfold opt_objective. numR.
    destruct (object_func_cases (if lg then map exp x else x) None None multinom fixed 1) as [[Hb _]|[_ ->]].
    - rewrite in_bounds_none in Hb. discriminate.
    - cbn [fst snd]. unfold tr. f_equal. field.
  Qed.

  Definition dflt_bounds (bnd : bounds (F:=R)) (n : nat) : list (option R) :=
    match bnd with None => repeat None n | Some l => l end.

  Lemma opt_gen_inv repaired replb O p0 lower upper fixed multinom lg w :
    opt_gen ll_multinom ll_plain repaired replb O p0 lower upper fixed multinom lg = Some w ->
    exists lo hi d0,
      project_down (dflt_bounds lower (length p0)) fixed = Some lo /\
      project_down (dflt_bounds upper (length p0)) fixed = Some hi /\
      project_down p0 fixed = Some d0 /\
      let lo' := if lg then map (if replb then xlog_lo else xlog) (map to_lo lo) else map to_lo lo in
      let hi' := if lg then map xlog (map to_hi hi) else map to_hi hi in
      let st := if lg then map ln d0 else d0 in
      let f := fun x => fst (opt_objective ll_multinom ll_plain multinom fixed lg x) in
      let r := O lo' hi' st f in
      w_lo w = lo' /\ w_hi w = hi' /\ w_start w = st /\ w_oracle w = r /\
      w_f w = o_f r /\
      w_x w = project_up 0 (if lg then map exp (if repaired then o_x r else st) else o_x r) fixed /\
      w_evals w = flat_map (fun x => snd (opt_objective ll_multinom ll_plain multinom fixed lg x)) (o_trace r).
  Proof.
    unfold opt_gen, bind, dflt_bounds. intros Hw.
    destruct (project_down (match lower with None => _ | Some l => l end) fixed) as [lo|] eqn:El; try discriminate.
    destruct (project_down (match upper with None => _ | Some l => l end) fixed) as [hi|] eqn:Eu; try discriminate.
    destruct (project_down p0 fixed) as [d0|] eqn:Ed; try discriminate.
    exists lo, hi, d0. inv Hw. cbn. numR. repeat split; reflexivity.
  Qed.

  Lemma hd_flat_map {A B} (g : A -> list B) (x : A) (t l : list A) (y : B) :
    l = x :: t -> g x = [y] -> hd_error (flat_map g l) = Some y.
  Proof. intros -> Hg. cbn. rewrite Hg. reflexivity. Qed.

  (** the conclusions of the property for one call of opt, under the oracle contract.
      [coherent]: either no log transform, or the repaired line and a positive start. *)
  Theorem opt_gen_contract repaired replb (O : optimiser R) p0 lower upper fixed multinom lg w d0 :
    opt_gen ll_multinom ll_plain repaired replb O p0 lower upper fixed multinom lg = Some w ->
    project_down p0 fixed = Some d0 ->
    (lg = true -> repaired = true /\ positive d0) ->
    contract true (w_lo w) (w_hi w) (w_start w)
             (fun x => fst (opt_objective ll_multinom ll_plain multinom fixed lg x)) (w_oracle w) ->
    (* fixed entries are returned unchanged *)
    agrees (w_x w) fixed /\
    (* the free part of the result is a point of the box handed to the optimiser *)
    (exists xf, w_x w = project_up 0 (tr lg xf) fixed /\ box_ok (w_lo w) (w_hi w) xf = true /\ length xf = length d0) /\
    (* the likelihood of the returned vector is the reported optimum *)
    G multinom (w_x w) = w_f w /\
    (* which is no worse than the likelihood of the start *)
    G multinom (subst_fixed p0 fixed) <= w_f w /\
    (* and the first model evaluation is at the start *)
    hd_error (w_evals w) = Some (subst_fixed p0 fixed).
  Proof.
    intros Hw Hd Hlg Hc.
    destruct (opt_gen_inv _ _ _ _ _ _ _ _ _ _ Hw) as (lo & hi & d0' & Hlo & Hhi & Hd' & Hrest).
    rewrite Hd in Hd'. inv Hd'. cbv zeta in Hrest.
    destruct Hrest as (Elo & Ehi & Est & Eor & Ef & Ex & Eev).
    destruct Hc as (Hhd & Hbox & Hin & Hval & Hbest).
    set (r := w_oracle w) in *.
    assert (Hst : tr lg (w_start w) = d0').
    { rewrite Est. unfold tr. destruct lg; auto. apply map_exp_ln. apply Hlg; auto. }
    assert (Hx : w_x w = project_up 0 (tr lg (o_x r)) fixed).
    { rewrite Ex. rewrite <- Eor. fold r. unfold tr. destruct lg; auto. destruct (Hlg eq_refl) as [-> _]. reflexivity. }
    assert (Hup0 : project_up 0 d0' fixed = subst_fixed p0 fixed) by (apply up_down_inverse; auto).
    repeat split.
    - rewrite Hx. apply project_up_agrees.
    - exists (o_x r). split; auto. rewrite Forall_forall in Hbox. destruct (Hbox _ Hin) as [Hb Hl]. split; auto.
      rewrite Hl, Est. destruct lg; auto. apply map_length.
    - rewrite Ef, <- Eor. fold r. rewrite Hval, opt_objective_spec. cbn [fst]. rewrite Hx. reflexivity.
    - rewrite Ef, <- Eor. fold r.
      destruct (o_trace r) as [|x t] eqn:Et; try discriminate. cbn in Hhd. injection Hhd as Hx0.
      inversion Hbest as [|? ? H1 _]. rewrite opt_objective_spec in H1. cbn [fst] in H1.
      rewrite Hx0, Hst, Hup0 in H1. exact H1.
    - rewrite Eev, <- Eor. fold r.
      destruct (o_trace r) as [|x t] eqn:Et; try discriminate. cbn in Hhd. injection Hhd as Hx0.
      eapply hd_flat_map; [reflexivity|]. rewrite opt_objective_spec. cbn [snd]. rewrite Hx0, Hst, Hup0. reflexivity.
  Qed.

  (** opt as written in the snapshot with log_opt=True: what still holds ... *)
  Theorem opt_log_partial (O : optimiser R) p0 lower upper fixed multinom w d0 :
    opt_snapshot ll_multinom ll_plain O p0 lower upper fixed multinom true = Some w ->
    project_down p0 fixed = Some d0 -> positive d0 ->
    contract true (w_lo w) (w_hi w) (w_start w)
             (fun x => fst (opt_objective ll_multinom ll_plain multinom fixed true x)) (w_oracle w) ->
    agrees (w_x w) fixed /\
    G multinom (subst_fixed p0 fixed) <= w_f w /\
    hd_error (w_evals w) = Some (subst_fixed p0 fixed) /\
    (* the reported optimum is the likelihood of the point the optimiser found ... *)
    w_f w = G multinom (project_up 0 (map exp (o_x (w_oracle w))) fixed) /\
    (* ... but the vector handed back is the start *)
    w_x w = subst_fixed p0 fixed.
  Proof.
    intros Hw Hd Hpos Hc. unfold opt_snapshot in Hw.
    destruct (opt_gen_inv _ _ _ _ _ _ _ _ _ _ Hw) as (lo & hi & d0' & Hlo & Hhi & Hd' & Hrest).
    rewrite Hd in Hd'. inv Hd'. cbv zeta in Hrest.
    destruct Hrest as (Elo & Ehi & Est & Eor & Ef & Ex & Eev).
    destruct Hc as (Hhd & Hbox & Hin & Hval & Hbest).
    set (r := w_oracle w) in *.
    assert (Hst : map exp (w_start w) = d0') by (rewrite Est; apply map_exp_ln; auto).
    assert (Hup0 : project_up 0 d0' fixed = subst_fixed p0 fixed) by (apply up_down_inverse; auto).
    assert (Hx : w_x w = subst_fixed p0 fixed).
    { rewrite Ex. rewrite map_exp_ln by auto. exact Hup0. }
    destruct (o_trace r) as [|x t] eqn:Et; try discriminate. cbn in Hhd. injection Hhd as Hx0.
    repeat split.
    - rewrite Ex. apply project_up_agrees.
    - rewrite Ef, <- Eor. fold r. inversion Hbest as [|? ? H1 _]. rewrite opt_objective_spec in H1. cbn [fst tr] in H1.
      rewrite Hx0, Hst, Hup0 in H1. exact H1.
    - rewrite Eev, <- Eor. fold r. rewrite Et.
      eapply hd_flat_map; [reflexivity|]. rewrite opt_objective_spec. cbn [snd tr]. rewrite Hx0, Hst, Hup0. reflexivity.
    - rewrite Ef, <- Eor. fold r. rewrite Hval, opt_objective_spec. reflexivity.
    - exact Hx.
  Qed.
End OptimProofs.
