(** Point masses, mixtures and their plumbing (Model/DFE.v, real-number instance):
    selection-free totals, what the snapshot passes where, and the refutations. *)
From Coq Require Import ZArith Reals List Bool Lra Lia.
From Dadi Require Import Base.Num Base.NumR Model.DFE Proofs.DFEProofs.
Import ListNotations.
Local Open Scope R_scope.

(** ** list plumbing *)
Lemma but_last_app (l t : list R) k : length t = k -> but_last k (l ++ t) = l.
Proof.
  intros Hk. unfold but_last. rewrite app_length, Hk.
  replace (length l + k - k)%nat with (length l + 0)%nat by lia. rewrite firstn_app_2, app_nil_r. reflexivity.
Qed.
Lemma last_k_app (l t : list R) k : length t = k -> last_k k (l ++ t) = t.
Proof.
  intros Hk. unfold last_k. rewrite app_length, Hk.
  replace (length l + k - k)%nat with (length l) by lia. rewrite skipn_app, skipn_all, Nat.sub_diag. reflexivity.
Qed.
Lemma app_assoc1 (l : list R) a t : l ++ a :: t = (l ++ [a]) ++ t.
Proof. rewrite <- app_assoc. reflexivity. Qed.

Lemma firstn_repeat_le {A} (a : A) n N : (n <= N)%nat -> firstn n (repeat a N) = repeat a n.
Proof. revert N; induction n; intros [|N] Hn; try lia; cbn; auto. f_equal. apply IHn. lia. Qed.
Lemma last_repeat {A} (a d : A) n : (0 < n)%nat -> last (repeat a n) d = a.
Proof. induction n; [lia|]. intros _. destruct n; [reflexivity|]. cbn [repeat last] in *. apply IHn. lia. Qed.

Lemma find_all_from_bound k (g : R) gs i : In i (find_all_from k g gs) -> (k <= i < k + length gs)%nat.
Proof.
  revert k; induction gs as [|x gs IH]; intros k Hi; cbn [find_all_from] in Hi; [contradiction|].
  destruct (neqb x g).
  - destruct Hi as [<-|Hi]; [cbn; lia|]. apply IH in Hi. cbn; lia.
  - apply IH in Hi. cbn; lia.
Qed.
Lemma pick2_bound (g1 g2 : R) gs i1 i2 : pick2 g1 g2 gs = Some (i1, i2) -> (i1 < length gs /\ i2 < length gs)%nat.
Proof.
  unfold pick2. destruct (find_all_from 0 g1 gs) as [|a [|? ?]] eqn:E1; try discriminate.
  destruct (find_all_from 0 g2 gs) as [|b [|? ?]] eqn:E2; try discriminate.
  intros [= <- <-]. split.
  - apply (find_all_from_bound 0 g1 gs). rewrite E1. left; reflexivity.
  - apply (find_all_from_bound 0 g2 gs). rewrite E2. left; reflexivity.
Qed.

(** ** selection-free totals with point masses *)
Lemma map_repeat' {A B} (g : A -> B) a n : map g (repeat a n) = repeat (g a) n.
Proof. induction n; cbn; congruence. Qed.
Lemma Sneg_repeat (S : R) n N : (n <= N)%nat ->
  map (firstn n) (firstn n (repeat (repeat S N) N)) = repeat (repeat S n) n.
Proof.
  intros Hn. rewrite firstn_repeat_le by exact Hn. rewrite map_repeat'. f_equal. apply firstn_repeat_le; exact Hn.
Qed.

Lemma selection_free_pp2d (sym : bool) (theta S rho : R) xs gs W t p1 g1 p2 g2 sq n i1 i2 :
  length xs = n -> (0 < n)%nat -> (n <= length gs)%nat -> length W = n -> Forall (fun r => length r = n) W ->
  length (q1low t) = n -> length (q1high t) = n -> length (q2low t) = n -> length (q2high t) = n ->
  pick2 g1 g2 gs = Some (i1, i2) ->
  point_pos2d sym theta (Some rho) xs gs W (repeat (repeat S (length gs)) (length gs)) t p1 g1 p2 g2 sq
  = Some (theta * S * total_weight_pp2d sym rho xs W t p1 p2 sq).
Proof.
  intros Hx Hn HN HW HF H1 H2 H3 H4 Hp. unfold point_pos2d. rewrite Hp, Hx.
  destruct (pick2_bound _ _ _ _ _ Hp) as [Hi1 Hi2].
  rewrite (Sneg_repeat S n (length gs) HN). numR.
  rewrite (selection_free_2d sym 1 S xs W t n) by assumption.
  unfold entry. rewrite !(nth_repeat' (repeat S (length gs)) []) by assumption.
  rewrite (col_repeat S (length gs) (length gs) i2 Hi2).
  rewrite !firstn_repeat_le by exact HN.
  rewrite zipmul_repeat_r by (rewrite map_length, seq_length; reflexivity).
  rewrite zipmul_repeat_r by (rewrite map_length; exact HW).
  rewrite !(trapz_map_scale S) by (intros; ring). numR. rewrite (nth_repeat' S 0) by assumption.
  f_equal. unfold total_weight_pp2d. rewrite Hx. numR. ring.
Qed.

(** Vourlaki_mixture with every cached spectrum equal to S *)
Lemma selection_free_vourlaki (theta S : R) xs1 gs1 xs2 gs2 w1 wneu1 wdel1 W2 sym t2 w2 wneu2 wdel2 pw gp pc pcp n1' n2' i1 i2 :
  length xs1 = n1' -> (0 < n1')%nat -> length w1 = n1' -> (n1' <= length gs1)%nat ->
  length xs2 = n2' -> (0 < n2')%nat -> (n2' <= length gs2)%nat -> length W2 = n2' -> Forall (fun r => length r = n2') W2 ->
  length (q1low t2) = n2' -> length (q1high t2) = n2' -> length (q2low t2) = n2' -> length (q2high t2) = n2' ->
  length w2 = n2' -> pick2 gp gp gs2 = Some (i1, i2) ->
  vourlaki theta {| c1_xs := xs1; c1_gs := gs1; c1_sp := repeat S (length gs1); c1_neu := S |}
           {| c2_xs := xs2; c2_gs := gs2; c2_S := repeat (repeat S (length gs2)) (length gs2) |}
           w1 wneu1 wdel1 W2 sym t2 w2 wneu2 wdel2 pw gp pc pcp
  = Some (theta * S * (total_weight1d xs1 w1 wneu1 wdel1 * ((1 - pw) * (1 - pc))
                       + total_weight2d sym xs2 W2 t2 * ((1 - pw) * pc * (1 - pcp))
                       + total_weight1d xs2 w2 wneu2 wdel2 * ((1 - pw) * pc * pcp + pw * pc * (1 - pcp))
                       + (pw * (1 - pc) + pw * pc * pcp))).
Proof.
  intros Hx1 Hn1 Hw1 HN1 Hx2 Hn2 HN2 HW HF H1 H2 H3 H4 Hw2 Hp.
  unfold vourlaki. cbn [c1_xs c1_gs c1_sp c1_neu c2_xs c2_gs c2_S]. rewrite Hp.
  destruct (pick2_bound _ _ _ _ _ Hp) as [Hi1 Hi2].
  unfold c2_Sneg. cbn [c2_xs c2_S]. rewrite Hx1, Hx2.
  rewrite (Sneg_repeat S n2' (length gs2) HN2).
  rewrite (firstn_repeat_le S n1' (length gs1) HN1). numR.
  rewrite (selection_free_1d 1 S xs1 w1 wneu1 wdel1 n1' Hw1 Hn1).
  rewrite (selection_free_2d sym 1 S xs2 W2 t2 n2') by assumption.
  unfold entry. rewrite !(nth_repeat' (repeat S (length gs2)) []) by assumption.
  rewrite (col_repeat S (length gs2) (length gs2) i2 Hi2).
  rewrite !firstn_repeat_le by exact HN2.
  rewrite !zipmul_repeat_r by exact Hw2.
  rewrite !(trapz_map_scale S) by (intros; ring).
  rewrite !hd_repeat, !last_repeat by exact Hn2.
  numR. rewrite (nth_repeat' S 0) by assumption.
  f_equal. unfold total_weight1d. numR. ring.
Qed.

(** ** every component with the tails of the grid its trapezoid runs over ([vourlaki_q], [tails_on]) *)
Lemma vourlaki_q_linear Qd (theta : R) s1 s2 w1 W2 sym t2 w2 ab pw gp pc pcp :
  vourlaki_q Qd theta s1 s2 w1 W2 sym t2 w2 ab pw gp pc pcp
  = oscale theta (vourlaki_q Qd 1 s1 s2 w1 W2 sym t2 w2 ab pw gp pc pcp).
Proof. unfold vourlaki_q. apply vourlaki_linear. Qed.

Lemma selection_free_vourlaki_q Qd (theta S : R) xs1 gs1 xs2 gs2 w1 W2 sym t2 w2 ab pw gp pc pcp n1' n2' i1 i2 :
  length xs1 = n1' -> (0 < n1')%nat -> length w1 = n1' -> (n1' <= length gs1)%nat ->
  length xs2 = n2' -> (0 < n2')%nat -> (n2' <= length gs2)%nat -> length W2 = n2' -> Forall (fun r => length r = n2') W2 ->
  length (q1low t2) = n2' -> length (q1high t2) = n2' -> length (q2low t2) = n2' -> length (q2high t2) = n2' ->
  length w2 = n2' -> pick2 gp gp gs2 = Some (i1, i2) ->
  vourlaki_q Qd theta {| c1_xs := xs1; c1_gs := gs1; c1_sp := repeat S (length gs1); c1_neu := S |}
             {| c2_xs := xs2; c2_gs := gs2; c2_S := repeat (repeat S (length gs2)) (length gs2) |}
             w1 W2 sym t2 w2 ab pw gp pc pcp
  = Some (theta * S * (total_weight1d xs1 w1 (Qd ab 0 (Some (0 - last xs1 0))) (Qd ab (0 - hd 0 xs1) None) * ((1 - pw) * (1 - pc))
                       + total_weight2d sym xs2 W2 t2 * ((1 - pw) * pc * (1 - pcp))
                       + total_weight1d xs2 w2 (Qd ab 0 (Some (0 - last xs2 0))) (Qd ab (0 - hd 0 xs2) None)
                         * ((1 - pw) * pc * pcp + pw * pc * (1 - pcp))
                       + (pw * (1 - pc) + pw * pc * pcp))).
Proof.
  intros. unfold vourlaki_q, tails_on, neu_hi, del_lo. cbn [c1_xs c2_xs fst snd].
  erewrite selection_free_vourlaki by eassumption. numR. reflexivity.
Qed.

(** What taking the tails of the mixed-sign components (m4, m7) from ANOTHER grid does: with selection having no effect the
    result moves by theta * S * (weight of the mixed-sign components) * (difference of the tail masses) -- i.e. the pdf
    mass between the bounds of the two grids is dropped or counted twice, unless pchange = 0 or the mixed-sign weights vanish. *)
Lemma vourlaki_foreign_tails (theta S : R) xs1 gs1 xs2 gs2 w1 wneu1 wdel1 W2 sym t2 w2 wneu2 wdel2 wneu' wdel' pw gp pc pcp n1' n2' i1 i2 r r' :
  length xs1 = n1' -> (0 < n1')%nat -> length w1 = n1' -> (n1' <= length gs1)%nat ->
  length xs2 = n2' -> (0 < n2')%nat -> (n2' <= length gs2)%nat -> length W2 = n2' -> Forall (fun r => length r = n2') W2 ->
  length (q1low t2) = n2' -> length (q1high t2) = n2' -> length (q2low t2) = n2' -> length (q2high t2) = n2' ->
  length w2 = n2' -> pick2 gp gp gs2 = Some (i1, i2) ->
  let s1 := {| c1_xs := xs1; c1_gs := gs1; c1_sp := repeat S (length gs1); c1_neu := S |} in
  let s2 := {| c2_xs := xs2; c2_gs := gs2; c2_S := repeat (repeat S (length gs2)) (length gs2) |} in
  vourlaki theta s1 s2 w1 wneu1 wdel1 W2 sym t2 w2 wneu2 wdel2 pw gp pc pcp = Some r ->
  vourlaki theta s1 s2 w1 wneu1 wdel1 W2 sym t2 w2 wneu' wdel' pw gp pc pcp = Some r' ->
  r' - r = theta * S * ((1 - pw) * pc * pcp + pw * pc * (1 - pcp)) * ((wneu' - wneu2) + (wdel' - wdel2)).
Proof.
  intros Hx1 Hn1 Hw1 HN1 Hx2 Hn2 HN2 HW HF H1 H2 H3 H4 Hw2 Hp s1 s2. subst s1 s2.
  rewrite (selection_free_vourlaki theta S xs1 gs1 xs2 gs2 w1 wneu1 wdel1 W2 sym t2 w2 wneu2 wdel2 pw gp pc pcp n1' n2' i1 i2) by assumption.
  rewrite (selection_free_vourlaki theta S xs1 gs1 xs2 gs2 w1 wneu1 wdel1 W2 sym t2 w2 wneu' wdel' pw gp pc pcp n1' n2' i1 i2) by assumption.
  intros [= <-] [= <-]. unfold total_weight1d. numR. ring.
Qed.

Lemma selection_free_mixture (o : oracle) (theta S : R) xs1 gs1 xs2 gs2 params n1' n2' :
  let s1 := {| c1_xs := xs1; c1_gs := gs1; c1_sp := repeat S (length gs1); c1_neu := S |} in
  let s2 := {| c2_xs := xs2; c2_gs := gs2; c2_S := repeat (repeat S (length gs2)) (length gs2) |} in
  let pa := but_last 2 params in let pb := but_last 1 params in
  length xs1 = n1' -> (0 < n1')%nat -> length (pdf1 o pa) = n1' -> (n1' <= length gs1)%nat ->
  length xs2 = n2' -> (0 < n2')%nat -> (n2' <= length gs2)%nat ->
  length (pdf2 o pb) = n2' -> Forall (fun r => length r = n2') (pdf2 o pb) ->
  length (q1low (tl2 o pb)) = n2' -> length (q1high (tl2 o pb)) = n2' ->
  length (q2low (tl2 o pb)) = n2' -> length (q2high (tl2 o pb)) = n2' ->
  mixture o s1 s2 true theta params
  = theta * S * ((1 - last params 0) * total_weight1d xs1 (pdf1 o pa) (fst (tl1 o pa)) (snd (tl1 o pa))
                 + last params 0 * total_weight2d (sym2 o pb) xs2 (pdf2 o pb) (tl2 o pb)).
Proof.
  intros s1 s2 pa pb Hx1 Hn1 Hw1 HN1 Hx2 Hn2 HN2 HW HF H1 H2 H3 H4.
  unfold mixture, c1_integrate, c2_integrate, c2_Sneg. subst s1 s2. cbn [c1_xs c1_gs c1_sp c1_neu c2_xs c2_gs c2_S].
  rewrite Hx1, Hx2. rewrite (Sneg_repeat S n2' (length gs2) HN2), (firstn_repeat_le S n1' (length gs1) HN1).
  fold pa pb.
  rewrite (selection_free_1d theta S xs1 (pdf1 o pa) _ _ n1' Hw1 Hn1).
  rewrite (selection_free_2d (sym2 o pb) theta S xs2 (pdf2 o pb) (tl2 o pb) n2') by assumption.
  numR. ring.
Qed.

(** ** what the snapshot hands to the 2-D cache, and the repaired plumbing *)
Lemma c2_sym_point_pos_plumbing o c (theta : R) sp ppos gpos : sp <> [] ->
  c2_sym_point_pos o c theta (sp ++ [ppos; gpos])
  = c2_point_pos o c theta (Some (last sp 0)) (sp ++ [ppos; gpos; ppos; gpos]).
Proof.
  intros _. unfold c2_sym_point_pos. rewrite but_last_app, last_k_app by reflexivity. numR. reflexivity.
Qed.

Lemma c2_point_pos_plumbing o c (theta : R) rho bp p1 g1 p2 g2 :
  c2_point_pos o c theta rho (bp ++ [p1; g1; p2; g2])
  = point_pos2d (sym2 o bp) theta rho (c2_xs c) (c2_gs c) (pdf2 o bp) (c2_S c) (tl2 o bp) p1 g1 p2 g2 (osqrt o (p1 * p2)).
Proof. unfold c2_point_pos. rewrite but_last_app, last_k_app by reflexivity. numR. reflexivity. Qed.

Lemma last_snoc (l : list R) a d : last (l ++ [a]) d = a.
Proof. apply last_last. Qed.

(** repaired: the 2-D density is evaluated at (shared pdf params ++ [rho]) and the quadrants use rho *)
Lemma mixture_sym_point_pos_repaired o s1 s2 rep1 (theta : R) pdfp rho ppos gpos p2d :
  mixture_sym_point_pos o s1 s2 rep1 true theta (pdfp ++ [rho; ppos; gpos; p2d])
  = opt_mix p2d (c1_point_pos o s1 rep1 true theta None 1 (pdfp ++ [ppos; gpos]))
            (point_pos2d (sym2 o (pdfp ++ [rho])) theta (Some rho) (c2_xs s2) (c2_gs s2) (pdf2 o (pdfp ++ [rho])) (c2_S s2)
                         (tl2 o (pdfp ++ [rho])) ppos gpos ppos gpos (osqrt o (ppos * ppos))).
Proof.
  unfold mixture_sym_point_pos. rewrite but_last_app, last_k_app by reflexivity.
  f_equal. rewrite (app_assoc1 pdfp rho [ppos; gpos]).
  rewrite c2_sym_point_pos_plumbing by (destruct pdfp; discriminate).
  rewrite last_snoc. apply c2_point_pos_plumbing.
Qed.

(** snapshot: the 2-D density receives (pdf params ++ [rho, ppos, gamma_pos]) and the quadrants use gamma_pos as rho *)
Lemma mixture_sym_point_pos_snapshot o s1 s2 rep1 (theta : R) pdfp rho ppos gpos p2d :
  let bp := pdfp ++ [rho; ppos; gpos] in
  mixture_sym_point_pos o s1 s2 rep1 false theta (pdfp ++ [rho; ppos; gpos; p2d])
  = opt_mix p2d (c1_point_pos o s1 rep1 true theta None 1 (pdfp ++ [ppos; gpos]))
            (point_pos2d (sym2 o bp) theta (Some gpos) (c2_xs s2) (c2_gs s2) (pdf2 o bp) (c2_S s2)
                         (tl2 o bp) ppos gpos ppos gpos (osqrt o (ppos * ppos))).
Proof.
  intros bp. unfold mixture_sym_point_pos. rewrite but_last_app, last_k_app by reflexivity.
  f_equal.
  replace (pdfp ++ [rho; ppos; gpos; ppos; gpos]) with (bp ++ [ppos; gpos])
    by (unfold bp; rewrite <- app_assoc; reflexivity).
  rewrite c2_sym_point_pos_plumbing by (unfold bp; destruct pdfp; discriminate).
  replace (last bp 0) with gpos.
  - apply c2_point_pos_plumbing.
  - unfold bp. rewrite (app_assoc1 pdfp rho), (app_assoc1 _ ppos). symmetry. apply last_snoc.
Qed.

(** snapshot: mixture_point_pos hands None to the rho argument -- every call fails *)
Lemma mixture_point_pos_snapshot_fails o s1 s2 rep1 (theta : R) params :
  mixture_point_pos o s1 s2 rep1 false theta params = None.
Proof.
  unfold mixture_point_pos.
  destruct (last_k 6 params) as [|rho [|p1 [|g1 [|p2 [|g2 [|p2d [|? ?]]]]]]]; try reflexivity.
  assert (E : c2_point_pos o s2 theta None (but_last 6 params ++ [rho; p1; g1; p2; g2]) = None).
  { rewrite (app_assoc1 _ rho), c2_point_pos_plumbing. unfold point_pos2d. destruct (pick2 g1 g2 (c2_gs s2)) as [[? ?]|]; reflexivity. }
  rewrite E. unfold opt_mix. destruct (c1_point_pos _ _ _ _ _ _ _ _) as [[[? ?] ?]|]; reflexivity.
Qed.

Lemma mixture_point_pos_repaired o s1 s2 rep1 (theta : R) pdfp rho p1 g1 p2 g2 p2d :
  mixture_point_pos o s1 s2 rep1 true theta (pdfp ++ [rho; p1; g1; p2; g2; p2d])
  = opt_mix p2d (c1_point_pos o s1 rep1 true theta None 1 (pdfp ++ [p1; g1]))
            (point_pos2d (sym2 o (pdfp ++ [rho])) theta (Some rho) (c2_xs s2) (c2_gs s2) (pdf2 o (pdfp ++ [rho])) (c2_S s2)
                         (tl2 o (pdfp ++ [rho])) p1 g1 p2 g2 (osqrt o (p1 * p2))).
Proof.
  unfold mixture_point_pos. rewrite but_last_app, last_k_app by reflexivity.
  f_equal. rewrite (app_assoc1 pdfp rho). apply c2_point_pos_plumbing.
Qed.

(** mixtures with the 1-D point mass repaired are linear in theta *)
Definition st_val (o : option (@pp_state R)) : option R := option_map (fun st => snd st) o.
Lemma opt_mix_scale (theta p2d : R) a b :
  opt_mix p2d (sscale theta a) (oscale theta b) = oscale theta (opt_mix p2d a b).
Proof.
  unfold opt_mix, sscale, oscale. destruct a as [[[gs sp] r]|], b as [x|]; cbn; try reflexivity. f_equal. numR. ring.
Qed.
Lemma mixture_sym_point_pos_linear o s1 s2 rep (theta : R) params :
  mixture_sym_point_pos o s1 s2 true rep theta params = oscale theta (mixture_sym_point_pos o s1 s2 true rep 1 params).
Proof.
  unfold mixture_sym_point_pos.
  destruct (last_k 4 params) as [|rho [|ppos [|gpos [|p2d [|? ?]]]]]; try reflexivity.
  rewrite c1_point_pos_rep_linear, (c2_sym_point_pos_linear o s2 theta). apply opt_mix_scale.
Qed.
Lemma mixture_point_pos_linear o s1 s2 rep (theta : R) params :
  mixture_point_pos o s1 s2 true rep theta params = oscale theta (mixture_point_pos o s1 s2 true rep 1 params).
Proof.
  unfold mixture_point_pos.
  destruct (last_k 6 params) as [|rho [|p1 [|g1 [|p2 [|g2 [|p2d [|? ?]]]]]]]; try reflexivity.
  rewrite c1_point_pos_rep_linear, (c2_point_pos_linear o s2 theta). apply opt_mix_scale.
Qed.

Lemma mixtures_point_mass_repaired_linear o s1 s2 rep (theta : R) params :
  mixture_sym_point_pos o s1 s2 true rep theta params = oscale theta (mixture_sym_point_pos o s1 s2 true rep 1 params) /\
  mixture_point_pos o s1 s2 true rep theta params = oscale theta (mixture_point_pos o s1 s2 true rep 1 params).
Proof. split; [apply mixture_sym_point_pos_linear | apply mixture_point_pos_linear]. Qed.
