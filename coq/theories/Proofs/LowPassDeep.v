(** C18: deep coverage.  In the limit of the coverage statistics (c0 = c1 = s = t = h = 0, pos = 1) the
    corrected model IS the plain projection; and a coverage distribution supported on depths >= D has
    statistics within O(D 2^-D) of that limit. *)
From Coq Require Import ZArith QArith Qreduction List Bool Arith Lia Lqa Setoid Morphisms.
From Dadi Require Import Model.LowPass Proofs.LowPassBinom Proofs.LowPassPart Proofs.LowPassQ Proofs.LowPassProb Proofs.LowPassMat
  Proofs.LowPassCall Proofs.LowPassTens Proofs.LowPassTotal Proofs.LowPassGet.
Import ListNotations.
Local Open Scope Q_scope.

(** ** no-call probabilities in the limit *)
Lemma nocall_part_deep pt :
  nocall_part deep_stats pt == if ((cnt 1 pt =? 0) && (cnt 2 pt =? 0))%nat then 1 else 0.
Proof.
  unfold nocall_part, deep_stats. cbn [st_c0 st_c1 st_s st_t].
  destruct (cnt 1 pt) as [|k1]; destruct (cnt 2 pt) as [|k2];
    cbn [Nat.eqb andb Nat.ltb Nat.leb qpow_pred qpow Nat.sub]; change (qnat 0) with 0; ring.
Qed.

Lemma dot_const (v : Q) {A} (f : A -> Q) : forall (probs : list Q) (pts : list A), length probs = length pts ->
  (forall pt, In pt pts -> f pt == v) -> dot probs (map f pts) == v * qsum probs.
Proof.
  induction probs as [|p probs IH]; intros [|pt pts] L H; try discriminate.
  - unfold dot. cbn. ring.
  - cbn [map]. rewrite dot_cons, qsum_cons, IH; [|cbn in L; lia | intros; apply H; now right].
    rewrite (H pt (or_introl eq_refl)). ring.
Qed.

Lemma nocall_at_deep nseq F af : F_ok F ->
  nocall_at deep_stats nseq F af == if (af =? 0)%nat then 1 else 0.
Proof.
  intros HF. unfold nocall_at. cbv zeta. rewrite Qred_correct.
  pose proof (part_probs_length F (parts nseq af)) as PL.
  destruct (Nat.eqb_spec af 0) as [->|Hne].
  - rewrite (dot_const 1) by (auto; intros pt Hpt; apply parts_spec in Hpt;
      pose proof (counts_of_config pt (config_le2 _ _ _ _ Hpt)) as [C1 C2]; destruct Hpt as (_ & Sm & _ & _);
      rewrite nocall_part_deep; replace (cnt 1 pt) with 0%nat by lia; replace (cnt 2 pt) with 0%nat by lia; reflexivity).
    rewrite part_probs_sum_to_one by (auto; lia). ring.
  - rewrite (dot_const 0); [ring | exact PL |].
    intros pt Hpt. apply parts_spec in Hpt.
    pose proof (counts_of_config pt (config_le2 _ _ _ _ Hpt)) as [C1 C2]. destruct Hpt as (_ & Sm & _ & _).
    rewrite nocall_part_deep. destruct (Nat.eqb_spec (cnt 1 pt) 0), (Nat.eqb_spec (cnt 2 pt) 0); cbn [andb]; try reflexivity. lia.
Qed.

Lemma nth_map_seq (g : nat -> Q) n i : nth i (map g (seq 0 n)) 0 = if (i <? n)%nat then g i else 0.
Proof.
  destruct (Nat.ltb_spec i n).
  - rewrite nth_indep with (d' := g 0%nat) by (rewrite map_length, seq_length; lia).
    rewrite map_nth, seq_nth by lia. reflexivity.
  - apply nth_overflow. rewrite map_length, seq_length. lia.
Qed.

Lemma nocall_1D_deep nseq F i : F_ok F -> nth i (nocall_1D deep_stats nseq F) 0 == if (i =? 0)%nat then 1 else 0.
Proof.
  intros HF. unfold nocall_1D. rewrite nth_map_seq. destruct (Nat.ltb_spec i (nseq + 1)).
  - apply nocall_at_deep, HF.
  - destruct (Nat.eqb_spec i 0); [lia | reflexivity].
Qed.

Definition deep_pop (p : pop) : Prop := p_st p = deep_stats /\ pop_ok p /\ (2 <= p_nseq p)%nat.

Definition is_origin (idx : list nat) : bool := forallb (fun i => (i =? 0)%nat) idx.

Lemma pnc_at_deep : forall pops idx, Forall deep_pop pops -> length idx = length pops ->
  pnc_at pops idx == if is_origin idx then 1 else 0.
Proof.
  unfold pnc_at, pnc_vecs. induction pops as [|p pops IH]; intros idx H L.
  - destruct idx; [reflexivity | discriminate].
  - destruct idx as [|i idx]; [discriminate|]. cbn [map prod_at is_origin forallb].
    inversion H as [|? ? Hp Hps]; subst. destruct Hp as (St & (_ & _ & _ & _ & HF) & _).
    rewrite St, nocall_1D_deep by exact HF. fold (is_origin idx). rewrite IH by (auto; cbn in L; lia).
    destruct (i =? 0)%nat, (is_origin idx); cbn [andb]; ring.
Qed.

Lemma use_sim_deep pops thr idx : Forall deep_pop pops -> length idx = length pops -> 0 <= thr ->
  is_origin idx = false -> use_sim pops thr idx = false.
Proof.
  intros H L Ht Ho. unfold use_sim, use_sim_v. apply negb_false_iff. apply Qle_bool_iff.
  change (prod_at (pnc_vecs pops) idx) with (pnc_at pops idx). rewrite pnc_at_deep by assumption. rewrite Ho. exact Ht.
Qed.

(** ** enough individuals covered, in the limit *)
Lemma enough_deep nseq nsub : Nat.even nseq = true -> Nat.even nsub = true -> (nsub <= nseq)%nat -> (2 <= nseq)%nat ->
  enough deep_stats nseq nsub == 1.
Proof.
  intros E1 E2 Hs H2. unfold enough, deep_stats. cbn [st_c0 st_pos]. cbv zeta. rewrite Qred_correct.
  pose proof (even_half _ E1) as N1. pose proof (even_half _ E2) as N2.
  set (N := (nseq / 2)%nat) in *.
  assert (Hlo : ((nsub + 1) / 2 - 1 <= N - 1)%nat).
  { assert ((nsub + 1) / 2 = nsub / 2)%nat.
    { rewrite <- N2 at 1. rewrite Nat.add_comm, Nat.mul_comm, Nat.div_add by lia. reflexivity. }
    lia. }
  set (lo := ((nsub + 1) / 2 - 1)%nat) in *.
  replace (N - lo)%nat with ((N - 1 - lo) + 1)%nat by lia. rewrite seq_app, map_app, qsum_app.
  rewrite qsum_zero.
  - replace (lo + (N - 1 - lo))%nat with (N - 1)%nat by lia. cbn [seq map]. rewrite qsum_cons, qsum_nil.
    rewrite Nat.sub_diag, binQ_nn, qpow_1. cbn [qpow]. ring.
  - intros cv Hcv. apply in_seq in Hcv. replace (N - 1 - cv)%nat with (S (N - 2 - cv)) by lia. rewrite qpow_0. ring.
Qed.

Lemma pe_tot_deep pops : Forall deep_pop pops -> pe_tot pops == 1.
Proof.
  intros H. unfold pe_tot. rewrite Qred_correct. induction H as [|p pops Hp _ IH]; [reflexivity|].
  cbn [map]. unfold qprod in *. cbn [fold_right]. rewrite IH.
  destruct Hp as (St & (_ & E1 & E2 & Hs & _) & H2). rewrite St, enough_deep by assumption. ring.
Qed.

(** ** the calling-error matrix is the identity in the limit *)
Lemma nth_add_at : forall l i v j, (j < length l)%nat ->
  nth j (add_at i v l) 0 == nth j l 0 + (if (i =? j)%nat then v else 0).
Proof.
  induction l as [|x l IH]; intros i v j H; [cbn in H; lia|].
  destruct i as [|i]; destruct j as [|j]; cbn [add_at nth Nat.eqb].
  - rewrite Qred_correct. reflexivity.
  - ring.
  - ring.
  - apply IH. cbn in H. lia.
Qed.

Lemma nth_scatter_fold : forall cs acc j, (j < length acc)%nat ->
  nth j (fold_left (fun acc c => add_at (fst c) (snd c) acc) cs acc) 0
  == nth j acc 0 + qsum (map (fun c => if (fst c =? j)%nat then snd c else 0) cs).
Proof.
  induction cs as [|c cs IH]; intros acc j H; cbn [fold_left map]; rewrite ?qsum_nil, ?qsum_cons; [ring|].
  rewrite IH by (now rewrite add_at_length). rewrite nth_add_at by exact H. ring.
Qed.

Lemma nth_repeat0 n j : nth j (repeat 0 n) 0 = 0.
Proof. revert j; induction n; destruct j; cbn; auto. Qed.

Lemma binpmf_zero e n : binpmf e n 0 == if (e =? 0)%nat then 1 else 0.
Proof.
  unfold binpmf. destruct e as [|e]; cbn [Nat.eqb].
  - rewrite binQ_n0. cbn [qpow]. setoid_replace (1 - 0) with 1 by ring. rewrite qpow_1. ring.
  - rewrite qpow_0. ring.
Qed.

Lemma binpmf_00 p : binpmf 0 0 p == 1.
Proof. unfold binpmf. cbn [qpow Nat.sub]. rewrite binQ_n0. ring. Qed.

(** contributions of one partition that land on column j, with error probability 0 *)
Lemma cem_contribs_deep af pp j :
  qsum (map (fun c => if (fst c =? j)%nat then snd c else 0) (cem_contribs 0 af pp))
  == if (af =? j)%nat then snd pp else 0.
Proof.
  unfold cem_contribs. cbv zeta. rewrite map_flat_map, qsum_flat_map.
  replace (cnt 1 (fst pp) + 1)%nat with (S (cnt 1 (fst pp))) by lia. rewrite seq0_S. cbn [map]. rewrite qsum_cons.
  rewrite (qsum_zero _ (map S (seq 0 (cnt 1 (fst pp))))).
  - cbn [seq map Nat.add fst snd Nat.sub]. rewrite qsum_cons, qsum_nil. rewrite Nat.add_0_r, Nat.sub_0_r.
    destruct (af =? j)%nat; [|ring]. rewrite binpmf_zero, binpmf_00. cbn [Nat.eqb]. ring.
  - intros e He. apply in_map_iff in He. destruct He as (e' & <- & _). rewrite map_map. cbn [fst snd].
    apply qsum_zero. intros r _. destruct (_ =? j)%nat; [|reflexivity]. rewrite binpmf_zero. cbn [Nat.eqb]. ring.
Qed.

Lemma cem_row_deep nsub F af j : (af <= 2 * (nsub / 2))%nat -> (af <= nsub)%nat -> F_ok F ->
  nth j (cem_row 0 nsub F af) 0 == if (af =? j)%nat then 1 else 0.
Proof.
  intros Haf Han HF. unfold cem_row, scatter. cbv zeta.
  destruct (Nat.ltb_spec j (nsub + 1)) as [Hj|Hj].
  - rewrite nth_scatter_fold by (now rewrite repeat_length). rewrite nth_repeat0.
    rewrite map_flat_map, qsum_flat_map.
    rewrite (qsum_map_ext _ (fun pp => if (af =? j)%nat then snd pp else 0)) by (intros; apply cem_contribs_deep).
    destruct (af =? j)%nat.
    + rewrite combine_snd_sum by (symmetry; apply part_probs_length). rewrite part_probs_sum_to_one by assumption. ring.
    + rewrite qsum_zero by (intros; reflexivity). ring.
  - rewrite nth_overflow.
    + destruct (Nat.eqb_spec af j); [lia | reflexivity].
    + pose proof (cem_row_prob_vector 0 nsub F af ltac:(lra) Haf HF) as (L & _). unfold cem_row, scatter in L. cbv zeta in L. lia.
Qed.

Lemma nth_map_default {A B} (g : A -> B) (l : list A) a (da : A) (db : B) : (a < length l)%nat -> nth a (map g l) db = g (nth a l da).
Proof. intros H. rewrite nth_indep with (d' := g da) by (now rewrite map_length). apply map_nth. Qed.

Lemma cem_deep_entry nsub F a j : Nat.even nsub = true -> F_ok F -> (a < nsub + 1)%nat ->
  nth j (nth a (cem deep_stats nsub F) []) 0 == if (a =? j)%nat then 1 else 0.
Proof.
  intros Ev HF Ha. unfold cem. cbn [deep_stats st_h].
  rewrite (nth_map_default _ _ a 0%nat) by (now rewrite seq_length). rewrite seq_nth by lia. cbn [Nat.add].
  apply cem_row_deep; auto; [rewrite even_half by exact Ev|]; lia.
Qed.

(** ** one population step on entries *)
Lemma qsum_delta (G : nat -> Q) n j : (j < n)%nat ->
  qsum (map (fun a => (if (a =? j)%nat then 1 else 0) * G a) (seq 0 n)) == G j.
Proof.
  intros H. replace n with (j + (1 + (n - j - 1)))%nat by lia. rewrite !seq_app, !map_app, !qsum_app.
  cbn [seq map Nat.add]. rewrite qsum_cons, qsum_nil, Nat.eqb_refl.
  rewrite !qsum_zero; [ring | |]; intros a Ha; apply in_seq in Ha; destruct (Nat.eqb_spec a j); try lia; ring.
Qed.

Lemma nth_map_Qeq (h : Q -> Q) : h 0 == 0 -> forall row j, nth j (map h row) 0 == h (nth j row 0).
Proof.
  intros H0. induction row as [|x row IH]; intros [|j]; cbn [map nth]; try (symmetry; exact H0); try reflexivity. apply IH.
Qed.

Lemma proj_mat_scaled_entry pops p b j : pe_tot pops == 1 ->
  nth j (nth b (proj_mat_scaled pops p) []) 0 == nth j (nth b (proj_matrix (p_nseq p) (p_nsub p) (p_F p)) []) 0.
Proof.
  intros He. unfold proj_mat_scaled, proj_mat_scaled_v.
  change (@nil Q) with (map (fun e => Qred (pe_tot pops * e)) []) at 1. rewrite map_nth.
  rewrite nth_map_Qeq by (rewrite Qred_correct; ring). rewrite Qred_correct, He. ring.
Qed.

Lemma apply_pop_deep d pops ax p (x y : tens d) : (ax < d)%nat -> pe_tot pops == 1 -> deep_pop p ->
  (forall idx, length idx = d -> tget d x idx == tget d y idx) ->
  forall idx, length idx = d ->
  tget d (apply_pop d pops ax p x) idx
  == tget d (tapply d ax (proj_matrix (p_nseq p) (p_nsub p) (p_F p)) (p_nsub p + 1) y) idx.
Proof.
  intros Hax He (St & Hok & H2) Hxy idx Hl. unfold apply_pop, apply_pop_v. change (proj_mat_scaled_v (pe_tot pops) p) with (proj_mat_scaled pops p).
  destruct (heterr_mat_rows p Hok) as [LH _]. destruct (proj_mat_scaled_rows pops p Hok) as [LP _].
  destruct Hok as (_ & E1 & E2 & Hs & HF).
  destruct (proj_matrix_rows _ _ _ Hs E1 HF) as [LP0 _].
  rewrite !tget_tapply by assumption. rewrite LH, LP0.
  set (j := nth ax idx 0%nat). destruct (Nat.ltb_spec j (p_nsub p + 1)) as [Hj|Hj]; [|reflexivity].
  rewrite (qsum_map_ext _ (fun a => (if (a =? j)%nat then 1 else 0) *
             qsum (map (fun b => nth a (nth b (proj_matrix (p_nseq p) (p_nsub p) (p_F p)) []) 0 * tget d y (upd ax b idx)) (seq 0 (p_nseq p + 1))))).
  - rewrite qsum_delta by exact Hj. reflexivity.
  - intros a Ha. apply in_seq in Ha. unfold heterr_mat. rewrite St, cem_deep_entry by (auto; lia).
    destruct (Nat.eqb_spec a j) as [->|Hne]; [|ring].
    rewrite tget_tapply by (auto; now rewrite upd_length). rewrite LP.
    rewrite upd_nth by lia. destruct (Nat.ltb_spec j (p_nsub p + 1)); [|lia].
    apply Qmult_comp; [reflexivity|]. apply qsum_map_ext. intros b _. rewrite upd_upd, proj_mat_scaled_entry by exact He.
    rewrite Hxy by (now rewrite upd_length). reflexivity.
Qed.

Lemma apply_all_deep d pops : pe_tot pops == 1 -> forall ps i (x y : tens d), (i + length ps = d)%nat -> Forall deep_pop ps ->
  (forall idx, length idx = d -> tget d x idx == tget d y idx) ->
  forall idx, length idx = d ->
  tget d (foldi_from (apply_pop d pops) i ps x) idx
  == tget d (foldi_from (fun ax p z => tapply d ax (proj_matrix (p_nseq p) (p_nsub p) (p_F p)) (p_nsub p + 1) z) i ps y) idx.
Proof.
  intros He. induction ps as [|p ps IH]; intros i x y Hd Hps Hxy idx Hl; cbn [foldi_from]; [apply Hxy, Hl|].
  pose proof (Forall_inv Hps) as Hp. pose proof (Forall_inv_tail Hps) as Hps'.
  apply IH; [cbn [length] in Hd; lia | exact Hps' | | exact Hl].
  intros idx' Hl'. apply apply_pop_deep; auto. cbn [length] in Hd. lia.
Qed.

(** ** the theorem *)
Lemma is_origin_app a b : is_origin (a ++ b) = is_origin a && is_origin b.
Proof. unfold is_origin. apply forallb_app. Qed.

Lemma origin_repeat idx : is_origin idx = true -> idx = repeat 0%nat (length idx).
Proof.
  induction idx as [|i idx IH]; intros O; [reflexivity|]. cbn [is_origin forallb] in O. apply andb_true_iff in O. destruct O as [O1 O2].
  apply Nat.eqb_eq in O1. subst i. cbn [length repeat]. f_equal. apply IH, O2.
Qed.

Theorem deep_coverage_plain_projection d pops thr (sim : list nat -> tens d) (model : tens d) :
  length pops = d -> Forall deep_pop pops -> 0 <= thr ->
  tget d model (repeat 0%nat d) == 0 ->
  forall idx, length idx = d ->
  tget d (lowpass d pops thr sim model) idx == tget d (plain_projection d pops model) idx.
Proof.
  intros Hd Hp Ht H0 idx Hl.
  assert (Horig : forall idx', length idx' = d -> is_origin idx' = true -> tget d model idx' == 0).
  { intros idx' L O. rewrite (origin_repeat idx' O), L. exact H0. }
  change (lowpass d pops thr sim model)
    with (tfoldi d (fun idx' m acc => if use_sim pops thr idx' then tadd d acc (tscale d m (sim idx')) else acc) [] model
                 (apply_all d pops (analytic0 d pops thr model))).
  (* the simulated part adds nothing *)
  assert (S1 : forall start, tget d (tfoldi d (fun idx' m acc => if use_sim pops thr idx' then tadd d acc (tscale d m (sim idx')) else acc) [] model start) idx
                             == tget d start idx).
  { intros start.
    apply (tfoldi_inv (fun acc => tget d acc idx == tget d start idx)); [|reflexivity].
    apply talli_of_tget. intros idx' L a Ha. cbn [app].
    destruct (use_sim pops thr idx') eqn:U; [|exact Ha].
    destruct (is_origin idx') eqn:O.
    - rewrite tget_tadd, tget_tscale, Ha, (Horig idx' L O). ring.
    - rewrite use_sim_deep in U by (auto; congruence). discriminate. }
  rewrite S1. unfold apply_all, plain_projection.
  apply (apply_all_deep d pops (pe_tot_deep pops Hp) pops 0%nat); [cbn [Nat.add]; exact Hd | exact Hp | | exact Hl].
  (* the analytic part starts from the model itself *)
  intros idx' L.
  change (analytic0 d pops thr model)
    with (tmapi d (fun idx m => if use_sim pops thr idx then 0 else m * (1 - pnc_at pops idx)) [] model).
  apply tmapi_fix_tget. apply talli_of_tget. intros i2 L2. cbn [app].
  destruct (is_origin i2) eqn:O.
  - pose proof (Horig i2 L2 O) as Z. destruct (use_sim pops thr i2); rewrite Z; ring.
  - rewrite use_sim_deep by (auto; congruence). rewrite pnc_at_deep by (auto; congruence). rewrite O. ring.
Qed.

(** ** how far a deep coverage distribution is from the limit: every individual has depth >= D.
    The statistics (hence, polynomially, the whole correction) are within O(D 2^-D) of [deep_stats]. *)
Lemma wsum_le_supp (f g : nat -> Q) : forall cov d, (forall c, In c cov -> 0 <= c) ->
  (forall k c, nth_error cov k = Some c -> c == 0 \/ f (d + k)%nat <= g (d + k)%nat) ->
  wsum f d cov <= wsum g d cov.
Proof.
  induction cov as [|c cov IH]; intros d P H; cbn [wsum]; [lra|].
  assert (0 <= c) by (apply P; now left).
  assert (c * f d <= c * g d).
  { destruct (H 0%nat c eq_refl) as [Z|L]; [rewrite Z; lra | rewrite Nat.add_0_r in L; nra]. }
  assert (wsum f (S d) cov <= wsum g (S d) cov).
  { apply IH; [intros; apply P; now right|]. intros k c' Hk. replace (S d + k)%nat with (d + S k)%nat by lia. apply H. exact Hk. }
  lra.
Qed.

Lemma half_pow_mono : forall k D, (D <= k)%nat -> qpow half k <= qpow half D.
Proof.
  intros k D H. replace k with ((k - D) + D)%nat by lia. rewrite qpow_add.
  pose proof (qpow_le1 half (k - D) half_unit). pose proof (half_pow_nonneg D). pose proof (half_pow_nonneg (k - D)). nra.
Qed.

Lemma d_half_pow_mono : forall k D, (1 <= D)%nat -> (D <= k)%nat -> qnat k * qpow half k <= qnat D * qpow half D.
Proof.
  intros k D H1 H. induction H as [|k H IH]; [lra|].
  eapply Qle_trans; [|exact IH]. rewrite qpow_S, qnat_S.
  pose proof (half_pow_nonneg k). assert (1 <= qnat k) by (change 1 with (qnat 1); unfold qnat; rewrite <- Zle_Qle; lia).
  unfold half in *. set (u := qpow (1 # 2) k) in *. nra.
Qed.

Definition supported_from (D : nat) (cov : list Q) : Prop := forall k, (k < D)%nat -> nth k cov 0 == 0.

Lemma supported_nth_error D cov k c : supported_from D cov -> nth_error cov k = Some c -> c == 0 \/ (D <= k)%nat.
Proof.
  intros S E. destruct (Nat.lt_ge_cases k D) as [L|G]; [left|now right].
  specialize (S k L). rewrite (nth_error_nth _ _ _ E) in S. exact S.
Qed.

Theorem deep_coverage_stats_bound cov D : cov_ok cov -> supported_from D cov -> (2 <= D)%nat ->
  let st := stats_of cov in
  st_c0 st == 0 /\ st_c1 st == 0 /\ st_pos st == 1 /\
  0 <= st_s st <= qpow half D /\ 0 <= st_t st <= qnat D * qpow half D /\ 0 <= st_h st <= 2 * qpow half D.
Proof.
  intros OK Sp HD. pose proof (stats_of_valid cov OK) as V. destruct OK as (P & T & Pos). cbv zeta.
  assert (C0 : st_c0 (stats_of cov) == 0) by (cbn [stats_of st_c0]; apply Sp; lia).
  assert (C1 : st_c1 (stats_of cov) == 0) by (cbn [stats_of st_c1]; apply Sp; lia).
  pose proof (vs_tot _ V) as Tot. split; [exact C0|]. split; [exact C1|]. split; [lra|].
  assert (Ppos : qsum (tl cov) == 1) by (cbn [stats_of st_pos st_c0] in Tot, C0; rewrite Qred_correct in Tot; lra).
  split; [|split].
  - split; [apply (vs_s _ V)|]. cbn [stats_of st_s]. rewrite Qred_correct.
    rewrite <- (Qmult_1_r (qpow half D)), <- T, <- (wsum_const (qpow half D) cov 0).
    apply wsum_le_supp; [exact P|]. intros k c E. destruct (supported_nth_error D cov k c Sp E); [now left|right]. apply half_pow_mono. lia.
  - split; [apply (vs_t _ V)|]. cbn [stats_of st_t]. rewrite Qred_correct.
    rewrite <- (Qmult_1_r (qnat D * qpow half D)), <- T, <- (wsum_const (qnat D * qpow half D) cov 0).
    apply wsum_le_supp; [exact P|]. intros k c E. destruct (supported_nth_error D cov k c Sp E); [now left|right]. apply d_half_pow_mono; lia.
  - split; [apply (vs_h _ V)|]. cbn [stats_of st_h]. rewrite Qred_correct.
    assert (N : forall c, In c (map (fun c => c / qsum (tl cov)) (tl cov)) -> 0 <= c).
    { intros c Hc. apply in_map_iff in Hc. destruct Hc as (x & <- & Hx).
      assert (0 <= x) by (apply P; destruct cov; [destruct Hx | now right]).
      unfold Qdiv. apply Qmult_le_0_compat; [assumption | apply Qinv_le_0_compat; lra]. }
    assert (B : wsum (fun d => qpow half d) 1 (map (fun c => c / qsum (tl cov)) (tl cov)) <= qpow half D).
    { assert (E1 : qsum (tl cov) / qsum (tl cov) == 1) by (field; lra).
      eapply Qle_trans; [apply (wsum_le_supp _ (fun _ => qpow half D)); [exact N|] | rewrite wsum_const, qsum_map_div, E1; lra].
      intros k c E.
      rewrite nth_error_map in E. destruct (nth_error (tl cov) k) as [c0|] eqn:E0; [|discriminate]. cbn [option_map] in E. injection E as <-.
      assert (E' : nth_error cov (S k) = Some c0) by (destruct cov; [destruct k; discriminate | exact E0]).
      destruct (supported_nth_error D cov (S k) c0 Sp E') as [Z|G]; [left; rewrite Z; unfold Qdiv; ring | right; apply half_pow_mono; lia]. }
    lra.
Qed.
