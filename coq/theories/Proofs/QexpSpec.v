(** * QexpSpec: error bound of the rational exponential [Qexp] of Base/NumQ.v (the [nexp] slot of the
    dictionaries NumQ and NumD) against the real exponential.

    Qexp_pos a (a >= 0):  k = max 0 (log2 num - log2 den + 2),  xf = floor(a 2^160 / 2^k)  (so xf/2^160 <= 1/2),
    26-term Taylor polynomial in 160-bit fixed point (two truncations per term), k squarings (one truncation each).
    Result:  exp a (1 - 2^k eps0) <= Qexp_pos a <= exp a,  eps0 = 2^-119 + 106 2^-160 (the Taylor remainder
    dominates); Qexp of a negative argument is the reciprocal.  For |x| <= 2^16: relative error <= 2^-99. *)
From Coq Require Import ZArith QArith Qreduction Qabs Qreals Reals Lia Lra Psatz.
From Interval Require Import Tactic.
From Dadi Require Import Base.Num Base.NumQ.
Local Open Scope R_scope.

Definition U : R := IZR fp1.
Lemma fp1_pos : (0 < fp1)%Z. Proof. vm_compute. reflexivity. Qed.
Lemma U_pos : 0 < U. Proof. apply IZR_lt, fp1_pos. Qed.
Lemma U_val : U = 2 ^ 160. Proof. unfold U. rewrite pow_IZR. f_equal. Qed.

(** ** floors *)
Lemma Zdiv_R a b : (0 < b)%Z -> IZR a / IZR b - 1 < IZR (a / b) <= IZR a / IZR b.
Proof.
  intro Hb. pose proof (Z.div_mod a b ltac:(lia)) as Hd.
  destruct (Z.mod_pos_bound a b Hb) as [Hr0 Hr1].
  assert (Hb' : 0 < IZR b) by (apply IZR_lt; lia).
  assert (E : IZR a / IZR b = IZR (a / b) + IZR (a mod b) / IZR b).
  { rewrite Hd at 1. rewrite plus_IZR, mult_IZR. field. lra. }
  apply IZR_le in Hr0. apply IZR_lt in Hr1.
  assert (H : 0 <= IZR (a mod b) / IZR b < 1).
  { split.
    - apply Rmult_le_pos; [lra | left; apply Rinv_0_lt_compat; lra].
    - apply Rmult_lt_reg_r with (IZR b); [lra |]. unfold Rdiv. rewrite Rmult_assoc, Rinv_l by lra. lra. }
  lra.
Qed.

Lemma fmul_R a b : IZR a * IZR b / U - 1 < IZR (fmul a b) <= IZR a * IZR b / U.
Proof.
  unfold fmul. rewrite Z.shiftr_div_pow2 by (unfold fp; lia). change (2 ^ fp)%Z with fp1.
  pose proof (Zdiv_R (a * b) fp1 fp1_pos) as H. rewrite mult_IZR in H. exact H.
Qed.
Lemma fmul_nonneg a b : (0 <= a)%Z -> (0 <= b)%Z -> (0 <= fmul a b)%Z.
Proof. intros Ha Hb. unfold fmul. apply Z.shiftr_nonneg. nia. Qed.

(** ** the Taylor loop *)
Fixpoint Rtaylor (n : nat) (k : R) (y term acc : R) : R :=
  match n with O => acc | S m => let t' := term * y / k in Rtaylor m (k + 1) y t' (acc + t') end.

Lemma Rtaylor_scale : forall n k y c t a, Rtaylor n k y (c * t) (c * a) = c * Rtaylor n k y t a.
Proof.
  induction n as [| n IH]; intros k y c t a; cbn [Rtaylor]; [reflexivity |].
  rewrite <- IH. f_equal; unfold Rdiv; ring.
Qed.

Lemma taylor_inv : forall n k x term acc tR aR e E y,
  (1 <= k)%Z -> (0 <= x)%Z -> (0 <= term)%Z -> y = IZR x / U -> 0 <= y <= 1 / 2 -> 0 <= e <= 4 ->
  tR - e <= IZR term <= tR -> aR - E <= IZR acc <= aR ->
  Rtaylor n (IZR k) y tR aR - E - 4 * INR n <= IZR (fexp_taylor n k x term acc) <= Rtaylor n (IZR k) y tR aR.
Proof.
  induction n as [| n IH]; intros k x term acc tR aR e E y Hk Hx Hterm Hy Hy2 He HtR HaR.
  - cbn [Rtaylor fexp_taylor INR]. lra.
  - cbn [Rtaylor fexp_taylor]. rewrite S_INR.
    set (f1 := fmul term x). set (term' := (f1 / k)%Z).
    assert (Hk' : 0 < IZR k) by (apply IZR_lt; lia).
    assert (Hf1 : (0 <= f1)%Z) by (apply fmul_nonneg; assumption).
    assert (Ht' : (0 <= term')%Z) by (apply Z.div_pos; lia).
    pose proof (fmul_R term x) as HF. fold f1 in HF.
    replace (IZR term * IZR x / U) with (IZR term * y) in HF by (rewrite Hy; unfold Rdiv; ring).
    pose proof (Zdiv_R f1 k ltac:(lia)) as HP. fold term' in HP.
    set (ik := / IZR k) in *.
    assert (Hik : 0 < ik <= 1).
    { split; [apply Rinv_0_lt_compat, Hk' |]. unfold ik. rewrite <- Rinv_1.
      apply Rinv_le_contravar; [lra | apply IZR_le; lia]. }
    unfold Rdiv in HP. fold ik in HP. unfold Rdiv. fold ik.
    assert (HT0 : 0 <= IZR term) by (apply IZR_le; lia).
    set (T := IZR term) in *. set (F := IZR f1) in *. set (P := IZR term') in *.
    assert (Hup : P <= tR * y * ik).
    { assert (F * ik <= T * y * ik) by (apply Rmult_le_compat_r; lra).
      assert (T * y * ik <= tR * y * ik).
      { apply Rmult_le_compat_r; [lra |]. apply Rmult_le_compat_r; lra. }
      lra. }
    assert (Hlo : tR * y * ik - (e / 2 + 2) <= P).
    { assert (H1 : (T * y - 1) * ik <= F * ik) by (apply Rmult_le_compat_r; lra).
      assert (H2 : (tR - e) * y * ik <= T * y * ik).
      { apply Rmult_le_compat_r; [lra |]. apply Rmult_le_compat_r; lra. }
      assert (H3 : e * y * ik <= e * (1 / 2) * 1).
      { apply Rmult_le_compat; try lra.
        - apply Rmult_le_pos; lra.
        - apply Rmult_le_compat_l; lra. }
      lra. }
    replace (IZR k + 1) with (IZR (k + 1)) by (rewrite plus_IZR; reflexivity).
    assert (IHn := IH (k + 1)%Z x term' (acc + term')%Z (tR * y * ik) (aR + tR * y * ik) (e / 2 + 2) (E + (e / 2 + 2)) y).
    rewrite plus_IZR in IHn. fold P in IHn.
    assert (G : Rtaylor n (IZR (k + 1)) y (tR * y * ik) (aR + tR * y * ik) - (E + (e / 2 + 2)) - 4 * INR n <=
                IZR (fexp_taylor n (k + 1) x term' (acc + term')) <=
                Rtaylor n (IZR (k + 1)) y (tR * y * ik) (aR + tR * y * ik)).
    { apply IHn; try assumption; try lia; lra. }
    lra.
Qed.

(** the ideal loop is the partial sum of the exponential series *)
Definition expterm (y : R) (i : nat) : R := / INR (fact i) * y ^ i.

Lemma Rtaylor_sum : forall n j y,
  Rtaylor n (INR (S j)) y (expterm y j) (sum_f_R0 (expterm y) j) = sum_f_R0 (expterm y) (j + n).
Proof.
  induction n as [| n IH]; intros j y; cbn [Rtaylor].
  - rewrite Nat.add_0_r. reflexivity.
  - replace (j + S n)%nat with (S j + n)%nat by lia. rewrite <- IH.
    assert (Hf : INR (fact j) <> 0) by apply INR_fact_neq_0.
    assert (Hs : INR (S j) <> 0) by (apply not_0_INR; lia).
    assert (Et : expterm y j * y / INR (S j) = expterm y (S j)).
    { unfold expterm. rewrite fact_simpl, mult_INR. cbn [pow]. field; try split; assumption. }
    rewrite Et. cbn [sum_f_R0]. f_equal.
Qed.

Lemma T26_sum y : Rtaylor 26 1 y 1 1 = sum_f_R0 (expterm y) 26.
Proof.
  pose proof (Rtaylor_sum 26 0 y) as H. cbn [Nat.add] in H. rewrite <- H.
  assert (E0 : expterm y 0 = 1) by (unfold expterm; cbn [fact pow INR]; field).
  cbn [sum_f_R0]. rewrite E0. cbn [INR]. reflexivity.
Qed.

Lemma T26_le_exp y : 0 <= y -> Rtaylor 26 1 y 1 1 <= exp y.
Proof.
  intro Hy. rewrite T26_sum. apply sum_incr.
  - unfold exp. destruct (exist_exp y) as [l Hl]. cbn [proj1_sig]. exact Hl.
  - intro n. unfold expterm. apply Rmult_le_pos; [left; apply Rinv_0_lt_compat, INR_fact_lt_0 | apply pow_le, Hy].
Qed.

Lemma T26_near_exp y : 0 <= y <= 1 / 2 -> Rabs (Rtaylor 26 1 y 1 1 - exp y) <= / 2 ^ 119.
Proof.
  intro Hy. cbn [Rtaylor].
  interval with (i_prec 180, i_taylor y, i_degree 30).
Qed.

(** ** the squarings *)
Lemma exp_le x y : x <= y -> exp x <= exp y.
Proof. intros [H | ->]; [left; apply exp_increasing, H | lra]. Qed.
Lemma exp_ge1 w : 0 <= w -> 1 <= exp w.
Proof. intro H. pose proof (exp_ineq1_le w). lra. Qed.

Lemma square_inv : forall n y w eta, (0 <= y)%Z -> 0 <= w -> 0 <= eta ->
  exp w * (1 - eta) <= IZR y / U <= exp w ->
  exp (2 ^ n * w) * (1 - 2 ^ n * (eta + / U)) <= IZR (fsquare_n n y) / U <= exp (2 ^ n * w).
Proof.
  pose proof U_pos as HU. assert (HiU : 0 < / U) by (apply Rinv_0_lt_compat, HU).
  induction n as [| n IH]; intros y w eta Hy Hw Heta Hr.
  - cbn [fsquare_n pow]. rewrite !Rmult_1_l. pose proof (exp_pos w) as Hp.
    assert (exp w * (1 - (eta + / U)) <= exp w * (1 - eta)) by (apply Rmult_le_compat_l; lra). lra.
  - cbn [fsquare_n].
    replace (2 ^ S n * w) with (2 ^ n * (2 * w)) by (cbn [pow]; ring).
    replace (2 ^ S n * (eta + / U)) with (2 ^ n * ((2 * eta + / U) + / U)) by (cbn [pow]; ring).
    apply IH; [apply fmul_nonneg; assumption | lra | lra |].
    pose proof (exp_ge1 w Hw) as HG. set (G := exp w) in *.
    replace (exp (2 * w)) with (G * G) by (unfold G; rewrite <- exp_plus; f_equal; ring).
    pose proof (fmul_R y y) as HF. set (f := fmul y y) in *.
    assert (Hf0 : 0 <= IZR f) by (apply IZR_le, fmul_nonneg; assumption).
    set (r := IZR y / U) in *.
    assert (Hr0 : 0 <= r) by (unfold r; apply Rmult_le_pos; [apply IZR_le, Hy | lra]).
    assert (Err : IZR y * IZR y / U / U = r * r) by (unfold r; field; lra).
    assert (HF' : r * r - / U < IZR f / U <= r * r).
    { rewrite <- Err. split.
      - assert (H : (IZR y * IZR y / U - 1) * / U < IZR f * / U) by (apply Rmult_lt_compat_r; lra).
        unfold Rdiv in *. lra.
      - apply Rmult_le_compat_r; lra. }
    assert (HGG : 1 <= G * G) by nra.
    split.
    + destruct (Rle_lt_dec eta 1) as [He1 | He1].
      * assert (H1 : G * (1 - eta) * (G * (1 - eta)) <= r * r) by (apply Rmult_le_compat; nra).
        assert (H2 : G * G * (1 - 2 * eta) <= G * (1 - eta) * (G * (1 - eta))) by nra.
        assert (H3 : / U <= G * G * / U) by nra.
        nra.
      * assert (H1 : G * G * (1 - (2 * eta + / U)) <= 0) by nra.
        assert (0 <= IZR f / U) by (apply Rmult_le_pos; lra). lra.
    + assert (r * r <= G * G) by (apply Rmult_le_compat; lra). lra.
Qed.

(** ** assembly *)
Lemma fexp_taylor_nonneg : forall n k x term acc,
  (1 <= k)%Z -> (0 <= x)%Z -> (0 <= term)%Z -> (0 <= acc)%Z -> (0 <= fexp_taylor n k x term acc)%Z.
Proof.
  induction n as [| n IH]; intros k x term acc Hk Hx Ht Ha; cbn [fexp_taylor]; [exact Ha |].
  assert (0 <= fmul term x / k)%Z by (apply Z.div_pos; [apply fmul_nonneg; assumption | lia]).
  apply IH; lia.
Qed.

Lemma Q2R_of_fix z : Q2R (of_fix z) = IZR z / U.
Proof.
  unfold of_fix. rewrite (Qeq_eqR _ _ (Qred_correct _)). unfold Q2R. cbn [Qnum Qden].
  rewrite (Z2Pos.id fp1 fp1_pos). reflexivity.
Qed.

(** number of halvings / squarings chosen by [Qexp_pos] *)
Definition Qexp_k (a : Q) : Z :=
  match Qnum a with Z0 => 0%Z | _ => Z.max 0 (Z.log2 (Qnum a) - Z.log2 (Zpos (Qden a)) + 2) end.

Lemma red_half a : (0 <= Qnum a)%Z -> (0 <= Qexp_k a)%Z /\ (2 * Qnum a <= Zpos (Qden a) * 2 ^ Qexp_k a)%Z.
Proof.
  intro Hn. unfold Qexp_k. set (n := Qnum a) in *. set (d := Zpos (Qden a)).
  assert (Hd : (0 < d)%Z) by (unfold d; lia).
  destruct n as [| p | p] eqn:En; [cbn; lia | | lia].
  rewrite <- En in *. assert (Hp : (0 < n)%Z) by lia.
  set (k := Z.max 0 (Z.log2 n - Z.log2 d + 2)).
  split; [unfold k; lia |].
  destruct (Z.log2_spec n Hp) as [_ Hn2]. destruct (Z.log2_spec d Hd) as [Hd1 _].
  pose proof (Z.log2_nonneg n) as Hln. pose proof (Z.log2_nonneg d) as Hld.
  assert (H1 : (2 ^ (Z.log2 n + 2) <= 2 ^ Z.log2 d * 2 ^ k)%Z).
  { rewrite <- Z.pow_add_r by (unfold k; lia). apply Z.pow_le_mono_r; unfold k; lia. }
  assert (H2 : (2 ^ (Z.log2 n + 2) = 2 * 2 ^ Z.succ (Z.log2 n))%Z).
  { replace (Z.log2 n + 2)%Z with (1 + Z.succ (Z.log2 n))%Z by lia. rewrite Z.pow_add_r by lia. reflexivity. }
  assert (H3 : (0 < 2 ^ k)%Z) by (apply Z.pow_pos_nonneg; unfold k; lia).
  assert (H4 : (2 ^ Z.log2 d * 2 ^ k <= d * 2 ^ k)%Z) by (apply Z.mul_le_mono_nonneg_r; lia).
  lia.
Qed.

Definition eps0 : R := / 2 ^ 119 + 106 / U.

Theorem Qexp_pos_spec : forall a : Q, (0 <= Qnum a)%Z ->
  exp (Q2R a) * (1 - 2 ^ Z.to_nat (Qexp_k a) * eps0) <= Q2R (Qexp_pos a) <= exp (Q2R a).
Proof.
  intros a Hn. pose proof U_pos as HU. assert (HiU : 0 < / U) by (apply Rinv_0_lt_compat, HU).
  unfold Qexp_pos. fold (Qexp_k a). cbv zeta.
  destruct (red_half a Hn) as [Hk0 Hhalf].
  set (k := Qexp_k a) in *. set (n := Qnum a) in *. set (d := Zpos (Qden a)) in *.
  assert (Hd : (0 < d)%Z) by (unfold d; lia).
  assert (H2k : (0 < 2 ^ k)%Z) by (apply Z.pow_pos_nonneg; lia).
  set (D := (d * 2 ^ k)%Z) in *. assert (HD : (0 < D)%Z) by (unfold D; nia).
  set (xf := (n * fp1 / D)%Z).
  assert (Hxf0 : (0 <= xf)%Z) by (apply Z.div_pos; [pose proof fp1_pos; nia | lia]).
  assert (HDr : 0 < IZR D) by (apply IZR_lt, HD).
  set (w := IZR n / IZR D).
  assert (Hw0 : 0 <= w) by (apply Rmult_le_pos; [apply IZR_le, Hn | left; apply Rinv_0_lt_compat, HDr]).
  assert (HwD : w * IZR D = IZR n) by (unfold w; field; lra).
  assert (Hwh : w <= 1 / 2).
  { apply IZR_le in Hhalf. rewrite mult_IZR in Hhalf. nra. }
  pose proof (Zdiv_R (n * fp1) D HD) as Hx. fold xf in Hx.
  replace (IZR (n * fp1) / IZR D) with (U * w) in Hx by (rewrite mult_IZR; unfold w, U; field; lra).
  set (y := IZR xf / U).
  assert (HyU : IZR xf = y * U) by (unfold y; field; lra).
  assert (Hy0 : 0 <= y) by (apply Rmult_le_pos; [apply IZR_le, Hxf0 | lra]).
  assert (Hyw : w - / U < y <= w).
  { assert (E1 : / U * U = 1) by (apply Rinv_l; lra). split; nra. }
  (* the Taylor loop *)
  set (t := fexp_taylor 26 1 xf fp1 fp1).
  assert (Ht0 : (0 <= t)%Z) by (apply fexp_taylor_nonneg; pose proof fp1_pos; lia).
  pose proof (taylor_inv 26 1 xf fp1 fp1 U U 0 0 y) as HT. fold t in HT.
  assert (HT' : Rtaylor 26 1 y U U - 0 - 4 * INR 26 <= IZR t <= Rtaylor 26 1 y U U).
  { apply HT; try lia; try lra; try reflexivity; try (pose proof fp1_pos; lia); fold U; lra. }
  clear HT.
  assert (E26 : INR 26 = 26) by (rewrite INR_IZR_INZ; reflexivity).
  rewrite E26 in HT'.
  assert (Esc : Rtaylor 26 1 y U U = U * Rtaylor 26 1 y 1 1) by (rewrite <- Rtaylor_scale; f_equal; ring).
  rewrite Esc in HT'.
  pose proof (T26_le_exp y Hy0) as HP1. pose proof (T26_near_exp y ltac:(lra)) as HP2.
  set (P := Rtaylor 26 1 y 1 1) in *.
  assert (HP3 : exp y - / 2 ^ 119 <= P) by (unfold Rabs in HP2; destruct (Rcase_abs (P - exp y)); lra).
  set (r0 := IZR t / U).
  assert (Hr0 : P - 104 / U <= r0 <= P).
  { assert (E1 : U * P * / U = P) by (field; lra).
    assert (E2 : (U * P - 104) * / U = P - 104 / U) by (field; lra).
    assert (H1 : IZR t * / U <= U * P * / U) by (apply Rmult_le_compat_r; lra).
    assert (H2 : (U * P - 104) * / U <= IZR t * / U) by (apply Rmult_le_compat_r; lra).
    unfold r0, Rdiv in *. lra. }
  pose proof (exp_ge1 w Hw0) as HG1.
  assert (HyG : exp w * (1 - / U) <= exp y <= exp w).
  { split; [| apply exp_le; lra].
    replace y with (w + (y - w)) at 1 by ring. rewrite exp_plus.
    pose proof (exp_ineq1_le (y - w)) as H1. pose proof (exp_pos w) as H2.
    apply Rmult_le_compat_l; lra. }
  set (G := exp w) in *.
  set (eta0 := / 2 ^ 119 + 105 / U).
  assert (Hc : 0 < / 2 ^ 119) by (apply Rinv_0_lt_compat, pow_lt; lra).
  assert (Hr : G * (1 - eta0) <= IZR t / U <= G).
  { fold r0. split; [| lra]. unfold eta0.
    assert (H1 : / 2 ^ 119 + 104 / U <= G * (/ 2 ^ 119 + 104 / U)).
    { assert (0 <= / 2 ^ 119 + 104 / U) by (unfold Rdiv; nra). nra. }
    unfold Rdiv in *. nra. }
  assert (Heta : 0 <= eta0) by (unfold eta0, Rdiv; nra).
  pose proof (square_inv (Z.to_nat k) t w eta0 Ht0 Hw0 Heta Hr) as HS.
  rewrite Q2R_of_fix.
  assert (Ea : 2 ^ Z.to_nat k * w = Q2R a).
  { unfold w, D, Q2R. fold n. change (QDen a) with d. rewrite mult_IZR.
    rewrite <- (Z2Nat.id k Hk0) at 2. rewrite <- pow_IZR.
    assert (0 < IZR d) by (apply IZR_lt, Hd).
    assert (0 < 2 ^ Z.to_nat k) by (apply pow_lt; lra).
    field. split; lra. }
  rewrite Ea in HS.
  replace (eta0 + / U) with eps0 in HS by (unfold eps0, eta0, Rdiv; ring).
  exact HS.
Qed.

Lemma Qexp_k_bound a B : (0 <= Qnum a)%Z -> (0 <= B)%Z -> (Qnum a <= 2 ^ B * Zpos (Qden a))%Z ->
  (0 <= Qexp_k a <= B + 2)%Z.
Proof.
  intros Hn HB Hle. unfold Qexp_k. set (n := Qnum a) in *. set (d := Zpos (Qden a)) in *.
  assert (Hd : (0 < d)%Z) by (unfold d; lia).
  destruct n as [| p | p] eqn:En; [lia | | lia].
  rewrite <- En in *. assert (Hp : (0 < n)%Z) by lia.
  destruct (Z.log2_spec n Hp) as [Hn1 _]. destruct (Z.log2_spec d Hd) as [_ Hd2].
  pose proof (Z.log2_nonneg n) as Hln. pose proof (Z.log2_nonneg d) as Hld.
  assert (H0 : (0 < 2 ^ B)%Z) by (apply Z.pow_pos_nonneg; lia).
  assert (H1 : (2 ^ Z.log2 n < 2 ^ (B + Z.succ (Z.log2 d)))%Z).
  { rewrite Z.pow_add_r by lia. nia. }
  apply Z.pow_lt_mono_r_iff in H1; lia.
Qed.

Lemma eps0_small : 2 ^ 18 * eps0 <= / 2 ^ 100.
Proof. unfold eps0. rewrite U_val. lra. Qed.

(** relative error of [Qexp] on |x| <= 2^16 *)
Theorem Qexp_spec : forall x : Q, (Qabs x <= 65536)%Q ->
  Rabs (Q2R (Qexp x) - exp (Q2R x)) <= exp (Q2R x) / 2 ^ 99.
Proof.
  intros x Hx. apply Qabs_Qle_condition in Hx. destruct Hx as [Hx1 Hx2].
  assert (Hpow : forall k, (0 <= k <= 18)%Z -> 2 ^ Z.to_nat k * eps0 <= / 2 ^ 100).
  { intros k Hk. eapply Rle_trans; [| apply eps0_small].
    apply Rmult_le_compat_r.
    - unfold eps0, Rdiv. pose proof U_pos.
      assert (0 < / U) by (apply Rinv_0_lt_compat; lra).
      assert (0 < / 2 ^ 119) by (apply Rinv_0_lt_compat, pow_lt; lra). nra.
    - replace 18%nat with (Z.to_nat 18) by reflexivity. apply Rle_pow; [lra | lia]. }
  unfold Qexp. destruct (Qnum x) as [| p | p] eqn:En.
  - (* x = 0 *)
    assert (Hn : (0 <= Qnum x)%Z) by lia.
    destruct (Qexp_pos_spec x Hn) as [L Up].
    assert (Hk : (0 <= Qexp_k x <= 18)%Z).
    { apply (Qexp_k_bound x 16 Hn); [lia |]. rewrite En. cbn. lia. }
    pose proof (Hpow _ Hk) as Hd. pose proof (exp_pos (Q2R x)) as He.
    set (E := exp (Q2R x)) in *. set (dl := 2 ^ Z.to_nat (Qexp_k x) * eps0) in *.
    assert (E * (1 - / 2 ^ 100) <= E * (1 - dl)) by (apply Rmult_le_compat_l; lra).
    assert (/ 2 ^ 100 <= / 2 ^ 99) by lra.
    unfold Rabs, Rdiv. destruct (Rcase_abs (Q2R (Qexp_pos x) - E)); nra.
  - assert (Hn : (0 <= Qnum x)%Z) by lia.
    destruct (Qexp_pos_spec x Hn) as [L Up].
    assert (Hk : (0 <= Qexp_k x <= 18)%Z).
    { apply (Qexp_k_bound x 16 Hn); [lia |]. unfold Qle in Hx2. cbn [Qnum Qden] in Hx2.
      change (2 ^ 16)%Z with 65536%Z. lia. }
    pose proof (Hpow _ Hk) as Hd. pose proof (exp_pos (Q2R x)) as He.
    set (E := exp (Q2R x)) in *. set (dl := 2 ^ Z.to_nat (Qexp_k x) * eps0) in *.
    assert (E * (1 - / 2 ^ 100) <= E * (1 - dl)) by (apply Rmult_le_compat_l; lra).
    assert (/ 2 ^ 100 <= / 2 ^ 99) by lra.
    unfold Rabs, Rdiv. destruct (Rcase_abs (Q2R (Qexp_pos x) - E)); nra.
  - (* negative argument: reciprocal *)
    set (a := Qopp x).
    assert (Hn : (0 <= Qnum a)%Z) by (unfold a; cbn [Qnum Qopp]; lia).
    destruct (Qexp_pos_spec a Hn) as [L Up].
    assert (Hk : (0 <= Qexp_k a <= 18)%Z).
    { apply (Qexp_k_bound a 16 Hn); [lia |]. unfold Qle in Hx1. unfold a. cbn [Qnum Qden Qopp] in *.
      change (2 ^ 16)%Z with 65536%Z. lia. }
    pose proof (Hpow _ Hk) as Hd.
    assert (Ea : Q2R a = - Q2R x) by (unfold a; apply Q2R_opp).
    rewrite Ea in *. rewrite exp_Ropp in *.
    pose proof (exp_pos (Q2R x)) as He. set (E := exp (Q2R x)) in *.
    set (dl := 2 ^ Z.to_nat (Qexp_k a) * eps0) in *.
    set (P := Q2R (Qexp_pos a)) in *.
    assert (HiE : 0 < / E) by (apply Rinv_0_lt_compat, He).
    assert (Hsm : / 2 ^ 100 <= 1 / 2) by lra.
    assert (HP0 : 0 < P).
    { assert (/ E * (1 / 2) <= / E * (1 - dl)) by (apply Rmult_le_compat_l; lra). nra. }
    assert (Hq : ~ (Qexp_pos a == 0)%Q).
    { intro H0. apply Qeq_eqR in H0. fold P in H0. rewrite RMicromega.Q2R_0 in H0. lra. }
    rewrite (Qeq_eqR _ _ (Qred_correct _)), (Q2R_inv _ Hq). fold P.
    (* E <= 1/P <= E / (1 - dl) <= E (1 + 2 dl) *)
    assert (HEE : / E * E = 1) by (apply Rinv_l; lra).
    assert (HPP : / P * P = 1) by (apply Rinv_l; lra).
    assert (HiP : 0 < / P) by (apply Rinv_0_lt_compat, HP0).
    assert (H1 : E <= / P).
    { (* P <= /E  ->  E <= /P *)
      assert (P * E <= 1) by nra. nra. }
    assert (H2 : / P * (1 - dl) <= E).
    { (* /E (1-dl) <= P *)
      assert (1 - dl <= P * E) by nra. nra. }
    assert (H3 : / P <= E * (1 + 2 * dl)).
    { assert (Hdl0 : 0 <= dl).
      { unfold dl, eps0, Rdiv. pose proof U_pos.
        assert (0 < / U) by (apply Rinv_0_lt_compat; lra).
        assert (0 < / 2 ^ 119) by (apply Rinv_0_lt_compat, pow_lt; lra).
        assert (0 < 2 ^ Z.to_nat (Qexp_k a)) by (apply pow_lt; lra). nra. }
      assert ((1 - dl) * (1 + 2 * dl) >= 1) by nra.
      nra. }
    assert (/ 2 ^ 100 * 2 <= / 2 ^ 99) by lra.
    unfold Rabs, Rdiv. destruct (Rcase_abs (/ P - E)); nra.
Qed.

(** the same with the constants written out *)
Theorem Qexp_pos_spec' : forall a : Q, (0 <= Qnum a)%Z ->
  exp (Q2R a) * (1 - 2 ^ Z.to_nat (Qexp_k a) * (/ 2 ^ 119 + 106 / 2 ^ 160)) <= Q2R (Qexp_pos a) <= exp (Q2R a).
Proof. intros a Ha. rewrite <- U_val. exact (Qexp_pos_spec a Ha). Qed.
