(** C10 proofs: reorder_pops commutes with fold (data AND mask, any masks), for any dimension. *)
From Coq Require Import String.
From Coq Require Import ZArith Reals List Bool Arith Lia Lra Permutation Sorted.
From Dadi Require Import Base.Num Base.NumR Model.PopOps Proofs.PopOpsBig Proofs.PopOpsIdx Proofs.PopOpsPF
  Proofs.PopOpsProofs Proofs.PopOpsReorder Proofs.PopOpsCommute.
Import ListNotations.
Local Open Scope R_scope.

Lemma nth_rev_idx k S I : length S = length I -> nth k (rev_idx S I) 0%nat = (nth k S 0 - 1 - nth k I 0)%nat.
Proof. intros Hl. unfold rev_idx.
  transitivity ((fun p : nat * nat => fst p - 1 - snd p)%nat (nth k (combine S I) (0%nat, 0%nat))).
  - exact (map_nth (fun p : nat * nat => fst p - 1 - snd p)%nat (combine S I) (0%nat, 0%nat) k).
  - rewrite combine_nth by auto. reflexivity. Qed.

Lemma select_rev_idx ks S I : length S = length I ->
  select 0%nat ks (rev_idx S I) = rev_idx (select 0%nat ks S) (select 0%nat ks I).
Proof. intros Hl. unfold select. induction ks as [|k ks IH]; [reflexivity|].
  cbn [map]. rewrite IH, nth_rev_idx by auto. reflexivity. Qed.

Lemma rev_idx_length S I : length S = length I -> length (rev_idx S I) = length I.
Proof. intros Hl. unfold rev_idx. rewrite map_length, combine_length. lia. Qed.

Section FoldCommute.
  Variables (a : spec R) (p : list nat).
  Hypothesis Hp : is_perm p.
  Hypothesis Hl : length p = length (sh a).
  Let q := inv_perm p.
  Let S := sh a.
  Let S' := select 0%nat p S.

  Lemma Hq : is_perm q. Proof. now apply is_perm_inv. Qed.
  Lemma Lq : length q = length S. Proof. unfold q. now rewrite inv_perm_length. Qed.

  Lemma nsamp_perm : nsamp S' = nsamp S.
  Proof. unfold nsamp, S'. change 0%nat with (pred 0) at 1. rewrite <- select_map.
    - apply isum_perm. apply select_perm; auto. now rewrite map_length.
    - intros k Hk. apply (is_perm_in _ k Hp) in Hk. unfold S. lia. Qed.

  Lemma isum_q J : length J = length S -> isum (select 0%nat q J) = isum J.
  Proof. intros HJ. apply isum_perm, select_perm; [apply Hq | rewrite Lq; auto]. Qed.

  Lemma q_S' : select 0%nat q S' = S.
  Proof. unfold S', q. apply select_inv_cancel_l; auto. Qed.

  Lemma rev_q J : length J = length S -> select 0%nat q (rev_idx S' J) = rev_idx S (select 0%nat q J).
  Proof. intros HJ. rewrite select_rev_idx, q_S'; auto. unfold S'. rewrite select_length. unfold S in *. lia. Qed.

  Lemma folded_out_q J : length J = length S -> folded_out S (select 0%nat q J) = folded_out S' J.
  Proof. intros HJ. unfold folded_out. now rewrite nsamp_perm, isum_q. Qed.
  Lemma ambiguous_q J : length J = length S -> ambiguous S (select 0%nat q J) = ambiguous S' J.
  Proof. intros HJ. unfold ambiguous. now rewrite nsamp_perm, isum_q. Qed.

  Theorem transpose_commutes_with_fold : same_spectrum (fold (transpose p a)) (transpose p (fold a)).
  Proof. unfold same_spectrum. simpl. fold q S S'. repeat split.
    - apply in_indices in H. assert (LJ : length J = length S).
      { rewrite (inr_length _ _ H). unfold S'. rewrite select_length. exact Hl. }
      assert (LR : length (rev_idx S' J) = length S).
      { rewrite rev_idx_length; auto. unfold S'. rewrite select_length. unfold S in *. lia. }
      rewrite !rev_q, !folded_out_q, ambiguous_q by auto. rewrite <- (folded_out_q (rev_idx S' J)) by auto.
      now rewrite rev_q.
    - apply in_indices in H. assert (LJ : length J = length S).
      { rewrite (inr_length _ _ H). unfold S'. rewrite select_length. exact Hl. }
      rewrite !rev_q, !folded_out_q by auto. f_equal. unfold q, S'. symmetry. apply is_corner_perm; auto. Qed.
End FoldCommute.

(** folding the reordered spectrum = reordering the folded spectrum *)
Theorem reorder_commutes_with_fold (a : spec R) n :
  valid_order (length (sh a)) n ->
  exists r1 r2, reorder_pops n a = Some r1 /\ reorder_pops n (fold a) = Some r2 /\ same_spectrum (fold r1) r2.
Proof. intros Hv. destruct (valid_order_perm _ _ Hv) as [Hp Hl].
  rewrite (reorder_some a n Hv). rewrite (reorder_some (fold a) n Hv). eexists. eexists.
  split; [reflexivity|]. split; [reflexivity|].
  destruct (transpose_commutes_with_fold a (map pred n) Hp Hl) as (E1 & _ & _ & E4).
  unfold same_spectrum. simpl in *. repeat split; auto; apply E4; auto. Qed.
