(** * DemesExportRoundTrip: importing the graph [Demes.output] writes for a native program gives that program back.

    [export_import_same_program]: for every log in the class [log_ok] (phi_1D, then rounds of at most one Split /
    admixture / Pulse / Remove record followed by an Integration of positive duration, with 1..5 populations,
    constant / linear / exponential sizes, any migration rates), any Nref > 0 and any generation time,
        front (the importer model) (export_model Nref gt log) (final names) Ne = Nref
      = native_calls log ++ [reorder_pops (identity); from_phi]
    as sequences of calls with all their arguments, every axis labelled with the name the exporter generated for it.
    The resolution of the Builder data by `demes` is not modelled: [export_model] is the resolved graph (see
    Model/DemesExportModel.v); the correspondence check compares it with the real [output] + `demes`. *)
From Coq Require Import ZArith Reals List Bool Arith Lra Lia.
From Dadi Require Import Base.Num Base.NumR Model.DemesFront Model.DemesExportModel Proofs.DemesBase Proofs.DemesRescale
     Proofs.DemesUnits Proofs.DemesOrder Proofs.DemesExportLists Proofs.DemesExportGraph.
Import ListNotations.
Local Open Scope R_scope.

(** ** list helpers *)
Lemma emits_calls (cs : list (call R)) : forall s, emits cs s = mkSt (s_ids s) (rev cs ++ s_calls s) (s_ok s).
Proof.
  unfold emits. induction cs as [|c cs IH]; intros [ids calls ok]; cbn [fold_left rev app s_ids s_calls s_ok]; auto.
  rewrite IH. unfold emit. cbn [s_ids s_calls s_ok]. now rewrite <- app_assoc.
Qed.

Lemma firstn_nth_skipn (ids : list nat) i : (i < length ids)%nat -> firstn i ids ++ [nth i ids 0%nat] ++ skipn (S i) ids = ids.
Proof.
  revert i. induction ids as [|x ids IH]; intros i L; [cbn in L; lia|]. destruct i; cbn [firstn nth skipn app]; auto.
  f_equal. apply IH. cbn in L. lia.
Qed.
Lemma index_of_app_skip p cs r : ~ In p cs -> index_of p (cs ++ p :: r) = Some (length cs).
Proof.
  induction cs as [|c cs IH]; intros N; cbn [app index_of length]; [now rewrite Nat.eqb_refl|].
  destruct (Nat.eqb p c) eqn:E; [apply Nat.eqb_eq in E; exfalso; apply N; now left|].
  rewrite IH by (intros K; apply N; now right). reflexivity.
Qed.
Lemma firstn_app_exact {A} (l r : list A) : firstn (length l) (l ++ r) = l.
Proof. induction l; cbn; auto. now rewrite IHl. Qed.
Lemma skipn_app_exact {A} (l : list A) x r : skipn (S (length l)) (l ++ x :: r) = r.
Proof. induction l; cbn; auto. Qed.

Lemma indices_of_map_nth ids : NoDup ids -> forall idxs, Forall (fun i => (i < length ids)%nat) idxs ->
  indices_of (map (fun i => nth i ids 0%nat) idxs) ids = Some idxs.
Proof.
  intros N. induction 1 as [|i idxs Hi _ IH]; cbn [map indices_of]; auto.
  now rewrite index_of_nth_NoDup, IH by auto.
Qed.

Lemma set_nth_length {A} k (v : A) l : length (set_nth k v l) = length l.
Proof. revert k. induction l; intros k; destruct k; cbn; auto. Qed.
Lemma nth_set_nth k j (v : R) l : nth j (set_nth k v l) 0 = if Nat.eqb j k && Nat.ltb k (length l) then v else nth j l 0.
Proof.
  revert k j. induction l as [|x l IH]; intros k j.
  - destruct k; cbn [set_nth length]; rewrite andb_false_r; reflexivity.
  - destruct k, j; cbn [set_nth nth length]; auto.
    rewrite IH. change (Nat.ltb (S k) (S (length l))) with (Nat.ltb k (length l)). reflexivity.
Qed.

Lemma fold_set_nth props : forall idxs l0, Forall (fun i => (i < length l0)%nat) idxs ->
  let res := fold_left (fun l ip => set_nth (fst ip) (snd ip) l) (combine idxs (map (fun i => nth i props 0) idxs)) l0 in
  length res = length l0 /\ forall j, nth j res 0 = if mem j idxs then nth j props 0 else nth j l0 0.
Proof.
  induction idxs as [|i r IH]; intros l0 F; cbn zeta; cbn [map combine fold_left fst snd]; [split; auto|].
  apply Forall_cons_iff in F as [Fi Fr].
  destruct (IH (set_nth i (nth i props 0) l0)) as [I1 I2].
  { eapply Forall_impl; [|exact Fr]. intros a. now rewrite set_nth_length. }
  split; [now rewrite I1, set_nth_length|]. intros j. rewrite I2. unfold mem. cbn [existsb].
  fold (mem j r). destruct (mem j r); [now rewrite orb_true_r|]. rewrite orb_false_r. rewrite nth_set_nth.
  apply Nat.ltb_lt in Fi. rewrite Fi, andb_true_r. destruct (Nat.eqb j i) eqn:E; auto. apply Nat.eqb_eq in E. now subst.
Qed.

Lemma mem_nz_idx (props : list R) j : mem j (nz_idx props) = (Nat.ltb j (length props) && negb (Reqb (nth j props 0) 0))%bool.
Proof.
  destruct (mem j (nz_idx props)) eqn:E.
  - apply mem_In in E. unfold nz_idx in E. apply filter_In in E as [E1 E2]. apply in_seq in E1.
    numR. rewrite E2. assert (L : (j < length props)%nat) by lia. apply Nat.ltb_lt in L. now rewrite L.
  - destruct (Nat.ltb j (length props)) eqn:L; auto. cbn [andb]. destruct (Reqb (nth j props 0) 0) eqn:Z; auto.
    exfalso. apply mem_false in E. apply E. unfold nz_idx. apply filter_In. apply Nat.ltb_lt in L. split; [apply in_seq; lia|].
    numR. now rewrite Z.
Qed.

Lemma sorted_props_nz (props : list R) :
  sorted_props (map (fun i => nth i props 0) (nz_idx props)) (nz_idx props) None (length props) = props.
Proof.
  unfold sorted_props. cbv beta iota zeta. change (@n0 R NumR) with 0.
  destruct (fold_set_nth props (nz_idx props) (repeat 0 (length props))) as [L1 L2].
  { apply Forall_forall. intros i Hi. rewrite repeat_length. now apply nz_idx_lt. }
  cbn zeta in L1, L2. rewrite repeat_length in L1.
  apply nth_ext with (d := 0) (d' := 0); [exact L1|]. intros j Lj. rewrite L1 in Lj.
  rewrite L2, mem_nz_idx. apply Nat.ltb_lt in Lj. rewrite Lj. cbn [andb].
  destruct (Reqb (nth j props 0) 0) eqn:Z; cbn [negb]; auto. apply Reqb_true in Z. rewrite Z.
  clear. revert j. induction (length props); intros [|j]; cbn; auto.
Qed.

(** ** one round of events *)
Definition round_events (now : R) (next : nat) (ids : list nat) (e : sev R) : list (event R) :=
  map (@snd R (event R)) (ev_events now next ids e) ++ match e with SRemove k => [EMarg (nth1 k ids)] | _ => [] end.

Lemma rename_all now calls : forall ps cs c0, (forall p, In p ps -> ~ In p cs /\ (p < c0)%nat) -> NoDup ps ->
  fold_left (fun s ev => apply_event ev s)
            (map (@snd R (event R)) (map (fun pc => (now, ESplit (F:=R) (fst pc) [snd pc])) (combine ps (seq c0 (length ps)))))
            (mkSt (cs ++ ps) calls true)
  = mkSt (cs ++ seq c0 (length ps)) calls true.
Proof.
  induction ps as [|p ps IH]; intros cs c0 K N; [reflexivity|]. inversion N as [|? ? N1 N2]; subst.
  cbn [length seq combine map fold_left snd fst]. unfold apply_event at 2. cbn [s_ok negb s_ids].
  destruct (K p (or_introl eq_refl)) as [Kp Kc]. rewrite index_of_app_skip by auto.
  rewrite firstn_app_exact, skipn_app_exact. unfold set_ids. cbn [s_calls s_ok].
  replace (cs ++ [c0] ++ ps) with ((cs ++ [c0]) ++ ps) by (now rewrite <- app_assoc).
  rewrite IH; auto.
  - now rewrite <- app_assoc.
  - intros q Hq. destruct (K q (or_intror Hq)) as [Kq1 Kq2]. split; [|lia]. intros Hin. apply in_app_or in Hin as [Hin|[<-|[]]]; auto. lia.
Qed.

Lemma apply_round now next ids calls (e : sev R) : asc 0 ids next -> ev_ok (length ids) e -> (ev_dim (length ids) e <= 5)%nat ->
  fold_left (fun s ev => apply_event ev s) (round_events now next ids e) (mkSt ids calls true)
  = mkSt (ev_ids next ids e) (rev (ev_calls next ids e) ++ calls) true.
Proof.
  intros A K D. pose proof (asc_NoDup _ _ _ A) as ND. unfold round_events.
  destruct e as [|props|srcs dst props|k|ord]; cbn [ev_events ev_ids ev_calls ev_dim ev_ok] in *.
  - (* new era *)
    rewrite app_nil_r. cbn [rev app].
    pose proof (rename_all now calls ids [] next) as E. cbn [app] in E. apply E; auto.
    intros p Hp. split; auto. apply (asc_In _ _ _ _ A Hp).
  - (* Split record: a branch or an admixture *)
    rewrite app_nil_r. destruct K as (Lp & L4 & Nz & Ku). cbn [map snd fold_left].
    assert (Fnz : Forall (fun i => (i < length ids)%nat) (nz_idx props)).
    { apply Forall_forall. intros i Hi. apply nz_idx_lt in Hi. lia. }
    assert (Fresh : mem next ids = false). { apply mem_false. intros Hin. apply (asc_In _ _ _ _ A) in Hin. lia. }
    destruct (nz_idx props) as [|i [|i2 nz]] eqn:Enz; [congruence| |].
    + cbn [map]. unfold apply_event. cbn [s_ok negb s_ids]. unfold do_split. cbn [s_ids].
      apply Forall_cons_iff in Fnz as [Li _]. rewrite index_of_nth_NoDup by auto.
      assert (L5 : Nat.leb 5 (length ids) = false) by (apply Nat.leb_gt; lia). rewrite L5.
      replace (firstn i ids ++ [nth i ids 0%nat] ++ skipn (S i) ids ++ [next]) with (ids ++ [next]).
      2:{ rewrite <- (firstn_nth_skipn ids i Li) at 1. now rewrite <- !app_assoc. }
      rewrite emits_calls. unfold set_ids. cbn [s_ids s_calls s_ok]. reflexivity.
    + set (nzl := i :: i2 :: nz) in *. cbn [map]. fold nzl.
      change (map (fun i0 => nth i0 ids 0%nat) nzl) with (nth i ids 0%nat :: nth i2 ids 0%nat :: map (fun i0 => nth i0 ids 0%nat) nz).
      cbv iota. change (nth i ids 0%nat :: nth i2 ids 0%nat :: map (fun i0 => nth i0 ids 0%nat) nz) with (map (fun i0 => nth i0 ids 0%nat) nzl).
      unfold apply_event. cbn [s_ok negb s_ids]. rewrite Fresh.
      assert (L5 : Nat.ltb 5 (length (ids ++ [next])) = false). { apply Nat.ltb_ge. rewrite app_length. cbn. lia. }
      rewrite L5. rewrite indices_of_map_nth by auto.
      assert (Epl : sorted_props (map (fun i0 => nth i0 props n0) nzl) nzl None (length ids) = props).
      { rewrite <- Enz, <- Lp. apply sorted_props_nz. }
      rewrite Epl. unfold admix_calls.
      destruct (length ids) as [|[|[|[|[|d]]]]] eqn:Ed; try lia; rewrite ?emits_calls; unfold set_ids; cbn [s_ids s_calls s_ok emits fold_left rev app]; reflexivity.
  - (* Pulse record *)
    rewrite app_nil_r. destruct K as (L2 & Ns & Lp & Ld & Fs & NDs & Fp). cbn [map snd fold_left].
    unfold apply_event. cbn [s_ok negb s_ids].
    assert (Es : indices_of (map (fun k => nth1 k ids) srcs) ids = Some (map pred srcs)).
    { rewrite <- (indices_of_map_nth ids ND (map pred srcs)).
      - f_equal. rewrite map_map. apply map_ext. intros k. unfold nth1. f_equal. lia.
      - apply Forall_forall. intros j Hj. apply in_map_iff in Hj as (k & <- & Hk). rewrite Forall_forall in Fs. specialize (Fs k Hk). lia. }
    rewrite Es. unfold nth1 at 1. rewrite index_of_nth_NoDup by (auto; lia).
    assert (E2 : (Nat.leb 2 (length ids) && Nat.leb (length ids) 5)%bool = true).
    { apply andb_true_intro. split; apply Nat.leb_le; lia. }
    rewrite E2. replace (S (dst - 1)) with dst by lia. unfold pulse_args, emit. cbn [s_ids s_calls s_ok rev app].
    destruct (length ids) as [|[|[|[|[|[|d]]]]]] eqn:Ed; try lia; reflexivity.
  - (* Remove record *)
    cbn [map app fold_left]. destruct K as [K2 Kk]. unfold apply_event. cbn [s_ok negb s_ids].
    unfold nth1. rewrite index_of_nth_NoDup by (auto; lia). unfold emit, set_ids. cbn [s_ids s_calls s_ok rev app].
    replace (S (k - 1)) with k by lia. reflexivity.
  - destruct K.
Qed.

(** ** the importer's loop on the exported graph *)
Lemma events_at_app (E1 E2 : list (tevent R)) t : events_at (E1 ++ E2) t = events_at E1 t ++ events_at E2 t.
Proof. unfold events_at. now rewrite filter_app, map_app. Qed.
Lemma list_eqb_refl l : list_eqb l l = true.
Proof. induction l; cbn; auto. now rewrite Nat.eqb_refl. Qed.
Lemma find_map_at {A B} (p : B -> bool) (f : A -> B) l1 x l2 :
  (forall y, In y l1 -> p (f y) = false) -> p (f x) = true -> find p (map f (l1 ++ x :: l2)) = Some (f x).
Proof. intros K1 K2. induction l1 as [|y l1 IH]; cbn; [now rewrite K2|]. rewrite K1 by now left. apply IH. intros; apply K1; now right. Qed.
Lemma existsb_none {A} (p : A -> bool) l : (forall x, In x l -> p x = false) -> existsb p l = false.
Proof. induction l; intros K; cbn; auto. rewrite K by now left. apply IHl. intros; apply K; now right. Qed.
Lemma last_indep' {A} (l : list A) d d' : l <> [] -> last l d = last l d'.
Proof. induction l as [|x l IH]; [congruence|]. intros _. destruct l; auto. apply IH. discriminate. Qed.

Definition icall (ar : arnd R) : list (call R) :=
  if (n0 <? rawT (win ar))%num then
    match int_fname (length (ids_of ar)) with
    | Some f => [mkCall f (rawT (win ar)) (make_nu_func (sg_sizes (ar_stage ar)) (rawT (win ar)) 1) (sg_mig (ar_stage ar))
                        (repeat false (length (ids_of ar))) [] (ids_of ar)]
    | None => []
    end
  else [].

Section Run.
  Variable lg : elog R.
  Hypothesis Hok : log_ok lg.
  Let ann := annotated lg.
  Let G := raw_graph lg.
  Let fin := final_ids lg.
  Let evs := raw_events lg ++ marg_events G fin.
  Let steps := map (rawstep G) (map win ann).

  Lemma fin_last : fin = ids_of (last ann dar).
  Proof. unfold fin, final_ids, ids_of, ann. f_equal. f_equal. apply last_indep'. unfold annotated. discriminate. Qed.

  Lemma scan_last_b l : forall next ids b0 (prev : arnd R), b_of prev = b0 -> tchain b0 l -> b_of (last (prev :: scan next ids l) dar) = match l with [] => b0 | _ => 0 end
    \/ True.
  Proof. intros; now right. Qed.

  Lemma last_b : b_of (last ann dar) = 0.
  Proof.
    unfold ann, annotated.
    assert (T : forall rs next ids (prev : arnd R), b_of prev = total rs -> b_of (last (prev :: scan next ids (timed rs)) dar) = 0).
    { induction rs as [|r rs IH]; intros next ids prev E; [exact E|]. cbn [timed scan].
      change (last (prev :: annotate next ids (r, total rs) :: scan (ar_next (annotate next ids (r, total rs))) (sg_ids (ar_stage (annotate next ids (r, total rs)))) (timed rs)) dar)
        with (last (annotate next ids (r, total rs) :: scan (ar_next (annotate next ids (r, total rs))) (sg_ids (ar_stage (annotate next ids (r, total rs)))) (timed rs)) dar).
      apply IH. reflexivity. }
    apply T. reflexivity.
  Qed.

  Lemma wf_raw : wf_graph G.
  Proof.
    destruct (log_facts lg Hok) as (F1 & F2 & F3 & F4 & F5 & F6).
    intros d Hd. unfold G, raw_graph in Hd.
    rewrite (g_demes_raw (annotated lg)) in Hd. apply in_map_iff in Hd as (id & <- & Hid). apply in_seq in Hid.
    destruct (deme_life (annotated lg) (fun id H => log_life lg id Hok H) id) as (A1 & A2 & A3 & _ & N2 & _ & _ & _ & _ & Ee & _); [lia|].
    rewrite Ee. destruct A2; [congruence|discriminate].
  Qed.

  Lemma step_one P ar Q ids0 calls : ann = P ++ ar :: Q -> (ids0 = ids_of ar \/ ids0 = []) ->
    exists E, (match Q with nx :: _ => ar_calls nx = E ++ icall nx | [] => E = [] end) /\
    run_step std_wirings steps evs (rawstep G (win ar)) (mkSt ids0 calls true)
    = mkSt (ids_of (hd ar Q)) (rev E ++ rev (icall ar) ++ calls) true.
  Proof.
    intros E Hids0. destruct (log_facts lg Hok) as (F1 & F2 & F3 & F4 & F5 & F6).
    pose proof (log_chain lg Hok) as C. fold ann in C, F1, F2, F3, F4, F5, F6.
    assert (F2w : Forall (fun ar => okids (ids_of ar) (n_demes lg) /\ ids_of ar <> []) ann)
      by (eapply Forall_impl; [|exact F2]; intros a0 [A0 N0]; split; auto; now apply asc_okids).
    assert (Fasc : forall x, In x ann -> asc 0 (ids_of x) (n_demes lg))
      by (intros x Hx; pose proof F2 as F2c; rewrite Forall_forall in F2c; exact (proj1 (F2c x Hx))).
    assert (Lf : forall id, (id < length (births_of ann))%nat -> life ann id (b_start (nth id (births_of ann) dbirth)))
      by (intros id H; exact (log_life lg id Hok H)).
    assert (Har : In ar ann) by (rewrite E; apply in_or_app; right; now left).
    rewrite Forall_forall in F6. destruct (F6 _ Har) as (Ld & Ls & Lm).
    destruct (integ_raw ann Inf C Lf F1 F2w ar Har (Fasc ar Har) Ld Ls Lm) as (Elive & Eiv & ET & f & Ef & Ecall). cbv zeta in *.
    change (raw_graph_of ann) with G in Elive, Eiv, ET, Ecall.
    assert (Nn : ids_of ar <> []) by (intros K; rewrite K in Ld; cbn in Ld; lia).
    unfold run_step. cbn [s_ok negb s_ids]. rewrite Elive, Eiv, ET.
    assert (E0 : (if is_nil ids0 then set_ids (ids_of ar) (mkSt ids0 calls true) else mkSt ids0 calls true) = mkSt (ids_of ar) calls true).
    { destruct Hids0 as [->| ->]; [destruct (ids_of ar); [congruence|reflexivity]|reflexivity]. }
    rewrite E0. cbn [s_ids].
    assert (E1 : (if (n0 <? rawT (win ar))%num
                  then emits (integ_calls std_wirings (ids_of ar) (rawT (win ar)) (st_nus (rawstep G (win ar))) (st_M (rawstep G (win ar))) (st_fr (rawstep G (win ar)))) (mkSt (ids_of ar) calls true)
                  else mkSt (ids_of ar) calls true) = mkSt (ids_of ar) (rev (icall ar) ++ calls) true).
    { unfold icall. rewrite <- ET at 2. rewrite Ecall. destruct (n0 <? rawT (win ar))%num; [|reflexivity]. rewrite Ef, emits_calls. reflexivity. }
    rewrite E1. change (snd (win ar)) with (Fin (b_of ar)).
    unfold evs. rewrite events_at_app. change (raw_events lg) with (raw_events_of ann). rewrite fin_last.
    rewrite (raw_events_at ann Inf C Lf F1 F2w F3 (ltac:(unfold ann, annotated; discriminate)) F4 F5 P ar Q E).
    unfold G, raw_graph. fold ann.
    rewrite (marg_at ann Inf C Lf F1 F2w (log_step_r lg (log_ok_okr lg Hok)) (log_gone_r lg (log_ok_okr lg Hok)) P ar Q E).
    destruct Q as [|nx Q'].
    - (* the last window *)
      exists []. split; auto. cbn [hd ar_evs dar map app marg_expected fold_left s_ok negb rev].
      assert (Eb : b_of ar = 0). { rewrite <- last_b. rewrite E, last_app_cons. reflexivity. }
      rewrite Eb. change (@n0 R NumR) with 0. rewrite tleb_refl. reflexivity.
    - destruct (log_step lg Hok P ar nx Q' E) as (next & rb & Enx & An & Kr). pose proof Kr as (Kev & K5 & KT & Ks & Km & Kc).
      assert (Hnx : In nx ann) by (rewrite E; apply in_or_app; right; right; now left).
      exists (ev_calls next (ids_of ar) (r_ev (fst rb))). cbn [hd].
      assert (Ea : a_of nx = Fin (b_of ar)).
      { rewrite E in C. apply achain_app in C as [top' C]. destruct C as (_ & _ & C1 & _). exact C1. }
      split.
      + rewrite Enx at 1. cbn [annotate ar_calls]. f_equal. unfold icall.
        assert (ET' : rawT (win nx) = r_T (fst rb)).
        { rewrite Enx. unfold rawT, win, a_of, b_of. cbn [annotate ar_stage sg_a sg_b fst snd tval]. numR. ring. }
        rewrite ET', KT. rewrite Enx. unfold ids_of. cbn [annotate ar_stage sg_ids sg_sizes sg_mig]. reflexivity.
      + assert (Eev : map snd (ar_evs nx) ++ marg_expected ar (nx :: Q')
                      = round_events (snd rb + r_T (fst rb))%num next (ids_of ar) (r_ev (fst rb))).
        { unfold round_events, marg_expected. rewrite Enx. cbn [annotate ar_evs ar_ev]. reflexivity. }
        rewrite Eev. rewrite apply_round; auto. cbn [s_ok negb s_ids].
        assert (Cn : achain Inf ((P ++ [ar]) ++ nx :: Q')) by (rewrite <- app_assoc; cbn [app]; rewrite <- E; exact C).
        assert (Hl : In (last ann dar) (nx :: Q')).
        { rewrite E, last_app_cons. change (last (ar :: nx :: Q') dar) with (last (nx :: Q') dar). apply last_In. discriminate. }
        destruct (chain_split _ _ _ ar (last ann dar) Cn) as (_ & O & _); [apply in_or_app; right; now left|auto|]. rewrite last_b in O.
        change (@n0 R NumR) with 0. unfold tlt in O. cbn [tleb] in O. cbn [tleb]. rewrite O.
        unfold steps. rewrite map_map. rewrite E at 1.
        replace (P ++ ar :: nx :: Q') with ((P ++ [ar]) ++ nx :: Q') by (now rewrite <- app_assoc).
        rewrite (find_map_at (fun x => teqb (fst (st_iv x)) (Fin (b_of ar))) (fun y => rawstep G (win y)) (P ++ [ar]) nx Q').
        * assert (Elive' : st_live (rawstep G (win nx)) = ids_of nx).
          { unfold rawstep. cbn [st_live]. unfold G, raw_graph. fold ann. apply (present_raw ann Inf C Lf F1 nx Hnx (Fasc nx Hnx)). }
          assert (Eids : ids_of nx = ev_ids next (ids_of ar) (r_ev (fst rb))) by (rewrite Enx at 1; apply annotate_ids).
          rewrite Elive', Eids, list_eqb_refl. reflexivity.
        * intros y Hy. unfold rawstep. cbn [st_iv fst win].
          apply in_app_or in Hy as [Hy|[<-|[]]].
          -- rewrite E in C. destruct (chain_split _ _ _ y ar C Hy) as (_ & _ & O'); [now left|]. apply tlt_neq2.
             eapply tlt_trans; [|exact O']. apply (achain_in _ _ ar C). apply in_or_app. right. now left.
          -- apply tlt_neq2. apply (achain_in _ _ ar C Har).
        * unfold rawstep. cbn [st_iv fst win]. rewrite Ea. apply teqb_refl.
  Qed.

  Lemma run_suffix : forall Q P ar ids0 calls, ann = P ++ ar :: Q -> (ids0 = ids_of ar \/ ids0 = []) ->
    fold_left (fun s stp => run_step std_wirings steps evs stp s) (map (rawstep G) (map win (ar :: Q))) (mkSt ids0 calls true)
    = mkSt fin (rev (icall ar ++ flat_map (@ar_calls R) Q) ++ calls) true.
  Proof.
    induction Q as [|nx Q IH]; intros P ar ids0 calls E H0; cbn [map fold_left].
    - destruct (step_one P ar [] ids0 calls E H0) as (E' & -> & ->). cbn [hd rev app flat_map]. rewrite app_nil_r.
      rewrite fin_last, E, last_app_cons. reflexivity.
    - destruct (step_one P ar (nx :: Q) ids0 calls E H0) as (E' & Ec & ->). cbn [hd].
      change (fold_left (fun s stp => run_step std_wirings steps evs stp s) (map (rawstep G) (map win (nx :: Q)))
                {| s_ids := ids_of nx; s_calls := rev E' ++ rev (icall ar) ++ calls; s_ok := true |}
              = mkSt fin (rev (icall ar ++ flat_map (@ar_calls R) (nx :: Q)) ++ calls) true).
      rewrite (IH (P ++ [ar]) nx (ids_of nx)); auto.
      + cbn [flat_map]. rewrite Ec. f_equal. rewrite !rev_app_distr, <- !app_assoc. reflexivity.
      + rewrite <- app_assoc. exact E.
  Qed.

  Lemma run_all calls : run_steps std_wirings steps evs (mkSt [] calls true)
    = mkSt fin (rev (icall (init_ar lg) ++ flat_map (@ar_calls R) (scan 1 [0%nat] (timed (l_rounds lg)))) ++ calls) true.
  Proof.
    unfold run_steps. exact (run_suffix (scan 1 [0%nat] (timed (l_rounds lg))) [] (init_ar lg) [] calls eq_refl (or_intror eq_refl)).
  Qed.

  Lemma is_perm1_seq d : is_perm1 (seq 1 d) d = true.
  Proof.
    unfold is_perm1. rewrite seq_length, Nat.eqb_refl. cbn [andb]. apply forallb_forall. intros k Hk. now apply mem_In.
  Qed.

  Theorem export_import_raw N ns : 0 < N ->
    core std_wirings true (gmap (2 * N) N (/ (2 * N)) G) (evmap (2 * N) (raw_events lg)) fin [] (Some N) ns
    = native_calls lg ++ [simple_call F_reorder_pops [] (seq 1 (length fin)) []; simple_call F_from_phi [] ns fin].
  Proof.
    intros HN. destruct (log_facts lg Hok) as (F1 & F2 & F3 & F4 & F5 & F6).
    pose proof (log_chain lg Hok) as C. fold ann in C, F1, F2, F3, F4, F5, F6.
    assert (F2w : Forall (fun ar => okids (ids_of ar) (n_demes lg) /\ ids_of ar <> []) ann)
      by (eapply Forall_impl; [|exact F2]; intros a0 [A0 N0]; split; auto; now apply asc_okids).
    assert (Fasc : forall x, In x ann -> asc 0 (ids_of x) (n_demes lg))
      by (intros x Hx; pose proof F2 as F2c; rewrite Forall_forall in F2c; exact (proj1 (F2c x Hx))).
    assert (Lf : forall id, (id < length (births_of ann))%nat -> life ann id (b_start (nth id (births_of ann) dbirth)))
      by (intros id H; exact (log_life lg id Hok H)).
    assert (Nn : ann <> []) by (unfold ann, annotated; discriminate).
    unfold core. rewrite (core_run_export std_wirings true N G (raw_events lg) fin HN wf_raw).
    assert (EU : used_intervals G = map win ann) by (apply (used_intervals_raw ann Inf C Lf F1 F2w F3 Nn)).
    rewrite EU. rewrite existsb_none.
    2:{ intros iv Hiv. apply in_map_iff in Hiv as (ar & <- & Har). unfold G, raw_graph. fold ann.
        rewrite (present_raw ann Inf C Lf F1 ar Har (Fasc ar Har)). rewrite Forall_forall in F6. destruct (F6 _ Har) as ((_ & L5) & _).
        apply Nat.ltb_ge. exact L5. }
    cbv zeta. fold steps. fold evs. rewrite run_all.
    (* the first step is the root's *)
    unfold steps, ann, annotated. cbn [map hd]. fold ann.
    assert (Hinit : In (init_ar lg) ann) by (unfold ann, annotated; now left).
    rewrite Forall_forall in F6. destruct (F6 _ Hinit) as (Ld & Ls & Lm).
    destruct (integ_raw ann Inf C Lf F1 F2w _ Hinit (Fasc _ Hinit) Ld Ls Lm) as (Elive & _). cbv zeta in Elive.
    change (raw_graph_of ann) with G in Elive. rewrite Elive.
    assert (Enus : st_nus (rawstep G (win (init_ar lg))) = [SNum (l_nu lg / 1)]).
    { unfold rawstep. cbn [st_nus]. unfold G, raw_graph. fold ann. rewrite (present_raw ann Inf C Lf F1 _ Hinit (Fasc _ Hinit)), (sizes_list_raw ann Inf C Lf F2w _ Hinit Ls). reflexivity. }
    rewrite Enus. cbn [sf_eval hd ids_of init_ar ar_stage sg_ids].
    (* the end of SFS *)
    unfold core_finish. cbn [s_ok s_ids s_calls]. pose proof Hinit as Hl. clear Hl.
    assert (NDf : NoDup fin).
    { rewrite fin_last. assert (Hl : In (last ann dar) ann) by (apply last_In; exact Nn).
      rewrite Forall_forall in F2. destruct (F2 _ Hl) as [A _]. eapply asc_NoDup; eauto. }
    rewrite (indices_of_seq fin NDf). rewrite seq_shift, is_perm1_seq.
    unfold emit. cbn [s_calls rev]. rewrite rev_app_distr, rev_involutive.
    assert (Ei : icall (init_ar lg) = []).
    { unfold icall, rawT, win, a_of. cbn [init_ar ar_stage sg_a fst]. unfold nltb. numR.
      assert (Rleb 0 0 = true) by (apply Rleb_true; lra). now rewrite H. }
    rewrite Ei. cbn [app rev]. unfold native_calls, annotated. cbn [flat_map init_ar ar_calls].
    replace (l_nu lg / 1) with (l_nu lg) by field. rewrite <- !app_assoc. reflexivity.
  Qed.
End Run.

(** ** from the scaled raw graph to [export_model] *)
Lemma gmap_gmap a b r a' b' r' (g : graph R) : gmap a b r (gmap a' b' r' g) = gmap (a * a') (b * b') (r * r') g.
Proof.
  assert (T : forall t, tmap a (tmap a' t) = tmap (a * a') t). { intros [x|]; cbn; auto. f_equal. ring. }
  unfold gmap. cbn [g_demes g_migs g_pulses]. rewrite !map_map. f_equal; apply map_ext.
  - intros d. unfold dmap. cbn [d_id d_start d_anc d_epochs]. rewrite T, map_map. f_equal. apply map_ext. intros e.
    unfold emapE. cbn [e_start e_end e_s0 e_s1 e_fn]. rewrite T. f_equal; ring.
  - intros m. unfold mmap. cbn [m_src m_dst m_start m_end m_rate]. rewrite T. f_equal; ring.
  - intros p. unfold pmap. cbn [p_srcs p_dst p_time p_props]. f_equal. ring.
Qed.

Definition time_factor (N : R) (gt : option R) : R := match gt with Some k => 2 * N * k | None => 2 * N end.

Lemma export_as_gmap N gt (lg : elog R) : N <> 0 ->
  export_model N gt lg = gmap (time_factor N gt) N (/ (2 * N)) (raw_graph lg).
Proof.
  intros HN. unfold export_model, graph_map, gmap.
  assert (T : forall t, tapp (time_out N gt) t = tmap (time_factor N gt) t).
  { intros [x|]; cbn [tapp tmap]; auto. f_equal. unfold time_out, time_factor. destruct gt; numR_all; ring. }
  assert (T' : forall x, time_out N gt x = time_factor N gt * x).
  { intros x. unfold time_out, time_factor. destruct gt; numR_all; ring. }
  f_equal; apply map_ext.
  - intros d. unfold dmap. rewrite T. f_equal. apply map_ext. intros e. unfold emapE. rewrite T, T'. f_equal; numR; ring.
  - intros m. unfold mmap. rewrite T, T'. f_equal. numR_all. field. lra.
  - intros p. unfold pmap. rewrite T'. reflexivity.
Qed.

Lemma export_in_generations N gt (lg : elog R) : N <> 0 -> (forall k, gt = Some k -> k <> 0) ->
  match gt with Some k => in_generations k (export_model N gt lg) | None => export_model N gt lg end
  = gmap (2 * N) N (/ (2 * N)) (raw_graph lg).
Proof.
  intros HN Hk. rewrite export_as_gmap by auto. destruct gt as [k|]; [|reflexivity].
  specialize (Hk k eq_refl). rewrite in_generations_gmap, gmap_gmap. unfold time_factor. f_equal; field; auto.
Qed.

Lemma export_events_evmap N gt (lg : elog R) : (forall k, gt = Some k -> k <> 0) ->
  export_events N gt lg = evmap (2 * N) (raw_events lg).
Proof.
  intros Hk. unfold export_events, evmap. apply map_ext. intros te. f_equal. unfold time_out.
  destruct gt as [k|]; numR_all; [specialize (Hk k eq_refl); field; auto|ring].
Qed.

(** ** the theorem on the importer after unit conversion *)
Theorem export_import_core : forall (lg : elog R) N gt ns, log_ok lg -> 0 < N -> (forall k, gt = Some k -> 0 < k) ->
  core std_wirings true (match gt with Some k => in_generations k (export_model N gt lg) | None => export_model N gt lg end)
       (export_events N gt lg) (final_ids lg) [] (Some N) ns
  = native_calls lg ++ [simple_call F_reorder_pops [] (seq 1 (length (final_ids lg))) [];
                        simple_call F_from_phi [] ns (final_ids lg)].
Proof.
  intros lg N gt ns Hok HN Hk.
  assert (Hk' : forall k, gt = Some k -> k <> 0) by (intros k E; specialize (Hk k E); lra).
  rewrite export_in_generations, export_events_evmap by (auto; lra). now apply export_import_raw.
Qed.

(** ** ... and on the whole importer: the samples are taken at the end of the final demes, at time 0, so nothing is
    sliced or frozen *)
Lemma final_demes_end (lg : elog R) : log_ok lg ->
  default_times (raw_graph lg) (final_ids lg) = map (fun _ => 0) (final_ids lg).
Proof.
  intros Hok. destruct (log_facts lg Hok) as (F1 & F2 & F3 & F4 & F5 & F6). pose proof (log_chain lg Hok) as C.
  set (ann := annotated lg) in *.
  assert (Lf : forall id, (id < length (births_of ann))%nat -> life ann id (b_start (nth id (births_of ann) dbirth)))
    by (intros id H; exact (log_life lg id Hok H)).
  assert (Nn : ann <> []) by (unfold ann, annotated; discriminate).
  assert (Hl : In (last ann dar) ann) by (apply last_In; exact Nn).
  pose proof (fin_last lg) as Ef. fold ann in Ef. pose proof (last_b lg) as Eb. fold ann in Eb.
  unfold default_times. apply map_ext_in. intros id Hid. rewrite Ef in Hid.
  pose proof F2 as F2'. rewrite Forall_forall in F2'. destruct (F2' _ Hl) as [A _]. pose proof (asc_In _ _ _ _ A Hid) as Lid.
  unfold raw_graph. fold ann. rewrite (find_deme_raw ann id) by (unfold n_demes in Lid; fold ann in Lid; lia).
  assert (Lid' : (id < length (births_of ann))%nat) by (unfold n_demes in Lid; fold ann in Lid; lia).
  destruct (deme_last ann Lf id Lid') as (t & Ht & Mt & Et).
  destruct (deme_span ann Inf C Lf id (last ann dar) Lid' Hl) as [_ S2]; [now apply mem_In|]. rewrite Eb in S2.
  rewrite Et in *. destruct (in_last_or _ _ dar Ht) as [->|(U & V & EV & HV)]; [exact Eb|].
  exfalso. assert (C' : achain Inf ((U ++ [t]) ++ V)) by (rewrite <- app_assoc; cbn [app]; rewrite <- EV; exact C).
  destruct (chain_split _ _ _ t (last ann dar) C') as (_ & O & _); [apply in_or_app; right; now left|auto|].
  rewrite Eb in O. unfold tlt in O. congruence.
Qed.

Theorem export_import_same_program : forall (lg : elog R) N gt ns new_ids sizes, log_ok lg -> 0 < N -> (forall k, gt = Some k -> 0 < k) ->
  front std_wirings true gt (export_model N gt lg) (final_ids lg) None new_ids sizes (export_events N gt lg) (Some N) ns
  = native_calls lg ++ [simple_call F_reorder_pops [] (seq 1 (length (final_ids lg))) [];
                        simple_call F_from_phi [] ns (final_ids lg)].
Proof.
  intros lg N gt ns new_ids sizes Hok HN Hk. rewrite front_unfold. cbv zeta. cbn [times_of].
  assert (E0 : existsb (fun t => negb (Reqb t 0)) (default_times (export_model N gt lg) (final_ids lg)) = false).
  { rewrite export_as_gmap by lra. rewrite default_times_gmap, final_demes_end by auto. rewrite map_map.
    apply existsb_none. intros x Hx. apply in_map_iff in Hx as (y & <- & _). rewrite Rmult_0_r.
    assert (Reqb 0 0 = true) by now apply Reqb_true. now rewrite H. }
  rewrite E0. now apply export_import_core.
Qed.

(** ** the stages, by the kinds of records in the log.  [log_stage n]: every round is of stage <= n, where a round
    without a structural record is of stage 1, a split of one population 2, a non-constant size function 3, a non-zero
    migration rate 4, an admixed new population or a pulse 5, a removal 6 (a reorder_pops record is outside [log_ok]). *)
Definition roundtrip (lg : elog R) : Prop :=
  forall N gt ns new_ids sizes, 0 < N -> (forall k, gt = Some k -> 0 < k) ->
  front std_wirings true gt (export_model N gt lg) (final_ids lg) None new_ids sizes (export_events N gt lg) (Some N) ns
  = native_calls lg ++ [simple_call F_reorder_pops [] (seq 1 (length (final_ids lg))) [];
                        simple_call F_from_phi [] ns (final_ids lg)].

Theorem export_import_stage1 : forall lg : elog R, log_ok lg -> Forall (fun r => r_ev r = SNone) (l_rounds lg) -> roundtrip lg.
Proof. intros lg H _ N gt ns new_ids sizes HN Hk. now apply export_import_same_program. Qed.
Theorem export_import_stage2 : forall lg : elog R, log_ok lg -> log_stage 2 lg -> roundtrip lg.
Proof. intros lg H _ N gt ns new_ids sizes HN Hk. now apply export_import_same_program. Qed.
Theorem export_import_stage3 : forall lg : elog R, log_ok lg -> log_stage 3 lg -> roundtrip lg.
Proof. intros lg H _ N gt ns new_ids sizes HN Hk. now apply export_import_same_program. Qed.
Theorem export_import_stage4 : forall lg : elog R, log_ok lg -> log_stage 4 lg -> roundtrip lg.
Proof. intros lg H _ N gt ns new_ids sizes HN Hk. now apply export_import_same_program. Qed.
Theorem export_import_stage5 : forall lg : elog R, log_ok lg -> log_stage 5 lg -> roundtrip lg.
Proof. intros lg H _ N gt ns new_ids sizes HN Hk. now apply export_import_same_program. Qed.
(** stage 6, removal only: [log_ok] has no reorder_pops record *)
Theorem export_import_stage6_partial : forall lg : elog R, log_ok lg -> log_stage 6 lg -> roundtrip lg.
Proof. intros lg H _ N gt ns new_ids sizes HN Hk. now apply export_import_same_program. Qed.

(** what the log's size functions are, read as native arguments: a number for an all-constant integration, else
    per population the linear or exponential function between the recorded sizes; a constant inside a non-constant
    integration comes back as the linear function of slope 0 *)
Lemma native_sizes_read (T s0 s1 : R) :
  make_nu_func (map (xsize true) [(s0, s1, true)]) T 1 = [SNum (s0 / 1)]
  /\ make_nu_func (map (xsize false) [(s0, s1, true)]) T 1 = [SFLin (s0 / 1) ((s1 - s0) / 1) T]
  /\ (s0 <> s1 -> make_nu_func (map (xsize false) [(s0, s1, false)]) T 1 = [SFExp (s0 / 1) (s1 / s0) T])
  /\ forall t, sf_eval (SFLin s0 (s0 - s0) T) t = sf_eval (SFConst s0) t.
Proof.
  repeat split.
  - intros Hne. unfold make_nu_func, xsize, xkind. cbn [map fst snd forallb]. numR. apply Reqb_false in Hne. rewrite Hne. reflexivity.
  - intros t. cbn. numR. ring.
Qed.

(** ** non-vacuity: one concrete history per stage *)
Section Examples.
  Context {F : Type} `{Num F}.
  Local Open Scope num_scope.
  Let q4 : F := n1 / (n2 + n2).
  Let q8 : F := n1 / (n2 + n2 + n2 + n2).
  Let three : F := n1 + n2.
  (* phi_1D(1); one_pop(1/4, nu=2); one_pop(1/8, nu: 2 -> 3 linearly) *)
  Definition ex1 : elog F := mkLog n1 [mkRound SNone q4 true [(n2, n2, true)] []; mkRound SNone q8 false [(n2, three, true)] []].
  (* phi_1D(1); phi_1D_to_2D; two_pops(1/4, nu=(1,2)); phi_2D_to_3D_split_2; three_pops(1/8, nu=(1,2,3)) *)
  Definition ex2 : elog F := mkLog n1 [mkRound (SSplit [n1]) q4 true [(n1, n1, true); (n2, n2, true)] [n0; n0];
                                      mkRound (SSplit [n0; n1]) q8 true [(n1, n1, true); (n2, n2, true); (three, three, true)] [n0; n0; n0; n0; n0; n0]].
  (* phi_1D(1); one_pop(1/4, 2); phi_1D_to_2D; two_pops(1/8, nu1: 1 -> 3 exponentially, nu2 = 2) *)
  Definition ex3 : elog F := mkLog n1 [mkRound SNone q4 true [(n2, n2, true)] [];
                                      mkRound (SSplit [n1]) q8 false [(n1, three, false); (n2, n2, true)] [n0; n0]].
  (* phi_1D(1); phi_1D_to_2D; two_pops(1/4, (1,2), m12=1, m21=0); two_pops(1/8, nu1: 1 -> 3, nu2 = 2, m12=0, m21=2) *)
  Definition ex4 : elog F := mkLog n1 [mkRound (SSplit [n1]) q4 true [(n1, n1, true); (n2, n2, true)] [n1; n0];
                                      mkRound SNone q8 false [(n1, three, false); (n2, n2, true)] [n0; n2]].
  (* phi_1D(1); phi_1D_to_2D; two_pops(1/4, (1,2), m12=1); phi_2D_to_3D_admix(f=1/4); three_pops(1/8, (1,2,3));
     phi_3D_admix_1_and_3_into_2(f1=1/8, f3=0); three_pops(1/8, (1,2,3), m31=1) *)
  Definition ex5 : elog F := mkLog n1 [mkRound (SSplit [n1]) q4 true [(n1, n1, true); (n2, n2, true)] [n1; n0];
                                      mkRound (SSplit [q4; n1 - q4]) q8 true [(n1, n1, true); (n2, n2, true); (three, three, true)] [n0; n0; n0; n0; n0; n0];
                                      mkRound (SPulse [1%nat] 2 [q8]) q8 true [(n1, n1, true); (n2, n2, true); (three, three, true)] [n0; n0; n0; n0; n1; n0]].
  (* phi_1D(1); phi_1D_to_2D; two_pops(1/4, (1,2), m21=1); remove_pop(1); one_pop(1/8, 3) *)
  Definition ex6 : elog F := mkLog n1 [mkRound (SSplit [n1]) q4 true [(n1, n1, true); (n2, n2, true)] [n0; n1];
                                      mkRound (SRemove 1) q8 true [(three, three, true)] []].
End Examples.

Ltac rq := repeat match goal with
                  | |- context [Reqb ?x ?y] => first [rewrite (proj2 (Reqb_true x y)) by lra | rewrite (proj2 (Reqb_false x y)) by lra]
                  | |- context [Rleb ?x ?y] => first [rewrite (proj2 (Rleb_true x y)) by lra | rewrite (proj2 (Rleb_false x y)) by lra]
                  end.
Ltac num_goal := unfold nz_idx, nltb, unit_vec, n2; cbn [length seq filter nth map forallb Nat.eqb fst snd]; numR; rq;
                 cbn [negb filter length andb orb map seq Nat.eqb Nat.max forallb nth].
Ltac solve_ok :=
  repeat match goal with
         | |- _ /\ _ => split
         | |- True => exact I
         | |- Forall _ [] => constructor
         | |- Forall _ (_ :: _) => constructor
         | |- NoDup _ => constructor
         | |- _ -> _ => intro
         | |- ~ _ => intro
         end;
  try lia; try discriminate; try reflexivity; try tauto;
  repeat match goal with H : context [nz_idx _] |- _ => revert H end;
  try (num_goal; intros; try lia; try discriminate; try reflexivity;
       try match goal with E : _ :: _ = _ :: _ |- _ => injection E; intros; subst; try discriminate; try reflexivity end).
Ltac ok_start := unfold log_ok, log_stage, ex1, ex2, ex3, ex4, ex5, ex6; cbn [l_rounds rounds_ok]; unfold round_ok;
                 cbn [r_ev r_T r_const r_sizes r_mig ev_dim ev_ok length].

Example export_import_stage1_example : log_ok (ex1 (F:=R)) /\ Forall (fun r => r_ev r = SNone) (l_rounds (ex1 (F:=R))).
Proof. split; [|repeat constructor]. ok_start. solve_ok. Qed.


Ltac stage_tac := unfold log_stage, ex1, ex2, ex3, ex4, ex5, ex6; cbn [l_rounds];
  repeat (apply Forall_cons || apply Forall_nil); unfold round_stage, ev_stage, is_branch; cbn [r_ev r_const r_mig]; num_goal; cbn; lia.
Example export_import_stage2_example : log_ok (ex2 (F:=R)) /\ log_stage 2 (ex2 (F:=R)).
Proof. split; [ok_start; solve_ok|stage_tac]. Qed.

Ltac neg_tac := let K := fresh "K" in intros K; unfold log_stage, ex1, ex2, ex3, ex4, ex5, ex6 in K; cbn [l_rounds] in K;
  repeat (let H := fresh "H" in apply Forall_cons_iff in K as [H K]; revert H); clear K;
  unfold round_stage, ev_stage, is_branch; cbn [r_ev r_const r_mig]; num_goal; cbn; lia.
Example export_import_stage3_example : log_ok (ex3 (F:=R)) /\ log_stage 3 (ex3 (F:=R)) /\ ~ log_stage 2 (ex3 (F:=R)).
Proof. split; [ok_start; solve_ok|split; [stage_tac|neg_tac]]. Qed.
Example export_import_stage4_example : log_ok (ex4 (F:=R)) /\ log_stage 4 (ex4 (F:=R)) /\ ~ log_stage 3 (ex4 (F:=R)).
Proof. split; [ok_start; solve_ok|split; [stage_tac|neg_tac]]. Qed.
Example export_import_stage5_example : log_ok (ex5 (F:=R)) /\ log_stage 5 (ex5 (F:=R)) /\ ~ log_stage 4 (ex5 (F:=R)).
Proof. split; [ok_start; solve_ok|split; [stage_tac|neg_tac]]. Qed.
Example export_import_stage6_example : log_ok (ex6 (F:=R)) /\ log_stage 6 (ex6 (F:=R)) /\ ~ log_stage 5 (ex6 (F:=R)).
Proof. split; [ok_start; solve_ok|split; [stage_tac|neg_tac]]. Qed.

(** the same histories run on the rationals: the importer model applied to the exported graph (Nref = 8, generation
    time 25 years) gives the native calls back, literally *)
From Dadi Require Import Base.NumQ.
From Coq Require Import QArith.
Example export_import_examples_run :
  forallb (fun lg : elog Q =>
    let calls := front std_wirings true (Some 25%Q) (export_model 8%Q (Some 25%Q) lg) (final_ids lg) None [] []
                       (export_events 8%Q (Some 25%Q) lg) (Some 8%Q) (repeat 2%nat (length (final_ids lg))) in
    let expect := native_calls lg ++ [simple_call F_reorder_pops [] (seq 1 (length (final_ids lg))) [];
                                      simple_call F_from_phi [] (repeat 2%nat (length (final_ids lg))) (final_ids lg)] in
    Nat.eqb (length calls) (length expect)
    && forallb (fun cc => fname_eqb (c_fn (fst cc)) (c_fn (snd cc)) && Qeq_bool (c_T (fst cc)) (c_T (snd cc))
                          && list_eqb (c_ids (fst cc)) (c_ids (snd cc)) && list_eqb (c_ns (fst cc)) (c_ns (snd cc))
                          && Nat.eqb (length (c_fs (fst cc))) (length (c_fs (snd cc)))
                          && forallb (fun xy => Qeq_bool (fst xy) (snd xy)) (combine (c_fs (fst cc)) (c_fs (snd cc))))
               (combine calls expect))
    [ex1; ex2; ex3; ex4; ex5; ex6] = true.
Proof. vm_compute. reflexivity. Qed.
