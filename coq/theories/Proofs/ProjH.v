(** C08, weight level: properties of the hypergeometric projection weights
    H(i; n, m, j) = C(m,i) C(n-m,j-i) / C(n,j)   (model: [hweight n m j i] on the R instance). *)
From Coq Require Import ZArith Reals List Lra Lia Bool Arith.
From Dadi Require Import Base.Num Base.NumR Model.Projection Proofs.ProjBase Proofs.ProjBinom.
Import ListNotations.
Local Open Scope R_scope.

Definition H (n m j i : nat) : R := hweight (F:=R) n m j i.

Fixpoint rsum (f : nat -> R) (n : nat) : R :=
  match n with O => 0 | S k => rsum f k + f k end.

Lemma rsum_ext f g n : (forall i, (i < n)%nat -> f i = g i) -> rsum f n = rsum g n.
Proof. induction n; cbn; intros E; [reflexivity|]. rewrite IHn, E by (intros; try apply E; lia). reflexivity. Qed.
Lemma rsum_zero f n : (forall i, (i < n)%nat -> f i = 0) -> rsum f n = 0.
Proof. induction n; cbn; intros E; [reflexivity|]. rewrite IHn, E by (intros; try apply E; lia). lra. Qed.
Lemma rsum_scal c f n : rsum (fun i => c * f i) n = c * rsum f n.
Proof. induction n; cbn; [lra|]. rewrite IHn; lra. Qed.
Lemma rsum_add f g n : rsum (fun i => f i + g i) n = rsum f n + rsum g n.
Proof. induction n; cbn; [lra|]. rewrite IHn; lra. Qed.
Lemma rsum_IZR f n : rsum (fun i => IZR (f i)) n = IZR (zsum f n).
Proof. induction n; cbn; [reflexivity|]. rewrite IHn, plus_IZR. reflexivity. Qed.
Lemma rsum_swap (f : nat -> nat -> R) a b :
  rsum (fun i => rsum (fun j => f i j) b) a = rsum (fun j => rsum (fun i => f i j) a) b.
Proof. induction a; cbn. - symmetry; apply rsum_zero; reflexivity.
  - rewrite IHa, <- rsum_add. reflexivity. Qed.
Lemma rsum_single f n k : (k < n)%nat -> (forall i, (i < n)%nat -> i <> k -> f i = 0) -> rsum f n = f k.
Proof. induction n; intros Hk Hz; [lia|]. cbn. destruct (Nat.eq_dec k n) as [->|Hne].
  - rewrite rsum_zero; [lra|]. intros; apply Hz; lia.
  - rewrite IHn, (Hz n) by (intros; try apply Hz; lia). lra. Qed.

Lemma H_unfold n m j i :
  H n m j i = if (i <=? j)%nat then IZR (bZ m i) * IZR (bZ (n - m) (j - i)) / IZR (bZ n j) else 0.
Proof. reflexivity. Qed.

Lemma bZ_nz n k : (k <= n)%nat -> IZR (bZ n k) <> 0.
Proof. intros Hk. apply not_0_IZR. pose proof (bZ_pos n k Hk). lia. Qed.
Lemma bZ_Rpos n k : (k <= n)%nat -> 0 < IZR (bZ n k).
Proof. intros Hk. apply IZR_lt. apply bZ_pos; assumption. Qed.
Lemma bZ_Rnonneg n k : 0 <= IZR (bZ n k).
Proof. destruct (le_lt_dec k n). - left; apply bZ_Rpos; assumption. - rewrite bZ_small by lia. lra. Qed.

(** ** support: the weight is non-zero exactly on the window [least, most] *)
Lemma in_window_spec n m j i : (m <= n)%nat -> (j <= n)%nat ->
  in_window n m j i = true <-> (i <= j /\ i <= m /\ j - i <= n - m)%nat.
Proof. intros. unfold in_window, least, most. rewrite andb_true_iff, !Nat.leb_le. lia. Qed.

Lemma H_nonneg n m j i : 0 <= H n m j i.
Proof. rewrite H_unfold. destruct (i <=? j)%nat; [|lra].
  destruct (le_lt_dec j n).
  - apply Rmult_le_pos; [apply Rmult_le_pos; apply bZ_Rnonneg|]. left. apply Rinv_0_lt_compat, bZ_Rpos; assumption.
  - rewrite (bZ_small n j) by lia. unfold Rdiv. rewrite Rinv_0. lra. Qed.

Lemma H_pos_iff n m j i : (m <= n)%nat -> (j <= n)%nat ->
  0 < H n m j i <-> in_window n m j i = true.
Proof. intros Hm Hj. rewrite in_window_spec by assumption. rewrite H_unfold.
  destruct (Nat.leb_spec i j) as [Hij|Hij].
  - split.
    + intros Hp. destruct (le_lt_dec i m) as [Him|Him]; [destruct (le_lt_dec (j - i) (n - m)) as [Hw|Hw]|]; [lia| |].
      * rewrite (bZ_small (n - m) (j - i)) in Hp by lia. unfold Rdiv in Hp. rewrite Rmult_0_r, Rmult_0_l in Hp. lra.
      * rewrite (bZ_small m i) in Hp by lia. unfold Rdiv in Hp. rewrite !Rmult_0_l in Hp. lra.
    + intros (_ & Him & Hw). apply Rmult_lt_0_compat; [apply Rmult_lt_0_compat; apply bZ_Rpos; lia|].
      apply Rinv_0_lt_compat, bZ_Rpos; assumption.
  - split; [lra | lia]. Qed.

Lemma H_zero_iff n m j i : (m <= n)%nat -> (j <= n)%nat ->
  H n m j i = 0 <-> in_window n m j i = false.
Proof. intros Hm Hj. pose proof (H_pos_iff n m j i Hm Hj) as P. pose proof (H_nonneg n m j i).
  destruct (in_window n m j i); split; intros; try reflexivity; try discriminate.
  - assert (0 < H n m j i) by (apply P; reflexivity). lra.
  - destruct (Rle_lt_or_eq_dec _ _ H0) as [Hlt|Heq]; [|symmetry; exact Heq]. apply P in Hlt. discriminate. Qed.

(** ** conservation: each source entry is distributed with total weight one *)
Lemma window_vandermonde n m j : (m <= n)%nat ->
  zsum (fun i => if (i <=? j)%nat then bZ m i * bZ (n - m) (j - i) else 0)%Z (m + 1) = bZ n j.
Proof. intros Hm. set (g := fun i => if (i <=? j)%nat then (bZ m i * bZ (n - m) (j - i))%Z else 0%Z).
  assert (Hz : forall i, (S (Nat.min m j) <= i)%nat -> g i = 0%Z).
  { intros i Hi. unfold g. destruct (Nat.leb_spec i j); [|reflexivity]. rewrite (bZ_small m i) by lia. reflexivity. }
  rewrite (zsum_trunc g (S (Nat.min m j)) (m + 1)) by (try exact Hz; lia).
  rewrite <- (zsum_trunc g (S (Nat.min m j)) (S j)) by (try exact Hz; lia).
  rewrite (zsum_ext g (fun i => bZ m i * bZ (n - m) (j - i))%Z).
  - rewrite bZ_vandermonde. f_equal. lia.
  - intros i Hi. unfold g. destruct (Nat.leb_spec i j); [reflexivity|lia]. Qed.

Theorem H_sums_to_one n m j : (m <= n)%nat -> (j <= n)%nat -> rsum (fun i => H n m j i) (m + 1) = 1.
Proof. intros Hm Hj.
  rewrite (rsum_ext _ (fun i => / IZR (bZ n j) * IZR (if (i <=? j)%nat then bZ m i * bZ (n - m) (j - i) else 0)%Z)).
  - rewrite rsum_scal, rsum_IZR, window_vandermonde by assumption. apply Rinv_l, bZ_nz; assumption.
  - intros i _. rewrite H_unfold. destruct (i <=? j)%nat; [rewrite mult_IZR; unfold Rdiv; ring | ring]. Qed.

(** ** composition: projecting n -> l -> m equals projecting n -> m *)
Lemma shifted_vandermonde a b i j L : (i <= j)%nat -> (i + a < L)%nat ->
  zsum (fun k => if (i <=? k)%nat && (k <=? j)%nat then bZ a (k - i) * bZ b (j - k) else 0)%Z L = bZ (a + b) (j - i).
Proof. intros Hij HL.
  set (g := fun k => if (i <=? k)%nat && (k <=? j)%nat then (bZ a (k - i) * bZ b (j - k))%Z else 0%Z).
  replace L with (i + (L - i))%nat by lia. rewrite zsum_shift.
  rewrite (zsum_zero g i).
  2:{ intros k Hk. unfold g. destruct (Nat.leb_spec i k); [lia|reflexivity]. }
  set (g' := fun t => g (i + t)%nat).
  assert (Hz : forall t, (S (Nat.min a (j - i)) <= t)%nat -> g' t = 0%Z).
  { intros t Ht. unfold g', g. destruct (Nat.leb_spec (i + t) j); rewrite ?andb_false_r; [|reflexivity].
    destruct (i <=? i + t)%nat; [|reflexivity]. cbn. rewrite (bZ_small a) by lia. reflexivity. }
  rewrite (zsum_trunc g' (S (Nat.min a (j - i))) (L - i)) by (try exact Hz; lia).
  rewrite <- (zsum_trunc g' (S (Nat.min a (j - i))) (S (j - i))) by (try exact Hz; lia).
  rewrite (zsum_ext g' (fun t => bZ a t * bZ b (j - i - t))%Z).
  - rewrite bZ_vandermonde. lia.
  - intros t Ht. unfold g', g. destruct (Nat.leb_spec i (i + t)); [|lia]. destruct (Nat.leb_spec (i + t) j); [|lia].
    cbn. replace (i + t - i)%nat with t by lia. replace (j - (i + t))%nat with (j - i - t)%nat by lia. reflexivity. Qed.

Theorem H_compose n l m j i : (m <= l)%nat -> (l <= n)%nat -> (j <= n)%nat -> (i <= m)%nat ->
  rsum (fun k => H l m k i * H n l j k) (l + 1) = H n m j i.
Proof. intros Hml Hln Hj Hi.
  destruct (le_lt_dec i j) as [Hij|Hij].
  - rewrite (rsum_ext _ (fun k => IZR (bZ m i) / IZR (bZ n j) *
        IZR (if (i <=? k)%nat && (k <=? j)%nat then bZ (l - m) (k - i) * bZ (n - l) (j - k) else 0)%Z)).
    + rewrite rsum_scal, rsum_IZR, shifted_vandermonde by lia.
      rewrite H_unfold. destruct (Nat.leb_spec i j); [|lia]. replace (l - m + (n - l))%nat with (n - m)%nat by lia.
      unfold Rdiv; ring.
    + intros k Hk. rewrite !H_unfold.
      destruct (Nat.leb_spec i k); destruct (Nat.leb_spec k j); cbn [andb]; try (unfold Rdiv; ring).
      rewrite mult_IZR. field. split; apply bZ_nz; lia.
  - rewrite (H_unfold n m j i). destruct (Nat.leb_spec i j); [lia|].
    apply rsum_zero. intros k _. rewrite !H_unfold.
    destruct (Nat.leb_spec i k); destruct (Nat.leb_spec k j); try lia; ring. Qed.

(** ** reversal symmetry (the reason folded spectra project consistently) *)
Theorem H_reversal n m j i : (m <= n)%nat -> (j <= n)%nat -> (i <= m)%nat ->
  H n m (n - j) (m - i) = H n m j i.
Proof. intros Hm Hj Hi. rewrite !H_unfold.
  destruct (Nat.leb_spec i j) as [Hij|Hij].
  - destruct (le_lt_dec (j - i) (n - m)) as [Hw|Hw].
    + destruct (Nat.leb_spec (m - i) (n - j)); [|lia].
      rewrite (bZ_sym m i), (bZ_sym n j) by lia.
      replace (n - j - (m - i))%nat with ((n - m) - (j - i))%nat by lia. rewrite bZ_sym by lia. reflexivity.
    + rewrite (bZ_small (n - m) (j - i)) by lia. destruct (Nat.leb_spec (m - i) (n - j)); [lia|]. unfold Rdiv; ring.
  - destruct (Nat.leb_spec (m - i) (n - j)); [|reflexivity].
    rewrite (bZ_small (n - m)) by lia. unfold Rdiv; ring. Qed.

(** ** n = m: the identity (why Spectrum.project may skip unchanged axes) *)
Theorem H_identity n j i : (j <= n)%nat -> H n n j i = if (i =? j)%nat then 1 else 0.
Proof. intros Hj. rewrite H_unfold. rewrite Nat.sub_diag.
  destruct (Nat.leb_spec i j); destruct (Nat.eqb_spec i j); try lia; try reflexivity.
  - subst. rewrite Nat.sub_diag, bZ_n0. field. apply bZ_nz; assumption.
  - rewrite (bZ_small 0) by lia. unfold Rdiv; ring. Qed.

(** ** one step n -> n-1 *)
Lemma H_step_same n i : (1 <= n)%nat -> (i <= n - 1)%nat -> H n (n - 1) i i = INR (n - i) / INR n.
Proof. intros Hn Hi. rewrite H_unfold, Nat.leb_refl, Nat.sub_diag, bZ_n0, !INR_IZR_INZ.
  pose proof (bZ_down n i) as E. apply (f_equal IZR) in E. rewrite !mult_IZR in E.
  assert (IZR (Z.of_nat n) <> 0) by (apply not_0_IZR; lia).
  assert (IZR (bZ n i) <> 0) by (apply bZ_nz; lia).
  apply (Rmult_eq_reg_r (IZR (Z.of_nat n) * IZR (bZ n i))); [|apply Rmult_integral_contrapositive_currified; assumption].
  field_simplify; [|assumption|assumption]. lra. Qed.

Lemma H_step_next n i : (1 <= n)%nat -> (i <= n - 1)%nat -> H n (n - 1) (S i) i = INR (S i) / INR n.
Proof. intros Hn Hi. rewrite H_unfold. destruct (Nat.leb_spec i (S i)); [|lia].
  replace (S i - i)%nat with 1%nat by lia. replace (n - (n - 1))%nat with 1%nat by lia.
  rewrite bZ_nn, !INR_IZR_INZ.
  pose proof (bZ_diag n i) as E. apply (f_equal IZR) in E. rewrite !mult_IZR in E.
  assert (IZR (Z.of_nat n) <> 0) by (apply not_0_IZR; lia).
  assert (IZR (bZ n (S i)) <> 0) by (apply bZ_nz; lia).
  apply (Rmult_eq_reg_r (IZR (Z.of_nat n) * IZR (bZ n (S i)))); [|apply Rmult_integral_contrapositive_currified; assumption].
  field_simplify; [|assumption|assumption]. lra. Qed.

Lemma H_step_other n j i : (1 <= n)%nat -> (j <= n)%nat -> j <> i -> j <> S i -> H n (n - 1) j i = 0.
Proof. intros Hn Hj H1 H2. rewrite H_unfold. destruct (Nat.leb_spec i j); [|reflexivity].
  rewrite (bZ_small (n - (n - 1))) by lia. unfold Rdiv; ring. Qed.

(** ** the weight vector of the code and the coefficient used by _project_one_axis *)
Lemma nth_map_seq {B} (f : nat -> B) a len i d : (i < len)%nat -> nth i (map f (seq a len)) d = f (a + i)%nat.
Proof. intros. rewrite (nth_indep _ d (f 0%nat)) by (rewrite map_length, seq_length; lia).
  rewrite map_nth, seq_nth by lia. reflexivity. Qed.

Lemma cached_projection_nth m n j i : (m <= n)%nat -> (i <= m)%nat ->
  nth i (cached_projection (F:=R) m n j) 0 = H n m j i.
Proof. intros Hm Hi. unfold cached_projection. destruct (Nat.ltb_spec n m); [lia|].
  cbv zeta. rewrite nth_map_seq by lia. reflexivity. Qed.

Lemma cached_projection_length m n j : length (cached_projection (F:=R) m n j) = (m + 1)%nat.
Proof. unfold cached_projection. destruct (n <? m)%nat; [apply repeat_length | rewrite map_length, seq_length; reflexivity]. Qed.

Lemma cached_projection_upward m n j : (n < m)%nat -> cached_projection (F:=R) m n j = repeat 0 (m + 1).
Proof. intros Hlt. unfold cached_projection. destruct (Nat.ltb_spec n m); [reflexivity | lia]. Qed.

Lemma pcoef_eq n m i j a : (m <= n)%nat -> (j <= n)%nat -> pcoef (F:=R) n m i j a = a * H n m j i.
Proof. intros Hm Hj. unfold pcoef. destruct (in_window n m j i) eqn:E; [reflexivity|].
  apply H_zero_iff in E; try assumption. rewrite E. cbn. ring. Qed.
