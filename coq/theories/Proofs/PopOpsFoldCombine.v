(** C10: combine_two_pops / combine_pops commute with fold (the identity the harness evaluates:
    combine(fs.fold()) vs combine(fs).fold()).

    Merging two axes adds the allele counts, so it keeps the total derived-allele count of an entry and the total
    sample size: the merged index of the mirror of I is the mirror of the merged index of I, and the fibre of K consists
    of entries with the same "folded out" / "ambiguous" status as K.  Hence the fibre sum of the folded data is the folded
    fibre sum, EXACTLY (data at every entry, mask at every entry, whatever is masked) as soon as every axis has at least
    one entry (then every fibre is non-empty). *)
From Coq Require Import String.
From Coq Require Import ZArith Reals List Bool Arith Lia Lra Permutation Sorted.
From Dadi Require Import Base.Num Base.NumR.
From Dadi Require Import Model.PopOps Proofs.PopOpsBig Proofs.PopOpsIdx Proofs.PopOpsPF Proofs.PopOpsProofs
  Proofs.PopOpsCommute Proofs.PopOpsFoldCommute Proofs.PopOpsCombine Proofs.PopOpsProjCommute Proofs.PopOpsFoldMarg.
Import ListNotations.
Local Open Scope R_scope.

(** ** list arithmetic of merge2 *)
Lemma nth_merge2 {A} (op : A -> A -> A) (d : A) t0 t1 (l : list A) k : (t0 < t1)%nat -> (t1 < length l)%nat ->
  nth k (merge2 op d t0 t1 l) d
  = if (k <? t1)%nat then (if (k =? t0)%nat then op (nth t0 l d) (nth t1 l d) else nth k l d) else nth (S k) l d.
Proof. intros H01 H1. unfold merge2. destruct (Nat.ltb_spec k t1) as [Hk|Hk].
  - rewrite nth_remove_lt by assumption. destruct (Nat.eqb_spec k t0) as [->|Hne].
    + apply nth_set_nth_same. lia.
    + apply nth_set_nth_other. assumption.
  - rewrite nth_remove_ge by assumption. apply nth_set_nth_other. lia. Qed.

Lemma isum_remove_nth k : forall l, (k < length l)%nat -> (isum (remove_nth k l) + nth k l 0 = isum l)%nat.
Proof. unfold isum. induction k; intros [|x l] Hk; cbn in *; try lia. specialize (IHk l ltac:(lia)). lia. Qed.
Lemma isum_set_nth k x : forall l, (k < length l)%nat -> (isum (set_nth k x l) + nth k l 0 = isum l + x)%nat.
Proof. unfold isum. induction k; intros [|y l] Hk; cbn in *; try lia. specialize (IHk l ltac:(lia)). lia. Qed.

Lemma isum_merge2 t0 t1 I : (t0 < t1)%nat -> (t1 < length I)%nat -> isum (merge2 Nat.add 0%nat t0 t1 I) = isum I.
Proof. intros H01 H1. unfold merge2.
  pose proof (isum_remove_nth t1 (set_nth t0 (nth t0 I 0 + nth t1 I 0)%nat I) ltac:(rewrite set_nth_length; lia)) as E1.
  rewrite nth_set_nth_other in E1 by lia.
  pose proof (isum_set_nth t0 (nth t0 I 0 + nth t1 I 0)%nat I ltac:(lia)) as E2. lia. Qed.

Lemma nsamp_merge2 t0 t1 S : (t0 < t1)%nat -> (t1 < length S)%nat -> pos S ->
  nsamp (merge2 (fun x y => x + y - 1)%nat 0%nat t0 t1 S) = nsamp S.
Proof. intros H01 H1 Hp. unfold nsamp. fold (isum (map pred S)). fold (isum (map pred (merge2 (fun x y => x + y - 1)%nat 0%nat t0 t1 S))).
  rewrite <- (isum_merge2 t0 t1 (map pred S)) by (try rewrite map_length; assumption). f_equal.
  unfold merge2. rewrite <- remove_nth_map. f_equal. rewrite <- set_nth_map. f_equal.
  assert (MN : forall k, nth k (map pred S) 0%nat = pred (nth k S 0%nat))
    by (intros k; change 0%nat with (pred 0) at 1; apply map_nth).
  rewrite !MN.
  pose proof (pos_nth t0 S Hp ltac:(lia)). pose proof (pos_nth t1 S Hp ltac:(lia)). cbn [pred]. lia. Qed.

Lemma merge2_rev_idx t0 t1 S I : (t0 < t1)%nat -> (t1 < length S)%nat -> inr S I ->
  merge2 Nat.add 0%nat t0 t1 (rev_idx S I)
  = rev_idx (merge2 (fun x y => x + y - 1)%nat 0%nat t0 t1 S) (merge2 Nat.add 0%nat t0 t1 I).
Proof. intros H01 H1 HI. pose proof (inr_length _ _ HI) as LI.
  assert (LR : length (rev_idx S I) = length S) by (rewrite rev_idx_length; auto).
  assert (LS' : length (merge2 (fun x y => x + y - 1)%nat 0%nat t0 t1 S) = pred (length S)) by (apply merge2_length; assumption).
  assert (LI' : length (merge2 Nat.add 0%nat t0 t1 I) = pred (length S)) by (rewrite merge2_length; lia).
  apply (nth_ext _ _ 0%nat 0%nat).
  - rewrite merge2_length by lia. rewrite LR. rewrite rev_idx_length by lia. lia.
  - intros k _. rewrite nth_rev_idx by lia. rewrite !nth_merge2 by lia. rewrite !nth_rev_idx by lia.
    pose proof (inr_nth S I t0 HI ltac:(lia)). pose proof (inr_nth S I t1 HI ltac:(lia)).
    destruct (k <? t1)%nat; [destruct (k =? t0)%nat|]; lia. Qed.

Lemma merge2_corner t0 t1 S I : (t0 < t1)%nat -> (t1 < length S)%nat -> pos S -> inr S I ->
  is_corner S I = true -> is_corner (merge2 (fun x y => x + y - 1)%nat 0%nat t0 t1 S) (merge2 Nat.add 0%nat t0 t1 I) = true.
Proof. intros H01 H1 Hp HI Hc. pose proof (inr_length _ _ HI) as LI.
  assert (LL : length (merge2 Nat.add 0%nat t0 t1 I) = length (merge2 (fun x y => x + y - 1)%nat 0%nat t0 t1 S))
    by (rewrite !merge2_length; lia).
  apply (is_corner_nth _ _ LL). apply (is_corner_nth S I LI) in Hc.
  pose proof (pos_nth t0 S Hp ltac:(lia)). pose proof (pos_nth t1 S Hp ltac:(lia)).
  destruct Hc as [Hz|Hl]; [left|right]; intros k; rewrite !nth_merge2 by lia;
    destruct (k <? t1)%nat; try destruct (k =? t0)%nat; rewrite ?Hz, ?Hl; lia. Qed.

(** every entry of the merged array has a non-empty fibre *)
Lemma merge2_fiber_nonempty t0 t1 S K : (t0 < t1)%nat -> (t1 < length S)%nat -> pos S ->
  inr (merge2 (fun x y => x + y - 1)%nat 0%nat t0 t1 S) K ->
  exists I, inr S I /\ merge2 Nat.add 0%nat t0 t1 I = K.
Proof. intros H01 H1 Hp HK.
  pose proof (pos_nth t0 S Hp ltac:(lia)) as P0. pose proof (pos_nth t1 S Hp ltac:(lia)) as P1.
  set (s0 := nth t0 S 0%nat) in *. set (s1 := nth t1 S 0%nat) in *.
  set (S2 := set_nth t0 (s0 + s1 - 1)%nat S).
  assert (L2 : length S2 = length S) by apply set_nth_length.
  assert (ES' : merge2 (fun x y => x + y - 1)%nat 0%nat t0 t1 S = remove_nth t1 S2) by reflexivity.
  rewrite ES' in HK.
  assert (LK : length K = pred (length S)) by (rewrite (inr_length _ _ HK), remove_nth_length; lia).
  assert (Kt0 : (nth t0 K 0 < s0 + s1 - 1)%nat).
  { pose proof (inr_nth _ K t0 HK ltac:(rewrite remove_nth_length; lia)) as B.
    rewrite nth_remove_lt in B by assumption. unfold S2 in B. rewrite nth_set_nth_same in B by lia. exact B. }
  set (i0 := Nat.min (nth t0 K 0%nat) (s0 - 1)). set (i1 := (nth t0 K 0 - i0)%nat).
  set (I1 := insert_nth t1 i1 K).
  assert (HI1 : inr S2 I1).
  { apply (Forall2_insert_nth lt 0%nat); [lia | exact HK |]. unfold S2. rewrite nth_set_nth_other by lia. fold s1. unfold i1, i0. lia. }
  assert (LI1 : length I1 = length S) by (rewrite (inr_length _ _ HI1); exact L2).
  exists (set_nth t0 i0 I1). split.
  - pose proof (inr_set_nth S2 I1 t0 i0 s0 HI1 ltac:(unfold i0; lia)) as B.
    unfold S2 in B. rewrite set_nth_set_nth in B. unfold s0 in B. rewrite set_nth_nth in B. exact B.
  - unfold merge2. rewrite nth_set_nth_same by lia. rewrite nth_set_nth_other by lia.
    unfold I1 at 1. rewrite nth_insert_nth by lia. rewrite set_nth_set_nth.
    replace (i0 + i1)%nat with (nth t0 K 0%nat) by (unfold i1, i0; lia).
    rewrite <- set_nth_remove_nth by assumption. unfold I1. rewrite remove_insert_nth by lia. apply set_nth_nth. Qed.

(** ** combine_two_pops commutes with fold *)
Section FoldCombine2.
  Variables (g : spec R) (p q : nat).
  Hypothesis Hp : (1 <= p <= length (sh g))%nat.
  Hypothesis Hq : (1 <= q <= length (sh g))%nat.
  Hypothesis Hpq : p <> q.
  Hypothesis Hpos : pos (sh g).
  Let t0 := pred (Nat.min p q).
  Let t1 := pred (Nat.max p q).
  Let S := sh g.
  Let S' := merge2 (fun x y => x + y - 1)%nat 0%nat t0 t1 S.
  Let f := merge2 Nat.add 0%nat t0 t1.

  Lemma FC_t01 : (t0 < t1)%nat /\ (t1 < length S)%nat.
  Proof. unfold t0, t1, S. lia. Qed.

  Lemma FC_isum I : inr S I -> isum (f I) = isum I.
  Proof. intros HI. destruct FC_t01. apply isum_merge2; [assumption|]. rewrite (inr_length _ _ HI). assumption. Qed.
  Lemma FC_nsamp : nsamp S' = nsamp S.
  Proof. destruct FC_t01. apply nsamp_merge2; assumption. Qed.
  Lemma FC_rev I : inr S I -> f (rev_idx S I) = rev_idx S' (f I).
  Proof. intros HI. destruct FC_t01. apply merge2_rev_idx; assumption. Qed.
  Lemma FC_maps : maps S S' f.
  Proof. destruct FC_t01. apply maps_merge2; lia. Qed.
  Lemma FC_fo I : inr S I -> folded_out S I = folded_out S' (f I).
  Proof. intros HI. unfold folded_out. rewrite FC_nsamp, FC_isum by assumption. reflexivity. Qed.
  Lemma FC_amb I : inr S I -> ambiguous S I = ambiguous S' (f I).
  Proof. intros HI. unfold ambiguous. rewrite FC_nsamp, FC_isum by assumption. reflexivity. Qed.

  (** the mirror maps the fibre of K onto the fibre of mirror K *)
  Lemma FC_fiber_mirror (v : idx -> R) K : inr S' K ->
    fiber_sum S f (fun I => v (rev_idx S I)) K = fiber_sum S f v (rev_idx S' K).
  Proof. intros HK. rewrite !fiber_sum_big.
    apply (bigR_reindex (indices S) (indices S) (fun I => idx_eqb (f I) K) (fun I => idx_eqb (f I) (rev_idx S' K))
             (rev_idx S) (rev_idx S) v); try apply NoDup_indices.
    - intros I HI E. apply in_indices in HI. apply idx_eqb_spec in E. split; [apply in_indices, rev_idx_inr, HI|]. split.
      + apply idx_eqb_spec. rewrite FC_rev by assumption. rewrite E. reflexivity.
      + apply rev_idx_invol, HI.
    - intros I HI E. apply in_indices in HI. apply idx_eqb_spec in E. split; [apply in_indices, rev_idx_inr, HI|]. split.
      + apply idx_eqb_spec. rewrite FC_rev by assumption. rewrite E. apply rev_idx_invol, HK.
      + apply rev_idx_invol, HI. Qed.

  Theorem combine_two_commutes_with_fold :
    same_spectrum (combine_two_pops p q (fold g)) (fold (combine_two_pops p q g)).
  Proof. destruct FC_t01 as [H01 H1].
    destruct (combine_two_spec (fold g) p q Hp Hq Hpq) as (S1 & F1 & I1 & V1 & _).
    destruct (combine_two_spec g p q Hp Hq Hpq) as (S2 & F2 & I2 & V2 & _).
    cbn [fold sh ids fo] in S1, F1, I1, V1. fold t0 t1 in S1, I1, V1, S2, I2, V2. fold S in S1, V1, S2, V2. fold S' in S1, S2. fold f in V1, V2.
    set (X := combine_two_pops p q (fold g)) in *. set (c := combine_two_pops p q g) in *.
    rewrite S1 in V1. rewrite S2 in V2.
    split; [cbn [fold sh]; congruence|]. split; [cbn [fold ids]; congruence|]. split; [cbn [fold fo]; congruence|].
    intros K HK. rewrite S1 in HK. apply in_indices in HK.
    assert (HRK : inr S' (rev_idx S' K)) by (apply rev_idx_inr, HK).
    destruct (V1 K HK) as [EX MX]. destruct (V2 K HK) as [EC MC]. destruct (V2 _ HRK) as [ECR MCR].
    split.
    - (* data *)
      cbn [fold va sh]. rewrite S2, EC, ECR, EX. rewrite <- (FC_fiber_mirror (va g) K HK).
      set (A := fiber_sum S f (va g) K). set (B := fiber_sum S f (fun I => va g (rev_idx S I)) K).
      set (cA := if folded_out S' K then 0 else if ambiguous S' K then 1 - 1 / 2 else 1).
      set (cB := if folded_out S' K then 0
                 else (if folded_out S' (rev_idx S' K) then 1 else 0) + (if ambiguous S' K then 1 / 2 else 0)).
      transitivity (cA * A + cB * B).
      + unfold A, B. rewrite !fiber_sum_big. rewrite <- !bigR_scal.
        rewrite <- (big_op R Rplus 0 Rp_assoc Rp_comm Rp_0_l).
        apply (big_ext R Rplus 0). intros I HI. apply in_indices in HI.
        destruct (idx_eqb (f I) K) eqn:E; [|ring]. apply idx_eqb_spec in E.
        cbn [fold va sh]. fold S. rewrite (FC_fo I HI), (FC_amb I HI), (FC_fo _ (rev_idx_inr _ _ HI)), (FC_rev I HI), E.
        unfold cA, cB, nhalf, n2. numR.
        destruct (folded_out S' K), (folded_out S' (rev_idx S' K)), (ambiguous S' K); lra.
      + unfold cA, cB, nhalf, n2. numR.
        destruct (folded_out S' K), (folded_out S' (rev_idx S' K)), (ambiguous S' K); lra.
    - (* mask *)
      cbn [fold mk sh]. rewrite S2, MC, MCR, MX. rewrite (is_corner_rev _ _ HK).
      apply eq_true_iff_eq. rewrite !orb_true_iff. unfold fiber_any. rewrite !existsb_exists. split.
      + intros [Hc|(I & HI & HIc)]; [left; left; left; left; exact Hc|].
        apply in_indices in HI. apply andb_true_iff in HIc as [E HIc]. apply idx_eqb_spec in E.
        cbn [fold mk sh] in HIc. fold S in HIc. rewrite !orb_true_iff in HIc.
        destruct HIc as [[[M|M]|M]|M].
        * left. left. left. right. exists I. split; [apply in_indices, HI|]. rewrite <- E, idx_eqb_refl, M. reflexivity.
        * left. left. right. right. exists (rev_idx S I). split; [apply in_indices, rev_idx_inr, HI|].
          rewrite (FC_rev I HI), E, idx_eqb_refl, M. reflexivity.
        * left. right. rewrite <- E, <- (FC_fo I HI). exact M.
        * right. rewrite <- E. apply merge2_corner; assumption.
      + intros [[[[Hc|(I & HI & HIc)]|[Hc|(I & HI & HIc)]]|Hf]|Hc]; try (left; exact Hc); right.
        * apply in_indices in HI. apply andb_true_iff in HIc as [E M]. exists I. split; [apply in_indices, HI|].
          rewrite E. cbn [fold mk sh andb]. rewrite M. reflexivity.
        * apply in_indices in HI. apply andb_true_iff in HIc as [E M]. apply idx_eqb_spec in E.
          exists (rev_idx S I). split; [apply in_indices, rev_idx_inr, HI|].
          rewrite (FC_rev I HI), E, (rev_idx_invol _ _ HK), idx_eqb_refl. cbn [fold mk sh andb]. fold S.
          rewrite (rev_idx_invol _ _ HI), M. rewrite orb_true_r. reflexivity.
        * destruct (merge2_fiber_nonempty t0 t1 S K H01 H1 Hpos HK) as (I0 & HI0 & E0). fold f in E0.
          exists I0. split; [apply in_indices, HI0|]. rewrite E0, idx_eqb_refl. cbn [fold mk sh andb]. fold S.
          rewrite (FC_fo I0 HI0), E0, Hf. rewrite orb_true_r. reflexivity. Qed.
End FoldCombine2.

(** ** fold and combine_two_pops respect same_spectrum *)
Lemma fold_cong (x y : spec R) : same_spectrum x y -> same_spectrum (fold x) (fold y).
Proof. intros (E1 & E2 & E3 & E4). split; [exact E1|]. split; [exact E2|]. split; [reflexivity|].
  intros J HJ. cbn [fold sh] in HJ. pose proof HJ as HJ'. apply in_indices in HJ'.
  pose proof (rev_idx_inr _ _ HJ') as HR. apply in_indices in HR.
  destruct (E4 J HJ) as [A1 A2]. destruct (E4 _ HR) as [B1 B2].
  cbn [fold va mk sh]. rewrite <- E1, <- A1, <- A2, <- B1, <- B2. split; reflexivity. Qed.

Lemma combine_two_cong (x y : spec R) p q :
  same_spectrum x y -> (1 <= p <= length (sh x))%nat -> (1 <= q <= length (sh x))%nat -> p <> q ->
  same_spectrum (combine_two_pops p q x) (combine_two_pops p q y).
Proof. intros (E1 & E2 & E3 & E4) Hp Hq Hpq.
  destruct (combine_two_spec x p q Hp Hq Hpq) as (S1 & F1 & I1 & V1 & _).
  destruct (combine_two_spec y p q ltac:(rewrite <- E1; exact Hp) ltac:(rewrite <- E1; exact Hq) Hpq) as (S2 & F2 & I2 & V2 & _).
  assert (ES : sh (combine_two_pops p q x) = sh (combine_two_pops p q y)) by congruence.
  split; [exact ES|]. split; [congruence|]. split; [congruence|].
  intros K HK. apply in_indices in HK. destruct (V1 K HK) as [A1 A2]. rewrite ES in HK. destruct (V2 K HK) as [B1 B2].
  rewrite A1, A2, B1, B2, <- ES, <- E1. split.
  - rewrite !fiber_sum_big. apply (big_ext R Rplus 0). intros I HI. rewrite (proj1 (E4 I HI)). reflexivity.
  - f_equal. unfold fiber_any. apply existsb_ext_in. intros I HI. rewrite (proj2 (E4 I HI)). reflexivity. Qed.

Lemma merge2_pos t0 t1 S : (t0 < t1)%nat -> (t1 < length S)%nat -> pos S -> pos (merge2 (fun x y => x + y - 1)%nat 0%nat t0 t1 S).
Proof. intros H01 H1 Hp. unfold merge2. apply remove_nth_pos. apply set_nth_pos'; [|assumption].
  pose proof (pos_nth t0 S Hp ltac:(lia)). pose proof (pos_nth t1 S Hp ltac:(lia)). lia. Qed.

(** ** combine_pops by iteration *)
Section Iter.
  Variable t0 : nat.
  Let step := fun (r : spec R) t => combine_two_pops (Datatypes.S t0) (Datatypes.S t) r.

  Lemma step_shape (b : spec R) t : (t0 < t)%nat -> (t < length (sh b))%nat ->
    sh (step b t) = merge2 (fun x y => x + y - 1)%nat 0%nat t0 t (sh b) /\ length (sh (step b t)) = pred (length (sh b)).
  Proof. intros Ht0 Ht. destruct (combine_two_spec b (Datatypes.S t0) (Datatypes.S t) ltac:(lia) ltac:(lia) ltac:(lia)) as (S1 & _).
    replace (Nat.min (Datatypes.S t0) (Datatypes.S t)) with (Datatypes.S t0) in S1 by lia.
    replace (Nat.max (Datatypes.S t0) (Datatypes.S t)) with (Datatypes.S t) in S1 by lia. cbn [pred] in S1.
    split; [exact S1|]. unfold step. rewrite S1. apply merge2_length. assumption. Qed.

  Lemma iter_cong ts' : forall x y : spec R,
    StronglySorted gt ts' -> Forall (fun t => (t0 < t)%nat) ts' -> Forall (fun t => (t < length (sh x))%nat) ts' ->
    same_spectrum x y -> same_spectrum (fold_left step ts' x) (fold_left step ts' y).
  Proof. induction ts' as [|t ts' IH]; intros x y Hs H0 Hl Hxy; cbn [fold_left]; [exact Hxy|].
    inversion Hs as [|? ? Hs' Hgt]; subst. inversion H0 as [|? ? Ht0 H0']; subst. inversion Hl as [|? ? Htl Hl']; subst.
    destruct (step_shape x t Ht0 Htl) as [_ Lx].
    apply IH; [assumption|assumption| |].
    - rewrite Forall_forall in *. intros u Hu. specialize (Hgt u Hu). specialize (Hl' u Hu). lia.
    - apply combine_two_cong; [exact Hxy|lia|lia|lia]. Qed.

  Lemma iter_fold ts' : forall b : spec R,
    StronglySorted gt ts' -> Forall (fun t => (t0 < t)%nat) ts' -> Forall (fun t => (t < length (sh b))%nat) ts' -> pos (sh b) ->
    same_spectrum (fold_left step ts' (fold b)) (fold (fold_left step ts' b)).
  Proof. induction ts' as [|t ts' IH]; intros b Hs H0 Hl Hp; cbn [fold_left]; [apply same_spectrum_refl|].
    inversion Hs as [|? ? Hs' Hgt]; subst. inversion H0 as [|? ? Ht0 H0']; subst. inversion Hl as [|? ? Htl Hl']; subst.
    destruct (step_shape b t Ht0 Htl) as [Sb Lb].
    assert (Hl'' : Forall (fun u => (u < length (sh (step b t)))%nat) ts').
    { rewrite Forall_forall in *. intros u Hu. specialize (Hgt u Hu). specialize (Hl' u Hu). lia. }
    apply (same_spectrum_trans _ (fold_left step ts' (fold (step b t)))).
    - apply iter_cong; [assumption|assumption| |].
      + destruct (step_shape (fold b) t Ht0 Htl) as [_ Lf]. cbn [fold sh] in Lf.
        rewrite Forall_forall in *. intros u Hu. specialize (Hgt u Hu). specialize (Hl' u Hu). lia.
      + unfold step. apply combine_two_commutes_with_fold; [lia|lia|lia|exact Hp].
    - apply IH; [assumption|assumption|exact Hl''|]. rewrite Sb. apply merge2_pos; assumption. Qed.
End Iter.

Theorem combine_pops_commutes_with_fold (g : spec R) tc :
  NoDup tc -> tc <> [] -> Forall (fun p => (1 <= p <= length (sh g))%nat) tc -> pos (sh g) ->
  same_spectrum (combine_pops tc (fold g)) (fold (combine_pops tc g)).
Proof. intros Hnd Hne Hall Hp.
  rewrite (combine_pops_unfold (fold g) tc Hnd Hne Hall), (combine_pops_unfold g tc Hnd Hne Hall). cbv zeta.
  destruct (ds_range g tc Hnd Hne Hall) as [R0 R1].
  pose proof (iter_fold (merged_axis tc) (rev (other_axes tc)) g (ds_desc g tc Hnd Hne Hall) R0 R1 Hp) as IF.
  cbv beta in IF.
  set (r := fold_left (fun r t => combine_two_pops (Datatypes.S (merged_axis tc)) (Datatypes.S t) r) (rev (other_axes tc)) (fold g)) in *.
  set (r' := fold_left (fun r t => combine_two_pops (Datatypes.S (merged_axis tc)) (Datatypes.S t) r) (rev (other_axes tc)) g) in *.
  pose proof IF as SS. destruct IF as (E1 & E2 & E3 & E4). cbn [fold ids sh fo] in E1, E2, E3. cbn [fold ids].
  rewrite E2. destruct (ids g) as [l0|]; [destruct (ids r') as [lr|] eqn:Er'|].
  - split; [exact E1|]. split; [reflexivity|]. split; [exact E3|]. exact E4.
  - exact SS.
  - exact SS. Qed.
