From Coq Require Import ZArith Reals List Lra Lia.
From Dadi Require Import Base.Num Base.NumR Model.Extrap Proofs.ExtrapProofs Proofs.ExtrapProofs6.
Import ListNotations.
Local Open Scope R_scope.

Ltac nodup_inv :=
  repeat match goal with
  | H : NoDup (_ :: _) |- _ => inversion H; clear H; subst
  | H : NoDup [] |- _ => clear H
  end; cbn [In] in *.

(** For every k in 1..6: data that is a polynomial of degree < k in the grid spacing, sampled at
    k pairwise distinct spacings, extrapolates exactly to the value at spacing 0. *)
Lemma extrap_exact (cs xs : list R) :
  length cs = length xs -> (1 <= length xs <= 6)%nat -> NoDup xs ->
  extrap_entry xs (map (peval cs) xs) = Some (hd 0 cs).
Proof.
  intros Hl Hk Hd.
  destruct xs as [|x1 [|x2 [|x3 [|x4 [|x5 [|x6 [|x7 xs]]]]]]]; cbn [length] in Hk; try lia;
  destruct cs as [|c0 [|c1 [|c2 [|c3 [|c4 [|c5 [|c6 cs]]]]]]]; cbn [length] in Hl; try discriminate; clear Hl Hk;
  nodup_inv.
  - apply exact1.
  - change (Some (lagrange0 (pdata [c0;c1] [x1;x2])) = Some c0). f_equal. apply exact2; intuition.
  - change (Some (lagrange0 (pdata [c0;c1;c2] [x1;x2;x3])) = Some c0). f_equal. apply exact3; intuition.
  - change (Some (lagrange0 (pdata [c0;c1;c2;c3] [x1;x2;x3;x4])) = Some c0). f_equal. apply exact4; intuition.
  - change (Some (lagrange0 (pdata [c0;c1;c2;c3;c4] [x1;x2;x3;x4;x5])) = Some c0). f_equal. apply exact5; intuition.
  - change (Some (lagrange0 (pdata [c0;c1;c2;c3;c4;c5] [x1;x2;x3;x4;x5;x6])) = Some c0). f_equal. apply exact6; intuition.
Qed.

(** log variant: if the logarithm of the data is such a polynomial, the exponential of the
    extrapolated logarithm is exp(value at 0). *)
Lemma extrap_log_exact (cs xs ys : list R) :
  length cs = length xs -> (1 <= length xs <= 6)%nat -> NoDup xs ->
  map ln ys = map (peval cs) xs ->
  option_map exp (extrap_entry xs (map ln ys)) = Some (exp (hd 0 cs)).
Proof. intros Hl Hk Hd Hy. rewrite Hy, extrap_exact by assumption. reflexivity. Qed.

(** order of the grid list: any simultaneous permutation of (x_i, y_i) gives the same result *)
Lemma extrap_entry_perm (xs ys xs' ys' : list R) :
  length xs = length ys -> length xs' = length ys' ->
  Permutation.Permutation (combine xs ys) (combine xs' ys') ->
  (2 <= length xs)%nat ->
  extrap_entry xs ys = extrap_entry xs' ys'.
Proof.
  intros H1 H2 P Hk.
  assert (Hlen : length xs = length xs').
  { apply Permutation.Permutation_length in P. rewrite !combine_length in P. lia. }
  unfold extrap_entry. rewrite <- Hlen, <- H2, <- Hlen, H1, Nat.eqb_refl.
  rewrite (lagrange0_perm _ _ P).
  destruct (length ys) as [|[|[|[|[|[|[|n]]]]]]]; try reflexivity; lia.
Qed.

(** more than 6 or zero grid sizes are refused *)
Lemma extrap_refuses (xs ys : list R) : (length xs = 0 \/ 6 < length xs)%nat -> extrap_entry xs ys = None.
Proof. intros [Hk|Hk]; unfold extrap_entry.
  - rewrite Hk. destruct (Nat.eqb _ _); reflexivity.
  - destruct (length xs) as [|[|[|[|[|[|[|n]]]]]]]; try lia; destruct (Nat.eqb _ _); reflexivity. Qed.

(** fallback, entry by entry *)
Lemma fallback_spec (logm : bool) fm (xs ys : list R) e :
  (2 <= length xs)%nat -> extrap_entry xs (if logm then map ln ys else ys) = Some e ->
  let ex := if logm then exp e else e in
  let best := nth (argmin xs) ys 0 in
  extrap_full logm fm xs ys = Some (if far fm ex best then best else ex).
Proof. intros Hk He. unfold extrap_full. numR. rewrite He.
  destruct (length xs) as [|[|n]]; try lia; reflexivity. Qed.

Lemma k1_is_identity (logm : bool) fm x y : (logm = true -> 0 < y) ->
  extrap_full logm fm [x] [y] = Some y.
Proof. intros Hy. unfold extrap_full, extrap_entry. destruct logm; cbn; numR; [|reflexivity].
  rewrite exp_ln; auto. Qed.
