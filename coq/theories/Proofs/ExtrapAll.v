From Coq Require Import ZArith Reals List Lra Lia.
From Dadi Require Import Base.Num Base.NumR Model.Extrap Proofs.ExtrapProofs Proofs.ExtrapProofs6.
Import ListNotations.
Local Open Scope R_scope.

Ltac nodup_inv :=
  repeat match goal with
  | H : NoDup (_ :: _) |- _ => inversion H; clear H; subst
  | H : NoDup [] |- _ => clear H
  end; cbn [In] in *.

(** For every k in 1..6: data that is a polynomial of degree < k in the grid spacing, sampled at
    k pairwise distinct spacings, extrapolates exactly to the value at spacing 0. *)
Lemma extrap_exact (cs xs : list R) :
  length cs = length xs -> (1 <= length xs <= 6)%nat -> NoDup xs ->
  extrap_entry xs (map (peval cs) xs) = Some (hd 0 cs).
Proof.
  intros Hl Hk Hd.
  destruct xs as [|x1 [|x2 [|x3 [|x4 [|x5 [|x6 [|x7 xs]]]]]]]; cbn [length] in Hk; try lia;
  destruct cs as [|c0 [|c1 [|c2 [|c3 [|c4 [|c5 [|c6 cs]]]]]]]; cbn [length] in Hl; try discriminate; clear Hl Hk;
  nodup_inv.
  - apply exact1.
  - change (Some (lagrange0 (pdata [c0;c1] [x1;x2])) = Some c0). f_equal. apply exact2; intuition.
  - change (Some (lagrange0 (pdata [c0;c1;c2] [x1;x2;x3])) = Some c0). f_equal. apply exact3; intuition.
  - change (Some (lagrange0 (pdata [c0;c1;c2;c3] [x1;x2;x3;x4])) = Some c0). f_equal. apply exact4; intuition.
  - change (Some (lagrange0 (pdata [c0;c1;c2;c3;c4] [x1;x2;x3;x4;x5])) = Some c0). f_equal. apply exact5; intuition.
  - change (Some (lagrange0 (pdata [c0;c1;c2;c3;c4;c5] [x1;x2;x3;x4;x5;x6])) = Some c0). f_equal. apply exact6; intuition.
Qed.

(** log variant: if the logarithm of the data is such a polynomial, the exponential of the
    extrapolated logarithm is exp(value at 0). *)
Lemma extrap_log_exact (cs xs ys : list R) :
  length cs = length xs -> (1 <= length xs <= 6)%nat -> NoDup xs ->
  map ln ys = map (peval cs) xs ->
  option_map exp (extrap_entry xs (map ln ys)) = Some (exp (hd 0 cs)).
Proof. intros Hl Hk Hd Hy. rewrite Hy, extrap_exact by assumption. reflexivity. Qed.

(** order of the grid list: any simultaneous permutation of (x_i, y_i) gives the same result *)
Lemma extrap_entry_perm (xs ys xs' ys' : list R) :
  length xs = length ys -> length xs' = length ys' ->
  Permutation.Permutation (combine xs ys) (combine xs' ys') ->
  (2 <= length xs)%nat ->
  extrap_entry xs ys = extrap_entry xs' ys'.
Proof.
  intros H1 H2 P Hk.
  assert (Hlen : length xs = length xs').
  { apply Permutation.Permutation_length in P. rewrite !combine_length in P. lia. }
  unfold extrap_entry. rewrite <- Hlen, <- H2, <- Hlen, H1, Nat.eqb_refl.
  rewrite (lagrange0_perm _ _ P).
  destruct (length ys) as [|[|[|[|[|[|[|n]]]]]]]; try reflexivity; lia.
Qed.

(** more than 6 or zero grid sizes are refused *)
Lemma extrap_refuses (xs ys : list R) : (length xs = 0 \/ 6 < length xs)%nat -> extrap_entry xs ys = None.
Proof. intros [Hk|Hk]; unfold extrap_entry.
  - rewrite Hk. destruct (Nat.eqb _ _); reflexivity.
  - destruct (length xs) as [|[|[|[|[|[|[|n]]]]]]]; try lia; destruct (Nat.eqb _ _); reflexivity. Qed.

(** fallback, entry by entry *)
Lemma fallback_spec (logm : bool) fm (xs ys : list R) e :
  (2 <= length xs)%nat -> extrap_entry xs (if logm then map ln ys else ys) = Some e ->
  let ex := if logm then exp e else e in
  let best := nth (argmin xs) ys 0 in
  extrap_full logm fm xs ys = Some (if far fm ex best then best else ex).
Proof. intros Hk He. unfold extrap_full. numR. rewrite He.
  destruct (length xs) as [|[|n]]; try lia; reflexivity. Qed.

Lemma k1_is_identity (logm : bool) fm x y : (logm = true -> 0 < y) ->
  extrap_full logm fm [x] [y] = Some y.
Proof. intros Hy. unfold extrap_full, extrap_entry. destruct logm; cbn; numR; [|reflexivity].
  rewrite exp_ln; auto. Qed.

(** ** the wrapped function used repeatedly (one wrap, any number of calls) *)

(** every call returns what the pure function returns on the list given at wrap time, and the captured list is
    left as it was: the k-th call cannot tell how many calls went before it. *)
Lemma run_calls_pure (step : list R -> list R -> option R) store calls :
  run_calls step store calls = (map (fun c => step (call_xs store (fst c)) (snd c)) calls, store).
Proof. induction calls as [|c t IH]; [reflexivity|]. cbn [run_calls wrapped_call fst snd map]. rewrite IH. reflexivity. Qed.

(** so: polynomial data (any coefficient set per call; with no explicit list, any grid list per call) extrapolates
    exactly on EVERY call of the same wrapped function. *)
Lemma repeated_calls_exact (store : option (list R)) (calls : list (list R * list R)) :
  Forall (fun c => let xs := call_xs store (fst c) in
                   length (snd c) = length xs /\ (1 <= length xs <= 6)%nat /\ NoDup xs) calls ->
  run_calls extrap_entry store (map (fun c => (fst c, map (peval (snd c)) (call_xs store (fst c)))) calls)
  = (map (fun c => Some (hd 0 (snd c))) calls, store).
Proof.
  intros Hall. rewrite run_calls_pure. f_equal. rewrite map_map.
  apply map_ext_in. intros c Hin. cbn [fst snd].
  rewrite Forall_forall in Hall. destruct (Hall c Hin) as (Hl & Hk & Hd). apply extrap_exact; assumption.
Qed.

(** a wrapper that reverses (a fortiori: sorts) the captured list in place after using it is exact on the first call
    and wrong on the second: f(x) = x on the spacings [2; 1]. *)
Lemma rewriting_store_refuted :
  exists (g : list R -> list R) (xs cs : list R),
    length cs = length xs /\ NoDup xs /\
    let c := (@nil R, map (peval cs) xs) in
    nth 0 (fst (run_calls_rewriting g extrap_entry (Some xs) [c; c])) None = Some (hd 0 cs) /\
    nth 1 (fst (run_calls_rewriting g extrap_entry (Some xs) [c; c])) None <> Some (hd 0 cs).
Proof.
  exists (@rev R), [2; 1], [0; 1]. split; [reflexivity|]. split.
  { repeat constructor; cbn [In]; intuition lra. }
  cbn [run_calls_rewriting option_map call_xs fst snd nth rev app hd]. split.
  - apply (extrap_exact [0; 1] [2; 1]); [reflexivity | cbn; lia | repeat constructor; cbn [In]; intuition lra].
  - unfold extrap_entry. cbn [length map peval Nat.eqb combine].
    assert (E : lagrange0 [(1, 0 + 2 * (1 + 2 * 0)); (2, 0 + 1 * (1 + 1 * 0))] = 3).
    { assert (H12 : 1 <> 2) by lra. lag_unfold. field. }
    numR. cbn [peval] in *. numR. intros Hc. injection Hc as Hc. revert Hc. numR. intros Hc. rewrite E in Hc. lra.
Qed.

(** ** the batched form used by the correspondence check is the model, for every number type (no algebra involved) *)
Section Batched.
  Context {F : Type} `{Num F}.
  Lemma map_fst_combine_len (xs ys : list F) : length xs = length ys -> map fst (combine xs ys) = xs.
  Proof. revert ys; induction xs as [|x t IH]; intros [|y u] Hl; cbn in *; try discriminate; [reflexivity|].
    f_equal. apply IH. congruence. Qed.
  Lemma map_weights_combine (g : F -> F) (xs ys : list F) :
    map (fun p => nmul (g (fst p)) (snd p)) (combine xs ys) = map (fun p => nmul (fst p) (snd p)) (combine (map g xs) ys).
  Proof. revert ys; induction xs as [|x t IH]; intros [|y u]; cbn; try reflexivity. f_equal. apply IH. Qed.
  Lemma lagrange0_w_eq (xs ys : list F) : length xs = length ys ->
    lagrange0_w (map (lag0_weight xs) xs) ys = lagrange0 (combine xs ys).
  Proof. intros Hl. unfold lagrange0, lagrange0_w. rewrite (map_fst_combine_len xs ys Hl).
    rewrite <- map_weights_combine. reflexivity. Qed.
  Lemma extrap_entry_w_eq (xs ys : list F) : extrap_entry_w xs (map (lag0_weight xs) xs) ys = extrap_entry xs ys.
  Proof. unfold extrap_entry_w, extrap_entry. destruct (Nat.eqb (length xs) (length ys)) eqn:E.
    - apply Nat.eqb_eq in E. rewrite (lagrange0_w_eq xs ys E). reflexivity.
    - destruct (length xs) as [|[|[|[|[|[|[|n]]]]]]]; reflexivity. Qed.
  Lemma extrap_full_pre_eq (logm : bool) (fm : F) (xs ys : list F) :
    extrap_full_pre logm fm xs (map (lag0_weight xs) xs) ys (if logm then map nln ys else ys) = extrap_full logm fm xs ys.
  Proof. unfold extrap_full_pre, extrap_full. rewrite extrap_entry_w_eq. reflexivity. Qed.
End Batched.

(** ** how the spacings are typed (integer / float, mixed): the typed call is the untyped one on the numbers denoted *)
Lemma typing_irrelevant (xs xs' : list (@xval R)) (ys : list R) :
  map xnum xs = map xnum xs' -> extrap_entry_typed xs ys = extrap_entry_typed xs' ys.
Proof. unfold extrap_entry_typed. intros ->. reflexivity. Qed.

Lemma typing_irrelevant_full (logm : bool) fm (xs xs' : list (@xval R)) (ys : list R) :
  map xnum xs = map xnum xs' -> extrap_full_typed logm fm xs ys = extrap_full_typed logm fm xs' ys.
Proof. unfold extrap_full_typed. intros ->. reflexivity. Qed.

Lemma int_written_as_float (zs : list Z) :
  map xnum (map (@XInt R) zs) = map xnum (map (fun z => XNum (IZR z)) zs).
Proof. rewrite !map_map. reflexivity. Qed.

Lemma typed_exact (cs : list R) (xs : list (@xval R)) :
  length cs = length xs -> (1 <= length xs <= 6)%nat -> NoDup (map xnum xs) ->
  extrap_entry_typed xs (map (peval cs) (map xnum xs)) = Some (hd 0 cs).
Proof. intros Hl Hk Hd. unfold extrap_entry_typed. apply extrap_exact; rewrite ?map_length; assumption. Qed.

Lemma NoDup_map_IZR (zs : list Z) : NoDup zs -> NoDup (map IZR zs).
Proof. induction 1 as [|z t Hn Hd IH]; cbn [map]; constructor; [|exact IH].
  intros Hin. apply in_map_iff in Hin. destruct Hin as (z' & He & Hin). apply eq_IZR in He. subst. contradiction. Qed.

Lemma integer_spacings_exact (cs : list R) (zs : list Z) :
  length cs = length zs -> (1 <= length zs <= 6)%nat -> NoDup zs ->
  extrap_entry_typed (map XInt zs) (map (peval cs) (map IZR zs)) = Some (hd 0 cs).
Proof. intros Hl Hk Hd.
  assert (E : map xnum (map (@XInt R) zs) = map IZR zs) by (rewrite map_map; reflexivity).
  rewrite <- E. apply typed_exact; rewrite ?map_length; try assumption. rewrite E. apply NoDup_map_IZR, Hd. Qed.

Lemma integer_spacings_log_exact (cs : list R) (zs : list Z) (ys : list R) :
  length cs = length zs -> (1 <= length zs <= 6)%nat -> NoDup zs ->
  map ln ys = map (peval cs) (map IZR zs) ->
  option_map exp (extrap_entry_typed (map XInt zs) (map ln ys)) = Some (exp (hd 0 cs)).
Proof. intros Hl Hk Hd Hy. rewrite Hy, integer_spacings_exact by assumption. reflexivity. Qed.

(** an implementation that keeps the weights of an all-integer list in an integer container (cut toward zero, or floored)
    is not exact: f(x) = x on the spacings 2, 7, 11, 13 (true weights 91/45, -143/60, 91/36, -7/6). *)
Lemma integer_weights_refuted :
  exists (zs : list Z) (cs : list R), length cs = length zs /\ NoDup zs /\
    extrap_entry_typed (map XInt zs) (map (peval cs) (map IZR zs)) = Some (hd 0 cs) /\
    lagrange0_intweights Z.quot zs (map (peval cs) (map IZR zs)) <> hd 0 cs /\
    lagrange0_intweights Z.div zs (map (peval cs) (map IZR zs)) <> hd 0 cs.
Proof.
  exists [2; 7; 11; 13]%Z, [0; 1; 0; 0].
  assert (Hd : NoDup [2; 7; 11; 13]%Z) by (repeat constructor; cbn [In]; intuition discriminate).
  split; [reflexivity|]. split; [exact Hd|]. split.
  { apply integer_spacings_exact; [reflexivity | cbn; lia | exact Hd]. }
  assert (Hq : map (zweight Z.quot [2; 7; 11; 13]%Z) [2; 7; 11; 13]%Z = [2; -2; 2; -1]%Z) by (vm_compute; reflexivity).
  assert (Hf : map (zweight Z.div [2; 7; 11; 13]%Z) [2; 7; 11; 13]%Z = [2; -3; 2; -2]%Z) by (vm_compute; reflexivity).
  unfold lagrange0_intweights. split.
  - rewrite <- (map_map (zweight Z.quot [2; 7; 11; 13]%Z) (@nofZ R _)), Hq.
    unfold lagrange0_w, nsum. cbn [map combine fold_right fst snd peval hd]. numR. lra.
  - rewrite <- (map_map (zweight Z.div [2; 7; 11; 13]%Z) (@nofZ R _)), Hf.
    unfold lagrange0_w, nsum. cbn [map combine fold_right fst snd peval hd]. numR. lra.
Qed.
(** ** the fallback decision [far] for EVERY threshold, edge values included *)
Lemma nabs_Rabs (x : R) : @nabs R _ x = Rabs x.
Proof. unfold nabs. numR. destruct (Rleb 0 x) eqn:E.
  - apply Rleb_true in E. rewrite Rabs_right; lra.
  - apply Rleb_false in E. rewrite Rabs_left; lra. Qed.

Lemma far_spec (fm ex best : R) : 0 < ex / best ->
  (far fm ex best = true <-> fm < Rabs (ln (ex / best) / ln 10)).
Proof. intros Hr. unfold far, ln10, nltb. rewrite nabs_Rabs. numR.
  assert (E0 : Reqb (ex / best) 0 = false) by (apply Reqb_false; lra). rewrite E0.
  assert (E1 : Rleb 0 (ex / best) = true) by (apply Rleb_true; lra). rewrite E1. cbn [negb].
  destruct (Rleb (Rabs (ln (ex / best) / ln 10)) fm) eqn:E; cbn [negb].
  - apply Rleb_true in E. split; [discriminate | lra].
  - apply Rleb_false in E. split; auto. Qed.

Lemma far_zero_ratio (fm ex best : R) : ex / best = 0 -> far fm ex best = true.
Proof. intros Hr. unfold far. numR. rewrite (proj2 (Reqb_true _ _) Hr). reflexivity. Qed.

Lemma far_negative_ratio (fm ex best : R) : ex / best < 0 -> far fm ex best = false.
Proof. intros Hr. unfold far, nltb. numR.
  rewrite (proj2 (Reqb_false _ _)) by lra. rewrite (proj2 (Rleb_false 0 (ex / best))) by lra. reflexivity. Qed.

Lemma ln10_pos : 0 < ln 10.
Proof. rewrite <- ln_1. apply ln_increasing; lra. Qed.

(** threshold 0: every entry that differs at all from the finest-grid value (ratio positive) falls back *)
Lemma far_zero_threshold (ex best : R) : 0 < ex / best ->
  (far 0 ex best = true <-> ex <> best).
Proof. intros Hr. rewrite far_spec by exact Hr.
  assert (Hb : best <> 0). { intros ->. unfold Rdiv in Hr. rewrite Rinv_0, Rmult_0_r in Hr. lra. }
  pose proof ln10_pos as H10.
  split.
  - intros H Heq. subst ex. replace (best / best) with 1 in H by (field; exact Hb). rewrite ln_1 in H.
    replace (0 / ln 10) with 0 in H by (field; lra). rewrite Rabs_R0 in H. lra.
  - intros Hne. apply Rabs_pos_lt.
    assert (Hl : ln (ex / best) <> 0).
    { intros Hl. apply Hne. rewrite <- ln_1 in Hl. apply ln_inv in Hl; try lra.
      replace ex with (ex / best * best) by (field; exact Hb). rewrite Hl. ring. }
    intros Hq. apply Hl. replace (ln (ex / best)) with (ln (ex / best) / ln 10 * ln 10) by (field; lra). rewrite Hq. ring. Qed.

(** the threshold is monotone: what falls back at a threshold falls back at every smaller one; nothing falls back
    beyond the distance itself *)
Lemma far_monotone (fm fm' ex best : R) : fm' <= fm -> far fm ex best = true -> far fm' ex best = true.
Proof. intros Hle H. destruct (Rtotal_order (ex / best) 0) as [Hn|[Hz|Hp]].
  - rewrite far_negative_ratio in H by exact Hn. discriminate.
  - apply far_zero_ratio; exact Hz.
  - apply far_spec in H; [|exact Hp]. apply far_spec; [exact Hp | lra]. Qed.

(** zero threshold, whole result entry: with a positive ratio the result IS the finest-grid value *)
Lemma zero_threshold_returns_finest (ex best : R) : 0 < ex / best ->
  (if far 0 ex best then best else ex) = best.
Proof. intros Hr. destruct (far 0 ex best) eqn:E; [reflexivity|].
  destruct (Req_dec ex best) as [->|Hne]; [reflexivity|].
  apply (far_zero_threshold ex best Hr) in Hne. congruence. Qed.
