(** C18: at F = 0 the inbreeding form of the subsampling matrix (sum over genotype partitions of
    projection_inbreeding, weighted with the F = 0 partition probabilities) is the hypergeometric matrix the
    F = 0 branch uses.  Bounded: checked exhaustively for all even sequenced sizes <= 20 (the range of the
    property), all even subsample sizes and all allele counts, by computation. *)
From Coq Require Import ZArith QArith Qreduction List Bool Arith Lia.
From Dadi Require Import Model.LowPass.
Import ListNotations.
Local Open Scope Q_scope.

Definition lists_Qeqb (a b : list Q) : bool :=
  (length a =? length b)%nat && forallb (fun p => Qeq_bool (fst p) (snd p)) (combine a b).

Lemma lists_Qeqb_true : forall a b, lists_Qeqb a b = true -> Forall2 Qeq a b.
Proof.
  unfold lists_Qeqb. induction a as [|x a IH]; intros [|y b] H; apply andb_true_iff in H; destruct H as [L E];
    try (cbn in L; discriminate); [constructor|].
  cbn [combine forallb fst snd] in E. apply andb_true_iff in E. destruct E as [E1 E2].
  constructor; [apply Qeq_bool_iff, E1|]. apply IH. apply andb_true_iff. split; [exact L | exact E2].
Qed.

Definition proj_F0_row_ok (hn hm j : nat) : bool :=
  lists_Qeqb (proj_row_inb (2 * hn) (2 * hm) 0 j) (hyper_row (2 * hn) (2 * hm) j).

Definition proj_F0_check (hmax : nat) : bool :=
  forallb (fun hn => forallb (fun hm => forallb (proj_F0_row_ok hn hm) (seq 0 (2 * hn + 1))) (seq 1 hn)) (seq 1 hmax).

Lemma proj_F0_check_10 : proj_F0_check 10 = true.
Proof. vm_compute. reflexivity. Qed.

Theorem proj_matrix_F0_consistent_bounded hn hm j : (1 <= hm <= hn)%nat -> (hn <= 10)%nat -> (j <= 2 * hn)%nat ->
  Forall2 Qeq (proj_row_inb (2 * hn) (2 * hm) 0 j) (hyper_row (2 * hn) (2 * hm) j).
Proof.
  intros Hm Hn Hj. apply lists_Qeqb_true. pose proof proj_F0_check_10 as C. unfold proj_F0_check in C.
  rewrite forallb_forall in C. specialize (C hn ltac:(apply in_seq; lia)).
  rewrite forallb_forall in C. specialize (C hm ltac:(apply in_seq; lia)).
  rewrite forallb_forall in C. apply (C j). apply in_seq. lia.
Qed.
