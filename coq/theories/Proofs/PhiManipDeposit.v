(** The deposit of one density value at an ad-mixed frequency onto the two bracketing grid points
    (_admixture_intermediates): conservation under the trapezoid rule for EVERY frequency, bracketing,
    positivity of the normalising denominator, and the exact-grid-point case (pure split = copy). *)
From Coq Require Import List Arith Bool ZArith Reals Lra Lia.
From Dadi Require Import Base.Num Base.NumR Model.Tridiag Model.Scheme Model.NDSweep Model.PhiManip Proofs.PhiManipSums.
Import ListNotations.
Local Open Scope R_scope.

(** strictly increasing grid *)
Definition incr (zz : list R) : Prop := forall i j, (i < j < length zz)%nat -> nthF zz i < nthF zz j.

Lemma nthF_cons (z : R) t i : nthF (z :: t) (S i) = nthF t i. Proof. reflexivity. Qed.
Lemma nthF_cons0 (z : R) t : nthF (z :: t) 0 = z. Proof. reflexivity. Qed.

(** ** searchsorted (no sortedness needed for these two facts) *)
Lemma ss_le_len (zz : list R) v : (searchsorted zz v <= length zz)%nat.
Proof. induction zz as [|z t IH]; cbn [searchsorted length]; [lia|]. destruct (v <=? z)%num; lia. Qed.
Lemma ss_lt (zz : list R) v i : (i < searchsorted zz v)%nat -> nthF zz i < v.
Proof. revert i. induction zz as [|z t IH]; intros i Hi; cbn [searchsorted] in Hi; [lia|].
  destruct (v <=? z)%num eqn:E; [lia|]. numR. apply Rleb_false in E.
  destruct i as [|i]; [rewrite nthF_cons0; lra|]. rewrite nthF_cons. apply IH. lia. Qed.
Lemma ss_ge (zz : list R) v : (searchsorted zz v < length zz)%nat -> v <= nthF zz (searchsorted zz v).
Proof. induction zz as [|z t IH]; cbn [searchsorted length]; [lia|].
  destruct (v <=? z)%num eqn:E; numR.
  - intros _. apply Rleb_true in E. now rewrite nthF_cons0.
  - intros H. rewrite nthF_cons. apply IH. lia. Qed.
Lemma ss_on_grid (zz : list R) i : incr zz -> (i < length zz)%nat -> searchsorted zz (nthF zz i) = i.
Proof. intros Hinc Hi. set (s := searchsorted zz (nthF zz i)).
  assert (H1 : (s <= i)%nat).
  { destruct (le_lt_dec s i); auto. exfalso. pose proof (ss_lt zz (nthF zz i) i l). lra. }
  assert (H2 : nthF zz i <= nthF zz s) by (apply ss_ge; fold s; lia).
  destruct (Nat.eq_dec s i); auto. exfalso. assert (nthF zz s < nthF zz i) by (apply Hinc; lia). lra. Qed.

(** ** the clamped bracketing indices *)
Lemma upper_index_range (zz : list R) v : (2 <= length zz)%nat ->
  (1 <= upper_index zz v <= length zz - 1)%nat.
Proof. intros HL. unfold upper_index. lia. Qed.

(** trapezoid weights at the two indices, in terms of delz0/1/2 (with their [where] guards) *)
Lemma trap_w_upper (zz : list R) up : (1 <= up <= length zz - 1)%nat ->
  trap_w zz up = (delz1 zz (up - 1) up + delz2 zz up) / 2.
Proof. intros H. unfold trap_w, delz1, delz2, dx, x, n2. numR.
  replace (Nat.eqb up 0) with false by (symmetry; apply Nat.eqb_neq; lia).
  destruct (Nat.eqb up (length zz - 1)) eqn:E.
  - apply Nat.eqb_eq in E. replace (S (length zz - 2)) with up by lia. replace (length zz - 2)%nat with (up - 1)%nat by lia. lra.
  - apply Nat.eqb_neq in E. rewrite Nat.mod_small by lia. replace (up + 1)%nat with (S up) by lia.
    replace (S (up - 1)) with up by lia. lra. Qed.
Lemma trap_w_lower (zz : list R) up : (1 <= up <= length zz - 1)%nat ->
  trap_w zz (up - 1) = (delz0 zz (up - 1) + delz1 zz (up - 1) up) / 2.
Proof. intros H. unfold trap_w, delz0, delz1, dx, x, n2. numR.
  replace (Nat.eqb up 0) with false by (symmetry; apply Nat.eqb_neq; lia).
  destruct (Nat.eqb (up - 1) 0) eqn:E.
  - apply Nat.eqb_eq in E. replace up with 1%nat by lia. simpl. lra.
  - apply Nat.eqb_neq in E.
    replace (Nat.eqb (up - 1) (length zz - 1)) with false by (symmetry; apply Nat.eqb_neq; lia).
    replace (S (up - 1)) with up by lia. replace (S (up - 1 - 1)) with (up - 1)%nat by lia. lra. Qed.

Lemma dep_algebra a bb adz phi d0 d2 : a - bb <> 0 ->
  (a - adz) / (a - bb) * d0 + (a - bb) + (adz - bb) / (a - bb) * d2 <> 0 ->
  ((a - bb) + d2) / 2 * ((adz - bb) / (a - bb) * (2 * phi / ((a - adz) / (a - bb) * d0 + (a - bb) + (adz - bb) / (a - bb) * d2)))
  + (d0 + (a - bb)) / 2 * ((a - adz) / (a - bb) * (2 * phi / ((a - adz) / (a - bb) * d0 + (a - bb) + (adz - bb) / (a - bb) * d2)))
  = phi.
Proof. intros H1 H2. set (den := (a - adz) / (a - bb) * d0 + (a - bb) + (adz - bb) / (a - bb) * d2) in *.
  assert (E : ((a - bb) + d2) / 2 * ((adz - bb) / (a - bb)) + (d0 + (a - bb)) / 2 * ((a - adz) / (a - bb)) = den / 2).
  { unfold den. field. exact H1. }
  transitivity ((((a - bb) + d2) / 2 * ((adz - bb) / (a - bb)) + (d0 + (a - bb)) / 2 * ((a - adz) / (a - bb))) * (2 * phi / den)).
  { field. split; assumption. }
  rewrite E. field. exact H2. Qed.

(** the weighted sum of a column with two non-zero entries *)
Lemma nsum_two (w : nat -> R) up uc lc n : (1 <= up)%nat -> (up < n)%nat ->
  nsum (map (fun k => w k * (if Nat.eqb k up then uc else if Nat.eqb k (up - 1) then lc else 0)) (seq 0 n))
  = w up * uc + w (up - 1)%nat * lc.
Proof. intros H1 H2.
  rewrite (nsum_map_ext _ (fun k => (if Nat.eqb k up then w k * uc else 0) + (if Nat.eqb k (up - 1) then w k * lc else 0))).
  - rewrite nsum_map_plus. rewrite (nsum_single0 (fun k => w k * uc)) by lia.
    rewrite (nsum_single0 (fun k => w k * lc)) by lia. reflexivity.
  - intros k _. destruct (Nat.eqb k up) eqn:E1; destruct (Nat.eqb k (up - 1)) eqn:E2; try lra.
    apply Nat.eqb_eq in E1, E2. lia. Qed.

Lemma deposit_col_length (zz : list R) phi adz : length (deposit_col zz phi adz) = length zz.
Proof. unfold deposit_col. now rewrite map_length, seq_length. Qed.
Lemma deposit_col_nth (zz : list R) phi adz k : (k < length zz)%nat ->
  nthF (deposit_col zz phi adz) k =
  let up := upper_index zz adz in let lo := (up - 1)%nat in
  if Nat.eqb k up then frac_upper zz lo up adz * dep_norm zz lo up phi adz
  else if Nat.eqb k lo then frac_lower zz lo up adz * dep_norm zz lo up phi adz else 0.
Proof. intros Hk. unfold deposit_col. rewrite nthF_map_seq by auto. reflexivity. Qed.

(** ** KEY LEMMA: the trapezoid integral over the new axis of the deposited column is the deposited
    value, for every ad-mixed frequency (inside the grid, exactly on a grid point, below the first or
    above the last point) for which the normalising denominator does not vanish. *)
Theorem deposit_conserves (zz : list R) phi adz : (2 <= length zz)%nat -> incr zz ->
  dep_den zz (lower_index zz adz) (upper_index zz adz) adz <> 0 ->
  trapz zz (deposit_col zz phi adz) = phi.
Proof. intros HL Hinc Hden. unfold lower_index in Hden.
  pose proof (upper_index_range zz adz HL) as Hup.
  set (up := upper_index zz adz) in *.
  unfold trapz.
  rewrite (nsum_map_ext _ (fun k => trap_w zz k * (if Nat.eqb k up then frac_upper zz (up - 1) up adz * dep_norm zz (up - 1) up phi adz
             else if Nat.eqb k (up - 1) then frac_lower zz (up - 1) up adz * dep_norm zz (up - 1) up phi adz else 0))).
  2:{ intros k Hk. apply in_seq in Hk. rewrite deposit_col_nth by lia. reflexivity. }
  rewrite nsum_two by lia.
  rewrite trap_w_upper, trap_w_lower by lia.
  assert (Hne : nthF zz up - nthF zz (up - 1) <> 0).
  { assert (nthF zz (up - 1) < nthF zz up) by (apply Hinc; lia). lra. }
  unfold dep_norm, dep_den, frac_upper, frac_lower in *. unfold delz1 in *.
  replace (Nat.eqb up 0) with false in * by (symmetry; apply Nat.eqb_neq; lia).
  unfold n2 in *. numR. apply dep_algebra; assumption. Qed.

(** ** bracketing, linear weights, positivity of the denominator *)
Lemma grid_mono (zz : list R) i j : incr zz -> (i <= j < length zz)%nat -> nthF zz i <= nthF zz j.
Proof. intros Hinc H. destruct (Nat.eq_dec i j); [subst; lra|]. left. apply Hinc. lia. Qed.

Theorem deposit_brackets (zz : list R) adz : (2 <= length zz)%nat -> incr zz ->
  nthF zz 0 <= adz <= nthF zz (length zz - 1) ->
  let up := upper_index zz adz in let lo := lower_index zz adz in
  lo = (up - 1)%nat /\ (1 <= up <= length zz - 1)%nat /\
  nthF zz lo <= adz <= nthF zz up /\
  0 <= frac_lower zz lo up adz <= 1 /\ 0 <= frac_upper zz lo up adz <= 1 /\
  frac_lower zz lo up adz + frac_upper zz lo up adz = 1 /\
  frac_lower zz lo up adz * nthF zz lo + frac_upper zz lo up adz * nthF zz up = adz.
Proof. intros HL Hinc [Ha Hb]. cbv zeta. unfold lower_index.
  pose proof (upper_index_range zz adz HL) as Hup.
  assert (Hbr : nthF zz (upper_index zz adz - 1) <= adz <= nthF zz (upper_index zz adz)).
  { unfold upper_index in *. set (s := searchsorted zz adz) in *.
    pose proof (ss_le_len zz adz) as Hs. fold s in Hs.
    destruct (Nat.eq_dec s (length zz)) as [E|E].
    { exfalso. assert (nthF zz (length zz - 1) < adz) by (apply ss_lt; fold s; lia). lra. }
    assert (Hge : adz <= nthF zz s) by (apply ss_ge; fold s; lia).
    destruct (Nat.eq_dec s 0) as [E0|E0].
    - rewrite E0 in *. replace (Nat.max (Nat.min 0 (length zz - 1)) 1) with 1%nat by lia. simpl.
      assert (nthF zz 0 < nthF zz 1) by (apply Hinc; lia). lra.
    - replace (Nat.max (Nat.min s (length zz - 1)) 1) with s by lia.
      assert (nthF zz (s - 1) < adz) by (apply ss_lt; fold s; lia). lra. }
  set (up := upper_index zz adz) in *.
  assert (Hlt : nthF zz (up - 1) < nthF zz up) by (apply Hinc; lia).
  unfold frac_lower, frac_upper. numR.
  set (a := nthF zz up) in *. set (bb := nthF zz (up - 1)) in *.
  assert (Hd : 0 < a - bb) by lra.
  repeat split; try lia; try lra.
  - apply Rmult_le_pos; [lra|]. left. now apply Rinv_0_lt_compat.
  - apply (Rmult_le_reg_r (a - bb)); auto. unfold Rdiv. rewrite Rmult_assoc, Rinv_l by lra. lra.
  - apply Rmult_le_pos; [lra|]. left. now apply Rinv_0_lt_compat.
  - apply (Rmult_le_reg_r (a - bb)); auto. unfold Rdiv. rewrite Rmult_assoc, Rinv_l by lra. lra.
  - field. lra.
  - field. lra. Qed.

Lemma delz0_nonneg (zz : list R) lo : incr zz -> (lo < length zz)%nat -> 0 <= delz0 zz lo.
Proof. intros Hinc H. unfold delz0. numR. destruct (Nat.eqb lo 0) eqn:E; [lra|]. apply Nat.eqb_neq in E.
  assert (nthF zz (lo - 1) < nthF zz lo) by (apply Hinc; lia). lra. Qed.
Lemma delz2_nonneg (zz : list R) up : incr zz -> (up < length zz)%nat -> 0 <= delz2 zz up.
Proof. intros Hinc H. unfold delz2. numR. destruct (Nat.eqb up (length zz - 1)) eqn:E; [lra|]. apply Nat.eqb_neq in E.
  rewrite Nat.mod_small by lia. assert (nthF zz up < nthF zz (up + 1)) by (apply Hinc; lia). lra. Qed.

(** inside the grid (end points included) the denominator is positive: the deposit is always defined there *)
Theorem dep_den_pos (zz : list R) adz : (2 <= length zz)%nat -> incr zz ->
  nthF zz 0 <= adz <= nthF zz (length zz - 1) ->
  0 < dep_den zz (lower_index zz adz) (upper_index zz adz) adz.
Proof. intros HL Hinc Hr. destruct (deposit_brackets zz adz HL Hinc Hr) as (Hlo & Hup & Hbr & Hfl & Hfu & _).
  rewrite Hlo in *. set (up := upper_index zz adz) in *.
  unfold dep_den. numR.
  assert (H0 : 0 <= delz0 zz (up - 1)) by (apply delz0_nonneg; auto; lia).
  assert (H2 : 0 <= delz2 zz up) by (apply delz2_nonneg; auto; lia).
  assert (H1 : 0 < delz1 zz (up - 1) up).
  { unfold delz1. numR. replace (Nat.eqb up 0) with false by (symmetry; apply Nat.eqb_neq; lia).
    assert (nthF zz (up - 1) < nthF zz up) by (apply Hinc; lia). lra. }
  assert (0 <= frac_lower zz (up - 1) up adz * delz0 zz (up - 1)) by (apply Rmult_le_pos; lra).
  assert (0 <= frac_upper zz (up - 1) up adz * delz2 zz up) by (apply Rmult_le_pos; lra).
  lra. Qed.

(** above the last grid point (round-off: "values > 1"): upper index clamped to the last point; the denominator
    stays positive as long as the overshoot times the previous spacing is below the last spacing squared *)
Theorem dep_den_pos_above (zz : list R) adz : (2 <= length zz)%nat -> incr zz ->
  let L := length zz in
  nthF zz (L - 1) < adz ->
  (adz - nthF zz (L - 1)) * delz0 zz (L - 2) < (nthF zz (L - 1) - nthF zz (L - 2)) * (nthF zz (L - 1) - nthF zz (L - 2)) ->
  upper_index zz adz = (L - 1)%nat /\ 0 < dep_den zz (lower_index zz adz) (upper_index zz adz) adz.
Proof. intros HL Hinc L Hab Hsmall.
  assert (Hs : searchsorted zz adz = L).
  { pose proof (ss_le_len zz adz). destruct (Nat.eq_dec (searchsorted zz adz) L); auto. exfalso.
    assert (adz <= nthF zz (searchsorted zz adz)) by (apply ss_ge; fold L; lia).
    assert (nthF zz (searchsorted zz adz) <= nthF zz (L - 1)) by (apply grid_mono; auto; fold L; lia). lra. }
  assert (Hup : upper_index zz adz = (L - 1)%nat) by (unfold upper_index; rewrite Hs; fold L; lia).
  split; auto. unfold lower_index. rewrite Hup.
  replace (L - 1 - 1)%nat with (L - 2)%nat by lia.
  unfold dep_den, delz1, delz2, frac_lower, frac_upper. fold L.
  replace (Nat.eqb (L - 1) 0) with false by (symmetry; apply Nat.eqb_neq; lia).
  rewrite Nat.eqb_refl. numR.
  assert (Hlt : nthF zz (L - 2) < nthF zz (L - 1)) by (apply Hinc; fold L; lia).
  set (a := nthF zz (L - 1)) in *. set (bb := nthF zz (L - 2)) in *. set (d0 := delz0 zz (L - 2)) in *.
  assert (Hd : 0 < a - bb) by lra.
  replace ((a - adz) / (a - bb) * d0 + (a - bb) + (adz - bb) / (a - bb) * 0)
    with (((a - bb) * (a - bb) - (adz - a) * d0) / (a - bb)) by (field; lra).
  apply Rdiv_lt_0_compat; lra. Qed.

(** ** exactly on a grid point: the whole value goes to that point, divided by its trapezoid weight
    (this is the "pure split is a copy of its parent" case) *)
Lemma trap_w_pos (zz : list R) i : (2 <= length zz)%nat -> incr zz -> (i < length zz)%nat -> 0 < trap_w zz i.
Proof. intros HL Hinc Hi. unfold trap_w, dx, x, n2. numR.
  destruct (Nat.eqb i 0) eqn:E0.
  - assert (nthF zz 0 < nthF zz 1) by (apply Hinc; lia). lra.
  - apply Nat.eqb_neq in E0. destruct (Nat.eqb i (length zz - 1)) eqn:E1.
    + assert (nthF zz (length zz - 2) < nthF zz (S (length zz - 2))) by (apply Hinc; lia). lra.
    + apply Nat.eqb_neq in E1. assert (nthF zz i < nthF zz (S i)) by (apply Hinc; lia).
      assert (nthF zz (i - 1) < nthF zz (S (i - 1))) by (apply Hinc; lia). lra. Qed.

Lemma zero_frac a d X : (a - a) / d * X = 0.
Proof. unfold Rdiv. replace (a - a) with 0 by lra. now rewrite !Rmult_0_l. Qed.

Theorem deposit_on_grid (zz : list R) phi i : (2 <= length zz)%nat -> incr zz -> (i < length zz)%nat ->
  deposit_col zz phi (nthF zz i) = map (fun k => if Nat.eqb k i then phi / trap_w zz i else 0) (seq 0 (length zz)).
Proof. intros HL Hinc Hi. unfold deposit_col.
  assert (Hup : upper_index zz (nthF zz i) = Nat.max i 1).
  { unfold upper_index. rewrite ss_on_grid by auto. lia. }
  rewrite Hup. apply map_seq_ext. intros k Hk.
  pose proof (trap_w_pos zz i HL Hinc Hi) as Hw.
  destruct (Nat.eq_dec i 0) as [E|E].
  - subst i. replace (Nat.max 0 1) with 1%nat by lia. simpl Nat.sub.
    assert (Hlt : nthF zz 0 < nthF zz 1) by (apply Hinc; lia).
    assert (Hw0 : trap_w zz 0 = (delz0 zz 0 + delz1 zz 0 1) / 2) by (apply (trap_w_lower zz 1); lia).
    rewrite Hw0 in *.
    unfold dep_norm, dep_den, frac_lower, frac_upper, delz0, delz1 in *. simpl Nat.eqb in *. unfold n2 in *. numR.
    destruct (Nat.eqb k 1) eqn:E1.
    + apply Nat.eqb_eq in E1. subst k. cbn [Nat.eqb]. apply zero_frac.
    + destruct (Nat.eqb k 0) eqn:E0; [|reflexivity].
      set (a := nthF zz 1) in *. set (bb := nthF zz 0) in *. set (d2 := delz2 zz 1).
      replace (bb - bb) with 0 by lra. field. lra.
  - replace (Nat.max i 1) with i by lia.
    assert (Hlt : nthF zz (i - 1) < nthF zz i) by (apply Hinc; lia).
    rewrite (trap_w_upper zz i) in * by lia.
    unfold dep_norm, dep_den, frac_lower, frac_upper, delz1 in *.
    replace (Nat.eqb i 0) with false in * by (symmetry; apply Nat.eqb_neq; lia). unfold n2 in *. numR.
    destruct (Nat.eqb k i) eqn:E1.
    + set (a := nthF zz i) in *. set (bb := nthF zz (i - 1)) in *. set (d2 := delz2 zz i) in *. set (d0 := delz0 zz (i - 1)).
      replace (a - a) with 0 by lra. field. repeat split; try lra.
      assert (0 < (a - bb) * (a - bb + d2)) by (apply Rmult_lt_0_compat; lra). lra.
    + destruct (Nat.eqb k (i - 1)); [|reflexivity]. apply zero_frac. Qed.
