(** C13, fragment_data_dict: the chunks partition the SNPs of the dictionary (every entry lands in exactly one
    chunk, with its own value), provided the keys are canonical: re-formatting the parsed key gives the key back
    ('chrom_pos' or 'chrom_pos.info' with a position without leading zeros or sign). *)
From Coq Require Import String Ascii ZArith NArith Reals List Lia Bool Arith Permutation.
From Dadi Require Import Base.Num Base.NumR Model.Projection Model.Fold Model.DataDict Proofs.DataDictSpec Proofs.DataDictSub Proofs.DataDictChunks.
Import ListNotations.

Definition posinfo := (N * option string)%type.
Definition triple := (string * posinfo)%type.
Definition fmtT (t : triple) : string := format_key (fst t) (fst (snd t)) (snd (snd t)).

(** ** grouping by chromosome *)
Definition flatten (ndd : dict (list posinfo)) : list triple := flat_map (fun e => map (pair (fst e)) (snd e)) ndd.

Lemma dappend_flatten k (v : posinfo) : forall d, Permutation (flatten (dappend k v d)) ((k, v) :: flatten d).
Proof. unfold dappend. induction d as [|[k' l'] r IH].
  - cbn. reflexivity.
  - cbn [dget]. destruct (String.eqb k' k) eqn:E.
    + apply String.eqb_eq in E. subst k'. cbn [dset]. rewrite String.eqb_refl. unfold flatten. cbn [flat_map fst snd].
      rewrite map_app. cbn [map]. rewrite <- app_assoc. symmetry. apply Permutation_middle.
    + destruct (dget k r) eqn:Eg; cbn [dset]; rewrite E; unfold flatten in *; cbn [flat_map fst snd];
        rewrite IH; symmetry; apply Permutation_middle. Qed.

Definition parses (k : string) (t : triple) : Prop := parse_key k = Some (fst t, fst (snd t), snd (snd t)).

Lemma split_by_chrom_flatten : forall keys ndd ndd', split_by_chrom keys ndd = Some ndd' ->
  exists ts, Forall2 parses keys ts /\ Permutation (flatten ndd') (ts ++ flatten ndd).
Proof. induction keys as [|k keys IH]; intros ndd ndd' E; cbn [split_by_chrom] in E.
  - inversion E; subst. exists []. split; [constructor|reflexivity].
  - destruct (parse_key k) as [[[chr p] a]|] eqn:Ep; [|discriminate].
    destruct (IH _ _ E) as [ts [F P]]. exists ((chr, (p, a)) :: ts). split.
    + constructor; [exact Ep|assumption].
    + rewrite P. rewrite dappend_flatten. cbn. symmetry. apply Permutation_middle. Qed.

Lemma all_some_forall2 {A} : forall (l : list (option A)) l', all_some l = Some l' -> Forall2 (fun o x => o = Some x) l l'.
Proof. induction l as [|[x|] l IH]; intros l' E; cbn in E; try discriminate.
  - inversion E; subst. constructor.
  - destruct (all_some l) as [r|]; [|discriminate]. inversion E; subst. constructor; auto. Qed.

(** ** sorting and chunking each chromosome *)
Definition flatten2 (cdict : list (string * list (list posinfo))) : list triple :=
  flat_map (fun e => map (pair (fst e)) (concat (snd e))) cdict.

Lemma chunks_dict_flatten cs : forall (ndd : dict (list posinfo)) cdict,
  Forall2 (fun e e' => option_map (fun ps => (fst e, chunk_loop cs ps [] [] cs)) (sort_positions (snd e) []) = Some e') ndd cdict ->
  Permutation (flatten2 cdict) (flatten ndd).
Proof. induction 1 as [|e e' ndd cdict He F IH]; [reflexivity|].
  unfold flatten2, flatten in *. cbn [flat_map]. apply Permutation_app; [|exact IH].
  destruct (sort_positions (snd e) []) as [sorted|] eqn:Es; [|discriminate]. cbn in He. inversion He; subst. cbn [fst snd].
  apply Permutation_map. apply chunks_partition_positions. assumption. Qed.

(** ** building the chunk dictionaries *)
Definition pieces (cdict : list (string * list (list posinfo))) : list (string * list posinfo) :=
  flat_map (fun e => map (pair (fst e)) (snd e)) cdict.

Lemma pieces_flatten2 cdict : flat_map (fun cp => map (pair (fst cp)) (snd cp)) (pieces cdict) = flatten2 cdict.
Proof. unfold pieces, flatten2. induction cdict as [|[chr chunks] cdict IH]; [reflexivity|].
  cbn [flat_map fst snd]. rewrite flat_map_app, IH. f_equal. clear.
  induction chunks as [|c chunks IH]; [reflexivity|]. cbn [map flat_map concat fst snd]. rewrite map_app, IH. reflexivity. Qed.

Lemma pieces_map {B} (f : string -> list posinfo -> B) cdict :
  flat_map (fun e => map (fun pl => f (fst e) pl) (snd e)) cdict = map (fun cp => f (fst cp) (snd cp)) (pieces cdict).
Proof. unfold pieces. induction cdict as [|[chr chunks] cdict IH]; [reflexivity|].
  cbn [flat_map fst snd]. rewrite map_app, IH. f_equal. rewrite map_map. reflexivity. Qed.

Lemma dset_fresh {V} k (v : V) : forall d, dget k d = None -> dset k v d = (d ++ [(k, v)])%list.
Proof. induction d as [|[k' v'] d IH]; cbn; [reflexivity|]. destruct (String.eqb k' k); [discriminate|].
  intros E. rewrite IH by assumption. reflexivity. Qed.

(** what a chunk holds: the entries of dd under the re-formatted keys *)
Definition holds (dd : dict snp) (t : triple) (e : string * snp) : Prop := fst e = fmtT t /\ dget (fst e) dd = Some (snd e).

Lemma chunk_dict_spec dd chr : forall pos_list acc r,
  chunk_dict dd chr pos_list acc = Some r ->
  NoDup (map fst acc ++ map (fun pa => fmtT (chr, pa)) pos_list) ->
  exists ents, r = (acc ++ ents)%list /\ Forall2 (holds dd) (map (pair chr) pos_list) ents.
Proof. induction pos_list as [|[p a] rest IH]; intros acc r E Hn; cbn [chunk_dict] in E.
  - inversion E; subst. exists []. rewrite app_nil_r. split; [reflexivity|constructor].
  - destruct (dget (format_key chr p a) dd) as [s|] eqn:Eg; [|discriminate].
    assert (Hfresh : dget (format_key chr p a) acc = None).
    { apply dget_notin_none. cbn [map] in Hn. apply NoDup_remove_2 in Hn. intros Hin. apply Hn. apply in_or_app. left. exact Hin. }
    rewrite (dset_fresh _ _ _ Hfresh) in E. destruct (IH _ _ E) as [ents [-> F]].
    + rewrite map_app. cbn [map fst]. rewrite <- app_assoc. exact Hn.
    + exists ((format_key chr p a, s) :: ents). rewrite <- app_assoc. split; [reflexivity|].
      cbn [map]. constructor; [|exact F]. split; [reflexivity|exact Eg]. Qed.

Lemma nodup_app_l {A} (a b : list A) : NoDup (a ++ b) -> NoDup a.
Proof. induction a; cbn; intros H; [constructor|]. inversion H; subst. constructor; [|auto].
  intros Hin. apply H2. apply in_or_app. left. exact Hin. Qed.
Lemma nodup_app_r {A} (a b : list A) : NoDup (a ++ b) -> NoDup b.
Proof. induction a; cbn; intros H; [exact H|]. inversion H; subst. auto. Qed.

Lemma frags_hold dd : forall (ps : list (string * list posinfo)) frags,
  Forall2 (fun cp frag => chunk_dict dd (fst cp) (snd cp) [] = Some frag) ps frags ->
  NoDup (map fmtT (flat_map (fun cp => map (pair (fst cp)) (snd cp)) ps)) ->
  Forall2 (holds dd) (flat_map (fun cp => map (pair (fst cp)) (snd cp)) ps) (concat frags).
Proof. induction 1 as [|[chr pl] frag ps frags E F IH]; intros Hn; cbn [flat_map concat fst snd] in *; [constructor|].
  rewrite map_app in Hn. apply Forall2_app.
  - destruct (chunk_dict_spec dd chr pl [] frag E) as [ents [-> Fe]]; [|exact Fe].
    cbn [map app]. apply nodup_app_l in Hn. rewrite map_map in Hn. exact Hn.
  - apply IH. apply nodup_app_r in Hn. exact Hn. Qed.

(** ** the dictionary read back through its keys *)
Definition entry_of (dd : dict snp) (t : triple) : list (string * snp) :=
  match dget (fmtT t) dd with Some s => [(fmtT t, s)] | None => [] end.

Lemma holds_flat_map dd : forall T ents, Forall2 (holds dd) T ents -> ents = flat_map (entry_of dd) T.
Proof. induction 1 as [|t [k s] T ents [H1 H2] F IH]; [reflexivity|]. cbn [flat_map fst snd] in *.
  unfold entry_of at 1. rewrite <- H1, H2, IH. reflexivity. Qed.

Lemma read_back dd : NoDup (map fst dd) -> forall l ts, incl l dd ->
  Forall2 (fun e t => fmtT t = fst e) l ts -> flat_map (entry_of dd) ts = l.
Proof. intros Hn. induction l as [|[k s] l IH]; intros ts Hi F; inversion F as [|? t ? ts' Ht F']; subst; [reflexivity|].
  cbn [flat_map fst] in *. unfold entry_of at 1. rewrite Ht.
  rewrite (in_nodup_dget k s dd Hn) by (apply Hi; left; reflexivity).
  cbn [app]. f_equal. apply IH; [|exact F']. intros x Hx. apply Hi. right. exact Hx. Qed.

Lemma perm_flat_map {A B} (f : A -> list B) l l' : Permutation l l' -> Permutation (flat_map f l) (flat_map f l').
Proof. induction 1; cbn; [reflexivity|apply Permutation_app_head; assumption| |etransitivity; eassumption].
  rewrite !app_assoc. apply Permutation_app_tail. apply Permutation_app_comm. Qed.

Lemma forall2_map_l {A B C} (R : B -> C -> Prop) (f : A -> B) : forall l l', Forall2 R (map f l) l' -> Forall2 (fun x y => R (f x) y) l l'.
Proof. induction l; intros l' F; inversion F; subst; constructor; auto. Qed.

(** canonical keys: parse, then format, gives the key back *)
Definition canonical_key (k : string) : Prop :=
  forall chr p a, parse_key k = Some (chr, p, a) -> format_key chr p a = k.

Theorem chunks_partition_snps : forall (dd : dict snp) cs frags,
  NoDup (map fst dd) -> Forall canonical_key (map fst dd) ->
  fragment_data_dict dd cs = Some frags ->
  Permutation (concat frags) dd.
Proof. intros dd cs frags Hn Hcan E. unfold fragment_data_dict in E.
  destruct (cs =? 0)%N; [discriminate|].
  destruct (split_by_chrom (map fst dd) []) as [ndd|] eqn:Es; [|discriminate].
  destruct (all_some (map _ ndd)) as [cdict|] eqn:Ec; [|discriminate].
  destruct (split_by_chrom_flatten _ _ _ Es) as [ts [Fp Pt]]. cbn [flatten flat_map] in Pt. rewrite app_nil_r in Pt.
  apply all_some_forall2 in Ec. apply forall2_map_l in Ec.
  pose proof (chunks_dict_flatten cs ndd cdict Ec) as P2.
  rewrite (pieces_map (fun chr pl => chunk_dict dd chr pl [])) in E.
  apply all_some_forall2 in E. apply forall2_map_l in E.
  (* the formatted keys of the parsed triples are the keys themselves *)
  assert (Hk : map fmtT ts = map fst dd).
  { clear - Fp Hcan. induction Fp as [|k t keys ts Hp F IH]; [reflexivity|]. inversion Hcan; subst.
    cbn [map]. f_equal; [|auto]. destruct t as [chr [p a]]. apply H1. exact Hp. }
  assert (PT : Permutation (flatten2 cdict) ts) by (rewrite P2; exact Pt).
  assert (HnT : NoDup (map fmtT (flatten2 cdict))).
  { apply (Permutation_NoDup (l := map fmtT ts)); [apply Permutation_map; symmetry; exact PT|]. rewrite Hk. exact Hn. }
  rewrite <- pieces_flatten2 in HnT.
  pose proof (frags_hold dd _ _ E HnT) as Fh. rewrite pieces_flatten2 in Fh.
  rewrite (holds_flat_map dd _ _ Fh). rewrite (perm_flat_map (entry_of dd) _ _ PT).
  rewrite (read_back dd Hn dd ts); [reflexivity|apply incl_refl|].
  clear - Hk. revert ts Hk. induction dd as [|e dd IH]; intros ts Hk; destruct ts; try discriminate; constructor.
  - inversion Hk; reflexivity. - apply IH. inversion Hk; reflexivity. Qed.

(** so the spectra of the chunks made by fragment_data_dict add up to the spectrum of the whole dictionary *)
Corollary fragment_chunk_spectra_add_up : forall (dd : dict snp) cs frags pop_ids projs polarized cd cds,
  NoDup (map fst dd) -> Forall canonical_key (map fst dd) -> fragment_data_dict dd cs = Some frags ->
  length pop_ids = length projs -> count_data_dict dd pop_ids = Some cd ->
  Forall2 (fun f c => count_data_dict f pop_ids = Some c) frags cds ->
  forall i, get (fcd_data (F:=R) cd projs polarized) i
            = lsum (fun c => get (fcd_data (F:=R) c projs polarized) i) cds.
Proof. intros dd cs frags pop_ids projs polarized cd cds Hn Hc Ef EL Ec F.
  apply (chunk_spectra_add_up dd frags pop_ids projs polarized cd cds EL); try assumption.
  apply (chunks_partition_snps dd cs frags); assumption. Qed.
