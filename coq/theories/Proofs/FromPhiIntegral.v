(** C05: every entry of the 1-D semi-analytic spectrum is the exact integral of the binomial sampling probability
    against the piecewise-linear interpolant of phi (Coquelicot integrals, via the derivative of the binomial tail). *)
From Coq Require Import ZArith NArith Reals List Lra Lia Arith Bool.
From Coquelicot Require Import Coquelicot.
From Dadi Require Import Base.Num Base.NumR Model.FromPhi Proofs.FromPhiBinom Proofs.FromPhiBase Proofs.FromPhiMass1D Proofs.FromPhiLin.
Import ListNotations.
Local Open Scope R_scope.

Lemma is_derive_rsum {A} (F : A -> R -> R) (dF : A -> R) (l : list A) (x : R) :
  (forall j, In j l -> is_derive (F j) x (dF j)) ->
  is_derive (fun t => rsum (map (fun j => F j t) l)) x (rsum (map dF l)).
Proof. induction l as [|a l IH]; intros H.
  - cbn [map]. change (rsum []) with 0. apply (is_derive_const 0 x).
  - cbn [map]. apply (is_derive_ext (fun t => F a t + rsum (map (fun j => F j t) l))); [intros; rewrite rsum_cons; reflexivity|].
    rewrite rsum_cons. apply (is_derive_plus (F a) (fun t => rsum (map (fun j => F j t) l))); [apply H; left; reflexivity|].
    apply IH. intros; apply H; right; assumption. Qed.

Lemma cZ_absorb_R N j : INR (S j) * IZR (cZ (S N) (S j)) = INR (S N) * IZR (cZ N j).
Proof. rewrite !INR_IZR_INZ, <- !mult_IZR. f_equal. apply cZ_absorb. Qed.
Lemma cZ_down_R N k : INR (S N - k) * IZR (cZ (S N) k) = INR (S N) * IZR (cZ N k).
Proof. rewrite !INR_IZR_INZ, <- !mult_IZR. f_equal. apply cZ_down. Qed.

Lemma B_derive_alg (c1 c2 c3 a b SN u w x : R) : a * c1 = SN * c2 -> b * c1 = SN * c3 ->
  c1 * (1 * (a * u)) * ((1 + - x) * w) + c1 * (x * u) * (- (1) * (b * w)) = SN * (c2 * u * ((1 - x) * w) - c3 * (x * u) * w).
Proof. intros Ea Ed.
  replace (c1 * (1 * (a * u)) * ((1 + - x) * w) + c1 * (x * u) * (- (1) * (b * w))) with ((a * c1) * u * (1 - x) * w - (b * c1) * x * u * w) by ring.
  rewrite Ea, Ed. ring. Qed.

(** d/dx b(N+1, j+1; x) = (N+1) (b(N, j; x) - b(N, j+1; x)), every j *)
Lemma B_derive N j (x : R) : is_derive (fun t => B (S N) (S j) t) x (INR (S N) * (B N j x - B N (S j) x)).
Proof. unfold B. replace (S N - S j)%nat with (N - j)%nat by lia.
  destruct (le_lt_dec j N) as [Hj|Hj].
  - auto_derive; [trivial|].
    change (match j with 0%nat => 1 | S _ => INR j + 1 end) with (INR (S j)).
    destruct (Nat.eq_dec j N) as [->|Hn].
    + rewrite !cZ_nn, (cZ_small N (S N)), Nat.sub_diag by lia. cbn [pow pred]. change (INR 0) with 0. ring.
    + pose proof (cZ_absorb_R N j) as Ea. pose proof (cZ_down_R N (S j)) as Ed.
      replace (S N - S j)%nat with (N - j)%nat in Ed by lia.
      set (c1 := IZR (cZ (S N) (S j))) in *. set (c2 := IZR (cZ N j)) in *. set (c3 := IZR (cZ N (S j))) in *.
      replace (N - j)%nat with (S (N - S j)) in * by lia. cbn [pred pow].
      set (u := x ^ j) in *. set (w := (1 + - x) ^ (N - S j)) in *. replace ((1 - x) ^ (N - S j)) with w by (subst w; f_equal; ring).
      clearbody u w c1 c2 c3.
      apply B_derive_alg; assumption.
  - rewrite (cZ_small (S N) (S j)), (cZ_small N j), (cZ_small N (S j)) by lia.
    apply (is_derive_ext (fun _ : R => 0)); [intros t; change (0 = 0 * t ^ S j * (1 - t) ^ (N - j)); ring|]. replace (INR (S N) * _) with 0 by ring. apply (is_derive_const 0 x). Qed.

Lemma rsum_seq_off (f : nat -> R) a n : rsum (map f (seq a n)) = rsum (map (fun k => f (a + k)%nat) (seq 0 n)).
Proof. revert a. induction n; intros a; [reflexivity|]. cbn [seq map]. rewrite !rsum_cons, Nat.add_0_r. f_equal.
  rewrite IHn, rsum_seq_shift. apply rsum_map_ext. intros k _. f_equal. lia. Qed.
Lemma telescope (g : nat -> R) a K : rsum (map (fun k => g (a + k)%nat - g (S (a + k))) (seq 0 K)) = g a - g (a + K)%nat.
Proof. induction K; [cbn [seq map]; change (rsum []) with 0; rewrite Nat.add_0_r; ring|].
  rewrite rsum_seq_S, IHK. cbn [Nat.add]. rewrite <- plus_n_Sm. ring. Qed.

Definition tailB (N a : nat) (x : R) : R := rsum (skipn a (@bpmf R _ N x)).
Lemma skipn_seq' k s n : skipn k (seq s n) = seq (s + k) (n - k).
Proof. revert s n. induction k; intros s n; [rewrite Nat.add_0_r, Nat.sub_0_r; reflexivity|].
  destruct n; [reflexivity|]. cbn [seq skipn]. rewrite IHk. f_equal; lia. Qed.
Lemma tailB_sum N a x : tailB (S N) (S a) x = rsum (map (fun k => B (S N) (S (a + k)) x) (seq 0 (S N - a))).
Proof. unfold tailB, bpmf. rewrite skipn_map, skipn_seq'. cbn [Nat.add]. replace (S (S N) - S a)%nat with (S N - a)%nat by lia.
  rewrite rsum_seq_off. apply rsum_map_ext. intros k _. rewrite bker_B. cbn [Nat.add]. reflexivity. Qed.

(** d/dx I_x(a+1, N-a+1) = (N+1) C(N,a) x^a (1-x)^(N-a) *)
Theorem tail_derive N a (x : R) : (a <= N)%nat -> is_derive (fun t => tailB (S N) (S a) t) x (INR (S N) * B N a x).
Proof. intros Ha. apply (is_derive_ext (fun t => rsum (map (fun k => B (S N) (S (a + k)) t) (seq 0 (S N - a))))); [intros; symmetry; apply tailB_sum|].
  replace (INR (S N) * B N a x) with (rsum (map (fun k => INR (S N) * (B N (a + k) x - B N (S (a + k)) x)) (seq 0 (S N - a)))).
  - apply is_derive_rsum. intros k _. apply B_derive.
  - rewrite rsum_map_scal, (telescope (fun j => B N j x)). rewrite (B_small N (a + (S N - a))) by lia. ring. Qed.

(** one interval: the code's  c1 dbeta1 + c2 dbeta2  is the integral of  b(n,d;t) (p0 + s (t - x0))  over [x0, x1] *)
Lemma B_absorb_t n d t : (d <= n)%nat -> INR (S d) * B (S n) (S d) t = INR (S n) * (t * B n d t).
Proof. intros Hd. unfold B. pose proof (cZ_absorb n d) as Ea. apply (f_equal IZR) in Ea. rewrite !mult_IZR, <- !INR_IZR_INZ in Ea.
  replace (S n - S d)%nat with (n - d)%nat by lia. cbn [pow].
  transitivity (INR (S d) * IZR (cZ (S n) (S d)) * (t * t ^ d * (1 - t) ^ (n - d))); [ring|]. rewrite Ea. ring. Qed.

Lemma interval_integral n d (x0 x1 p0 p1 : R) : (d <= n)%nat ->
  let s := (p1 - p0) / (x1 - x0) in
  let c1 := (p0 - s * x0) / INR (n + 1) in
  let c2 := s * INR (d + 1) / (INR (n + 1) * INR (n + 2)) in
  is_RInt (fun t => B n d t * (p0 + s * (t - x0))) x0 x1
    (c1 * (tailB (n + 1) (d + 1) x1 - tailB (n + 1) (d + 1) x0) + c2 * (tailB (n + 2) (d + 2) x1 - tailB (n + 2) (d + 2) x0)).
Proof. intros Hd s c1 c2.
  replace (c1 * (tailB (n + 1) (d + 1) x1 - tailB (n + 1) (d + 1) x0) + c2 * (tailB (n + 2) (d + 2) x1 - tailB (n + 2) (d + 2) x0))
    with ((c1 * tailB (n + 1) (d + 1) x1 + c2 * tailB (n + 2) (d + 2) x1) - (c1 * tailB (n + 1) (d + 1) x0 + c2 * tailB (n + 2) (d + 2) x0)) by ring.
  assert (H1 : INR (n + 1) <> 0) by (apply not_0_INR; lia).
  assert (H2 : INR (n + 2) <> 0) by (apply not_0_INR; lia).
  assert (H3 : INR (d + 1) <> 0) by (apply not_0_INR; lia).
  apply (is_RInt_derive (fun t => c1 * tailB (n + 1) (d + 1) t + c2 * tailB (n + 2) (d + 2) t) (fun t => B n d t * (p0 + s * (t - x0)))).
  - intros t _.
    replace (B n d t * (p0 + s * (t - x0))) with (c1 * (INR (S n) * B n d t) + c2 * (INR (S (S n)) * B (S n) (S d) t)).
    + apply (is_derive_plus (fun t => c1 * tailB (n + 1) (d + 1) t) (fun t => c2 * tailB (n + 2) (d + 2) t)).
      * apply (is_derive_scal (fun t => tailB (n + 1) (d + 1) t) t c1). replace (n + 1)%nat with (S n) by lia. replace (d + 1)%nat with (S d) by lia.
        apply tail_derive. assumption.
      * apply (is_derive_scal (fun t => tailB (n + 2) (d + 2) t) t c2). replace (n + 2)%nat with (S (S n)) by lia. replace (d + 2)%nat with (S (S d)) by lia.
        apply tail_derive. lia.
    + pose proof (B_absorb_t n d t Hd) as Eb.
      replace (B (S n) (S d) t) with (INR (S n) * (t * B n d t) / INR (S d)) by (rewrite <- Eb; field; replace (S d) with (d + 1)%nat by lia; assumption).
      subst c1 c2. replace (INR (S n)) with (INR (n + 1)) by (f_equal; lia). replace (INR (S (S n))) with (INR (n + 2)) by (f_equal; lia).
      replace (INR (S d)) with (INR (d + 1)) by (f_equal; lia). clearbody s. field. repeat split; assumption.
  - intros t _. apply (ex_derive_continuous (fun t => B n d t * (p0 + s * (t - x0)))). unfold B. auto_derive. trivial. Qed.

(** [_from_phi_1D_analytic], entry d: the sum over the grid intervals of the exact integrals of
    C(n,d) t^d (1-t)^(n-d) against the linear interpolant of phi on the interval (grid clipped to [0,1]) *)
Theorem analytic1D_is_integral n d (xx phi : list R) : (d <= n)%nat ->
  nth d (analytic1D n xx phi) 0 =
  ivsum (fun x0 x1 p0 p1 => RInt (fun t => B n d t * (p0 + (p1 - p0) / (x1 - x0) * (t - x0))) x0 x1) (map clip xx) phi.
Proof. intros Hd. rewrite analytic1D_entries, nth_map_seq by lia. apply ivsum_ext. intros x0 x1 p0 p1.
  symmetry. apply is_RInt_unique.
  pose proof (interval_integral n d x0 x1 p0 p1 Hd) as H. cbv zeta in H.
  unfold a_c1, a_s, a_db1, a_db2. numR. rewrite !nofnat_INR, !beta_col_nth by assumption.
  unfold tailB in H. 
  replace ((p0 - (p1 - p0) / (x1 - x0) * x0) / INR (n + 1) * (rsum (skipn (d + 1) (bpmf (n + 1) x1)) - rsum (skipn (d + 1) (bpmf (n + 1) x0))) +
           (p1 - p0) / (x1 - x0) * INR (d + 1) / (INR (n + 1) * INR (n + 2)) * (rsum (skipn (d + 2) (bpmf (n + 2) x1)) - rsum (skipn (d + 2) (bpmf (n + 2) x0))))
    with ((p0 - (p1 - p0) / (x1 - x0) * x0) / INR (n + 1) * (rsum (skipn (d + 1) (bpmf (n + 1) x1)) - rsum (skipn (d + 1) (bpmf (n + 1) x0))) +
           (p1 - p0) / (x1 - x0) * INR (d + 1) / (INR (n + 1) * INR (n + 2)) * (rsum (skipn (d + 2) (bpmf (n + 2) x1)) - rsum (skipn (d + 2) (bpmf (n + 2) x0)))) by reflexivity.
  exact H. Qed.
