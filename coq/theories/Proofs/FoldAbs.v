(** * FoldAbs: the folding lemmas over an abstract finite index set with a mirror involution.

    Hypotheses of the section (all are proved for the concrete multi-index sets in FoldND.v):
    the mirror permutes the index list, is an involution on it, sends an entry with total t to
    one with total N - t, and maps corners to corners. *)
From Coq Require Import ZArith Reals List Bool Arith Lia Lra Permutation.
From Dadi Require Import Base.Num Base.NumR Model.Fold.
Import ListNotations.
Local Open Scope R_scope.

Fixpoint Rsum (l : list R) : R := match l with [] => 0 | a :: t => a + Rsum t end.
Lemma nsum_Rsum (l : list R) : nsum l = Rsum l.
Proof. induction l as [|a l IH]; [reflexivity|]. change (nsum (a :: l)) with (a + nsum l). rewrite IH. reflexivity. Qed.

Lemma Rsum_perm (l l' : list R) : Permutation l l' -> Rsum l = Rsum l'.
Proof.
  induction 1 as [|a l l' _ IH|a b l|l l' l'' _ IH1 _ IH2].
  - reflexivity.
  - change (a + Rsum l = a + Rsum l'). rewrite IH. reflexivity.
  - change (b + (a + Rsum l) = a + (b + Rsum l)). ring.
  - congruence.
Qed.

Lemma Rsum_map_ext {A : Type} (f g : A -> R) (l : list A) :
  (forall a, In a l -> f a = g a) -> Rsum (map f l) = Rsum (map g l).
Proof.
  induction l as [|a l IH]; cbn; intros Hx; [reflexivity|].
  rewrite (Hx a), IH; auto.
Qed.

Lemma Rsum_map_plus {A : Type} (f g : A -> R) (l : list A) :
  Rsum (map (fun a => f a + g a) l) = Rsum (map f l) + Rsum (map g l).
Proof. induction l; cbn; lra. Qed.

Lemma Rsum_map_minus {A : Type} (f g : A -> R) (l : list A) :
  Rsum (map (fun a => f a - g a) l) = Rsum (map f l) - Rsum (map g l).
Proof. induction l; cbn; lra. Qed.

Lemma half_lt (N t : nat) : (N / 2 < t <-> N < 2 * t)%nat.
Proof.
  pose proof (Nat.div_mod N 2 ltac:(lia)). pose proof (Nat.mod_upper_bound N 2 ltac:(lia)). lia.
Qed.

Section Abs.
  Variable I : Type.
  Variable idx : list I.
  Variable mir : I -> I.
  Variable tot : I -> nat.
  Variable N : nat.
  Variable cor : I -> bool.
  Hypothesis Hperm : Permutation (map mir idx) idx.
  Hypothesis Hinv : forall i, In i idx -> mir (mir i) = i.
  Hypothesis Htot : forall i, In i idx -> (tot i + tot (mir i) = N)%nat.
  Hypothesis Hcor : forall i, In i idx -> cor (mir i) = cor i.

  Notation fo := (folded_out tot N).
  Notation amb := (ambiguous tot N).
  Notation F := (fold_val (F := R) mir tot N).
  Notation FM := (fold_mask mir tot N cor).
  Notation U := (unfold_val (F := R) mir).
  Notation UM := (unfold_mask mir tot N cor).

  Lemma mir_in i : In i idx -> In (mir i) idx.
  Proof. intro Hi. eapply Permutation_in; [exact Hperm | apply in_map; exact Hi]. Qed.

  Lemma sum_reindex (g : I -> R) : Rsum (map (fun i => g (mir i)) idx) = Rsum (map g idx).
  Proof. rewrite <- (map_map mir g). apply Rsum_perm, Permutation_map, Hperm. Qed.

  (** the work-horse: a pointwise identity up to a term D(mir i) - D i gives equal sums *)
  Lemma sum_telescope (A B D : I -> R) :
    (forall i, In i idx -> A i = B i + (D (mir i) - D i)) ->
    Rsum (map A idx) = Rsum (map B idx).
  Proof.
    intros Hpt. rewrite (Rsum_map_ext A (fun i => B i + (D (mir i) - D i))) by exact Hpt.
    rewrite Rsum_map_plus, Rsum_map_minus, sum_reindex. lra.
  Qed.

  (** every entry is in exactly one class: folded out, ambiguous, or the mirror of a folded-out entry *)
  Lemma classes i : In i idx ->
    (fo i = true /\ amb i = false /\ fo (mir i) = false /\ amb (mir i) = false) \/
    (fo i = false /\ amb i = true /\ fo (mir i) = false /\ amb (mir i) = true) \/
    (fo i = false /\ amb i = false /\ fo (mir i) = true /\ amb (mir i) = false).
  Proof.
    intro Hi. pose proof (Htot i Hi) as Ht. unfold folded_out, ambiguous.
    pose proof (half_lt N (tot i)) as H1. pose proof (half_lt N (tot (mir i))) as H2.
    destruct (Nat.ltb_spec (N / 2) (tot i)) as [a|a];
    destruct (Nat.ltb_spec (N / 2) (tot (mir i))) as [b|b];
    destruct (Nat.eqb_spec (2 * tot i) N) as [c|c];
    destruct (Nat.eqb_spec (2 * tot (mir i)) N) as [d|d]; try (exfalso; lia); tauto.
  Qed.

  Ltac split_classes i Hi :=
    let a := fresh "a" in let b := fresh "b" in let c := fresh "c" in let d := fresh "d" in
    destruct (classes i Hi) as [(a & b & c & d)|[(a & b & c & d)|(a & b & c & d)]].

  Ltac unf := unfold fold_val, unfold_val, misid_val, fold_mask, unfold_mask, misid_mask, reverse, where_.
  Ltac arith := numR; unfold nhalf, n2; numR; try lra; try (field; lra).

  (** *** values *)
  Lemma fold_pointwise (x : I -> R) i : In i idx ->
    F x i = if fo i then 0 else if amb i then (x i + x (mir i)) / 2 else x i + x (mir i).
  Proof. intro Hi. split_classes i Hi; unf; rewrite ?a, ?b, ?c, ?d; arith. Qed.

  Theorem abs_fold_conserves_total (x : I -> R) :
    Rsum (map (F x) idx) = Rsum (map x idx).
  Proof.
    apply (sum_telescope _ _ (fun i => (if fo i then x i else 0) + / 2 * (if amb i then x i else 0))).
    intros i Hi. split_classes i Hi; unf; rewrite ?a, ?b, ?c, ?d; arith.
  Qed.

  (** sum over the entries that are not masked *)
  Definition Rmsum (m : I -> bool) (f : I -> R) : R :=
    Rsum (map (fun i => if m i then 0 else f i) idx).

  (** what survives folding: the entries whose own and mirror positions are both unmasked (and
      that are not one of the two corners, which the constructor always masks) *)
  Definition sym_mask (m : I -> bool) : I -> bool := fun i => m i || m (mir i) || cor i.

  Theorem abs_fold_conserves_unmasked_total (m : I -> bool) (x : I -> R) :
    Rmsum (FM m) (F x) = Rmsum (sym_mask m) x.
  Proof.
    unfold Rmsum.
    apply (sum_telescope _ _ (fun i => if sym_mask m i then 0
                                       else (if fo i then x i else 0) + / 2 * (if amb i then x i else 0))).
    intros i Hi. unfold sym_mask. rewrite (Hinv i Hi), (Hcor i Hi).
    split_classes i Hi; unf; rewrite ?a, ?b, ?c, ?d;
      destruct (m i), (m (mir i)), (cor i); cbn [orb]; arith.
  Qed.

  Theorem abs_fold_of_mirror (x : I -> R) i : In i idx ->
    F (reverse mir x) i = F x i.
  Proof.
    intro Hi. split_classes i Hi; unf; rewrite ?(Hinv i Hi), ?a, ?b, ?c, ?d; arith.
  Qed.

  Theorem abs_ambiguous_shared_equally (x : I -> R) i : In i idx -> amb i = true ->
    F x i = (x i + x (mir i)) / 2 /\ F x (mir i) = F x i.
  Proof.
    intros Hi Ha. split_classes i Hi; try congruence.
    split; unf; rewrite ?(Hinv i Hi), ?a, ?b, ?c, ?d; arith.
  Qed.

  Lemma abs_no_ambiguous_when_odd i : Nat.odd N = true -> amb i = false.
  Proof.
    intro Ho. unfold ambiguous. apply Nat.eqb_neq. intro He.
    apply Nat.odd_spec in Ho. destruct Ho as [k Hk]. lia.
  Qed.

  Theorem abs_fold_when_odd (x : I -> R) i : Nat.odd N = true -> In i idx ->
    F x i = if fo i then 0 else x i + x (mir i).
  Proof. intros Ho Hi. rewrite (fold_pointwise x i Hi), (abs_no_ambiguous_when_odd i Ho). reflexivity. Qed.

  Theorem abs_fold_unfold_fold (x : I -> R) i : In i idx -> F (U (F x)) i = F x i.
  Proof.
    intro Hi. split_classes i Hi; unf; rewrite ?(Hinv i Hi), ?a, ?b, ?c, ?d; arith.
  Qed.

  (** unfolding a folded spectrum spreads each folded entry evenly over the pair *)
  Theorem abs_unfold_fold (x : I -> R) i : In i idx -> U (F x) i = (x i + x (mir i)) / 2.
  Proof.
    intro Hi. split_classes i Hi; unf; rewrite ?(Hinv i Hi), ?a, ?b, ?c, ?d; arith.
  Qed.

  (** *** masks *)
  Theorem abs_fold_mask_is_union (m : I -> bool) i :
    FM m i = (m i || m (mir i)) || fo i || cor i.
  Proof. reflexivity. Qed.

  Theorem abs_fold_mask_of_mirror (m : I -> bool) i : In i idx -> FM (reverse mir m) i = FM m i.
  Proof. intro Hi. unf. rewrite (Hinv i Hi). destruct (m i), (m (mir i)); reflexivity. Qed.

  Theorem abs_fold_unfold_fold_mask (m : I -> bool) i : In i idx -> FM (UM (FM m)) i = FM m i.
  Proof.
    intro Hi. split_classes i Hi; unf; rewrite ?(Hinv i Hi), ?(Hcor i Hi), ?a, ?b, ?c, ?d;
      destruct (m i), (m (mir i)), (cor i); reflexivity.
  Qed.

  (** the unfolded mask is mirror symmetric and is the union without the folded-out part *)
  Theorem abs_unfold_fold_mask (m : I -> bool) i : In i idx -> UM (FM m) i = sym_mask m i.
  Proof.
    intro Hi. unfold sym_mask. split_classes i Hi; unf; rewrite ?(Hinv i Hi), ?(Hcor i Hi), ?a, ?b, ?c, ?d;
      destruct (m i), (m (mir i)), (cor i); reflexivity.
  Qed.

  (** *** ancestral misidentification *)
  Theorem abs_misid_is_convex_mix (p : R) (x : I -> R) i :
    misid_val mir p x i = (1 - p) * x i + p * x (mir i).
  Proof. reflexivity. Qed.

  Theorem abs_misid_between (p : R) (x : I -> R) i : 0 <= p <= 1 ->
    Rmin (x i) (x (mir i)) <= misid_val mir p x i <= Rmax (x i) (x (mir i)).
  Proof.
    intros Hp. unf. numR. unfold Rmin, Rmax. destruct (Rle_dec (x i) (x (mir i))); split; nra.
  Qed.

  Theorem abs_misid_conserves_total (p : R) (x : I -> R) :
    Rsum (map (misid_val mir p x) idx) = Rsum (map x idx).
  Proof.
    apply (sum_telescope _ _ (fun i => p * x i)). intros i Hi. unf. numR. ring.
  Qed.

  (** folding forgets misidentification altogether *)
  Theorem abs_fold_of_misid (p : R) (x : I -> R) i : In i idx ->
    F (misid_val mir p x) i = F x i.
  Proof.
    intro Hi. split_classes i Hi; unf; rewrite ?(Hinv i Hi), ?a, ?b, ?c, ?d; arith.
  Qed.

  (** fold / unfold / misid of entry i read the input only at i and at its mirror *)
  Lemma fold_val_ext (x y : I -> R) i : x i = y i -> x (mir i) = y (mir i) -> F x i = F y i.
  Proof. intros H1 H2. unf. rewrite H1, H2. reflexivity. Qed.
  Lemma unfold_val_ext (x y : I -> R) i : x i = y i -> x (mir i) = y (mir i) -> U x i = U y i.
  Proof. intros H1 H2. unf. rewrite H1, H2. reflexivity. Qed.
  Lemma fold_mask_ext (x y : I -> bool) i : x i = y i -> x (mir i) = y (mir i) -> FM x i = FM y i.
  Proof. intros H1 H2. unf. rewrite H1, H2. reflexivity. Qed.
  Lemma unfold_mask_ext (x y : I -> bool) i : x i = y i -> x (mir i) = y (mir i) -> UM x i = UM y i.
  Proof. intros H1 H2. unf. rewrite H1, H2. reflexivity. Qed.
End Abs.
Arguments sym_mask {I} mir cor m i.
Arguments Rmsum {I} idx m f.
