(** C06: PhiManip.filter_pops, in Coq.
    (a) for a duplicate-free [tokeep] within 1..d the call succeeds, the shape of the result is the shape at the
        kept axes in INCREASING AXIS ORDER whatever the order of [tokeep], and the values are the iterated
        trapezoid marginal ([marginal_out]) over the other axes, highest axis first;
    (b) it refuses (list.remove raising ValueError) exactly when an entry of [tokeep] is outside 1..d or repeated;
    (c) the order in which populations are integrated out is irrelevant: Fubini for the finite weighted sums,
        pairwise ([marginal_out_commute]) and for every permutation of every set of populations, the
        populations being followed by label through the index shifts ([marginalisation_order_irrelevant]);
        in particular filter_pops gives what ANY removal order gives ([filter_pops_any_order]). *)
From Coq Require Import String.
From Coq Require Import List Arith Bool ZArith Reals Lra Lia Permutation Sorted.
From Dadi Require Import Base.Num Base.NumR Model.Tridiag Model.Scheme Model.NDSweep Model.PhiManip
  Proofs.SumLemmas Proofs.NDLines Proofs.NDWeights Proofs.IsolatedSweep
  Proofs.PhiManipSums Proofs.PhiManipMisc.
Import ListNotations.
Local Open Scope nat_scope.

(** * lists of populations *)
Definition memb (p : nat) (l : list nat) : bool := existsb (Nat.eqb p) l.
Lemma memb_In p l : memb p l = true <-> In p l.
Proof. unfold memb. rewrite existsb_exists. split.
  - intros (x & Hx & E). apply Nat.eqb_eq in E. now subst.
  - intros Hp. exists p. split; [exact Hp | apply Nat.eqb_refl]. Qed.
Lemma memb_nIn p l : memb p l = false <-> ~ In p l.
Proof. rewrite <- memb_In. destruct (memb p l).
  - split; [discriminate | intros H; exfalso; now apply H].
  - split; [intros _ H; discriminate | reflexivity]. Qed.
Lemma memb_cons p a l : memb p (a :: l) = Nat.eqb p a || memb p l.
Proof. reflexivity. Qed.

(** [tokeep] is acceptable: no repeats, every entry a population number of a d-population phi *)
Definition keep_ok (d : nat) (tokeep : list nat) : Prop := NoDup tokeep /\ Forall (fun p => 1 <= p <= d) tokeep.
(** the populations removed (numbered from 1, increasing), their axes, and the axes kept (increasing) *)
Definition removed_pops (d : nat) (tokeep : list nat) : list nat := filter (fun p => negb (memb p tokeep)) (seq 1 d).
Definition removed_axes (d : nat) (tokeep : list nat) : list nat := filter (fun a => negb (memb (S a) tokeep)) (seq 0 d).
Definition kept_axes (d : nat) (tokeep : list nat) : list nat := filter (fun a => memb (S a) tokeep) (seq 0 d).

Lemma filter_map_comm {A B} (f : A -> B) (p : B -> bool) l : filter p (map f l) = map f (filter (fun x => p (f x)) l).
Proof. induction l as [|x l IH]; [reflexivity|]. cbn [map filter]. destruct (p (f x)); cbn [map]; now rewrite IH. Qed.
Lemma removed_pops_axes d tokeep : removed_pops d tokeep = map S (removed_axes d tokeep).
Proof. unfold removed_pops, removed_axes. rewrite <- seq_shift.
  exact (filter_map_comm S (fun p => negb (memb p tokeep)) (seq 0 d)). Qed.

Lemma filter_all {A} (p : A -> bool) l : (forall x, In x l -> p x = true) -> filter p l = l.
Proof. induction l as [|x l IH]; intros Hp; [reflexivity|]. cbn [filter]. rewrite (Hp x (or_introl eq_refl)).
  f_equal. apply IH. intros y Hy. apply Hp. now right. Qed.
Lemma filter_filter {A} (p q : A -> bool) l : filter p (filter q l) = filter (fun x => q x && p x) l.
Proof. induction l as [|x l IH]; [reflexivity|]. cbn [filter]. destruct (q x); cbn [filter andb]; [destruct (p x)|]; now rewrite IH. Qed.

(** ** list.remove, and the loop over tokeep *)
Definition rm_step (acc : option (list nat)) (p : nat) : option (list nat) :=
  match acc with Some l => remove_first p l | None => None end.

Lemma remove_first_in x l : NoDup l -> In x l -> remove_first x l = Some (filter (fun y => negb (Nat.eqb y x)) l).
Proof. induction l as [|y t IH]; intros Hnd Hin; [destruct Hin|]. inversion Hnd as [|y' t' Hy Ht]; subst.
  cbn [remove_first filter]. destruct (Nat.eqb y x) eqn:E; cbn [negb].
  - apply Nat.eqb_eq in E. subst y. f_equal. symmetry. apply filter_all. intros z Hz.
    apply negb_true_iff, Nat.eqb_neq. intros ->. contradiction.
  - apply Nat.eqb_neq in E. destruct Hin as [->|Hin]; [congruence|]. rewrite IH by assumption. reflexivity. Qed.
Lemma remove_first_notin x l : ~ In x l -> remove_first x l = None.
Proof. induction l as [|y t IH]; intros Hn; [reflexivity|]. cbn [remove_first].
  destruct (Nat.eqb y x) eqn:E; [apply Nat.eqb_eq in E; subst; exfalso; apply Hn; now left|].
  rewrite IH; [reflexivity|]. intros Hi. apply Hn. now right. Qed.
Lemma fold_rm_none tokeep : fold_left rm_step tokeep None = None.
Proof. induction tokeep as [|p t IH]; [reflexivity|exact IH]. Qed.

Lemma toremove_some : forall tokeep l, NoDup l -> NoDup tokeep -> incl tokeep l ->
  fold_left rm_step tokeep (Some l) = Some (filter (fun y => negb (memb y tokeep)) l).
Proof. induction tokeep as [|p t IH]; intros l Hl Hnd Hinc.
  - cbn [fold_left]. f_equal. symmetry. apply filter_all. reflexivity.
  - inversion Hnd as [|p' t' Hp Ht]; subst. cbn [fold_left rm_step].
    rewrite remove_first_in; [|exact Hl|apply Hinc; now left].
    rewrite IH; [| now apply NoDup_filter | exact Ht |].
    + f_equal. rewrite filter_filter. apply filter_ext. intros y. rewrite memb_cons, negb_orb. reflexivity.
    + intros q Hq. apply filter_In. split; [apply Hinc; now right|].
      apply negb_true_iff, Nat.eqb_neq. intros ->. contradiction. Qed.

Lemma toremove_none : forall tokeep l, NoDup l -> ~ (NoDup tokeep /\ incl tokeep l) ->
  fold_left rm_step tokeep (Some l) = None.
Proof. induction tokeep as [|p t IH]; intros l Hl Hbad.
  - exfalso. apply Hbad. split; [constructor|]. intros x [].
  - cbn [fold_left rm_step]. destruct (in_dec Nat.eq_dec p l) as [Hin|Hnin].
    + rewrite remove_first_in by assumption. apply IH; [now apply NoDup_filter|].
      intros [Ht Hinc]. apply Hbad. split.
      * constructor; [|exact Ht]. intros Hpt. apply Hinc, filter_In in Hpt. destruct Hpt as [_ E].
        rewrite Nat.eqb_refl in E. discriminate.
      * intros q [<-|Hq]; [exact Hin|]. apply Hinc, filter_In in Hq. tauto.
    + rewrite remove_first_notin by exact Hnin. apply fold_rm_none. Qed.

Lemma keep_ok_incl d tokeep : keep_ok d tokeep <-> NoDup tokeep /\ incl tokeep (seq 1 d).
Proof. unfold keep_ok. rewrite Forall_forall. split; intros [H1 H2]; (split; [exact H1|]); intros p Hp.
  - apply in_seq. specialize (H2 p Hp). lia.
  - specialize (H2 p Hp). apply in_seq in H2. lia. Qed.

(** ** removing entries of a list from the highest position down *)
Fixpoint keepm {A} (m : nat -> bool) (s : nat) (l : list A) : list A :=
  match l with [] => [] | x :: t => if m s then x :: keepm m (S s) t else keepm m (S s) t end.
Lemma keepm_all {A} (m : nat -> bool) : forall (l : list A) s, (forall i, s <= i -> m i = true) -> keepm m s l = l.
Proof. induction l as [|x t IH]; intros s Hm; [reflexivity|]. cbn [keepm]. rewrite (Hm s) by lia. f_equal.
  apply IH. intros i Hi. apply Hm. lia. Qed.
Lemma keepm_ext {A} (m m' : nat -> bool) : forall (l : list A) s, (forall i, s <= i -> m i = m' i) -> keepm m s l = keepm m' s l.
Proof. induction l as [|x t IH]; intros s Hm; [reflexivity|]. cbn [keepm]. rewrite (Hm s) by lia.
  rewrite (IH (S s)) by (intros i Hi; apply Hm; lia). reflexivity. Qed.
Lemma remove_nth_nil {A} a : @remove_nth A a [] = [].
Proof. unfold remove_nth. now rewrite firstn_nil, skipn_nil. Qed.
Lemma remove_nth_0 {A} (x : A) t : remove_nth 0 (x :: t) = t.
Proof. reflexivity. Qed.
Lemma remove_nth_S {A} a (x : A) t : remove_nth (S a) (x :: t) = x :: remove_nth a t.
Proof. reflexivity. Qed.
Lemma keepm_remove_nth {A} : forall a s (l : list A) (m : nat -> bool), (forall i, s + a <= i -> m i = true) ->
  keepm m s (remove_nth a l) = keepm (fun i => negb (Nat.eqb i (s + a)) && m i) s l.
Proof. induction a as [|a IH]; intros s l m Hm.
  - destruct l as [|x t]; [reflexivity|]. rewrite remove_nth_0. cbn [keepm]. rewrite Nat.add_0_r, Nat.eqb_refl. cbn [negb andb].
    rewrite !keepm_all; [reflexivity| |].
    + intros i Hi. rewrite (Hm i) by lia. replace (Nat.eqb i s) with false by (symmetry; apply Nat.eqb_neq; lia). reflexivity.
    + intros i Hi. apply Hm. lia.
  - destruct l as [|x t]; [now rewrite remove_nth_nil|]. rewrite remove_nth_S. cbn [keepm].
    replace (Nat.eqb s (s + S a)) with false by (symmetry; apply Nat.eqb_neq; lia). cbn [negb andb].
    rewrite (IH (S s) t m) by (intros i Hi; apply Hm; lia).
    rewrite (keepm_ext (fun i => negb (Nat.eqb i (S s + a)) && m i) (fun i => negb (Nat.eqb i (s + S a)) && m i) t (S s))
      by (intros i _; now replace (S s + a) with (s + S a) by lia).
    reflexivity. Qed.

Definition desc (l : list nat) : Prop := StronglySorted (fun a b => b < a) l.
Lemma fold_remove_desc {A} : forall ds (l : list A), desc ds ->
  fold_left (fun acc a => remove_nth a acc) ds l = keepm (fun i => negb (memb i ds)) 0 l.
Proof. induction ds as [|a t IH]; intros l Hd.
  - cbn [fold_left]. symmetry. apply keepm_all. reflexivity.
  - inversion Hd as [|a' t' Ht Ha]; subst. cbn [fold_left]. rewrite IH by exact Ht.
    rewrite keepm_remove_nth.
    + apply keepm_ext. intros i _. cbn [plus]. rewrite memb_cons, negb_orb. reflexivity.
    + intros i Hi. apply negb_true_iff, memb_nIn. intros Hin. rewrite Forall_forall in Ha. specialize (Ha i Hin). lia. Qed.

Lemma keepm_filter {A} (d0 : A) (m : nat -> bool) : forall (l : list A) s,
  keepm m s l = map (fun i => nth (i - s) l d0) (filter m (seq s (length l))).
Proof. induction l as [|x t IH]; intros s; [reflexivity|]. cbn [keepm length seq filter]. rewrite (IH (S s)).
  assert (E : map (fun i => nth (i - S s) t d0) (filter m (seq (S s) (length t))) =
              map (fun i => nth (i - s) (x :: t) d0) (filter m (seq (S s) (length t)))).
  { apply map_ext_in. intros i Hi. apply filter_In in Hi. destruct Hi as [Hi _]. apply in_seq in Hi.
    replace (i - s) with (S (i - S s)) by lia. reflexivity. }
  destruct (m s); cbn [map]; rewrite E; [rewrite Nat.sub_diag|]; reflexivity. Qed.

Lemma rev_filter_seq_desc (p : nat -> bool) s : forall n, desc (rev (filter p (seq s n))) /\
  Forall (fun a => a < s + n) (rev (filter p (seq s n))).
Proof. induction n as [|n [IH1 IH2]]; [split; constructor|]. rewrite seq_S, filter_app, rev_app_distr. cbn [filter].
  assert (IH3 : Forall (fun a => a < s + S n) (rev (filter p (seq s n)))).
  { eapply Forall_impl; [|exact IH2]. cbn beta. intros; lia. }
  destruct (p (s + n)); cbn [rev app]; [|split; assumption].
  split; [constructor; assumption|]. constructor; [lia|exact IH3]. Qed.

Lemma removed_axes_desc d tokeep : desc (rev (removed_axes d tokeep)) /\ Forall (fun a => a < d) (rev (removed_axes d tokeep)).
Proof. exact (rev_filter_seq_desc _ 0 d). Qed.

(** * the values: iterated trapezoid marginalisation *)
Local Open Scope R_scope.

(** integrate the listed axes out one after the other; each axis number refers to the array as it is at that
    moment (so a decreasing list names the original axes) *)
Fixpoint marg_axes (sh : list nat) (gs : list (list R)) (axes : list nat) (phi : list R) : list nat * list R :=
  match axes with
  | [] => (sh, phi)
  | a :: t => marg_axes (remove_nth a sh) (remove_nth a gs) t (marginal_out sh gs a phi)
  end.

Lemma marg_axes_shape : forall axes sh gs phi, fst (marg_axes sh gs axes phi) = fold_left (fun acc a => remove_nth a acc) axes sh.
Proof. induction axes as [|a t IH]; intros; [reflexivity|]. cbn [marg_axes fold_left]. apply IH. Qed.

Lemma nth_repeat_lt {A} (x d0 : A) n k : (k < n)%nat -> nth k (repeat x n) d0 = x.
Proof. revert k. induction n as [|n IH]; intros k Hk; [lia|]. destruct k as [|k]; [reflexivity|]. cbn [repeat nth]. apply IH. lia. Qed.
Lemma remove_nth_repeat {A} (x : A) n k : (k < n)%nat -> remove_nth k (repeat x n) = repeat x (n - 1).
Proof. revert n. induction k as [|k IH]; intros [|n] Hk; try lia; cbn [repeat].
  - rewrite remove_nth_0. f_equal. lia.
  - rewrite remove_nth_S, IH by lia. destruct n as [|n]; [lia|]. cbn [repeat Nat.sub]. now rewrite Nat.sub_0_r. Qed.
Lemma remove_nth_length {A} (l : list A) k : (k < length l)%nat -> length (remove_nth k l) = (length l - 1)%nat.
Proof. apply dropn_length. Qed.

(** the loop of filter_pops over a decreasing list of populations *)
Lemma remove_pop_loop (g : list R) : (2 <= length g)%nat -> forall ds sh phi, desc ds -> Forall (fun a => (a < length sh)%nat) ds ->
  fold_left (fun sp p => remove_pop (fst sp) g p (snd sp)) (map S ds) (sh, phi) = marg_axes sh (repeat g (length sh)) ds phi.
Proof. intros Hg. induction ds as [|a t IH]; intros sh phi Hd Hlt; [reflexivity|].
  inversion Hd as [|a' t' Ht Ha]; subst. inversion Hlt as [|a' t' Hal Htl]; subst.
  cbn [map fold_left marg_axes fst snd].
  rewrite (remove_is_marginalisation sh g phi (repeat g (length sh)) (S a) Hg)
    by (replace (S a - 1)%nat with a by lia; now apply nth_repeat_lt).
  replace (S a - 1)%nat with a by lia.
  rewrite IH; [| exact Ht |].
  - rewrite remove_nth_length, remove_nth_repeat by exact Hal. reflexivity.
  - rewrite remove_nth_length by exact Hal. rewrite Forall_forall in *. intros b Hb. specialize (Ha b Hb). lia. Qed.

(** ** (b) refusal *)
Section AnyNum.
  Context {F : Type} `{Num F}.
  Lemma filter_pops_unfold (shape : list nat) (g : list F) tokeep (phi : list F) :
    filter_pops shape g tokeep phi =
    option_map (fun l => fold_left (fun sp p => remove_pop (fst sp) g p (snd sp)) (rev l) (shape, phi))
               (fold_left rm_step tokeep (Some (seq 1 (length shape)))).
  Proof. reflexivity. Qed.

  Theorem filter_pops_refusal (shape : list nat) (g : list F) tokeep (phi : list F) :
    filter_pops shape g tokeep phi = None <-> ~ keep_ok (length shape) tokeep.
  Proof. rewrite filter_pops_unfold, keep_ok_incl. split.
    - intros E [Hnd Hinc]. rewrite toremove_some in E by (try apply seq_NoDup; assumption). discriminate.
    - intros Hbad. rewrite toremove_none by (try apply seq_NoDup; assumption). reflexivity. Qed.

  (** when it does not refuse, the populations removed are exactly those not listed, highest first *)
  Lemma filter_pops_accepts (shape : list nat) (g : list F) tokeep (phi : list F) : keep_ok (length shape) tokeep ->
    filter_pops shape g tokeep phi =
    Some (fold_left (fun sp p => remove_pop (fst sp) g p (snd sp)) (rev (removed_pops (length shape) tokeep)) (shape, phi)).
  Proof. intros Hok. apply keep_ok_incl in Hok. destruct Hok as [Hnd Hinc].
    rewrite filter_pops_unfold, toremove_some by (try apply seq_NoDup; assumption). reflexivity. Qed.
End AnyNum.

(** ** (a) *)
Theorem filter_pops_is_iterated_marginalisation (shape : list nat) (g phi : list R) tokeep :
  (2 <= length g)%nat -> keep_ok (length shape) tokeep ->
  filter_pops shape g tokeep phi =
    Some (map (fun a => nth a shape 0%nat) (kept_axes (length shape) tokeep),
          snd (marg_axes shape (repeat g (length shape)) (rev (removed_axes (length shape) tokeep)) phi)) /\
  fst (marg_axes shape (repeat g (length shape)) (rev (removed_axes (length shape) tokeep)) phi) =
    map (fun a => nth a shape 0%nat) (kept_axes (length shape) tokeep).
Proof. intros Hg Hok. set (d := length shape). destruct (removed_axes_desc d tokeep) as [Hd Hlt].
  assert (Hshape : fst (marg_axes shape (repeat g d) (rev (removed_axes d tokeep)) phi) =
                   map (fun a => nth a shape 0%nat) (kept_axes d tokeep)).
  { rewrite marg_axes_shape, fold_remove_desc by exact Hd. rewrite (keepm_filter 0%nat). fold d.
    unfold kept_axes.
    rewrite (map_ext (fun i => nth (i - 0) shape 0%nat) (fun a => nth a shape 0%nat)) by (intros a; now rewrite Nat.sub_0_r).
    f_equal. apply filter_ext_in. intros a Ha. apply in_seq in Ha.
    destruct (memb (S a) tokeep) eqn:E.
      + apply negb_true_iff, memb_nIn. intros Hin. apply in_rev, filter_In in Hin. destruct Hin as [_ Hn]. rewrite E in Hn. discriminate.
      + apply negb_false_iff, memb_In, in_rev. rewrite rev_involutive. apply filter_In. split; [apply in_seq; lia|]. now rewrite E. }
  split; [|exact Hshape].
  rewrite filter_pops_accepts by exact Hok. fold d. rewrite removed_pops_axes, <- map_rev.
  rewrite remove_pop_loop by assumption. fold d. rewrite <- Hshape. f_equal. apply surjective_pairing. Qed.

(** * (c) Fubini: the order of integration is irrelevant *)
Lemma rsum_weights_swap n m (w1 w2 : nat -> R) (f : nat -> nat -> R) :
  rsum m (fun j2 => w2 j2 * rsum n (fun j1 => w1 j1 * f j1 j2)) = rsum n (fun j1 => w1 j1 * rsum m (fun j2 => w2 j2 * f j1 j2)).
Proof. rewrite (rsum_ext m _ (fun j2 => rsum n (fun j1 => w2 j2 * (w1 j1 * f j1 j2)))) by (intros; now rewrite rsum_scal).
  rewrite rsum_swap. apply rsum_ext. intros j1 _. rewrite <- rsum_scal. apply rsum_ext. intros; ring. Qed.

(** the two axes at positions |A| and |A|+1+|B| of the shape A ++ n :: B ++ m :: C *)
Lemma marg_swap_split (A : list nat) n B m C (GA : list (list R)) g GB h GC (phi : list R) :
  length GA = length A -> length GB = length B -> length g = n -> length h = m ->
  marginal_out (A ++ B ++ m :: C) (GA ++ GB ++ h :: GC) (length A + length B)
               (marginal_out (A ++ n :: B ++ m :: C) (GA ++ g :: GB ++ h :: GC) (length A) phi) =
  marginal_out (A ++ n :: B ++ C) (GA ++ g :: GB ++ GC) (length A)
               (marginal_out (A ++ n :: B ++ m :: C) (GA ++ g :: GB ++ h :: GC) (length A + S (length B)) phi).
Proof. intros HGA HGB Hg Hh.
  set (Sh := A ++ n :: B ++ m :: C). set (G := GA ++ g :: GB ++ h :: GC).
  set (Sh1 := A ++ B ++ m :: C). set (G1 := GA ++ GB ++ h :: GC).
  set (Sh2 := A ++ n :: B ++ C). set (G2 := GA ++ g :: GB ++ GC).
  (* the four ways of seeing an array as split at one axis *)
  assert (ES1 : Sh1 = (A ++ B) ++ m :: C) by (unfold Sh1; now rewrite app_assoc).
  assert (EG1 : G1 = (GA ++ GB) ++ h :: GC) by (unfold G1; now rewrite app_assoc).
  assert (Ek1 : length (A ++ B) = (length A + length B)%nat) by apply app_length.
  assert (EGk1 : length (GA ++ GB) = (length A + length B)%nat) by (rewrite app_length; lia).
  assert (ESa : Sh = A ++ n :: (B ++ m :: C)) by reflexivity.
  assert (EGa : G = GA ++ g :: (GB ++ h :: GC)) by reflexivity.
  assert (ESb : Sh = (A ++ n :: B) ++ m :: C) by (unfold Sh; now rewrite app_mid_assoc).
  assert (EGb : G = (GA ++ g :: GB) ++ h :: GC) by (unfold G; now rewrite app_mid_assoc).
  assert (Ekb : length (A ++ n :: B) = (length A + S (length B))%nat) by (rewrite app_length; reflexivity).
  assert (EGkb : length (GA ++ g :: GB) = (length A + S (length B))%nat) by (rewrite app_length; cbn [length]; lia).
  assert (ES2 : Sh2 = A ++ n :: (B ++ C)) by reflexivity.
  assert (EG2 : G2 = GA ++ g :: (GB ++ GC)) by reflexivity.
  set (X := marginal_out Sh G (length A) phi). set (Y := marginal_out Sh G (length A + S (length B)) phi).
  apply (nth_ext _ _ (@n0 R _) (@n0 R _)).
  { rewrite (marginal_out_length_mi (A ++ B) C m Sh1 G1 _ ES1 Ek1).
    rewrite (marginal_out_length_mi A (B ++ C) n Sh2 G2 _ ES2 eq_refl).
    now rewrite app_assoc. }
  intros j Hj.
  rewrite (marginal_out_length_mi (A ++ B) C m Sh1 G1 _ ES1 Ek1) in Hj.
  rewrite <- app_assoc in Hj.
  pose proof (unflat_valid _ j Hj) as Hv. pose proof (flatidx_unflat _ j Hj) as Ej.
  destruct (Forall2_app_inv_r _ _ Hv) as (iA & iBC & HA & HBC & Eix).
  destruct (Forall2_app_inv_r _ _ HBC) as (iB & iC & HB & HC & Eix2). subst iBC.
  rewrite Eix in Ej. clear Eix Hv HBC. rewrite <- Ej. clear Ej.
  change (nthF (marginal_out Sh1 G1 (length A + length B) X) (flatidx (A ++ B ++ C) (iA ++ iB ++ iC)) =
          nthF (marginal_out Sh2 G2 (length A) Y) (flatidx (A ++ B ++ C) (iA ++ iB ++ iC))).
  (* left: axis m first seen from outside, then axis n *)
  assert (EL : nthF (marginal_out Sh1 G1 (length A + length B) X) (flatidx (A ++ B ++ C) (iA ++ iB ++ iC)) =
               rsum m (fun j2 => trap_w h j2 * rsum n (fun j1 => trap_w g j1 * nthF phi (flatidx Sh (iA ++ j1 :: iB ++ j2 :: iC))))).
  { replace (flatidx (A ++ B ++ C) (iA ++ iB ++ iC)) with (flatidx ((A ++ B) ++ C) ((iA ++ iB) ++ iC)) by (now rewrite <- !app_assoc).
    rewrite (marginal_out_mi (A ++ B) C m (GA ++ GB) GC h Sh1 G1 _ ES1 EG1 Ek1 EGk1 ((A ++ B) ++ C) X (iA ++ iB) iC eq_refl Hh
               (Forall2_app HA HB) HC).
    apply rsum_ext. intros j2 Hj2. f_equal.
    replace (flatidx Sh1 ((iA ++ iB) ++ j2 :: iC)) with (flatidx (A ++ (B ++ m :: C)) (iA ++ (iB ++ j2 :: iC)))
      by (unfold Sh1; now rewrite <- app_assoc).
    apply (marginal_out_mi A (B ++ m :: C) n GA (GB ++ h :: GC) g Sh G _ ESa EGa eq_refl HGA (A ++ (B ++ m :: C)) phi iA (iB ++ j2 :: iC)
             eq_refl Hg HA).
    apply Forall2_app; [exact HB|]. constructor; assumption. }
  assert (ER : nthF (marginal_out Sh2 G2 (length A) Y) (flatidx (A ++ B ++ C) (iA ++ iB ++ iC)) =
               rsum n (fun j1 => trap_w g j1 * rsum m (fun j2 => trap_w h j2 * nthF phi (flatidx Sh (iA ++ j1 :: iB ++ j2 :: iC))))).
  { rewrite (marginal_out_mi A (B ++ C) n GA (GB ++ GC) g Sh2 G2 _ ES2 EG2 eq_refl HGA (A ++ (B ++ C)) Y iA (iB ++ iC) eq_refl Hg HA
               (Forall2_app HB HC)).
    apply rsum_ext. intros j1 Hj1. f_equal.
    replace (flatidx Sh2 (iA ++ j1 :: iB ++ iC)) with (flatidx ((A ++ n :: B) ++ C) ((iA ++ j1 :: iB) ++ iC))
      by (unfold Sh2; now rewrite !app_mid_assoc).
    unfold Y.
    rewrite (marginal_out_mi (A ++ n :: B) C m (GA ++ g :: GB) GC h Sh G _ ESb EGb Ekb EGkb ((A ++ n :: B) ++ C) phi (iA ++ j1 :: iB) iC
               eq_refl Hh).
    - apply rsum_ext. intros j2 _. now rewrite app_mid_assoc.
    - apply Forall2_app; [exact HA|]. constructor; assumption.
    - exact HC. }
  rewrite EL, ER. apply rsum_weights_swap. Qed.

Lemma dropn_two {T} (a : list T) x b y c k r : length a = k -> (length a + S (length b))%nat = r ->
  dropn k (a ++ x :: b ++ y :: c) = a ++ b ++ y :: c /\ dropn r (a ++ x :: b ++ y :: c) = a ++ x :: b ++ c /\
  dropn (r - 1) (a ++ b ++ y :: c) = a ++ b ++ c /\ dropn k (a ++ x :: b ++ c) = a ++ b ++ c.
Proof. intros Hk Hr. split; [now apply dropn_app_len|]. split; [|split; [|now apply dropn_app_len]].
  - rewrite <- app_mid_assoc. rewrite dropn_app_len by (rewrite app_length; cbn [length]; lia). now rewrite app_mid_assoc.
  - rewrite app_assoc. rewrite dropn_app_len by (rewrite app_length; lia). now rewrite <- app_assoc. Qed.

(** positional form: axes k < r of any array whose grids have the lengths of its axes *)
Definition grids_fit (gs : list (list R)) (sh : list nat) : Prop := Forall2 (fun (g : list R) n => length g = n) gs sh.

Theorem marginal_out_commute (sh : list nat) (gs : list (list R)) (phi : list R) k r : grids_fit gs sh -> (k < r < length sh)%nat ->
  marginal_out (remove_nth k sh) (remove_nth k gs) (r - 1) (marginal_out sh gs k phi) =
  marginal_out (remove_nth r sh) (remove_nth r gs) k (marginal_out sh gs r phi) /\
  remove_nth (r - 1) (remove_nth k sh) = remove_nth k (remove_nth r sh).
Proof. intros Hfit [Hkr Hr].
  destruct (split_at2 sh k r Hkr Hr) as (A & n & B & m & C & -> & HA & HAB).
  rewrite app_length in HAB. cbn [length] in HAB.
  destruct (F2_split_mid _ _ _ _ _ Hfit) as (GA & g & G2 & -> & HGA & Hg & HG2).
  destruct (F2_split_mid _ _ _ _ _ HG2) as (GB & h & GC & -> & HGB & Hh & HGC).
  pose proof (F2_length _ _ _ HGA) as LA. pose proof (F2_length _ _ _ HGB) as LB.
  change (@remove_nth nat) with (@dropn nat). change (@remove_nth (list R)) with (@dropn (list R)).
  destruct (dropn_two A n B m C k r HA ltac:(lia)) as (D1 & D2 & D3 & D4).
  destruct (dropn_two GA g GB h GC k r ltac:(lia) ltac:(lia)) as (D5 & D6 & _ & _).
  rewrite D1, D2, D3, D4, D5, D6. split; [|reflexivity].
  replace k with (length A) by exact HA. replace (r - 1)%nat with (length A + length B)%nat by lia.
  replace r with (length A + S (length B))%nat by lia.
  apply marg_swap_split; assumption. Qed.

(** ** any order: populations followed by label *)
(** state: the labels of the current axes (the original axis numbers), shape, grids, values *)
Definition mstate : Type := list nat * list nat * list (list R) * list R.
Definition st_labels (st : mstate) : list nat := fst (fst (fst st)).
Definition rm_label (st : mstate) (a : nat) : mstate :=
  let '(lb, sh, gs, phi) := st in
  let k := index_of a lb in (remove_nth k lb, remove_nth k sh, remove_nth k gs, marginal_out sh gs k phi).
Definition wf_state (st : mstate) : Prop :=
  let '(lb, sh, gs, phi) := st in NoDup lb /\ length sh = length lb /\ grids_fit gs sh.

Lemma index_of_app a l1 l2 : ~ In a l1 -> index_of a (l1 ++ a :: l2) = length l1.
Proof. induction l1 as [|x t IH]; intros Hn; cbn [app index_of length].
  - now rewrite Nat.eqb_refl.
  - destruct (Nat.eqb x a) eqn:E; [apply Nat.eqb_eq in E; subst; exfalso; apply Hn; now left|].
    f_equal. apply IH. intros Hi. apply Hn. now right. Qed.

Lemma rm_label_split (A : list nat) a B SA n SB (GA : list (list R)) g GB lb sh gs (phi : list R) :
  lb = A ++ a :: B -> sh = SA ++ n :: SB -> gs = GA ++ g :: GB -> ~ In a A -> length SA = length A -> length GA = length A ->
  rm_label (lb, sh, gs, phi) a = (A ++ B, SA ++ SB, GA ++ GB, marginal_out sh gs (length A) phi).
Proof. intros -> -> -> Hn HS HG. unfold rm_label. rewrite index_of_app by exact Hn.
  change (@remove_nth nat) with (@dropn nat). change (@remove_nth (list R)) with (@dropn (list R)).
  rewrite !dropn_app_len by (reflexivity || assumption). reflexivity. Qed.

Lemma wf_split lb sh gs (phi : list R) A a B : wf_state (lb, sh, gs, phi) -> lb = A ++ a :: B ->
  exists SA n SB GA g GB, sh = SA ++ n :: SB /\ gs = GA ++ g :: GB /\ length SA = length A /\ length GA = length A /\
    length SB = length B /\ grids_fit GA SA /\ length g = n /\ grids_fit GB SB /\ ~ In a A /\ ~ In a B /\ NoDup (A ++ B).
Proof. intros (Hnd & Hlen & Hfit) ->. rewrite app_length in Hlen. cbn [length] in Hlen.
  destruct (split_at sh (length A) ltac:(lia)) as (SA & n & SB & -> & HSA).
  destruct (F2_split_mid _ _ _ _ _ Hfit) as (GA & g & GB & -> & HGA & Hg & HGB).
  exists SA, n, SB, GA, g, GB. rewrite app_length in Hlen. cbn [length] in Hlen.
  pose proof (F2_length _ _ _ HGA). pose proof (NoDup_remove_2 _ _ _ Hnd) as Hni. pose proof (NoDup_remove_1 _ _ _ Hnd).
  repeat split; try assumption; try lia.
  - intros Hi. apply Hni, in_or_app. now left.
  - intros Hi. apply Hni, in_or_app. now right. Qed.

Lemma rm_label_wf st a : wf_state st -> In a (st_labels st) ->
  wf_state (rm_label st a) /\ (forall b, In b (st_labels (rm_label st a)) <-> In b (st_labels st) /\ b <> a).
Proof. destruct st as [[[lb sh] gs] phi]. unfold st_labels. cbn [fst]. intros Hwf Hin.
  destruct (in_split _ _ Hin) as (A & B & E).
  destruct (wf_split _ _ _ _ _ _ _ Hwf E) as (SA & n & SB & GA & g & GB & Es & Eg & L1 & L2 & L3 & F1 & Hg & F2 & N1 & N2 & Hnd).
  rewrite (rm_label_split A a B SA n SB GA g GB lb sh gs phi E Es Eg N1 L1 L2). cbn [fst]. split.
  - split; [exact Hnd|]. split; [rewrite !app_length; lia|]. apply Forall2_app; assumption.
  - intros b. subst lb. rewrite !in_app_iff. cbn [In]. split.
    + intros [Hb|Hb]; (split; [tauto|]); intros ->; contradiction.
    + intros [[Hb|[Hb|Hb]] Hne]; [now left|congruence|now right]. Qed.

(** the two populations in the order x before y in the label list *)
Lemma rm_label_swap_ordered lb sh gs (phi : list R) x y A B C : wf_state (lb, sh, gs, phi) -> lb = A ++ x :: B ++ y :: C ->
  rm_label (rm_label (lb, sh, gs, phi) x) y = rm_label (rm_label (lb, sh, gs, phi) y) x.
Proof. intros Hwf E.
  destruct (wf_split _ _ _ _ _ _ _ Hwf E) as (SA & n & S2 & GA & g & G2 & Es & Eg & L1 & L2 & L3 & F1 & Hg & F2 & N1 & N2 & Hnd).
  rewrite app_length in L3. cbn [length] in L3.
  destruct (split_at S2 (length B) ltac:(lia)) as (SB & m & SC & -> & HSB).
  destruct (F2_split_mid _ _ _ _ _ F2) as (GB & h & GC & -> & HGB & Hh & HGC).
  pose proof (F2_length _ _ _ HGB) as LB.
  assert (Hxy : x <> y) by (intros ->; apply N2, in_or_app; right; now left).
  assert (Hnd' : NoDup ((A ++ B) ++ y :: C)) by (now rewrite <- app_assoc).
  pose proof (NoDup_remove_2 _ _ _ Hnd') as Hy.
  assert (NyA : ~ In y A) by (intros Hi; apply Hy, in_or_app; left; apply in_or_app; now left).
  assert (NyB : ~ In y B) by (intros Hi; apply Hy, in_or_app; left; apply in_or_app; now right).
  (* x then y *)
  rewrite (rm_label_split A x (B ++ y :: C) SA n (SB ++ m :: SC) GA g (GB ++ h :: GC) lb sh gs phi E Es Eg N1 L1 L2).
  rewrite (rm_label_split (A ++ B) y C (SA ++ SB) m SC (GA ++ GB) h GC _ _ _ _
             (app_assoc _ _ _) (app_assoc _ _ _) (app_assoc _ _ _));
    [| intros Hi; apply in_app_or in Hi; tauto | rewrite !app_length; lia | rewrite !app_length; lia].
  (* y then x *)
  assert (E' : lb = (A ++ x :: B) ++ y :: C) by (rewrite E; now rewrite app_mid_assoc).
  assert (Es' : sh = (SA ++ n :: SB) ++ m :: SC) by (rewrite Es; now rewrite app_mid_assoc).
  assert (Eg' : gs = (GA ++ g :: GB) ++ h :: GC) by (rewrite Eg; now rewrite app_mid_assoc).
  rewrite (rm_label_split (A ++ x :: B) y C (SA ++ n :: SB) m SC (GA ++ g :: GB) h GC lb sh gs phi E' Es' Eg');
    [| intros Hi; apply in_app_or in Hi; destruct Hi as [Hi|[Hi|Hi]]; [tauto|congruence|tauto]
     | rewrite !app_length; cbn [length]; lia | rewrite !app_length; cbn [length]; lia].
  rewrite (rm_label_split A x (B ++ C) SA n (SB ++ SC) GA g (GB ++ GC) _ _ _ _
             (app_mid_assoc _ _ _ _) (app_mid_assoc _ _ _ _) (app_mid_assoc _ _ _ _) N1 L1 L2).
  rewrite <- !app_assoc. f_equal.
  rewrite !app_length. cbn [length app]. rewrite <- L1, <- HSB. clear E' Es' Eg'. subst sh gs.
  apply marg_swap_split; try assumption; lia. Qed.

Lemma two_labels_split (lb : list nat) x y : In x lb -> In y lb -> x <> y ->
  (exists A B C, lb = A ++ x :: B ++ y :: C) \/ (exists A B C, lb = A ++ y :: B ++ x :: C).
Proof. intros Hx Hy Hne. destruct (in_split _ _ Hx) as (l1 & l2 & ->).
  apply in_app_or in Hy. destruct Hy as [Hy|[Hy|Hy]]; [|congruence|].
  - right. destruct (in_split _ _ Hy) as (A & B & ->). exists A, B, l2. now rewrite app_mid_assoc.
  - left. destruct (in_split _ _ Hy) as (B & C & ->). now exists l1, B, C. Qed.

Lemma rm_label_swap st x y : wf_state st -> In x (st_labels st) -> In y (st_labels st) -> x <> y ->
  rm_label (rm_label st x) y = rm_label (rm_label st y) x.
Proof. destruct st as [[[lb sh] gs] phi]. unfold st_labels. cbn [fst]. intros Hwf Hx Hy Hne.
  destruct (two_labels_split lb x y Hx Hy Hne) as [(A & B & C & E)|(A & B & C & E)].
  - now apply (rm_label_swap_ordered lb sh gs phi x y A B C).
  - symmetry. now apply (rm_label_swap_ordered lb sh gs phi y x A B C). Qed.

Theorem marginalisation_order_irrelevant (l1 l2 : list nat) : Permutation l1 l2 ->
  forall st, wf_state st -> NoDup l1 -> incl l1 (st_labels st) -> fold_left rm_label l1 st = fold_left rm_label l2 st.
Proof. induction 1 as [|x l l' HP IH|x y l|l l' l'' HP1 IH1 HP2 IH2]; intros st Hwf Hnd Hinc.
  - reflexivity.
  - cbn [fold_left]. inversion Hnd as [|x' t Hx Ht]; subst.
    destruct (rm_label_wf st x Hwf (Hinc x (or_introl eq_refl))) as [Hwf' Hlab].
    apply IH; [exact Hwf'|exact Ht|]. intros b Hb. apply Hlab. split; [apply Hinc; now right|]. intros ->. contradiction.
  - cbn [fold_left]. f_equal. inversion Hnd as [|x' t Hx Ht]; subst.
    apply rm_label_swap; [exact Hwf| apply Hinc; now left | apply Hinc; right; now left |].
    intros ->. apply Hx. now left.
  - rewrite IH1 by assumption. apply IH2; [exact Hwf| eapply Permutation_NoDup; eassumption |].
    intros b Hb. apply Hinc. eapply Permutation_in; [apply Permutation_sym; exact HP1|exact Hb]. Qed.

(** ** filter_pops is one of these orders: following labels from the highest axis down is positional *)
Lemma index_of_seq_prefix (lb : list nat) m a : firstn m lb = seq 0 m -> (a < m)%nat -> (m <= length lb)%nat -> index_of a lb = a.
Proof. intros Hf Ha Hm. rewrite <- (firstn_skipn m lb), Hf.
  replace m with (a + S (m - S a))%nat by lia. rewrite seq_app. cbn [seq plus].
  rewrite <- app_assoc. cbn [app]. rewrite index_of_app; [now rewrite seq_length|]. intros Hi. apply in_seq in Hi. lia. Qed.

Lemma label_desc_positional : forall ds m lb sh gs (phi : list R), desc ds -> Forall (fun a => (a < m)%nat) ds ->
  firstn m lb = seq 0 m -> (m <= length lb)%nat -> length sh = length lb ->
  let r := fold_left rm_label ds (lb, sh, gs, phi) in
  (snd (fst (fst r)), snd r) = marg_axes sh gs ds phi.
Proof. induction ds as [|a t IH]; intros m lb sh gs phi Hd Hlt Hf Hm Hlen; [reflexivity|].
  inversion Hd as [|a' t' Ht Ha]; subst. inversion Hlt as [|a' t' Ham Htm]; subst.
  cbn [fold_left marg_axes].
  assert (E : rm_label (lb, sh, gs, phi) a = (remove_nth a lb, remove_nth a sh, remove_nth a gs, marginal_out sh gs a phi)).
  { unfold rm_label. now rewrite (index_of_seq_prefix lb m a Hf Ham Hm). }
  rewrite E. apply (IH a).
  - exact Ht.
  - exact Ha.
  - unfold remove_nth. rewrite firstn_app_len by (rewrite firstn_length; lia).
    assert (E2 : firstn a lb = firstn a (firstn m lb)) by (rewrite firstn_firstn; f_equal; lia).
    rewrite E2, Hf. replace m with (a + (m - a))%nat by lia. rewrite seq_app. apply firstn_app_len, seq_length.
  - rewrite remove_nth_length by lia. lia.
  - rewrite !remove_nth_length by lia. lia. Qed.

Theorem filter_pops_any_order (shape : list nat) (g phi : list R) tokeep (order : list nat) :
  (2 <= length g)%nat -> Forall (fun n => n = length g) shape -> keep_ok (length shape) tokeep ->
  Permutation order (removed_axes (length shape) tokeep) ->
  filter_pops shape g tokeep phi =
    Some (let r := fold_left rm_label order (seq 0 (length shape), shape, repeat g (length shape), phi) in
          (snd (fst (fst r)), snd r)).
Proof. intros Hg Hsh Hok HP. set (d := length shape).
  destruct (filter_pops_is_iterated_marginalisation shape g phi tokeep Hg Hok) as [E Es]. fold d in E, Es.
  rewrite E. f_equal. destruct (removed_axes_desc d tokeep) as [Hd Hlt].
  assert (Hwf : wf_state (seq 0 d, shape, repeat g d, phi)).
  { split; [apply seq_NoDup|]. split; [now rewrite seq_length|]. unfold grids_fit, d. clear -Hsh.
    induction Hsh as [|n t Hn _ IH]; cbn [length repeat]; constructor; [now symmetry|exact IH]. }
  rewrite (marginalisation_order_irrelevant order (rev (removed_axes d tokeep))).
  - assert (EP := label_desc_positional (rev (removed_axes d tokeep)) d (seq 0 d) shape (repeat g d) phi Hd Hlt).
    cbv zeta in EP. cbv zeta. rewrite EP;
      [| rewrite firstn_all2; [reflexivity|rewrite seq_length; lia] | rewrite seq_length; lia | now rewrite seq_length].
    rewrite <- Es. symmetry. apply surjective_pairing.
  - eapply Permutation_trans; [exact HP|apply Permutation_rev].
  - exact Hwf.
  - eapply Permutation_NoDup; [apply Permutation_sym; exact HP|]. apply NoDup_filter, seq_NoDup.
  - intros a Ha. unfold st_labels. cbn [fst]. eapply Permutation_in in Ha; [|exact HP]. apply filter_In in Ha. tauto. Qed.
From Dadi Require Import Proofs.PhiManipTable.
Local Open Scope R_scope.
(** ** the constructors' proportion test: 3 -> 4 and 4 -> 5 hand their proportion parameters to the helper
    unchanged, so they reject exactly the vectors summing above 1; the 2 -> 3 constructors (2-population
    helper, no test) reject nothing *)
Theorem cons_rejection_characterised p : In p cons_table -> forall ps : list R, length ps = (pd_dim p - 1)%nat ->
  (rejected (desc_args p ps) = true <-> (3 <= pd_dim p)%nat /\ 1 < nsum ps).
Proof. intros Hin ps Hlen.
  in_table Hin; cbn [pd_dim mkp Nat.sub] in Hlen; list_len ps Hlen;
  cbn [pd_dim mkp pd_args];
  try (cbn [desc_args pd_args mkp map rejected]; split; [discriminate | intros [H _]; lia]);
  (rewrite rejected_iff by (cbn; lia));
  cbn [desc_args pd_args mkp map eval_arg nthF nth rest_of fold_left]; unfold nsum; cbn [fold_right]; numR;
  (split; [intros H; split; [lia | lra] | intros [_ H]; lra]). Qed.

(** ** the guard-only comparison of the correspondence files is the full comparison *)
From Dadi Require Import Base.NumD Model.PhiManipCheck.
Lemma mcheck_guard_is_mcheck tol c : mcheck_guard tol c = mcheck tol c.
Proof. unfold mcheck_guard. destruct (mc_valcmp c) eqn:Hv; [reflexivity|].
  unfold guard_model, mcheck, mmodel. destruct (mc_op c); try reflexivity;
  unfold run_desc; destruct (rejected _); cbn [option_map];
  try (destruct (mc_raised c); reflexivity);
  destruct (pd_dest _); cbn [option_map]; rewrite Hv; destruct (mc_raised c); reflexivity. Qed.
