(** * NumDTrans: the transcendental slots of the dictionary [NumD].
    [nexp x = Q2D (Qexp (D2Q x))], [nln x = Q2D (Qln (D2Q x))]: one rounding (<= 2^(1-prec), NumDSpec.Q2D_spec) of the
    rational function of Base/NumQ.v applied to the exact denotation; with QexpSpec.Qexp_spec the exponential slot is
    within 2^-98 (relative) of the real exponential on |x| <= 2^16. *)
From Coq Require Import ZArith QArith Qabs Qreals Reals Lra.
From Bignums Require Import BigZ.
From Dadi Require Import Base.Num Base.NumQ Base.NumD Proofs.NumDSpec Proofs.QexpSpec.

Theorem NumD_nexp_rounding : forall x : D,
  (Qabs (D2Q (nexp x) - Qexp (D2Q x)) <= uD * Qabs (Qexp (D2Q x)))%Q.
Proof. intro x. cbn [nexp NumD]. apply Q2D_spec. Qed.

Theorem NumD_nln_rounding : forall x : D,
  (Qabs (D2Q (nln x) - Qln (D2Q x)) <= uD * Qabs (Qln (D2Q x)))%Q.
Proof. intro x. cbn [nln NumD]. apply Q2D_spec. Qed.

Lemma Q2R_Qabs q : Q2R (Qabs q) = Rabs (Q2R q).
Proof.
  apply Qabs_case; intro H.
  - apply Qle_Rle in H. rewrite RMicromega.Q2R_0 in H. rewrite Rabs_pos_eq; [reflexivity | exact H].
  - apply Qle_Rle in H. rewrite RMicromega.Q2R_0 in H. rewrite Q2R_opp.
    rewrite <- Rabs_Ropp. rewrite Rabs_pos_eq; [reflexivity | lra].
Qed.

Lemma Q2R_uD : Q2R uD = (/ 2 ^ 127)%R.
Proof.
  rewrite (Qeq_eqR _ _ uD_value). unfold Q2R. cbn [Qnum Qden].
  rewrite Rmult_1_l. f_equal. rewrite pow_IZR. f_equal.
Qed.

Local Open Scope R_scope.
Theorem NumD_nexp_spec : forall x : D, (Qabs (D2Q x) <= 65536)%Q ->
  Rabs (Q2R (D2Q (nexp x)) - exp (Q2R (D2Q x))) <= exp (Q2R (D2Q x)) / 2 ^ 98.
Proof.
  intros x Hx. pose proof (Qexp_spec (D2Q x) Hx) as H1. pose proof (NumD_nexp_rounding x) as H2.
  apply Qle_Rle in H2. rewrite Q2R_mult, !Q2R_Qabs, Q2R_minus, Q2R_uD in H2.
  pose proof (exp_pos (Q2R (D2Q x))) as He.
  set (E := exp (Q2R (D2Q x))) in *. set (q := Q2R (Qexp (D2Q x))) in *. set (r := Q2R (D2Q (nexp x))) in *.
  assert (Hq : Rabs q <= E * (1 + / 2 ^ 99)).
  { unfold Rabs in *. destruct (Rcase_abs q); destruct (Rcase_abs (q - E)); unfold Rdiv in H1; lra. }
  assert (H3 : / 2 ^ 127 * Rabs q <= / 2 ^ 127 * (E * (1 + / 2 ^ 99))) by (apply Rmult_le_compat_l; lra).
  assert (H4 : E / 2 ^ 99 + / 2 ^ 127 * (E * (1 + / 2 ^ 99)) <= E / 2 ^ 98) by (unfold Rdiv; nra).
  replace (r - E) with ((r - q) + (q - E)) by ring.
  eapply Rle_trans; [apply Rabs_triang |]. lra.
Qed.
