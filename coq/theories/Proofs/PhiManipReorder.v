(** reorder_pops is the axis permutation (numpy transpose read back in C order); malformed orders are refused. *)
From Coq Require Import List Arith Bool ZArith Reals Lra Lia Permutation.
From Dadi Require Import Base.Num Base.NumR Model.Tridiag Model.Scheme Model.NDSweep Model.PhiManip
  Proofs.PhiManipSums.
Import ListNotations.

(** ** flat index <-> multi-index *)
Lemma flatidx_lt shape ix : Forall2 lt ix shape -> flatidx shape ix < prodn shape.
Proof. induction 1 as [|i n it t Hi Hf IH]; cbn [flatidx]; [unfold prodn; cbn; lia|].
  rewrite prodn_cons. nia. Qed.
Lemma unflat_flatidx shape ix : Forall2 lt ix shape -> unflat shape (flatidx shape ix) = ix.
Proof. induction 1 as [|i n it t Hi Hf IH]; cbn [flatidx unflat]; auto.
  pose proof (flatidx_lt _ _ Hf) as Hlt.
  assert (Hp : prodn t <> 0) by lia.
  f_equal.
  - rewrite Nat.div_add_l by auto. rewrite Nat.div_small by auto. lia.
  - rewrite Nat.add_comm, Nat.mod_add by auto. rewrite Nat.mod_small by auto. exact IH. Qed.

Lemma Forall2_nth_intro {A B} (R : A -> B -> Prop) (da : A) (db : B) l1 l2 :
  length l1 = length l2 -> (forall j, j < length l1 -> R (nth j l1 da) (nth j l2 db)) -> Forall2 R l1 l2.
Proof. revert l2. induction l1 as [|a l1 IH]; intros [|b l2] Hl Hn; cbn in Hl; try lia; constructor.
  - apply (Hn 0). cbn; lia.
  - apply IH; [lia|]. intros j Hj. apply (Hn (S j)). cbn; lia. Qed.
Lemma Forall2_nth_elim (l s : list nat) j : Forall2 lt l s -> j < length s -> nth j l 0 < nth j s 0.
Proof. apply Forall2_nth_lt. Qed.
Lemma Forall2_length {A B} (R : A -> B -> Prop) l1 l2 : Forall2 R l1 l2 -> length l1 = length l2.
Proof. induction 1; cbn; congruence. Qed.

Lemma nth_map_lt {A B} (f : A -> B) l j da db : j < length l -> nth j (map f l) db = f (nth j l da).
Proof. intros Hj. rewrite (nth_indep _ db (f da)) by (now rewrite map_length). apply map_nth. Qed.

(** ** sorting and the validity test *)
Lemma list_nat_eqb_eq a b : list_nat_eqb a b = true -> a = b.
Proof. revert b. induction a as [|x a IH]; intros [|y b]; cbn; try discriminate; auto.
  intros H. apply andb_true_iff in H as [H1 H2]. apply Nat.eqb_eq in H1. subst. f_equal. auto. Qed.
Lemma insert_sorted_perm x l : Permutation (x :: l) (insert_sorted x l).
Proof. induction l as [|y l IH]; cbn; auto. destruct (x <=? y); auto.
  rewrite perm_swap. now constructor. Qed.
Lemma isort_perm l : Permutation l (isort l).
Proof. induction l as [|x l IH]; cbn; auto. rewrite <- insert_sorted_perm. now constructor. Qed.

Definition valid_order (d : nat) (no : list nat) : Prop := list_nat_eqb (isort no) (seq 1 d) = true.

Lemma valid_axes d no : valid_order d no ->
  Permutation (map pred no) (seq 0 d).
Proof. intros H. apply list_nat_eqb_eq in H. pose proof (isort_perm no) as P. rewrite H in P.
  apply (Permutation_map pred) in P. rewrite P. rewrite <- seq_shift, map_map. cbn [pred]. now rewrite map_id. Qed.

(** ** index_of *)
Lemma index_of_spec a l : In a l -> index_of a l < length l /\ nth (index_of a l) l 0 = a.
Proof. induction l as [|x l IH]; cbn; [tauto|]. intros [->|Hin].
  - rewrite Nat.eqb_refl. cbn. split; [lia | reflexivity].
  - destruct (Nat.eqb x a) eqn:E.
    + apply Nat.eqb_eq in E. subst. split; [lia | reflexivity].
    + destruct (IH Hin). split; [lia | assumption]. Qed.
Lemma index_of_nth l j : NoDup l -> j < length l -> index_of (nth j l 0) l = j.
Proof. intros Hnd. revert j. induction Hnd as [|x l Hx Hnd IH]; intros j Hj; cbn in Hj; [lia|].
  destruct j as [|j]; cbn.
  - now rewrite Nat.eqb_refl.
  - destruct (Nat.eqb x (nth j l 0)) eqn:E.
    + apply Nat.eqb_eq in E. exfalso. apply Hx. rewrite E. apply nth_In. lia.
    + f_equal. apply IH. lia. Qed.

(** ** reorder_pops *)
Section Reorder.
  Context {F : Type} `{Num F}.
  Variables (shape : list nat) (no : list nat) (phi : list F).
  Let d := length shape.
  Let axes := map pred no.
  Let nshape := map (fun a => nth a shape 0) axes.
  (** the old multi-index that lands on the new multi-index ix' *)
  Definition old_index (ix' : list nat) : list nat := map (fun a => nth (index_of a axes) ix' 0) (seq 0 d).

  Hypothesis Hvalid : valid_order d no.

  Lemma axes_facts : length axes = d /\ NoDup axes /\ (forall a, a < d <-> In a axes).
  Proof. pose proof (valid_axes d no Hvalid) as P. fold axes in P. split; [|split].
    - apply Permutation_length in P. now rewrite seq_length in P.
    - apply (Permutation_NoDup (Permutation_sym P)). apply seq_NoDup.
    - intros a. rewrite (Permutation_in' (eq_refl a) P). rewrite in_seq. split; intros; lia. Qed.

  (** result axis j is old axis axes[j]:  out[ix'] = in[ix]  with  ix[axes[j]] = ix'[j],  shape'[j] = shape[axes[j]] *)
  Theorem reorder_is_permutation_gen (ix' : list nat) : Forall2 lt ix' nshape ->
    reorder_pops shape no phi = Some (nshape, snd (transpose_flat shape axes phi)) /\
    nth (flatidx nshape ix') (snd (transpose_flat shape axes phi)) n0 = nth (flatidx shape (old_index ix')) phi n0 /\
    Forall2 lt (old_index ix') shape /\
    (forall j, j < d -> nth (nth j axes 0) (old_index ix') 0 = nth j ix' 0).
  Proof. intros Hix. destruct axes_facts as (Hlen & Hnd & Hin).
    split; [|split; [|split]].
    - unfold reorder_pops. fold d. unfold valid_order in Hvalid. rewrite Hvalid. reflexivity.
    - unfold transpose_flat. cbn [snd]. fold nshape. fold d.
      rewrite (nth_map_seq _ n0) by (now apply flatidx_lt). cbn [plus].
      rewrite unflat_flatidx by auto. reflexivity.
    - apply (Forall2_nth_intro lt 0 0).
      + unfold old_index. now rewrite map_length, seq_length.
      + unfold old_index. rewrite map_length, seq_length. intros a Ha. rewrite nth_map_seq by auto. cbn [plus].
        destruct (index_of_spec a axes) as [Hi Hn]; [now apply Hin|].
        pose proof (Forall2_nth_lt _ _ (index_of a axes) Hix) as Hlt.
        unfold nshape in Hlt at 1. rewrite map_length in Hlt. specialize (Hlt Hi).
        unfold nshape in Hlt. rewrite (nth_map_lt (fun a => nth a shape 0) axes _ 0 0) in Hlt by exact Hi.
        now rewrite Hn in Hlt.
    - intros j Hj. unfold old_index.
      assert (Ha : nth j axes 0 < d) by (apply Hin, nth_In; lia).
      rewrite nth_map_seq by auto. cbn [plus]. rewrite index_of_nth; auto. lia. Qed.
End Reorder.

(** malformed orders (repeats, out of range, wrong length) are refused *)
Theorem reorder_refuses {F} `{Num F} (shape no : list nat) (phi : list F) :
  ~ Permutation no (seq 1 (length shape)) -> reorder_pops shape no phi = None.
Proof. intros Hn. unfold reorder_pops. destruct (list_nat_eqb _ _) eqn:E; auto. exfalso. apply Hn.
  apply list_nat_eqb_eq in E. rewrite <- E. apply isort_perm. Qed.
