(** reorder_pops is the axis permutation (numpy transpose read back in C order); malformed orders are refused. *)
From Coq Require Import List Arith Bool ZArith Reals Lra Lia Permutation.
From Dadi Require Import Base.Num Base.NumR Model.Tridiag Model.Scheme Model.NDSweep Model.PhiManip
  Proofs.PhiManipSums.
Import ListNotations.

(** ** flat index <-> multi-index *)
Lemma flatidx_lt shape ix : Forall2 lt ix shape -> flatidx shape ix < prodn shape.
Proof. induction 1 as [|i n it t Hi Hf IH]; cbn [flatidx]; [unfold prodn; cbn; lia|].
  rewrite prodn_cons. nia. Qed.
Lemma unflat_flatidx shape ix : Forall2 lt ix shape -> unflat shape (flatidx shape ix) = ix.
Proof. induction 1 as [|i n it t Hi Hf IH]; cbn [flatidx unflat]; auto.
  pose proof (flatidx_lt _ _ Hf) as Hlt.
  assert (Hp : prodn t <> 0) by lia.
  f_equal.
  - rewrite Nat.div_add_l by auto. rewrite Nat.div_small by auto. lia.
  - rewrite Nat.add_comm, Nat.mod_add by auto. rewrite Nat.mod_small by auto. exact IH. Qed.

Lemma Forall2_nth_intro {A B} (R : A -> B -> Prop) (da : A) (db : B) l1 l2 :
  length l1 = length l2 -> (forall j, j < length l1 -> R (nth j l1 da) (nth j l2 db)) -> Forall2 R l1 l2.
Proof. revert l2. induction l1 as [|a l1 IH]; intros [|b l2] Hl Hn; cbn in Hl; try lia; constructor.
  - apply (Hn 0). cbn; lia.
  - apply IH; [lia|]. intros j Hj. apply (Hn (S j)). cbn; lia. Qed.
Lemma Forall2_nth_elim (l s : list nat) j : Forall2 lt l s -> j < length s -> nth j l 0 < nth j s 0.
Proof. apply Forall2_nth_lt. Qed.
Lemma Forall2_length {A B} (R : A -> B -> Prop) l1 l2 : Forall2 R l1 l2 -> length l1 = length l2.
Proof. induction 1; cbn; congruence. Qed.

Lemma nth_map_lt {A B} (f : A -> B) l j da db : j < length l -> nth j (map f l) db = f (nth j l da).
Proof. intros Hj. rewrite (nth_indep _ db (f da)) by (now rewrite map_length). apply map_nth. Qed.

(** ** sorting and the validity test *)
Lemma list_nat_eqb_eq a b : list_nat_eqb a b = true -> a = b.
Proof. revert b. induction a as [|x a IH]; intros [|y b]; cbn; try discriminate; auto.
  intros H. apply andb_true_iff in H as [H1 H2]. apply Nat.eqb_eq in H1. subst. f_equal. auto. Qed.
Lemma insert_sorted_perm x l : Permutation (x :: l) (insert_sorted x l).
Proof. induction l as [|y l IH]; cbn; auto. destruct (x <=? y); auto.
  rewrite perm_swap. now constructor. Qed.
Lemma isort_perm l : Permutation l (isort l).
Proof. induction l as [|x l IH]; cbn; auto. rewrite <- insert_sorted_perm. now constructor. Qed.

Definition valid_order (d : nat) (no : list nat) : Prop := list_nat_eqb (isort no) (seq 1 d) = true.

Lemma valid_axes d no : valid_order d no ->
  Permutation (map pred no) (seq 0 d).
Proof. intros H. apply list_nat_eqb_eq in H. pose proof (isort_perm no) as P. rewrite H in P.
  apply (Permutation_map pred) in P. rewrite P. rewrite <- seq_shift, map_map. cbn [pred]. now rewrite map_id. Qed.

(** ** index_of *)
Lemma index_of_spec a l : In a l -> index_of a l < length l /\ nth (index_of a l) l 0 = a.
Proof. induction l as [|x l IH]; cbn; [tauto|]. intros [->|Hin].
  - rewrite Nat.eqb_refl. cbn. split; [lia | reflexivity].
  - destruct (Nat.eqb x a) eqn:E.
    + apply Nat.eqb_eq in E. subst. split; [lia | reflexivity].
    + destruct (IH Hin). split; [lia | assumption]. Qed.
Lemma index_of_nth l j : NoDup l -> j < length l -> index_of (nth j l 0) l = j.
Proof. intros Hnd. revert j. induction Hnd as [|x l Hx Hnd IH]; intros j Hj; cbn in Hj; [lia|].
  destruct j as [|j]; cbn.
  - now rewrite Nat.eqb_refl.
  - destruct (Nat.eqb x (nth j l 0)) eqn:E.
    + apply Nat.eqb_eq in E. exfalso. apply Hx. rewrite E. apply nth_In. lia.
    + f_equal. apply IH. lia. Qed.

(** ** reorder_pops *)
Section Reorder.
  Context {F : Type} `{Num F}.
  Variables (shape : list nat) (no : list nat) (phi : list F).
  Let d := length shape.
  Let axes := map pred no.
  Let nshape := map (fun a => nth a shape 0) axes.
  (** the old multi-index that lands on the new multi-index ix' *)
  Definition old_index (ix' : list nat) : list nat := map (fun a => nth (index_of a axes) ix' 0) (seq 0 d).

  Hypothesis Hvalid : valid_order d no.

  Lemma axes_facts : length axes = d /\ NoDup axes /\ (forall a, a < d <-> In a axes).
  Proof. pose proof (valid_axes d no Hvalid) as P. fold axes in P. split; [|split].
    - apply Permutation_length in P. now rewrite seq_length in P.
    - apply (Permutation_NoDup (Permutation_sym P)). apply seq_NoDup.
    - intros a. rewrite (Permutation_in' (eq_refl a) P). rewrite in_seq. split; intros; lia. Qed.

  (** result axis j is old axis axes[j]:  out[ix'] = in[ix]  with  ix[axes[j]] = ix'[j],  shape'[j] = shape[axes[j]] *)
  Theorem reorder_is_permutation_gen (ix' : list nat) : Forall2 lt ix' nshape ->
    reorder_pops shape no phi = Some (nshape, snd (transpose_flat shape axes phi)) /\
    nth (flatidx nshape ix') (snd (transpose_flat shape axes phi)) n0 = nth (flatidx shape (old_index ix')) phi n0 /\
    Forall2 lt (old_index ix') shape /\
    (forall j, j < d -> nth (nth j axes 0) (old_index ix') 0 = nth j ix' 0).
  Proof. intros Hix. destruct axes_facts as (Hlen & Hnd & Hin).
    split; [|split; [|split]].
    - unfold reorder_pops. fold d. unfold valid_order in Hvalid. rewrite Hvalid. reflexivity.
    - unfold transpose_flat. cbn [snd]. fold nshape. fold d.
      rewrite (nth_map_seq _ n0) by (now apply flatidx_lt). cbn [plus].
      rewrite unflat_flatidx by auto. reflexivity.
    - apply (Forall2_nth_intro lt 0 0).
      + unfold old_index. now rewrite map_length, seq_length.
      + unfold old_index. rewrite map_length, seq_length. intros a Ha. rewrite nth_map_seq by auto. cbn [plus].
        destruct (index_of_spec a axes) as [Hi Hn]; [now apply Hin|].
        pose proof (Forall2_nth_lt _ _ (index_of a axes) Hix) as Hlt.
        unfold nshape in Hlt at 1. rewrite map_length in Hlt. specialize (Hlt Hi).
        unfold nshape in Hlt. rewrite (nth_map_lt (fun a => nth a shape 0) axes _ 0 0) in Hlt by exact Hi.
        now rewrite Hn in Hlt.
    - intros j Hj. unfold old_index.
      assert (Ha : nth j axes 0 < d) by (apply Hin, nth_In; lia).
      rewrite nth_map_seq by auto. cbn [plus]. rewrite index_of_nth; auto. lia. Qed.
End Reorder.

(** malformed orders (repeats, out of range, wrong length) are refused *)
Theorem reorder_refuses {F} `{Num F} (shape no : list nat) (phi : list F) :
  ~ Permutation no (seq 1 (length shape)) -> reorder_pops shape no phi = None.
Proof. intros Hn. unfold reorder_pops. destruct (list_nat_eqb _ _) eqn:E; auto. exfalso. apply Hn.
  apply list_nat_eqb_eq in E. rewrite <- E. apply isort_perm. Qed.

(** ** composition of two reorderings *)
Ltac leb_prop :=
  repeat match goal with
  | H : (_ <=? _) = true |- _ => apply Nat.leb_le in H
  | H : (_ <=? _) = false |- _ => apply Nat.leb_gt in H
  end.
Lemma insert_sorted_comm x y l : insert_sorted x (insert_sorted y l) = insert_sorted y (insert_sorted x l).
Proof. induction l as [|z l IH]; cbn.
  - destruct (x <=? y) eqn:E1, (y <=? x) eqn:E2; cbn; rewrite ?E1, ?E2; try reflexivity; leb_prop; try lia.
    assert (x = y) by lia. subst. reflexivity.
  - destruct (y <=? z) eqn:E1, (x <=? z) eqn:E2; cbn;
    destruct (x <=? y) eqn:E3, (y <=? x) eqn:E4; cbn; rewrite ?E1, ?E2, ?E3, ?E4; cbn; rewrite ?E1, ?E2;
    try reflexivity; leb_prop; try lia; try (assert (x = y) by lia; subst; reflexivity).
    now rewrite IH. all: now rewrite IH. Qed.
Lemma isort_perm_eq l l' : Permutation l l' -> isort l = isort l'.
Proof. induction 1 as [|x l l' P IH|x y l|l l' l'' P1 IH1 P2 IH2].
  - reflexivity.
  - change (insert_sorted x (isort l) = insert_sorted x (isort l')). now rewrite IH.
  - change (insert_sorted y (insert_sorted x (isort l)) = insert_sorted x (insert_sorted y (isort l))). apply insert_sorted_comm.
  - congruence. Qed.
Lemma isort_seq a d : isort (seq a d) = seq a d.
Proof. revert a. induction d as [|d IH]; intros a; cbn; auto. rewrite IH. destruct d; cbn; auto.
  replace (a <=? S a) with true by (symmetry; apply Nat.leb_le; lia). reflexivity. Qed.
Lemma list_nat_eqb_refl l : list_nat_eqb l l = true.
Proof. induction l; cbn; auto. now rewrite Nat.eqb_refl. Qed.
Lemma valid_order_iff d no : valid_order d no <-> Permutation no (seq 1 d).
Proof. unfold valid_order. split.
  - intros H. apply list_nat_eqb_eq in H. rewrite <- H. apply isort_perm.
  - intros P. rewrite (isort_perm_eq _ _ P), isort_seq. apply list_nat_eqb_refl. Qed.

Definition compose_order (n1 n2 : list nat) : list nat := map (fun i => nth (pred i) n1 0) n2.

Lemma compose_valid d n1 n2 : valid_order d n1 -> valid_order d n2 -> valid_order d (compose_order n1 n2).
Proof. rewrite !valid_order_iff. intros P1 P2. unfold compose_order.
  assert (Hl : length n1 = d) by (apply Permutation_length in P1; now rewrite seq_length in P1).
  rewrite (Permutation_map _ P2).
  assert (E : map (fun i => nth (pred i) n1 0) (seq 1 d) = n1).
  { rewrite <- seq_shift, map_map. cbn [pred]. rewrite <- Hl. apply map_nth_seq. }
  rewrite E. exact P1. Qed.
Lemma compose_axes d n1 n2 : valid_order d n1 -> valid_order d n2 ->
  map pred (compose_order n1 n2) = map (fun j => nth j (map pred n1) 0) (map pred n2).
Proof. intros _ _. unfold compose_order. rewrite !map_map. apply map_ext. intros i.
  change 0 with (pred 0) at 2. now rewrite map_nth. Qed.

Theorem reorder_compose {F} `{Num F} (shape n1 n2 : list nat) (phi : list F) :
  valid_order (length shape) n1 -> valid_order (length shape) n2 ->
  match reorder_pops shape n1 phi with
  | Some (s1, r1) => reorder_pops s1 n2 r1
  | None => None
  end = reorder_pops shape (compose_order n1 n2) phi.
Proof. intros V1 V2. set (d := length shape) in *.
  pose proof (compose_valid d n1 n2 V1 V2) as V12.
  destruct (axes_facts shape n1 V1) as (L1 & ND1 & In1). fold d in L1, In1.
  destruct (axes_facts shape n2 V2) as (L2 & ND2 & In2). fold d in L2, In2.
  destruct (axes_facts shape _ V12) as (L12 & ND12 & In12). fold d in L12, In12.
  set (a1 := map pred n1) in *. set (a2 := map pred n2) in *.
  assert (E12 : map pred (compose_order n1 n2) = map (fun j => nth j a1 0) a2) by (apply (compose_axes d); auto).
  rewrite E12 in *. set (a12 := map (fun j => nth j a1 0) a2) in *.
  set (s1 := map (fun a => nth a shape 0) a1).
  assert (Ls1 : length s1 = d) by (unfold s1; now rewrite map_length).
  assert (V2' : valid_order (length s1) n2) by (now rewrite Ls1).
  unfold reorder_pops at 1. fold d. unfold valid_order in V1. rewrite V1. unfold transpose_flat at 1. fold a1 s1.
  set (r1 := map _ (seq 0 (prodn s1))).
  unfold reorder_pops. rewrite Ls1. fold d. unfold valid_order in V2, V12. rewrite V2, V12. f_equal.
  unfold transpose_flat. fold a2. rewrite E12. fold a12. rewrite Ls1. fold d.
  assert (Es : map (fun a => nth a s1 0) a2 = map (fun a => nth a shape 0) a12).
  { unfold a12. rewrite map_map. apply map_ext_in. intros a Ha. apply In2 in Ha.
    unfold s1. apply (nth_map_lt (fun a => nth a shape 0) a1 a 0 0). now rewrite L1. }
  rewrite Es. set (s12 := map (fun a => nth a shape 0) a12). f_equal.
  apply map_seq_ext. intros idx Hidx.
  assert (Hix : Forall2 lt (unflat s12 idx) s12) by (apply unflat_lt; lia).
  set (ix := unflat s12 idx) in *.
  (* entry of the intermediate array *)
  assert (Hix1 : Forall2 lt ix (map (fun a => nth a s1 0) (map pred n2))) by (fold a2; now rewrite Es).
  destruct (reorder_is_permutation_gen s1 n2 r1 V2' ix Hix1) as (_ & _ & Hr1 & _).
  unfold old_index in Hr1. fold a2 in Hr1. rewrite Ls1 in Hr1.
  set (ix1 := map (fun a => nth (index_of a a2) ix 0) (seq 0 d)) in *.
  unfold r1, nthF. rewrite (nth_map_seq _ n0) by (now apply flatidx_lt). cbn [plus].
  rewrite unflat_flatidx by exact Hr1. unfold nthF. f_equal. f_equal.
  apply map_seq_ext. intros a Ha. cbn [plus] in Ha.
  destruct (index_of_spec a a1) as [Hk1 Hk2]; [apply In1; lia|]. rewrite L1 in Hk1.
  unfold ix1. rewrite nth_map_seq by exact Hk1. cbn [plus].
  set (k := index_of a a1) in *.
  destruct (index_of_spec k a2) as [Hj1 Hj2]; [apply In2; lia|].
  set (j := index_of k a2) in *.
  f_equal.
  assert (Ea : nth j a12 0 = a).
  { unfold a12. rewrite (nth_map_lt (fun j => nth j a1 0) a2 j 0 0) by exact Hj1. now rewrite Hj2. }
  rewrite <- Ea. symmetry. apply index_of_nth; auto. rewrite L12. now rewrite L2 in Hj1. Qed.
