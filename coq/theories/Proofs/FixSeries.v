(** * FixSeries: fixed-point series evaluation on Z with an arbitrary number [p] of fractional bits, against the reals.
    Shared by QlnSpec.v (p = 160) and FastSpec.v (p = 96, p = 160 on BigZ).
    - [gmul], [gtaylor], [gsquare], [gatanh]: the loops of Base/NumQ.v, Model/QFast.v, Model/DFast.v with the number
      of fractional bits a parameter (the concrete loops are instances, by [reflexivity]-style inductions);
    - signed invariants (arguments of either sign; floors toward -infinity everywhere);
    - the remainder of the atanh series (mean value theorem), binary argument reduction by [Z.log2]. *)
From Coq Require Import ZArith QArith Qreduction Qabs Qreals Reals Lia Lra Psatz.
From Coquelicot Require Import Coquelicot.
From Interval Require Import Tactic.
From Dadi Require Import Proofs.QexpSpec.
Local Open Scope R_scope.

Definition gmul (p a b : Z) : Z := Z.shiftr (a * b) p.
Fixpoint gtaylor (p : Z) (n : nat) (k x term acc : Z) : Z :=
  match n with
  | O => acc
  | S m => let term' := (gmul p term x / k)%Z in gtaylor p m (k + 1) x term' (acc + term')
  end.
Fixpoint gsquare (p : Z) (n : nat) (y : Z) : Z := match n with O => y | S m => gsquare p m (gmul p y y) end.
Fixpoint gatanh (p : Z) (n : nat) (k z2 pw acc : Z) : Z :=
  match n with
  | O => acc
  | S m => let pw' := gmul p pw z2 in gatanh p m (k + 2) z2 pw' (acc + pw' / (k + 2))
  end.

(** ideal loops *)
Fixpoint Ratanh (n : nat) (k s pw acc : R) : R :=
  match n with O => acc | S m => let pw' := pw * s in Ratanh m (k + 2) s pw' (acc + pw' / (k + 2)) end.

Lemma Rabs_le_iff a b : Rabs a <= b <-> - b <= a <= b.
Proof. unfold Rabs. destruct (Rcase_abs a); split; intro H; lra. Qed.

Section Fix.
Variable p : Z.
Hypothesis Hp : (0 <= p)%Z.
Definition W : R := IZR (2 ^ p).
Lemma W_pos : 0 < W. Proof. apply IZR_lt, Z.pow_pos_nonneg; lia. Qed.

Lemma gmul_R a b : IZR a * IZR b / W - 1 < IZR (gmul p a b) <= IZR a * IZR b / W.
Proof.
  unfold gmul. rewrite Z.shiftr_div_pow2 by exact Hp.
  pose proof (Zdiv_R (a * b) (2 ^ p) ltac:(apply Z.pow_pos_nonneg; lia)) as H. rewrite mult_IZR in H. exact H.
Qed.

(** ** signed Taylor loop *)
Lemma gtaylor_inv : forall n k x term acc tR aR e E y,
  (1 <= k)%Z -> y = IZR x / W -> - (1 / 2) <= y <= 1 / 2 -> 0 <= e <= 4 ->
  - e <= IZR term - tR <= e -> - E <= IZR acc - aR <= E ->
  - (E + 4 * INR n) <= IZR (gtaylor p n k x term acc) - Rtaylor n (IZR k) y tR aR <= E + 4 * INR n.
Proof.
  induction n as [| n IH]; intros k x term acc tR aR e E y Hk Hy Hy2 He HtR HaR.
  - cbn [Rtaylor gtaylor INR]. lra.
  - cbn [Rtaylor gtaylor]. rewrite S_INR.
    set (f1 := gmul p term x). set (term' := (f1 / k)%Z).
    assert (Hk' : 0 < IZR k) by (apply IZR_lt; lia).
    pose proof (gmul_R term x) as HF. fold f1 in HF.
    replace (IZR term * IZR x / W) with (IZR term * y) in HF by (rewrite Hy; unfold Rdiv; ring).
    pose proof (Zdiv_R f1 k ltac:(lia)) as HP. fold term' in HP.
    set (ik := / IZR k) in *.
    assert (Hik : 0 < ik <= 1).
    { split; [apply Rinv_0_lt_compat, Hk' |]. unfold ik. rewrite <- Rinv_1.
      apply Rinv_le_contravar; [lra | apply IZR_le; lia]. }
    unfold Rdiv in HP. fold ik in HP. unfold Rdiv. fold ik.
    set (T := IZR term) in *. set (F := IZR f1) in *. set (P := IZR term') in *.
    (* P - tR y ik = (P - F ik) + (F - T y) ik + (T - tR) y ik *)
    assert (H1 : - 1 <= (F - T * y) * ik <= 0) by nra.
    assert (H2 : - (e / 2) <= (T - tR) * y <= e / 2) by nra.
    assert (H3 : - (e / 2) <= (T - tR) * y * ik <= e / 2) by nra.
    assert (HP' : - (e / 2 + 2) <= P - tR * y * ik <= e / 2 + 2) by nra.
    replace (IZR k + 1) with (IZR (k + 1)) by (rewrite plus_IZR; reflexivity).
    assert (IHn := IH (k + 1)%Z x term' (acc + term')%Z (tR * y * ik) (aR + tR * y * ik) (e / 2 + 2) (E + (e / 2 + 2)) y).
    rewrite plus_IZR in IHn. fold P in IHn.
    assert (G : - (E + (e / 2 + 2) + 4 * INR n) <=
                IZR (gtaylor p n (k + 1) x term' (acc + term')) -
                Rtaylor n (IZR (k + 1)) y (tR * y * ik) (aR + tR * y * ik) <= E + (e / 2 + 2) + 4 * INR n).
    { apply IHn; try assumption; try lia; lra. }
    lra.
Qed.

(** ** squarings, two-sided *)
Lemma gsq_step y G a : 0 < G -> 1 / 2 <= G * G -> 0 <= a -> a * a <= W ->
  - (a / W * G) <= IZR y / W - G <= a / W * G ->
  - ((2 * a + 3) / W * (G * G)) <= IZR (gmul p y y) / W - G * G <= (2 * a + 3) / W * (G * G).
Proof.
  intros HG HGG Ha Haa Hr. pose proof W_pos as HW.
  assert (HiW : 0 < / W) by (apply Rinv_0_lt_compat, HW).
  pose proof (gmul_R y y) as HF. set (f := gmul p y y) in *.
  set (r := IZR y / W) in *.
  assert (Err : IZR y * IZR y / W / W = r * r) by (unfold r; field; lra).
  assert (HF' : r * r - / W < IZR f / W <= r * r).
  { rewrite <- Err. split.
    - assert (H : (IZR y * IZR y / W - 1) * / W < IZR f * / W) by (apply Rmult_lt_compat_r; lra).
      unfold Rdiv in *. lra.
    - apply Rmult_le_compat_r; lra. }
  set (d := a / W) in *.
  assert (Hd0 : 0 <= d) by (unfold d, Rdiv; nra).
  assert (Hdd : d * d <= / W).
  { unfold d, Rdiv. assert (W * / W = 1) by (apply Rinv_r; lra).
    replace (a * / W * (a * / W)) with (a * a * / W * / W) by ring.
    assert (a * a * / W <= 1) by nra. nra. }
  assert (Hlo : G * G * (1 - 2 * d) <= r * r).
  { destruct (Rle_lt_dec d 1) as [Hd1 | Hd1].
    - assert (0 <= G * (1 - d) <= r) by nra.
      assert (G * (1 - d) * (G * (1 - d)) <= r * r) by (apply Rmult_le_compat; lra).
      nra.
    - assert (0 <= r * r) by nra. nra. }
  assert (Hhi : r * r <= G * G * (1 + 2 * d + d * d)).
  { destruct (Rle_lt_dec 0 r) as [Hr0 | Hr0].
    - assert (r * r <= G * (1 + d) * (G * (1 + d))) by (apply Rmult_le_compat; nra). nra.
    - assert (- r <= G * (1 + d)) by nra.
      assert (- r * - r <= G * (1 + d) * (G * (1 + d))) by (apply Rmult_le_compat; nra). nra. }
  assert (H3 : / W <= 2 * / W * (G * G)) by nra.
  unfold Rdiv in *. fold d.
  replace ((2 * a + 3) * / W) with (2 * d + 3 * / W) by (unfold d; ring).
  split; nra.
Qed.

Lemma exp_mhalf : 1 / 2 <= exp (- (1 / 2)).
Proof. interval with (i_prec 40). Qed.

Lemma gsquare_inv : forall n y w a, 0 <= a -> (2 ^ n * (a + 3)) * (2 ^ n * (a + 3)) <= W ->
  - (1 / 2) <= 2 ^ n * w <= 1 / 2 ->
  - (a / W * exp w) <= IZR y / W - exp w <= a / W * exp w ->
  - ((2 ^ n * (a + 3) - 3) / W * exp (2 ^ n * w)) <= IZR (gsquare p n y) / W - exp (2 ^ n * w)
    <= (2 ^ n * (a + 3) - 3) / W * exp (2 ^ n * w).
Proof.
  induction n as [| n IH]; intros y w a Ha HaW Hw Hr.
  - cbn [gsquare pow]. rewrite !Rmult_1_l. replace (a + 3 - 3) with a by ring. exact Hr.
  - cbn [gsquare].
    assert (Hpn : 1 <= 2 ^ n) by (apply pow_R1_Rle; lra).
    replace (2 ^ S n * w) with (2 ^ n * (2 * w)) in * by (cbn [pow]; ring).
    replace (2 ^ S n * (a + 3)) with (2 ^ n * ((2 * a + 3) + 3)) in * by (cbn [pow]; ring).
    apply IH; [lra | exact HaW | exact Hw |].
    replace (exp (2 * w)) with (exp w * exp w) by (rewrite <- exp_plus; f_equal; ring).
    apply gsq_step; try assumption.
    + apply exp_pos.
    + rewrite <- exp_plus. eapply Rle_trans; [apply exp_mhalf |]. apply exp_le.
      assert (- (1 / 2) <= 2 * w) by nra. lra.
    + assert (a <= 2 ^ n * (2 * a + 3 + 3)) by nra. nra.
Qed.

(** ** atanh loop, signed *)
Lemma gatanh_inv : forall n k z2 pw acc s pR aR e E,
  (1 <= k)%Z -> s - / W <= IZR z2 / W <= s -> 0 <= IZR z2 / W -> s <= 1 / 8 ->
  - (W / 2) <= pR <= W / 2 -> 0 <= e <= 2 ->
  - e <= IZR pw - pR <= e -> - E <= IZR acc - aR <= E ->
  - (E + 2 * INR n) <= IZR (gatanh p n k z2 pw acc) - Ratanh n (IZR k) s pR aR <= E + 2 * INR n.
Proof.
  pose proof W_pos as HW. assert (HiW : 0 < / W) by (apply Rinv_0_lt_compat, HW).
  induction n as [| n IH]; intros k z2 pw acc s pR aR e E Hk Hq Hq0 Hs HpR He Hpw Hacc.
  - cbn [Ratanh gatanh INR]. lra.
  - cbn [Ratanh gatanh]. rewrite S_INR.
    set (pw' := gmul p pw z2). set (tm := (pw' / (k + 2))%Z).
    assert (Hk' : 3 <= IZR (k + 2)) by (apply IZR_le; lia).
    pose proof (gmul_R pw z2) as HF. fold pw' in HF.
    set (q := IZR z2 / W) in *.
    replace (IZR pw * IZR z2 / W) with (IZR pw * q) in HF by (unfold q, Rdiv; ring).
    pose proof (Zdiv_R pw' (k + 2) ltac:(lia)) as HP. fold tm in HP.
    replace (IZR k + 2) with (IZR (k + 2)) by (rewrite plus_IZR; reflexivity).
    set (ik := / IZR (k + 2)) in *.
    assert (Hik : 0 < ik <= / 3).
    { split; [apply Rinv_0_lt_compat; lra |]. unfold ik. apply Rinv_le_contravar; lra. }
    unfold Rdiv in HP. fold ik in HP. unfold Rdiv. fold ik.
    set (T := IZR pw) in *. set (F := IZR pw') in *. set (P := IZR tm) in *.
    (* F - pR s = (F - T q) + (T - pR) q + pR (q - s) *)
    assert (H1 : - (e / 8) <= (T - pR) * q <= e / 8) by nra.
    assert (HWW : W / 2 * / W = 1 / 2) by (field; lra).
    assert (H2 : - (1 / 2) <= pR * (q - s) <= 1 / 2) by nra.
    assert (HF' : - (e / 8 + 3 / 2) <= F - pR * s <= e / 8 + 3 / 2) by nra.
    assert (He' : 0 <= e / 8 + 3 / 2 <= 2) by lra.
    assert (HpR' : - (W / 2) <= pR * s <= W / 2).
    { assert (0 <= s) by lra. nra. }
    assert (H3 : - (2 / 3) <= (F - pR * s) * ik <= 2 / 3) by nra.
    assert (HP' : - 2 <= P - pR * s * ik <= 2) by nra.
    assert (IHn := IH (k + 2)%Z z2 pw' (acc + tm)%Z s (pR * s) (aR + pR * s * ik) (e / 8 + 3 / 2) (E + 2)).
    rewrite plus_IZR in IHn. fold P in IHn. fold q in IHn.
    assert (G : - (E + 2 + 2 * INR n) <=
                IZR (gatanh p n (k + 2) z2 pw' (acc + tm)) -
                Ratanh n (IZR (k + 2)) s (pR * s) (aR + pR * s * ik) <= E + 2 + 2 * INR n).
    { apply IHn; try assumption; try lia; try lra. }
    lra.
Qed.
End Fix.

(** ** the ideal atanh loop is the partial sum of the series *)
Definition atanh_poly (N : nat) (z : R) : R := sum_f_R0 (fun i => z ^ (2 * i + 1) / INR (2 * i + 1)) N.

Lemma Ratanh_scale : forall n k s c t a, Ratanh n k s (c * t) (c * a) = c * Ratanh n k s t a.
Proof.
  induction n as [| n IH]; intros k s c t a; cbn [Ratanh]; [reflexivity |].
  rewrite <- IH. f_equal; unfold Rdiv; ring.
Qed.

Lemma Ratanh_sum : forall n j z,
  Ratanh n (INR (2 * j + 1)) (z * z) (z ^ (2 * j + 1)) (atanh_poly j z) = atanh_poly (j + n) z.
Proof.
  induction n as [| n IH]; intros j z; cbn [Ratanh].
  - rewrite Nat.add_0_r. reflexivity.
  - replace (j + S n)%nat with (S j + n)%nat by lia. rewrite <- IH.
    replace (INR (2 * j + 1) + 2) with (INR (2 * S j + 1)).
    2:{ replace (2 * S j + 1)%nat with ((2 * j + 1) + 2)%nat by lia. rewrite (plus_INR (2 * j + 1) 2).
        replace (INR 2) with 2 by (cbn [INR]; ring). reflexivity. }
    replace (z ^ (2 * j + 1) * (z * z)) with (z ^ (2 * S j + 1)).
    2:{ replace (2 * S j + 1)%nat with (S (S (2 * j + 1))) by lia. cbn [pow]. ring. }
    unfold atanh_poly. cbn [sum_f_R0]. reflexivity.
Qed.

Lemma Ratanh_poly n z : Ratanh n 1 (z * z) z z = atanh_poly n z.
Proof.
  pose proof (Ratanh_sum n 0 z) as H. cbn [Nat.add Nat.mul] in H.
  replace (INR 1) with 1 in H by reflexivity.
  replace (z ^ 1) with z in H by (cbn [pow]; ring).
  replace (atanh_poly 0 z) with z in H; [exact H |].
  unfold atanh_poly. cbn [sum_f_R0 Nat.mul Nat.add pow INR]. field.
Qed.

(** ** remainder of the atanh series *)
Lemma pow_div_derive m c z : c <> 0 -> is_derive (fun z => z ^ m / c) z (INR m * z ^ pred m / c).
Proof. intro Hc. auto_derive; [exact I | field; exact Hc]. Qed.

Lemma atanh_poly_derive : forall N z, is_derive (atanh_poly N) z (sum_f_R0 (fun i => (z * z) ^ i) N).
Proof.
  induction N as [| N IH]; intro z.
  - unfold atanh_poly. cbn [sum_f_R0 Nat.mul Nat.add pow INR].
    auto_derive; [exact I | field].
  - unfold atanh_poly. cbn [sum_f_R0].
    apply (is_derive_plus (fun z => sum_f_R0 (fun i => z ^ (2 * i + 1) / INR (2 * i + 1)) N)
                          (fun z => z ^ (2 * S N + 1) / INR (2 * S N + 1))).
    + apply IH.
    + assert (Hn : INR (2 * S N + 1) <> 0) by (apply not_0_INR; lia).
      set (m := (2 * S N + 1)%nat) in *.
      assert (E : (z * z) ^ S N = INR m * z ^ pred m / INR m).
      { unfold m. replace (Init.Nat.pred (2 * S N + 1)) with (2 * S N)%nat by lia.
        rewrite pow_mult. replace (z ^ 2) with (z * z) by (cbn [pow]; ring). fold m. field. exact Hn. }
      rewrite E. apply pow_div_derive. exact Hn.
Qed.

Lemma geom_z2 N z : z * z <> 1 -> sum_f_R0 (fun i => (z * z) ^ i) N = (1 - (z * z) ^ S N) / (1 - z * z).
Proof. intro H. apply tech3, H. Qed.

Definition atanh_rem (N : nat) (z : R) : R := (ln (1 + z) - ln (1 - z)) / 2 - atanh_poly N z.

Lemma atanh_rem_derive N z : - 1 < z < 1 ->
  derivable_pt_lim (atanh_rem N) z ((z * z) ^ S N / (1 - z * z)).
Proof.
  intro Hz. apply is_derive_Reals. unfold atanh_rem.
  assert (Hzz : z * z <> 1) by nra.
  replace ((z * z) ^ S N / (1 - z * z)) with (/ (1 - z * z) - sum_f_R0 (fun i => (z * z) ^ i) N).
  2:{ rewrite (geom_z2 N z Hzz). field. nra. }
  apply (is_derive_minus (fun z => (ln (1 + z) - ln (1 - z)) / 2) (atanh_poly N)).
  - auto_derive; [split; [lra | split; [lra | exact I]] |]. field. split; nra.
  - apply atanh_poly_derive.
Qed.

Lemma atanh_rem_0 N : atanh_rem N 0 = 0.
Proof.
  unfold atanh_rem. rewrite Rplus_0_r, Rminus_0_r, ln_1.
  assert (E : atanh_poly N 0 = 0).
  { unfold atanh_poly. induction N as [| N IH]; cbn [sum_f_R0].
    - cbn [Nat.mul Nat.add pow]. unfold Rdiv. ring.
    - rewrite IH. replace (2 * S N + 1)%nat with (S (2 * S N)) by lia. cbn [pow]. unfold Rdiv. ring. }
  rewrite E. unfold Rdiv. ring.
Qed.

Lemma pow_zz_le N c r : 0 <= r -> - r <= c <= r -> 0 <= (c * c) ^ N <= (r * r) ^ N.
Proof.
  intros Hr Hc. split; [apply pow_le; nra |]. apply pow_incr. nra.
Qed.

Theorem atanh_remainder : forall N z r, 0 <= r < 1 -> - r <= z <= r ->
  Rabs (atanh_rem N z) <= r * (r * r) ^ S N / (1 - r * r).
Proof.
  intros N z r Hr Hz.
  assert (Hden : 0 < 1 - r * r) by nra.
  assert (Hbound : forall c, - r <= c <= r -> 0 <= (c * c) ^ S N / (1 - c * c) <= (r * r) ^ S N / (1 - r * r)).
  { intros c Hc. destruct (pow_zz_le (S N) c r ltac:(lra) Hc) as [H0 H1].
    assert (Hdc : 1 - r * r <= 1 - c * c) by nra.
    assert (0 < / (1 - c * c) <= / (1 - r * r)).
    { split; [apply Rinv_0_lt_compat; lra | apply Rinv_le_contravar; lra]. }
    unfold Rdiv. split; [apply Rmult_le_pos; lra |]. apply Rmult_le_compat; lra. }
  set (B := (r * r) ^ S N / (1 - r * r)) in *.
  assert (HB0 : 0 <= B) by (destruct (Hbound 0 ltac:(lra)); lra).
  replace (r * (r * r) ^ S N / (1 - r * r)) with (r * B) by (unfold B, Rdiv; ring).
  destruct (Rtotal_order z 0) as [Hneg | [-> | Hpos]].
  - destruct (MVT_cor2 (atanh_rem N) (fun c => (c * c) ^ S N / (1 - c * c)) z 0 Hneg) as [c [Hc1 Hc2]].
    { intros c Hc. apply atanh_rem_derive. lra. }
    rewrite atanh_rem_0 in Hc1.
    destruct (Hbound c ltac:(lra)) as [Hb0 Hb1].
    set (d := (c * c) ^ S N / (1 - c * c)) in *.
    apply Rabs_le_iff. split; nra.
  - rewrite atanh_rem_0, Rabs_R0. nra.
  - destruct (MVT_cor2 (atanh_rem N) (fun c => (c * c) ^ S N / (1 - c * c)) 0 z Hpos) as [c [Hc1 Hc2]].
    { intros c Hc. apply atanh_rem_derive. lra. }
    rewrite atanh_rem_0 in Hc1.
    destruct (Hbound c ltac:(lra)) as [Hb0 Hb1].
    set (d := (c * c) ^ S N / (1 - c * c)) in *.
    apply Rabs_le_iff. split; nra.
Qed.

(** 2 atanh z = ln ((1+z)/(1-z)) *)
Lemma ln_ratio z : - 1 < z < 1 -> ln (1 + z) - ln (1 - z) = ln ((1 + z) / (1 - z)).
Proof.
  intro Hz. unfold Rdiv. rewrite ln_mult; [| lra | apply Rinv_0_lt_compat; lra].
  rewrite ln_Rinv by lra. ring.
Qed.

(** elementary two-sided bound of ln near 1 *)
Lemma ln_near1 y : 0 < y -> 1 - / y <= ln y <= y - 1.
Proof.
  intro Hy. split.
  - assert (H : ln (/ y) <= / y - 1).
    { pose proof (exp_ineq1_le (ln (/ y))) as H. rewrite exp_ln in H by (apply Rinv_0_lt_compat, Hy). lra. }
    rewrite ln_Rinv in H by exact Hy. lra.
  - pose proof (exp_ineq1_le (ln y)) as H. rewrite exp_ln in H by exact Hy. lra.
Qed.

(** ** powers of two *)
Lemma powerRZ2_pos e : 0 < powerRZ 2 e. Proof. apply powerRZ_lt. lra. Qed.
Lemma powerRZ2_IZR e : (0 <= e)%Z -> powerRZ 2 e = IZR (2 ^ e).
Proof.
  intro He. rewrite <- (Z2Nat.id e He) at 1. rewrite <- pow_powerRZ.
  rewrite <- (Z2Nat.id e He) at 2. rewrite <- pow_IZR. reflexivity.
Qed.
Lemma ln_powerRZ2 e : ln (powerRZ 2 e) = IZR e * ln 2.
Proof. rewrite powerRZ_Rpower by lra. unfold Rpower. apply ln_exp. Qed.
Lemma exp_kln2 e : exp (IZR e * ln 2) = powerRZ 2 e.
Proof. rewrite powerRZ_Rpower by lra. reflexivity. Qed.
Lemma powerRZ2_opp e : powerRZ 2 (- e) * powerRZ 2 e = 1.
Proof. rewrite <- powerRZ_add by lra. replace (- e + e)%Z with 0%Z by lia. reflexivity. Qed.

(** ** binary argument reduction: e = log2 n - log2 d puts n/d / 2^e strictly between 1/2 and 2 *)
Lemma log2_reduce n d : (0 < n)%Z -> (0 < d)%Z ->
  let e := (Z.log2 n - Z.log2 d)%Z in
  ((0 <= e)%Z -> (n < 2 * (2 ^ e * d))%Z /\ (2 ^ e * d < 2 * n)%Z) /\
  ((e < 0)%Z -> (n * 2 ^ (- e) < 2 * d)%Z /\ (d < 2 * (n * 2 ^ (- e)))%Z).
Proof.
  intros Hn Hd e.
  destruct (Z.log2_spec n Hn) as [Hn1 Hn2]. destruct (Z.log2_spec d Hd) as [Hd1 Hd2].
  pose proof (Z.log2_nonneg n) as Hln. pose proof (Z.log2_nonneg d) as Hld.
  rewrite Z.pow_succ_r in Hn2, Hd2 by assumption.
  split; intro He.
  - assert (E : (2 ^ Z.log2 n = 2 ^ e * 2 ^ Z.log2 d)%Z).
    { rewrite <- Z.pow_add_r by lia. f_equal. unfold e. lia. }
    assert (0 < 2 ^ e)%Z by (apply Z.pow_pos_nonneg; lia).
    split; nia.
  - assert (E : (2 ^ Z.log2 d = 2 ^ (- e) * 2 ^ Z.log2 n)%Z).
    { rewrite <- Z.pow_add_r by lia. f_equal. unfold e. lia. }
    assert (0 < 2 ^ (- e))%Z by (apply Z.pow_pos_nonneg; lia).
    split; nia.
Qed.

(** real form: with x = n/d, m = x 2^-e lies in (1/2, 2) and ln x = ln m + e ln 2 *)
Lemma reduce_R n d : (0 < n)%Z -> (0 < d)%Z ->
  let e := (Z.log2 n - Z.log2 d)%Z in
  let m := IZR n / IZR d * powerRZ 2 (- e) in
  1 / 2 < m < 2 /\ ln (IZR n / IZR d) = ln m + IZR e * ln 2.
Proof.
  intros Hn Hd e m.
  assert (Hn' : 0 < IZR n) by (apply IZR_lt, Hn). assert (Hd' : 0 < IZR d) by (apply IZR_lt, Hd).
  assert (Hx : 0 < IZR n / IZR d) by (apply Rdiv_lt_0_compat; assumption).
  pose proof (powerRZ2_pos (- e)) as Hpe.
  assert (Hm : 0 < m) by (unfold m; apply Rmult_lt_0_compat; assumption).
  split.
  - destruct (log2_reduce n d Hn Hd) as [Hge Hlt]. fold e in Hge, Hlt.
    destruct (Z_le_gt_dec 0 e) as [He | He].
    + destruct (Hge He) as [H1 H2]. apply IZR_lt in H1, H2.
      rewrite !mult_IZR in H1, H2. rewrite <- (powerRZ2_IZR e He) in H1, H2.
      pose proof (powerRZ2_opp e) as Ho. pose proof (powerRZ2_pos e) as Hpe'.
      set (a := powerRZ 2 e) in *. set (b := powerRZ 2 (- e)) in *.
      assert (Em : m * IZR d * a = IZR n) by (unfold m; field_simplify; [nra | lra]).
      assert (0 < IZR d * a) by nra.
      split; nra.
    + destruct (Hlt ltac:(lia)) as [H1 H2]. apply IZR_lt in H1, H2.
      rewrite !mult_IZR in H1, H2. rewrite <- (powerRZ2_IZR (- e) ltac:(lia)) in H1, H2.
      set (b := powerRZ 2 (- e)) in *.
      assert (Em : m * IZR d = IZR n * b) by (unfold m; field; lra).
      split; nra.
  - assert (Ex : IZR n / IZR d = m * powerRZ 2 e).
    { unfold m. rewrite Rmult_assoc, powerRZ2_opp. ring. }
    rewrite Ex at 1. rewrite ln_mult by (try assumption; apply powerRZ2_pos).
    rewrite ln_powerRZ2. reflexivity.
Qed.

(** a two-sided bound of the reduction exponent from a binary range of the argument *)
Lemma reduce_e_bound n d B : (0 < n)%Z -> (0 < d)%Z -> (0 <= B)%Z ->
  (d <= 2 ^ B * n)%Z -> (n <= 2 ^ B * d)%Z -> (- B - 1 <= Z.log2 n - Z.log2 d <= B + 1)%Z.
Proof.
  intros Hn Hd HB H1 H2.
  destruct (Z.log2_spec n Hn) as [Hn1 Hn2]. destruct (Z.log2_spec d Hd) as [Hd1 Hd2].
  pose proof (Z.log2_nonneg n) as Hln. pose proof (Z.log2_nonneg d) as Hld.
  assert (H0 : (0 < 2 ^ B)%Z) by (apply Z.pow_pos_nonneg; lia).
  split.
  - assert (H : (2 ^ Z.log2 d < 2 ^ (B + Z.succ (Z.log2 n)))%Z) by (rewrite Z.pow_add_r by lia; nia).
    apply Z.pow_lt_mono_r_iff in H; lia.
  - assert (H : (2 ^ Z.log2 n < 2 ^ (B + Z.succ (Z.log2 d)))%Z) by (rewrite Z.pow_add_r by lia; nia).
    apply Z.pow_lt_mono_r_iff in H; lia.
Qed.
