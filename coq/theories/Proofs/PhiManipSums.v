(** Finite sums over index ranges, the two forms of the trapezoid rule, and indexing of C-order flat
    arrays built with nested [flat_map]s.  Shared lemmas of the C06 proofs (over R). *)
From Coq Require Import List Arith Bool ZArith Reals Lra Lia.
From Dadi Require Import Base.Num Base.NumR Model.Tridiag Model.Scheme Model.NDSweep Model.PhiManip.
Import ListNotations.
Local Open Scope R_scope.

(** ** nsum on R *)
Lemma nsum_nil : nsum (@nil R) = 0. Proof. reflexivity. Qed.
Lemma nsum_cons (a : R) l : nsum (a :: l) = a + nsum l. Proof. reflexivity. Qed.
Lemma nsum_app (l1 l2 : list R) : nsum (l1 ++ l2) = nsum l1 + nsum l2.
Proof. induction l1 as [|a l IH]; simpl app; rewrite ?nsum_nil, ?nsum_cons, ?IH; lra. Qed.

Lemma nsum_map_ext {A} (f g : A -> R) l : (forall a, In a l -> f a = g a) -> nsum (map f l) = nsum (map g l).
Proof. intros E. f_equal. apply map_ext_in, E. Qed.
Lemma nsum_map_plus {A} (f g : A -> R) l : nsum (map (fun a => f a + g a) l) = nsum (map f l) + nsum (map g l).
Proof. induction l as [|a l IH]; simpl map; rewrite ?nsum_nil, ?nsum_cons, ?IH; lra. Qed.
Lemma nsum_map_scal {A} (c : R) (f : A -> R) l : nsum (map (fun a => c * f a) l) = c * nsum (map f l).
Proof. induction l as [|a l IH]; simpl map; rewrite ?nsum_nil, ?nsum_cons, ?IH; lra. Qed.
Lemma nsum_map_zero {A} (l : list A) : nsum (map (fun _ => 0) l) = 0.
Proof. induction l as [|a l IH]; simpl map; rewrite ?nsum_nil, ?nsum_cons, ?IH; lra. Qed.
Lemma nsum_swap {A B} (f : A -> B -> R) (l1 : list A) (l2 : list B) :
  nsum (map (fun a => nsum (map (fun b => f a b) l2)) l1) = nsum (map (fun b => nsum (map (fun a => f a b) l1)) l2).
Proof. induction l1 as [|a l1 IH]; simpl map.
  - rewrite nsum_nil. symmetry. apply nsum_map_zero.
  - rewrite nsum_cons, IH. rewrite <- nsum_map_plus. apply nsum_map_ext. intros b _. simpl map. rewrite ?nsum_cons. reflexivity. Qed.

(** the only non-zero term of a sum over an index range *)
Lemma nsum_single (g : nat -> R) k a n :
  nsum (map (fun i => if Nat.eqb i k then g i else 0) (seq a n)) = if (a <=? k)%nat && (k <? a + n)%nat then g k else 0.
Proof. revert a. induction n as [|n IH]; intros a.
  - simpl. destruct (a <=? k)%nat eqn:E1; simpl; auto. destruct (k <? a + 0)%nat eqn:E2; auto.
    apply Nat.leb_le in E1. apply Nat.ltb_lt in E2. lia.
  - simpl seq. simpl map. rewrite nsum_cons, IH.
    destruct (Nat.eqb a k) eqn:E.
    + apply Nat.eqb_eq in E. subst k.
      replace (S a <=? a)%nat with false by (symmetry; apply Nat.leb_gt; lia). simpl.
      replace (a <=? a)%nat with true by (symmetry; apply Nat.leb_le; lia).
      replace (a <? a + S n)%nat with true by (symmetry; apply Nat.ltb_lt; lia). simpl. lra.
    + apply Nat.eqb_neq in E.
      destruct (a <=? k)%nat eqn:E1; destruct (S a <=? k)%nat eqn:E2;
      destruct (k <? S a + n)%nat eqn:E3; destruct (k <? a + S n)%nat eqn:E4; simpl; try lra;
      repeat match goal with
      | H : (_ <=? _)%nat = true |- _ => apply Nat.leb_le in H
      | H : (_ <=? _)%nat = false |- _ => apply Nat.leb_gt in H
      | H : (_ <? _)%nat = true |- _ => apply Nat.ltb_lt in H
      | H : (_ <? _)%nat = false |- _ => apply Nat.ltb_ge in H
      end; lia. Qed.
Lemma nsum_single0 (g : nat -> R) k n : (k < n)%nat ->
  nsum (map (fun i => if Nat.eqb i k then g i else 0) (seq 0 n)) = g k.
Proof. intros Hk. rewrite nsum_single. simpl.
  replace (k <? n)%nat with true by (symmetry; apply Nat.ltb_lt; lia). reflexivity. Qed.

Lemma lsum_nsum (l : list R) : lsum l = nsum l.
Proof. destruct l as [|a t]; [reflexivity|]. unfold lsum. rewrite nsum_cons. revert a.
  induction t as [|b t IH]; intros a; simpl fold_left; numR.
  - rewrite nsum_nil. lra.
  - rewrite IH, nsum_cons. lra. Qed.

Lemma nsum_seq_S (f : nat -> R) n : nsum (map f (seq 0 (S n))) = nsum (map f (seq 0 n)) + f n.
Proof. rewrite seq_S, map_app, nsum_app. simpl map. rewrite nsum_cons, nsum_nil. simpl plus. lra. Qed.

(** ** lists as tabulated functions *)
Lemma nth_map_seq {A} (f : nat -> A) (d : A) n i a : (i < n)%nat -> nth i (map f (seq a n)) d = f (a + i)%nat.
Proof. intros Hi. rewrite (nth_indep _ d (f 0%nat)) by (rewrite map_length, seq_length; lia).
  rewrite map_nth. now rewrite seq_nth. Qed.
Lemma nthF_map_seq (f : nat -> R) n i : (i < n)%nat -> nthF (map f (seq 0 n)) i = f i.
Proof. intros Hi. unfold nthF. now rewrite nth_map_seq. Qed.
Lemma map_nth_seq {A} (d : A) (l : list A) : map (fun i => nth i l d) (seq 0 (length l)) = l.
Proof. apply (nth_ext _ _ d d).
  - now rewrite map_length, seq_length.
  - intros i Hi. rewrite map_length, seq_length in Hi. now rewrite nth_map_seq. Qed.
Lemma map_seq_ext {A} (f g : nat -> A) a n : (forall i, (a <= i < a + n)%nat -> f i = g i) -> map f (seq a n) = map g (seq a n).
Proof. intros E. apply map_ext_in. intros i Hi. apply in_seq in Hi. now apply E. Qed.

(** ** flat_map of blocks of one length *)
Lemma flat_map_length_const {A B} (f : A -> list B) m l : (forall a, In a l -> length (f a) = m) -> length (flat_map f l) = (length l * m)%nat.
Proof. induction l as [|a l IH]; intros Hm; simpl; auto. rewrite app_length, Hm, IH by auto with datatypes. lia. Qed.
Lemma nth_flat_map_const {B} (f : nat -> list B) (d : B) m n a o i :
  (forall k, (a <= k < a + n)%nat -> length (f k) = m) -> (o < n)%nat -> (i < m)%nat ->
  nth (o * m + i) (flat_map f (seq a n)) d = nth i (f (a + o)%nat) d.
Proof. revert a o. induction n as [|n IH]; intros a o Hm Ho Hi; [lia|].
  simpl seq. simpl flat_map. destruct o as [|o].
  - rewrite app_nth1 by (rewrite Hm; lia). now rewrite Nat.add_0_r.
  - rewrite app_nth2 by (rewrite Hm by lia; simpl; lia). rewrite Hm by lia.
    replace (S o * m + i - m)%nat with (o * m + i)%nat by (simpl; lia).
    rewrite IH; try lia. { f_equal. f_equal. lia. } intros k Hk. apply Hm. lia. Qed.

(** ** the two forms of the trapezoid rule *)
Section Trapz.
  Variables h y : nat -> R.
  Definition Wt (n i : nat) : R := if Nat.eqb i 0 then h 0%nat else if Nat.eqb i n then h (n - 1)%nat else h i + h (i - 1)%nat.
  Lemma trap_by_parts n : (1 <= n)%nat ->
    nsum (map (fun i => Wt n i * y i) (seq 0 (S n))) = nsum (map (fun i => h i * (y (S i) + y i)) (seq 0 n)).
  Proof. induction n as [|n IH]; [lia|]. intros _. destruct n as [|n].
    - rewrite !nsum_seq_S. simpl seq. simpl map. rewrite !nsum_nil. unfold Wt. simpl. lra.
    - rewrite (nsum_seq_S _ (S (S n))). rewrite (nsum_seq_S (fun i => h i * (y (S i) + y i)) (S n)).
      rewrite <- IH by lia. rewrite !(nsum_seq_S _ (S n)).
      assert (E : nsum (map (fun i => Wt (S (S n)) i * y i) (seq 0 (S n))) = nsum (map (fun i => Wt (S n) i * y i) (seq 0 (S n)))).
      { apply nsum_map_ext. intros i Hi. apply in_seq in Hi. unfold Wt.
        destruct (Nat.eqb i 0) eqn:E0; auto.
        replace (Nat.eqb i (S (S n))) with false by (symmetry; apply Nat.eqb_neq; lia).
        replace (Nat.eqb i (S n)) with false by (symmetry; apply Nat.eqb_neq; lia). reflexivity. }
      rewrite E. unfold Wt. simpl Nat.eqb. rewrite !Nat.eqb_refl.
      replace (Nat.eqb n (S n)) with false by (symmetry; apply Nat.eqb_neq; lia).
      simpl Nat.sub. rewrite Nat.sub_0_r. lra. Qed.
End Trapz.

Lemma trap_w_Wt (xs : list R) i : (2 <= length xs)%nat -> trap_w xs i = Wt (fun j => dx xs j / 2) (length xs - 1) i.
Proof. intros HL. unfold trap_w, Wt, n2. numR. destruct (Nat.eqb i 0); [lra|].
  destruct (Nat.eqb i (length xs - 1)).
  - replace (length xs - 1 - 1)%nat with (length xs - 2)%nat by lia. lra.
  - lra. Qed.

Theorem trapz_np_eq_trapz (xs ys : list R) : (2 <= length xs)%nat -> trapz_np xs ys = trapz xs ys.
Proof. intros HL. unfold trapz_np, trapz.
  rewrite (nsum_map_ext (fun i => trap_w xs i * nthF ys i) (fun i => Wt (fun j => dx xs j / 2) (length xs - 1) i * nthF ys i))
    by (intros; now rewrite trap_w_Wt).
  replace (length xs) with (S (length xs - 1)) at 2 by lia.
  rewrite trap_by_parts by lia. apply nsum_map_ext. intros i _. unfold n2. numR. lra. Qed.

(** trapz as a weighted sum of a tabulated function *)
Lemma trapz_tab (xs : list R) (f : nat -> R) :
  trapz xs (map f (seq 0 (length xs))) = nsum (map (fun i => trap_w xs i * f i) (seq 0 (length xs))).
Proof. unfold trapz. apply nsum_map_ext. intros i Hi. apply in_seq in Hi. rewrite nthF_map_seq by lia. reflexivity. Qed.

(** ** shapes *)
Local Close Scope R_scope.
Local Open Scope nat_scope.
Lemma prodn_app a b : prodn (a ++ b) = (prodn a * prodn b)%nat.
Proof. induction a as [|x a IH]; simpl; [lia|]. unfold prodn in *. simpl. rewrite IH. lia. Qed.
Lemma prodn_cons x a : prodn (x :: a) = (x * prodn a)%nat. Proof. reflexivity. Qed.
Lemma prodn_split shape k : (k < length shape)%nat ->
  prodn shape = (prodn (firstn k shape) * (nth k shape 0%nat * prodn (skipn (S k) shape)))%nat.
Proof. revert k. induction shape as [|x t IH]; intros k Hk; [simpl in Hk; lia|].
  destruct k as [|k].
  - simpl firstn. simpl nth. simpl skipn. rewrite prodn_cons. change (prodn []) with 1%nat. lia.
  - simpl in Hk. simpl firstn. simpl nth. change (skipn (S (S k)) (x :: t)) with (skipn (S k) t).
    rewrite !prodn_cons. rewrite (IH k) at 1 by lia. nia. Qed.

Lemma unflat_length shape idx : length (unflat shape idx) = length shape.
Proof. revert idx. induction shape as [|n t IH]; intros idx; simpl; auto. Qed.
Lemma unflat_lt shape idx : (idx < prodn shape)%nat -> Forall2 lt (unflat shape idx) shape.
Proof. revert idx. induction shape as [|n t IH]; intros idx Hi; simpl; [constructor|].
  rewrite prodn_cons in Hi. assert (Hp : prodn t <> 0%nat) by (intros E; rewrite E in Hi; lia).
  constructor.
  - apply Nat.div_lt_upper_bound; auto. lia.
  - apply IH. now apply Nat.mod_upper_bound. Qed.
Lemma Forall2_nth_lt (l s : list nat) j : Forall2 lt l s -> (j < length s)%nat -> (nth j l 0 < nth j s 0)%nat.
Proof. intros Hf. revert j. induction Hf; intros [|j] Hj; simpl in *; try lia. apply IHHf. lia. Qed.

(** the coordinate along axis k of the flat index (o*len+i)*inner+q *)
Lemma unflat_nth_axis shape k o i q :
  (k < length shape)%nat -> (i < nth k shape 0)%nat -> (q < prodn (skipn (S k) shape))%nat ->
  (o < prodn (firstn k shape))%nat ->
  nth k (unflat shape ((o * nth k shape 0 + i) * prodn (skipn (S k) shape) + q)) 0%nat = i.
Proof. revert k o. induction shape as [|n t IH]; intros k o Hk Hi Hq Ho; [simpl in Hk; lia|].
  destruct k as [|k].
  - simpl in *. assert (o = 0)%nat by (unfold prodn in Ho; simpl in Ho; lia). subst o. simpl.
    rewrite Nat.div_add_l by lia. rewrite Nat.div_small by lia. lia.
  - cbn [nth] in *. change (skipn (S (S k)) (n :: t)) with (skipn (S k) t) in *. cbn [firstn] in Ho. rewrite prodn_cons in Ho. cbn [unflat nth].
    simpl in Hk. assert (Hk' : (k < length t)%nat) by lia.
    set (len := nth k t 0%nat) in *. set (inner := prodn (skipn (S k) t)) in *. set (outer := prodn (firstn k t)) in *.
    assert (HP : prodn t = (outer * (len * inner))%nat) by (apply prodn_split; auto).
    assert (Houter : outer <> 0%nat) by (intros E; rewrite E in Ho; lia).
    pose (a := (o / outer)%nat). pose (b := (o mod outer)%nat).
    assert (Hab : o = (outer * a + b)%nat) by (apply Nat.div_mod; auto).
    assert (Hb : (b < outer)%nat) by (apply Nat.mod_upper_bound; auto).
    assert (Hlt : ((b * len + i) * inner + q < prodn t)%nat).
    { rewrite HP. assert (b * len + i + 1 <= outer * len) by nia. nia. }
    assert (E : ((o * len + i) * inner + q = ((b * len + i) * inner + q) + a * prodn t)%nat).
    { rewrite HP, Hab. nia. }
    rewrite E. rewrite Nat.mod_add by lia. rewrite Nat.mod_small by auto.
    apply IH; auto. Qed.
