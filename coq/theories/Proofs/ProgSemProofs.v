(** * ProgSemProofs: the concrete semantics of Model/ProgSem.v, on the real-number instance, IS an instance of the
    abstract semantics [sem] of Model/DSL.v (C15).

    The abstract layer has one total operation per instruction on a state type.  The concrete operations [c_*]
    below apply the building-block model when the instruction applies to the state ([applicable]) and leave the
    state unchanged otherwise (a split that does not apply gives the error state: what follows a split may rely on
    the state being its result); the strict interpreter [exec] / [run_prog] stops instead.  On programs that pass
    the static check [prog_ok] (evaluated by the harness on every translated program) the two agree
    ([exec_is_sem], [run_prog_is_sem]).

    Discharged for the concrete operations: H_T0 (zero-duration integration is the identity), H_pulse0 (a pulse of
    proportion 0 is the identity; from Proofs/PhiManipTable.pulse14_zero_identity), H_admix_diag (directly after
    phi_1D_to_2D, phi_2D_to_3D_admix in any proportion is phi_2D_to_3D_split_2: [c_admix_diag]).  Hence [norm_sound],
    [nesting_sound], [nesting2_sound], [params_match_names_sound] hold of the concrete spectra without any
    hypothesis on the numerical layer.  NOT discharged (they hold only up to operator-splitting error): the
    equivariance hypotheses E_* of the relabelling theorem. *)
From Coq Require Import String.
From Coq Require Import QArith Qreals List Bool Arith ZArith Reals Lra Lia FunctionalExtensionality.
From Dadi Require Import Base.Num Base.NumR Model.Tridiag Model.Scheme Model.NDSweep Model.Equilibrium Model.PhiManip
                         Model.FromPhi Model.DSL Model.ProgSem Proofs.Drivers Proofs.DSLProofs Proofs.DSLInstance
                         Proofs.PhiManipDeposit Proofs.PhiManipND Proofs.PhiManipTable Proofs.PhiManipMisc.
Import ListNotations.
Local Open Scope bool_scope.
Local Open Scope R_scope.

(** ** expressions: the F-valued evaluator at F = R is [eval] *)
Lemma evalF_R : forall e env t, @evalF R NumR e env t = eval e env t.
Proof.
  induction e; intros env t; cbn [evalF eval]; numR; rewrite ?IHe, ?IHe1, ?IHe2; try reflexivity.
Qed.
Lemma ev0F_R env e : @ev0F R NumR env e = ev0 env e.
Proof. unfold ev0F, ev0. numR. apply evalF_R. Qed.
Lemma evfF_R env e : @evfF R NumR env e = evf env e.
Proof. unfold evfF, evf. apply functional_extensionality. intro t. apply evalF_R. Qed.
Lemma map_ev0F_R env l : map (@ev0F R NumR env) l = map (ev0 env) l.
Proof. apply map_ext. intro; apply ev0F_R. Qed.
Lemma map_evfF_R env l : map (@evfF R NumR env) l = map (evf env) l.
Proof. apply map_ext. intro; apply evfF_R. Qed.
Lemma map_map_evfF_R env l : map (map (@evfF R NumR env)) l = map (map (evf env)) l.
Proof. apply map_ext. intro; apply map_evfF_R. Qed.

(** integer-valued reals back to naturals (ploidies) *)
Definition nat_of_R (x : R) : nat := Z.to_nat (up x - 1).
Lemma nat_of_R_IZR z : nat_of_R (IZR z) = Z.to_nat z.
Proof.
  unfold nat_of_R. replace (up (IZR z)) with (z + 1)%Z; [f_equal; lia|].
  apply tech_up; rewrite plus_IZR; lra.
Qed.
Lemma nat_const_R e n env : nat_const e = Some n -> nat_of_R (ev0 env e) = n.
Proof.
  destruct e; cbn [nat_const]; try discriminate. destruct q as [z d]. cbn [Qden Qnum].
  destruct (Pos.eqb d 1) eqn:Ed; cbn [andb]; [|discriminate]. destruct (Z.leb 0 z); [|discriminate].
  intro E. injection E as <-. apply Pos.eqb_eq in Ed. subst d.
  unfold ev0. cbn [eval]. unfold Q2R. cbn [Qnum Qden]. replace (IZR z * / 1) with (IZR z) by field. apply nat_of_R_IZR.
Qed.
Lemma all_some_R env : forall pl pln, all_some (map nat_const pl) = Some pln -> map nat_of_R (map (ev0 env) pl) = pln.
Proof.
  induction pl as [|e pl IH]; intros pln; cbn [map all_some].
  - intro E; injection E as <-; reflexivity.
  - destruct (nat_const e) as [n|] eqn:En; [|discriminate].
    destruct (all_some (map nat_const pl)) as [l|] eqn:El; cbn [option_map]; [|discriminate].
    intro E; injection E as <-. rewrite (nat_const_R e n env En), (IH l eq_refl). reflexivity.
Qed.

Section Concrete.
  (** oracle slots, fuel and inputs of a run, on the real-number instance *)
  Variable ovf : R.
  Variable quad : (R -> R) -> R -> R -> R.
  Variable fuel pts : nat.
  Variable grid0 : list R.
  Variable ns : list nat.
  Variable tf : R.

  Notation St := (@state R).
  Notation kindof := (@kind_of R NumR).
  Definition dummy {A} (l : list A) : list expr := map (fun _ => Const 0) l.
  Definition ones {A} (l : list A) : list expr := map (fun _ => Const 1) l.

  (** ** the concrete operations: apply the model where the instruction applies, else leave the state *)
  Definition c_grid (s : St) : St := if applicable IGrid (kindof s) then do_grid pts grid0 s else s.
  Definition c_phi1d (nu th g h be : R) (s : St) : St :=
    if applicable (IPhi1D (Const 0) (Const 0) (Const 0) (Const 0) (Const 0)) (kindof s) then do_phi1d ovf quad nu th g h be s else s.
  Definition c_split (d parent : nat) (s : St) : St := if applicable (ISplit d parent) (kindof s) then do_split d parent s else SErr.
  Definition c_admixnew (d : nat) (fs : list R) (s : St) : St :=
    if applicable (IAdmixNew d (dummy fs)) (kindof s) then do_admixnew d fs s else s.
  Definition c_pulse (d : nat) (srcs : list nat) (dst : nat) (fs : list R) (s : St) : St :=
    if applicable (IPulse d srcs dst []) (kindof s) then do_pulse d srcs dst fs s else s.
  Definition c_integrate (T : R) (nus : list (R -> R)) (ms : list (list (R -> R))) (gs hs : list (R -> R)) (th be : R -> R)
             (fr nm : list bool) (s : St) : St :=
    if applicable (IIntegrate (Const 0) (dummy nus) (map dummy ms) (dummy gs) (dummy hs) (Const 0) (Const 0) fr nm) (kindof s)
    then do_integrate fuel tf T nus ms gs hs th be fr nm s else s.
  Definition c_remove (k : nat) (s : St) : St := if applicable (IRemove k) (kindof s) then do_remove k s else s.
  Definition c_reorder (pi : list nat) (s : St) : St := if applicable (IReorder pi) (kindof s) then do_reorder pi s else s.
  Definition c_fromphi (d : nat) (s : St) : St := if applicable (IFromPhi d) (kindof s) then do_fromphi ns d s else s.
  Definition c_fromphi_inb (d : nat) (Fs pl : list R) (s : St) : St :=
    if applicable (IFromPhiInb d (dummy Fs) (ones pl)) (kindof s) then do_fromphi_inb ns d Fs (map nat_of_R pl) s else s.
  Definition c_mscmd (es : list R) (s : St) : St := s.

  Definition csem : prog -> (nat -> R) -> St -> St :=
    sem St c_grid c_phi1d c_split c_admixnew c_pulse c_integrate c_remove c_reorder c_fromphi c_fromphi_inb c_mscmd.
  Definition csem_instr : instr -> (nat -> R) -> St -> St :=
    sem_instr St c_grid c_phi1d c_split c_admixnew c_pulse c_integrate c_remove c_reorder c_fromphi c_fromphi_inb c_mscmd.
  Notation doi := (@do_instr R NumR ovf quad fuel pts grid0 ns tf).
  Notation execR := (@exec R NumR ovf quad fuel pts grid0 ns tf).

  (** ** kinds of the results *)
  Lemma kind_mkphi g d phi : kindof (mkphi g d phi) = KPhi d \/ kindof (mkphi g d phi) = KErr.
  Proof. unfold mkphi. destruct (phi_ok g d phi) eqn:E; cbn [kind_of]; [rewrite E|]; auto. Qed.
  Lemma kind_mkphi_opt g d r : kindof (mkphi_opt g d r) = KPhi d \/ kindof (mkphi_opt g d r) = KErr.
  Proof. destruct r; cbn [mkphi_opt]; [apply kind_mkphi|right; reflexivity]. Qed.
  Lemma kind_mkgrid g : kindof (mkgrid g) = KGrid \/ kindof (mkgrid g) = KErr.
  Proof. unfold mkgrid. destruct (grid_ok g) eqn:E; cbn [kind_of]; [rewrite E|]; auto. Qed.
  Lemma kind_mkfs r : kindof (mkfs ns r) = KFs \/ kindof (mkfs ns r) = KErr.
  Proof. destruct r; cbn [mkfs kind_of]; auto. Qed.

  Lemma kind_KErr (s : St) : kindof s = KErr -> s = SErr.
  Proof. destruct s; cbn [kind_of]; try discriminate; try reflexivity.
    - destruct (grid_ok g); discriminate.
    - destruct (phi_ok g d phi); discriminate. Qed.
  Lemma kind_KPhi (s : St) d : kindof s = KPhi d -> exists g phi, s = SPhi g d phi /\ phi_ok g d phi = true.
  Proof. destruct s; cbn [kind_of]; try discriminate.
    - destruct (grid_ok g); discriminate.
    - destruct (phi_ok g d0 phi) eqn:E; [|discriminate]. intro H; injection H as <-. eauto. Qed.
  Lemma kind_KGrid (s : St) : kindof s = KGrid -> exists g, s = SGrid g /\ grid_ok g = true.
  Proof. destruct s; cbn [kind_of]; try discriminate.
    - destruct (grid_ok g) eqn:E; [eauto|discriminate].
    - destruct (phi_ok g d phi); discriminate. Qed.
  Lemma kind_KInit (s : St) : kindof s = KInit -> s = SInit.
  Proof. destruct s; cbn [kind_of]; try discriminate; try reflexivity.
    - destruct (grid_ok g); discriminate.
    - destruct (phi_ok g d phi); discriminate. Qed.

  Lemma prog_ok_KErr : forall p, prog_ok p KErr = true.
  Proof. induction p; cbn [prog_ok applicable next_kind]; rewrite ?IHp, ?IHp1, ?IHp2; reflexivity. Qed.

  Lemma do_instr_SErr i env : doi i env SErr = SErr.
  Proof. reflexivity. Qed.

  (** the state after an applicable instruction has the statically predicted kind, or the run failed *)
  Lemma kind_do_instr i env s : applicable i (kindof s) = true ->
    kindof (doi i env s) = next_kind i (kindof s) \/ kindof (doi i env s) = KErr.
  Proof.
    intro Ha. destruct (kindof s) eqn:Ek.
    - (* KInit *) apply kind_KInit in Ek. subst s. destruct i; cbn [applicable] in Ha; try discriminate; cbn [do_instr next_kind].
      + unfold do_grid. destruct (Nat.eqb (length grid0) pts); [apply kind_mkgrid|right; reflexivity].
      + left; reflexivity.
    - (* KGrid *) apply kind_KGrid in Ek. destruct Ek as [g [-> Hg]].
      destruct i; cbn [applicable] in Ha; try discriminate; cbn [do_instr next_kind].
      + unfold do_phi1d. apply kind_mkphi.
      + left. cbn [kind_of]. rewrite Hg. reflexivity.
    - (* KPhi *) apply kind_KPhi in Ek. destruct Ek as [g [phi [-> Hphi]]].
      destruct i; cbn [applicable] in Ha; try discriminate; cbn [do_instr next_kind].
      + unfold do_split. destruct (Nat.eqb d0 1) eqn:E1; [apply Nat.eqb_eq in E1; subst d0; apply kind_mkphi|].
        destruct (split_index d0 parent); [apply kind_mkphi_opt|right; reflexivity].
      + unfold do_admixnew. apply kind_mkphi_opt.
      + unfold do_pulse. apply andb_true_iff in Ha. destruct Ha as [Hd _]. apply Nat.eqb_eq in Hd. subst d0.
        destruct (pulse_index d srcs dst); [apply kind_mkphi_opt|right; reflexivity].
      + destruct (integrate_tfree nus ms gammas hs theta0 beta).
        * unfold do_integrate_const. destruct (nltb _ _); [right; reflexivity|apply kind_mkphi_opt].
        * unfold do_integrate. destruct (nltb _ _); [right; reflexivity|apply kind_mkphi_opt].
      + unfold do_remove. apply kind_mkphi.
      + unfold do_reorder. apply kind_mkphi_opt.
      + unfold do_fromphi. apply kind_mkfs.
      + destruct (all_some (map nat_const ploidy)); [unfold do_fromphi_inb; apply kind_mkfs|right; reflexivity].
      + left. cbn [kind_of]. rewrite Hphi. reflexivity.
    - (* KFs *) destruct s; cbn [kind_of] in Ek; try discriminate;
        try (destruct (grid_ok g); discriminate); try (destruct (phi_ok g d phi); discriminate).
      destruct i; cbn [applicable] in Ha; try discriminate. left; reflexivity.
    - (* KErr *) apply kind_KErr in Ek. subst s. right. reflexivity.
    - (* KBad *) cbn [applicable] in Ha. discriminate.
  Qed.

  (** ** an applicable instruction: the concrete operation of the abstract layer is the strict one *)
  Lemma dummy_length {A} (l : list A) : length (dummy l) = length l.
  Proof. apply map_length. Qed.
  Lemma map_length_dummy {A} (ms : list (list A)) : map (@length _) (map dummy ms) = map (@length _) ms.
  Proof. rewrite map_map. apply map_ext. intro; apply dummy_length. Qed.

  Lemma tfree_at env l t : forallb tfreeb l = true -> at_t (map (evf env) l) t = map (ev0 env) l.
  Proof.
    intro H. unfold at_t. rewrite map_map. apply map_ext_in. intros e He. unfold evf, ev0.
    apply tfree_eval. rewrite forallb_forall in H. apply H, He.
  Qed.

  Lemma integrate_const_is_tdep env T nus ms gs hs th be fr nm s :
    integrate_tfree nus ms gs hs th be = true ->
    do_integrate_const fuel tf T (map (ev0 env) nus) (map (map (ev0 env)) ms) (map (ev0 env) gs) (map (ev0 env) hs)
                       (ev0 env th) (ev0 env be) fr nm s =
    do_integrate fuel tf T (map (evf env) nus) (map (map (evf env)) ms) (map (evf env) gs) (map (evf env) hs)
                 (evf env th) (evf env be) fr nm s.
  Proof.
    unfold integrate_tfree. intro H.
    repeat (apply andb_true_iff in H; let H' := fresh "H" in destruct H as [H H']).
    destruct s; cbn [do_integrate_const do_integrate]; try reflexivity.
    destruct (nltb T n0); [reflexivity|]. f_equal.
    rewrite <- const_equals_timedep. apply tdep_ext.
    - intro t. unfold popsf_of. rewrite !tfree_at by assumption. f_equal.
      + rewrite map_map. apply map_ext_in. intros r Hr. symmetry. apply tfree_at.
        rewrite forallb_forall in H4. apply H4, Hr.
      + unfold evf, ev0. apply tfree_eval. assumption.
    - intro t. unfold evf, ev0. apply tfree_eval. assumption.
  Qed.

  Lemma sem_instr_is_do_instr i env s : applicable i (kindof s) = true -> csem_instr i env s = doi i env s.
  Proof.
    intro Ha. unfold csem_instr.
    destruct i; cbn [sem_instr do_instr].
    - unfold c_grid. rewrite Ha. destruct s; reflexivity.
    - unfold c_phi1d.
      change (applicable (IPhi1D (Const 0) (Const 0) (Const 0) (Const 0) (Const 0)) (kindof s))
        with (applicable (IPhi1D nu theta0 gamma h beta) (kindof s)).
      rewrite Ha. destruct s; cbn [do_instr]; rewrite ?ev0F_R; reflexivity.
    - unfold c_split. rewrite Ha. destruct s; reflexivity.
    - unfold c_admixnew.
      replace (applicable (IAdmixNew d (dummy (map (ev0 env) fs))) (kindof s)) with (applicable (IAdmixNew d fs) (kindof s))
        by (unfold applicable; rewrite dummy_length, map_length; reflexivity).
      rewrite Ha. destruct s; cbn [do_instr]; rewrite ?map_ev0F_R; reflexivity.
    - unfold c_pulse.
      change (applicable (IPulse d srcs dst []) (kindof s)) with (applicable (IPulse d srcs dst fs) (kindof s)).
      rewrite Ha. destruct s; cbn [do_instr]; rewrite ?map_ev0F_R; reflexivity.
    - unfold c_integrate.
      replace (applicable (IIntegrate (Const 0) (dummy (map (evf env) nus)) (map dummy (map (map (evf env)) ms)) (dummy (map (evf env) gammas))
                                      (dummy (map (evf env) hs)) (Const 0) (Const 0) frozen nomut) (kindof s))
        with (applicable (IIntegrate T nus ms gammas hs theta0 beta frozen nomut) (kindof s)).
      2:{ unfold applicable. rewrite !dummy_length, map_length_dummy, !map_length, !map_map.
          replace (map (fun x => length (map (evf env) x)) ms) with (map (@length _) ms)
            by (apply map_ext; intro; symmetry; apply map_length).
          reflexivity. }
      rewrite Ha.
      assert (Hgoal : forall s' : St, do_integrate fuel tf (ev0 env T) (map (evf env) nus) (map (map (evf env)) ms) (map (evf env) gammas)
                 (map (evf env) hs) (evf env theta0) (evf env beta) frozen nomut s' =
               (if integrate_tfree nus ms gammas hs theta0 beta
                then do_integrate_const fuel tf (ev0F env T) (map (ev0F env) nus) (map (map (ev0F env)) ms) (map (ev0F env) gammas)
                       (map (ev0F env) hs) (ev0F env theta0) (ev0F env beta) frozen nomut s'
                else do_integrate fuel tf (ev0F env T) (map (evfF env) nus) (map (map (evfF env)) ms) (map (evfF env) gammas)
                       (map (evfF env) hs) (evfF env theta0) (evfF env beta) frozen nomut s')).
      { intro s'. destruct (integrate_tfree nus ms gammas hs theta0 beta) eqn:Et.
        - rewrite (map_ev0F_R env nus), (map_ev0F_R env gammas), (map_ev0F_R env hs), (ev0F_R env T), (ev0F_R env theta0), (ev0F_R env beta).
          replace (map (map (@ev0F R NumR env)) ms) with (map (map (ev0 env)) ms)
            by (apply map_ext; intro; symmetry; apply map_ev0F_R).
          symmetry. apply integrate_const_is_tdep. exact Et.
        - rewrite (map_evfF_R env nus), (map_evfF_R env gammas), (map_evfF_R env hs), (evfF_R env theta0), (evfF_R env beta),
                  (map_map_evfF_R env ms), (ev0F_R env T). reflexivity. }
      destruct s; cbn [do_instr]; try apply Hgoal.
      destruct (integrate_tfree nus ms gammas hs theta0 beta); reflexivity.
    - unfold c_remove. rewrite Ha. destruct s; reflexivity.
    - unfold c_reorder. rewrite Ha. destruct s; reflexivity.
    - unfold c_fromphi. rewrite Ha. destruct s; reflexivity.
    - unfold c_fromphi_inb.
      assert (Hs : all_some (map nat_const ploidy) <> None \/ kindof s = KErr).
      { destruct (kindof s); auto; cbn [applicable] in Ha; try discriminate. left.
        destruct (all_some (map nat_const ploidy)); [discriminate|].
        rewrite !andb_false_r in Ha. discriminate. }
      destruct Hs as [Hs|Hs].
      + destruct (all_some (map nat_const ploidy)) as [pln|] eqn:Epl; [|contradiction].
        assert (Ha' : applicable (IFromPhiInb d (dummy (map (ev0 env) Fs)) (ones (map (ev0 env) ploidy))) (kindof s) = true).
        { unfold applicable in Ha |- *. unfold ones. rewrite dummy_length, !map_length.
          replace (all_some (map nat_const (map (fun _ : R => Const 1) (map (ev0 env) ploidy))))
            with (Some (map (fun _ : expr => 1%nat) ploidy)).
          2:{ clear. induction ploidy as [|e l IH]; [reflexivity|]. cbn [map all_some nat_const]. cbn. cbn in IH. rewrite <- IH. reflexivity. }
          rewrite Epl in Ha. exact Ha. }
        rewrite Ha'. rewrite (all_some_R env _ _ Epl). destruct s; cbn [do_instr]; rewrite ?Epl, ?map_ev0F_R; reflexivity.
      + apply kind_KErr in Hs. subst s. cbn [kind_of applicable].
        destruct (all_some (map nat_const ploidy)); reflexivity.
    - unfold c_mscmd. destruct s; reflexivity.
  Qed.

  (** ** the strict interpreter is the abstract semantics instantiated with the concrete operations *)
  Theorem exec_is_sem : forall p env s, prog_ok p (kindof s) = true -> execR p env s = Some (csem p env s).
  Proof.
    induction p as [|i r IH|a b p1 IH1 p2 IH2]; intros env s Hok; cbn [exec prog_ok] in *.
    - reflexivity.
    - apply andb_true_iff in Hok. destruct Hok as [Ha Hr]. unfold apply_instr. rewrite Ha.
      unfold csem. cbn [sem]. fold (csem_instr i env s). rewrite (sem_instr_is_do_instr i env s Ha).
      apply IH. destruct (kind_do_instr i env s Ha) as [E|E]; rewrite E; [exact Hr|apply prog_ok_KErr].
    - apply andb_true_iff in Hok. destruct Hok as [H1 H2]. unfold csem in *. cbn [sem]. rewrite (ev0F_R env a), (ev0F_R env b).
      numR. unfold Rleb. destruct (Rle_dec (ev0 env b) (ev0 env a)); [apply IH1|apply IH2]; assumption.
  Qed.

  Notation runR := (@run_prog R NumR ovf quad fuel pts grid0 ns tf).
  Theorem run_prog_is_sem p params : prog_ok p KInit = true ->
    runR p params = result_of (Some (csem p (env_of_list params) SInit)).
  Proof. intro H. unfold run_prog. rewrite exec_is_sem by exact H. reflexivity. Qed.

  (** ** the two hypotheses of the normaliser, for the concrete operations *)
  Lemma nltb_irrefl_R' (t : R) : nltb t t = false.
  Proof. unfold nltb. numR. rewrite (proj2 (Rleb_true t t)); [reflexivity|apply Rle_refl]. Qed.

  (** H_T0: an integration of duration exactly 0 returns the state *)
  Theorem c_integrate_T0 : forall nus ms gs hs th be fr nm s, c_integrate 0 nus ms gs hs th be fr nm s = s.
  Proof.
    intros. unfold c_integrate.
    destruct (applicable _ (kindof s)) eqn:Ha; [|reflexivity].
    destruct (kindof s) eqn:Ek; try (cbn [applicable] in Ha; discriminate).
    - apply kind_KPhi in Ek. destruct Ek as [g [phi [-> Hphi]]]. cbn [do_integrate].
      change (@n0 R NumR) with 0. rewrite nltb_irrefl_R'.
      rewrite (zero_duration_is_identity_tdep fuel _ _ _ _ tf false 0 phi (nltb_irrefl_R' 0)).
      cbn [mkphi_opt]. unfold mkphi. rewrite Hphi. reflexivity.
    - apply kind_KErr in Ek. subst s. reflexivity.
  Qed.

  (** strictly increasing grids: the boolean test gives the predicate of Proofs/PhiManipDeposit.v *)
  Lemma incrb_head : forall (l : list R) a, incrb (a :: l) = true -> forall k, (k < length l)%nat -> a < nthF l k.
  Proof.
    induction l as [|b t IH]; intros a H k Hk; [cbn in Hk; lia|].
    cbn [incrb] in H. apply andb_true_iff in H. destruct H as [Hab Ht].
    unfold nltb in Hab. numR. apply negb_true_iff in Hab. apply Rleb_false in Hab.
    destruct k as [|k]; [exact Hab|]. cbn [length] in Hk.
    eapply Rlt_trans; [exact Hab|]. unfold nthF. cbn [nth]. apply (IH b Ht k). lia.
  Qed.
  Lemma incrb_incr : forall l : list R, incrb l = true -> incr l.
  Proof.
    induction l as [|a t IH]; intros H i j Hij; [cbn in Hij; lia|].
    assert (Ht : incrb t = true).
    { destruct t as [|b t']; [reflexivity|]. cbn [incrb] in H. apply andb_true_iff in H. apply H. }
    cbn [length] in Hij. destruct j as [|j]; [lia|]. destruct i as [|i].
    - unfold nthF at 1. cbn [nth]. change (nthF (a :: t) (S j)) with (nthF t j). apply (incrb_head t a H). lia.
    - change (nthF (a :: t) (S i)) with (nthF t i). change (nthF (a :: t) (S j)) with (nthF t j). apply (IH Ht). lia.
  Qed.

  (** proportions that are all zero, whatever their number *)
  Lemma nthF_zeros (l : list R) i : Forall (fun f => f = 0) l -> nthF l i = 0.
  Proof.
    intro H. unfold nthF. revert i. induction H as [|x l Hx Hl IH]; intro i; destruct i; cbn [nth]; numR; auto.
  Qed.
  Lemma rest_of_zeros (l : list R) : Forall (fun f => f = 0) l -> rest_of l = 1.
  Proof.
    intro H. unfold rest_of. change (@n1 R NumR) with 1.
    assert (G : forall c : R, fold_left nsub l c = c).
    { induction H as [|x l Hx Hl IH]; intro c; cbn [fold_left]; [reflexivity|]. subst x. numR. rewrite Rminus_0_r. apply IH. }
    apply G.
  Qed.
  Lemma desc_args_zeros p (a b : list R) : Forall (fun f => f = 0) a -> Forall (fun f => f = 0) b -> desc_args p a = desc_args p b.
  Proof.
    intros Ha Hb. unfold desc_args. apply map_ext. intros [i| |z]; cbn [eval_arg].
    - rewrite !nthF_zeros by assumption. reflexivity.
    - rewrite !rest_of_zeros by assumption. reflexivity.
    - reflexivity.
  Qed.
  Lemma run_desc_zeros p sh gs (a b phi : list R) : Forall (fun f => f = 0) a -> Forall (fun f => f = 0) b ->
    run_desc p sh gs a phi = run_desc p sh gs b phi.
  Proof. intros Ha Hb. unfold run_desc. rewrite (desc_args_zeros p a b Ha Hb). reflexivity. Qed.
  Lemma Forall_repeat0 n : Forall (fun f : R => f = 0) (repeat 0 n).
  Proof. induction n; cbn [repeat]; constructor; auto. Qed.

  (** H_pulse0: a pulse whose proportions are all 0 returns the state *)
  Theorem c_pulse_zero : forall d srcs dst fs s, Forall (fun f => f = 0) fs -> c_pulse d srcs dst fs s = s.
  Proof.
    intros d srcs dst fs s Hz. unfold c_pulse.
    destruct (applicable _ (kindof s)) eqn:Ha; [|reflexivity].
    destruct (kindof s) eqn:Ek; try (cbn [applicable] in Ha; discriminate).
    - apply kind_KPhi in Ek. destruct Ek as [g [phi [-> Hphi]]]. cbn [applicable] in Ha.
      apply andb_true_iff in Ha. destruct Ha as [Hd Hp]. apply Nat.eqb_eq in Hd. subst d0.
      cbn [do_pulse]. destruct (pulse_index d srcs dst) as [k|] eqn:Ek; [|discriminate].
      pose proof Hphi as Hphi'. unfold phi_ok in Hphi'. apply andb_true_iff in Hphi'. destruct Hphi' as [Hg Hlen].
      unfold grid_ok in Hg. apply andb_true_iff in Hg. destruct Hg as [HL Hinc].
      apply Nat.leb_le in HL. apply incrb_incr in Hinc. apply Nat.eqb_eq in Hlen.
      assert (Hrun : run_desc (nth k pulse_table no_desc) (shape_of g d) (repeat g d) fs phi = Some phi).
      { rewrite (run_desc_zeros _ _ _ fs (repeat 0 (d - 1)) phi Hz (Forall_repeat0 _)).
        unfold pulse_index in Ek.
        destruct d as [|[|[|[|d]]]]; try discriminate;
          destruct srcs as [|[|[|s0]] [|[|[|[|s1]]] [|? ?]]]; try discriminate;
          destruct dst as [|[|[|dst]]]; try discriminate; injection Ek as <-;
          (match goal with |- run_desc ?p _ _ _ _ = _ =>
             apply (pulse14_zero_identity p); [cbn [nth pulse_table In]; tauto|exact HL|exact Hinc|exact Hlen] end). }
      rewrite Hrun. cbn [mkphi_opt]. unfold mkphi. rewrite Hphi. reflexivity.
    - apply kind_KErr in Ek. subst s. reflexivity.
  Qed.

  (** H_admix_diag: the density phi_1D_to_2D returns lives on the diagonal; there the ad-mixed frequency f x + (1-f) x is x
      for every f, and off the diagonal a zero entry deposits zeros wherever it lands *)
  Lemma deposit_col_zero (zz : list R) adz adz' : deposit_col zz 0 adz = deposit_col zz 0 adz'.
  Proof.
    unfold deposit_col, dep_norm. numR.
    assert (Z : forall d : R, 2 * 0 / d = 0) by (intro; unfold Rdiv; rewrite Rmult_0_r, Rmult_0_l; reflexivity).
    rewrite !Z, !Rmult_0_r.
    transitivity (map (fun _ : nat => 0) (seq 0 (length zz))); [|symmetry];
      (apply map_ext; intro k; repeat match goal with |- context [if ?b then _ else _] => destruct b end; reflexivity).
  Qed.
  Lemma unflat2 n idx : unflat [n; n] idx = [(idx / n)%nat; (idx mod n)%nat].
  Proof. cbn [unflat prodn fold_right]. rewrite Nat.mul_1_r, Nat.div_1_r. reflexivity. Qed.
  Lemma new_pop_diag (g phi : list R) (f f' : R) :
    new_pop [length g; length g] [g; g] (coefs_of [f]) g (phi_1D_to_2D g phi) =
    new_pop [length g; length g] [g; g] (coefs_of [f']) g (phi_1D_to_2D g phi).
  Proof.
    unfold new_pop. apply flat_map_ext_in. intros idx Hidx. apply in_seq in Hidx.
    cbn [prodn fold_right] in Hidx. rewrite Nat.mul_1_r in Hidx.
    assert (Hn : (0 < length g)%nat) by (destruct (length g); lia).
    rewrite unflat2.
    assert (Hi : (idx / length g < length g)%nat) by (apply Nat.div_lt_upper_bound; lia).
    assert (Hj : (idx mod length g < length g)%nat) by (apply Nat.mod_upper_bound; lia).
    assert (E : idx = (idx / length g * length g + idx mod length g)%nat) by (rewrite Nat.mul_comm; apply Nat.div_mod; lia).
    set (i := (idx / length g)%nat) in *. set (j := (idx mod length g)%nat) in *.
    rewrite E. rewrite (phi_1D_to_2D_entry g phi i j Hi Hj).
    destruct (Nat.eqb i j && Nat.ltb 0 i && Nat.ltb i (length g - 1)) eqn:Eb.
    - apply andb_true_iff in Eb. destruct Eb as [Eb _]. apply andb_true_iff in Eb. destruct Eb as [Eb _].
      apply Nat.eqb_eq in Eb. rewrite <- Eb.
      f_equal. unfold adfreq, coefs_of, rest_of, lsum. cbn [app fold_left combine map fst snd]. numR. ring.
    - apply deposit_col_zero.
  Qed.
  Lemma c_after_SErr_admix d fs : c_admixnew d fs SErr = SErr.
  Proof. reflexivity. Qed.
  Lemma c_after_SErr_split d parent : c_split d parent SErr = SErr.
  Proof. reflexivity. Qed.
  Theorem c_admix_diag : forall f s, c_admixnew 2 [f] (c_split 1 0 s) = c_split 2 1 (c_split 1 0 s).
  Proof.
    intros f s. unfold c_split at 1 3.
    destruct (applicable (ISplit 1 0) (kindof s)) eqn:Ha; [|reflexivity].
    destruct (kindof s) eqn:Ek; try (cbn [applicable] in Ha; discriminate).
    - apply kind_KPhi in Ek. destruct Ek as [g [phi [-> Hphi]]]. cbn [applicable] in Ha.
      apply andb_true_iff in Ha. destruct Ha as [Hd _]. apply Nat.eqb_eq in Hd. subst d.
      cbn [do_split Nat.eqb]. unfold mkphi.
      destruct (phi_ok g 2 (phi_1D_to_2D g phi)) eqn:H2; [|reflexivity].
      unfold c_admixnew, c_split. cbn [kind_of]. rewrite H2.
      cbn [applicable dummy map length Nat.eqb andb orb split_index do_admixnew do_split nth cons_table].
      unfold run_desc. cbn [pd_args pd_axgrids pd_gdep pd_dest mkp desc_args map eval_arg rejected nth].
      unfold shape_of. cbn [repeat]. unfold nthF at 1. cbn [nth].
      replace (@nofZ R NumR 0%Z) with 0 by (numR; reflexivity).
      rewrite (new_pop_diag g phi f 0). reflexivity.
    - apply kind_KErr in Ek. subst s. reflexivity.
  Qed.

  (** ** the soundness theorems of Proofs/DSLProofs.v about the CONCRETE semantics: no hypothesis on the numerical layer *)
  Theorem concrete_norm_sound A env : env_ok A env -> forall p s, csem (norm A p) env s = csem p env s.
  Proof. exact (norm_sound St c_grid c_phi1d c_split c_admixnew c_pulse c_integrate c_remove c_reorder c_fromphi c_fromphi_inb c_mscmd
                           c_integrate_T0 c_pulse_zero c_admix_diag A env). Qed.
  Theorem concrete_nesting_sound A sg complex simple : nests A sg complex simple = true ->
    forall env, env_ok A env -> forall s, csem complex (env_of sg env) s = csem simple env s.
  Proof. exact (nesting_sound St c_grid c_phi1d c_split c_admixnew c_pulse c_integrate c_remove c_reorder c_fromphi c_fromphi_inb c_mscmd
                              c_integrate_T0 c_pulse_zero c_admix_diag A sg complex simple). Qed.
  Theorem concrete_nesting2_sound A sgc sgs complex simple : nests2 A sgc sgs complex simple = true ->
    forall env, env_ok A env -> forall s, csem complex (env_of sgc env) s = csem simple (env_of sgs env) s.
  Proof. exact (nesting2_sound St c_grid c_phi1d c_split c_admixnew c_pulse c_integrate c_remove c_reorder c_fromphi c_fromphi_inb c_mscmd
                               c_integrate_T0 c_pulse_zero c_admix_diag A sgc sgs complex simple). Qed.

  (** ... and about the spectra the strict interpreter returns *)
  Lemma env_of_list_map (sg : list expr) (params : list R) :
    env_of_list (map (ev0 (env_of_list params)) sg) = env_of sg (env_of_list params).
  Proof.
    apply functional_extensionality. intro i. unfold env_of_list at 1, env_of.
    change (@n0 R NumR) with 0. replace 0 with (ev0 (env_of_list params) (Const 0)) at 1 by (unfold ev0; cbn [eval]; apply Q2R_0').
    apply map_nth.
  Qed.
  (** the parameter vector of a model instantiated at a nesting point *)
  Definition at_point (sg : list expr) (params : list R) : list R := map (ev0 (env_of_list params)) sg.

  Theorem run_prog_norm_sound A p params : env_ok A (env_of_list params) ->
    prog_ok p KInit = true -> prog_ok (norm A p) KInit = true ->
    runR (norm A p) params = runR p params.
  Proof.
    intros Hok H1 H2. rewrite !run_prog_is_sem by assumption. rewrite (concrete_norm_sound A _ Hok). reflexivity.
  Qed.
  Theorem run_prog_nesting_sound A sg complex simple : nests A sg complex simple = true ->
    prog_ok complex KInit = true -> prog_ok simple KInit = true ->
    forall params, env_ok A (env_of_list params) ->
    runR complex (at_point sg params) = runR simple params.
  Proof.
    intros Hn Hc Hs params Hok. rewrite !run_prog_is_sem by assumption. unfold at_point. rewrite env_of_list_map.
    rewrite (concrete_nesting_sound A sg complex simple Hn _ Hok). reflexivity.
  Qed.
  Theorem run_prog_nesting2_sound A sgc sgs complex simple : nests2 A sgc sgs complex simple = true ->
    prog_ok complex KInit = true -> prog_ok simple KInit = true ->
    forall params, env_ok A (env_of_list params) ->
    runR complex (at_point sgc params) = runR simple (at_point sgs params).
  Proof.
    intros Hn Hc Hs params Hok. rewrite !run_prog_is_sem by assumption. unfold at_point. rewrite !env_of_list_map.
    rewrite (concrete_nesting2_sound A sgc sgs complex simple Hn _ Hok). reflexivity.
  Qed.
  (** a well-formed model depends on nothing but its declared parameters *)
  Theorem run_prog_params_only n unpacked p : params_match_names n unpacked p = true -> prog_ok p KInit = true ->
    forall params params', firstn n params = firstn n params' -> (n <= length params)%nat -> (n <= length params')%nat ->
    runR p params = runR p params'.
  Proof.
    intros Hm Hp params params' Hf Hl Hl'. rewrite !run_prog_is_sem by assumption. f_equal. f_equal.
    destruct (params_match_names_sound St c_grid c_phi1d c_split c_admixnew c_pulse c_integrate c_remove c_reorder c_fromphi c_fromphi_inb c_mscmd
                n unpacked p Hm) as [_ [_ [_ H]]].
    apply H. intros i Hi. unfold env_of_list.
    rewrite <- (firstn_skipn n params), <- (firstn_skipn n params'), Hf.
    rewrite !app_nth1; [reflexivity| |]; rewrite firstn_length; lia.
  Qed.
End Concrete.

(** the static check on example programs (as produced by the translator from the unchanged tree) *)
Lemma prog_ok_examples :
  prog_ok DSLInstance.ex_split_mig KInit = true /\ ends_in_fs DSLInstance.ex_split_mig KInit = true /\
  prog_ok DSLInstance.ex_IM_pre KInit = true /\ prog_ok DSLInstance.ex_bgsm_sel KInit = true /\
  prog_ok (Step (IPulse 2 [0%nat] 1 [Const 0]) Done) KInit = false /\
  prog_ok (Step IGrid (Step (IPhi1D (Const 1) (Const 1) (Const 0) (Const (1 # 2)) (Const 1))
            (Step (IIntegrate (Var 0) [Const 1; Const 1] [[Const 0; Const 0]; [Const 0; Const 0]] [Const 0; Const 0]
                              [Const (1 # 2); Const (1 # 2)] (Const 1) (Const 1) [false; false] [false; false]) Done))) KInit = false.
Proof. repeat split; vm_compute; reflexivity. Qed.
