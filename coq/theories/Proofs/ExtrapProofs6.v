From Coq Require Import ZArith Reals List Lra.
From Dadi Require Import Base.Num Base.NumR Model.Extrap Proofs.ExtrapProofs.
Import ListNotations.
Local Open Scope R_scope.

Lemma exact6 c0 c1 c2 c3 c4 c5 x1 x2 x3 x4 x5 x6 :
  x1 <> x2 -> x1 <> x3 -> x1 <> x4 -> x1 <> x5 -> x1 <> x6 -> x2 <> x3 -> x2 <> x4 -> x2 <> x5 -> x2 <> x6 ->
  x3 <> x4 -> x3 <> x5 -> x3 <> x6 -> x4 <> x5 -> x4 <> x6 -> x5 <> x6 ->
  lagrange0 (pdata [c0; c1; c2; c3; c4; c5] [x1; x2; x3; x4; x5; x6]) = c0.
Proof. intros. unfold pdata. lag_unfold. field. neq0. Qed.
