(** * DemesOrder: sampled-deme order, frozen-flag wiring, ancient samples as frozen branches.
    These are statements about the model as it runs (any [Num] instance would do; they are stated on R like the rest). *)
From Coq Require Import ZArith Reals List Bool Arith Lra Lia Permutation.
From Dadi Require Import Base.Num Base.NumR Model.DemesFront Proofs.DemesBase.
Import ListNotations.
Local Open Scope R_scope.

(** ** membership and permutations *)
Lemma mem_In x l : mem x l = true <-> In x l.
Proof.
  unfold mem. rewrite existsb_exists. split.
  - intros (y & Hy & E). apply Nat.eqb_eq in E. now subst.
  - intros H. exists x. split; auto. apply Nat.eqb_refl.
Qed.
Lemma mem_perm x l l' : Permutation l l' -> mem x l = mem x l'.
Proof.
  intros P. destruct (mem x l) eqn:E, (mem x l') eqn:E'; auto.
  - apply mem_In in E. apply (Permutation_in _ P) in E. apply mem_In in E. congruence.
  - apply mem_In in E'. apply (Permutation_in _ (Permutation_sym P)) in E'. apply mem_In in E'. congruence.
Qed.

Definition permute {A} (sigma : list nat) (l : list A) (d : A) : list A := map (fun i => nth i l d) sigma.

Lemma map_nth_seq {A} (l : list A) d : map (fun i => nth i l d) (seq 0 (length l)) = l.
Proof.
  induction l as [|x l IH]; cbn [length seq map]; auto. cbn [nth]. f_equal.
  rewrite <- seq_shift, map_map. exact IH.
Qed.
Lemma permute_perm {A} sigma (l : list A) d : Permutation sigma (seq 0 (length l)) -> Permutation (permute sigma l d) l.
Proof.
  intros P. unfold permute. eapply Permutation_trans; [apply Permutation_map; exact P|].
  rewrite map_nth_seq. apply Permutation_refl.
Qed.
Lemma permute_length {A} sigma (l : list A) d : length (permute sigma l d) = length sigma.
Proof. apply map_length. Qed.
Lemma permute_map {A B} (f : A -> B) sigma l d : permute sigma (map f l) (f d) = map f (permute sigma l d).
Proof. unfold permute. rewrite map_map. apply map_ext. intros i. apply map_nth. Qed.
Lemma permute_indep {A} sigma (l : list A) d d' : Forall (fun i => (i < length l)%nat) sigma -> permute sigma l d = permute sigma l d'.
Proof. intros H. unfold permute. apply map_ext_in. intros i Hi. apply nth_indep. rewrite Forall_forall in H. auto. Qed.
Lemma perm_seq_lt sigma n : Permutation sigma (seq 0 n) -> Forall (fun i => (i < n)%nat) sigma.
Proof. intros P. apply Forall_forall. intros i Hi. apply (Permutation_in _ P) in Hi. apply in_seq in Hi. lia. Qed.

(** ** the run up to the final reorder depends on the sampled demes only as a set *)
Lemma marg_events_mem (g : graph R) s s' : (forall x, mem x s = mem x s') -> marg_events g s = marg_events g s'.
Proof. intros E. unfold marg_events. apply flat_map_ext'. intros d. now rewrite E. Qed.

Lemma core_run_mem ws pnu (g : graph R) evs s s' frozen Ne :
  (forall x, mem x s = mem x s') -> core_run ws pnu g evs s frozen Ne = core_run ws pnu g evs s' frozen Ne.
Proof. intros E. unfold core_run. now rewrite (marg_events_mem g s s' E). Qed.

(** ** indices of the sampled demes among the current labels *)
Section Indices.
  Variable ids : list nat.
  Definition idx (x : nat) : nat := match index_of x ids with Some i => i | None => 0%nat end.

  Lemma indices_of_spec xs is_ : indices_of xs ids = Some is_ ->
    is_ = map idx xs /\ Forall (fun x => index_of x ids <> None) xs.
  Proof.
    revert is_. induction xs as [|x xs IH]; intros is_; cbn [indices_of].
    - intros [= <-]. split; auto.
    - destruct (index_of x ids) as [i|] eqn:E; [|discriminate]. destruct (indices_of xs ids) as [r|]; [|discriminate].
      intros [= <-]. destruct (IH r eq_refl) as [-> F]. split.
      + cbn [map]. f_equal. unfold idx. now rewrite E.
      + constructor; auto. congruence.
  Qed.
  Lemma indices_of_found xs : Forall (fun x => index_of x ids <> None) xs -> indices_of xs ids = Some (map idx xs).
  Proof.
    induction 1 as [|x xs Hx _ IH]; cbn [indices_of map]; auto. unfold idx at 1.
    destruct (index_of x ids); [|congruence]. now rewrite IH.
  Qed.
End Indices.

Lemma is_perm1_perm ord ord' d : Permutation ord ord' -> is_perm1 ord d = is_perm1 ord' d.
Proof.
  intros P. unfold is_perm1. rewrite (Permutation_length P). f_equal. apply forallb_ext'. intros k. now apply mem_perm.
Qed.

Notation reorder_call ord := (simple_call (F:=R) F_reorder_pops [] ord []).
Notation from_phi_call ns ids := (simple_call (F:=R) F_from_phi [] ns ids).

Lemma core_finish_ok (s1 : st R) sampled ns is_ :
  s_ok s1 = true -> indices_of sampled (s_ids s1) = Some is_ -> is_perm1 (map S is_) (length (s_ids s1)) = true ->
  core_finish s1 sampled ns = rev (s_calls s1) ++ [reorder_call (map S is_); from_phi_call ns sampled].
Proof.
  intros Hok Hi Hp. unfold core_finish. rewrite Hok, Hi, Hp. cbn [emit s_calls rev]. now rewrite <- app_assoc.
Qed.

(** deme_order_permutes_axes: on a successful run, requesting the sampled demes in the order sigma gives the same calls,
    then the reorder with the permuted index list and from_phi with the permuted sample sizes and labels *)
Theorem order_permutes_axes : forall ws pnu (g : graph R) evs sampled frozen Ne ns sigma is_,
  let s1 := core_run ws pnu g evs sampled frozen Ne in
  s_ok s1 = true -> indices_of sampled (s_ids s1) = Some is_ -> is_perm1 (map S is_) (length (s_ids s1)) = true ->
  Permutation sigma (seq 0 (length sampled)) ->
  core ws pnu g evs sampled frozen Ne ns
    = rev (s_calls s1) ++ [reorder_call (map S is_); from_phi_call ns sampled]
  /\ core ws pnu g evs (permute sigma sampled 0%nat) frozen Ne (permute sigma ns 0%nat)
    = rev (s_calls s1) ++ [reorder_call (permute sigma (map S is_) 0%nat);
                           from_phi_call (permute sigma ns 0%nat) (permute sigma sampled 0%nat)].
Proof.
  intros ws pnu g evs sampled frozen Ne ns sigma is_ s1 Hok Hi Hp Hs. split.
  - unfold core. fold s1. now apply core_finish_ok.
  - unfold core.
    rewrite (core_run_mem ws pnu g evs (permute sigma sampled 0%nat) sampled).
    2:{ intros x. apply mem_perm. now apply permute_perm. }
    fold s1. destruct (indices_of_spec _ _ _ Hi) as [Eis Hf].
    assert (Hlt : Forall (fun i => (i < length sampled)%nat) sigma) by now apply perm_seq_lt.
    assert (Hf' : Forall (fun x => index_of x (s_ids s1) <> None) (permute sigma sampled 0%nat)).
    { apply Forall_forall. intros x Hx. apply in_map_iff in Hx as (i & <- & Hi'). rewrite Forall_forall in Hf, Hlt.
      apply Hf. apply nth_In. auto. }
    assert (Eperm : map S (map (idx (s_ids s1)) (permute sigma sampled 0%nat)) = permute sigma (map S is_) 0%nat).
    { rewrite Eis. rewrite <- !permute_map. rewrite map_map.
      apply permute_indep. rewrite map_length. exact Hlt. }
    rewrite (core_finish_ok s1 _ _ (map (idx (s_ids s1)) (permute sigma sampled 0%nat))); auto.
    + now rewrite Eperm.
    + now apply indices_of_found.
    + rewrite Eperm. rewrite <- Hp. apply is_perm1_perm. apply permute_perm. rewrite map_length. subst is_.
      now rewrite map_length.
Qed.

(** what a reorder does to the labels of the axes; reordering with the permuted index list = reordering, then permuting *)
Definition reorder_labels (cur ord : list nat) : list nat := map (fun k => nth (k - 1) cur 0%nat) ord.

Lemma reorder_labels_permute cur ord sigma : Forall (fun i => (i < length ord)%nat) sigma ->
  reorder_labels cur (permute sigma ord 0%nat) = permute sigma (reorder_labels cur ord) 0%nat.
Proof.
  intros H. unfold reorder_labels. rewrite <- (permute_map (fun k => nth (k - 1) cur 0%nat)).
  apply permute_indep. now rewrite map_length.
Qed.

Lemma index_of_nth x ids i : index_of x ids = Some i -> nth i ids 0%nat = x.
Proof.
  revert i. induction ids as [|y ids IH]; intros i; cbn [index_of]; [discriminate|].
  destruct (Nat.eqb x y) eqn:E.
  - intros [= <-]. apply Nat.eqb_eq in E. now subst.
  - destruct (index_of x ids); [|discriminate]. intros [= <-]. cbn. now apply IH.
Qed.

(** the final reorder puts the requested sampled demes on the axes, in the requested order *)
Lemma final_axes_are_sampled ids sampled is_ : indices_of sampled ids = Some is_ -> reorder_labels ids (map S is_) = sampled.
Proof.
  intros H. destruct (indices_of_spec _ _ _ H) as [-> F]. unfold reorder_labels. rewrite !map_map.
  rewrite <- (map_id sampled) at 2. apply map_ext_in. intros x Hx. rewrite Forall_forall in F. specialize (F x Hx).
  unfold idx. destruct (index_of x ids) as [i|] eqn:E; [|congruence]. cbn. rewrite Nat.sub_0_r. now apply index_of_nth.
Qed.

(** ** frozen flags *)
Lemma nth_std_wirings d : (1 <= d <= 5)%nat -> nth (d - 1) std_wirings (std_wiring d) = std_wiring d.
Proof. intros H. assert (d = 1 \/ d = 2 \/ d = 3 \/ d = 4 \/ d = 5)%nat as [->|[->|[->|[->| ->]]]] by lia; reflexivity. Qed.

(** with the identity wiring every parameter receives the entry of its own population: nu_k <- nu[k-1],
    m_ab <- M[a-1][b-1], frozen_k <- frozen[k-1]  (d = 1..5) *)
Theorem integ_call_wired : forall (ids : list nat) (T : R) (nus : list (sizefn R)) (M : list (list R)) (fr : list bool),
  let d := length ids in (1 <= d <= 5)%nat -> length nus = d -> length fr = d ->
  exists f, int_fname d = Some f /\
    integ_calls std_wirings ids T nus M fr
    = [mkCall f T nus (map (fun ab => nth (snd ab) (nth (fst ab) M []) 0) (offdiag d)) fr [] ids].
Proof.
  intros ids T nus M fr d Hd Hn Hf. unfold integ_calls. fold d.
  assert (exists f, int_fname d = Some f) as [f Ef].
  { assert (d = 1 \/ d = 2 \/ d = 3 \/ d = 4 \/ d = 5)%nat as [->|[->|[->|[->| ->]]]] by lia; cbn; eauto. }
  exists f. split; auto. rewrite Ef, nth_std_wirings by auto. cbn [w_nu w_m w_fr std_wiring].
  rewrite <- Hn at 1. rewrite <- Hf at 2. now rewrite !map_nth_seq.
Qed.

Lemma step_flags (g : graph R) frozen Ne iv :
  st_fr (mk_step g frozen Ne iv) = map (fun id => mem id frozen) (st_live (mk_step g frozen Ne iv)).
Proof. reflexivity. Qed.
Lemma step_lengths (g : graph R) frozen Ne iv : let stp := mk_step g frozen Ne iv in
  length (st_nus stp) = length (st_live stp) /\ length (st_fr stp) = length (st_live stp).
Proof.
  cbn. unfold make_nu_func. split; [|now rewrite map_length].
  destruct (forallb _ _); now rewrite !map_length.
Qed.

(** frozen_flags_wired: when the axes carry the demes of the interval (the invariant [run_step_ids] below), the
    integration call of that interval freezes population k exactly when deme k is an ancient-sample branch *)
Theorem frozen_flags_wired : forall (g : graph R) frozen Ne iv,
  let stp := mk_step g frozen Ne iv in
  (1 <= length (st_live stp) <= 5)%nat ->
  exists c, integ_calls std_wirings (st_live stp) (st_T stp) (st_nus stp) (st_M stp) (st_fr stp) = [c]
            /\ c_ids c = st_live stp /\ c_fr c = map (fun id => mem id frozen) (c_ids c) /\ c_nus c = st_nus stp.
Proof.
  intros g frozen Ne iv stp Hd. destruct (step_lengths g frozen Ne iv) as [Hn Hf]. fold stp in Hn, Hf.
  destruct (integ_call_wired (st_live stp) (st_T stp) (st_nus stp) (st_M stp) (st_fr stp) Hd Hn Hf) as (f & _ & E).
  eexists. split; [exact E|]. cbn [c_ids c_fr c_nus]. split; [reflexivity|]. split; [apply step_flags|reflexivity].
Qed.

(** the wiring found in the source (frozen5 <- frozen[3]) does not have this property *)
Definition wirings_frozen5_from_3 : list wiring :=
  [std_wiring 1; std_wiring 2; std_wiring 3; std_wiring 4; mkWiring (seq 0 5) (offdiag 5) [0; 1; 2; 3; 3]%nat].
Theorem frozen_flags_miswired_refuted : exists (ids : list nat) (fr : list bool),
  length ids = 5%nat /\ length fr = 5%nat /\
  forall c, integ_calls (F:=R) wirings_frozen5_from_3 ids 0 (repeat (SNum 1) 5) [] fr = [c] -> c_fr c <> fr.
Proof.
  exists [0; 1; 2; 3; 4]%nat, [false; false; false; false; true]. repeat split; auto.
  intros c E. cbn in E. injection E as <-. cbn. discriminate.
Qed.

Lemma list_eqb_eq a b : list_eqb a b = true -> a = b.
Proof.
  revert b. induction a as [|x a IH]; destruct b as [|y b]; cbn; try discriminate; auto.
  intros H. apply andb_prop in H as [E1 E2]. apply Nat.eqb_eq in E1. subst. f_equal. auto.
Qed.

Lemma do_reorder_ids target (s : st R) : s_ok (do_reorder target s) = true -> s_ids (do_reorder target s) = target.
Proof.
  unfold do_reorder. destruct (indices_of target (s_ids s)); [|cbn; discriminate].
  destruct (is_perm1 _ _); cbn; auto. discriminate.
Qed.

(** the invariant: after an interval that does not end at the present, the axes carry the demes of the interval the
    code looks up next, in that interval's order *)
Theorem run_step_ids : forall ws all evs (stp : step R) (s : st R),
  s_ok (run_step ws all evs stp s) = true -> tleb (snd (st_iv stp)) (Fin 0) = false ->
  exists nx, find (fun x => teqb (fst (st_iv x)) (snd (st_iv stp))) all = Some nx
             /\ s_ids (run_step ws all evs stp s) = st_live nx.
Proof.
  intros ws all evs stp s Hok Hpos. unfold run_step in *. destruct (negb (s_ok s)) eqn:E0.
  { rewrite Hok in E0. discriminate. }
  set (s2 := fold_left _ _ _) in *. destruct (negb (s_ok s2)) eqn:E2.
  { rewrite Hok in E2. discriminate. }
  change (@n0 R NumR) with 0 in *. rewrite Hpos in *.
  destruct (find _ all) as [nx|]; [|cbn in Hok; discriminate]. exists nx. split; auto.
  destruct (list_eqb (s_ids s2) (st_live nx)) eqn:El.
  - now apply list_eqb_eq.
  - now apply do_reorder_ids.
Qed.

(** ** ancient samples are frozen branches *)
Definition is_ancient (a : asample R) : bool := (n0 <? as_time a)%num.
Definition explicit_branches (l : list (asample R)) (g : graph R) : graph R :=
  fold_left (fun g a => if is_ancient a then add_frozen (as_deme a) (as_new a) (as_time a) (as_size a) g else g) l g.
Definition sampled_names (l : list (asample R)) : list nat := map (fun a => if is_ancient a then as_new a else as_deme a) l.
Definition frozen_names (l : list (asample R)) : list nat := map (@as_new R) (filter is_ancient l).

Lemma augment_loop_t0 l : forall g sacc facc,
  augment_loop 0 l g [] sacc facc = (explicit_branches l g, rev sacc ++ sampled_names l, rev facc ++ frozen_names l).
Proof.
  induction l as [|a l IH]; intros g sacc facc; cbn [augment_loop explicit_branches sampled_names frozen_names fold_left map filter].
  - now rewrite !app_nil_r.
  - cbn [find]. fold (is_ancient a). destruct (is_ancient a).
    + rewrite IH. cbn [rev map]. now rewrite <- !app_assoc.
    + replace ((n0 <? 0)%num) with false.
      2:{ unfold nltb. numR. symmetry. apply negb_false_iff. apply Rleb_true. lra. }
      rewrite IH. cbn [rev]. now rewrite <- !app_assoc.
Qed.

(** ancient_sample_is_frozen_branch: with at least one sample at time 0, the importer's program for ancient samples is the
    program of the graph in which every ancient sample is an explicit constant-size branch deme (from its sampling time to
    the present, single ancestor: the sampled deme), sampled in its place and frozen *)
Theorem ancient_is_frozen_branch : forall ws pnu gt (g : graph R) sampled times new_ids sizes evs Ne ns,
  nmin_list times = 0 -> existsb (fun t => negb (Reqb t 0)) times = true ->
  let l := map (fun x => mkAS (fst (fst (fst x))) (snd (fst (fst x)) - 0) (snd (fst x)) (snd x))
               (combine (combine (combine sampled times) new_ids) sizes) in
  front ws pnu gt g sampled (Some times) new_ids sizes evs Ne ns
  = core ws pnu (match gt with Some k => in_generations k (explicit_branches l g) | None => explicit_branches l g end)
         evs (sampled_names l) (frozen_names l) Ne ns.
Proof.
  intros ws pnu gt g sampled times new_ids sizes evs Ne ns Hmin Hex l. unfold front.
  change (existsb (fun t => negb (t =? n0)%num) times) with (existsb (fun t => negb (Reqb t 0)) times). rewrite Hex.
  unfold augment. rewrite Hmin. unfold slice. change ((0 =? n0)%num) with (Reqb 0 0).
  replace (Reqb 0 0) with true by (symmetry; now apply Reqb_true).
  change (map _ (combine (combine (combine sampled times) new_ids) sizes)) with l.
  rewrite augment_loop_t0. reflexivity.
Qed.

(** the branch added for an ancient sample: one constant epoch from the sampling time to the present *)
Lemma explicit_branch_shape sd new st_ sz (g : graph R) :
  g_demes (add_frozen sd new st_ sz g) = g_demes g ++ [mkDeme new (Fin st_) [sd] [mkEpoch (Fin st_) 0 sz sz SConstant]].
Proof. reflexivity. Qed.

(** a frozen branch of literal size 1 is handed to the integrator with nu = 1/Ne: not invariant under a change of the
    reference size (the rescaling theorem [front_rescale] needs the size to scale with the graph) *)
Theorem literal_frozen_size_refuted : exists c Ne : R, 0 < c /\
  make_nu_func [(1, 1, SConstant)] 0 (c * Ne) <> make_nu_func [(1, 1, SConstant)] 0 Ne.
Proof.
  exists 2, 1. split; [lra|]. cbn. numR. intros E. injection E as E. lra.
Qed.
