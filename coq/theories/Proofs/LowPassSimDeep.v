(** C18: the simulated calling model at deep coverage.  When the reads of every individual reveal its genotype
    (homozygous reference: >= 1 read; heterozygote: >= 2 alternative and >= 1 reference reads; homozygous
    alternative: >= 2 reads) the calls are the true genotypes, every locus is kept, and the simulation reduces to the
    subsampling step: without subsampling the returned array is the point mass at the true allele counts; with
    subsampling each locus contributes the allele count of the chosen individuals. *)
From Coq Require Import ZArith QArith Qreduction List Bool Arith Lia Lqa Sorted Setoid Morphisms.
From Dadi Require Import Model.LowPass Model.LowPassSim Proofs.LowPassPart Proofs.LowPassQ Proofs.LowPassProb
  Proofs.LowPassMat Proofs.LowPassSimDraw Proofs.LowPassSimExp.
Import ListNotations.
Local Open Scope nat_scope.

Definition revealing (g : nat) (da : indiv) : Prop :=
  match g with
  | 0 => 1 <= fst da
  | 1 => 2 <= snd da /\ snd da < fst da
  | 2 => 2 <= fst da
  | _ => False
  end.

Lemma reads_revealing g da : revealing g da ->
  gcall (reads g da) = g /\ (g = 0 -> snd (reads g da) = 0) /\ (1 <= g -> 2 <= snd (reads g da)).
Proof.
  destruct da as [d a]. destruct g as [|[|[|g]]]; cbn [revealing reads fst snd]; intros H.
  - destruct d; [lia|]. cbn. repeat split; lia.
  - destruct H as [H1 H2]. destruct (d - a) eqn:E; [lia|]. destruct a; [lia|]. cbn. repeat split; lia.
  - destruct d; [lia|]. cbn. repeat split; lia.
  - destruct H.
Qed.

Lemma pop_reads_revealing : forall pt ds, Forall2 revealing pt ds ->
  map gcall (pop_reads pt ds) = pt /\
  (list_sum pt = 0 -> list_sum (map snd (pop_reads pt ds)) = 0) /\
  (1 <= list_sum pt -> 2 <= list_sum (map snd (pop_reads pt ds))).
Proof.
  induction 1 as [|g da pt ds H _ (I1 & I2 & I3)]; [cbn; repeat split; lia|].
  unfold pop_reads in *. cbn [combine map fst snd]. rewrite !list_sum_cons.
  destruct (reads_revealing g da H) as (R1 & R2 & R3). rewrite R1, I1. repeat split.
  - intros Z. rewrite R2, I2 by lia. reflexivity.
  - intros Z. destruct g; [rewrite R2 by reflexivity; apply I3; lia | specialize (R3 ltac:(lia)); lia].
Qed.

Definition tot_af (part : list (list nat)) : nat := list_sum (map (@list_sum) part).

Lemma locus_revealing : forall part loc, Forall2 (Forall2 revealing) part loc ->
  locus_calls (locus_reads part loc) = part /\
  (tot_af part = 0 -> t_alt (locus_reads part loc) = 0) /\
  (1 <= tot_af part -> 2 <= t_alt (locus_reads part loc)).
Proof.
  unfold tot_af, t_alt, locus_calls, locus_reads.
  induction 1 as [|pt ds part loc H _ (I1 & I2 & I3)]; [cbn; repeat split; lia|].
  cbn [combine map fst snd]. rewrite !list_sum_cons.
  destruct (pop_reads_revealing pt ds H) as (R1 & R2 & R3). rewrite R1, I1. repeat split.
  - intros Z. rewrite R2, I2 by lia. reflexivity.
  - intros Z. destruct (list_sum pt) eqn:E; [rewrite R2 by reflexivity; apply I3; lia | specialize (R3 ltac:(lia)); lia].
Qed.

Lemma filter_all {A} (f : A -> bool) l : (forall x, In x l -> f x = true) -> filter f l = l.
Proof.
  induction l as [|x l IH]; intros H; [reflexivity|]. cbn [filter]. rewrite (H x (or_introl eq_refl)), IH; [reflexivity|].
  intros; apply H; now right.
Qed.
Lemma filter_none {A} (f : A -> bool) l : (forall x, In x l -> f x = false) -> filter f l = [].
Proof.
  induction l as [|x l IH]; intros H; [reflexivity|]. cbn [filter]. rewrite (H x (or_introl eq_refl)), IH; [reflexivity|].
  intros; apply H; now right.
Qed.

Lemma ncalled_le2 pt : Forall (fun g => g <= 2) pt -> ncalled pt = length pt.
Proof.
  intros H. unfold ncalled. rewrite filter_all; [reflexivity|]. rewrite Forall_forall in H. intros g Hg. specialize (H g Hg).
  apply negb_true_iff, Nat.eqb_neq. unfold nocall. lia.
Qed.

Lemma sort_row_sorted_id pt : StronglySorted le pt -> sort_row pt = pt.
Proof.
  induction 1 as [|x pt S IH Hx]; [reflexivity|]. cbn [sort_row fold_right]. fold (sort_row pt). rewrite IH.
  destruct pt as [|y pt]; [reflexivity|]. cbn [insert_sorted]. inversion Hx; subst.
  destruct (Nat.leb_spec x y); [reflexivity|lia].
Qed.

Lemma flat_map_nil {A B} (f : A -> list B) l : (forall x, In x l -> f x = []) -> flat_map f l = [].
Proof. induction l as [|x l IH]; intros H; [reflexivity|]. cbn [flat_map]. rewrite (H x (or_introl eq_refl)), IH; [reflexivity|]. intros; apply H; now right. Qed.

Lemma reorder_id N k rows : (forall r, In r rows -> ncalled r = N) -> k <= N -> reorder N k rows = rows.
Proof.
  intros H Hk. unfold reorder. replace (N + 1 - k) with (S (N - k)) by lia. rewrite seq_S, flat_map_app.
  rewrite flat_map_nil.
  - cbn [flat_map app]. rewrite app_nil_r. replace (k + (N - k)) with N by lia.
    apply filter_all. intros r Hr. apply Nat.eqb_eq, H, Hr.
  - intros c Hc. apply in_seq in Hc. apply filter_none. intros r Hr. apply Nat.eqb_neq. rewrite (H r Hr). lia.
Qed.

Lemma sub_row_true_genotypes pt sel : StronglySorted le pt -> Forall (fun g => g <= 2) pt ->
  list_sum (sub_row pt sel) = sub_sum pt sel.
Proof.
  intros S L. unfold sub_row, sub_sum. cbv zeta. now rewrite sort_row_sorted_id, ncalled_le2, firstn_all by assumption.
Qed.

(** ** one aggregate partition at deep coverage *)
Definition pop_deep (pd : pdraw) (i : nat) (p : spop) : Prop :=
  let pt := nth i (pd_part pd) [] in
  StronglySorted le pt /\ Forall (fun g => g <= 2) pt /\ length pt = sp_nseq p / 2 /\ sp_nsub p <= sp_nseq p /\
  (sp_nsub p <> sp_nseq p -> length (nth i (pd_sel pd) []) = length (pd_loci pd)).

Definition deep_pd (pops : list spop) (pd : pdraw) : Prop :=
  length (pd_part pd) = length pops /\
  (forall i p, nth_error pops i = Some p -> pop_deep pd i p) /\
  Forall (fun loc => Forall2 (Forall2 revealing) (pd_part pd) loc) (pd_loci pd).

(** the row of called_freqs of locus [m]: true allele count, or the allele count of the chosen individuals *)
Fixpoint deep_vec (i : nat) (pops : list spop) (part : list (list nat)) (sels : list (list (list nat))) (m : nat) : list nat :=
  match pops with
  | [] => []
  | p :: pops' =>
      (if sp_nsub p =? sp_nseq p then list_sum (nth i part []) else sub_sum (nth i part []) (nth m (nth i sels []) []))
      :: deep_vec (S i) pops' part sels m
  end.

Lemma enough_calls_part : forall pops part, length part = length pops ->
  (forall i p, nth_error pops i = Some p -> let pt := nth i part [] in
        Forall (fun g => g <= 2) pt /\ length pt = sp_nseq p / 2 /\ sp_nsub p <= sp_nseq p) ->
  enough_calls pops part = true.
Proof.
  unfold enough_calls. induction pops as [|p pops IH]; intros [|pt part] L H; try discriminate; [reflexivity|].
  cbn [combine forallb fst snd]. apply andb_true_iff. split.
  - destruct (H 0 p eq_refl) as (A & B & C). cbn [nth] in *. apply Nat.leb_le. rewrite ncalled_le2, B by assumption.
    apply Nat.div_le_mono; lia.
  - apply IH; [cbn in L; lia|]. intros i q Hq. apply (H (S i) q Hq).
Qed.

Lemma map_const_nth {A B} (x : B) (l : list A) m d : m < length l -> nth m (map (fun _ => x) l) d = x.
Proof. revert m. induction l as [|a l IH]; intros [|m] H; cbn in *; try lia; [reflexivity | apply IH; lia]. Qed.

Lemma combine_const_map {A B C} (x : A) (l : list B) (s : list C) : length s = length l ->
  combine (map (fun _ => x) l) s = map (fun y => (x, y)) s.
Proof.
  revert s. induction l as [|a l IH]; intros [|y s] H; try discriminate; [reflexivity|]. cbn [map combine]. rewrite IH by (cbn in H; lia). reflexivity.
Qed.

Lemma pops_sums_deep pops pd : deep_pd pops pd -> forall m, m < length (pd_loci pd) ->
  forall pre rest, pops = pre ++ rest ->
  map (fun s => nth m s 0) (pops_sums (length pre) rest (map (fun _ => pd_part pd) (pd_loci pd)) (pd_sel pd))
  = deep_vec (length pre) rest (pd_part pd) (pd_sel pd) m.
Proof.
  intros (LP & HP & _) m Hm pre rest. revert pre. induction rest as [|p rest IH]; intros pre E; [reflexivity|].
  cbn [pops_sums deep_vec map]. f_equal.
  - assert (Hp : nth_error pops (length pre) = Some p) by (subst pops; rewrite nth_error_app2, Nat.sub_diag by lia; reflexivity).
    destruct (HP _ _ Hp) as (S & L2 & Len & Le & Ls). cbv zeta in *.
    set (pt := nth (length pre) (pd_part pd) []) in *.
    rewrite map_map. cbv beta. fold pt. unfold pop_sums.
    destruct (Nat.eqb_spec (sp_nsub p) (sp_nseq p)) as [Q|Q].
    + rewrite map_map. apply map_const_nth. exact Hm.
    + specialize (Ls Q). unfold subsample_1D. rewrite reorder_id.
      * rewrite combine_const_map by exact Ls. rewrite !map_map. cbn [fst snd].
        rewrite (map_ext _ (sub_sum pt)) by (intros; apply sub_row_true_genotypes; assumption).
        change 0 with (sub_sum pt []). apply map_nth.
      * intros r Hr. apply in_map_iff in Hr. destruct Hr as (? & <- & _). rewrite ncalled_le2, Len by assumption. reflexivity.
      * apply Nat.div_le_mono; lia.
  - replace (S (length pre)) with (length (pre ++ [p])) by (rewrite app_length; cbn; lia).
    apply IH. rewrite <- app_assoc. exact E.
Qed.

Lemma list_sum_zero_all l : list_sum l = 0 -> forall x, In x l -> x = 0.
Proof. induction l as [|a l IH]; intros H x Hx; [destruct Hx|]. rewrite list_sum_cons in H. destruct Hx as [<-|Hx]; [lia | apply IH; [lia|exact Hx]]. Qed.

Lemma sub_sum_zero pt sel : list_sum pt = 0 -> sub_sum pt sel = 0.
Proof.
  intros Z. unfold sub_sum. induction sel as [|i sel IH]; [reflexivity|]. cbn [map]. rewrite list_sum_cons, IH.
  destruct (Nat.lt_ge_cases i (length pt)) as [L|L]; [|now rewrite nth_overflow].
  rewrite (list_sum_zero_all pt Z _ (nth_In pt 0 L)). reflexivity.
Qed.

Lemma deep_vec_zero part sels m : tot_af part = 0 -> forall pops i, deep_vec i pops part sels m = repeat 0 (length pops).
Proof.
  intros Z. assert (P : forall i, list_sum (nth i part []) = 0).
  { intros i. destruct (nth_in_or_default i part []) as [I| ->]; [|reflexivity].
    apply (list_sum_zero_all _ Z). apply in_map, I. }
  induction pops as [|p pops IH]; intros i; [reflexivity|]. cbn [deep_vec length repeat]. rewrite IH. f_equal.
  destruct (sp_nsub p =? sp_nseq p); [apply P | apply sub_sum_zero, P].
Qed.

Lemma flat_index_zero pops : flat_index (sim_dims pops) (repeat 0 (length pops)) = Some 0.
Proof.
  induction pops as [|p pops IH]; [reflexivity|]. cbn [sim_dims map length repeat flat_index]. fold (sim_dims pops). rewrite IH.
  destruct (Nat.ltb_spec 0 (sp_nsub p + 1)); [reflexivity|lia].
Qed.

Lemma fold_bump_const dims v i0 : flat_index dims v = Some i0 ->
  forall {A} (l : list A) c, fold_left (bump_vec dims) (map (fun _ => v) l) c = bump i0 (length l) c.
Proof.
  intros E A. induction l as [|a l IH]; intros c; cbn [map fold_left length]; [now rewrite bump_zero|].
  rewrite IH. unfold bump_vec. rewrite E. clear. revert i0. induction c as [|x c IHc]; intros [|i]; cbn [bump]; try reflexivity.
  - f_equal. lia.
  - now rewrite IHc.
Qed.

(** the contribution of one aggregate partition to output_freqs at deep coverage: one count per locus at the row [deep_vec] *)
Theorem sim_partition_deep pops pd : deep_pd pops pd -> forall c,
  fold_left (bump_vec (sim_dims pops)) (snd (sim_partition pops pd)) (bump 0 (fst (sim_partition pops pd)) c)
  = fold_left (bump_vec (sim_dims pops)) (map (deep_vec 0 pops (pd_part pd) (pd_sel pd)) (seq 0 (length (pd_loci pd)))) c.
Proof.
  intros D c. pose proof D as (LP & HP & HL). rewrite Forall_forall in HL.
  unfold sim_partition, kept_calls. cbv zeta. cbn [fst snd].
  set (rs := map (locus_reads (pd_part pd)) (pd_loci pd)).
  destruct (Nat.eq_dec (tot_af (pd_part pd)) 0) as [Z|Z].
  - (* the allele is absent: every locus goes to entry 0 *)
    assert (F : filter (fun r => 2 <=? t_alt r) rs = []).
    { apply filter_none. intros r Hr. apply in_map_iff in Hr. destruct Hr as (loc & <- & Hloc).
      destruct (locus_revealing _ _ (HL loc Hloc)) as (_ & T & _). rewrite (T Z). reflexivity. }
    rewrite F. cbn [map filter length zipn seq fold_left]. unfold rs. rewrite map_length, !Nat.sub_0_r, Nat.add_0_r.
    rewrite (map_ext_in _ (fun _ => repeat 0 (length pops))) by (intros; now apply deep_vec_zero).
    rewrite (fold_bump_const _ _ 0 (flat_index_zero pops)), seq_length. reflexivity.
  - assert (F : filter (fun r => 2 <=? t_alt r) rs = rs).
    { apply filter_all. intros r Hr. apply in_map_iff in Hr. destruct Hr as (loc & <- & Hloc).
      destruct (locus_revealing _ _ (HL loc Hloc)) as (_ & _ & T). apply Nat.leb_le, T. lia. }
    rewrite F.
    assert (C : map locus_calls rs = map (fun _ => pd_part pd) (pd_loci pd)).
    { unfold rs. rewrite map_map. apply map_ext_in. intros loc Hloc. apply (locus_revealing _ _ (HL loc Hloc)). }
    rewrite C.
    assert (K : filter (enough_calls pops) (map (fun _ => pd_part pd) (pd_loci pd)) = map (fun _ => pd_part pd) (pd_loci pd)).
    { apply filter_all. intros x Hx. apply in_map_iff in Hx. destruct Hx as (? & <- & _).
      apply enough_calls_part; [exact LP|]. intros i p Hp. destruct (HP i p Hp) as (_ & A & B & C' & _). auto. }
    rewrite K. unfold rs. rewrite !map_length, !Nat.sub_diag. cbn [Nat.add]. rewrite bump_zero.
    f_equal. unfold zipn. apply map_ext_in. intros m Hm. apply in_seq in Hm.
    apply (pops_sums_deep pops pd D m ltac:(lia) [] pops eq_refl).
Qed.

(** all loci of all partitions, in the order the code handles them *)
Definition deep_rows (pops : list spop) (draws : list pdraw) : list (list nat) :=
  flat_map (fun pd => map (deep_vec 0 pops (pd_part pd) (pd_sel pd)) (seq 0 (length (pd_loci pd)))) draws.

Theorem sim_counts_deep pops draws : Forall (deep_pd pops) draws ->
  sim_counts pops draws = fold_left (bump_vec (sim_dims pops)) (deep_rows pops draws) (repeat 0 (sim_size pops)).
Proof.
  intros H. unfold sim_counts, deep_rows. generalize (repeat 0 (sim_size pops)).
  induction H as [|pd draws Hpd _ IH]; intros c; [reflexivity|].
  cbn [fold_left flat_map]. cbv zeta. rewrite (sim_partition_deep pops pd Hpd), IH, fold_left_app. reflexivity.
Qed.

(** ** no subsampling: the point mass at the true allele counts *)
Lemma map_nth_seq_gen {A B} (f : A -> B) (d : A) (l : list A) : map (fun k => f (nth k l d)) (seq 0 (length l)) = map f l.
Proof.
  induction l as [|a l IH]; [reflexivity|]. cbn [length]. rewrite <- cons_seq, <- seq_shift. cbn [map nth]. rewrite map_map. cbn [nth]. now rewrite IH.
Qed.

Lemma deep_vec_nosub part sels m : forall pops i, (forall p, In p pops -> sp_nsub p = sp_nseq p) ->
  deep_vec i pops part sels m = map (fun k => list_sum (nth k part [])) (seq i (length pops)).
Proof.
  induction pops as [|p pops IH]; intros i H; [reflexivity|]. cbn [deep_vec length seq map].
  rewrite (H p (or_introl eq_refl)), Nat.eqb_refl, IH by (intros; apply H; now right). reflexivity.
Qed.

Lemma bump_bump : forall c i a b, bump i a (bump i b c) = bump i (b + a) c.
Proof. induction c as [|x c IH]; intros [|i] a b; cbn [bump]; try reflexivity; [f_equal; lia | now rewrite IH]. Qed.

Lemma nth_bump : forall c i m j, nth j (bump i m c) 0 = if (j =? i) && (i <? length c) then nth j c 0 + m else nth j c 0.
Proof.
  induction c as [|x c IH]; intros i m j.
  - replace (i <? length (@nil nat)) with false by (symmetry; apply Nat.ltb_ge; cbn; lia). rewrite andb_false_r. destruct i; reflexivity.
  - destruct i as [|i]; cbn [bump length].
    + destruct j; cbn [nth Nat.eqb andb]; reflexivity.
    + destruct j as [|j]; cbn [nth]; [reflexivity|]. rewrite IH. cbn [Nat.eqb]. reflexivity.
Qed.

Lemma nth_map_default {A} (g : nat -> A) (d : A) c i : i < length c -> nth i (map g c) d = g (nth i c 0).
Proof. intros H. rewrite (nth_indep _ d (g 0)) by (now rewrite map_length). apply map_nth. Qed.

Theorem sim_counts_deep_nosub pops draws af i0 :
  Forall (deep_pd pops) draws -> (forall p, In p pops -> sp_nsub p = sp_nseq p) ->
  Forall (fun pd => map (@list_sum) (pd_part pd) = af) draws -> flat_index (sim_dims pops) af = Some i0 ->
  sim_counts pops draws = bump i0 (total_loci draws) (repeat 0 (sim_size pops)).
Proof.
  intros D NS AF I. rewrite (sim_counts_deep pops draws D). unfold deep_rows, total_loci. generalize (repeat 0 (sim_size pops)).
  induction D as [|pd draws Hpd _ IH]; intros c; [cbn; now rewrite bump_zero|].
  inversion AF as [|? ? A1 A2]; subst. cbn [flat_map map]. rewrite fold_left_app, list_sum_cons, IH by assumption.
  destruct Hpd as (LP & _ & _).
  rewrite (map_ext _ (fun _ => map (@list_sum) (pd_part pd))).
  - rewrite (fold_bump_const _ _ i0 I), seq_length. apply bump_bump.
  - intros m. rewrite deep_vec_nosub by exact NS. rewrite <- LP. apply map_nth_seq_gen.
Qed.

Local Open Scope Q_scope.

(** deep coverage without subsampling: the returned array is 1 at the true allele counts and 0 elsewhere, for every draw *)
Theorem simulate_deep_point_mass pops draws af i0 :
  Forall (deep_pd pops) draws -> (forall p, In p pops -> sp_nsub p = sp_nseq p) ->
  Forall (fun pd => map (@list_sum) (pd_part pd) = af) draws -> (0 < total_loci draws)%nat ->
  flat_index (sim_dims pops) af = Some i0 ->
  forall i, (i < sim_size pops)%nat -> nth i (simulate pops draws) 0 == if (i =? i0)%nat then 1 else 0.
Proof.
  intros D NS AF T I i Hi. unfold simulate. cbv zeta. rewrite (sim_counts_deep_nosub pops draws af i0 D NS AF I).
  pose proof (flat_index_lt _ _ _ I) as Li. fold (sim_size pops) in Li.
  assert (TP : 0 < qnat (total_loci draws)) by (apply qnat_pos; exact T).
  rewrite bump_sum by (now rewrite repeat_length).
  assert (Z : forall n, list_sum (repeat 0%nat n) = 0%nat) by (induction n; [reflexivity|]; cbn [repeat]; rewrite list_sum_cons; lia).
  rewrite Z, Nat.add_0_l.
  rewrite nth_map_default by (now rewrite bump_length, repeat_length).
  rewrite Qred_correct, nth_bump, repeat_length, nth_repeat.
  destruct (Nat.ltb_spec i0 (sim_size pops)); [|lia]. rewrite andb_true_r.
  destruct (i =? i0)%nat; [cbn [Nat.add]; field; lra | unfold Qdiv; rewrite qnat_0; ring].
Qed.

(** ** one subsampled population: the returned row is the frequency of the chosen allele counts *)
Local Open Scope nat_scope.

Definition deep_pts (draws : list pdraw) : list (list nat) :=
  flat_map (fun pd => map (fun _ => nth 0 (pd_part pd) []) (pd_loci pd)) draws.
Definition deep_sels (draws : list pdraw) : list (list nat) := flat_map (fun pd => nth 0 (pd_sel pd) []) draws.

Lemma hist_1d B : forall xs c j, length c = B -> j < B ->
  nth j (fold_left (bump_vec [B]) (map (fun x => [x]) xs) c) 0 = nth j c 0 + cnt j xs.
Proof.
  induction xs as [|x xs IH]; intros c j L Hj; cbn [map fold_left]; [cbn; lia|].
  rewrite IH; [|now rewrite bump_vec_length | exact Hj]. rewrite cnt_cons.
  unfold bump_vec. cbn [flat_index]. destruct (Nat.ltb_spec x B) as [Hx|Hx].
  - rewrite nth_bump, L. replace (x * fold_right Nat.mul 1 [] + 0) with x by (cbn; lia). pose proof Hx as Hx'. apply Nat.ltb_lt in Hx'. rewrite Hx', andb_true_r.
    destruct (Nat.eqb_spec j x); destruct (Nat.eq_dec x j); try lia.
  - destruct (Nat.eq_dec x j); lia.
Qed.

Lemma combine_app {A B} : forall (a1 a2 : list A) (b1 b2 : list B), length a1 = length b1 ->
  combine (a1 ++ a2) (b1 ++ b2) = combine a1 b1 ++ combine a2 b2.
Proof. induction a1 as [|x a1 IH]; intros a2 [|y b1] b2 H; try discriminate; [reflexivity|]. cbn. f_equal. apply IH. cbn in H; lia. Qed.

Lemma deep_rows_one_pop p draws : Forall (deep_pd [p]) draws -> sp_nsub p <> sp_nseq p ->
  deep_rows [p] draws = map (fun x => [x]) (map (fun q => sub_sum (fst q) (snd q)) (combine (deep_pts draws) (deep_sels draws)))
  /\ length (deep_pts draws) = total_loci draws /\ length (deep_sels draws) = total_loci draws.
Proof.
  intros D NS. unfold deep_rows, deep_pts, deep_sels, total_loci.
  induction D as [|pd draws Hpd _ (I1 & I2 & I3)]; [repeat split; reflexivity|].
  cbn [flat_map map]. rewrite list_sum_cons, !app_length, map_length.
  destruct Hpd as (_ & HP & _). destruct (HP 0 p eq_refl) as (_ & _ & _ & _ & Ls). specialize (Ls NS). cbv zeta in Ls.
  split; [|split; lia].
  rewrite combine_app by (now rewrite map_length). rewrite !map_app, I1. f_equal.
  rewrite combine_const_map by exact Ls. rewrite !map_map. cbn [fst snd deep_vec].
  destruct (Nat.eqb_spec (sp_nsub p) (sp_nseq p)); [contradiction|].
  rewrite <- Ls. rewrite <- (map_nth_seq_gen (fun sel => [sub_sum (nth 0 (pd_part pd) []) sel]) [] (nth 0 (pd_sel pd) [])). reflexivity.
Qed.

Local Open Scope Q_scope.


Lemma sim_size_one p : sim_size [p] = (sp_nsub p + 1)%nat.
Proof. unfold sim_size, sim_dims. cbn [map fold_right]. lia. Qed.

Theorem simulate_deep_one_pop p draws : Forall (deep_pd [p]) draws -> Forall (draw_ok [p]) draws ->
  sp_nsub p <> sp_nseq p -> (0 < total_loci draws)%nat ->
  forall j, (j <= sp_nsub p)%nat -> nth j (simulate [p] draws) 0 == freq_of j (deep_pts draws) (deep_sels draws).
Proof.
  intros D OK NS T j Hj. unfold simulate, freq_of. cbv zeta.
  destruct (sim_counts_total [p] draws OK) as [L S]. rewrite S.
  destruct (deep_rows_one_pop p draws D NS) as (R & LP & _). rewrite LP.
  rewrite sim_size_one in L.
  rewrite nth_map_default by lia. rewrite Qred_correct.
  rewrite (sim_counts_deep [p] draws D), R, sim_size_one.
  change (sim_dims [p]) with [(sp_nsub p + 1)%nat].
  rewrite hist_1d by (rewrite ?repeat_length; lia).
  rewrite nth_repeat. reflexivity.
Qed.

Lemma deep_pts_length draws : length (deep_pts draws) = total_loci draws.
Proof.
  unfold deep_pts, total_loci. induction draws as [|pd draws IH]; [reflexivity|].
  cbn [flat_map map]. rewrite app_length, map_length, list_sum_cons, IH. reflexivity.
Qed.

Lemma qsum_deep_pts (f : list nat -> Q) draws :
  qsum (map f (deep_pts draws)) == qsum (map (fun pd => qnat (length (pd_loci pd)) * f (nth 0%nat (pd_part pd) [])) draws).
Proof.
  unfold deep_pts. induction draws as [|pd draws IH]; [reflexivity|].
  cbn [flat_map map]. rewrite map_app, qsum_app, qsum_cons, IH, map_map, qsum_const. reflexivity.
Qed.

(** its expectation when every locus chooses independently and uniformly: the locus-weighted mean of projection_inbreeding *)
Theorem deep_one_pop_expected_row p draws j : Forall (deep_pd [p]) draws -> (0 < total_loci draws)%nat -> (j <= sp_nsub p)%nat ->
  mean_freq j (sp_nsub p) (deep_pts draws)
  == qsum (map (fun pd => qnat (length (pd_loci pd)) * nth j (proj_inb (nth 0%nat (pd_part pd) []) (sp_nsub p)) 0) draws)
     / qnat (total_loci draws).
Proof.
  intros D T Hj. rewrite mean_freq_is_mean_of_proj_inb.
  - rewrite deep_pts_length, (qsum_deep_pts (fun pt => nth j (proj_inb pt (sp_nsub p)) 0)). reflexivity.
  - intros E. pose proof (deep_pts_length draws) as L. rewrite E in L. cbn in L. lia.
  - exact Hj.
  - unfold deep_pts. rewrite Forall_forall. intros pt Hpt. apply in_flat_map in Hpt. destruct Hpt as (pd & Hpd & Hpt).
    apply in_map_iff in Hpt. destruct Hpt as (? & <- & _). rewrite Forall_forall in D. destruct (D pd Hpd) as (_ & HP & _).
    destruct (HP 0%nat p eq_refl) as (_ & _ & Len & Le & _). cbv zeta in Len. rewrite Len. apply Nat.div_le_mono; lia.
Qed.

(** entry j of a mixture accumulated with vadd / vscale *)
Lemma nth_vadd : forall a b j, (j < length a)%nat -> length a = length b -> nth j (vadd a b) 0 == nth j a 0 + nth j b 0.
Proof.
  unfold vadd. induction a as [|x a IH]; intros [|y b] j Hj L; cbn [length] in *; try lia.
  cbn [combine map fst snd]. destruct j as [|j]; cbn [nth]; [apply Qred_correct | apply IH; lia].
Qed.

Lemma nth_vscale c : forall a j, nth j (vscale c a) 0 == c * nth j a 0.
Proof.
  unfold vscale. induction a as [|x a IH]; intros [|j]; cbn [map nth]; try ring. apply IH.
Qed.

Lemma nth_mixture_fold {A} (len : nat) (vec : A -> list Q) j : (j < len)%nat ->
  forall (l : list (A * Q)) acc, length acc = len -> (forall pp, In pp l -> length (vec (fst pp)) = len) ->
  nth j (fold_left (fun acc pp => vadd acc (vscale (snd pp) (vec (fst pp)))) l acc) 0
  == nth j acc 0 + qsum (map (fun pp => snd pp * nth j (vec (fst pp)) 0) l).
Proof.
  intros Hj. induction l as [|pp l IH]; intros acc L H; cbn [fold_left map]; [rewrite qsum_nil; ring|].
  assert (L' : length acc = length (vscale (snd pp) (vec (fst pp)))) by (rewrite vscale_length, H; [exact L | now left]).
  rewrite IH; [|rewrite vadd_length; assumption | intros; apply H; now right].
  pose proof (nth_vadd acc (vscale (snd pp) (vec (fst pp))) j ltac:(rewrite L; exact Hj) L') as E.
  rewrite E, nth_vscale, qsum_cons. ring.
Qed.

Lemma nth_proj_row_inb nseq nsub F jj j : (j <= nsub)%nat ->
  nth j (proj_row_inb nseq nsub F jj) 0
  == qsum (map (fun pp => snd pp * nth j (proj_inb (fst pp) nsub) 0) (combine (parts nseq jj) (part_probs F (parts nseq jj)))).
Proof.
  intros Hj. unfold proj_row_inb. cbv zeta.
  rewrite (nth_mixture_fold (nsub + 1) (fun pt => proj_inb pt nsub) j ltac:(lia)).
  - rewrite nth_repeat. ring.
  - apply repeat_length.
  - intros pp _. unfold proj_inb. now rewrite map_length, seq_length.
Qed.

(** THE EXPECTATION STATEMENT.  One population, allele count [jj], n_subsampling < n_sequenced, deep coverage (the reads
    reveal every genotype), the aggregate partitions are those of the allele count, and the numbers of loci are
    proportional to the partition probabilities (the code takes int(nsim * probability)).  Averaged over all choices of
    n_subsampling/2 individuals per locus -- every subset with the same weight, independently per locus -- entry j of
    the array simulate_GATK_multisample_calling returns is entry j of the projection_matrix row. *)
Theorem deep_simulated_row_expectation_is_projection_row nseq nsub F jj draws j :
  let p := {| sp_nseq := nseq; sp_nsub := nsub |} in
  Forall (deep_pd [p]) draws -> (0 < total_loci draws)%nat -> (j <= nsub)%nat ->
  map (fun pd => nth 0%nat (pd_part pd) []) draws = parts nseq jj ->
  Forall2 (fun pd pr => qnat (length (pd_loci pd)) == qnat (total_loci draws) * pr) draws (part_probs F (parts nseq jj)) ->
  mean_freq j nsub (deep_pts draws) == nth j (proj_row_inb nseq nsub F jj) 0.
Proof.
  intros p D T Hj HP HW. pose proof (deep_one_pop_expected_row p draws j D T Hj) as E0. subst p. cbn [sp_nsub] in E0.
  rewrite E0, nth_proj_row_inb by exact Hj.
  assert (TP : 0 < qnat (total_loci draws)) by (apply qnat_pos; exact T).
  set (g := fun pt => nth j (proj_inb pt nsub) 0).
  assert (E : qsum (map (fun pd => qnat (length (pd_loci pd)) * g (nth 0%nat (pd_part pd) [])) draws)
              == qnat (total_loci draws) * qsum (map (fun pp => snd pp * g (fst pp))
                   (combine (map (fun pd => nth 0%nat (pd_part pd) []) draws) (part_probs F (parts nseq jj))))).
  { generalize (qnat (total_loci draws)) as TT, HW. intros TT. clear. generalize (part_probs F (parts nseq jj)).
    intros probs HW. induction HW as [|pd pr draws probs H _ IH]; [cbn; ring|].
    cbn [map combine fst snd]. rewrite !qsum_cons, IH, H. cbn [fst snd]. ring. }
  unfold g in E. rewrite HP in E. rewrite E. field. lra.
Qed.
