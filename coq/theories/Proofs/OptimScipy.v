(** The scipy wrappers (one generic theorem over the configuration table), optimize_grid, the scripted optimiser. *)
From Coq Require Import ZArith Reals List Bool Lra Lia.
From Dadi Require Import Base.Num Base.NumR Model.Optim Proofs.OptimProject Proofs.OptimProofs Proofs.OptimBox.
Import ListNotations.
Local Open Scope R_scope.

(** pre- and post-processing agree with the objective about the coordinates the optimiser works in *)
Definition coherent (cfg : wcfg) : Prop := wc_start_log cfg = wc_obj_log cfg /\ wc_ret_exp cfg = wc_obj_log cfg.
Definition eff_scale (cfg : wcfg) (s : R) : R := if wc_ll_scale cfg then s else 1.
Definition obj_bound (cfg : wcfg) (b : bounds (F:=R)) : bounds (F:=R) := if wc_obj_bounds cfg then b else None.

Section Scipy.
  Variable ll_multinom ll_plain : list R -> option R.
  Notation G := (ll_guard ll_multinom ll_plain).
  Notation PEN := (IZR (-100000000)).
  Notation OBJ := (scipy_objective ll_multinom ll_plain).

  Lemma scipy_objective_cases cfg lower upper multinom fixed s x :
    let pu := project_up 0 (tr (wc_obj_log cfg) x) fixed in
    let s' := eff_scale cfg s in
    (in_bounds (obj_bound cfg lower) (obj_bound cfg upper) pu = false /\ OBJ cfg lower upper multinom fixed s x = (- PEN / s', []))
    \/ (in_bounds (obj_bound cfg lower) (obj_bound cfg upper) pu = true /\ OBJ cfg lower upper multinom fixed s x = (- G multinom pu / s', [pu])).
  Proof.
    cbv zeta. unfold scipy_objective, eff_scale, obj_bound, tr. numR.
    apply (object_func_cases ll_multinom ll_plain).
  Qed.

  Lemma scipy_inv cfg (O : optimiser R) p0 lower upper fixed multinom s w :
    scipy_wrapper ll_multinom ll_plain cfg O p0 lower upper fixed multinom s = Some w ->
    exists lo hi d0,
      oracle_bounds (wc_oracle_bounds cfg) to_lo lower (length p0) fixed = Some lo /\
      oracle_bounds (wc_oracle_bounds cfg) to_hi upper (length p0) fixed = Some hi /\
      project_down p0 fixed = Some d0 /\
      let obj := OBJ cfg lower upper multinom fixed s in
      let st := if wc_start_log cfg then map ln d0 else d0 in
      let r := O lo hi st (fun x => fst (obj x)) in
      w_lo w = lo /\ w_hi w = hi /\ w_start w = st /\ w_oracle w = r /\ w_f w = o_f r /\
      w_x w = project_up 0 (if wc_ret_exp cfg then map exp (o_x r) else o_x r) fixed /\
      w_evals w = flat_map (fun x => snd (obj x)) (o_trace r).
  Proof.
    unfold scipy_wrapper, bind. intros Hw.
    destruct (oracle_bounds _ to_lo _ _ _) as [lo|]; try discriminate.
    destruct (oracle_bounds _ to_hi _ _ _) as [hi|]; try discriminate.
    destruct (project_down p0 fixed) as [d0|]; try discriminate.
    exists lo, hi, d0. inv Hw. cbn. numR. repeat split; reflexivity.
  Qed.

  (** the property clauses for one call of a coherent scipy wrapper, under the oracle contract (minimiser) *)
  Theorem scipy_contract cfg (O : optimiser R) p0 lower upper fixed multinom s w d0 :
    coherent cfg ->
    scipy_wrapper ll_multinom ll_plain cfg O p0 lower upper fixed multinom s = Some w ->
    project_down p0 fixed = Some d0 ->
    (wc_obj_log cfg = true -> positive d0) ->
    0 < eff_scale cfg s ->
    (* the start passes the bound test of _object_func and is better than the out-of-bounds penalty *)
    in_bounds (obj_bound cfg lower) (obj_bound cfg upper) (subst_fixed p0 fixed) = true ->
    (wc_obj_bounds cfg = true -> PEN < G multinom (subst_fixed p0 fixed)) ->
    contract false (w_lo w) (w_hi w) (w_start w) (fun x => fst (OBJ cfg lower upper multinom fixed s x)) (w_oracle w) ->
    agrees (w_x w) fixed /\
    in_bounds (obj_bound cfg lower) (obj_bound cfg upper) (w_x w) = true /\
    w_f w = - G multinom (w_x w) / eff_scale cfg s /\
    w_f w <= - G multinom (subst_fixed p0 fixed) / eff_scale cfg s /\
    hd_error (w_evals w) = Some (subst_fixed p0 fixed) /\
    (exists xf, w_x w = project_up 0 (tr (wc_obj_log cfg) xf) fixed /\ box_ok (w_lo w) (w_hi w) xf = true /\ length xf = length d0).
  Proof.
    intros [Cs Cr] Hw Hd Hpos Hs Hin0 Hpen Hc.
    destruct (scipy_inv _ _ _ _ _ _ _ _ _ Hw) as (lo & hi & d0' & Hlo & Hhi & Hd' & Hrest).
    rewrite Hd in Hd'. injection Hd' as <-. cbv zeta in Hrest.
    destruct Hrest as (Elo & Ehi & Est & Eor & Ef & Ex & Eev).
    destruct Hc as (Hhd & Hbox & Hinx & Hval & Hbest).
    set (r := w_oracle w) in *. set (lg := wc_obj_log cfg) in *. set (s' := eff_scale cfg s) in *.
    assert (Hst : tr lg (w_start w) = d0).
    { rewrite Est, Cs. fold lg. unfold tr. destruct lg; auto. apply map_exp_ln; auto. }
    assert (Hx : w_x w = project_up 0 (tr lg (o_x r)) fixed).
    { rewrite Ex, Cr, <- Eor. reflexivity. }
    assert (Hup0 : project_up 0 d0 fixed = subst_fixed p0 fixed) by (apply up_down_inverse; auto).
    (* value and evaluations at the start *)
    assert (Hobj0 : OBJ cfg lower upper multinom fixed s (w_start w)
                    = (- G multinom (subst_fixed p0 fixed) / s', [subst_fixed p0 fixed])).
    { destruct (scipy_objective_cases cfg lower upper multinom fixed s (w_start w)) as [[Hb _]|[_ E]].
      - fold lg in Hb. rewrite Hst, Hup0, Hin0 in Hb. discriminate.
      - fold lg in E. rewrite Hst, Hup0 in E. exact E. }
    destruct (o_trace r) as [|x0 t] eqn:Et; try discriminate. cbn in Hhd. injection Hhd as Hx0.
    assert (Hle0 : o_f r <= - G multinom (subst_fixed p0 fixed) / s').
    { inversion Hbest as [|? ? H1 _]. rewrite Hx0, Hobj0 in H1. exact H1. }
    (* the returned point cannot be a penalised one *)
    assert (Hret : in_bounds (obj_bound cfg lower) (obj_bound cfg upper) (w_x w) = true /\
                   o_f r = - G multinom (w_x w) / s').
    { rewrite Hval.
      destruct (scipy_objective_cases cfg lower upper multinom fixed s (o_x r)) as [[Hb E]|[Hb E]];
        fold lg in Hb; rewrite <- Hx in Hb.
      - exfalso. rewrite Hval, E in Hle0. cbn [fst] in Hle0. fold s' in Hle0.
        destruct (wc_obj_bounds cfg) eqn:Eb.
        + specialize (Hpen eq_refl). unfold Rdiv in Hle0.
          assert (0 < / s') by (apply Rinv_0_lt_compat; auto). nra.
        + unfold obj_bound in Hb. rewrite Eb in Hb. discriminate.
      - fold lg in E. rewrite <- Hx in E. rewrite E. auto. }
    destruct Hret as [Hinb Hof].
    repeat split.
    - rewrite Hx. apply project_up_agrees.
    - exact Hinb.
    - rewrite Ef, <- Eor. exact Hof.
    - rewrite Ef, <- Eor. exact Hle0.
    - rewrite Eev, <- Eor. fold r. rewrite Et.
      eapply hd_flat_map; [reflexivity|]. rewrite Hx0, Hobj0. reflexivity.
    - exists (o_x r). split; auto. rewrite Forall_forall in Hbox. destruct (Hbox _ Hinx) as [Hb Hl]. split; auto.
      rewrite Hl, Est. destruct (wc_start_log cfg); auto. apply map_length.
  Qed.

  (** optimize_cons and the repaired optimize_lbfgsb hand the projected bounds to the optimiser: under the contract the
      free entries of the result are within the user's bounds *)
  Theorem scipy_plain_free_within cfg (O : optimiser R) p0 lower upper fx multinom s w d0 :
    coherent cfg -> wc_oracle_bounds cfg = BPlain -> wc_obj_log cfg = false -> wc_obj_bounds cfg = false ->
    scipy_wrapper ll_multinom ll_plain cfg O p0 lower upper (Some fx) multinom s = Some w ->
    project_down p0 (Some fx) = Some d0 ->
    0 < eff_scale cfg s ->
    contract false (w_lo w) (w_hi w) (w_start w) (fun x => fst (OBJ cfg lower upper multinom (Some fx) s x)) (w_oracle w) ->
    free_within fx (dflt_bounds lower (length p0)) (dflt_bounds upper (length p0)) (w_x w).
  Proof.
    intros Hco Hm Hlg Hob Hw Hd Hs Hc.
    assert (Hin0 : in_bounds (obj_bound cfg lower) (obj_bound cfg upper) (subst_fixed p0 (Some fx)) = true)
      by (unfold obj_bound; rewrite Hob; reflexivity).
    destruct (scipy_contract cfg O p0 lower upper (Some fx) multinom s w d0 Hco Hw Hd) as (_ & _ & _ & _ & _ & (xf & Hx & Hb & Hlen)); auto.
    { rewrite Hlg; discriminate. } { rewrite Hob; discriminate. }
    destruct (scipy_inv _ _ _ _ _ _ _ _ _ Hw) as (lo & hi & d0' & Hlo & Hhi & Hd' & Hrest).
    cbv zeta in Hrest. destruct Hrest as (Elo & Ehi & _).
    rewrite Hd in Hd'. injection Hd' as <-.
    rewrite Hm in Hlo, Hhi. unfold oracle_bounds in Hlo, Hhi. fold (dflt_bounds lower (length p0)) in Hlo. fold (dflt_bounds upper (length p0)) in Hhi.
    destruct (project_down (dflt_bounds lower (length p0)) (Some fx)) as [lo0|] eqn:El; try discriminate.
    destruct (project_down (dflt_bounds upper (length p0)) (Some fx)) as [hi0|] eqn:Eu; try discriminate.
    cbn in Hlo, Hhi. injection Hlo as <-. injection Hhi as <-.
    pose proof (project_down_some_length _ _ _ El) as Ll.
    pose proof (project_down_some_length _ _ _ Eu) as Lu.
    pose proof (project_down_length _ _ _ Hd) as Ld. cbn in Ld.
    cbn in El, Eu. rewrite Ll, Nat.eqb_refl in El. rewrite Lu, Nat.eqb_refl in Eu.
    injection El as <-. injection Eu as <-.
    rewrite Hx, Hlg. cbn [tr project_up]. rewrite Elo, Ehi in Hb.
    apply box_free_within; auto. congruence.
  Qed.

  (** ** optimize_grid *)
  Definition grid_contract (grid : list (list R)) (f : list R -> R) (r : oresult R) : Prop :=
    o_trace r = grid /\ In (o_x r) grid /\ o_f r = f (o_x r) /\ Forall (fun x => o_f r <= f x) grid.

  Lemma grid_objective_spec multinom fixed x :
    grid_objective ll_multinom ll_plain multinom fixed x
    = (- G multinom (project_up 0 x fixed), [project_up 0 x fixed]).
  Proof.
    unfold grid_objective. numR.
    destruct (object_func_cases ll_multinom ll_plain x None None multinom fixed 1) as [[Hb _]|[_ ->]].
    - discriminate.
    - f_equal. field.
  Qed.

  Theorem grid_contract_thm repaired (O : grid_optimiser R) grid fixed multinom full w :
    optimize_grid_gen ll_multinom ll_plain repaired O grid fixed multinom full = Some w ->
    grid_contract grid (fun x => fst (grid_objective ll_multinom ll_plain multinom fixed x)) (w_oracle w) ->
    agrees (w_x w) fixed /\
    In (w_x w) (map (fun x => project_up 0 x fixed) grid) /\
    w_f w = - G multinom (w_x w) /\
    w_evals w = map (fun x => project_up 0 x fixed) grid /\
    Forall (fun e => G multinom e <= G multinom (w_x w)) (w_evals w).
  Proof.
    unfold optimize_grid_gen. destruct (negb repaired && full && _); try discriminate.
    intros Hw Hc. injection Hw as <-. cbn [w_x w_f w_evals w_oracle] in *.
    destruct Hc as (Ht & Hin & Hval & Hbest).
    set (r := O grid _) in *.
    assert (Hev : flat_map (fun x => snd (grid_objective ll_multinom ll_plain multinom fixed x)) (o_trace r)
                  = map (fun x => project_up 0 x fixed) grid).
    { rewrite Ht. clear. induction grid; cbn; auto; try (rewrite grid_objective_spec; cbn; f_equal; auto). }
    repeat split.
    - apply project_up_agrees.
    - apply (in_map (fun x => project_up 0 x fixed)); auto.
    - rewrite Hval, grid_objective_spec. reflexivity.
    - exact Hev.
    - match goal with |- Forall _ ?l => replace l with (map (fun x => project_up 0 x fixed) grid) by (symmetry; exact Hev) end.
      apply Forall_forall. intros e He. apply in_map_iff in He as (x & <- & Hx).
      rewrite Forall_forall in Hbest. specialize (Hbest x Hx). rewrite Hval, !grid_objective_spec in Hbest. cbn [fst] in Hbest. lra.
  Qed.
End Scipy.

(** ** the scripted optimiser honours the contract whenever its script stays in the box *)
Definition better (maximize : bool) (v best : R) : Prop := if maximize then v <= best else best <= v.

Lemma argbest_spec maximize (f : list R -> R) l : forall best,
  let r := argbest maximize f best (f best) l in
  In r (best :: l) /\ better maximize (f best) (f r) /\ Forall (fun x => better maximize (f x) (f r)) l.
Proof.
  induction l as [|x l IH]; intros best; cbn [argbest].
  - cbv zeta. repeat split; auto. left; auto. destruct maximize; cbn; lra.
  - cbv zeta. unfold nltb. numR.
    destruct maximize; cbn [better] in *.
    + destruct (Rleb (f x) (f best)) eqn:E; cbn [negb].
      * apply Rleb_true in E. destruct (IH best) as (Hin & Hb & Hall). repeat split; auto.
        { destruct Hin; [left|right; right]; auto. }
        constructor; auto. lra.
      * apply Rleb_false in E. destruct (IH x) as (Hin & Hb & Hall). repeat split; auto.
        { right; auto. } lra.
    + destruct (Rleb (f best) (f x)) eqn:E; cbn [negb].
      * apply Rleb_true in E. destruct (IH best) as (Hin & Hb & Hall). repeat split; auto.
        { destruct Hin; [left|right; right]; auto. }
        constructor; auto. lra.
      * apply Rleb_false in E. destruct (IH x) as (Hin & Hb & Hall). repeat split; auto.
        { right; auto. } lra.
Qed.

Theorem scripted_honours_contract maximize props lo hi x0 f :
  Forall (fun x => box_ok lo hi x = true /\ length x = length x0) (x0 :: props) ->
  contract maximize lo hi x0 f (scripted maximize props None lo hi x0 f).
Proof.
  intros Hbox. unfold scripted, contract. cbn [o_trace o_x o_f].
  destruct (argbest_spec maximize f props x0) as (Hin & Hb & Hall). cbv zeta in *.
  repeat split; auto.
  all: try (constructor; [destruct maximize; exact Hb | eapply Forall_impl; [|exact Hall]; intros a Ha; destruct maximize; exact Ha]).
Qed.

(** ** the clipping scripted optimiser: the box part of the contract holds whatever the script proposes *)
Definition pair_ok (l h : xnum R) : Prop :=
  l <> XPosInf /\ h <> XNegInf /\ match l, h with XFin a, XFin b => a <= b | _, _ => True end.

Lemma clip1_ok l h x : pair_ok l h -> lo_ok l (clip1 l h x) = true /\ hi_ok h (clip1 l h x) = true.
Proof.
  intros (Hl & Hh & Hlh). unfold clip1, nltb.
  destruct l as [| |a|]; destruct h as [| |b|]; try congruence; cbn [lo_ok hi_ok]; numR; auto.
  - split; auto. destruct (Rleb x b) eqn:E; cbn [negb]; apply Rleb_true; [apply Rleb_true in E; lra | lra].
  - split; auto. destruct (Rleb x b) eqn:E; cbn [negb]; apply Rleb_true; [apply Rleb_true in E; lra | lra].
  - split; auto. destruct (Rleb a x) eqn:E; cbn [negb]; apply Rleb_true; [apply Rleb_true in E; lra | lra].
  - set (y := if negb (Rleb a x) then a else x).
    assert (Hy : a <= y) by (unfold y; destruct (Rleb a x) eqn:E; cbn [negb]; [apply Rleb_true in E; lra | lra]).
    destruct (Rleb y b) eqn:E; cbn [negb].
    + apply Rleb_true in E. split; apply Rleb_true; lra.
    + split; apply Rleb_true; lra.
  - split; auto. destruct (Rleb a x) eqn:E; cbn [negb]; apply Rleb_true; [apply Rleb_true in E; lra | lra].
Qed.

Lemma clip_length lo hi x : length (clip lo hi x) = length x.
Proof. revert lo hi; induction x as [|v x IH]; intros lo hi; cbn; auto. Qed.

(** a box is well formed when no lower end is +inf, no upper end -inf, and finite ends are ordered; the bound lists
    are either both empty ("no bounds") or as long as the point *)
Fixpoint box_wf (lo hi : list (xnum R)) : Prop :=
  match lo, hi with
  | [], [] => True
  | l :: lo', h :: hi' => pair_ok l h /\ box_wf lo' hi'
  | _, _ => False
  end.

Lemma box_ok_nil x : box_ok (F:=R) [] [] x = true.
Proof. reflexivity. Qed.

Lemma clip_box_ok lo : forall hi x, box_wf lo hi -> box_ok lo hi (clip lo hi x) = true.
Proof.
  induction lo as [|l lo IH]; intros [|h hi] x Hwf; cbn in Hwf; try contradiction.
  - apply box_ok_nil.
  - destruct Hwf as [Hp Hwf]. destruct x as [|v x]; [reflexivity|].
    cbn [clip hd tl]. destruct (clip1_ok l h v Hp) as [H1 H2].
    specialize (IH hi x Hwf). unfold box_ok in *. cbn. rewrite H1, H2. cbn.
    apply andb_true_iff in IH as [I1 I2]. rewrite I1, I2. reflexivity.
Qed.

Theorem scripted_clip_honours_contract maximize props lo hi x0 f :
  box_wf lo hi -> box_ok lo hi x0 = true -> Forall (fun x => length x = length x0) props ->
  contract maximize lo hi x0 f (scripted_clip maximize props None lo hi x0 f).
Proof.
  intros Hwf H0 Hlen. unfold scripted_clip. apply scripted_honours_contract.
  constructor; [split; auto|].
  apply Forall_forall. intros y Hy. apply in_map_iff in Hy as (x & <- & Hx).
  rewrite Forall_forall in Hlen. split; [apply clip_box_ok; auto | rewrite clip_length; auto].
Qed.

(** ** every model evaluation respects the user's bounds, one list or both, for the wrappers that leave the bounds to the
       optimiser (optimize_cons, optimize_lbfgsb: BPlain, no log transform) -- under the box part of the contract alone *)
Section EvalsWithin.
  Variable ll_multinom ll_plain : list R -> option R.
  Notation OBJ := (scipy_objective ll_multinom ll_plain).

  Theorem scipy_plain_evals_within cfg (O : optimiser R) p0 lower upper fx multinom s w d0 :
    wc_oracle_bounds cfg = BPlain -> wc_obj_log cfg = false -> wc_start_log cfg = false ->
    scipy_wrapper ll_multinom ll_plain cfg O p0 lower upper (Some fx) multinom s = Some w ->
    project_down p0 (Some fx) = Some d0 ->
    Forall (fun x => box_ok (w_lo w) (w_hi w) x = true /\ length x = length (w_start w)) (o_trace (w_oracle w)) ->
    Forall (free_within fx (dflt_bounds lower (length p0)) (dflt_bounds upper (length p0))) (w_evals w).
  Proof.
    intros Hm Hlg Hsl Hw Hd Hbox.
    destruct (scipy_inv _ _ _ _ _ _ _ _ _ _ _ Hw) as (lo & hi & d0' & Hlo & Hhi & Hd' & Hrest).
    cbv zeta in Hrest. destruct Hrest as (Elo & Ehi & Est & Eor & _ & _ & Eev).
    rewrite Hd in Hd'. injection Hd' as <-.
    rewrite Hm in Hlo, Hhi. unfold oracle_bounds in Hlo, Hhi.
    fold (dflt_bounds lower (length p0)) in Hlo. fold (dflt_bounds upper (length p0)) in Hhi.
    destruct (project_down (dflt_bounds lower (length p0)) (Some fx)) as [lo0|] eqn:El; try discriminate.
    destruct (project_down (dflt_bounds upper (length p0)) (Some fx)) as [hi0|] eqn:Eu; try discriminate.
    cbn in Hlo, Hhi. injection Hlo as <-. injection Hhi as <-.
    pose proof (project_down_some_length _ _ _ El) as Ll.
    pose proof (project_down_some_length _ _ _ Eu) as Lu.
    pose proof (project_down_length _ _ _ Hd) as Ld. cbn in Ld.
    cbn in El, Eu. rewrite Ll, Nat.eqb_refl in El. rewrite Lu, Nat.eqb_refl in Eu.
    injection El as <-. injection Eu as <-.
    rewrite Eev, <- Eor. apply Forall_forall. intros e He.
    apply in_flat_map in He as (x & Hx & He).
    rewrite Forall_forall in Hbox. destruct (Hbox x Hx) as [Hb Hl].
    destruct (scipy_objective_cases ll_multinom ll_plain cfg lower upper multinom (Some fx) s x) as [[_ E]|[_ E]];
      rewrite E in He; cbn [snd] in He; [contradiction|].
    destruct He as [<-|[]]. rewrite Hlg. cbn [tr project_up].
    rewrite Elo, Ehi in Hb. apply box_free_within; auto.
    rewrite Hl, Est, Hsl. exact Ld.
  Qed.
End EvalsWithin.
