(** Clauses of C17 that the faithful model of the snapshot violates (witnesses). *)
From Coq Require Import ZArith Reals List Bool Lra Lia.
From Dadi Require Import Base.Num Base.NumR Model.DFE Proofs.DFEProofs Proofs.DFEMix.
Import ListNotations.
Local Open Scope R_scope.

Ltac reqb_lra :=
  repeat match goal with
  | |- context [Reqb ?a ?b] =>
      first [ rewrite (proj2 (Reqb_true a b)) by lra | rewrite (proj2 (Reqb_false a b)) by lra ]
  end.

Definition zero_tails : @tails2 R :=
  {| q1low := [0]; q1high := [0]; q2low := [0]; q2high := [0]; c_nn := 0; c_dn := 0; c_nd := 0 |}.
(** a flat density on a two-point grid [-2,-1] with no mass outside: integrate(theta) = theta *)
Definition o_flat : @oracle R :=
  {| pdf1 := fun _ => [1; 1]; tl1 := fun _ => (0, 0); pdf2 := fun _ => [[1]]; sym2 := fun _ => true;
     tl2 := fun _ => zero_tails; osqrt := fun x => x |}.
Definition cache_with_pos : @cache1 R := {| c1_xs := [-2; -1]; c1_gs := [-2; -1; 3]; c1_sp := [1; 1; 1]; c1_neu := 1 |}.
Definition cache_without_pos : @cache1 R := {| c1_xs := [-2; -1]; c1_gs := [-2; -1]; c1_sp := [1; 1]; c1_neu := 1 |}.

(** gammapos = 3 is cached; ppos = 1/2: result(theta) = theta/2 + 1/2 *)
Lemma point_pos_snapshot_value (theta : R) :
  c1_point_pos o_flat cache_with_pos false true theta None 1 [0; 1 / 2; 3]
  = Some ([-2; -1; 3], [1; 1; 1], (1 - (1 / 2 + 0)) * (theta * ((-1 - -2) * (1 * 1 + 1 * 1) / (1 + 1) + 0 + 1 * 0 + 1 * 0)) + 1 / 2 * 1).
Proof. unfold c1_point_pos, pp1_params. cbn. reqb_lra. cbn. reflexivity. Qed.

Lemma point_pos_theta_refuted :
  exists (o : @oracle R) (c : @cache1 R) (params : list R) (theta : R) st1 stt,
    c1_point_pos o c false true 1 None 1 params = Some st1 /\
    c1_point_pos o c false true theta None 1 params = Some stt /\
    snd stt <> theta * snd st1.
Proof.
  exists o_flat, cache_with_pos, [0; 1 / 2; 3], 2. do 2 eexists.
  split; [apply point_pos_snapshot_value|]. split; [apply point_pos_snapshot_value|]. cbn [snd]. lra.
Qed.

(** gammapos = 3 is not cached and the demographic function is handed in: the first call stores theta*spectrum,
    so a later call with another theta differs from the same call on the untouched cache *)
Lemma point_pos_history_refuted :
  exists (o : @oracle R) (c : @cache1 R) (demo : R -> R) (params : list R) (theta : R) gs' sp' r1 stA stB,
    c1_point_pos o c false true 1 (Some demo) 1 params = Some (gs', sp', r1) /\
    c1_point_pos o c false true theta (Some demo) 1 params = Some stA /\
    c1_point_pos o {| c1_xs := c1_xs c; c1_gs := gs'; c1_sp := sp'; c1_neu := c1_neu c |} false true theta (Some demo) 1 params = Some stB /\
    snd stA <> snd stB.
Proof.
  exists o_flat, cache_without_pos, (fun _ => 1), [0; 1 / 2; 3], 2. do 5 eexists.
  split; [|split; [|split]].
  - unfold c1_point_pos, pp1_params. cbn. reqb_lra. cbn. reqb_lra. cbn. reflexivity.
  - unfold c1_point_pos, pp1_params. cbn. reqb_lra. cbn. reqb_lra. cbn. reflexivity.
  - unfold c1_point_pos, pp1_params. cbn. reqb_lra. cbn. reflexivity.
  - cbn [snd]. lra.
Qed.

(** the repaired variant on the same two scenarios *)
Lemma point_pos_repaired_history_witness :
  exists gs' sp' r1 stA stB,
    c1_point_pos o_flat cache_without_pos true true 1 (Some (fun _ => 1)) 1 [0; 1 / 2; 3] = Some (gs', sp', r1) /\
    c1_point_pos o_flat cache_without_pos true true 2 (Some (fun _ => 1)) 1 [0; 1 / 2; 3] = Some stA /\
    c1_point_pos o_flat {| c1_xs := [-2; -1]; c1_gs := gs'; c1_sp := sp'; c1_neu := 1 |} true true 2 (Some (fun _ => 1)) 1 [0; 1 / 2; 3] = Some stB /\
    snd stA = snd stB.
Proof.
  do 5 eexists. split; [|split; [|split]].
  - unfold c1_point_pos, pp1_params. cbn. reqb_lra. cbn. reqb_lra. cbn. reflexivity.
  - unfold c1_point_pos, pp1_params. cbn. reqb_lra. cbn. reqb_lra. cbn. reflexivity.
  - unfold c1_point_pos, pp1_params. cbn. reqb_lra. cbn. reflexivity.
  - cbn [snd]. lra.
Qed.

(** mixture_symmetric_point_pos: an oracle density that has all its mass in the doubly-neutral corner when called with
    three parameters (mu, sigma, rho) and none otherwise separates the snapshot from the repaired plumbing *)
Definition o_len3 : @oracle R :=
  {| pdf1 := fun _ => [1]; tl1 := fun _ => (0, 0); pdf2 := fun _ => [[1]]; sym2 := fun _ => true;
     tl2 := fun p => {| q1low := [0]; q1high := [0]; q2low := [0]; q2high := [0];
                        c_nn := if Nat.eqb (length p) 3 then 1 else 0; c_dn := 0; c_nd := 0 |};
     osqrt := fun x => x |}.
Definition s1_w : @cache1 R := {| c1_xs := [-1]; c1_gs := [-1; 3]; c1_sp := [1; 1]; c1_neu := 1 |}.
Definition s2_w : @cache2 R := {| c2_xs := [-1]; c2_gs := [-1; 3]; c2_S := [[1; 1]; [1; 1]] |}.

Lemma mixture_sym_point_pos_refuted :
  exists (o : @oracle R) s1 s2 (params : list R) (theta a b : R),
    mixture_sym_point_pos o s1 s2 false false theta params = Some a /\
    mixture_sym_point_pos o s1 s2 false true theta params = Some b /\ a <> b.
Proof.
  exists o_len3, s1_w, s2_w, [0; 0; 1 / 2; 0; 3; 1], 1. do 2 eexists.
  split; [|split].
  - unfold mixture_sym_point_pos, c2_sym_point_pos, c2_point_pos, c1_point_pos, pp1_params, point_pos2d, pick2, but_last, last_k.
    cbn. reqb_lra. cbn. reflexivity.
  - unfold mixture_sym_point_pos, c2_sym_point_pos, c2_point_pos, c1_point_pos, pp1_params, point_pos2d, pick2, but_last, last_k.
    cbn. reqb_lra. cbn. reflexivity.
  - unfold p_pos_pos, p_pos_neg, p_neg_pos, p_neg_neg. numR. lra.
Qed.
