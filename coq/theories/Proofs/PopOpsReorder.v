(** C10 proofs: reorder_pops is an axis permutation; composition, inverse; commutes with marginalize. *)
From Coq Require Import String.
From Coq Require Import ZArith Reals List Bool Arith Lia Lra Permutation Sorted.
From Dadi Require Import Base.Num Base.NumR Model.PopOps Proofs.PopOpsBig Proofs.PopOpsIdx Proofs.PopOpsPF
  Proofs.PopOpsProofs.
Import ListNotations.
Local Open Scope R_scope.

(** ** valid orders *)
Lemma seq_ssorted a n : StronglySorted lt (seq a n).
Proof. revert a; induction n; intros a; simpl; constructor; auto.
  apply Forall_forall. intros x Hx. apply in_seq in Hx. lia. Qed.

Lemma map_pred_seq1 d : map pred (seq 1 d) = seq 0 d.
Proof. rewrite <- seq_shift, map_map. simpl. apply map_id. Qed.

Definition valid_order (d : nat) (neworder : list nat) : Prop := Permutation neworder (seq 1 d).

Lemma valid_order_iff d n : list_nat_eqb (isort n) (seq 1 d) = true <-> valid_order d n.
Proof. unfold list_nat_eqb, valid_order. rewrite idx_eqb_spec. split; intros Hn.
  - rewrite <- Hn. apply isort_perm.
  - rewrite (isort_perm_eq _ _ Hn). apply ssorted_lt_isort, seq_ssorted. Qed.

Lemma valid_order_perm d n : valid_order d n -> is_perm (map pred n) /\ length (map pred n) = d.
Proof. intros Hn. assert (L : length (map pred n) = d).
  { rewrite map_length, (Permutation_length Hn). apply seq_length. }
  split; auto. unfold is_perm. rewrite L. rewrite <- map_pred_seq1. now apply Permutation_map. Qed.

Lemma valid_order_S d n : valid_order d n -> map S (map pred n) = n.
Proof. intros Hn. rewrite map_map. rewrite <- (map_id n) at 2. apply map_ext_in. intros x Hx.
  eapply Permutation_in in Hx; [|exact Hn]. apply in_seq in Hx. lia. Qed.

Lemma perm_valid_order p : is_perm p -> valid_order (length p) (map S p).
Proof. intros Hp. unfold valid_order. rewrite <- seq_shift. now apply Permutation_map. Qed.

(** ** permutations act invertibly on lists of the right length *)
Lemma select_inv_cancel_l {A} (dflt : A) p l :
  is_perm p -> length l = length p -> select dflt (inv_perm p) (select dflt p l) = l.
Proof. intros Hp Hl. rewrite select_select.
  - rewrite select_inv_l by auto. rewrite <- Hl. apply select_seq_id.
  - intros k Hk. apply (is_perm_in _ k (is_perm_inv p Hp)) in Hk. now rewrite inv_perm_length in Hk. Qed.

Lemma select_inv_cancel_r {A} (dflt : A) p l :
  is_perm p -> length l = length p -> select dflt p (select dflt (inv_perm p) l) = l.
Proof. intros Hp Hl. rewrite select_select.
  - rewrite select_inv_r by auto. rewrite <- Hl. apply select_seq_id.
  - intros k Hk. apply (is_perm_in _ k Hp) in Hk. now rewrite inv_perm_length. Qed.

Lemma inr_select_perm p S I : is_perm p -> length p = length S -> inr S I -> inr (select 0%nat p S) (select 0%nat p I).
Proof. intros Hp Hl HI. apply Forall2_select; auto. intros k Hk. apply (is_perm_in _ k Hp) in Hk.
  rewrite (inr_length _ _ HI). lia. Qed.

Lemma inr_select_inv p S J :
  is_perm p -> length p = length S -> inr (select 0%nat p S) J -> inr S (select 0%nat (inv_perm p) J).
Proof. intros Hp Hl HJ. rewrite <- (select_inv_cancel_l 0%nat p S Hp (eq_sym Hl)) at 1.
  apply Forall2_select; auto. intros k Hk. apply (is_perm_in _ k (is_perm_inv p Hp)) in Hk.
  rewrite inv_perm_length in Hk. rewrite (inr_length _ _ HJ), select_length. auto. Qed.

(** ** transpose *)
Section Transpose.
  Variables (a : spec R) (p : list nat).
  Hypothesis Hp : is_perm p.
  Hypothesis Hl : length p = length (sh a).
  Let t := transpose p a.

  Lemma transpose_maps : maps (sh a) (sh t) (select 0%nat p).
  Proof. intros I HI. simpl. now apply inr_select_perm. Qed.

  Lemma transpose_at I : inr (sh a) I -> va t (select 0%nat p I) = va a I /\ mk t (select 0%nat p I) = mk a I.
  Proof. intros HI. simpl. rewrite select_inv_cancel_l; auto. rewrite (inr_length _ _ HI). auto. Qed.

  Lemma transpose_PF M op e (g : spec R -> idx -> M)
        (Hg : forall J, g t J = g a (select 0%nat (inv_perm p) J)) :
    (forall x y z, op x (op y z) = op (op x y) z) -> (forall x y, op x y = op y x) -> (forall x, op e x = x) ->
    PF M op e (sh a) (select 0%nat p) (g a) (sh t) (g t).
  Proof. intros A1 A2 A3. apply PF_bij with (finv := select 0%nat (inv_perm p)); auto.
    - intros I HI. apply select_inv_cancel_l; auto. rewrite (inr_length _ _ HI). auto.
    - intros J HJ. apply select_inv_cancel_r; auto. rewrite (inr_length _ _ HJ). simpl. now rewrite select_length.
    - intros J HJ. now apply inr_select_inv. Qed.
End Transpose.

(** reorder_pops: every entry moves to the permuted multi-index; labels move with the axes; totals are kept *)
Theorem reorder_spec (a : spec R) neworder :
  valid_order (length (sh a)) neworder ->
  let p := map pred neworder in
  exists r, reorder_pops neworder a = Some r /\
    sh r = select 0%nat p (sh a) /\ ids r = option_map (select EmptyString p) (ids a) /\ fo r = fo a /\
    (forall I, inr (sh a) I -> inr (sh r) (select 0%nat p I) /\
                               va r (select 0%nat p I) = va a I /\ mk r (select 0%nat p I) = mk a I) /\
    (forall J, inr (sh r) J -> va r J = fiber_sum (sh a) (select 0%nat p) (va a) J /\
                               mk r J = fiber_any (sh a) (select 0%nat p) (mk a) J) /\
    total r = total a /\ etotal r = etotal a.
Proof. intros Hv p. destruct (valid_order_perm _ _ Hv) as [Hp Hl]. fold p in Hp, Hl.
  unfold reorder_pops. rewrite (proj2 (valid_order_iff _ _) Hv). fold p.
  eexists. split; [reflexivity|]. simpl.
  assert (PV := transpose_PF a p Hp Hl R Rplus 0 (@va R) (fun _ => eq_refl) Rp_assoc Rp_comm Rp_0_l).
  assert (PM := transpose_PF a p Hp Hl bool orb false (@mk R) (fun _ => eq_refl) orb_assoc orb_comm orb_false_l).
  assert (PE := transpose_PF a p Hp Hl R Rplus 0 (@eff R NumR) (fun _ => eq_refl) Rp_assoc Rp_comm Rp_0_l).
  repeat split; auto.
  - now apply inr_select_perm.
  - apply (transpose_at a p Hp Hl I H).
  - apply (transpose_at a p Hp Hl I H).
  - apply (proj1 (PFR_fiber _ _ _ _ _) PV J H).
  - apply (proj1 (PFany_fiber _ _ _ _ _) PM J H).
  - rewrite !total_big. apply (PF_total R Rplus 0 Rp_assoc Rp_comm Rp_0_l _ _ _ _ _ PV). apply transpose_maps; auto.
  - rewrite !etotal_big. apply (PF_total R Rplus 0 Rp_assoc Rp_comm Rp_0_l _ _ _ _ _ PE). apply transpose_maps; auto. Qed.

Theorem reorder_refuses (a : spec R) neworder :
  ~ valid_order (length (sh a)) neworder -> reorder_pops neworder a = None.
Proof. intros Hn. unfold reorder_pops. destruct (list_nat_eqb (isort neworder) (seq 1 (length (sh a)))) eqn:E; auto.
  apply valid_order_iff in E. contradiction. Qed.

(** ** composition and inverse *)
Lemma reorder_some (a : spec R) n : valid_order (length (sh a)) n ->
  reorder_pops n a = Some {| sh := select 0%nat (map pred n) (sh a);
                             va := fun J => va a (select 0%nat (inv_perm (map pred n)) J);
                             mk := fun J => mk a (select 0%nat (inv_perm (map pred n)) J);
                             ids := option_map (select EmptyString (map pred n)) (ids a); fo := fo a |}.
Proof. intros Hv. unfold reorder_pops. rewrite (proj2 (valid_order_iff _ _) Hv). reflexivity. Qed.

Lemma is_perm_select p1 p2 : is_perm p1 -> is_perm p2 -> length p1 = length p2 -> is_perm (select 0%nat p2 p1).
Proof. intros H1 H2 Hl. unfold is_perm. rewrite select_length.
  etransitivity; [apply Permutation_map; exact H2|]. rewrite <- Hl.
  change (Permutation (select 0%nat (seq 0 (length p1)) p1) (seq 0 (length p1))).
  rewrite select_seq_id. exact H1. Qed.

(** reordering by n1 and then by n2 is reordering by  n12[i] = n1[n2[i]]  (1-based) *)
Definition compose_order (n1 n2 : list nat) : list nat := map (fun i => nth (pred i) n1 0%nat) n2.

Lemma compose_order_pred d n1 n2 : valid_order d n1 -> valid_order d n2 ->
  map pred (compose_order n1 n2) = select 0%nat (map pred n2) (map pred n1) /\ valid_order d (compose_order n1 n2).
Proof. intros H1 H2. destruct (valid_order_perm _ _ H1) as [P1 L1]. destruct (valid_order_perm _ _ H2) as [P2 L2].
  assert (E : map pred (compose_order n1 n2) = select 0%nat (map pred n2) (map pred n1)).
  { unfold compose_order, select. rewrite !map_map. apply map_ext. intros i.
    change 0%nat with (pred 0) at 2. now rewrite map_nth. }
  split; auto.
  assert (P12 : is_perm (select 0%nat (map pred n2) (map pred n1))) by (apply is_perm_select; auto; lia).
  assert (ES : compose_order n1 n2 = map S (map pred (compose_order n1 n2))).
  { rewrite map_map. rewrite <- (map_id (compose_order n1 n2)) at 1. apply map_ext_in. intros x Hx.
    unfold compose_order in Hx. apply in_map_iff in Hx as (i & <- & Hi).
    assert (Hi' : In i (seq 1 d)) by (eapply Permutation_in; eauto). apply in_seq in Hi'.
    assert (Hn : In (nth (pred i) n1 0%nat) n1).
    { apply nth_In. rewrite <- (map_length pred n1), L1. lia. }
    eapply Permutation_in in Hn; [|exact H1]. apply in_seq in Hn. lia. }
  rewrite ES, E. replace d with (length (select 0%nat (map pred n2) (map pred n1))) by (rewrite select_length; auto).
  now apply perm_valid_order. Qed.

Theorem reorder_compose (a : spec R) n1 n2 :
  valid_order (length (sh a)) n1 -> valid_order (length (sh a)) n2 ->
  exists r1 r2 r12, reorder_pops n1 a = Some r1 /\ reorder_pops n2 r1 = Some r2 /\
                    reorder_pops (compose_order n1 n2) a = Some r12 /\ same_spectrum r2 r12.
Proof. intros H1 H2. set (d := length (sh a)) in *.
  destruct (valid_order_perm _ _ H1) as [P1 L1]. destruct (valid_order_perm _ _ H2) as [P2 L2].
  destruct (compose_order_pred d n1 n2 H1 H2) as [E12 H12].
  destruct (valid_order_perm _ _ H12) as [P12 L12].
  set (p1 := map pred n1) in *. set (p2 := map pred n2) in *.
  rewrite (reorder_some a n1 H1). eexists. eexists. eexists. split; [reflexivity|].
  rewrite reorder_some by (simpl; rewrite select_length; fold p1; rewrite L1; exact H2).
  split; [reflexivity|]. rewrite (reorder_some a _ H12). split; [reflexivity|]. fold p1 p2. rewrite E12.
  assert (Hk : forall k, In k p2 -> (k < length p1)%nat) by (intros k Hk; apply (is_perm_in _ k P2) in Hk; lia).
  unfold same_spectrum. simpl. repeat split.
  - apply select_select; auto.
  - destruct (ids a) as [l|]; simpl; [|reflexivity]. f_equal.
    unfold select. rewrite map_map. apply map_ext_in. intros k Hin.
    rewrite (nth_indep _ EmptyString (nth 0%nat l EmptyString)) by (rewrite map_length; auto).
    rewrite (map_nth (fun k => nth k l EmptyString)). reflexivity.
  - assert (X : select 0%nat (inv_perm p1) (select 0%nat (inv_perm p2) J) = select 0%nat (inv_perm (select 0%nat p2 p1)) J);
      [|now rewrite X].
    apply in_indices in H. assert (LJ : length J = d).
    { rewrite (inr_length _ _ H), !select_length. auto. }
    rewrite <- E12 in *. set (p12 := map pred (compose_order n1 n2)) in *.
    rewrite <- (select_inv_cancel_l 0%nat p12 (select 0%nat (inv_perm p1) (select 0%nat (inv_perm p2) J)) P12)
      by (rewrite !select_length, inv_perm_length; lia).
    f_equal. rewrite E12. rewrite <- select_select by auto.
    rewrite select_inv_cancel_r; auto; [|rewrite select_length, inv_perm_length; lia].
    apply select_inv_cancel_r; auto. lia.
  - assert (X : select 0%nat (inv_perm p1) (select 0%nat (inv_perm p2) J) = select 0%nat (inv_perm (select 0%nat p2 p1)) J);
      [|now rewrite X].
    apply in_indices in H. assert (LJ : length J = d).
    { rewrite (inr_length _ _ H), !select_length. auto. }
    rewrite <- E12 in *. set (p12 := map pred (compose_order n1 n2)) in *.
    rewrite <- (select_inv_cancel_l 0%nat p12 (select 0%nat (inv_perm p1) (select 0%nat (inv_perm p2) J)) P12)
      by (rewrite !select_length, inv_perm_length; lia).
    f_equal. rewrite E12. rewrite <- select_select by auto.
    rewrite select_inv_cancel_r; auto; [|rewrite select_length, inv_perm_length; lia].
    apply select_inv_cancel_r; auto. lia. Qed.

(** the inverse order (1-based) undoes a reordering *)
Definition inverse_order (n : list nat) : list nat := map S (inv_perm (map pred n)).

Definition labels_ok (a : spec R) : Prop :=
  match ids a with Some l => length l = length (sh a) | None => True end.

Theorem reorder_inverse (a : spec R) n :
  valid_order (length (sh a)) n -> labels_ok a ->
  exists r1 r2, reorder_pops n a = Some r1 /\ reorder_pops (inverse_order n) r1 = Some r2 /\ same_spectrum r2 a.
Proof. intros H1 Hlab. set (d := length (sh a)) in *. destruct (valid_order_perm _ _ H1) as [P1 L1].
  set (p := map pred n) in *.
  assert (Hq : is_perm (inv_perm p)) by now apply is_perm_inv.
  assert (H2 : valid_order d (inverse_order n)).
  { unfold inverse_order. fold p. replace d with (length (inv_perm p)) by (rewrite inv_perm_length; auto).
    now apply perm_valid_order. }
  assert (Eq : map pred (inverse_order n) = inv_perm p).
  { unfold inverse_order. fold p. rewrite map_map. simpl. apply map_id. }
  rewrite (reorder_some a n H1). eexists. eexists. split; [reflexivity|].
  rewrite reorder_some by (simpl; rewrite select_length; fold p; rewrite L1; exact H2).
  split; [reflexivity|]. fold p. rewrite Eq. unfold same_spectrum. simpl.
  assert (Ls : length (sh a) = length p) by (fold d; lia).
  repeat split.
  - now apply select_inv_cancel_l.
  - unfold labels_ok in Hlab. destruct (ids a) as [l|]; simpl; [|reflexivity]. f_equal.
    apply select_inv_cancel_l; auto. lia.
  - f_equal. apply in_indices in H. apply select_inv_cancel_r; auto.
    rewrite (inr_length _ _ H), !select_length, inv_perm_length. reflexivity.
  - f_equal. apply in_indices in H. apply select_inv_cancel_r; auto.
    rewrite (inr_length _ _ H), !select_length, inv_perm_length. reflexivity. Qed.
