(** * Tridiag: the Thomas algorithm of dadi/tridiag.c (tridiag_premalloc). Executable model only.

    rows are (a_j, b_j, c_j, r_j); a_0 and c_{n-1} are not used by the algorithm.
    Forward pass:  gam_j = c_{j-1}/bet ; bet = b_j - a_j gam_j ; u_j = (r_j - a_j u_{j-1})/bet
    Backward pass: u_j -= gam_{j+1} u_{j+1}. *)
From Coq Require Import List.
From Dadi Require Import Base.Num.
Import ListNotations.
Local Open Scope num_scope.

Section Tridiag.
  Context {F : Type} `{Num F}.
  Definition row := (F * F * F * F)%type.

  (** forward elimination from row 1 on: list of (gam_j, u_j) *)
  Fixpoint fwd (bet uprev cprev : F) (rows : list row) : list (F * F) :=
    match rows with
    | [] => []
    | (a, b, c, r) :: t =>
        let gam := cprev / bet in
        let bet' := b - a * gam in
        let u := (r - a * uprev) / bet' in
        (gam, u) :: fwd bet' u c t
    end.

  (** back substitution: returns the solution of the tail and gam_first * x_first (the carry) *)
  Fixpoint back (l : list (F * F)) : list F * F :=
    match l with
    | [] => ([], n0)
    | (g, u) :: t => let '(xs, carry) := back t in
                     let x := u - carry in (x :: xs, g * x)
    end.

  Definition thomas (rows : list row) : list F :=
    match rows with
    | [] => []
    | (a0, b0, c0, r0) :: t => let u0 := r0 / b0 in fst (back ((n0, u0) :: fwd b0 u0 c0 t))
    end.

  (** the pivots the algorithm divides by *)
  Fixpoint pivots (bet cprev : F) (rows : list row) : list F :=
    match rows with
    | [] => []
    | (a, b, c, r) :: t => let bet' := b - a * (cprev / bet) in bet' :: pivots bet' c t
    end.
  Definition all_pivots (rows : list row) : list F :=
    match rows with [] => [] | (a0, b0, c0, r0) :: t => b0 :: pivots b0 c0 t end.

  (** A u: the tridiagonal operator applied to a vector (what "solves the system" means) *)
  Fixpoint apply_rows (uprev : F) (rows : list row) (us : list F) : list F :=
    match rows, us with
    | (a, b, c, r) :: t, u :: ut => (a * uprev + b * u + c * hd n0 ut) :: apply_rows u t ut
    | _, _ => []
    end.
End Tridiag.
