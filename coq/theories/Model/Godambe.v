(** * Godambe: finite-difference Hessian / gradient, H, J, cU assembly  (dadi/Godambe.py).

    Executable model only (no proofs).  Branch structure, thresholds and the points at which the
    function is evaluated are copied from [hessian_elem], [get_hess], [get_grad], [get_godambe]. *)
From Coq Require Import ZArith List Bool.
From Dadi Require Import Base.Num.
Import ListNotations.
Local Open Scope num_scope.

Section Godambe.
  Context {F : Type} `{Num F}.

  (** pwork[i] = v  (out-of-range index: unchanged) *)
  Fixpoint upd (p : list F) (i : nat) (v : F) : list F :=
    match p, i with
    | [], _ => []
    | _ :: t, O => v :: t
    | x :: t, S k => x :: upd t k v
    end.

  (** ** step sizes (get_hess / get_grad, identical text in both)
        if pval != 0:  if pval*eps_in < 1e-6: eps = eps_in, one_sided = True   else: eps = eps_in*pval
        else:          eps = eps_in                       (one_sided stays False) *)
  Definition tiny : F := n1 / nofZ 1000000.
  Definition step_rule (eps_in pval : F) : F * bool :=
    if negb (pval =? n0) then
      (if pval * eps_in <? tiny then (eps_in, true) else (eps_in * pval, false))
    else (eps_in, false).

  (** ** the stencils as functions of the sampled values *)
  Definition st_diag_c (fp f0 fm e : F) : F := (fp - n2 * f0 + fm) / (e * e).
  Definition st_diag_o (fpp fp f0 e : F) : F := (fpp - n2 * fp + f0) / (e * e).
  Definition st_off_c (fpp fpm fmp fmm ei ej : F) : F := (fpp - fpm - fmp + fmm) / (nofZ 4 * ei * ej).
  Definition st_off_o (fpp fpm fmp f0 ei ej : F) : F := (fpp - fpm - fmp + f0) / (ei * ej).
  Definition st_grad_c (fp fm e : F) : F := (fp - fm) / (n2 * e).
  Definition st_grad_o (fp fm e : F) : F := (fp - fm) / e.

  (** ** hessian_elem(func, f0, p0, ii, jj, eps, one_sided) *)
  Definition hess_elem (f : list F -> F) (f0 : F) (p0 : list F) (ii jj : nat)
                       (eps : list F) (os : list bool) : F :=
    let pi := nth ii p0 n0 in let pj := nth jj p0 n0 in
    let ei := nth ii eps n0 in let ej := nth jj eps n0 in
    let osi := nth ii os false in let osj := nth jj os false in
    if Nat.eqb ii jj then
      if negb (pi =? n0) && negb osi then
        st_diag_c (f (upd p0 ii (pi + ei))) f0 (f (upd p0 ii (pi - ei))) ei
      else
        st_diag_o (f (upd p0 ii (pi + n2 * ei))) (f (upd p0 ii (pi + ei))) f0 ei
    else
      if negb (pi =? n0) && negb (pj =? n0) && negb osi && negb osj then
        st_off_c (f (upd (upd p0 ii (pi + ei)) jj (pj + ej)))
                 (f (upd (upd p0 ii (pi + ei)) jj (pj - ej)))
                 (f (upd (upd p0 ii (pi - ei)) jj (pj + ej)))
                 (f (upd (upd p0 ii (pi - ei)) jj (pj - ej))) ei ej
      else
        st_off_o (f (upd (upd p0 ii (pi + ei)) jj (pj + ej)))
                 (f (upd (upd p0 ii (pi + ei)) jj pj))
                 (f (upd (upd p0 ii pi) jj (pj + ej))) f0 ei ej.

  (** ** get_hess: f0 once, upper triangle computed, mirrored *)
  Definition get_hess (f : list F -> F) (p0 : list F) (eps_in : F) : list (list F) :=
    let st := map (step_rule eps_in) p0 in
    let es := map fst st in let os := map snd st in
    let f0 := f p0 in
    let n := length p0 in
    map (fun r => map (fun c => hess_elem f f0 p0 (Nat.min r c) (Nat.max r c) es os) (seq 0 n)) (seq 0 n).

  (** ** get_grad (two_pt_deriv_test = False) *)
  Definition grad_elem (f : list F -> F) (p0 : list F) (ii : nat) (eps : list F) (os : list bool) : F :=
    let pi := nth ii p0 n0 in let ei := nth ii eps n0 in
    if negb (pi =? n0) && negb (nth ii os false) then
      st_grad_c (f (upd p0 ii (pi + ei))) (f (upd p0 ii (pi - ei))) ei
    else
      st_grad_o (f (upd p0 ii (pi + ei))) (f (upd p0 ii pi)) ei.

  Definition get_grad (f : list F -> F) (p0 : list F) (eps_in : F) : list F :=
    let st := map (step_rule eps_in) p0 in
    let es := map fst st in let os := map snd st in
    map (fun ii => grad_elem f p0 ii es os) (seq 0 (length p0)).

  (** ** J = mean over bootstraps of outer(grad, grad);  cU = mean of grad *)
  Definition J_entry (grads : list (list F)) (i j : nat) : F :=
    nsum (map (fun g => nth i g n0 * nth j g n0) grads) / nofnat (length grads).
  Definition cU_entry (grads : list (list F)) (i : nat) : F :=
    nsum (map (fun g => nth i g n0) grads) / nofnat (length grads).
  Definition J_mat (n : nat) (grads : list (list F)) : list (list F) :=
    map (fun i => map (fun j => J_entry grads i j) (seq 0 n)) (seq 0 n).
  Definition cU_vec (n : nat) (grads : list (list F)) : list F := map (cU_entry grads) (seq 0 n).

  (** get_godambe up to (hess, J, cU).  [ll d] is the log-likelihood of data set [d] (a bootstrap carries its
      theta_adjust inside [d]) as a function of the parameters; hess = - get_hess. *)
  Definition godambe_HJc {D : Type} (ll : D -> list F -> F) (p0 : list F) (eps_in : F) (data : D) (boots : list D)
    : list (list F) * list (list F) * list F :=
    let Hm := map (map nopp) (get_hess (ll data) p0 eps_in) in
    let grads := map (fun bt => get_grad (ll bt) p0 eps_in) boots in
    (Hm, J_mat (length p0) grads, cU_vec (length p0) grads).

  (** log=True: derivatives with respect to log-parameters *)
  Definition log_wrap (f : list F -> F) (lp : list F) : F := f (map nexp lp).

  (** ** test functions: a quadratic given by its monomials
        c + sum a * p_k + sum a * p_k * p_l *)
  Definition quadm (c : F) (lin : list (F * nat)) (qd : list (F * (nat * nat))) (p : list F) : F :=
    c + nsum (map (fun m => fst m * nth (snd m) p n0) lin)
      + nsum (map (fun m => fst m * nth (fst (snd m)) p n0 * nth (snd (snd m)) p n0) qd).
  Definition delta (a b : nat) : F := if Nat.eqb a b then n1 else n0.
  (** exact second partial d2/dp_i dp_j and first partial d/dp_i of [quadm] *)
  Definition quad_d2 (qd : list (F * (nat * nat))) (i j : nat) : F :=
    nsum (map (fun m => fst m * (delta (fst (snd m)) i * delta (snd (snd m)) j
                                 + delta (fst (snd m)) j * delta (snd (snd m)) i)) qd).
  Definition quad_d1 (lin : list (F * nat)) (qd : list (F * (nat * nat))) (p : list F) (i : nat) : F :=
    nsum (map (fun m => fst m * delta (snd m) i) lin)
    + nsum (map (fun m => fst m * (delta (fst (snd m)) i * nth (snd (snd m)) p n0
                                   + delta (snd (snd m)) i * nth (fst (snd m)) p n0)) qd).

  (** ** Poisson log-likelihood of a model that is linear in its parameters
        entry i: mean m_i = adj * sum_k theta_k B_i[k];  ll = sum_i  - m_i + d_i ln m_i - g_i   (g_i = gammaln(d_i+1)) *)
  Record pdata := { pd_adj : F; pd_d : list F; pd_g : list F }.
  Definition pois_term (m d g : F) : F := - m + d * nln m - g.
  Definition pois_ll (mean : list F -> list F) (dt : pdata) (theta : list F) : F :=
    nsum (map (fun t => pois_term (pd_adj dt * fst (fst t)) (snd (fst t)) (snd t))
              (combine (combine (mean theta) (pd_d dt)) (pd_g dt))).
  (** func_ex(theta) = sum_k theta_k B_k   ([Bs]: one coefficient vector per spectrum entry) *)
  Definition lin_mean (Bs : list (list F)) (theta : list F) : list F := map (fun bi => ndot theta bi) Bs.
  (** multinom=True: func_ex(p) = p[-1] * func_multi(p[:-1]) *)
  Definition aug_mean (Bs : list (list F)) (p : list F) : list F :=
    map (fun bi => last p n0 * ndot (removelast p) bi) Bs.

  (** LRT_adjust / Wald_stat / score_stat: diff_func(q) = func_ex(full with full[idx] = q) *)
  Definition scatter (full : list F) (idx : list nat) (q : list F) : list F :=
    fold_left (fun acc iq => upd acc (fst iq) (snd iq)) (combine idx q) full.
  Definition model_mean (Bs : list (list F)) (aug : bool) (nest : option (list F * list nat)) (q : list F) : list F :=
    let full := match nest with None => q | Some fi => scatter (fst fi) (snd fi) q end in
    (* a coefficient vector may carry one extra entry: the coefficient of the constant 1 (base spectrum B_0) *)
    if aug then map (fun bi => last full n0 * ndot (removelast full ++ [n1]) bi) Bs
    else map (fun bi => ndot (full ++ [n1]) bi) Bs.

  (** closed forms for [lin_mean]: first and second partial derivatives of the log-likelihood *)
  Definition pois_grad (Bs : list (list F)) (dt : pdata) (theta : list F) (k : nat) : F :=
    nsum (map (fun t => (snd (fst t) / ndot theta (fst (fst t)) - pd_adj dt) * nth k (fst (fst t)) n0)
              (combine (combine Bs (pd_d dt)) (pd_g dt))).
  Definition pois_hess (Bs : list (list F)) (dt : pdata) (theta : list F) (k l : nat) : F :=
    nsum (map (fun t => - (snd (fst t) * nth k (fst (fst t)) n0 * nth l (fst (fst t)) n0
                          / (ndot theta (fst (fst t)) * ndot theta (fst (fst t)))))
              (combine (combine Bs (pd_d dt)) (pd_g dt))).

  (** ** small dense linear algebra for the statistics built from (H, J, cU) *)
  Definition mat_vec (A : list (list F)) (v : list F) : list F := map (fun r => ndot r v) A.
  Definition col (A : list (list F)) (j : nat) : list F := map (fun r => nth j r n0) A.
  Definition mat_mul (A B : list (list F)) : list (list F) :=
    match B with
    | [] => map (fun _ => []) A
    | b0 :: _ => map (fun r => map (fun j => ndot r (col B j)) (seq 0 (length b0))) A
    end.
  Definition trace (A : list (list F)) : F := nsum (map (fun i => nth i (nth i A []) n0) (seq 0 (length A))).
  Definition diag (A : list (list F)) : list F := map (fun i => nth i (nth i A []) n0) (seq 0 (length A)).
  Definition ident (n : nat) : list (list F) := map (fun i => map (fun j => delta i j) (seq 0 n)) (seq 0 n).

  (** Gauss-Jordan on [A | I]; pivot = first row at or below the diagonal with a non-zero entry *)
  Fixpoint find_pivot (rows : list (list F)) (k r : nat) : option nat :=
    match rows with
    | [] => None
    | row :: t => if Nat.leb k r && negb (nth k row n0 =? n0) then Some r else find_pivot t k (S r)
    end.
  Definition swap_rows (rows : list (list F)) (a b : nat) : list (list F) :=
    map (fun i => if Nat.eqb i a then nth b rows [] else if Nat.eqb i b then nth a rows [] else nth i rows [])
        (seq 0 (length rows)).
  Definition eliminate (rows : list (list F)) (k : nat) : list (list F) :=
    let prow := nth k rows [] in
    let pv := nth k prow n0 in
    let prow' := map (fun x => x / pv) prow in
    map (fun i => let row := nth i rows [] in
                  if Nat.eqb i k then prow'
                  else let c := nth k row n0 in map (fun xy => fst xy - c * snd xy) (combine row prow'))
        (seq 0 (length rows)).
  Fixpoint gauss_jordan (cols : list nat) (rows : list (list F)) : option (list (list F)) :=
    match cols with
    | [] => Some rows
    | k :: rest =>
      match find_pivot rows k 0 with
      | None => None
      | Some r => gauss_jordan rest (eliminate (swap_rows rows k r) k)
      end
    end.
  Definition mat_inv (A : list (list F)) : option (list (list F)) :=
    let n := length A in
    match gauss_jordan (seq 0 n) (map (fun ri => fst ri ++ snd ri) (combine A (ident n))) with
    | None => None
    | Some rows => Some (map (fun r => skipn n r) rows)
    end.

  (** the inverse is used only when it certifies itself: A Ai = Ai A = 1 entry by entry (numpy.linalg.inv is outside the
      modelled code; Gauss-Jordan in exact arithmetic stands in for it, and nothing below relies on its correctness) *)
  Definition entry (M : list (list F)) (i j : nat) : F := nth j (nth i M []) n0.
  Definition wf_matb (n : nat) (M : list (list F)) : bool :=
    Nat.eqb (length M) n && forallb (fun r => Nat.eqb (length r) n) M.
  Definition mat_eqb (n : nat) (A B : list (list F)) : bool :=
    forallb (fun i => forallb (fun j => entry A i j =? entry B i j) (seq 0 n)) (seq 0 n).
  Definition inv_ok (A Ai : list (list F)) : bool :=
    let n := length A in
    wf_matb n A && wf_matb n Ai && mat_eqb n (mat_mul A Ai) (ident n) && mat_eqb n (mat_mul Ai A) (ident n).
  Definition mat_inv_v (A : list (list F)) : option (list (list F)) :=
    match mat_inv A with
    | Some Ai => if inv_ok A Ai then Some Ai else None
    | None => None
    end.

  (** godambe = H J^-1 H ; uncertainties^2 = diag (G^-1) ; LRT adjust = k / trace (J H^-1) ;
      Wald = d^T G d, d^T H d ; score = cU^T J^-1 cU, cU^T H^-1 cU *)
  Definition gim (Hm Jm : list (list F)) : option (list (list F)) :=
    match mat_inv_v Jm with None => None | Some Ji => Some (mat_mul (mat_mul Hm Ji) Hm) end.
  Definition var_of (M : list (list F)) : option (list F) :=
    match mat_inv_v M with None => None | Some Mi => Some (diag Mi) end.
  Definition lrt_adjust (Hm Jm : list (list F)) : option F :=
    match mat_inv_v Hm with None => None | Some Hi => Some (nofnat (length Hm) / trace (mat_mul Jm Hi)) end.
  Definition qform (M : list (list F)) (v : list F) : F := ndot v (mat_vec M v).
  Definition qform_inv (M : list (list F)) (v : list F) : option F :=
    match mat_inv_v M with None => None | Some Mi => Some (qform Mi v) end.

  (** ** LRT_adjust / Wald_stat / score_stat as functions of (H, J, cU) and of the caller's index / value lists *)
  (** numpy.asarray(v)[idx] *)
  Definition select (idx : list nat) (v : list F) : list F := map (fun i => nth i v n0) idx.
  Definition vsub (a b : list F) : list F := map (fun p => fst p - snd p) (combine a b).
  (** Wald_stat, the parameter difference.  [theta] = Some theta_opt when multinom=True: p0 is extended by theta_opt, and so
      is full_params when it has the length of p0.  Then full_params is reduced with the nested indices when it has the
      length of (the extended) p0; anything else must have one value per nested index (else KeyError: None).
        param_diff = full_params - numpy.asarray(p0)[nested_indices] *)
  Definition wald_diff (theta : option F) (p0 : list F) (idx : list nat) (full_params : list F) : option (list F) :=
    let p0' := match theta with Some th => p0 ++ [th] | None => p0 end in
    let fp := match theta with
              | Some th => if Nat.eqb (length full_params) (length p0) then full_params ++ [th] else full_params
              | None => full_params end in
    let fp' := if Nat.eqb (length fp) (length p0') then select idx fp else fp in
    if Nat.eqb (length fp') (length idx) then Some (vsub fp' (select idx p0')) else None.
  (** (adjusted, unadjusted) *)
  Definition wald_stat (Hm Jm : list (list F)) (d : list F) : option (F * F) :=
    match gim Hm Jm with None => None | Some G => Some (qform G d, qform Hm d) end.
  Definition score_stat (Hm Jm : list (list F)) (cU : list F) : option (F * F) :=
    match qform_inv Jm cU, qform_inv Hm cU with Some a, Some o => Some (a, o) | _, _ => None end.
  (** the nested parameters listed in another order: rows and columns of H, J and the entries of cU, param_diff are
      re-listed alike ([idx] then holds positions in the old listing) *)
  Definition sub_mat (idx : list nat) (M : list (list F)) : list (list F) := map (fun i => select idx (nth i M [])) idx.
End Godambe.
