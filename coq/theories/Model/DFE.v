(** * DFE: integration of cached spectra over a distribution of fitness effects
    (dadi/DFE/Cache1D_mod.py, Cache2D_mod.py, Vourlaki2022.py).

    Executable model only, no proofs.  Everything is *entrywise*: a cached spectrum is represented by one of
    its entries (a number); the implementation applies the same arithmetic to every entry by broadcasting,
    and the correspondence check runs the model once per unmasked entry.

    What is an input (oracle) and what is computed:
    - the cached spectra, the gamma grid, the values of the pdf on the grid are inputs (read back from the
      implementation objects / recorded from its calls);
    - the integrals of the pdf outside the cached range ([scipy.integrate.quad] / [dblquad]) are inputs
      ([wneu], [wdel], record [tails2]); for the 1-D tails the REGION is part of the model ([tails_on]: the oracle is
      quad as a function of the parameter vector and the limits, the limits are derived from the grid of the cache the
      component is integrated over); for the 2-D tails the harness compares the limits the code hands to quad with the
      documented regions and substitutes independently computed integrals over the documented regions when they differ;
    - every quadrature, weighting, point-mass and mixture formula, the order of the terms, where theta enters,
      what is written to the cache, and which slice of the parameter vector goes where is computed here.

    Functions with a [rep : bool] argument exist in two variants: [rep = false] is the snapshot as written,
    [rep = true] the minimal repair proposed for a defect (the correspondence accepts whichever variant the
    source under test implements; the property predicates decide whether that is a violation). *)
From Coq Require Import ZArith List Bool.
From Dadi Require Import Base.Num.
Import ListNotations.
Local Open Scope num_scope.

Section DFE.
  Context {F : Type} `{Num F}.

  Definition zipmul (a b : list F) : list F := map (fun p => fst p * snd p) (combine a b).
  Definition zipmul2 (A B : list (list F)) : list (list F) := map (fun p => zipmul (fst p) (snd p)) (combine A B).
  Definition col (j : nat) (M : list (list F)) : list F := map (fun r => nth j r n0) M.
  Definition entry (i j : nat) (M : list (list F)) : F := nth j (nth i M []) n0.

  (** numpy.trapz(y, x): sum_i (x[i+1]-x[i]) * (y[i+1]+y[i]) / 2 *)
  Fixpoint trapz (ys xs : list F) : F :=
    match ys, xs with
    | y0 :: ((y1 :: _) as ys'), x0 :: ((x1 :: _) as xs') => (x1 - x0) * (y1 + y0) / n2 + trapz ys' xs'
    | _, _ => n0
    end.

  (** ** Cache1D.integrate
      [xs] = neg_gammas (ascending, negative), [ws] = sel_dist(-neg_gammas, params), [ss] = spectra[:Nneg] (one entry),
      [neu] = neu_spec (same entry), [wneu] = quad(sel_dist, 0, -neg_gammas[-1]), [wdel] = quad(sel_dist, -neg_gammas[0], inf). *)
  Definition integrate1d (ext : bool) (theta : F) (xs ws ss : list F) (neu wneu wdel : F) : F :=
    let fs := trapz (zipmul ws ss) xs in
    if ext then theta * ((fs + neu * wneu) + hd n0 ss * wdel) else theta * fs.

  (** total quadrature weight of the 1-D rule *)
  Definition total_weight1d (xs ws : list F) (wneu wdel : F) : F := (trapz ws xs + wneu) + wdel.

  (** ** Cache1D.integrate_point_pos
      State of the cache object: [gs] = self.gammas, [sp] = self.spectra (one entry per cached gamma).
      [demo] = the demographic function handed in (None: not given), as a map gamma -> that entry of its spectrum. *)
  Fixpoint index_of (g : F) (gs : list F) : option nat :=
    match gs with
    | [] => None
    | x :: t => if x =? g then Some 0%nat else option_map S (index_of g t)
    end.

  (** parameter slicing: pdf_params = params[:-2*Npos]; (ppos_i, gammapos_i) = the remaining pairs *)
  Fixpoint pairs (l : list F) : list (F * F) :=
    match l with a :: b :: t => (a, b) :: pairs t | _ => [] end.
  Definition pp1_params (npos : nat) (params : list F) : list F * list (F * F) :=
    let k := (length params - 2 * npos)%nat in (firstn k params, pairs (skipn k params)).

  Definition pp_state : Type := (list F * list F * F)%type.   (* gammas, spectra, running result *)

  Definition pp_step (rep : bool) (theta : F) (demo : option (F -> F)) (st : pp_state) (pm : F * F) : option pp_state :=
    let '(gs, sp, result) := st in
    let (ppos, gpos) := pm in
    let wt := if rep then theta * ppos else ppos in          (* snapshot: result += ppos*pos_fs *)
    match index_of gpos gs with
    | Some i => Some (gs, sp, result + wt * nth i sp n0)
    | None =>
      match demo with
      | None => None                                          (* IndexError *)
      | Some f =>
        let pos := if rep then f gpos else theta * f gpos in  (* snapshot: theta is baked into the cached spectrum *)
        let gs' := gs ++ [gpos] in
        let sp' := sp ++ [pos] in
        match index_of gpos gs' with
        | Some i => Some (gs', sp', result + wt * nth i sp' n0)
        | None => None
        end
      end
    end.

  Fixpoint pp_fold (rep : bool) (theta : F) (demo : option (F -> F)) (st : pp_state) (pms : list (F * F)) : option pp_state :=
    match pms with
    | [] => Some st
    | pm :: t => match pp_step rep theta demo st pm with None => None | Some st' => pp_fold rep theta demo st' t end
    end.

  (** [pdf_fs] = self.integrate(pdf_params, ..., theta, exterior_int) *)
  Definition point_pos1d (rep : bool) (theta : F) (demo : option (F -> F)) (gs sp : list F)
             (pdf_fs : F) (pms : list (F * F)) : option pp_state :=
    pp_fold rep theta demo (gs, sp, (n1 - nsum (map fst pms)) * pdf_fs) pms.

  (** ** Cache2D.integrate *)
  (** temp = trapz(Y, xs, axis=0); fs = trapz(temp, xs, axis=0) *)
  Definition trapz2 (Y : list (list F)) (xs : list F) : F :=
    trapz (map (fun j => trapz (col j Y) xs) (seq 0 (length xs))) xs.

  Definition rtol_sym : F := n1 / nofZ 1000000000000.
  (** numpy.allclose(T, T.T, atol=0, rtol=1e-12): |a - b| <= rtol * |b| for every entry *)
  Definition allclose_sym (T : list (list F)) : bool :=
    let n := length T in
    forallb (fun i => forallb (fun j => nabs (entry i j T - entry j i T) <=? rtol_sym * nabs (entry j i T)) (seq 0 n)) (seq 0 n).

  (** oracle integrals outside the cached square; indices follow the code's names:
      [q1low j]  = quad over gamma1 in (min_gamma, inf)  at gamma2 = grid point j   (min_gamma = -neg_gammas[0])
      [q1high j] = quad over gamma1 in (0, max_gamma)     at gamma2 = grid point j   (max_gamma = -neg_gammas[-1])
      [q2low i], [q2high i] the same over gamma2 at gamma1 = grid point i (only evaluated when the pdf is not symmetric)
      [c_nn] both neutral; [c_dn] gamma1 deleterious, gamma2 neutral; [c_nd] gamma1 neutral, gamma2 deleterious. *)
  Record tails2 := { q1low : list F; q1high : list F; q2low : list F; q2high : list F; c_nn : F; c_dn : F; c_nd : F }.

  (** [S] = spectra[:Nneg,:Nneg] (one entry), [W] = sel_dist(-neg_gammas, -neg_gammas, params) *)
  Definition integrate2d (ext sym : bool) (theta : F) (xs : list F) (W S : list (list F)) (t : tails2) : F :=
    let fs := trapz2 (zipmul2 W S) xs in
    if negb ext then theta * fs else
    let n := length xs in
    let w2low := if sym then q1low t else q2low t in
    let w2high := if sym then q1high t else q2high t in
    let fs := fs + trapz (zipmul (col 0 S) w2low) xs in                 (* strongly deleterious gamma2, in-range gamma1 *)
    let fs := fs + trapz (zipmul (col (n - 1) S) w2high) xs in          (* neutral gamma2, in-range gamma1 *)
    let fs := fs + trapz (zipmul (nth 0 S []) (q1low t)) xs in          (* strongly deleterious gamma1, in-range gamma2 *)
    let fs := fs + trapz (zipmul (nth (n - 1) S []) (q1high t)) xs in   (* neutral gamma1, in-range gamma2 *)
    let fs := fs + entry (n - 1) (n - 1) S * c_nn t in
    let fs := fs + entry 0 (n - 1) S * c_dn t in
    let weight := if sym then c_dn t else c_nd t in                     (* the symmetric shortcut re-uses `weight` *)
    let fs := fs + entry (n - 1) 0 S * weight in
    theta * fs.

  Definition total_weight2d (sym : bool) (xs : list F) (W : list (list F)) (t : tails2) : F :=
    trapz2 W xs
    + trapz (if sym then q1low t else q2low t) xs + trapz (if sym then q1high t else q2high t) xs
    + trapz (q1low t) xs + trapz (q1high t) xs
    + c_nn t + c_dn t + (if sym then c_dn t else c_nd t).

  (** ** Cache2D.integrate_point_pos *)
  Fixpoint find_all_from (k : nat) (g : F) (gs : list F) : list nat :=
    match gs with
    | [] => []
    | x :: t => if x =? g then k :: find_all_from (S k) g t else find_all_from (S k) g t
    end.
  (** self.spectra[self.gammas == g1, self.gammas == g2][0]: modelled for gammas matched exactly once
      (no match on either side: IndexError; repeated additional_gammas are not modelled -> None) *)
  Definition pick2 (g1 g2 : F) (gs : list F) : option (nat * nat) :=
    match find_all_from 0 g1 gs, find_all_from 0 g2 gs with
    | [i], [j] => Some (i, j)
    | _, _ => None
    end.

  (** quadrant weights; [sq] = sqrt(ppos1*ppos2) (computed by numpy; an input here) *)
  Definition p_pos_pos (rho p1 p2 sq : F) : F := p1 * p2 + rho * (sq - p1 * p2).
  Definition p_pos_neg (rho p1 p2 : F) : F := (n1 - rho) * p1 * (n1 - p2).
  Definition p_neg_pos (rho p1 p2 : F) : F := (n1 - rho) * (n1 - p1) * p2.
  Definition p_neg_neg (rho p1 p2 sq : F) : F := (n1 - p1) * (n1 - p2) + rho * (n1 - sq - (n1 - p1) * (n1 - p2)).

  (** [Sfull] = self.spectra over all gammas (negative grid first, then additional_gammas), [gs] = self.gammas;
      [rho = None] models the Python value None reaching the arithmetic (TypeError). *)
  Definition point_pos2d (sym : bool) (theta : F) (rho : option F) (xs gs : list F) (W Sfull : list (list F)) (t : tails2)
             (p1 g1 p2 g2 sq : F) : option F :=
    let n := length xs in
    let Sneg := map (firstn n) (firstn n Sfull) in
    let neg_neg := integrate2d true sym n1 xs W Sneg t in
    match pick2 g1 g2 gs with
    | None => None
    | Some (i1, i2) =>
      let pos_pos := entry i1 i2 Sfull in
      let pos_neg_w := map (fun j => trapz (col j W) xs) (seq 0 n) in          (* trapz(weights, axis=0) *)
      let pos_neg := trapz (zipmul pos_neg_w (firstn n (nth i1 Sfull []))) xs in
      let neg_pos_w := map (fun r => trapz r xs) W in                           (* trapz(weights, axis=1) *)
      let neg_pos := trapz (zipmul neg_pos_w (firstn n (col i2 Sfull))) xs in
      match rho with
      | None => None
      | Some rho =>
        Some (theta * (p_pos_pos rho p1 p2 sq * pos_pos + p_pos_neg rho p1 p2 * pos_neg
                       + p_neg_pos rho p1 p2 * neg_pos + p_neg_neg rho p1 p2 sq * neg_neg))
      end
    end.

  (** total weight of the point-mass rule when every cached spectrum is the same *)
  Definition total_weight_pp2d (sym : bool) (rho : F) (xs : list F) (W : list (list F)) (t : tails2) (p1 p2 sq : F) : F :=
    p_pos_pos rho p1 p2 sq
    + p_pos_neg rho p1 p2 * trapz (map (fun j => trapz (col j W) xs) (seq 0 (length xs))) xs
    + p_neg_pos rho p1 p2 * trapz (map (fun r => trapz r xs) W) xs
    + p_neg_neg rho p1 p2 sq * total_weight2d sym xs W t.

  (** ** parameter plumbing and mixtures.
      The pdfs enter as oracle functions of the parameter vector they are called with:
      [pdf1 p] = sel_dist1(-s1.neg_gammas, p), [tl1 p] = (weight_neu, weight_del),
      [pdf2 p] = sel_dist2 on s2's grid, [sym2 p] = result of the symmetry test, [tl2 p] = the 2-D tails. *)
  Definition but_last (k : nat) (l : list F) : list F := firstn (length l - k) l.
  Definition last_k (k : nat) (l : list F) : list F := skipn (length l - k) l.

  Record cache1 := { c1_xs : list F; c1_gs : list F; c1_sp : list F; c1_neu : F }.
  Record cache2 := { c2_xs : list F; c2_gs : list F; c2_S : list (list F) }.
  Record oracle := { pdf1 : list F -> list F; tl1 : list F -> F * F;
                     pdf2 : list F -> list (list F); sym2 : list F -> bool; tl2 : list F -> tails2;
                     osqrt : F -> F }.

  Definition c1_integrate (o : oracle) (c : cache1) (ext : bool) (theta : F) (params : list F) : F :=
    integrate1d ext theta (c1_xs c) (pdf1 o params) (firstn (length (c1_xs c)) (c1_sp c)) (c1_neu c)
                (fst (tl1 o params)) (snd (tl1 o params)).

  Definition c1_point_pos (o : oracle) (c : cache1) (rep ext : bool) (theta : F) (demo : option (F -> F)) (npos : nat)
             (params : list F) : option pp_state :=
    let (pdfp, pms) := pp1_params npos params in
    point_pos1d rep theta demo (c1_gs c) (c1_sp c) (c1_integrate o c ext theta pdfp) pms.

  Definition c2_Sneg (c : cache2) : list (list F) :=
    let n := length (c2_xs c) in map (firstn n) (firstn n (c2_S c)).

  Definition c2_integrate (o : oracle) (c : cache2) (ext : bool) (theta : F) (params : list F) : F :=
    integrate2d ext (sym2 o params) theta (c2_xs c) (pdf2 o params) (c2_Sneg c) (tl2 o params).

  (** biv_params = params[:-4]; ppos1, gammapos1, ppos2, gammapos2 = params[-4:] *)
  Definition c2_point_pos (o : oracle) (c : cache2) (theta : F) (rho : option F) (params : list F) : option F :=
    let bp := but_last 4 params in
    match last_k 4 params with
    | [p1; g1; p2; g2] =>
      point_pos2d (sym2 o bp) theta rho (c2_xs c) (c2_gs c) (pdf2 o bp) (c2_S c) (tl2 o bp) p1 g1 p2 g2 (osqrt o (p1 * p2))
    | _ => None
    end.

  (** seldist_params = params[:-2]; rho = seldist_params[-1]; ppos, gammapos = params[-2:];
      params = seldist_params ++ [ppos, gammapos, ppos, gammapos] *)
  Definition c2_sym_point_pos (o : oracle) (c : cache2) (theta : F) (params : list F) : option F :=
    let sp := but_last 2 params in
    let rho := last sp n0 in
    let tl := last_k 2 params in
    c2_point_pos o c theta (Some rho) (sp ++ tl ++ tl).

  (** mixture: fs1 = s1.integrate(params[:-2]), fs2 = s2.integrate(params[:-1]), p2d = params[-1] *)
  Definition mixture (o : oracle) (s1 : cache1) (s2 : cache2) (ext : bool) (theta : F) (params : list F) : F :=
    let fs1 := c1_integrate o s1 ext theta (but_last 2 params) in
    let fs2 := c2_integrate o s2 ext theta (but_last 1 params) in
    let p2d := last params n0 in
    (n1 - p2d) * fs1 + p2d * fs2.

  Definition opt_mix (p2d : F) (fs1 : option pp_state) (fs2 : option F) : option F :=
    match fs1, fs2 with
    | Some (_, _, r1), Some r2 => Some ((n1 - p2d) * r1 + p2d * r2)
    | _, _ => None
    end.

  (** mixture_symmetric_point_pos: pdf_params = params[:-4]; rho, ppos, gamma_pos, p2d = params[-4:].
      snapshot:  params2 = pdf_params ++ [rho, ppos, gamma_pos, ppos, gamma_pos]   (integrate_symmetric_point_pos reads two)
      repaired:  params2 = pdf_params ++ [rho, ppos, gamma_pos] *)
  Definition mixture_sym_point_pos (o : oracle) (s1 : cache1) (s2 : cache2) (rep1 rep : bool) (theta : F) (params : list F) : option F :=
    let pdfp := but_last 4 params in
    match last_k 4 params with
    | [rho; ppos; gpos; p2d] =>
      let fs1 := c1_point_pos o s1 rep1 true theta None 1 (pdfp ++ [ppos; gpos]) in
      let params2 := if rep then pdfp ++ [rho; ppos; gpos] else pdfp ++ [rho; ppos; gpos; ppos; gpos] in
      opt_mix p2d fs1 (c2_sym_point_pos o s2 theta params2)
    | _ => None
    end.

  (** mixture_point_pos: rho, ppos1, gamma_pos1, ppos2, gamma_pos2, p2d = params[-6:].
      snapshot:  s2.integrate_point_pos(params2, None, sel_dist2, theta, None)  -- the fifth positional argument is rho
      repaired:  rho is passed *)
  Definition mixture_point_pos (o : oracle) (s1 : cache1) (s2 : cache2) (rep1 rep : bool) (theta : F) (params : list F) : option F :=
    let pdfp := but_last 6 params in
    match last_k 6 params with
    | [rho; p1; g1; p2; g2; p2d] =>
      let fs1 := c1_point_pos o s1 rep1 true theta None 1 (pdfp ++ [p1; g1]) in
      let params2 := pdfp ++ [rho; p1; g1; p2; g2] in
      opt_mix p2d fs1 (c2_point_pos o s2 theta (if rep then Some rho else None) params2)
    | _ => None
    end.

  (** ** Vourlaki_mixture (params = alpha, beta, ppos_wild, gamma_pos, pchange, pchange_pos).
      [w1],[wneu1],[wdel1]: PDFs.gamma on s1's grid and its tails (m5 = s1.integrate(..., theta = 1));
      [W2],[sym],[t2]: PDFs.biv_ind_gamma on s2's grid (m6 = s2.integrate(..., theta = 1));
      [w2],[wneu2],[wdel2]: PDFs.gamma on s2's grid and the tails over s2's range. *)
  Definition vourlaki (theta : F) (s1 : cache1) (s2 : cache2) (w1 : list F) (wneu1 wdel1 : F)
             (W2 : list (list F)) (sym : bool) (t2 : tails2) (w2 : list F) (wneu2 wdel2 : F)
             (ppos_wild gamma_pos pchange pchange_pos : F) : option F :=
    let m5 := integrate1d true n1 (c1_xs s1) w1 (firstn (length (c1_xs s1)) (c1_sp s1)) (c1_neu s1) wneu1 wdel1 in
    let m6 := integrate2d true sym n1 (c2_xs s2) W2 (c2_Sneg s2) t2 in
    match pick2 gamma_pos gamma_pos (c2_gs s2) with
    | None => None
    | Some (i1, i2) =>
      let n := length (c2_xs s2) in
      let m2 := entry i1 i2 (c2_S s2) in
      let m3 := m2 in
      let pos_neg := firstn n (nth i1 (c2_S s2) []) in
      let neg_pos := firstn n (col i2 (c2_S s2)) in
      let m4 := trapz (zipmul w2 pos_neg) (c2_xs s2) in
      let m7 := trapz (zipmul w2 neg_pos) (c2_xs s2) in
      let m4 := m4 + hd n0 pos_neg * wdel2 in
      let m4 := m4 + last pos_neg n0 * wneu2 in
      let m7 := m7 + hd n0 neg_pos * wdel2 in
      let m7 := m7 + last neg_pos n0 * wneu2 in
      let fs := m5 * (n1 - ppos_wild) * (n1 - pchange)
                + m6 * (n1 - ppos_wild) * pchange * (n1 - pchange_pos)
                + m7 * (n1 - ppos_wild) * pchange * pchange_pos
                + m2 * ppos_wild * (n1 - pchange)
                + m3 * ppos_wild * pchange * pchange_pos
                + m4 * ppos_wild * pchange * (n1 - pchange_pos) in
      Some (theta * fs)
    end.

  (** ** which region belongs to which cache.
      The two tail masses are integrals of the 1-D pdf over the part of (0, inf) that a cache's OWN grid [xs]
      (= neg_gammas: ascending, negative) does not cover: the neutral tail (0, -xs[-1]) and the lethal tail (-xs[0], inf).
      [Qd p lo hi] = scipy.integrate.quad(pdf, lo, hi, args=p)  ([hi = None]: +infinity) is the oracle; the regions are
      computed here, per cache.  A function that combines several caches (Vourlaki_mixture: m5 over s1's grid, m4 and m7
      over s2's grid) takes each component's tails on the grid the component's trapezoid runs over. *)
  Definition neu_hi (xs : list F) : F := n0 - last xs n0.
  Definition del_lo (xs : list F) : F := n0 - hd n0 xs.
  Definition tails_on (Qd : list F -> F -> option F -> F) (p xs : list F) : F * F :=
    (Qd p n0 (Some (neu_hi xs)), Qd p (del_lo xs) None).

  (** Cache1D.integrate with the tails of its own grid *)
  Definition integrate1d_q (Qd : list F -> F -> option F -> F) (ext : bool) (theta : F) (p xs ws ss : list F) (neu : F) : F :=
    integrate1d ext theta xs ws ss neu (fst (tails_on Qd p xs)) (snd (tails_on Qd p xs)).

  (** Vourlaki_mixture; [ab] = [alpha; beta] *)
  Definition vourlaki_q (Qd : list F -> F -> option F -> F) (theta : F) (s1 : cache1) (s2 : cache2) (w1 : list F)
             (W2 : list (list F)) (sym : bool) (t2 : tails2) (w2 : list F) (ab : list F)
             (ppos_wild gamma_pos pchange pchange_pos : F) : option F :=
    let ta := tails_on Qd ab (c1_xs s1) in
    let tb := tails_on Qd ab (c2_xs s2) in
    vourlaki theta s1 s2 w1 (fst ta) (snd ta) W2 sym t2 w2 (fst tb) (snd tb) ppos_wild gamma_pos pchange pchange_pos.
End DFE.
