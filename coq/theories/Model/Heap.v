(** C20 — a tiny heap of arrays, the two entry protocols of the integrators, views, and the
    save/mutate/restore protocol of Spectrum.S (executable definitions only, no proofs).

    An address is an index into the heap; a buffer is a flat list of numbers.  A compiled kernel is ANY
    function on buffers ([kern]): it receives the raw memory of the array it is handed (phi.data), works
    on it as if it were C-contiguous and stores the result in the same memory.

      copy protocol    (one_pop, two_pops, three_pops):   phi = phi.copy(); kernels on phi; return phi
      in-place protocol (four_pops, five_pops as found):  kernels on the argument; return the argument

    A numpy view is (base address, index map): logical element i is raw element idx[i] (this covers
    transposes, slices, negative strides).  ndarray.copy() materialises the logical content into a new,
    contiguous buffer. *)
From Coq Require Import List Arith Bool.
Import ListNotations.

Section Heap.
  Variable V : Type.
  Variable d : V.                                  (* default element *)

  Definition buffer := list V.
  Definition heap := list buffer.

  Definition read (h : heap) (p : nat) : buffer := nth p h [].
  Fixpoint write (h : heap) (p : nat) (b : buffer) : heap :=
    match h, p with
    | [], _ => []
    | _ :: t, O => b :: t
    | x :: t, S p' => x :: write t p' b
    end.
  Definition alloc (h : heap) (b : buffer) : heap * nat := (h ++ [b], length h).

  Variable kern : buffer -> buffer.                (* the compiled kernels, T > 0 *)

  (** the protocol a translator extracts from one integrator *)
  Record protocol := { copies_at_entry : bool;       (* first effective statement is  phi = phi.copy() *)
                       early_return_before_copy : bool  (* a  return phi  for T == 0 precedes any copy *) }.
  Definition copy_protocol := {| copies_at_entry := true; early_return_before_copy := false |}.
  Definition inplace_protocol := {| copies_at_entry := false; early_return_before_copy := true |}.

  (** plain (contiguous) arrays: argument = address *)
  Definition integ_copy (h : heap) (p : nat) : heap * nat :=
    let (h1, q) := alloc h (read h p) in (write h1 q (kern (read h1 q)), q).
  Definition integ_inplace (h : heap) (p : nat) : heap * nat :=
    (write h p (kern (read h p)), p).

  (** [tzero]: the call has T - initial_t == 0 *)
  Definition integrate (pr : protocol) (tzero : bool) (h : heap) (p : nat) : heap * nat :=
    if copies_at_entry pr then
      (if tzero then alloc h (read h p) else integ_copy h p)
    else if tzero then
      (if early_return_before_copy pr then (h, p) else alloc h (read h p))
    else integ_inplace h p.

  (** views *)
  Record view := { v_base : nat; v_idx : list nat }.
  Definition contiguous (p n : nat) : view := {| v_base := p; v_idx := seq 0 n |}.
  Definition logical (h : heap) (v : view) : buffer := map (fun i => nth i (read h (v_base v)) d) (v_idx v).

  (** phi.copy() of a view, then the kernels on the (contiguous) copy: result is a contiguous array *)
  Definition integ_copy_view (h : heap) (v : view) : heap * view :=
    let (h1, q) := alloc h (logical h v) in
    (write h1 q (kern (read h1 q)), contiguous q (length (v_idx v))).
  (** kernels handed the data pointer of the view: they transform the RAW memory; the view is returned *)
  Definition integ_inplace_view (h : heap) (v : view) : heap * view :=
    (write h (v_base v) (kern (read h (v_base v))), v).

  (** Spectrum.S():  oldmask = self.mask.copy(); self.mask_corners(); S = self.sum(); self.mask = oldmask *)
  Variable R : Type.
  Variable mutate : buffer -> buffer.              (* mask_corners on the mask buffer *)
  Variable observe : heap -> R.                    (* self.sum() *)
  Definition save_mutate_restore (h : heap) (p : nat) : heap * R :=
    let saved := read h p in
    let h1 := write h p (mutate saved) in
    let r := observe h1 in
    (write h1 p saved, r).

  (** A Spectrum (a numpy masked array) is a PAIR of buffers: the data and the mask.  The arithmetic operators generated in
      Spectrum_mod.py ( __add__, __radd__, __mul__, ... ) compute
          newdata = self.data.__op__(other)          -- always a new buffer
          newmask = self.mask                        -- the operand's OWN mask buffer (when the other operand has none)
          return Spectrum.__new__(cls, newdata, newmask, ...)      -- the constructor: numpy.ma.masked_array(data, mask=mask, copy=copy)
      The constructor's default copy=True copies BOTH buffers; with copy=False numpy.ma keeps both, so the result's mask is the
      operand's mask (the data is the temporary, which nobody else holds). *)
  Record spectrum := { s_data : nat; s_mask : nat }.
  Variable op : buffer -> buffer.                  (* the elementwise arithmetic on the data buffer *)
  Record arith_protocol := { ctor_copies : bool }. (* the constructor call of the operator template copies its inputs *)
  Definition arith_copy_protocol := {| ctor_copies := true |}.
  Definition arith_nocopy_protocol := {| ctor_copies := false |}.

  Definition arith_copy (h : heap) (s : spectrum) : heap * spectrum :=
    let (h1, nd) := alloc h (op (read h (s_data s))) in
    let (h2, qd) := alloc h1 (read h1 nd) in
    let (h3, qm) := alloc h2 (read h2 (s_mask s)) in
    (h3, {| s_data := qd; s_mask := qm |}).
  Definition arith_nocopy (h : heap) (s : spectrum) : heap * spectrum :=
    let (h1, nd) := alloc h (op (read h (s_data s))) in
    (h1, {| s_data := nd; s_mask := s_mask s |}).
  Definition arith (pr : arith_protocol) (h : heap) (s : spectrum) : heap * spectrum :=
    if ctor_copies pr then arith_copy h s else arith_nocopy h s.

  (** what a later computation on a spectrum sees: any function of its two buffers (sum, S, ll, ...) *)
  Definition observe_spectrum {O : Type} (obs : buffer -> buffer -> O) (h : heap) (s : spectrum) : O :=
    obs (read h (s_data s)) (read h (s_mask s)).
End Heap.

Arguments read {V} h p.
Arguments write {V} h p b.
Arguments alloc {V} h b.
Arguments integ_copy {V} kern h p.
Arguments integ_inplace {V} kern h p.
Arguments integrate {V} kern pr tzero h p.
Arguments logical {V} d h v.
Arguments integ_copy_view {V} d kern h v.
Arguments integ_inplace_view {V} kern h v.
Arguments save_mutate_restore {V} {R} mutate observe h p.
Arguments arith_copy {V} op h s.
Arguments arith_nocopy {V} op h s.
Arguments arith {V} op pr h s.
Arguments observe_spectrum {V} {O} obs h s.

(** the observable of the witnesses: sum of the data entries whose mask entry is 0 (fs.sum() of a masked array) *)
Fixpoint msum (data mask : list nat) : nat :=
  match data, mask with
  | x :: dt, m :: mt => (if Nat.eqb m 0 then x else 0) + msum dt mt
  | _, _ => 0
  end.
