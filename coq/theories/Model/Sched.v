(** * Sched: the cache-generation protocol of Cache1D/Cache2D (_multiple_processes, _worker_sfs, _single_process),
    split_jobs and Cache2D.merge.  Executable model only; purely combinatorial (no Num).

    A job is (index, gamma).  The manager queue hands jobs out in FIFO order; each of [k] workers repeatedly
    pops a job, evaluates the demographic function [f] on it and appends (index, spectrum) -- or, if [f] raised,
    the exception object -- to the shared result list.  Pop and append are separate atomic actions, so between
    a worker's pop and its append any other worker may act: a *schedule* is an arbitrary list of worker ids,
    each occurrence letting that worker perform its next action.  The parent joins all workers (queue empty,
    nobody holds a job: [done]) and then places the results by index. *)
From Coq Require Import List Arith Bool.
Import ListNotations.

Section Sched.
  Variables G V E : Type.           (* gamma (or a pair of gammas), spectrum, exception object *)
  Variable f : G -> V + E.          (* the demographic function: a spectrum, or it raised *)

  Definition job : Type := (nat * G)%type.
  Inductive res := Res (i : nat) (v : V) | ErrObj (e : E).

  (** body of the worker loop: outlist.append((ii, sfs))  /  except BaseException as inst: outlist.append(inst) *)
  Definition run (j : job) : res :=
    match f (snd j) with inl v => Res (fst j) v | inr e => ErrObj e end.

  Record state := mk { queue : list job; hold : list (nat * job); results : list res }.
  Definition init (js : list job) : state := mk js [] [].

  Fixpoint take (w : nat) (h : list (nat * job)) : option (job * list (nat * job)) :=
    match h with
    | [] => None
    | (w', j) :: t => if Nat.eqb w' w then Some (j, t)
                      else match take w t with Some (j', t') => Some (j', (w', j) :: t') | None => None end
    end.

  (** one action of worker [w]: append if it holds a job, else pop the head of the queue
      (an idle worker finding the queue empty receives the None sentinel and returns) *)
  Definition step (k : nat) (s : state) (w : nat) : state :=
    if Nat.leb k w then s else
    match take w (hold s) with
    | Some (j, h') => mk (queue s) h' (results s ++ [run j])
    | None => match queue s with
              | j :: q => mk q ((w, j) :: hold s) (results s)
              | [] => s
              end
    end.

  Definition exec (k : nat) (js : list job) (sigma : list nat) : state := fold_left (step k) sigma (init js).
  Definition done (s : state) : Prop := queue s = [] /\ hold s = [].
  Definition doneb (s : state) : bool := match queue s, hold s with [], [] => true | _, _ => false end.

  (** the collector:  for ii, sfs in results: self.spectra[ii] = sfs   (unpacking an exception object raises) *)
  Fixpoint set_nth {A : Type} (i : nat) (x : A) (l : list A) : list A :=
    match l, i with
    | [], _ => []
    | _ :: t, O => x :: t
    | a :: t, S i' => a :: set_nth i' x t
    end.
  Fixpoint collect (rs : list res) (acc : list (option V)) : option (list (option V)) :=
    match rs with
    | [] => Some acc
    | Res i v :: t => collect t (set_nth i (Some v) acc)
    | ErrObj _ :: _ => None
    end.
  (** numpy.array(self.spectra): an entry left at None makes the conversion fail *)
  Fixpoint all_some (l : list (option V)) : option (list V) :=
    match l with
    | [] => Some []
    | Some v :: t => option_map (cons v) (all_some t)
    | None :: _ => None
    end.

  (** job list: enumerate(self.gammas) *)
  Definition jobs_of (gammas : list G) : list job := combine (seq 0 (length gammas)) gammas.
  (** split_jobs: job number this_eval belongs to this run iff this_eval % split_jobs == this_job_id *)
  Definition split_filter (s id : nat) (js : list job) : list job :=
    filter (fun j => Nat.eqb (fst j mod s) id) js.

  (** multi-process build of one (split) cache: [n] slots *)
  Definition build_slots (k : nat) (n : nat) (js : list job) (sigma : list nat) : option (list (option V)) :=
    collect (results (exec k js sigma)) (repeat None n).
  Definition build1d (k : nat) (gammas : list G) (sigma : list nat) : option (list V) :=
    match build_slots k (length gammas) (jobs_of gammas) sigma with
    | None => None
    | Some acc => all_some acc
    end.
  Definition build_split (k s id : nat) (gammas : list G) (sigma : list nat) : option (list (option V)) :=
    build_slots k (length gammas) (split_filter s id (jobs_of gammas)) sigma.

  (** single-process loop: evaluates the selected jobs in order; the first exception propagates *)
  Fixpoint single_slots (js : list job) (acc : list (option V)) : option (list (option V)) :=
    match js with
    | [] => Some acc
    | j :: t => match f (snd j) with
                | inl v => single_slots t (set_nth (fst j) (Some v) acc)
                | inr _ => None
                end
    end.
  Definition single1d (gammas : list G) : option (list V) :=
    match single_slots (jobs_of gammas) (repeat None (length gammas)) with
    | None => None
    | Some acc => all_some acc
    end.
  Definition single_split (s id : nat) (gammas : list G) : option (list (option V)) :=
    single_slots (split_filter s id (jobs_of gammas)) (repeat None (length gammas)).

  (** ** Cache2D.merge (spectra as a flat list of slots; [veq a b] = np.all(a == b)) *)
  Variable veq : V -> V -> bool.
  Inductive mres := MOk (c : list V) | MConflict | MIncomplete | MEmpty.

  Fixpoint merge1 (new other : list (option V)) : option (list (option V)) :=
    match new, other with
    | a :: n', b :: o' =>
      match b with
      | None => option_map (cons a) (merge1 n' o')
      | Some fs =>
        match a with
        | Some x => if veq x fs then option_map (cons (Some fs)) (merge1 n' o') else None   (* ValueError: conflicts *)
        | None => option_map (cons (Some fs)) (merge1 n' o')
        end
      end
    | _, _ => Some new          (* caches of different shape are not modelled (IndexError in the code) *)
    end.
  Fixpoint merge_all (new : list (option V)) (others : list (list (option V))) : option (list (option V)) :=
    match others with
    | [] => Some new
    | o :: t => match merge1 new o with None => None | Some n' => merge_all n' t end
    end.
  Definition merge (caches : list (list (option V))) : mres :=
    match caches with
    | [] => MEmpty                                       (* caches[0]: IndexError *)
    | c0 :: others =>
      match merge_all c0 others with
      | None => MConflict
      | Some new => match all_some new with Some c => MOk c | None => MIncomplete end
      end
    end.
End Sched.

Arguments Res {V E}.
Arguments ErrObj {V E}.
Arguments MOk {V}.
Arguments MConflict {V}.
Arguments MIncomplete {V}.
Arguments MEmpty {V}.
Arguments mk {G}.
