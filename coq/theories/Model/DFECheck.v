(** Q-side comparison functions used by the generated C17 case files (Model/DFE.v on the NumQ instance,
    Model/Sched.v on integer labels). *)
From Coq Require Import ZArith QArith Qabs List Bool.
From Dadi Require Import Base.Num Base.NumQ Model.DFE Model.Sched.
Import ListNotations.

Definition Qlist_eqb (a b : list Q) : bool :=
  Nat.eqb (length a) (length b) && forallb (fun p => Qeq_bool (fst p) (snd p)) (combine a b).

Fixpoint lookup {A} (d : A) (k : list Q) (t : list (list Q * A)) : A :=
  match t with [] => d | (k', v) :: r => if Qlist_eqb k k' then v else lookup d k r end.

(** oracle tables recorded from the implementation's calls, keyed by the parameter vector of the call *)
Record tab := { t_pdf1 : list (list Q * list Q);
                t_quad1 : list (list Q * Q * option Q * Q);   (* (params, lo, hi (None: inf)) -> quad(pdf, lo, hi, args=params) *)
                t_pdf2 : list (list Q * list (list Q));
                t_test2 : list (list Q * list (list Q));
                t_tl2 : list (list Q * @tails2 Q) }.

Definition no_tails : @tails2 Q := {| q1low := []; q1high := []; q2low := []; q2high := []; c_nn := 0; c_dn := 0; c_nd := 0 |}.

Definition optQ_eqb (a b : option Q) : bool :=
  match a, b with Some x, Some y => Qeq_bool x y | None, None => true | _, _ => false end.

(** the quad oracle: integrals of the 1-D pdf over the documented regions of every cache of the scenario, computed by
    scipy.integrate.quad on exactly those limits (an integral over a region that is not in the table counts as 0) *)
Fixpoint lookq (t : list (list Q * Q * option Q * Q)) (p : list Q) (lo : Q) (hi : option Q) : Q :=
  match t with
  | [] => 0
  | (p', lo', hi', v) :: r => if Qlist_eqb p p' && Qeq_bool lo lo' && optQ_eqb hi hi' then v else lookq r p lo hi
  end.

(** [xs1] = the grid of the 1-D cache: its integrate takes the tails of that grid *)
Definition mk_oracle (t : tab) (sq : Q) (xs1 : list Q) : @oracle Q :=
  {| pdf1 := fun p => lookup [] p (t_pdf1 t);
     tl1 := fun p => tails_on (lookq (t_quad1 t)) p xs1;
     pdf2 := fun p => lookup [] p (t_pdf2 t);
     sym2 := fun p => allclose_sym (lookup [] p (t_test2 t));
     tl2 := fun p => lookup no_tails p (t_tl2 t);
     osqrt := fun _ => sq |}.

(** caches with all entries of every spectrum: [k1_sp] one row per cached gamma *)
Record kache1 := { k1_xs : list Q; k1_gs : list Q; k1_sp : list (list Q); k1_neu : list Q }.
Record kache2 := { k2_xs : list Q; k2_gs : list Q; k2_S : list (list (list Q)) }.
Definition view1 (k : kache1) (e : nat) : @cache1 Q :=
  {| c1_xs := k1_xs k; c1_gs := k1_gs k; c1_sp := map (fun r => nth e r 0) (k1_sp k); c1_neu := nth e (k1_neu k) 0 |}.
Definition view2 (k : kache2) (e : nat) : @cache2 Q :=
  {| c2_xs := k2_xs k; c2_gs := k2_gs k; c2_S := map (map (fun r => nth e r 0)) (k2_S k) |}.

Fixpoint lookup1 (g : Q) (t : list (Q * list Q)) : list Q :=
  match t with [] => [] | (g', v) :: r => if Qeq_bool g g' then v else lookup1 g r end.

Inductive op :=
| OInt1 (ext : bool) (theta : Q) (params : list Q)
| OPP1 (rep ext : bool) (theta : Q) (demo : option (list (Q * list Q))) (npos : nat) (params : list Q)
       (after_gs : list Q) (after_sp : list (list Q))
| OInt2 (ext : bool) (theta : Q) (params : list Q)
| OPP2 (theta : Q) (rho : option Q) (params : list Q)
| OSymPP2 (theta : Q) (params : list Q)
| OMix (ext : bool) (theta : Q) (params : list Q)
| OMixSym (rep1 rep : bool) (theta : Q) (params : list Q)
| OMixPP (rep1 rep : bool) (theta : Q) (params : list Q)
| OVour (theta : Q) (w1 : list Q) (W2 test2 : list (list Q)) (t2 : @tails2 Q) (w2 : list Q) (params : list Q).

Record dcase := { d_op : op; d_tab : tab; d_sq : Q; d_k1 : kache1; d_k2 : kache2;
                  d_ents : list nat;                 (* unmasked entries *)
                  d_impl : option (list Q) }.        (* the implementation's values at those entries; None: it raised *)

(** model value at entry [e]; for OPP1 also whether the cache state after the call agrees *)
Definition model_entry (c : dcase) (e : nat) : option Q * bool :=
  let o := mk_oracle (d_tab c) (d_sq c) (k1_xs (d_k1 c)) in
  let s1 := view1 (d_k1 c) e in
  let s2 := view2 (d_k2 c) e in
  match d_op c with
  | OInt1 ext theta params => (Some (c1_integrate o s1 ext theta params), true)
  | OPP1 rep ext theta demo npos params ags asp =>
    let dm := option_map (fun t => fun g => nth e (lookup1 g t) 0) demo in
    match c1_point_pos o s1 rep ext theta dm npos params with
    | None => (None, true)
    | Some (gs', sp', r) =>
      (Some r, Qlist_eqb gs' ags &&
               fst (Qlists_close (1 # 100000000000) sp' (map (fun row => nth e row 0) asp)))
    end
  | OInt2 ext theta params => (Some (c2_integrate o s2 ext theta params), true)
  | OPP2 theta rho params => (c2_point_pos o s2 theta rho params, true)
  | OSymPP2 theta params => (c2_sym_point_pos o s2 theta params, true)
  | OMix ext theta params => (Some (mixture o s1 s2 ext theta params), true)
  | OMixSym rep1 rep theta params => (mixture_sym_point_pos o s1 s2 rep1 rep theta params, true)
  | OMixPP rep1 rep theta params => (mixture_point_pos o s1 s2 rep1 rep theta params, true)
  | OVour theta w1 W2 test2 t2 w2 params =>
    match params with
    | [al; be; pw; gp; pc; pcp] =>
      (vourlaki_q (lookq (t_quad1 (d_tab c))) theta s1 s2 w1 W2 (allclose_sym test2) t2 w2 [al; be] pw gp pc pcp, true)
    | _ => (None, true)
    end
  end.

Fixpoint all_somes (l : list (option Q)) : option (list Q) :=
  match l with
  | [] => Some []
  | Some v :: t => option_map (cons v) (all_somes t)
  | None :: _ => None
  end.

Definition dcheck (tol : Q) (c : dcase) : bool * Z :=
  let ms := map (model_entry c) (d_ents c) in
  let st_ok := forallb snd ms in
  match d_impl c with
  | None => (forallb (fun m => match fst m with None => true | Some _ => false end) ms && negb (Nat.eqb (length ms) 0), (-1074)%Z)
  | Some vals =>
    match all_somes (map fst ms) with
    | None => (false, 1%Z)
    | Some mv => let r := Qlists_close tol mv vals in (fst r && st_ok, snd r)
    end
  end.

(** ** scheduling and merge on integer labels (a spectrum is represented by a label; equal arrays, equal labels) *)
Definition zf (tbl : list (Z * (Z + Z))) (g : Z) : Z + Z :=
  (fix go t := match t with [] => inr 0%Z | (k, v) :: r => if Z.eqb k g then v else go r end) tbl.

Definition optZ_eqb (a b : option Z) : bool :=
  match a, b with Some x, Some y => Z.eqb x y | None, None => true | _, _ => false end.
Definition optlistZ_eqb (a b : option (list Z)) : bool :=
  match a, b with
  | Some x, Some y => Nat.eqb (length x) (length y) && forallb (fun p => Z.eqb (fst p) (snd p)) (combine x y)
  | None, None => true
  | _, _ => false
  end.
Definition slots_eqb (a b : option (list (option Z))) : bool :=
  match a, b with
  | Some x, Some y => Nat.eqb (length x) (length y) && forallb (fun p => optZ_eqb (fst p) (snd p)) (combine x y)
  | None, None => true
  | _, _ => false
  end.

(** a schedule case: gammas are labelled by integers, [tbl] maps a gamma label to the label of its spectrum or to an error;
    the multi-process build under schedule [sigma] with [k] workers must be complete, and equal the implementation's cache *)
Record scase := { s_k : nat; s_split : nat; s_id : nat; s_gammas : list Z; s_tbl : list (Z * (Z + Z)); s_sigma : list nat;
                  s_impl : option (list (option Z)) }.
Definition scheck (c : scase) : bool * Z :=
  let f := zf (s_tbl c) in
  let js := split_filter Z (s_split c) (s_id c) (jobs_of Z (s_gammas c)) in
  let st := exec Z Z Z f (s_k c) js (s_sigma c) in
  let b := build_split Z Z Z f (s_k c) (s_split c) (s_id c) (s_gammas c) (s_sigma c) in
  (doneb Z Z Z st && slots_eqb b (s_impl c) && slots_eqb b (single_split Z Z Z f (s_split c) (s_id c) (s_gammas c)), 0%Z).

(** a merge case: caches as label slots; outcome code 0 = ok (labels follow), 1 = conflict, 2 = incomplete, 3 = empty *)
Record mcase := { m_caches : list (list (option Z)); m_code : Z; m_out : list Z }.
Definition mcheck (c : mcase) : bool * Z :=
  match merge Z Z.eqb (m_caches c) with
  | MOk l => (Z.eqb (m_code c) 0 && optlistZ_eqb (Some l) (Some (m_out c)), 0%Z)
  | MConflict => (Z.eqb (m_code c) 1, 0%Z)
  | MIncomplete => (Z.eqb (m_code c) 2, 0%Z)
  | MEmpty => (Z.eqb (m_code c) 3, 0%Z)
  end.
