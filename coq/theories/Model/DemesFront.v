(** * DemesFront: executable model of dadi's demes importer (dadi/Demes/Demes.py, DemesUtil.slice).

    Input: a RESOLVED demes graph given as data (what the `demes` package reports: demes with epochs, asymmetric
    migrations, pulses, and the discrete events of the graph the importer finally works on) plus the sampling spec.
    Output: a *program* - the sequence of calls into the numerical layer (dadi.PhiManip / dadi.Integration /
    Spectrum.from_phi) with their arguments.  Copy of the code's branch structure and index conventions:
      SFS, _convert_to_generations, _augment_with_ancient_samples (+ DemesUtil.slice at the resolved level),
      _get_demographic_events, _get_root_Ne, _get_integration_parameters, _make_nu_func, _sizes_at_time,
      _migration_rate_in_interval, _compute_sfs, _apply_event, _integrate_phi, _split_phi, _admix_new_pop_phi,
      _admix_phi, _make_sorted_proportions_list.
    Deme names are natural numbers (position in the graph; demes added for ancient samples get the ids supplied).
    The keyword wiring of the five [_integrate_phi] calls (which nu / M / frozen entry goes to which parameter) is a
    parameter [ws], and whether the initial [phi_1D] is given the root deme's relative size a parameter [pnu]; both are
    re-extracted from the source on every run.  No proofs here. *)
From Coq Require Import ZArith List Bool Arith.
From Dadi Require Import Base.Num.
Import ListNotations.

Inductive sfun := SConstant | SExponential | SLinear.

Inductive fname :=
| F_phi_1D | F_one_pop | F_two_pops | F_three_pops | F_four_pops | F_five_pops
| F_phi_1D_to_2D | F_split_1 | F_split_2 | F_2D_to_3D_admix | F_3D_to_4D | F_4D_to_5D
| F_pulse (d dest : nat)        (* the in-place pulse function for d populations whose destination is population dest (from 1) *)
| F_remove_pop | F_reorder_pops | F_from_phi
| F_error (code : nat).

Definition sfun_eqb (a b : sfun) : bool :=
  match a, b with SConstant, SConstant | SExponential, SExponential | SLinear, SLinear => true | _, _ => false end.

Definition fname_eqb (a b : fname) : bool :=
  match a, b with
  | F_phi_1D, F_phi_1D | F_one_pop, F_one_pop | F_two_pops, F_two_pops | F_three_pops, F_three_pops
  | F_four_pops, F_four_pops | F_five_pops, F_five_pops | F_phi_1D_to_2D, F_phi_1D_to_2D | F_split_1, F_split_1
  | F_split_2, F_split_2 | F_2D_to_3D_admix, F_2D_to_3D_admix | F_3D_to_4D, F_3D_to_4D | F_4D_to_5D, F_4D_to_5D
  | F_remove_pop, F_remove_pop | F_reorder_pops, F_reorder_pops | F_from_phi, F_from_phi => true
  | F_pulse d k, F_pulse d' k' => Nat.eqb d d' && Nat.eqb k k'
  | F_error c, F_error c' => Nat.eqb c c'
  | _, _ => false
  end.

(** keyword wiring of one [dadi.Integration.*_pops] call in [_integrate_phi]: parameter nu_k receives nu[w_nu_k],
    m_ab (in the order m12, m13, ..., m21, ...) receives M[fst, snd], frozen_k receives frozen[w_fr_k] *)
Record wiring := mkWiring { w_nu : list nat; w_m : list (nat * nat); w_fr : list nat }.

Definition offdiag (d : nat) : list (nat * nat) :=
  flat_map (fun a => flat_map (fun b => if Nat.eqb a b then [] else [(a, b)]) (seq 0 d)) (seq 0 d).
Definition std_wiring (d : nat) : wiring := mkWiring (seq 0 d) (offdiag d) (seq 0 d).
Definition std_wirings : list wiring := map std_wiring (seq 1 5).

(** list helpers (names as in the Python) *)
Fixpoint index_of (x : nat) (l : list nat) : option nat :=
  match l with
  | [] => None
  | y :: l' => if Nat.eqb x y then Some 0 else option_map S (index_of x l')
  end.
Definition mem (x : nat) (l : list nat) : bool := existsb (Nat.eqb x) l.
Fixpoint remove_nth {A} (k : nat) (l : list A) : list A :=
  match l, k with
  | [], _ => []
  | _ :: l', 0 => l'
  | y :: l', S k' => y :: remove_nth k' l'
  end.
Fixpoint set_nth {A} (k : nat) (v : A) (l : list A) : list A :=
  match l, k with
  | [], _ => []
  | _ :: l', 0 => v :: l'
  | y :: l', S k' => y :: set_nth k' v l'
  end.
Fixpoint list_eqb (a b : list nat) : bool :=
  match a, b with
  | [], [] => true
  | x :: a', y :: b' => Nat.eqb x y && list_eqb a' b'
  | _, _ => false
  end.
Definition is_nil {A} (l : list A) : bool := match l with [] => true | _ => false end.
(** sorted(neworder) == [1..d] *)
Definition is_perm1 (ord : list nat) (d : nat) : bool :=
  Nat.eqb (length ord) d && forallb (fun k => mem k ord) (seq 1 d).

Section Model.
  Context {F : Type} `{Num F}.
  Local Open Scope num_scope.

  (** times: finite or math.inf *)
  Inductive time := Fin (x : F) | Inf.
  Definition tleb (a b : time) : bool :=
    match a, b with
    | _, Inf => true
    | Inf, Fin _ => false
    | Fin x, Fin y => x <=? y
    end.
  Definition teqb (a b : time) : bool :=
    match a, b with
    | Inf, Inf => true
    | Fin x, Fin y => x =? y
    | _, _ => false
    end.
  Definition tval (a : time) : F := match a with Fin x => x | Inf => n0 end.

  Record epoch := mkEpoch { e_start : time; e_end : F; e_s0 : F; e_s1 : F; e_fn : sfun }.
  Record deme := mkDeme { d_id : nat; d_start : time; d_anc : list nat; d_epochs : list epoch }.
  Record mig := mkMig { m_src : nat; m_dst : nat; m_start : time; m_end : F; m_rate : F }.
  Record pulse := mkPulse { p_srcs : list nat; p_dst : nat; p_time : F; p_props : list F }.
  Record graph := mkGraph { g_demes : list deme; g_migs : list mig; g_pulses : list pulse }.

  (** discrete events (the oracle's: pulses, branches, mergers, admixtures, splits, in this order; the importer's own
      marginalisation events are appended) *)
  Inductive event :=
  | EPulse (srcs : list nat) (dst : nat) (props : list F)
  | EBranch (parent child : nat)
  | EMerge (parents : list nat) (props : list F) (child : nat)
  | EAdmix (parents : list nat) (props : list F) (child : nat)
  | ESplit (parent : nat) (children : list nat)
  | EMarg (d : nat).
  Definition tevent : Type := F * event.

  (** size functions handed to the integrator: a number (all-constant interval) or a closure *)
  Inductive sizefn :=
  | SNum (a : F)                (* s[0] / Ne *)
  | SFConst (a : F)             (* lambda t: N0 / Ne *)
  | SFLin (a b T : F)           (* lambda t: N0/Ne + t/T * (NF - N0)/Ne      with a = N0/Ne, b = (NF-N0)/Ne *)
  | SFExp (a r T : F).          (* lambda t: (N0/Ne) * (NF/N0) ** (t/T)      with a = N0/Ne, r = NF/N0 *)
  Definition sf_eval (s : sizefn) (t : F) : F :=
    match s with
    | SNum a | SFConst a => a
    | SFLin a b T => a + t / T * b
    | SFExp a r T => a * nexp (t / T * nln r)
    end.
  Definition sf_is_fun (s : sizefn) : bool := match s with SNum _ => false | _ => true end.

  Record call := mkCall { c_fn : fname; c_T : F; c_nus : list sizefn; c_fs : list F; c_fr : list bool;
                          c_ns : list nat; c_ids : list nat }.
  Definition simple_call (f : fname) (fs : list F) (ns ids : list nat) : call := mkCall f n0 [] fs [] ns ids.
  Definition err_call (code : nat) : call := simple_call (F_error code) [] [] [].

  Definition dummy_epoch : epoch := mkEpoch Inf n0 n1 n1 SConstant.
  Definition d_end (d : deme) : F := e_end (last (d_epochs d) dummy_epoch).
  Definition find_deme (g : graph) (id : nat) : option deme := find (fun d => Nat.eqb (d_id d) id) (g_demes g).

  (** ** _get_demographic_events: break points, intervals, demes present (and their ORDER) *)
  Definition break_points (g : graph) : list time :=
    flat_map (fun d => flat_map (fun e => [e_start e; Fin (e_end e)]) (d_epochs d)) (g_demes g)
    ++ map (fun p => Fin (p_time p)) (g_pulses g)
    ++ flat_map (fun m => [m_start m; Fin (m_end m)]) (g_migs g).

  (** sorted(set(..)), descending *)
  Fixpoint ins_desc (x : time) (l : list time) : list time :=
    match l with
    | [] => [x]
    | y :: l' => if teqb x y then l else if tleb y x then x :: l else y :: ins_desc x l'
    end.
  Definition sort_desc (l : list time) : list time := fold_right ins_desc [] l.

  Definition interval : Type := time * time.
  Definition intervals (g : graph) : list interval :=
    let s := sort_desc (break_points g) in combine s (tl s).

  (** demes in the order they are appended: by decreasing start time, ties in graph order *)
  Definition ordered_demes (g : graph) : list deme :=
    flat_map (fun k => filter (fun d => teqb (d_start d) k) (g_demes g)) (sort_desc (map d_start (g_demes g))).
  Definition covers (iv : interval) (d : deme) : bool :=
    tleb (fst iv) (d_start d) && tleb (Fin (d_end d)) (snd iv).
  Definition present (g : graph) (iv : interval) : list nat := map d_id (filter (covers iv) (ordered_demes g)).
  (** keys of the defaultdict demes_present, most ancient first *)
  Definition used_intervals (g : graph) : list interval :=
    filter (fun iv => negb (is_nil (present g iv))) (intervals g).

  Definition successors (g : graph) (id : nat) : list deme := filter (fun d => mem id (d_anc d)) (g_demes g).
  Definition marg_events (g : graph) (sampled : list nat) : list tevent :=
    flat_map (fun d =>
      if negb (mem (d_id d) sampled)
         && forallb (fun s => negb (tleb (d_start s) (Fin (d_end d)))) (successors g (d_id d))
      then [(d_end d, EMarg (d_id d))] else []) (g_demes g).
  Definition events_at (evs : list tevent) (t : time) : list event :=
    map snd (filter (fun te => teqb (Fin (fst te)) t) evs).

  (** ** _get_integration_parameters *)
  Definition root_Ne (g : graph) : F :=
    match find (fun d => is_nil (d_anc d)) (g_demes g) with
    | Some d => e_s0 (hd dummy_epoch (d_epochs d))
    | None => n1
    end.

  (** _sizes_at_time: the first epoch covering the interval (else the last one: Python's loop variable) *)
  Definition epoch_covers (iv : interval) (e : epoch) : bool :=
    tleb (fst iv) (e_start e) && tleb (Fin (e_end e)) (snd iv).
  Definition epoch_for (d : deme) (iv : interval) : epoch :=
    match find (epoch_covers iv) (d_epochs d) with
    | Some e => e
    | None => last (d_epochs d) dummy_epoch
    end.
  Definition size_within (e : epoch) (t : time) : F :=
    let span := tval (e_start e) - e_end e in
    match e_fn e with
    | SConstant => e_s0 e
    | SExponential => e_s0 e * nexp (nln (e_s1 e / e_s0 e) * (tval (e_start e) - tval t) / span)
    | SLinear => e_s0 e + (tval (e_start e) - tval t) / span * (e_s1 e - e_s0 e)
    end.
  Definition sizes_at_time (d : deme) (iv : interval) : F * F * sfun :=
    let e := epoch_for d iv in
    let s0 := if teqb (e_start e) (fst iv) then e_s0 e else size_within e (fst iv) in
    let s1 := if teqb (Fin (e_end e)) (snd iv) then e_s1 e else size_within e (snd iv) in
    (s0, s1, e_fn e).

  Definition make_nu_func (sizes : list (F * F * sfun)) (T Ne : F) : list sizefn :=
    if forallb (fun s => sfun_eqb (snd s) SConstant) sizes
    then map (fun s => SNum (fst (fst s) / Ne)) sizes
    else map (fun s => let N0 := fst (fst s) in let NF := snd (fst s) in
                       match snd s with
                       | SConstant => SFConst (N0 / Ne)
                       | SLinear => SFLin (N0 / Ne) ((NF - N0) / Ne) T
                       | SExponential => SFExp (N0 / Ne) (NF / N0) T
                       end) sizes.

  (** _migration_rate_in_interval: the last matching migration wins *)
  Definition mig_rate (g : graph) (src dst : nat) (iv : interval) : F :=
    fold_left (fun r m => if Nat.eqb (m_src m) src && Nat.eqb (m_dst m) dst
                             && tleb (fst iv) (m_start m) && tleb (Fin (m_end m)) (snd iv)
                          then m_rate m else r) (g_migs g) n0.
  (** mig_mat[jj, ii] = 2 Ne m(live[ii] -> live[jj]); rows jj *)
  Definition mig_mat (g : graph) (live : list nat) (iv : interval) (Ne : F) : list (list F) :=
    map (fun d_to => map (fun d_from => if Nat.eqb d_from d_to then n0 else n2 * Ne * mig_rate g d_from d_to iv) live) live.

  Record step := mkStep { st_iv : interval; st_live : list nat; st_T : F; st_nus : list sizefn;
                          st_M : list (list F); st_fr : list bool }.

  Definition interval_T (iv : interval) (Ne : F) : F :=
    match fst iv with Inf => n0 | Fin a => (a - tval (snd iv)) / n2 / Ne end.

  Definition mk_step (g : graph) (frozen : list nat) (Ne : F) (iv : interval) : step :=
    let live := present g iv in
    let T := interval_T iv Ne in
    let sizes := map (fun id => match find_deme g id with
                                | Some d => sizes_at_time d iv
                                | None => (n1, n1, SConstant) end) live in
    mkStep iv live T (make_nu_func sizes T Ne) (mig_mat g live iv Ne) (map (fun id => mem id frozen) live).

  Definition plan (g : graph) (frozen : list nat) (Ne : F) : list step :=
    map (mk_step g frozen Ne) (used_intervals g).

  (** ** _compute_sfs and the event application *)
  Record st := mkSt { s_ids : list nat; s_calls : list call (* most recent first *); s_ok : bool }.
  Definition emit (c : call) (s : st) : st := mkSt (s_ids s) (c :: s_calls s) (s_ok s).
  Definition emits (cs : list call) (s : st) : st := fold_left (fun s c => emit c s) cs s.
  Definition set_ids (ids : list nat) (s : st) : st := mkSt ids (s_calls s) (s_ok s).
  Definition fail (code : nat) (s : st) : st := mkSt (s_ids s) (err_call code :: s_calls s) false.

  Definition int_fname (d : nat) : option fname :=
    match d with
    | 1 => Some F_one_pop | 2 => Some F_two_pops | 3 => Some F_three_pops | 4 => Some F_four_pops | 5 => Some F_five_pops
    | _ => None
    end.
  (** _integrate_phi *)
  Definition integ_calls (ws : list wiring) (ids : list nat) (T : F) (nus : list sizefn) (M : list (list F))
             (fr : list bool) : list call :=
    let d := length ids in
    match int_fname d with
    | None => []
    | Some f =>
      let w := nth (d - 1) ws (std_wiring d) in
      [mkCall f T (map (fun i => nth i nus (SNum n1)) (w_nu w))
              (map (fun ab => nth (snd ab) (nth (fst ab) M []) n0) (w_m w))
              (map (fun i => nth i fr false) (w_fr w)) [] ids]
    end.

  Definition unit_vec (d i : nat) : list F := map (fun k => if Nat.eqb k i then n1 else n0) (seq 0 d).
  (** _split_phi *)
  Definition split_calls (d parent_i : nat) (new_ids : list nat) : list call :=
    match d with
    | 1 => [simple_call F_phi_1D_to_2D [] [] new_ids]
    | 2 => [simple_call (if Nat.eqb parent_i 0 then F_split_1 else F_split_2) [] [] new_ids]
    | 3 => [simple_call F_3D_to_4D (firstn 2 (unit_vec 3 parent_i)) [] new_ids]
    | 4 => [simple_call F_4D_to_5D (firstn 3 (unit_vec 4 parent_i)) [] new_ids]
    | _ => []
    end.

  (** _make_sorted_proportions_list *)
  Definition sorted_props (props : list F) (src_i : list nat) (dest_i : option nat) (len : nat) : list F :=
    let l := fold_left (fun l ip => set_nth (fst ip) (snd ip) l) (combine src_i props) (repeat n0 len) in
    match dest_i with Some k => remove_nth k l | None => l end.

  Fixpoint indices_of (xs ids : list nat) : option (list nat) :=
    match xs with
    | [] => Some []
    | x :: xs' => match index_of x ids, indices_of xs' ids with
                  | Some i, Some r => Some (i :: r)
                  | _, _ => None
                  end
    end.

  (** with five populations [_split_phi] silently does nothing and the run fails later (IndexError in the integrator):
      modelled as a refusal *)
  Definition do_split (parent c0 c1 : nat) (s : st) : st :=
    let ids := s_ids s in
    match index_of parent ids with
    | None => fail 11 s
    | Some i =>
      if Nat.leb 5 (length ids) then fail 24 s else
      let new_ids := firstn i ids ++ [c0] ++ skipn (S i) ids ++ [c1] in
      set_ids new_ids (emits (split_calls (length ids) i new_ids) s)
    end.

  Fixpoint do_removes (parents : list nat) (s : st) : st :=
    match parents with
    | [] => s
    | p :: ps =>
      if s_ok s then
        match index_of p (s_ids s) with
        | None => fail 12 s
        | Some i => do_removes ps (emit (simple_call F_remove_pop [] [S i] []) (set_ids (remove_nth i (s_ids s)) s))
        end
      else s
    end.

  Definition apply_event (ev : event) (s : st) : st :=
    if negb (s_ok s) then s else
    let ids := s_ids s in
    match ev with
    | EMarg d =>
      match index_of d ids with
      | None => fail 10 s
      | Some i => emit (simple_call F_remove_pop [] [S i] []) (set_ids (remove_nth i ids) s)
      end
    | ESplit parent children =>
      match index_of parent ids with
      | None => fail 11 s
      | Some i =>
        match children with
        | [] => fail 13 s
        | [c] => set_ids (firstn i ids ++ [c] ++ skipn (S i) ids) s
        | c0 :: c1 :: _ =>
          if Nat.ltb 5 (length children + length ids - 1) then fail 14 s else do_split parent c0 c1 s
        end
      end
    | EBranch parent child => do_split parent parent child s
    | EAdmix parents props child | EMerge parents props child =>
      if mem child ids then fail 15 s else
      let ids' := ids ++ [child] in
      if Nat.ltb 5 (length ids') then fail 16 s else
      match indices_of parents ids with
      | None => fail 17 s
      | Some pis =>
        let pl := sorted_props props pis None (length ids) in
        let cs := match length ids with
                  | 2 => [simple_call F_2D_to_3D_admix (firstn 1 pl) [] ids']
                  | 3 => [simple_call F_3D_to_4D (firstn 2 pl) [] ids']
                  | 4 => [simple_call F_4D_to_5D (firstn 3 pl) [] ids']
                  | _ => []
                  end in
        let s1 := set_ids ids' (emits cs s) in
        match ev with EMerge _ _ _ => do_removes parents s1 | _ => s1 end
      end
    | EPulse srcs dst props =>
      match indices_of srcs ids, index_of dst ids with
      | Some sis, Some di =>
        let pl := sorted_props props sis (Some di) (length ids) in
        let d := length ids in
        match d with
        | 2 => emit (simple_call (F_pulse 2 (S di)) (firstn 1 props) [] []) s
        | 3 | 4 | 5 => emit (simple_call (F_pulse d (S di)) pl [] []) s
        | _ => s
        end
      | _, _ => fail 18 s
      end
    end.

  Definition do_reorder (target : list nat) (s : st) : st :=
    match indices_of target (s_ids s) with
    | None => fail 19 s
    | Some is_ =>
      let ord := map S is_ in
      let s1 := emit (simple_call F_reorder_pops [] ord []) s in
      if is_perm1 ord (length (s_ids s)) then set_ids target s1 else fail 20 s1
    end.

  Definition run_step (ws : list wiring) (all : list step) (evs : list tevent) (stp : step) (s : st) : st :=
    if negb (s_ok s) then s else
    let s0 := if is_nil (s_ids s) then set_ids (st_live stp) s else s in
    let s1 := if n0 <? st_T stp
              then emits (integ_calls ws (s_ids s0) (st_T stp) (st_nus stp) (st_M stp) (st_fr stp)) s0 else s0 in
    let s2 := fold_left (fun s ev => apply_event ev s) (events_at evs (snd (st_iv stp))) s1 in
    if negb (s_ok s2) then s2 else
    if tleb (snd (st_iv stp)) (Fin n0) then s2 else
    match find (fun x => teqb (fst (st_iv x)) (snd (st_iv stp))) all with
    | None => fail 21 s2
    | Some nx => if list_eqb (s_ids s2) (st_live nx) then s2 else do_reorder (st_live nx) s2
    end.

  Definition run_steps (ws : list wiring) (all : list step) (evs : list tevent) (s : st) : st :=
    fold_left (fun s stp => run_step ws all evs stp s) all s.

  (** everything up to the last integration / event: the state (labels of the axes, calls so far) *)
  Definition core_run (ws : list wiring) (pnu : bool) (g : graph) (oracle_evs : list tevent) (sampled frozen : list nat)
             (Ne : option F) : st :=
    if existsb (fun iv => Nat.ltb 5 (length (present g iv))) (used_intervals g) then mkSt [] [err_call 1] false else
    let NeV := match Ne with Some x => x | None => root_Ne g end in
    let steps := plan g frozen NeV in
    let evs := oracle_evs ++ marg_events g sampled in
    let first := hd (mkStep (Inf, Inf) [] n0 [] [] []) steps in
    let root := hd 0 (st_live first) in
    (* phi_1D(xx, nu=...): [pnu = false] is the source that does not pass nu (equilibrium of the reference size) *)
    let root_nu := if pnu then match st_nus first with s :: _ => sf_eval s n0 | [] => n1 end else n1 in
    let s0 := mkSt [] [simple_call F_phi_1D [root_nu] [] [root]] true in
    run_steps ws steps evs s0.

  (** the end of SFS: reorder to the requested sampled-deme order, then from_phi *)
  Definition core_finish (s1 : st) (sampled ns : list nat) : list call :=
    let s2 := if s_ok s1 then
                match indices_of sampled (s_ids s1) with
                | None => fail 22 s1
                | Some is_ =>
                  let ord := map S is_ in
                  let s' := emit (simple_call F_reorder_pops [] ord []) s1 in
                  if is_perm1 ord (length (s_ids s1))
                  then emit (simple_call F_from_phi [] ns sampled) s' else fail 23 s'
                end
              else s1 in
    rev (s_calls s2).

  (** the importer after unit conversion and augmentation: graph in generations, events of that graph, sampled demes,
      frozen demes, reference size (None: root size), sample sizes *)
  Definition core (ws : list wiring) (pnu : bool) (g : graph) (oracle_evs : list tevent) (sampled frozen : list nat)
             (Ne : option F) (ns : list nat) : list call :=
    core_finish (core_run ws pnu g oracle_evs sampled frozen Ne) sampled ns.

  (** ** DemesUtil.slice at the resolved level *)
  Definition tshift (t : F) (a : time) : time := match a with Fin x => Fin (x - t) | Inf => Inf end.
  Definition clip0 (x : F) : F := if x <=? n0 then n0 else x.        (* max(0, x) *)

  (** _size_at.  NOTE: the current source has no linear branch (returns None, which `demes` resolves to the start
      size); the model has the documented behaviour.  The check reports the difference as a finding. *)
  Definition size_at (t : F) (s0 s1 : F) (ts : time) (te : F) (fn : sfun) : F :=
    match fn with
    | SConstant => s0
    | SExponential => s0 * nexp (nln (s1 / s0) * (tval ts - t) / (tval ts - te))
    | SLinear => s0 + (tval ts - t) / (tval ts - te) * (s1 - s0)
    end.

  (** epochs of a deme after slicing at t: shifted, cut at the epoch that reaches t *)
  Fixpoint shift_epochs (t : F) (es : list epoch) : list epoch :=
    match es with
    | [] => []
    | e :: es' =>
      let e_end' := clip0 (e_end e - t) in
      if e_end' =? n0
      then [mkEpoch (tshift t (e_start e)) n0 (e_s0 e) (size_at t (e_s0 e) (e_s1 e) (e_start e) (e_end e) (e_fn e)) (e_fn e)]
      else mkEpoch (tshift t (e_start e)) e_end' (e_s0 e) (e_s1 e) (e_fn e) :: shift_epochs t es'
    end.

  Definition slice (g : graph) (t : F) : graph :=
    if t =? n0 then g else
    mkGraph
      (flat_map (fun d => if tleb (d_start d) (Fin t) then []
                          else [mkDeme (d_id d) (tshift t (d_start d)) (d_anc d) (shift_epochs t (d_epochs d))]) (g_demes g))
      (flat_map (fun m => if tleb (m_start m) (Fin t) then []
                          else [mkMig (m_src m) (m_dst m) (tshift t (m_start m)) (clip0 (m_end m - t)) (m_rate m)]) (g_migs g))
      (flat_map (fun p => if p_time p <=? t then []
                          else [mkPulse (p_srcs p) (p_dst p) (p_time p - t) (p_props p)]) (g_pulses g)).

  (** the size of a deme at a time, as `demes` defines it (Deme.size_at): the first epoch with start > u >= end, the
      size function of that epoch evaluated at u.  [None]: the deme does not exist at u.  Reference for what slicing has
      to preserve. *)
  Definition epoch_has (e : epoch) (u : F) : bool := (e_end e <=? u) && negb (tleb (e_start e) (Fin u)).
  Definition epoch_size_at (e : epoch) (u : F) : F := size_at u (e_s0 e) (e_s1 e) (e_start e) (e_end e) (e_fn e).
  Fixpoint epochs_size_at (es : list epoch) (u : F) : option F :=
    match es with
    | [] => None
    | e :: es' => if epoch_has e u then Some (epoch_size_at e u) else epochs_size_at es' u
    end.
  Definition deme_size_at (d : deme) (u : F) : option F := epochs_size_at (d_epochs d) u.

  (** the rate of the migration src -> dst in force at time u (the last matching entry wins, as in [mig_rate]) *)
  Definition mig_rate_at (g : graph) (src dst : nat) (u : F) : F :=
    fold_left (fun r m => if Nat.eqb (m_src m) src && Nat.eqb (m_dst m) dst
                             && (m_end m <=? u) && negb (tleb (m_start m) (Fin u))
                          then m_rate m else r) (g_migs g) n0.

  (** ** _augment_with_ancient_samples at the resolved level *)
  Definition subst_id (a b : nat) (x : nat) : nat := if Nat.eqb x a then b else x.
  (** the deme a is renamed b (everywhere it is referred to) *)
  Definition rename_deme (a b : nat) (g : graph) : graph :=
    mkGraph
      (map (fun d => mkDeme (subst_id a b (d_id d)) (d_start d) (map (subst_id a b) (d_anc d)) (d_epochs d)) (g_demes g))
      (map (fun m => mkMig (subst_id a b (m_src m)) (subst_id a b (m_dst m)) (m_start m) (m_end m) (m_rate m)) (g_migs g))
      (map (fun p => mkPulse (map (subst_id a b) (p_srcs p)) (subst_id a b (p_dst p)) (p_time p) (p_props p)) (g_pulses g)).
  Definition add_frozen (sd new : nat) (st_ sz : F) (g : graph) : graph :=
    mkGraph (g_demes g ++ [mkDeme new (Fin st_) [sd] [mkEpoch (Fin st_) n0 sz sz SConstant]]) (g_migs g) (g_pulses g).

  Definition nmin_list (l : list F) : F := match l with [] => n0 | x :: l' => fold_left nmin l' x end.

  (** one sample: (deme, relative sample time, id and size of the deme to be added for it) *)
  Record asample := mkAS { as_deme : nat; as_time : F; as_new : nat; as_size : F }.

  (** state: graph, sampled names (in order), frozen names; [ren] maps original names to their current name *)
  Fixpoint augment_loop (t : F) (l : list asample) (g : graph) (ren : list (nat * nat)) (sampled frozen : list nat)
    : graph * list nat * list nat :=
    match l with
    | [] => (g, rev sampled, rev frozen)
    | a :: l' =>
      let cur := match find (fun p => Nat.eqb (fst p) (as_deme a)) ren with Some p => snd p | None => as_deme a end in
      if (n0 <? as_time a) then
        augment_loop t l' (add_frozen cur (as_new a) (as_time a) (as_size a) g) ren (as_new a :: sampled) (as_new a :: frozen)
      else if (n0 <? t) then
        augment_loop t l' (rename_deme cur (as_new a) g) ((as_deme a, as_new a) :: ren) (as_new a :: sampled) frozen
      else augment_loop t l' g ren (as_deme a :: sampled) frozen
    end.

  Definition augment (g : graph) (sampled : list nat) (times : list F) (new_ids : list nat) (sizes : list F)
    : graph * list nat * list nat :=
    let t := nmin_list times in
    let g1 := slice g t in
    let l := map (fun x => mkAS (fst (fst (fst x))) (snd (fst (fst x)) - t) (snd (fst x)) (snd x))
                 (combine (combine (combine sampled times) new_ids) sizes) in
    augment_loop t l g1 [] [] [].

  (** ** Graph.in_generations (oracle: divides every time by generation_time) *)
  Definition tdiv (k : F) (a : time) : time := match a with Fin x => Fin (x / k) | Inf => Inf end.
  Definition in_generations (k : F) (g : graph) : graph :=
    mkGraph
      (map (fun d => mkDeme (d_id d) (tdiv k (d_start d)) (d_anc d)
                            (map (fun e => mkEpoch (tdiv k (e_start e)) (e_end e / k) (e_s0 e) (e_s1 e) (e_fn e)) (d_epochs d)))
           (g_demes g))
      (map (fun m => mkMig (m_src m) (m_dst m) (tdiv k (m_start m)) (m_end m / k) (m_rate m)) (g_migs g))
      (map (fun p => mkPulse (p_srcs p) (p_dst p) (p_time p / k) (p_props p)) (g_pulses g)).

  (** ** SFS: the whole importer.
      [gen_time = None]: the graph is in generations.  [times = None]: sample at the end of each deme.
      [new_ids], [sizes]: names / sizes of the demes added for the samples (one per sample, used when needed);
      [oracle_evs]: discrete events of the graph finally integrated, as `demes` reports them. *)
  Definition front (ws : list wiring) (pnu : bool) (gen_time : option F) (g : graph) (sampled : list nat) (times : option (list F))
             (new_ids : list nat) (sizes : list F) (oracle_evs : list tevent) (Ne : option F) (ns : list nat) : list call :=
    let tms := match times with
               | Some l => l
               | None => map (fun id => match find_deme g id with Some d => d_end d | None => n0 end) sampled
               end in
    let '(g1, sampled1, frozen) :=
        if existsb (fun t => negb (t =? n0)) tms then augment g sampled tms new_ids sizes else (g, sampled, []) in
    let g2 := match gen_time with Some k => in_generations k g1 | None => g1 end in
    core ws pnu g2 oracle_evs sampled1 frozen Ne ns.
End Model.

Arguments time : clear implicits.
Arguments epoch : clear implicits.
Arguments deme : clear implicits.
Arguments mig : clear implicits.
Arguments pulse : clear implicits.
Arguments graph : clear implicits.
Arguments event : clear implicits.
Arguments tevent : clear implicits.
Arguments sizefn : clear implicits.
Arguments call : clear implicits.
Arguments step : clear implicits.
Arguments st : clear implicits.
Arguments interval : clear implicits.
Arguments asample : clear implicits.
