(** * LowPass: the low-coverage calling model of dadi/LowPass/LowPass.py (and the helpers
    [part], [cached_part], [multinomln], [BetaBinomln], [_cached_projection] of dadi/Numerics.py).

    Executable model only, exact over [Q] (no [Num]: every theorem is about the very term that runs).
    The code works with exp(gammaln ...) in floating point; the model computes the exact rationals
    those expressions denote (n!/(a!b!c!), rising factorials for the Beta function with an integer shift,
    binomial pmfs written out).  Equality on [Q] is [Qeq] ([==]).

    Conventions.  A coverage distribution is the list [c_0; c_1; ...; c_D] of probabilities of depths
    0..D (row 1 of the array the code receives; row 0 is assumed to be [arange(D+1)], which is what
    [compute_cov_dist] builds).  Everything the correction needs from it is collected once in the
    record [cstats]; the helpers are functions of that record, so that "deep coverage" can be stated
    as a limit of the statistics.

    [Qred] is applied where fractions would otherwise compound (outputs of helpers, sums of products). *)
From Coq Require Import ZArith QArith Qreduction List Bool Arith.
Import ListNotations.
Local Open Scope Q_scope.

(** ** small numerics *)
Definition qsum (l : list Q) : Q := fold_right Qplus 0 l.
Definition qprod (l : list Q) : Q := fold_right Qmult 1 l.
Fixpoint qpow (x : Q) (n : nat) : Q := match n with O => 1 | S k => x * qpow x k end.
Fixpoint zfact (n : nat) : Z := match n with O => 1%Z | S k => (Z.of_nat n * zfact k)%Z end.
Definition qfact (n : nat) : Q := inject_Z (zfact n).
Definition qnat (n : nat) : Q := inject_Z (Z.of_nat n).
(** C(n,k) = exp(_lncomb(n,k)); 0 outside 0 <= k <= n (gammaln of a non-positive integer is +inf) *)
Definition binQ (n k : nat) : Q := if (k <=? n)%nat then qfact n / (qfact k * qfact (n - k)) else 0.
(** exp(multinomln [a;b;c]) *)
Definition multinom3 (a b c : nat) : Q := qfact (a + b + c) / (qfact a * qfact b * qfact c).
Definition cnt (v : nat) (l : list nat) : nat := count_occ Nat.eq_dec l v.
Definition half : Q := 1 # 2.

(** ** Numerics.part(x, n, minval, maxval=2): sorted vectors of n genotypes (minval..2) summing to x.
    x is an integer that the recursion may drive negative (x - val); the guard then yields nothing. *)
Fixpoint part (n : nat) (x : Z) (mn : nat) : list (list nat) :=
  if ((Z.of_nat (n * mn) <=? x) && (x <=? Z.of_nat (n * 2)))%Z then
    match n with
    | O => [[]]
    | S n' => flat_map (fun v => map (cons v) (part n' (x - Z.of_nat v) v)) (seq mn (3 - mn))
    end
  else [].

(** cached_part(allele_frequency, n_sequenced/2) *)
Definition parts (nseq x : nat) : list (list nat) := part (nseq / 2) (Z.of_nat x) 0.

(** ** partition probabilities *)
(** F = 0:  exp(multinomln [n0,n1,n2]) * 2^n1 *)
Definition ways0 (pt : list nat) : Q :=
  multinom3 (cnt 0 pt) (cnt 1 pt) (cnt 2 pt) * qpow 2 (cnt 1 pt).

(** exp(BetaBinomln(i,2,a,b)), i = 0,1,2:  C(2,i) B(i+a, 2-i+b) / B(a,b)  as rising factorials
    (fractions reduced as we go: only the size of the numerals changes) *)
Definition bb_probs (p F : Q) : Q * Q * Q :=
  let r := Qred ((1 - F) / F) in
  let a := Qred (p * r) in
  let b := Qred ((1 - p) * r) in
  let dn := Qred ((a + b) * (a + b + 1)) in
  (Qred (b * (b + 1) / dn), Qred (2 * a * b / dn), Qred (a * (a + 1) / dn)).

(** p = (2 * part.count(2) + part.count(1)) / (2 * len(part)) *)
Definition pfreq (pt : list nat) : Q := Qred (qnat (2 * cnt 2 pt + cnt 1 pt) / qnat (2 * length pt)).

(** one term of part_inbreeding_probability before normalisation *)
Definition ways_inb (F : Q) (pt : list nat) : Q :=
  let n := length pt in
  let sm := list_sum pt in
  if (sm =? 0)%nat || (sm =? 2 * n)%nat then 1
  else
    match bb_probs (pfreq pt) F with
    | (p00, p01, p11) =>
      Qred (multinom3 (cnt 0 pt) (cnt 1 pt) (cnt 2 pt)
            * qpow p00 (cnt 0 pt) * qpow p01 (cnt 1 pt) * qpow p11 (cnt 2 pt))
    end.

Definition normalise (ws : list Q) : list Q :=
  let t := qsum ws in map (fun w => Qred (w / t)) ws.

(** partitions_and_probabilities(..)[1] for one allele count (both partition types compute this) *)
Definition part_probs (F : Q) (pts : list (list nat)) : list Q :=
  if Qeq_bool F 0 then normalise (map ways0 pts) else normalise (map (ways_inb F) pts).

(** ** projection *)
(** itertools.combinations(l, k), same order *)
Fixpoint combs {A : Type} (k : nat) (l : list A) : list (list A) :=
  match k with
  | O => [[]]
  | S k' => match l with
            | [] => []
            | x :: t => map (cons x) (combs k' t) ++ combs k t
            end
  end.

(** projection_inbreeding(partition, k): histogram over 0..k of the sums of all k/2-subsets, normalised *)
Definition proj_inb (pt : list nat) (k : nat) : list Q :=
  let sums := map (@list_sum) (combs (k / 2) pt) in
  let tot := qnat (length sums) in
  map (fun j => qnat (cnt j sums) / tot) (seq 0 (k + 1)).

(** _cached_projection(m, n, j): hypergeometric weights, i = 0..m *)
Definition hyper_row (n m j : nat) : list Q :=
  if (n <? m)%nat then repeat 0 (m + 1)
  else map (fun i => if (i <=? j)%nat then Qred (binQ m i * binQ (n - m) (j - i) / binQ n j) else 0) (seq 0 (m + 1)).

Definition vadd (a b : list Q) : list Q := map (fun p => Qred (fst p + snd p)) (combine a b).
Definition vscale (c : Q) (a : list Q) : list Q := map (fun x => c * x) a.

(** one row of projection_matrix under inbreeding: sum over partitions of proj_inb * part_prob *)
Definition proj_row_inb (nseq nsub : nat) (F : Q) (j : nat) : list Q :=
  let pts := parts nseq j in
  fold_left (fun acc pp => vadd acc (vscale (snd pp) (proj_inb (fst pp) nsub)))
            (combine pts (part_probs F pts)) (repeat 0 (nsub + 1)).

Definition proj_matrix (nseq nsub : nat) (F : Q) : list (list Q) :=
  map (fun j => if Qeq_bool F 0 then hyper_row nseq nsub j else proj_row_inb nseq nsub F j) (seq 0 (nseq + 1)).

(** ** coverage statistics *)
Record cstats := { st_c0 : Q;    (* P(depth 0) *)
                   st_c1 : Q;    (* P(depth 1) *)
                   st_s : Q;     (* sum_d c_d 2^-d *)
                   st_t : Q;     (* sum_d d c_d 2^-d *)
                   st_pos : Q;   (* sum_{d>=1} c_d *)
                   st_h : Q }.   (* prob_het_err = 2 sum_{d>=1} (c_d / st_pos) 2^-d *)

Fixpoint wsum (f : nat -> Q) (d : nat) (cov : list Q) : Q :=
  match cov with [] => 0 | c :: t => c * f d + wsum f (S d) t end.

Definition stats_of (cov : list Q) : cstats :=
  let pos := qsum (tl cov) in
  {| st_c0 := nth 0 cov 0; st_c1 := nth 1 cov 0;
     st_s := Qred (wsum (fun d => qpow half d) 0 cov);
     st_t := Qred (wsum (fun d => qnat d * qpow half d) 0 cov);
     st_pos := Qred pos;
     st_h := Qred (2 * wsum (fun d => qpow half d) 1 (map (fun c => c / pos) (tl cov))) |}.

(** the statistics in the limit of infinitely deep coverage *)
Definition deep_stats : cstats :=
  {| st_c0 := 0; st_c1 := 0; st_s := 0; st_t := 0; st_pos := 1; st_h := 0 |}.

(** ** probability_of_no_call_1D_GATK_multisample *)
(** numpy: s ** (n1 - 1) with n1 = 0 is 1/s *)
Definition qpow_pred (s : Q) (n1 : nat) : Q := match n1 with O => / s | S k => qpow s k end.

Definition nocall_part (st : cstats) (pt : list nat) : Q :=
  let n1 := cnt 1 pt in
  let n2 := cnt 2 pt in
  let P0 := qpow (st_c0 st) n2 * qpow (st_s st) n1 in
  let P1a := if (0 <? n2)%nat then qnat n2 * st_c1 st * qpow (st_c0 st) (n2 - 1) * qpow (st_s st) n1 else 0 in
  let P1b := qpow (st_c0 st) n2 * qpow_pred (st_s st) n1 * qnat n1 * st_t st in
  P0 + P1a + P1b.

Definition dot (a b : list Q) : Q := qsum (map (fun p => fst p * snd p) (combine a b)).

Definition nocall_at (st : cstats) (nseq : nat) (F : Q) (af : nat) : Q :=
  let pts := parts nseq af in
  Qred (dot (part_probs F pts) (map (nocall_part st) pts)).

Definition nocall_1D (st : cstats) (nseq : nat) (F : Q) : list Q :=
  map (nocall_at st nseq F) (seq 0 (nseq + 1)).

(** ** probability_enough_individuals_covered *)
Definition enough (st : cstats) (nseq nsub : nat) : Q :=
  let N := (nseq / 2)%nat in
  let lo := ((nsub + 1) / 2 - 1)%nat in      (* ceil(nsub/2) - 1, nsub >= 1 *)
  Qred (qsum (map (fun cv => qpow (st_c0 st) (N - 1 - cv) * qpow (st_pos st) cv * binQ (N - 1) cv)
                  (seq lo (N - lo)))).

(** ** calling_error_matrix *)
Definition binpmf (k n : nat) (p : Q) : Q := binQ n k * qpow p k * qpow (1 - p) (n - k).

(** contributions (target index, value) of one partition of allele count af *)
Definition cem_contribs (h : Q) (af : nat) (pp : list nat * Q) : list (nat * Q) :=
  let n1 := cnt 1 (fst pp) in
  flat_map (fun e =>
    map (fun r => ((af + (e - r) - r)%nat,          (* af + n_alt - n_ref *)
                   snd pp * binpmf e n1 h * binpmf r e half))
        (seq 0 (e + 1)))
    (seq 0 (n1 + 1)).

Fixpoint add_at (i : nat) (v : Q) (l : list Q) : list Q :=
  match l with
  | [] => []
  | x :: t => match i with O => Qred (x + v) :: t | S i' => x :: add_at i' v t end
  end.

Definition scatter (len : nat) (cs : list (nat * Q)) : list Q :=
  fold_left (fun acc c => add_at (fst c) (snd c) acc) cs (repeat 0 len).

Definition cem_row (h : Q) (nsub : nat) (F : Q) (af : nat) : list Q :=
  let pts := parts nsub af in
  scatter (nsub + 1) (flat_map (cem_contribs h af) (combine pts (part_probs F pts))).

Definition cem (st : cstats) (nsub : nat) (F : Q) : list (list Q) :=
  map (cem_row (st_h st) nsub F) (seq 0 (nsub + 1)).

(** ** N-dimensional arrays: nested lists; the empty list is a shape-free zero *)
Fixpoint tens (d : nat) : Type := match d with O => Q | S d' => list (tens d') end.

Fixpoint ladd {T : Type} (f : T -> T -> T) (x y : list T) : list T :=
  match x, y with
  | [], _ => y
  | _, [] => x
  | a :: x', b :: y' => f a b :: ladd f x' y'
  end.
Fixpoint tadd (d : nat) : tens d -> tens d -> tens d :=
  match d with O => fun a b => Qred (a + b) | S d' => ladd (tadd d') end.
Fixpoint tscale (d : nat) (c : Q) : tens d -> tens d :=
  match d with O => fun a => c * a | S d' => map (tscale d' c) end.
Definition tnil (d : nat) : tens d := match d with O => 0 | S _ => [] end.
Fixpoint ttotal (d : nat) : tens d -> Q :=
  match d with O => fun a => a | S d' => fun l => qsum (map (ttotal d') l) end.
Fixpoint tget (d : nat) : tens d -> list nat -> Q :=
  match d with
  | O => fun a _ => a
  | S d' => fun l idx => match idx with
                         | [] => 0
                         | i :: idx' => match nth_error l i with Some x => tget d' x idx' | None => 0 end
                         end
  end.

(** sum_a cs[a] * xs[a] *)
Definition tlincomb (d : nat) (cs : list Q) (xs : list (tens d)) : tens d :=
  fold_right (fun p acc => tadd d (tscale d (fst p) (snd p)) acc) (tnil d) (combine cs xs).

Definition column (M : list (list Q)) (b : nat) : list Q := map (fun row => nth b row 0) M.

(** x.swapaxes(ax,-1).dot(M).swapaxes(ax,-1): M has one row per source index and [ncols] columns *)
Fixpoint tapply (d : nat) : nat -> list (list Q) -> nat -> tens d -> tens d :=
  match d with
  | O => fun _ _ _ a => a
  | S d' => fun ax M ncols x =>
      match ax with
      | O => map (fun b => tlincomb d' (column M b) x) (seq 0 ncols)
      | S ax' => map (tapply d' ax' M ncols) x
      end
  end.

Fixpoint mapi_from {A B : Type} (f : nat -> A -> B) (i : nat) (l : list A) : list B :=
  match l with [] => [] | x :: t => f i x :: mapi_from f (S i) t end.

(** entrywise map that sees the index of the entry ([pre] = indices of the enclosing axes) *)
Fixpoint tmapi (d : nat) (f : list nat -> Q -> Q) (pre : list nat) : tens d -> tens d :=
  match d with
  | O => fun a => f pre a
  | S d' => fun l => mapi_from (fun i sub => tmapi d' f (pre ++ [i]) sub) 0 l
  end.

Fixpoint foldi_from {A B : Type} (f : nat -> A -> B -> B) (i : nat) (l : list A) (acc : B) : B :=
  match l with [] => acc | x :: t => foldi_from f (S i) t (f i x acc) end.

(** fold over all entries with their index *)
Fixpoint tfoldi {B : Type} (d : nat) (f : list nat -> Q -> B -> B) (pre : list nat) : tens d -> B -> B :=
  match d with
  | O => fun a acc => f pre a acc
  | S d' => fun l acc => foldi_from (fun i sub acc' => tfoldi d' f (pre ++ [i]) sub acc') 0 l acc
  end.

(** prob_nocall_ND[idx] = prod_i pnc_i[idx_i]  (numpy.multiply.outer) *)
Fixpoint prod_at (vs : list (list Q)) (idx : list nat) : Q :=
  match vs, idx with
  | v :: vs', i :: idx' => nth i v 0 * prod_at vs' idx'
  | _, _ => 1
  end.

(** ** make_low_pass_func_GATK_multisample / low_cov_precalc_GATK_multisample.
    One entry of [pops] per population.  [sim idx] stands for
    simulate_GATK_multisample_calling(cov_dist, idx, nseq, nsub, nsim, Fx): an ARBITRARY array. *)
Record pop := { p_nseq : nat; p_nsub : nat; p_st : cstats; p_F : Q }.

Section LowPassFunc.
  Variable d : nat.
  Variable pops : list pop.
  Variable thr : Q.
  Variable sim : list nat -> tens d.

  Definition pnc_vecs : list (list Q) := map (fun p => nocall_1D (p_st p) (p_nseq p) (p_F p)) pops.
  (** numpy.prod over ALL populations; each proj_mat is multiplied by this same number *)
  Definition pe_tot : Q := Qred (qprod (map (fun p => enough (p_st p) (p_nseq p) (p_nsub p)) pops)).

  (** the pieces, as functions of the precalculated no-call vectors [vecs] and enough-covered factor [pe]
      (low_cov_precalc_GATK_multisample computes them once) *)
  (** use_sim_mat = prob_nocall_ND > sim_threshold *)
  Definition use_sim_v (vecs : list (list Q)) (idx : list nat) : bool := negb (Qle_bool (prod_at vecs idx) thr).
  Definition proj_mat_scaled_v (pe : Q) (p : pop) : list (list Q) :=
    map (map (fun e => Qred (pe * e))) (proj_matrix (p_nseq p) (p_nsub p) (p_F p)).
  Definition heterr_mat (p : pop) : list (list Q) := cem (p_st p) (p_nsub p) (p_F p).
  (** model * (1-use_sim_mat) * (1-prob_nocall_ND) *)
  Definition analytic0_v (vecs : list (list Q)) (model : tens d) : tens d :=
    tmapi d (fun idx m => if use_sim_v vecs idx then 0 else m * (1 - prod_at vecs idx)) [] model.
  Definition apply_pop_v (pe : Q) (ax : nat) (p : pop) (x : tens d) : tens d :=
    tapply d ax (heterr_mat p) (p_nsub p + 1) (tapply d ax (proj_mat_scaled_v pe p) (p_nsub p + 1) x).
  (** analytic + sum_{af simulated} model[af] * sim_outputs[af] *)
  Definition add_sims_v (vecs : list (list Q)) (model : tens d) (start : tens d) : tens d :=
    tfoldi d (fun idx m acc => if use_sim_v vecs idx then tadd d acc (tscale d m (sim idx)) else acc) [] model start.

  Definition pnc_at (idx : list nat) : Q := prod_at pnc_vecs idx.
  Definition use_sim (idx : list nat) : bool := use_sim_v pnc_vecs idx.
  Definition proj_mat_scaled (p : pop) : list (list Q) := proj_mat_scaled_v pe_tot p.
  Definition analytic0 (model : tens d) : tens d := analytic0_v pnc_vecs model.
  Definition apply_pop (ax : nat) (p : pop) (x : tens d) : tens d := apply_pop_v pe_tot ax p x.
  Definition apply_all (x : tens d) : tens d := foldi_from apply_pop 0 pops x.
  Definition add_sims (model : tens d) (start : tens d) : tens d := add_sims_v pnc_vecs model start.

  (** the corrected model; [vecs] and [pe] are evaluated once *)
  Definition lowpass (model : tens d) : tens d :=
    let vecs := pnc_vecs in
    let pe := pe_tot in
    add_sims_v vecs model (foldi_from (apply_pop_v pe) 0 pops (analytic0_v vecs model)).

  (** the plain projection of the model spectrum (no calling model): projection_matrix along every axis *)
  Definition plain_projection (x : tens d) : tens d :=
    foldi_from (fun ax p y => tapply d ax (proj_matrix (p_nseq p) (p_nsub p) (p_F p)) (p_nsub p + 1) y) 0 pops x.
End LowPassFunc.

(** flat <-> nested (for the generated case files) *)
Fixpoint tflat (d : nat) : tens d -> list Q :=
  match d with O => fun a => [a] | S d' => fun l => flat_map (tflat d') l end.
Fixpoint chunks {A : Type} (fuel size : nat) (l : list A) : list (list A) :=
  match fuel with
  | O => []
  | S f => firstn size l :: chunks f size (skipn size l)
  end.
Fixpoint tunflat (d : nat) (sh : list nat) (l : list Q) : tens d :=
  match d with
  | O => hd 0 l
  | S d' => match sh with
            | [] => []
            | n :: sh' => let sz := fold_right Nat.mul 1%nat sh' in
                          map (tunflat d' sh') (chunks n sz l)
            end
  end.
