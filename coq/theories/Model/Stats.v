(** * Stats: summary statistics of a frequency spectrum (dadi/Spectrum_mod.py [S], [pi], [Watterson_theta],
    [theta_L], [Tajima_D], [Fst]) as the code computes them, and the same statistics defined directly on a
    matrix of per-SNP derived-allele counts.

    Executable model only.  A spectrum is (shape, C-order data, C-order mask) as in Model/Fold.v.
    numpy.ma sums skip masked entries ([msum]).  The square root of Tajima's D is a function argument. *)
From Coq Require Import ZArith List Bool Arith.
From Dadi Require Import Base.Num Model.Projection Model.Fold Model.DataDict.
Import ListNotations.

Section Stats.
  Context {F : Type} `{Num F}.
  Variable sqrtF : F -> F.
  Local Open Scope num_scope.

  (** (self * w).sum() for an ordinary array w of the same shape *)
  Definition wsum (mask : list bool) (data w : list F) : F := msum mask (map2 nmul data w).

  (** self.mask_corners() on a copy of the mask *)
  Definition with_corners (s : list nat) (mask : list bool) : list bool :=
    map2 orb mask (tabulate s (is_corner s)).

  (** S: oldmask = mask.copy(); mask_corners(); S = self.sum(); mask = oldmask *)
  Definition stat_S (s : list nat) (data : list F) (mask : list bool) : F :=
    msum (with_corners s mask) data.

  (** numpy.sum(1./numpy.arange(1,n)), numpy.sum(1./numpy.arange(1,n)**2) *)
  Definition harm (n : nat) : F := nsum (map (fun i => n1 / nofnat i) (seq 1 (n - 1))).
  Definition harm2 (n : nat) : F := nsum (map (fun i => n1 / (nofnat i * nofnat i)) (seq 1 (n - 1))).

  (** the 1-D statistics; n = sample_sizes[0] = len - 1 *)
  Definition stat_thetaW (n : nat) (data : list F) (mask : list bool) : F :=
    stat_S [S n] data mask / harm n.

  (** n/(n-1.) * 2*numpy.ma.sum(self*p*(1-p)),  p = arange(0,n+1)/n *)
  Definition pi_weights (n : nat) : list F :=
    map (fun i => let p := nofnat i / nofnat n in p * (n1 - p)) (seq 0 (n + 1)).
  Definition stat_pi (n : nat) (data : list F) (mask : list bool) : F :=
    nofnat n / (nofnat n - n1) * n2 * wsum mask data (pi_weights n).

  (** numpy.sum(numpy.arange(1,n)*self[1:n])/(n-1) *)
  Definition stat_thetaL (n : nat) (data : list F) (mask : list bool) : F :=
    msum (firstn (n - 1) (skipn 1 mask))
         (map2 nmul (map nofnat (seq 1 (n - 1))) (firstn (n - 1) (skipn 1 data)))
    / (nofnat n - n1).

  (** the denominator of Tajima's D as a function of S *)
  Definition tajima_var (n : nat) (Sv : F) : F :=
    let nn := nofnat n in
    let a1 := harm n in
    let a2 := harm2 n in
    let b1 := (nn + n1) / (nofnat 3 * (nn - n1)) in
    let b2 := n2 * (nn * nn + nn + nofnat 3) / (nofnat 9 * nn * (nn - n1)) in
    let c1 := b1 - n1 / a1 in
    let c2 := b2 - (nn + n2) / (a1 * nn) + a2 / (a1 * a1) in
    (c1 / a1) * Sv + c2 / (a1 * a1 + a2) * Sv * (Sv - n1).
  Definition tajima_of (n : nat) (Sv piv thv : F) : F := (piv - thv) / sqrtF (tajima_var n Sv).
  Definition stat_tajimaD (n : nat) (data : list F) (mask : list bool) : F :=
    tajima_of n (stat_S [S n] data mask) (stat_pi n data mask) (stat_thetaW n data mask).

  (** Fst (Weir & Cockerham with hbar eliminated through b = 0); ns = sample sizes, r = len(ns) *)
  Definition fst_r (ns : list nat) : F := nofnat (length ns).
  Definition fst_nsum (ns : list nat) : F := nsum (map nofnat ns).
  Definition fst_nbar (ns : list nat) : F := fst_nsum ns / fst_r ns.
  Definition fst_nc (ns : list nat) : F :=
    (fst_nsum ns - nsum (map (fun n => nofnat n * nofnat n) ns) / fst_nsum ns) / (fst_r ns - n1).
  (** per entry (multi-index mi = derived counts per population) *)
  Definition fst_pbar (ns mi : list nat) : F :=
    nsum (map2 (fun n i => nofnat n * (nofnat i / nofnat n)) ns mi) / fst_nsum ns.
  Definition fst_s2 (ns mi : list nat) : F :=
    let pb := fst_pbar ns mi in
    nsum (map2 (fun n i => let t := nofnat i / nofnat n - pb in nofnat n * (t * t)) ns mi)
    / ((fst_r ns - n1) * fst_nbar ns).
  Definition fst_x (ns mi : list nat) : F :=                       (* pbar*(1-pbar) - (r-1)/r*s2 *)
    let pb := fst_pbar ns mi in
    pb * (n1 - pb) - (fst_r ns - n1) / fst_r ns * fst_s2 ns mi.
  Definition fst_a (ns mi : list nat) : F :=
    fst_nbar ns / fst_nc ns * (fst_s2 ns mi - n1 / (n2 * fst_nbar ns - n1) * fst_x ns mi).
  Definition fst_d (ns mi : list nat) : F :=
    n2 * fst_nbar ns / (n2 * fst_nbar ns - n1) * fst_x ns mi.
  Definition fst_of (asum dsum : F) : F := asum / (asum + dsum).
  Definition stat_Fst (ns : list nat) (data : list F) (mask : list bool) : F :=
    let s := map S ns in
    fst_of (wsum mask data (map (fst_a ns) (enum s))) (wsum mask data (map (fst_d ns) (enum s))).

  (** ** the same statistics directly from the genotypes
      [rows]: one row per SNP, the derived-allele count in each population, every chromosome called
      (n_k per population), so the spectrum is the histogram of the rows *)
  Definition all_zero (row : list nat) : bool := forallb (Nat.eqb 0) row.
  Fixpoint all_full (ns row : list nat) : bool :=
    match ns, row with
    | [], [] => true
    | n :: ns', i :: row' => (i =? n)%nat && all_full ns' row'
    | _, _ => false
    end.
  (** the SNP is polymorphic in the sample *)
  Definition segregating (ns row : list nat) : bool := negb (all_zero row) && negb (all_full ns row).
  (** sum over the segregating SNPs of a per-SNP quantity *)
  Definition seg_sum (ns : list nat) (f : list nat -> F) (rows : list (list nat)) : F :=
    nsum (map (fun row => if segregating ns row then f row else n0) rows).

  Definition direct_S (ns : list nat) (rows : list (list nat)) : F := seg_sum ns (fun _ => n1) rows.
  Definition direct_thetaW (n : nat) (rows : list (list nat)) : F := direct_S [n] rows / harm n.
  (** number of unordered pairs of n chromosomes *)
  Fixpoint num_pairs (n : nat) : nat := match n with O => 0 | S k => k + num_pairs k end.
  (** pairwise differences of one SNP with i derived alleles among n: i (n - i) of the C(n,2) pairs differ *)
  Definition direct_pi (n : nat) (rows : list (list nat)) : F :=
    nsum (map (fun row => let i := hd 0%nat row in nofnat (i * (n - i)) / nofnat (num_pairs n)) rows).
  (** ... and counted pair by pair on the alleles themselves (true = derived) *)
  Fixpoint diff_pairs (col : list bool) : nat :=
    match col with
    | [] => 0
    | x :: r => length (filter (fun y => xorb x y) r) + diff_pairs r
    end.
  Definition direct_pi_hap (n : nat) (cols : list (list bool)) : F :=
    nsum (map (fun col => nofnat (diff_pairs col) / nofnat (num_pairs n)) cols).
  Definition direct_thetaL (n : nat) (rows : list (list nat)) : F :=
    seg_sum [n] (fun row => nofnat (hd 0%nat row)) rows / (nofnat n - n1).
  Definition direct_tajimaD (n : nat) (rows : list (list nat)) : F :=
    tajima_of n (direct_S [n] rows) (direct_pi n rows) (direct_thetaW n rows).
  (** Weir & Cockerham: ratio of the sums over loci of the per-locus components *)
  Definition direct_Fst (ns : list nat) (rows : list (list nat)) : F :=
    fst_of (seg_sum ns (fst_a ns) rows) (seg_sum ns (fst_d ns) rows).

  (** the spectrum of a fully called count matrix: one count at the entry of each row *)
  Definition unit_vec (L j : nat) : list F := map (fun i => if (i =? j)%nat then n1 else n0) (seq 0 L).
  Definition sfs_of_rows (ns : list nat) (rows : list (list nat)) : list F :=
    let s := map S ns in
    fold_right (fun row acc => vadd (unit_vec (size s) (ravel s row)) acc) (vzero (size s)) rows.
  Definition corner_mask (ns : list nat) : list bool := let s := map S ns in tabulate s (is_corner s).
End Stats.
