(** * FromPhi: drawing a sample frequency spectrum from a density phi on a grid
    (dadi/Spectrum_mod.py [cached_dbeta], [_from_phi_1D_direct], [_from_phi_1D_analytic],
    [_from_phi_{2..5}D_linalg], [_from_phi_{2..4}D_direct], [_from_phi_{2..4}D_admix_props],
    [_from_phi_{1..3}D_direct_inbreeding], [from_phi], [from_phi_inbreeding];
    dadi/Numerics.py [BetaBinomln], [part], [cached_part_precalc], [BetaBinomConvolution]).

    Executable model only, no proofs.  Values are [Num]-polymorphic (theorems on R, execution on the
    software-float / rational instances); binomial and multinomial coefficients are exact integers.

    Conventions
    - a d-dimensional array is its C-order flat list together with its shape;
    - the numpy code is the 1-D formula vectorised over the other axes; the model applies the 1-D
      function along one axis at a time ([apply0]), in the order of the code: LAST axis first, first axis last
      ([nd]; [nd_rev] is the opposite order, used only in theorems);
    - [scipy.special.betainc a b x] with positive integers a, b is the binomial tail polynomial
      sum_{j=a}^{a+b-1} C(a+b-1,j) x^j (1-x)^(a+b-1-j) (oracle slot: the harness compares at 1e-10);
    - [exp(betaln(i+a, n-i+b) - betaln(a,b))] is the ratio of rising factorials
      a^(i) b^(n-i) / (a+b)^(n) (rational in a, b). *)
From Coq Require Import ZArith NArith List Bool Arith.
From Dadi Require Import Base.Num.
Import ListNotations.
Local Open Scope num_scope.

(** ** exact binomial coefficients on binary integers (C(42,21) has 12 digits): multiplicative form
    C(n,k) = C(n,k-1) (n-k+1) / k, every division exact, on the smaller of k, n-k *)
Fixpoint cbinM (n k : nat) : N :=
  match k with O => 1%N | S k' => (cbinM n k' * N.of_nat (n - k') / N.of_nat k)%N end.
Definition cbinN (n k : nat) : N :=
  if (k <=? n)%nat then cbinM n (Nat.min k (n - k)) else 0%N.
Definition cZ (n k : nat) : Z := Z.of_N (cbinN n k).

Fixpoint zfact (n : nat) : Z := match n with O => 1%Z | S k => (Z.of_nat n * zfact k)%Z end.
(** multinomial coefficient (sum cs)! / prod (c!) *)
Definition multinomZ (cs : list nat) : Z :=
  (zfact (fold_right Nat.add 0%nat cs) / fold_right Z.mul 1%Z (map zfact cs))%Z.

(** ** list helpers *)
Definition map2 {A B C : Type} (f : A -> B -> C) (a : list A) (b : list B) : list C :=
  map (fun p => f (fst p) (snd p)) (combine a b).
(** adjacent pairs (l_i, l_{i+1}) *)
Definition adj {A : Type} (l : list A) : list (A * A) := combine l (tl l).
(** split a flat list into L consecutive blocks of m entries *)
Fixpoint chunk {A : Type} (m L : nat) (l : list A) : list (list A) :=
  match L with O => [] | S L' => firstn m l :: chunk m L' (skipn m l) end.
Definition prodl (l : list nat) : nat := fold_right Nat.mul 1%nat l.
(** all index tuples below (n_k + 1), C order *)
Fixpoint idxs (ns : list nat) : list (list nat) :=
  match ns with
  | [] => [[]]
  | n :: r => flat_map (fun i => map (cons i) (idxs r)) (seq 0 (S n))
  end.

(** integer partitions, exactly as the generator Numerics.part(x, n, minval, maxval):
    non-decreasing lists of n values in minval..maxval summing to x *)
Fixpoint parts (n x minv maxv : nat) : list (list nat) :=
  if negb ((n * minv <=? x)%nat && (x <=? n * maxv)%nat) then []
  else match n with
       | O => [[]]
       | S n' => flat_map (fun v => if (v <=? x)%nat then map (cons v) (parts n' (x - v) v maxv) else [])
                          (seq minv (maxv + 1 - minv))
       end.
(** [prt.count(val) for val in range(0, maxval+1)] *)
Definition pcounts (maxv : nat) (prt : list nat) : list nat :=
  map (fun v => count_occ Nat.eq_dec prt v) (seq 0 (S maxv)).

Section FromPhi.
  Context {F : Type} `{Num F}.

  (** x ** n by binary exponentiation (0 ** 0 = 1) *)
  Fixpoint pow_pos (x : F) (p : positive) : F :=
    match p with
    | xH => x
    | xO p' => let y := pow_pos x p' in y * y
    | xI p' => let y := pow_pos x p' in x * (y * y)
    end.
  Definition fpow (x : F) (n : nat) : F :=
    match N.of_nat n with N0 => n1 | Npos p => pow_pos x p end.

  (** comb(n,i) * x**i * (1-x)**(n-i) *)
  Definition bker (n i : nat) (x : F) : F := nofZ (cZ n i) * fpow x i * fpow (n1 - x) (n - i).
  Definition bpmf (N : nat) (x : F) : list F := map (fun j => bker N j x) (seq 0 (S N)).
  (** betainc(a, b, x) for integers a, b >= 1 *)
  Definition betainc_int (a b : nat) (x : F) : F := nsum (skipn a (bpmf (a + b - 1) x)).
  (** numpy.minimum(numpy.maximum(x, 0), 1.0) *)
  Definition clip (x : F) : F := nmin (nmax x n0) n1.

  (** [betainc(ii+sh, n-ii+1, x) for ii in 0..n], sh = 1 (beta1) or 2 (beta2); one pmf table per point *)
  Definition beta_col (sh n : nat) (x : F) : list F :=
    let pmf := bpmf (n + sh) x in
    map (fun ii => nsum (skipn (ii + sh) pmf)) (seq 0 (S n)).

  (** numpy trapz: sum(diff(x) * (y[1:] + y[:-1]) / 2) *)
  Fixpoint trapz (xs ys : list F) : F :=
    match xs, ys with
    | x0 :: ((x1 :: _) as xs'), y0 :: ((y1 :: _) as ys') => (x1 - x0) * (y1 + y0) / n2 + trapz xs' ys'
    | _, _ => n0
    end.

  (** *** 1-D analytic path: _from_phi_1D_analytic (divergent=False).
      The grid is clipped to [0,1] for everything that follows (slopes, constants, betainc). *)
  Definition apoint : Type := (F * F * (list F * list F))%type.    (* x, phi, (beta1 column, beta2 column) *)
  Definition apoints (n : nat) (xs xc : list F) (phi : list F) : list apoint :=
    combine (combine xs phi) (map (fun x => (beta_col 1 n x, beta_col 2 n x)) xc).
  Definition a_s (iv : apoint * apoint) : F :=
    let '((x0, p0, _), (x1, p1, _)) := iv in (p1 - p0) / (x1 - x0).
  Definition a_c1 (n : nat) (iv : apoint * apoint) : F :=
    let '((x0, p0, _), _) := iv in (p0 - a_s iv * x0) / nofnat (n + 1).
  Definition a_db1 (d : nat) (iv : apoint * apoint) : F :=
    let '((_, _, (b10, _)), (_, _, (b11, _))) := iv in nth d b11 n0 - nth d b10 n0.
  Definition a_db2 (d : nat) (iv : apoint * apoint) : F :=
    let '((_, _, (_, b20)), (_, _, (_, b21))) := iv in nth d b21 n0 - nth d b20 n0.
  Definition analytic1D (n : nat) (xx phi : list F) : list F :=
    let xc := map clip xx in
    let ivs := adj (apoints n xc xc phi) in
    map (fun d => nsum (map (fun iv =>
                   let c2 := a_s iv * nofnat (d + 1) / (nofnat (n + 1) * nofnat (n + 2)) in
                   a_c1 n iv * a_db1 d iv + c2 * a_db2 d iv) ivs))
        (seq 0 (S n)).

  (** *** one axis of _from_phi_{2..5}D_linalg: slopes and constants from the UNCLIPPED grid, only the
      betainc differences (cached_dbeta) see the clipped grid;  dot(dbeta1, c1) + dot(dbeta2, s) * (d+1)/((n+1)(n+2)) *)
  Definition analytic_ax (n : nat) (xx : list F) : list F -> list F :=
    let cols := map (fun x => (beta_col 1 n x, beta_col 2 n x)) (map clip xx) in     (* cached_dbeta: once per axis *)
    fun phi =>
    let ivs := adj (combine (combine xx phi) cols) in
    map (fun d => nsum (map (fun iv => a_db1 d iv * a_c1 n iv) ivs)
                  + nsum (map (fun iv => a_db2 d iv * a_s iv) ivs)
                    * (nofnat (d + 1) / (nofnat (n + 1) * nofnat (n + 2))))
        (seq 0 (S n)).

  (** *** one axis of the direct (trapezoid) paths; [het]: factor *= x (1-x) on the ascertained axis *)
  Definition dfactor (het : bool) (n i : nat) (x : F) : F :=
    if het then bker n i x * (x * (n1 - x)) else bker n i x.
  (** data[i] = trapz(factor_i * phi, xx) for a table of factors *)
  Definition fac_apply (xx : list F) (fac : list (list F)) (phi : list F) : list F :=
    map (fun fi => trapz xx (map2 nmul fi phi)) fac.
  Definition direct_fac (het : bool) (n : nat) (xx : list F) : list (list F) :=
    map (fun i => map (dfactor het n i) xx) (seq 0 (S n)).
  Definition direct_ax (het : bool) (n : nat) (xx : list F) : list F -> list F :=
    let fac := direct_fac het n xx in fac_apply xx fac.                               (* factor cache *)

  (** *** inbreeding: beta-binomial convolution *)
  Fixpoint rising (a : F) (k : nat) : F :=          (* a (a+1) ... (a+k-1) *)
    match k with O => n1 | S k' => rising a k' * (a + nofnat k') end.
  (** exp(BetaBinomln(v, p, a, b)) = C(p,v) B(v+a, p-v+b) / B(a,b) *)
  Definition betabinom (p v : nat) (a b : F) : F :=
    nofZ (cZ p v) * (rising a v * rising b (p - v) / rising (a + b) p).
  Definition bb_table (p : nat) (a b : F) : list F := map (fun v => betabinom p v a b) (seq 0 (S p)).
  (** BetaBinomConvolution(i, n, alpha, beta, ploidy) as written: sum over the partitions of i into n parts
      of multinomial(counts) * prod_v BB(v)^counts[v] *)
  Definition bbconv (i n : nat) (a b : F) (p : nat) : F :=
    let tb := bb_table p a b in
    nsum (map (fun prt => let cs := pcounts p prt in
                          nprod (map2 fpow tb cs) * nofZ (multinomZ cs))
              (parts n i 0 p)).
  (** the same number as a coefficient of the n-th power of the generating polynomial (used in theorems and
      cross-checked against [bbconv] on every correspondence case) *)
  Fixpoint padd (a b : list F) : list F :=
    match a, b with [], _ => b | _, [] => a | x :: a', y :: b' => (x + y) :: padd a' b' end.
  Fixpoint pmul (a b : list F) : list F :=
    match a with [] => [] | x :: a' => padd (map (nmul x) b) (n0 :: pmul a' b) end.
  Fixpoint ppow (a : list F) (n : nat) : list F :=
    match n with O => [n1] | S k => pmul a (ppow a k) end.
  Definition bbconv_pow (i n : nat) (a b : F) (p : nat) : F := nth i (ppow (bb_table p a b) n) n0.

  (** float64 constants of the inbreeding code: 1.0e-20, (1.0 - 1.0e-20) == 1.0, 1 - 1e-10 *)
  Definition tiny : F := nofZ 6646139978924579 / nofZ (2 ^ 119).
  Definition one_minus_tiny : F := n1.
  Definition Fcap : F := nofZ 562949953365017 / nofZ (2 ^ 49).
  (** alpha = xx * ((1-F)/F) with the two end points overwritten; beta likewise *)
  Definition set_ends (l : list F) (first last : F) : list F :=
    match l with
    | [] => []
    | [_] => [last]
    | _ :: t => first :: (removelast t ++ [last])
    end.
  Definition inb_fac (het : bool) (n ploidy : nat) (Fx : F) (xx : list F) : list (list F) :=
    let c := (n1 - Fx) / Fx in
    let alpha := set_ends (map (fun x => x * c) xx) (tiny * c) (one_minus_tiny * c) in
    let beta := set_ends (map (fun x => (n1 - x) * c) xx) (one_minus_tiny * c) (tiny * c) in
    let nInd := Nat.div n ploidy in
    (* per grid point, BetaBinomConvolution(i, nInd, alpha, beta, ploidy) for all i at once: the coefficients of
       the nInd-th power of the beta-binomial generating polynomial ([bbconv_pow]; the partition form [bbconv]
       of the code is compared with it exactly on every BetaBinomConvolution correspondence case) *)
    let cols := map (fun ab => ppow (bb_table ploidy (fst ab) (snd ab)) nInd) (combine alpha beta) in
    map (fun i => map2 (fun x col => let f := nth i col n0 in if het then f * (x * (n1 - x)) else f) xx cols)
        (seq 0 (S n)).
  Definition inb_ax (het : bool) (n ploidy : nat) (Fx : F) (xx : list F) : list F -> list F :=
    let fac := inb_fac het n ploidy Fx xx in fac_apply xx fac.

  (** *** d dimensions: apply a 1-D function along one axis, the other axes being mapped over *)
  Definition col (p : nat) (blocks : list (list F)) : list F := map (fun b => nth p b n0) blocks.
  (** [blocks]: the L slices along axis 0, each a flat block of m entries; result: nout slices of m entries *)
  Definition apply0 (T : list F -> list F) (m nout : nat) (blocks : list (list F)) : list (list F) :=
    let cols := map (fun p => T (col p blocks)) (seq 0 m) in
    map (fun i => map (fun c => nth i c n0) cols) (seq 0 nout).
  Definition axop : Type := ((list F -> list F) * nat)%type.       (* 1-D function, its output length *)
  (** last axis first, first axis last (the order of the code) *)
  Fixpoint nd (ops : list axop) (shape : list nat) (phi : list F) : list F :=
    match ops, shape with
    | (T, nout) :: ops', L :: rest =>
        let sub := map (nd ops' rest) (chunk (prodl rest) L phi) in
        concat (apply0 T (prodl (map snd ops')) nout sub)
    | _, _ => phi
    end.
  (** first axis first *)
  Fixpoint nd_rev (ops : list axop) (shape : list nat) (phi : list F) : list F :=
    match ops, shape with
    | (T, nout) :: ops', L :: rest =>
        concat (map (nd_rev ops' rest) (apply0 T (prodl rest) nout (chunk (prodl rest) L phi)))
    | _, _ => phi
    end.

  Definition linalg_ops (ns : list nat) (xxs : list (list F)) : list axop :=
    map2 (fun n xx => (analytic_ax n xx, S n)) ns xxs.
  (** [het]: index of the ascertained axis ('xx' 0, 'yy' 1, 'zz' 2, 'aa' 3) *)
  Definition direct_ops (het : option nat) (ns : list nat) (xxs : list (list F)) : list axop :=
    map2 (fun k nx => (direct_ax (match het with Some h => Nat.eqb h k | None => false end) (fst nx) (snd nx), S (fst nx)))
         (seq 0 (length ns)) (combine ns xxs).
  Definition inb_ops (het : option nat) (ns ploidys : list nat) (Fs : list F) (xxs : list (list F)) : list axop :=
    map2 (fun k q => let '(n, pl, Fx, xx) := q in
                     (inb_ax (match het with Some h => Nat.eqb h k | None => false end) n pl Fx xx, S n))
         (seq 0 (length ns)) (combine (combine (combine ns ploidys) Fs) xxs).

  (** iterated trapezoid mass of a d-dimensional array (last axis first) *)
  Fixpoint trapz_nd (xxs : list (list F)) (shape : list nat) (phi : list F) : F :=
    match xxs, shape with
    | xx :: xxs', L :: rest => trapz xx (map (trapz_nd xxs' rest) (chunk (prodl rest) L phi))
    | _, _ => hd n0 phi
    end.

  (** *** admix_props paths: data[idx] = trapz_x(trapz_y(...trapz_last(prod_k factor_k[idx_k] * phi))),
      factor_k[i] = comb(n_k,i) p_k^i (1-p_k)^(n_k-i) on the whole grid, p_k = sum_j A[k][j] * grid_j *)
  Definition admix_p (row coords : list F) : F := nsum (map2 nmul row coords).
  Definition admix_g (A : list (list F)) (ns idx : list nat) (coords : list F) : F :=
    nprod (map (fun q => let '(row, n, i) := q in bker n i (admix_p row coords)) (combine (combine A ns) idx)).
  Fixpoint wint (g : list F -> F) (xxs : list (list F)) (shape : list nat) (coords : list F) (phi : list F) : F :=
    match xxs, shape with
    | xx :: xxs', L :: rest =>
        trapz xx (map2 (fun x blk => wint g xxs' rest (coords ++ [x]) blk) xx (chunk (prodl rest) L phi))
    | _, _ => g coords * hd n0 phi
    end.
  Definition admix_nd (A : list (list F)) (ns : list nat) (xxs : list (list F)) (shape : list nat) (phi : list F) : list F :=
    map (fun idx => wint (admix_g A ns idx) xxs shape [] phi) (idxs ns).

  (** *** dispatch: Spectrum.from_phi.  [None] = the call is refused (ValueError / NotImplementedError). *)
  (** numpy.allclose(a, b) with the default rtol = 1e-5, atol = 1e-8 *)
  Definition close1 (a b : F) : bool := nabs (a - b) <=? (n1 / nofZ 100000000 + n1 / nofZ 100000 * nabs b).
  Definition allclose (a b : list F) : bool :=
    Nat.eqb (length a) (length b) && forallb (fun p => close1 (fst p) (snd p)) (combine a b).
  Record opts := { o_admix : option (list (list F)); o_het : option nat; o_force : bool }.
  Definition same_grid01 (xxs : list (list F)) : bool :=
    match xxs with xx :: yy :: _ => allclose xx yy | _ => true end.
  Definition from_phi (o : opts) (ns : list nat) (xxs : list (list F)) (shape : list nat) (phi : list F)
    : option (list F) :=
    let d := length shape in
    let admix_bad := match o_admix o with
                     | Some A => negb (forallb (fun row => close1 (nsum row) n1) A)
                     | None => false end in
    let het_bad := match o_het o with Some h => negb (h <? 3)%nat | None => false end in
    let both := match o_admix o, o_het o with Some _, Some _ => true | _, _ => false end in
    let plain := match o_admix o, o_het o, o_force o with None, None, false => true | _, _, _ => false end in
    if admix_bad then None
    else if negb (Nat.eqb d (length ns) && Nat.eqb d (length xxs)) then None
    else if het_bad then None
    else if both then None
    else match d with
         | 1%nat =>
             match o_het o, o_force o, ns, xxs with
             | None, false, [n], [xx] => Some (analytic1D n xx phi)
             | _, _, [n], [xx] => Some (nd (direct_ops (o_het o) ns xxs) shape phi)
             | _, _, _, _ => None
             end
         | 2%nat | 3%nat | 4%nat =>
             if plain then (if same_grid01 xxs then Some (nd (linalg_ops ns xxs) shape phi) else None)
             else match o_admix o with
                  | None => Some (nd (direct_ops (o_het o) ns xxs) shape phi)
                  | Some A => Some (admix_nd A ns xxs shape phi)
                  end
         | 5%nat =>
             if plain then (if same_grid01 xxs then Some (nd (linalg_ops ns xxs) shape phi) else None)
             else None          (* the code has no branch here: `fs` is never bound *)
         | _ => None
         end.

  (** Spectrum.from_phi_inbreeding *)
  Definition from_phi_inbreeding (o : opts) (ns : list nat) (xxs : list (list F)) (Fs : list F) (ploidys : list nat)
             (shape : list nat) (phi : list F) : option (list F) :=
    let d := length shape in
    if forallb (fun f => f =? n0) Fs then from_phi o ns xxs shape phi
    else
      let admix_bad := match o_admix o with
                       | Some A => negb (forallb (fun row => close1 (nsum row) n1) A)
                       | None => false end in
      let het_bad := match o_het o with Some h => negb (h <? 3)%nat | None => false end in
      let both := match o_admix o, o_het o with Some _, Some _ => true | _, _ => false end in
      if admix_bad then None
      else if negb (Nat.eqb d (length ns) && Nat.eqb d (length xxs) && Nat.eqb d (length Fs) && Nat.eqb d (length ploidys)) then None
      else if het_bad then None
      else if both then None
      else if existsb (fun f => f =? n0) Fs then None      (* (1-F)/F: division by zero (inf/nan in floats) *)
      else if negb (forallb (fun np => Nat.eqb (Nat.modulo (fst np) (snd np)) 0) (combine ns ploidys)) then None
      else match d with
           | 1%nat | 2%nat | 3%nat =>
               Some (nd (inb_ops (o_het o) ns ploidys (map (fun f => nmin f Fcap) Fs) xxs) shape phi)
           | _ => None
           end.

  (** *** hypergeometric projection weight C(m,i) C(n-m,j-i) / C(n,j) (Spectrum.project, see C08) *)
  Definition hyperw (n m j i : nat) : F :=
    if (i <=? j)%nat then nofZ (cZ m i) * nofZ (cZ (n - m) (j - i)) / nofZ (cZ n j) else n0.
  Definition project1 (n m : nat) (fs : list F) : list F :=
    map (fun i => nsum (map2 (fun j v => hyperw n m j i * v) (seq 0 (S n)) fs)) (seq 0 (S m)).
End FromPhi.
