(** C20 — comparison functions used by the generated case files (run by vm_compute). *)
From Coq Require Import List ZArith Bool Arith.
From Dadi Require Import Model.Memo Model.Heap.
Import ListNotations.

Fixpoint nat_list_eqb (a b : list nat) : bool :=
  match a, b with
  | [], [] => true
  | x :: a', y :: b' => Nat.eqb x y && nat_list_eqb a' b'
  | _, _ => false
  end.

Fixpoint N_list_eqb (a b : list N) : bool :=
  match a, b with
  | [], [] => true
  | x :: a', y :: b' => N.eqb x y && N_list_eqb a' b'
  | _, _ => false
  end.

Definition subsetb (a b : list N) : bool := forallb (fun x => existsb (N.eqb x) b) a.

(** one instrumented history:
      mc_init  : the dictionary as found before the first logged call, (key id, value id) pairs
      mc_calls : every entry into a memoised function, (key id, id of the value a cache-free evaluation gives)
      mc_obs   : id of the value each call actually returned
      mc_keys  : key ids found in the real dictionaries after the history *)
Record memo_case := { mc_init : list (N * N); mc_calls : list (N * N); mc_obs : list N; mc_keys : list N }.

Definition memo_check (c : memo_case) : bool * Z :=
  let (ch, rs) := nrun (mc_init c) (mc_calls c) in
  let ks := keys_of ch in
  (N_list_eqb rs (mc_obs c) && subsetb ks (mc_keys c) && subsetb (mc_keys c) ks
   && Nat.eqb (length ks) (length (mc_keys c)), 0%Z).

(** one observed integrator call against the protocol the translator extracted from its source *)
Record proto_case := { pc_copies : bool; pc_early : bool; pc_tzero : bool; pc_obs_changed : bool; pc_obs_alias : bool }.

Definition proto_check (c : proto_case) : bool * Z :=
  let pr := {| copies_at_entry := pc_copies c; early_return_before_copy := pc_early c |} in
  let h := [[1; 2; 3]] in
  let (h', q) := integrate (map S) pr (pc_tzero c) h 0 in
  let changed := negb (nat_list_eqb (read h' 0) (read h 0)) in
  let alias := Nat.eqb q 0 in
  (Bool.eqb changed (pc_obs_changed c) && Bool.eqb alias (pc_obs_alias c), 0%Z).

(** one observed Spectrum arithmetic call (fs*2, 2*fs, fs/fs.S(), fs+ndarray, ...) against the constructor protocol the translator
    extracted from the operator template of Spectrum_mod.py: does the result's mask / data share memory with the operand's, and
    does flipping one mask entry of the result change fs.sum() of the operand (the run observes it on the real objects) *)
Record arith_case := { ac_copies : bool; ac_obs_mask_alias : bool; ac_obs_data_alias : bool; ac_obs_operand_changed : bool }.

Definition arith_check (c : arith_case) : bool * Z :=
  let pr := {| ctor_copies := ac_copies c |} in
  let h := [[3; 5; 7]; [1; 0; 0]] in
  let s := {| s_data := 0; s_mask := 1 |} in
  let (h', r) := arith (map (fun x => 2 * x)) pr h s in
  let mask_alias := Nat.eqb (s_mask r) (s_mask s) in
  let data_alias := Nat.eqb (s_data r) (s_data s) in
  let h'' := write h' (s_mask r) [1; 1; 0] in
  let changed := negb (Nat.eqb (observe_spectrum msum h'' s) (observe_spectrum msum h s)) in
  (Bool.eqb mask_alias (ac_obs_mask_alias c) && Bool.eqb data_alias (ac_obs_data_alias c)
   && Bool.eqb changed (ac_obs_operand_changed c), 0%Z).
