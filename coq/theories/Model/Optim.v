(** * Optim: the optimiser glue of dadi (C12).

    dadi/Inference.py : _project_params_down/_up, _object_func, _object_func_log and the scipy wrappers
                        optimize, optimize_log, optimize_lbfgsb, optimize_log_lbfgsb, optimize_log_fmin,
                        optimize_log_powell, optimize_cons, optimize_grid;
    dadi/NLopt_mod.py : opt;
    dadi/Misc.py      : perturb_params.

    Executable model only (no proofs).  The optimiser proper (nlopt, scipy.optimize) is NOT modelled:
    it is an argument [O : optimiser] -- a function that is handed bounds, a start and the objective and
    answers with the list of points at which it called the objective, the point it returns and the value it
    reports.  [scripted] is the executable instance that plays a given list of proposals.

    Conventions: a Python exception of the glue (ValueError of _project_params_down, TypeError of
    numpy.log on a list containing None) is [None]; a NaN likelihood is [None] of the likelihood oracle;
    user bounds are [option (list (option F))] (the whole list, or single entries, may be Python's None);
    what is handed to the optimiser are extended numbers [xnum] (numpy's -inf, +inf, nan). *)
From Coq Require Import ZArith List Bool.
From Dadi Require Import Base.Num.
Import ListNotations.
Local Open Scope num_scope.

(** ** _project_params_down / _project_params_up  (Inference.py 1152-1188) *)
Section Project.
  Context {A : Type}.

  (** for ii,(curr_val,fixed_val) in enumerate(zip(pin, fixed_params)): if fixed_val is None: pout.append(curr_val) *)
  Fixpoint down_aux {B : Type} (pin : list B) (fx : list (option A)) : list B :=
    match pin, fx with
    | x :: pin', None :: fx' => x :: down_aux pin' fx'
    | _ :: pin', Some _ :: fx' => down_aux pin' fx'
    | _, _ => []
    end.

  Definition project_down {B : Type} (pin : list B) (fixed : option (list (option A))) : option (list B) :=
    match fixed with
    | None => Some pin                                             (* if fixed_params is None: return pin *)
    | Some fx => if Nat.eqb (length pin) (length fx) then Some (down_aux pin fx)
                 else None                                         (* ValueError *)
    end.

  (** pout = zeros(len(fixed_params)); walk fixed_params, consuming pin at the free positions.
      Python raises IndexError when pin is exhausted; the model pads with [dflt] there (never reached when
      [length pin >= nfree fx]); surplus entries of pin are ignored, as in Python. *)
  Fixpoint up_aux (dflt : A) (pin : list A) (fx : list (option A)) : list A :=
    match fx with
    | [] => []
    | Some v :: fx' => v :: up_aux dflt pin fx'
    | None :: fx' => match pin with
                     | [] => dflt :: up_aux dflt [] fx'
                     | x :: pin' => x :: up_aux dflt pin' fx'
                     end
    end.

  Definition project_up (dflt : A) (pin : list A) (fixed : option (list (option A))) : list A :=
    match fixed with None => pin | Some fx => up_aux dflt pin fx end.

  Definition nfree (fx : list (option A)) : nat :=
    length (filter (fun f => match f with None => true | Some _ => false end) fx).

  (** the full-length vector with the fixed values written over the corresponding entries *)
  Definition subst_fixed (p : list A) (fixed : option (list (option A))) : list A :=
    match fixed with
    | None => p
    | Some fx => map (fun pf => match snd pf with Some v => v | None => fst pf end) (combine p fx)
    end.
End Project.

Section Optim.
  Context {F : Type} `{Num F}.

  (** likelihood of model_func(params) against the data: [ll_multinom] / [ll]; None = NaN *)
  Variable ll_multinom ll_plain : list F -> option F.

  Definition bounds := option (list (option F)).
  Definition fixedp := option (list (option F)).

  (** ** _object_func  (Inference.py 22-78) *)
  Definition out_of_bounds_val : F := nofZ (-100000000).           (* _out_of_bounds_val = -1e8 *)

  (** for pval,bound in zip(params_up, lower_bound): if bound is not None and pval < bound: return ... *)
  Definition viol_lower (lower : bounds) (p : list F) : bool :=
    match lower with
    | None => false
    | Some lb => existsb (fun pb => match snd pb with Some b => fst pb <? b | None => false end) (combine p lb)
    end.
  Definition viol_upper (upper : bounds) (p : list F) : bool :=
    match upper with
    | None => false
    | Some ub => existsb (fun pb => match snd pb with Some b => b <? fst pb | None => false end) (combine p ub)
    end.
  Definition in_bounds (lower upper : bounds) (p : list F) : bool :=
    negb (viol_lower lower p) && negb (viol_upper upper p).

  (** result = ll_multinom(sfs,data) if multinom else ll(sfs,data); if isnan(result): result = _out_of_bounds_val *)
  Definition ll_guard (multinom : bool) (p : list F) : F :=
    match (if multinom then ll_multinom p else ll_plain p) with
    | Some v => v
    | None => out_of_bounds_val
    end.

  (** returns (value, model evaluations made): the bound test comes BEFORE the model call *)
  Definition object_func (params : list F) (lower upper : bounds) (multinom : bool)
             (fixed : fixedp) (ll_scale : F) : F * list (list F) :=
    let params_up := project_up n0 params fixed in
    if viol_lower lower params_up then ((- out_of_bounds_val) / ll_scale, [])
    else if viol_upper upper params_up then ((- out_of_bounds_val) / ll_scale, [])
    else ((- (ll_guard multinom params_up)) / ll_scale, [params_up]).

  (** ** the optimiser oracle *)
  Inductive xnum := XNaN | XNegInf | XFin (x : F) | XPosInf.
  (** numpy.log on floats: log(x>0), log(0) = -inf, log(x<0) = nan, log(inf) = inf, log(-inf) = nan *)
  Definition xlog (b : xnum) : xnum :=
    match b with
    | XFin x => if n0 <? x then XFin (nln x) else if x =? n0 then XNegInf else XNaN
    | XPosInf => XPosInf
    | _ => XNaN
    end.
  (** repaired treatment of the lower bound in log space: anything that is not a positive number is "no bound" *)
  Definition xlog_lo (b : xnum) : xnum :=
    match b with
    | XFin x => if n0 <? x then XFin (nln x) else XNegInf
    | _ => XNegInf
    end.
  Definition lo_ok (b : xnum) (x : F) : bool :=
    match b with XFin l => l <=? x | XPosInf => false | _ => true end.
  Definition hi_ok (b : xnum) (x : F) : bool :=
    match b with XFin u => x <=? u | XNegInf => false | _ => true end.
  (** x lies in the box; an empty bound list is "no bounds given" (bfgs, fmin, powell) *)
  Definition box_ok (lo hi : list xnum) (x : list F) : bool :=
    forallb (fun bx => lo_ok (fst bx) (snd bx)) (combine lo x) &&
    forallb (fun bx => hi_ok (fst bx) (snd bx)) (combine hi x).

  Record oresult := { o_trace : list (list F);    (* points at which it called the objective, in order *)
                      o_x : list F;               (* the point it returns *)
                      o_f : F }.                  (* the value it reports *)
  Definition optimiser := list xnum -> list xnum -> list F -> (list F -> F) -> oresult.
  (** scipy.optimize.brute: handed the grid, no start *)
  Definition grid_optimiser := list (list F) -> (list F -> F) -> oresult.

  Definition list_eqb (a b : list F) : bool :=
    Nat.eqb (length a) (length b) && forallb (fun p => fst p =? snd p) (combine a b).

  (** the contract, as a boolean (evaluated on every correspondence case over Q; reflected into Prop over R) *)
  Definition contractb (maximize : bool) (lo hi : list xnum) (x0 : list F) (f : list F -> F) (r : oresult) : bool :=
    match o_trace r with x :: _ => list_eqb x x0 | [] => false end
    && forallb (fun x => box_ok lo hi x && Nat.eqb (length x) (length x0)) (o_trace r)
    && existsb (list_eqb (o_x r)) (o_trace r)
    && (o_f r =? f (o_x r))
    && forallb (fun x => if maximize then f x <=? o_f r else o_f r <=? f x) (o_trace r).

  (** the scripted optimiser: evaluates the start, then the proposals, in order; returns the best point
      (first one among equals) or, when [ret = Some k], the k-th point of its trace whatever its value *)
  Fixpoint argbest (maximize : bool) (f : list F -> F) (best : list F) (bv : F) (l : list (list F)) : list F :=
    match l with
    | [] => best
    | x :: t => let v := f x in
                if (if maximize then bv <? v else v <? bv) then argbest maximize f x v t
                else argbest maximize f best bv t
    end.
  Definition scripted (maximize : bool) (props : list (list F)) (ret : option nat) : optimiser :=
    fun _ _ x0 f =>
      let tr := x0 :: props in
      let x := match ret with None => argbest maximize f x0 (f x0) props | Some k => nth k tr x0 end in
      {| o_trace := tr; o_x := x; o_f := f x |}.
  (** a scripted optimiser that HONOURS the box it is handed (the box part of the contract holds by construction, whatever
      the script): every proposal is moved onto the box coordinate by coordinate before the objective is called; the start
      is evaluated as it was handed over.  A wrapper that hands over a smaller set of bounds than the user gave (a bound
      list dropped, an entry lost) lets such an optimiser evaluate the proposals beyond that bound as they are.
      An empty bound list is "no bounds" (as for [box_ok]); nan is "no bound" (as for [lo_ok] / [hi_ok]). *)
  Definition clip1 (lo hi : xnum) (x : F) : F :=
    let x := match lo with XFin l => if x <? l then l else x | _ => x end in
    match hi with XFin u => if u <? x then u else x | _ => x end.
  Fixpoint clip (lo hi : list xnum) (x : list F) : list F :=
    match x with
    | [] => []
    | v :: x' => clip1 (hd XNegInf lo) (hd XPosInf hi) v :: clip (tl lo) (tl hi) x'
    end.
  Definition scripted_clip (maximize : bool) (props : list (list F)) (ret : option nat) : optimiser :=
    fun lo hi x0 f => scripted maximize (map (clip lo hi) props) ret lo hi x0 f.
  Definition scripted_grid (ret : option nat) : grid_optimiser :=
    fun grid f =>
      match grid with
      | [] => {| o_trace := []; o_x := []; o_f := n0 |}
      | g0 :: rest =>
        let x := match ret with None => argbest false f g0 (f g0) rest | Some k => nth k grid g0 end in
        {| o_trace := grid; o_x := x; o_f := f x |}
      end.

  (** what a wrapper returns, together with what it handed to the optimiser and what was evaluated *)
  Record wresult := { w_x : list F;                 (* returned parameter vector *)
                      w_f : F;                      (* reported optimum *)
                      w_evals : list (list F);      (* model evaluations, in order *)
                      w_lo : list xnum; w_hi : list xnum; w_start : list F;
                      w_oracle : oresult }.

  Definition bind {A B : Type} (a : option A) (f : A -> option B) : option B :=
    match a with Some x => f x | None => None end.

  Definition to_lo (b : option F) : xnum := match b with Some x => XFin x | None => XNegInf end.
  Definition to_hi (b : option F) : xnum := match b with Some x => XFin x | None => XPosInf end.

  (** ** NLopt_mod.opt  (NLopt_mod.py 82-154) *)
  (** def f(x, grad): if log_opt: x = exp(x); return -_object_func(x, data, model_func, pts, ..., fixed_params=fixed_params)
      -- no bounds are handed to _object_func, ll_scale is its default 1 *)
  Definition opt_objective (multinom : bool) (fixed : fixedp) (log_opt : bool) (x : list F) : F * list (list F) :=
    let x := if log_opt then map nexp x else x in
    let r := object_func x None None multinom fixed n1 in
    (- (fst r), snd r).

  (** [repaired = false] is the code of the snapshot: `if log_opt: xopt = np.exp(p0)` (p0 is by then the log of the
      start).  [repaired = true] is the one-token repair `xopt = np.exp(xopt)`; the harness reports which of the two the
      current source agrees with. *)
  (** [replb = false]: `np.log(lower_bound)` as written -- an absent lower bound is log(-inf) = nan, a negative one nan too.
      [replb = true]: the repair `[np.log(b) if b > 0 else -np.inf for b in lower_bound]`. *)
  Definition opt_gen (repaired replb : bool) (O : optimiser) (p0 : list F) (lower upper : bounds) (fixed : fixedp)
             (multinom log_opt : bool) : option wresult :=
    (* if lower_bound is None: lower_bound = [-inf]*len(p0);  lower_bound = _project_params_down(lower_bound, fixed_params) *)
    let lower := match lower with None => repeat None (length p0) | Some l => l end in
    bind (project_down lower fixed) (fun lower =>
    let upper := match upper with None => repeat None (length p0) | Some l => l end in
    bind (project_down upper fixed) (fun upper =>
    (* lower_bound = [_ if _ is not None else -inf for _ in lower_bound]; same with +inf for upper_bound *)
    let lower := map to_lo lower in
    let upper := map to_hi upper in
    (* if log_opt: lower_bound, upper_bound = np.log(lower_bound), np.log(upper_bound) *)
    let lower := if log_opt then map (if replb then xlog_lo else xlog) lower else lower in
    let upper := if log_opt then map xlog upper else upper in
    (* p0 = _project_params_down(p0, fixed_params) *)
    bind (project_down p0 fixed) (fun p0 =>
    let f := fun x => fst (opt_objective multinom fixed log_opt x) in
    (* if log_opt: p0 = np.log(p0) *)
    let p0 := if log_opt then map nln p0 else p0 in
    (* xopt = opt.optimize(p0) *)
    let r := O lower upper p0 f in
    let xopt := o_x r in
    (* if log_opt: xopt = np.exp(p0) *)
    let xopt := if log_opt then map nexp (if repaired then xopt else p0) else xopt in
    (* opt_val = opt.last_optimum_value() *)
    let opt_val := o_f r in
    (* xopt = _project_params_up(xopt, fixed_params) *)
    let xopt := project_up n0 xopt fixed in
    Some {| w_x := xopt; w_f := opt_val;
            w_evals := flat_map (fun x => snd (opt_objective multinom fixed log_opt x)) (o_trace r);
            w_lo := lower; w_hi := upper; w_start := p0; w_oracle := r |}))).

  (** the current code (both lines repaired, /repo commits c501335 and b08df5e) and the code of the snapshot *)
  Definition opt := opt_gen true true.
  Definition opt_snapshot := opt_gen false false.

  (** ** the scipy wrappers: one generic driver, one configuration per function, read off the source *)
  Inductive bmode := BNone     (* no bounds handed to the optimiser (fmin_bfgs, fmin, fmin_powell) *)
                   | BPlain    (* zip(_project_params_down(lower), _project_params_down(upper)) *)
                   | BLog      (* the same after numpy.log of the whole list (TypeError on a None entry) *)
                   | BLogNone. (* current form: numpy.log entry by entry, None entries stay None, then nan -> None *)
  Record wcfg := { wc_obj_log : bool;        (* objective is _object_func_log (exp of the argument) *)
                   wc_start_log : bool;      (* the start handed over is numpy.log(p0) *)
                   wc_ret_exp : bool;        (* xopt = _project_params_up(numpy.exp(xopt), ...) *)
                   wc_obj_bounds : bool;     (* args carries lower_bound, upper_bound (else None, None) *)
                   wc_oracle_bounds : bmode;
                   wc_ll_scale : bool }.     (* args carries ll_scale (else the literal 1.0) *)

  Definition cfg_optimize            := {| wc_obj_log := false; wc_start_log := false; wc_ret_exp := false; wc_obj_bounds := true;  wc_oracle_bounds := BNone;  wc_ll_scale := true |}.
  Definition cfg_optimize_log        := {| wc_obj_log := true;  wc_start_log := true;  wc_ret_exp := true;  wc_obj_bounds := true;  wc_oracle_bounds := BNone;  wc_ll_scale := true |}.
  (* current code: fmin_l_bfgs_b(_object_func, p0, ...) *)
  Definition cfg_optimize_lbfgsb     := {| wc_obj_log := false; wc_start_log := false; wc_ret_exp := false; wc_obj_bounds := false; wc_oracle_bounds := BPlain; wc_ll_scale := true |}.
  (* the snapshot: fmin_l_bfgs_b(_object_func, numpy.log(p0), ...) *)
  Definition cfg_optimize_lbfgsb_snapshot := {| wc_obj_log := false; wc_start_log := true;  wc_ret_exp := false; wc_obj_bounds := false; wc_oracle_bounds := BPlain; wc_ll_scale := true |}.
  Definition cfg_optimize_log_lbfgsb := {| wc_obj_log := true;  wc_start_log := true;  wc_ret_exp := true;  wc_obj_bounds := false; wc_oracle_bounds := BLogNone; wc_ll_scale := true |}.
  Definition cfg_optimize_log_lbfgsb_snapshot := {| wc_obj_log := true;  wc_start_log := true;  wc_ret_exp := true;  wc_obj_bounds := false; wc_oracle_bounds := BLog;   wc_ll_scale := true |}.
  Definition cfg_optimize_log_fmin   := {| wc_obj_log := true;  wc_start_log := true;  wc_ret_exp := true;  wc_obj_bounds := true;  wc_oracle_bounds := BNone;  wc_ll_scale := false |}.
  Definition cfg_optimize_log_powell := {| wc_obj_log := true;  wc_start_log := true;  wc_ret_exp := true;  wc_obj_bounds := true;  wc_oracle_bounds := BNone;  wc_ll_scale := false |}.
  Definition cfg_optimize_cons       := {| wc_obj_log := false; wc_start_log := false; wc_ret_exp := false; wc_obj_bounds := false; wc_oracle_bounds := BPlain; wc_ll_scale := true |}.

  Definition is_none {A : Type} (o : option A) : bool := match o with None => true | Some _ => false end.

  (** the bounds handed to the optimiser.  BPlain: `if lower_bound is None: lower_bound = [None]*len(p0)` then
      project down (scipy reads None as unbounded).  BLog: `numpy.log(lower_bound)` (TypeError on a None entry),
      `lower_bound[numpy.isnan(lower_bound)] = None` leaves the nan in the float array, then project down.
      BLogNone (current code): `[None if _ is None else numpy.log(_) for _ in lower_bound]`, then
      `[None if (_ is not None and numpy.isnan(_)) else _ for _ in lower_bound]` (log of a negative bound = nan becomes
      "no bound"; log(0) = -inf stays), then project down; scipy reads None as unbounded. *)
  Definition oracle_bounds (m : bmode) (conv : option F -> xnum) (bnd : bounds) (n : nat) (fixed : fixedp)
    : option (list xnum) :=
    match m with
    | BNone => Some []
    | BPlain => let l := match bnd with None => repeat None n | Some l => l end in
                option_map (map conv) (project_down l fixed)
    | BLog => match bnd with
              | None => option_map (map conv) (project_down (repeat None n) fixed)
              | Some l => if existsb is_none l then None
                          else project_down (map (fun b => match b with Some x => xlog (XFin x) | None => XNaN end) l) fixed
              end
    | BLogNone => let l := match bnd with None => repeat None n | Some l => l end in
                  project_down (map (fun b => match b with
                                                   | Some x => match xlog (XFin x) with XNaN => conv None | y => y end
                                                   | None => conv None
                                                   end) l) fixed
    end.

  Definition scipy_objective (cfg : wcfg) (lower upper : bounds) (multinom : bool) (fixed : fixedp)
             (ll_scale : F) (x : list F) : F * list (list F) :=
    let ll_scale := if wc_ll_scale cfg then ll_scale else n1 in
    let olb := if wc_obj_bounds cfg then lower else None in
    let oub := if wc_obj_bounds cfg then upper else None in
    object_func (if wc_obj_log cfg then map nexp x else x) olb oub multinom fixed ll_scale.

  Definition scipy_wrapper (cfg : wcfg) (O : optimiser) (p0 : list F) (lower upper : bounds) (fixed : fixedp)
             (multinom : bool) (ll_scale : F) : option wresult :=
    bind (oracle_bounds (wc_oracle_bounds cfg) to_lo lower (length p0) fixed) (fun lo =>
    bind (oracle_bounds (wc_oracle_bounds cfg) to_hi upper (length p0) fixed) (fun hi =>
    bind (project_down p0 fixed) (fun p0 =>
    let obj := scipy_objective cfg lower upper multinom fixed ll_scale in
    let start := if wc_start_log cfg then map nln p0 else p0 in
    let r := O lo hi start (fun x => fst (obj x)) in
    let xopt := if wc_ret_exp cfg then map nexp (o_x r) else o_x r in
    Some {| w_x := project_up n0 xopt fixed; w_f := o_f r;
            w_evals := flat_map (fun x => snd (obj x)) (o_trace r);
            w_lo := lo; w_hi := hi; w_start := start; w_oracle := r |}))).

  Definition optimize            := scipy_wrapper cfg_optimize.
  Definition optimize_log        := scipy_wrapper cfg_optimize_log.
  Definition optimize_lbfgsb     := scipy_wrapper cfg_optimize_lbfgsb.
  Definition optimize_lbfgsb_snapshot := scipy_wrapper cfg_optimize_lbfgsb_snapshot.
  Definition optimize_log_lbfgsb := scipy_wrapper cfg_optimize_log_lbfgsb.
  Definition optimize_log_lbfgsb_snapshot := scipy_wrapper cfg_optimize_log_lbfgsb_snapshot.
  Definition optimize_log_fmin   := scipy_wrapper cfg_optimize_log_fmin.
  Definition optimize_log_powell := scipy_wrapper cfg_optimize_log_powell.
  Definition optimize_cons       := scipy_wrapper cfg_optimize_cons.

  (** optimize_grid (Inference.py 1191-1285): brute(_object_func, ranges=grid, args=(..., None, None, ..., fixed_params, 1.0, ...), finish=False) *)
  Definition grid_objective (multinom : bool) (fixed : fixedp) (x : list F) : F * list (list F) :=
    object_func x None None multinom fixed n1.
  (** with full_output the thetas are collected by `_theta_store[tuple(grid[(slice(None),) + indices])]`; for a single
      free parameter scipy's brute hands back a 1-D grid and that subscript raises IndexError *)
  Definition optimize_grid_gen (repaired : bool) (O : grid_optimiser) (grid : list (list F)) (fixed : fixedp) (multinom full_output : bool)
    : option wresult :=
    let r := O grid (fun x => fst (grid_objective multinom fixed x)) in
    if negb repaired && full_output && Nat.eqb (length (hd [] grid)) 1 then None else
    Some {| w_x := project_up n0 (o_x r) fixed; w_f := o_f r;
            w_evals := flat_map (fun x => snd (grid_objective multinom fixed x)) (o_trace r);
            w_lo := []; w_hi := []; w_start := []; w_oracle := r |}.

  Definition optimize_grid := optimize_grid_gen true.              (* current code (87150b4) *)
  Definition optimize_grid_snapshot := optimize_grid_gen false.

  (** ** Misc.perturb_params  (Misc.py 106-131); [us] are the draws of numpy.random.uniform(size=len(params)) *)
  Definition c101 : F := nofZ 101 / nofZ 100.
  Definition c099 : F := nofZ 99 / nofZ 100.
  (** [repaired = false]: 1.01*lower, 0.99*upper as in the snapshot; [repaired = true]: the 1% margin is taken
      towards the inside of the box whatever the sign of the bound *)
  Definition shrink_lo (repaired : bool) (b : F) : F := if repaired && (b <? n0) then c099 * b else c101 * b.
  Definition shrink_hi (repaired : bool) (b : F) : F := if repaired && (b <? n0) then c101 * b else c099 * b.
  Definition perturb_gen (repaired : bool) (params : list F) (fold : F) (us : list F) (lower upper : bounds) : list F :=
    (* pnew = params * 2**(fold * (2*uniform - 1)) *)
    let pnew := map (fun pu => fst pu * nexp ((fold * (n2 * snd pu - n1)) * nln n2)) (combine params us) in
    (* None entries become -inf: maximum(pnew, 1.01 * -inf) = pnew *)
    let pnew := match lower with
                | None => pnew
                | Some lb => map (fun pb => match snd pb with Some b => nmax (fst pb) (shrink_lo repaired b) | None => fst pb end) (combine pnew lb)
                end in
    let pnew := match upper with
                | None => pnew
                | Some ub => map (fun pb => match snd pb with Some b => nmin (fst pb) (shrink_hi repaired b) | None => fst pb end) (combine pnew ub)
                end in
    pnew.
  Definition perturb_params := perturb_gen true.                   (* current code (64356e4) *)
  Definition perturb_params_snapshot := perturb_gen false.
End Optim.

Arguments XNaN {F}. Arguments XNegInf {F}. Arguments XPosInf {F}. Arguments XFin {F} x.
Arguments xnum : clear implicits.
Arguments oresult : clear implicits.
Arguments wresult : clear implicits.
Arguments optimiser : clear implicits.
Arguments grid_optimiser : clear implicits.
