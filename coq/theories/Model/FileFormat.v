(** C14 — executable model of the spectrum file format and of the pickle reduce tuple.

    Modelled source (copied branch by branch):
      dadi/Spectrum_mod.py  Spectrum.from_file / fromfile        (l. 206-279)
                            Spectrum.to_file / tofile            (l. 281-356)
                            Spectrum.__new__  (only what the two readers use: mask=None, mask_corners,
                                               data_folded, the len(pop_ids) <> ndim rejection)
                            Spectrum_pickler / Spectrum_unpickler (l. 2602-2613, copyreg)
      dadi/Numerics.py      array_from_file / array_to_file      (l. 544-642)

    Text is [string] over [ascii] (code points 0..127 of a Python str; the file is ASCII).
    A file is ONE string; [readlines] is the sequence of results of successive [fid.readline()] calls in
    text mode (universal newlines: "\n", "\r" and "\r\n" all end a line and are returned as "\n").
    Once the list is exhausted readline returns "" (modelled by [nth k ls ""]).

    Numbers: [num] is abstract.  [fmt p x] is what ['%.<p>g' % x] prints, [parse t] what numpy's text reader
    returns for the token [t].  Both are Section variables; the theorems (Proofs/FileFormatProofs.v) assume
    [parse (fmt p x) = round p x] and that a formatted number is a non-empty string without white space.
    Non-finite values are ordinary elements of [num] ('inf', '-inf', 'nan' are tokens like any other).
    In the correspondence check [num := string] (the token Python printed), [fmt _ t := t], [parse t := t].

    No proofs in this file. *)
From Coq Require Import String Ascii List Bool Arith NArith DecimalString.
Import ListNotations.
Local Open Scope list_scope.
Local Open Scope string_scope.

(* ------------------------------------------------------------------------------------------- *)
(** * Characters and Python's str primitives *)

Definition LF : ascii := "010"%char.
Definition CR : ascii := "013"%char.
Definition SP : ascii := " "%char.
Definition QU : ascii := """"%char.
Definition HASH : ascii := "#"%char.
Definition NL : string := String LF "".

(** str.isspace for ASCII: \t \n \v \f \r, \x1c-\x1f, ' ' *)
Definition is_space (c : ascii) : bool :=
  let n := N_of_ascii c in (((9 <=? n) && (n <=? 13)) || ((28 <=? n) && (n <=? 32)))%N.

Definition is_nl (c : ascii) : bool := Ascii.eqb c LF || Ascii.eqb c CR.

Definition is_empty (s : string) : bool := match s with EmptyString => true | _ => false end.

Fixpoint sall (f : ascii -> bool) (s : string) : bool :=
  match s with EmptyString => true | String c s' => f c && sall f s' end.

Fixpoint sconcat (l : list string) : string :=
  match l with [] => "" | x :: t => x ++ sconcat t end.

(** ' '.join(l) *)
Definition join (sep : string) (l : list string) : string := String.concat sep l.

(** s.lstrip(), s.rstrip(), s.strip() *)
Fixpoint lstrip (s : string) : string :=
  match s with
  | EmptyString => ""
  | String c s' => if is_space c then lstrip s' else s
  end.

Fixpoint rstrip (s : string) : string :=
  match s with
  | EmptyString => ""
  | String c s' => let r := rstrip s' in if is_space c && is_empty r then "" else String c r
  end.

Definition strip (s : string) : string := lstrip (rstrip s).

(** s.split(): [toks s] = (token in progress at the start of s, the later tokens) *)
Fixpoint toks (s : string) : string * list string :=
  match s with
  | EmptyString => ("", [])
  | String c s' =>
      let (t, ts) := toks s' in
      if is_space c then ("", if is_empty t then ts else t :: ts) else (String c t, ts)
  end.

Definition split_ws (s : string) : list string :=
  let (t, ts) := toks s in if is_empty t then ts else t :: ts.

(** s.split(q): never empty *)
Fixpoint split_on (q : ascii) (s : string) : list string :=
  match s with
  | EmptyString => [""]
  | String c s' =>
      if Ascii.eqb c q then "" :: split_on q s'
      else match split_on q s' with
           | h :: t => String c h :: t
           | [] => [String c ""]
           end
  end.

(** l[1::2] *)
Fixpoint odds {A} (l : list A) : list A :=
  match l with
  | _ :: x :: t => x :: odds t
  | _ => []
  end.

Definition starts_hash (s : string) : bool :=
  match s with String c _ => Ascii.eqb c HASH | EmptyString => false end.

Definition stail (s : string) : string := match s with String _ s' => s' | EmptyString => "" end.

(** the results of successive readline() calls on a text-mode stream holding [s] (universal newlines);
    the last element is the unterminated remainder ("" when the text ends with a line terminator) *)
Fixpoint readlines (s : string) : list string :=
  match s with
  | EmptyString => [""]
  | String c s' =>
      if Ascii.eqb c LF then NL :: readlines s'
      else if Ascii.eqb c CR then
        match s' with
        | String c2 s'' => if Ascii.eqb c2 LF then NL :: readlines s'' else NL :: readlines s'
        | EmptyString => NL :: readlines s'
        end
      else match readlines s' with
           | l :: ls => String c l :: ls
           | [] => [String c ""]
           end
  end.

(** '%i' % n  and  int(t).  int() also accepts signs, underscores and surrounding blanks; the model accepts
    plain digit strings only (what the writer produces; anything else is outside the documented format). *)
Definition print_nat (n : nat) : string := NilEmpty.string_of_uint (Nat.to_uint n).
Definition parse_nat (t : string) : option nat :=
  match t with
  | EmptyString => None
  | _ => option_map Nat.of_uint (NilEmpty.uint_of_string t)
  end.

Fixpoint parse_nats (ts : list string) : option (list nat) :=
  match ts with
  | [] => Some []
  | t :: r => match parse_nat t, parse_nats r with
              | Some n, Some ns => Some (n :: ns)
              | _, _ => None
              end
  end.

Definition nprod (l : list nat) : nat := fold_right Nat.mul 1 l.

(* ------------------------------------------------------------------------------------------- *)
(** * Arrays, spectra *)

Record array (A : Type) := mkArray { a_shape : list nat; a_flat : list A }.   (* C order (ravel) *)
Arguments mkArray {A}. Arguments a_shape {A}. Arguments a_flat {A}.

Record spectrum (num : Type) := mkSpec {
  sp_shape : list nat;
  sp_data : list num;                    (* self.data.ravel() *)
  sp_mask : list bool;                   (* self.mask.ravel() *)
  sp_folded : bool;
  sp_labels : option (list string);      (* pop_ids *)
  sp_extrap : option num }.              (* extrap_x *)
Arguments mkSpec {num}. Arguments sp_shape {num}. Arguments sp_data {num}. Arguments sp_mask {num}.
Arguments sp_folded {num}. Arguments sp_labels {num}. Arguments sp_extrap {num}.

(** mask.flat[0] = mask.flat[-1] = True *)
Fixpoint set_last (m : list bool) : list bool :=
  match m with
  | [] => []
  | [_] => [true]
  | x :: t => x :: set_last t
  end.
Definition set_corners (m : list bool) : list bool :=
  match m with [] => [] | _ :: t => set_last (true :: t) end.

Definition labels_len_ok (sh : list nat) (labels : option (list string)) : bool :=
  match labels with None => true | Some l => Nat.eqb (length l) (length sh) end.

(** Spectrum(data, mask, mask_corners, data_folded=folded, pop_ids=labels, extrap_x=extrap):
    [None] stands for the exceptions (reshape failure, MaskError, "pop_ids must be of length ...").
    mask = None gives an all-False mask.  data_folded / check_folding only log warnings. *)
Definition mk_spectrum {num} (d : array num) (m : option (array bool)) (mask_corners folded : bool)
           (labels : option (list string)) (extrap : option num) : option (spectrum num) :=
  if negb (Nat.eqb (length (a_flat d)) (nprod (a_shape d))) then None
  else
    match (match m with
           | None => Some (repeat false (length (a_flat d)))
           | Some ma => if Nat.eqb (length (a_flat ma)) (length (a_flat d)) then Some (a_flat ma) else None
           end) with
    | None => None
    | Some mk =>
        if labels_len_ok (a_shape d) labels
        then Some (mkSpec (a_shape d) (a_flat d) (if mask_corners then set_corners mk else mk) folded labels extrap)
        else None
    end.

Definition tok_of_bool (b : bool) : string := if b then "1" else "0".
(** numpy reads the mask line as floats and masked_array turns non-zero into True; the documented format
    ('1' masked, '0' unmasked) is what the model accepts *)
Definition mask_of_token (t : string) : option bool :=
  if String.eqb t "0" then Some false else if String.eqb t "1" then Some true else None.
Fixpoint mask_of_tokens (ts : list string) : option (list bool) :=
  match ts with
  | [] => Some []
  | t :: r => match mask_of_token t, mask_of_tokens r with
              | Some b, Some bs => Some (b :: bs)
              | _, _ => None
              end
  end.

Definition is_flag (t : string) : bool := String.eqb t "folded" || String.eqb t "unfolded".

(** the loop  [while shape_spl[next_ii] not in ['folded','unfolded']: shape.append(int(...)); next_ii += 1]
    on shape_spl[next_ii:]; returns (further dimensions, folded, the tokens after the flag) *)
Fixpoint shape_loop (ts : list string) : option (list nat * bool * list string) :=
  match ts with
  | [] => None                                                    (* IndexError *)
  | t :: rest =>
      if is_flag t then Some ([], String.eqb t "folded", rest)
      else match parse_nat t with
           | None => None                                         (* ValueError *)
           | Some n => match shape_loop rest with
                       | Some (sh, f, r) => Some (n :: sh, f, r)
                       | None => None
                       end
           end
  end.

(** the shape line: (shape, folded, pop_ids).  [line] is the readline() result (terminator included) *)
Definition parse_header (line : string) : option (list nat * bool * option (list string)) :=
  let shape_spl := split_ws line in
  if negb (existsb is_flag shape_spl) then
    (* old file format *)
    match parse_nats shape_spl with
    | Some sh => Some (sh, false, None)
    | None => None
    end
  else
    match shape_spl with
    | [] => None
    | t0 :: rest =>
        match parse_nat t0 with
        | None => None
        | Some n0 =>
            match shape_loop rest with
            | None => None
            | Some (sh, folded, after) =>
                Some (n0 :: sh, folded,
                      match after with                            (* len(shape_spl) > next_ii + 1 *)
                      | [] => None
                      | _ => Some (odds (split_on QU line))       (* line.split(QU)[1::2] *)
                      end)
            end
        end
    end.

(** the comment block: [while line.startswith('#'): comments.append(line[1:].strip()); line = readline()] *)
Fixpoint skip_comments (ls : list string) : list string * list string :=
  match ls with
  | l :: rest =>
      if starts_hash l then let (cs, r) := skip_comments rest in (strip (stail l) :: cs, r)
      else ([], ls)
  | [] => ([], [])
  end.

Section Format.
  Context {num : Type}.
  Variable fmt : nat -> num -> string.        (* '%.<p>g' % x *)
  Variable parse : string -> num.             (* numpy's text reader on one token *)

  (** numpy.fromstring(text, count=count, sep=' ') / numpy.fromfile(fid, count=count, sep=' '):
      the first [count] white-space separated tokens.  With fewer tokens numpy 2.x returns an array whose tail
      is uninitialised memory (no exception): modelled as [None] = "unspecified". *)
  Definition read_numbers (count : nat) (text : string) : option (list num) :=
    let ts := split_ws text in
    if Nat.ltb (length ts) count then None else Some (map parse (firstn count ts)).

  Definition read_mask (count : nat) (text : string) : option (list bool) :=
    let ts := split_ws text in
    if Nat.ltb (length ts) count then None else mask_of_tokens (firstn count ts).

  (* ----------------------------------------------------------------------------------------- *)
  (** ** Spectrum.to_file(fname, precision, comment_lines, foldmaskinfo) *)

  Definition comment_line (eol : string) (c : string) : string := "# " ++ strip c ++ eol.

  Definition shape_text (sh : list nat) : string := sconcat (map (fun n => print_nat n ++ " ") sh).

  Definition label_text (labels : option (list string)) : string :=
    match labels with
    | None => ""
    | Some ls => sconcat (map (fun l => " """ ++ l ++ """") ls)
    end.

  Definition header_line (foldmaskinfo : bool) (s : spectrum num) : string :=
    shape_text (sp_shape s)
    ++ (if foldmaskinfo
        then (if negb (sp_folded s) then "unfolded" else "folded") ++ label_text (sp_labels s)
        else "")
    ++ NL.

  (** numpy.savetxt(fid, [row], delimiter=' ', fmt=f): one line *)
  Definition data_line (p : nat) (data : list num) : string := join " " (map (fmt p) data) ++ NL.
  Definition mask_line (mask : list bool) : string := join " " (map tok_of_bool mask) ++ NL.

  Definition to_file_lines (p : nat) (comments : list string) (foldmaskinfo : bool) (s : spectrum num)
    : list string :=
    (map (comment_line NL) comments
     ++ [header_line foldmaskinfo s]
     ++ [data_line p (sp_data s)]
     ++ (if foldmaskinfo then [mask_line (sp_mask s)] else []))%list.

  Definition to_file (p : nat) (comments : list string) (foldmaskinfo : bool) (s : spectrum num) : string :=
    sconcat (to_file_lines p comments foldmaskinfo s).

  (* ----------------------------------------------------------------------------------------- *)
  (** ** Spectrum.from_file(fname, mask_corners, return_comments=True) on the readline sequence *)

  Definition from_file_lines (mask_corners : bool) (ls : list string)
    : option (list string * spectrum num) :=
    let (comments, rest) := skip_comments ls in
    match parse_header (nth 0 rest "") with
    | None => None
    | Some (shape, folded, labels) =>
        match shape with
        | [] => None        (* empty shape line: not a spectrum file (the code goes on with a 0-d array) *)
        | _ =>
            let count := nprod shape in
            match read_numbers count (strip (nth 1 rest "")) with
            | None => None
            | Some data =>
                let maskline := strip (nth 2 rest "") in
                match (if is_empty maskline then Some None      (* old format: no mask line *)
                       else option_map (fun m => Some (mkArray shape m)) (read_mask count maskline)) with
                | None => None
                | Some mask =>
                    option_map (fun fs => (comments, fs))
                               (mk_spectrum (mkArray shape data) mask mask_corners folded labels None)
                end
            end
        end
    end.

  Definition from_file (mask_corners : bool) (text : string) : option (list string * spectrum num) :=
    from_file_lines mask_corners (readlines text).

  (* ----------------------------------------------------------------------------------------- *)
  (** ** Numerics.array_to_file / array_from_file  (os.linesep = "\n") *)

  (** data.filled(): masked entries replaced by the fill value (nan for a Spectrum) *)
  Fixpoint filled (fillv : num) (mask : list bool) (data : list num) : list num :=
    match mask, data with
    | m :: ms, x :: xs => (if m then fillv else x) :: filled fillv ms xs
    | _, _ => data
    end.

  Definition array_to_file_lines (p : nat) (comments : list string) (a : array num) : list string :=
    (map (comment_line NL) comments
     ++ [(shape_text (a_shape a) ++ NL)%string]
     ++ [(join " " (map (fmt p) (a_flat a)) ++ NL)%string])%list.       (* data.tofile(fid, ' ', fmt); fid.write(linesep) *)

  Definition array_to_file (p : nat) (comments : list string) (a : array num) : string :=
    sconcat (array_to_file_lines p comments a).

  Definition array_from_file_lines (ls : list string) : option (list string * array num) :=
    let (comments, rest) := skip_comments ls in
    match parse_nats (split_ws (nth 0 rest "")) with
    | None => None
    | Some shape =>
        match shape with
        | [] => None
        | _ =>
            (* numpy.fromfile reads on from the current position, across line ends *)
            match read_numbers (nprod shape) (sconcat (tl rest)) with
            | None => None
            | Some data => Some (comments, mkArray shape data)
            end
        end
    end.

  Definition array_from_file (text : string) : option (list string * array num) :=
    array_from_file_lines (readlines text).

  (* ----------------------------------------------------------------------------------------- *)
  (** ** pickle: copyreg.pickle(Spectrum, Spectrum_pickler, Spectrum_unpickler) *)

  Definition reduce_args : Type :=
    (array num * array bool * bool * option (list string) * option num)%type.

  (** Spectrum_pickler(fs) = Spectrum_unpickler, (fs.data, fs.mask, fs.folded, fs.pop_ids, fs.extrap_x) *)
  Definition spectrum_pickler (s : spectrum num) : reduce_args :=
    (mkArray (sp_shape s) (sp_data s), mkArray (sp_shape s) (sp_mask s), sp_folded s, sp_labels s, sp_extrap s).

  (** Spectrum_unpickler(data, mask, data_folded, pop_ids, extrap_x)
        = Spectrum(data, mask, mask_corners=False, data_folded=..., check_folding=False, pop_ids=..., extrap_x=...) *)
  Definition spectrum_unpickler (t : reduce_args) : option (spectrum num) :=
    let '(data, mask, folded, labels, extrap) := t in
    mk_spectrum data (Some mask) false folded labels extrap.

  (* ----------------------------------------------------------------------------------------- *)
  (** ** what a round trip is allowed to change *)

  Variable round : nat -> num -> num.

  (** file round trip: values to p digits, the corners forced when mask_corners, extrap_x not stored *)
  Definition after_file (p : nat) (mask_corners : bool) (s : spectrum num) : spectrum num :=
    mkSpec (sp_shape s) (map (round p) (sp_data s))
           (if mask_corners then set_corners (sp_mask s) else sp_mask s)
           (sp_folded s) (sp_labels s) None.

  (** pre-1.3 file: no mask, no folding status, no labels *)
  Definition after_old_file (p : nat) (mask_corners : bool) (s : spectrum num) : spectrum num :=
    let m := repeat false (length (sp_data s)) in
    mkSpec (sp_shape s) (map (round p) (sp_data s))
           (if mask_corners then set_corners m else m) false None None.

End Format.

(* ------------------------------------------------------------------------------------------- *)
(** * well-formedness (hypotheses of the theorems; also evaluated on every correspondence case) *)

Definition no_space (t : string) : bool := sall (fun c => negb (is_space c)) t.
Definition tok_ok (t : string) : bool := negb (is_empty t) && no_space t.
Definition no_nl (t : string) : bool := sall (fun c => negb (is_nl c)) t.
(** a label may contain anything (spaces too) except a double quote and a line terminator *)
Definition label_ok (l : string) : bool := sall (fun c => negb (is_nl c) && negb (Ascii.eqb c QU)) l.
(** a comment may contain anything except a line terminator strictly inside it
    (leading/trailing white space - terminators included - is removed by the writer) *)
Definition comment_ok (c : string) : bool := no_nl (strip c).

Definition shape_ok (sh : list nat) : bool := negb (Nat.eqb (length sh) 0) && forallb (fun n => Nat.leb 1 n) sh.

Definition wf_spectrum {num} (s : spectrum num) : bool :=
  shape_ok (sp_shape s)
  && Nat.eqb (length (sp_data s)) (nprod (sp_shape s))
  && Nat.eqb (length (sp_mask s)) (nprod (sp_shape s))
  && labels_len_ok (sp_shape s) (sp_labels s)
  && match sp_labels s with None => true | Some ls => forallb label_ok ls end.

(* ------------------------------------------------------------------------------------------- *)
(** * Strided views: how numpy holds the entries of an array in memory

    A numpy array is a window on a memory block: the entry with index (i_0, ..., i_{d-1}) sits at position
    [v_off + i_0 * s_0 + ... + i_{d-1} * s_{d-1}] of the block.  A freshly built array is C-contiguous
    ([c_strides]); [a.transpose(...)], [a.T], [a.swapaxes], [Spectrum.reorder_pops] permute shape and strides
    without touching the block ([v_transpose]); a Fortran-ordered array has the strides of the transposed
    C-contiguous one; [a[::2]] multiplies a stride, [a[::-1]] negates one and moves the offset;
    [numpy.broadcast_to] (and numpy.ma.nomask read as an array) has stride 0.
    The LOGICAL content - what [a.ravel()], indexing, comparison and the file format talk about - is [v_ravel]:
    the entries in C order of their indices, whatever the strides.  [v_buf] read front to back is what
    [numpy.nditer(a)], [a.ravel(order='K')] or the raw buffer deliver for a dense view (memory order).
    The spectrum the file writers / the pickler see is [spectrum_of_views]. *)
From Coq Require Import ZArith.

Record view (A : Type) := mkView {
  v_buf : list A;          (* the memory block, element by element, by increasing address *)
  v_off : Z;               (* position in the block of the entry with index (0,...,0) *)
  v_shape : list nat;
  v_strides : list Z }.    (* per axis, in elements *)
Arguments mkView {A}. Arguments v_buf {A}. Arguments v_off {A}. Arguments v_shape {A}. Arguments v_strides {A}.

(** numpy.ndindex( *sh ): every index tuple, C order (last index fastest) *)
Fixpoint indices (sh : list nat) : list (list nat) :=
  match sh with
  | [] => [[]]
  | n :: r => flat_map (fun i => map (cons i) (indices r)) (seq 0 n)
  end.

Fixpoint v_pos (strides : list Z) (idx : list nat) : Z :=
  match strides, idx with
  | s :: ss, i :: r => (s * Z.of_nat i + v_pos ss r)%Z
  | _, _ => 0%Z
  end.

(** a[idx] *)
Definition v_get {A} (dflt : A) (v : view A) (idx : list nat) : A :=
  let k := (v_off v + v_pos (v_strides v) idx)%Z in
  if (k <? 0)%Z then dflt else nth (Z.to_nat k) (v_buf v) dflt.

(** a.ravel(): the logical content *)
Definition v_ravel {A} (dflt : A) (v : view A) : list A := map (v_get dflt v) (indices (v_shape v)).

(** every entry lies inside the block, one stride per axis *)
Definition v_inbounds {A} (v : view A) : bool :=
  Nat.eqb (length (v_strides v)) (length (v_shape v))
  && forallb (fun idx => let k := (v_off v + v_pos (v_strides v) idx)%Z in
                         (0 <=? k)%Z && (k <? Z.of_nat (length (v_buf v)))%Z)
             (indices (v_shape v)).

(** strides of a C-contiguous array; the C-contiguous array holding the list [l] *)
Fixpoint c_strides (sh : list nat) : list Z :=
  match sh with
  | [] => []
  | _ :: r => Z.of_nat (nprod r) :: c_strides r
  end.
Definition c_view {A} (sh : list nat) (l : list A) : view A := mkView l 0%Z sh (c_strides sh).

(** a.transpose(perm): same block, axes renamed *)
Definition v_transpose {A} (perm : list nat) (v : view A) : view A :=
  mkView (v_buf v) (v_off v) (map (fun k => nth k (v_shape v) 0) perm) (map (fun k => nth k (v_strides v) 0%Z) perm).

(** the Spectrum whose data and mask are the two views *)
Definition spectrum_of_views {num} (dflt : num) (dv : view num) (mv : view bool) (folded : bool)
           (labels : option (list string)) (extrap : option num) : spectrum num :=
  mkSpec (v_shape dv) (v_ravel dflt dv) (v_ravel false mv) folded labels extrap.

(** the same Spectrum as a writer sees it that walks the two blocks in MEMORY order (numpy.nditer, ravel(order='K'),
    tobytes(order='A'), the raw buffer) while announcing the logical shape - NOT what the code does; see
    C14_memory_order_writer_refuted *)
Definition spectrum_in_memory_order {num} (dv : view num) (mv : view bool) (folded : bool)
           (labels : option (list string)) (extrap : option num) : spectrum num :=
  mkSpec (v_shape dv) (v_buf dv) (v_buf mv) folded labels extrap.

(* ------------------------------------------------------------------------------------------- *)
(** * Attributes as the Python objects the caller handed in

    [Spectrum.__new__] stores [data_folded] and [pop_ids] AS GIVEN ([subarr.folded = data_folded],
    [subarr.pop_ids = pop_ids]): the constructor only tests [if data_folded:] and [len(pop_ids)].  So the
    [.folded] attribute of a Spectrum is whatever truthy / falsy object the caller used - the singleton True / False,
    a numpy.bool_ (an element of a boolean array, the result of numpy.all / numpy.any / a comparison), an int, a
    numpy integer scalar, a float, a 0-d array holding one of these - and [.pop_ids] is any sequence (list, tuple,
    numpy array of str).  data and mask are converted by numpy.ma.masked_array (dtype=float / bool), so they have
    one representation only ([spectrum]).
    What the writers, the readers and the pickler may look at is the TRUTH VALUE of the flag ([truthy], Python's
    [bool(x)] / [if x:] / [not x]) and the ITEMS of the label sequence - never the identity or the type of the object.
    [canon] is the canonical form of an object: the [spectrum] with [sp_folded = truthy flag]. *)

Inductive pyflag : Type :=
| PyBool (b : bool)            (* the singletons True / False *)
| NpBool (b : bool)            (* numpy.bool_ *)
| PyInt (z : Z)                (* int *)
| NpInt (z : Z)                (* numpy integer scalar *)
| PyFloat (nonzero : bool)     (* float / numpy floating scalar: only x != 0 matters *)
| Arr0 (f : pyflag).           (* 0-d numpy array holding the scalar *)

(** bool(x): what [if x:] and [not x] test *)
Fixpoint truthy (f : pyflag) : bool :=
  match f with
  | PyBool b | NpBool b => b
  | PyInt z | NpInt z => negb (Z.eqb z 0)
  | PyFloat nz => nz
  | Arr0 g => truthy g
  end.

(** [x is True]: identity with the singleton *)
Definition is_True (f : pyflag) : bool := match f with PyBool true => true | _ => false end.

(** Spectrum.__new__:  folded = data_folded if data_folded is not None else False *)
Definition folded_attr (data_folded : option pyflag) : pyflag :=
  match data_folded with Some f => f | None => PyBool false end.

(** the container of the pop_ids attribute *)
Inductive seqkind : Type := SeqList | SeqTuple | SeqNdarray.

Definition with_folded {num} (b : bool) (s : spectrum num) : spectrum num :=
  mkSpec (sp_shape s) (sp_data s) (sp_mask s) b (sp_labels s) (sp_extrap s).

Record spectrum_obj (num : Type) := mkObj {
  so_spec : spectrum num;          (* shape, data, mask, the items of pop_ids, extrap_x *)
  so_folded : pyflag;              (* the object held by .folded *)
  so_labels_kind : seqkind }.      (* the container held by .pop_ids (irrelevant when pop_ids is None) *)
Arguments mkObj {num}. Arguments so_spec {num}. Arguments so_folded {num}. Arguments so_labels_kind {num}.

Definition canon {num} (o : spectrum_obj num) : spectrum num := with_folded (truthy (so_folded o)) (so_spec o).

(** Spectrum.to_file on the object: [if not self.folded: 'unfolded' else: 'folded'], [for label in self.pop_ids] *)
Definition to_file_obj {num} (fmt : nat -> num -> string) (p : nat) (comments : list string) (foldmaskinfo : bool)
           (o : spectrum_obj num) : string :=
  to_file fmt p comments foldmaskinfo (canon o).

(** NOT what the code does - a writer that tests [self.folded is True]; see C14_identity_test_writer_refuted *)
Definition to_file_identity_test {num} (fmt : nat -> num -> string) (p : nat) (comments : list string)
           (foldmaskinfo : bool) (o : spectrum_obj num) : string :=
  to_file fmt p comments foldmaskinfo (with_folded (is_True (so_folded o)) (so_spec o)).

(** what a reader returns: Python bool, list *)
Definition obj_of_read {num} (s : spectrum num) : spectrum_obj num := mkObj s (PyBool (sp_folded s)) SeqList.

(** Spectrum_pickler / Spectrum_unpickler on the object: the reduce tuple carries fs.folded and fs.pop_ids themselves,
    the constructor stores them as given *)
Definition reduce_args_obj (num : Type) : Type :=
  (array num * array bool * pyflag * (seqkind * option (list string)) * option num)%type.

Definition spectrum_pickler_obj {num} (o : spectrum_obj num) : reduce_args_obj num :=
  let s := so_spec o in
  (mkArray (sp_shape s) (sp_data s), mkArray (sp_shape s) (sp_mask s), so_folded o,
   (so_labels_kind o, sp_labels s), sp_extrap s).

Definition spectrum_unpickler_obj {num} (t : reduce_args_obj num) : option (spectrum_obj num) :=
  let '(data, mask, flag, (k, labels), extrap) := t in
  option_map (fun s => mkObj s flag k) (mk_spectrum data (Some mask) false (truthy flag) labels extrap).
