(** Comparison functions used by the C06 correspondence files.  Inputs and implementation outputs arrive
    as exact float64 values (mantissa, exponent); the Num-polymorphic model of Model/PhiManip.v is run on
    the [NumD] instance (128-bit software floating point, exact comparisons). *)
From Coq Require Import String.
From Coq Require Import ZArith QArith List Bool.
From Dadi Require Import Base.Num Base.NumQ Base.NumD Model.Tridiag Model.Scheme Model.NDSweep Model.PhiManip.
Import ListNotations.

Inductive pmop :=
| OpPulse (i : nat)            (* index into pulse_table *)
| OpCons (i : nat)             (* index into cons_table *)
| OpSplit12
| OpRemove (popnum : nat)
| OpFilter (tokeep : list nat)
| OpReorder (neworder : list nat).

Record mcase := {
  mc_op : pmop; mc_shape : list nat;
  mc_grids : list (list (Z * Z));     (* grid parameters of the call, in signature order *)
  mc_ps : list (Z * Z);               (* proportion parameters, in signature order *)
  mc_phi : list (Z * Z);
  mc_valcmp : bool;                   (* false: compare the accept / reject decision only *)
  mc_concl : bool;                    (* also evaluate the theorem's conclusion on the model's own output *)
  mc_raised : bool;                   (* the implementation raised ValueError *)
  mc_ishape : list nat; mc_impl : list (Z * Z) }.

Definition z2D := map ZZ2D.
Definition no_desc : pdesc := mkp EmptyString 0 [] [] 0 None 0.

Definition mmodel (c : mcase) : option (list nat * list D) :=
  let gs := map z2D (mc_grids c) in
  let phi := z2D (mc_phi c) in
  let sh := mc_shape c in
  match mc_op c with
  | OpPulse i => option_map (fun r => (sh, r)) (run_desc (nth i pulse_table no_desc) sh gs (z2D (mc_ps c)) phi)
  | OpCons i => let p := nth i cons_table no_desc in
                option_map (fun r => (sh ++ [length (nth (pd_gdep p) gs [])], r)) (run_desc p sh gs (z2D (mc_ps c)) phi)
  | OpSplit12 => let xx := nth 0 gs [] in Some ([length xx; length xx], phi_1D_to_2D xx phi)
  | OpRemove k => Some (remove_pop sh (nth 0 gs []) k phi)
  | OpFilter tk => filter_pops sh (nth 0 gs []) tk phi
  | OpReorder no => reorder_pops sh no phi
  end.

(** the conclusion of the conservation theorems on the model's own output, at 2^-100:
    pulses: integrating the destination out before and after agree; constructors: integrating the new
    population out returns the incoming density *)
Definition tight : Q := 1 # (2 ^ 100).
Definition mconcl (c : mcase) (res : list D) : bool :=
  let gs := map z2D (mc_grids c) in
  let phi := z2D (mc_phi c) in
  let sh := mc_shape c in
  match mc_op c with
  | OpPulse i => let p := nth i pulse_table no_desc in
      match pd_dest p with
      | Some k => let g := nth k gs [] in fst (Dlists_close tight (marginal_np sh g k res) (marginal_np sh g k phi))
      | None => false
      end
  | OpCons i => let p := nth i cons_table no_desc in
      let zz := nth (pd_gdep p) gs [] in
      fst (Dlists_close tight (marginal_np (sh ++ [length zz]) zz (length sh) res) phi)
  | _ => true
  end.

Definition mcheck (tol : Q) (c : mcase) : bool * Z :=
  match mmodel c, mc_raised c with
  | None, true => (true, (-10000)%Z)
  | Some (s, m), false =>
      if negb (mc_valcmp c) then (true, (-10000)%Z) else
      let r := Dlists_close tol m (z2D (mc_impl c)) in
      (fst r && list_nat_eqb s (mc_ishape c) && (if mc_concl c then mconcl c m else true), snd r)
  | _, _ => (false, 1%Z)
  end.

(** ** the refusal guard alone.  [guard_model c] is the model's decision (true = ValueError) for a pulse /
    constructor call: [rejected] on the helper arguments the function forms from its proportion parameters --
    the term C06_rejection_characterised, C06_constructor_rejection_characterised and C06_simplex_accepted are
    about.  [mcheck_guard] decides a case whose values are not compared (mc_valcmp = false) from that term only,
    without evaluating the density (the guard stream of harness/props/c06.py carries no density for such
    cases); with values to compare it is [mcheck].  Equal to [mcheck] on every case: Proofs/PhiManipMisc.v,
    mcheck_guard_is_mcheck. *)
Definition guard_model (c : mcase) : option bool :=
  match mc_op c with
  | OpPulse i => Some (rejected (desc_args (nth i pulse_table no_desc) (z2D (mc_ps c))))
  | OpCons i => Some (rejected (desc_args (nth i cons_table no_desc) (z2D (mc_ps c))))
  | _ => None
  end.
Definition mcheck_guard (tol : Q) (c : mcase) : bool * Z :=
  if mc_valcmp c then mcheck tol c else
  match guard_model c with
  | Some rej => if Bool.eqb rej (mc_raised c) then (true, (-10000)%Z) else (false, 1%Z)
  | None => mcheck tol c
  end.
