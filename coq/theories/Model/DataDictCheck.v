(** Q-side comparison functions used by the generated C13 correspondence files. *)
From Coq Require Import ZArith NArith QArith Qabs List Bool Arith String Ascii.
From Dadi Require Import Base.Num Base.NumQ Model.Projection Model.Fold Model.DataDict Model.Stats.
Import ListNotations.

(** ** decidable equalities on the dictionary values *)
Fixpoint list_eqb {A} (eqb : A -> A -> bool) (a b : list A) : bool :=
  match a, b with
  | [], [] => true
  | x :: a', y :: b' => eqb x y && list_eqb eqb a' b'
  | _, _ => false
  end.
Definition opt_eqb {A} (eqb : A -> A -> bool) (a b : option A) : bool :=
  match a, b with Some x, Some y => eqb x y | None, None => true | _, _ => false end.
Definition pair_eqb {A B} (ea : A -> A -> bool) (eb : B -> B -> bool) (a b : A * B) : bool :=
  ea (fst a) (fst b) && eb (snd a) (snd b).
Definition calls_eqb : dict (nat * nat) -> dict (nat * nat) -> bool :=
  list_eqb (pair_eqb String.eqb (pair_eqb Nat.eqb Nat.eqb)).
Definition snp_eqb (a b : snp) : bool :=
  list_eqb String.eqb (s_seg a) (s_seg b) && String.eqb (s_context a) (s_context b) &&
  opt_eqb String.eqb (s_out a) (s_out b) && String.eqb (s_out_context a) (s_out_context b) &&
  calls_eqb (s_calls a) (s_calls b).
Definition dd_eqb : dict snp -> dict snp -> bool := list_eqb (pair_eqb String.eqb snp_eqb).
Definition cd_eqb : list (ckey * nat) -> list (ckey * nat) -> bool := list_eqb (pair_eqb ckey_eqb Nat.eqb).

(** the recorded draws of numpy.random.choice as the oracle of the model *)
Definition replay_choice (rec : list (list nat)) : nat -> nat -> nat -> list nat := fun c _ _ => nth c rec [].

(** rational square root to ~2^-100 relative (for Tajima's D only) *)
Definition Qsqrt (x : Q) : Q :=
  if Qle_bool x 0 then 0
  else let s := (2 ^ 110)%Z in Qred (Z.sqrt (Qnum x * s * s / Zpos (Qden x)) # Z.to_pos s).

(** rename keys (the harness adds '.info' suffixes to some keys before chunking) *)
Definition rename_keys (ren : dict string) (dd : dict snp) : dict snp :=
  map (fun e => (match dget (fst e) ren with Some k => k | None => fst e end, snd e)) dd.

(** ** one case = one VCF + popinfo + settings, with everything the implementation returned *)
Record dcase := {
  dc_popinfo : list (list string);
  dc_vcf : list (list string);
  dc_filter : bool;
  dc_sub : option (dict nat);
  dc_choices : list (list nat);
  dc_pop_ids : list string;
  dc_projs : list nat;
  dc_full : list nat;                      (* projection used for the statistics *)
  dc_mask_corners : bool;
  dc_cs : N;
  dc_rename : dict string;
  dc_boot_pol : bool;
  dc_picks : list (list nat);
  (* what the implementation returned *)
  di_dd : option (dict snp);
  di_cd : option (list (ckey * nat));
  di_pol : option (list Q * list bool);    (* from_data_dict(polarized=True): data, mask *)
  di_fold : option (list Q * list bool);   (* from_data_dict(polarized=False) *)
  di_chunks : option (list (list string)); (* keys of every fragment *)
  di_chunk_fs : list (list Q);
  di_boots : option (list (list Q));
  di_stats : list (option Q);              (* S, pi, theta_W, theta_L, Tajima D, Fst on the unfolded full-size spectrum; S, pi, Fst on the folded one *)
  di_stat_fs : option (list Q * list bool * list Q * list bool)
}.

Definition model_dd (c : dcase) : option (dict snp) :=
  make_data_dict_vcf (replay_choice (dc_choices c)) {| cfg_filter := dc_filter c; cfg_sub := dc_sub c |}
                     (dc_popinfo c) (dc_vcf c).

Definition ok (b : bool) : bool * Z := (b, (-10000)%Z).

(** entrywise |impl - model| <= tol * max(1, max |model|) *)
Definition close_lists (tol : Q) (model impl : list Q) : bool * Z := Qlists_close tol model impl.
Definition both (a b : bool * Z) : bool * Z := (fst a && fst b, Z.max (snd a) (snd b)).
Fixpoint all_close (tol : Q) (model impl : list (list Q)) : bool * Z :=
  match model, impl with
  | [], [] => ok true
  | m :: model', i :: impl' => both (close_lists tol m i) (all_close tol model' impl')
  | _, _ => ok false
  end.

Definition spec_close (tol : Q) (m : option (lspec Q)) (i : option (list Q * list bool)) : bool * Z :=
  match m, i with
  | None, None => ok true
  | Some ms, Some (d, mk) => both (close_lists tol (ls_data ms) d) (ok (list_eqb Bool.eqb (ls_mask ms) mk))
  | _, _ => ok false
  end.

Definition model_frags (c : dcase) : option (list (dict snp)) :=
  match model_dd c with
  | None => None
  | Some dd => fragment_data_dict (rename_keys (dc_rename c) dd) (dc_cs c)
  end.

Definition vsumQ (L : nat) (l : list (list Q)) : list Q := fold_right (vadd (F:=Q)) (vzero L) l.

Definition close_opt (tol : Q) (m : Q) (i : option Q) : bool * Z :=
  match i with
  | None => ok true                       (* not evaluated by the harness (undefined statistic) *)
  | Some x => let s := if Qle_bool (Qabs m) 1 then 1 else Qabs m in
              let d := Qabs (Qred (x - m)) in (Qle_bool d (tol * s), Qlog2 (Qred (d / s)))
  end.

(** check number k of case c *)
Definition dcheck (tol tol_stat : Q) (k : nat) (c : dcase) : bool * Z :=
  match k with
  | 0%nat => (* the data dictionary, entry by entry, in order *)
      ok (opt_eqb dd_eqb (model_dd c) (di_dd c))
  | 1%nat => (* the count dictionary *)
      match model_dd c with
      | None => ok (match di_cd c with None => true | _ => false end)
      | Some dd => ok (opt_eqb cd_eqb (count_data_dict dd (dc_pop_ids c)) (di_cd c))
      end
  | 2%nat => (* polarised spectrum *)
      match model_dd c with
      | None => ok (match di_pol c with None => true | _ => false end)
      | Some dd => spec_close tol (from_data_dict (F:=Q) dd (dc_pop_ids c) (dc_projs c) (dc_mask_corners c) true) (di_pol c)
      end
  | 3%nat => (* folded spectrum *)
      match model_dd c with
      | None => ok (match di_fold c with None => true | _ => false end)
      | Some dd => spec_close tol (from_data_dict (F:=Q) dd (dc_pop_ids c) (dc_projs c) (dc_mask_corners c) false) (di_fold c)
      end
  | 4%nat => (* chunk membership *)
      ok (opt_eqb (list_eqb (list_eqb String.eqb)) (option_map (map (map fst)) (model_frags c)) (di_chunks c))
  | 5%nat => (* chunk spectra; and (conclusion of chunk_spectra_add_up on the Q instance) they add up exactly *)
      match model_dd c, model_frags c with
      | Some dd, Some frags =>
          match all_some (map (fun f => from_data_dict (F:=Q) f (dc_pop_ids c) (dc_projs c) (dc_mask_corners c) (dc_boot_pol c)) frags),
                from_data_dict (F:=Q) dd (dc_pop_ids c) (dc_projs c) (dc_mask_corners c) (dc_boot_pol c) with
          | Some specs, Some whole =>
              both (all_close tol (map (@ls_data Q) specs) (di_chunk_fs c))
                   (ok (list_eqb Qeq_bool (vsumQ (List.length (ls_data whole)) (map (@ls_data Q) specs)) (ls_data whole)))
          | _, _ => ok false
          end
      | _, _ => ok (match di_chunks c with None => true | _ => false end)
      end
  | 6%nat => (* bootstraps with the recorded draws *)
      match model_frags c with
      | Some frags =>
          match bootstraps_from_dd_chunks (F:=Q) frags (dc_picks c) (dc_pop_ids c) (dc_projs c) (dc_mask_corners c) (dc_boot_pol c),
                di_boots c with
          | Some bs, Some ib => all_close tol bs ib
          | None, None => ok true
          | _, _ => ok false
          end
      | None => ok (match di_boots c with None => true | _ => false end)
      end
  | 7%nat => (* statistics as the code computes them, on the spectrum the implementation built *)
      match di_stat_fs c with
      | None => ok true
      | Some (d, mk, df, mkf) =>
          let ns := dc_full c in
          let s := map S ns in
          let st i := nth i (di_stats c) None in
          match ns with
          | [n] =>
              both (close_opt tol_stat (stat_S s d mk) (st 0%nat))
             (both (close_opt tol_stat (stat_pi n d mk) (st 1%nat))
             (both (close_opt tol_stat (stat_thetaW n d mk) (st 2%nat))
             (both (close_opt tol_stat (stat_thetaL n d mk) (st 3%nat))
             (both (close_opt tol_stat (stat_tajimaD Qsqrt n d mk) (st 4%nat))
             (both (close_opt tol_stat (stat_S s df mkf) (st 6%nat))
                   (close_opt tol_stat (stat_pi n df mkf) (st 7%nat)))))))
          | _ =>
              both (close_opt tol_stat (stat_S s d mk) (st 0%nat))
             (both (close_opt tol_stat (stat_Fst ns d mk) (st 5%nat))
             (both (close_opt tol_stat (stat_S s df mkf) (st 6%nat))
                   (close_opt tol_stat (stat_Fst ns df mkf) (st 8%nat))))
          end
      end
  | _ => ok false
  end.
