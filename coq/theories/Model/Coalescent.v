(** * Coalescent: the exact expected site-frequency spectrum of a sample of n lineages from one population
    whose relative size nu(t) is piecewise constant (or exponential) in time.  Independent oracle for C01 -
    NOT a model of any dadi code.  Executable definitions only.

    Time is in units of 2 N_ref generations (pairwise coalescence rate 1/nu), theta = 4 N_ref mu (mutation
    rate theta/2 per lineage per unit time).  With A_n(t) the number of ancestral lineages at time t back,
        P(A_n(t) = k) = sum_{j=k}^{n} c^n_{kj} exp(-C(j,2) Lam(t)),      Lam(t) = int_0^t ds/nu(s)     (Tavare 1984)
        c^n_{kj} = (-1)^(j-k) (2j-1) k_(j-1) n_[j] / (k! (j-k)! n_(j))    (rising / falling factorials)
        E[T_k]  = sum_{j=k}^{n} c^n_{kj} e_j ,   e_j = int_0^infty exp(-C(j,2) Lam(t)) dt
        E[SFS_i] = theta/2 sum_{k=2}^{n-i+1} k p_{n,k}(i) E[T_k],  p_{n,k}(i) = C(n-i-1,k-2)/C(n-1,k-1)   (Fu 1995)
    so E[SFS_i] = theta/2 sum_{j=2}^{n} w^n_{ij} e_j with exact rational weights w^n_{ij}. *)
From Coq Require Import ZArith QArith Qreduction Qabs List Bool.
From Dadi Require Import Base.Num.
Import ListNotations.

(** ** exact rational coefficients *)
Definition zrising (a : Z) (m : nat) : Z := fold_left Z.mul (map (fun t => (a + Z.of_nat t)%Z) (seq 0 m)) 1%Z.
Definition zfalling (a : Z) (m : nat) : Z := fold_left Z.mul (map (fun t => (a - Z.of_nat t)%Z) (seq 0 m)) 1%Z.
Definition zfact (m : nat) : Z := zrising 1 m.
Definition zbinom (n k : nat) : Z := if Nat.leb k n then (zfalling (Z.of_nat n) k / zfact k)%Z else 0%Z.
Definition qmk (num den : Z) : Q := Qred (Qmake num (Z.to_pos den)).

Definition cnkj (n k j : nat) : Q :=
  let sgn := if Nat.even (j - k) then 1%Z else (-1)%Z in
  qmk (sgn * (2 * Z.of_nat j - 1) * zrising (Z.of_nat k) (j - 1) * zfalling (Z.of_nat n) j)
      (zfact k * zfact (j - k) * zrising (Z.of_nat n) j).
Definition pnki (n k i : nat) : Q := qmk (zbinom (n - i - 1) (k - 2)) (zbinom (n - 1) (k - 1)).
(** w^n_{ij} = sum_{k=2}^{min(j, n-i+1)} k p_{n,k}(i) c^n_{kj} *)
Definition wnij (n i j : nat) : Q :=
  fold_right (fun k acc => Qred (inject_Z (Z.of_nat k) * pnki n k i * cnkj n k j + acc)) 0%Q
             (seq 2 (Nat.min j (n - i + 1) - 1)).
(** constant size: sum_j w^n_{ij} / C(j,2), which must be 2/i *)
Definition const_coeff (n i : nat) : Q :=
  fold_right (fun j acc => Qred (wnij n i j / inject_Z (zbinom j 2) + acc)) 0%Q (seq 2 (n - 1)).
Definition const_coeff_ok (n : nat) : bool :=
  forallb (fun i => Qeq_bool (const_coeff n i) (qmk 2 (Z.of_nat i))) (seq 1 (n - 1)).
Definition const_coeff_ok_upto (N : nat) : bool := forallb const_coeff_ok (seq 2 (N - 1)).

Local Open Scope num_scope.
Section Coalescent.
  Context {F : Type} `{Num F}.
  Definition nofQ (q : Q) : F := nofZ (Qnum q) / nofZ (Zpos (Qden q)).

  (** E[SFS_i] from the e_j *)
  Definition coal_sfs (theta : F) (ej : nat -> F) (n i : nat) : F :=
    theta / n2 * nsum (map (fun j => nofQ (wnij n i j) * ej j) (seq 2 (n - 1))).

  (** epochs, most recent first; [EExp nu0 nu1 T]: size nu0 at the recent end, nu1 at the old end, exponential between *)
  Inductive epoch := EConst (nu T : F) | EExp (nu0 nu1 T : F).
  Variable quad : (F -> F) -> F -> F -> F.
  (** exp(-400) ~ 1e-174 is far below anything that matters here; avoids huge intermediate numbers *)
  Definition gexp (x : F) : F := if x <? nofZ (-400) then n0 else nexp x.
  (** e_j = int_0^infty exp(-c Lam(t)) dt for c = C(j,2); L = Lam accumulated so far; nuA = ancestral size *)
  Fixpoint ej_aux (c L : F) (eps : list epoch) (nuA : F) : F :=
    match eps with
    | [] => gexp (- (c * L)) * nuA / c
    | EConst nu T :: t =>
        gexp (- (c * L)) * nu / c * (n1 - gexp (- (c * T / nu))) + ej_aux c (L + T / nu) t nuA
    | EExp nu0 nu1 T :: t =>
        let r := nln (nu0 / nu1) / T in
        let Lam := fun s => (nexp (r * s) - n1) / (r * nu0) in
        quad (fun s => gexp (- (c * (L + Lam s)))) n0 T + ej_aux c (L + Lam T) t nuA
    end.
  Definition ej_hist (eps : list epoch) (nuA : F) (j : nat) : F :=
    ej_aux (nofZ (zbinom j 2)) n0 eps nuA.

  (** the whole spectrum (entries 1..n-1), e_j computed once *)
  Definition coal_sfs_all (theta : F) (eps : list epoch) (nuA : F) (n : nat) : list F :=
    let ejl := map (ej_hist eps nuA) (seq 0 (S n)) in
    map (coal_sfs theta (fun j => nth j ejl n0) n) (seq 1 (n - 1)).

  (** ** mutation rate changing with time: theta(s) piecewise constant on the same epochs.
      E[SFS_i] = 1/2 sum_j w^n_{ij} int_0^infty theta(s) exp(-C(j,2) Lam(s)) ds: every epoch's share of e_j is weighted
      by the theta in force during that epoch (thA during the ancestral epoch).  With all thetas equal this is
      theta * e_j (Proofs/CoalescentProofs.v: ej_aux_th_uniform). *)
  Fixpoint ej_aux_th (c L : F) (eps : list (F * epoch)) (nuA thA : F) : F :=
    match eps with
    | [] => thA * (gexp (- (c * L)) * nuA / c)
    | (th, EConst nu T) :: t =>
        th * (gexp (- (c * L)) * nu / c * (n1 - gexp (- (c * T / nu)))) + ej_aux_th c (L + T / nu) t nuA thA
    | (th, EExp nu0 nu1 T) :: t =>
        let r := nln (nu0 / nu1) / T in
        let Lam := fun s => (nexp (r * s) - n1) / (r * nu0) in
        th * quad (fun s => gexp (- (c * (L + Lam s)))) n0 T + ej_aux_th c (L + Lam T) t nuA thA
    end.
  Definition ej_hist_th (eps : list (F * epoch)) (nuA thA : F) (j : nat) : F :=
    ej_aux_th (nofZ (zbinom j 2)) n0 eps nuA thA.
  Definition coal_sfs_all_th (eps : list (F * epoch)) (nuA thA : F) (n : nat) : list F :=
    let ejl := map (ej_hist_th eps nuA thA) (seq 0 (S n)) in
    map (coal_sfs n1 (fun j => nth j ejl n0) n) (seq 1 (n - 1)).
End Coalescent.

(** ** closed-form selection equilibrium spectrum (genic, h = 1/2), series evaluated in fixed point on Z
    ([sfp] fractional bits, truncation 2^-sfp per term; exp via [ex]):
    phi(x) = theta (1 - e^{-2g(1-x)}) / ((1 - e^{-2g}) x (1-x)), sampled binomially:
      g < 0:  SFS_i = theta C(n,i) / (1 - e^{-2g}) * sum_{k>=1} -(-2g)^k/k! B(i, n-i+k)           (one sign)
      g > 0:  SFS_i = theta C(n,i) [ B(i,n-i) - e^{-2g}/(1 - e^{-2g}) sum_{k>=1} (2g)^k/k! B(i+k, n-i) ]
    B(a,b) = (a-1)!(b-1)!/(a+b-1)!;  B(a,b+1) = B(a,b) b/(a+b).  [terms] must exceed ~ 6|g| + 60. *)
Definition sfp : Z := 600.
Definition qbeta (a b : nat) : Q := qmk (zfact (a - 1) * zfact (b - 1)) (zfact (a + b - 1)).
Definition sfix (q : Q) : Z := (Qnum q * 2 ^ sfp / Zpos (Qden q))%Z.
Definition sunfix (z : Z) : Q := Qred (Qmake z (Z.to_pos (2 ^ sfp))).
(** sum_{k=1}^{terms} a^k/k! B(i, n-i+k)   with a = an/ad > 0 *)
Definition sel_series_neg (an ad : Z) (n i terms : nat) : Q :=
  let t0 := sfix (qbeta i (n - i)) in
  sunfix (snd (fold_left (fun st k => let '(t, acc) := st in
                  let kz := Z.of_nat k in
                  let t' := (t * (an * (Z.of_nat (n - i) + kz - 1)) / (ad * kz * (Z.of_nat n + kz - 1)))%Z in
                  (t', (acc + t')%Z)) (seq 1 terms) (t0, 0%Z))).
(** sum_{k=1}^{terms} a^k/k! B(i+k, n-i) *)
Definition sel_series_pos (an ad : Z) (n i terms : nat) : Q :=
  let t0 := sfix (qbeta i (n - i)) in
  sunfix (snd (fold_left (fun st k => let '(t, acc) := st in
                  let kz := Z.of_nat k in
                  let t' := (t * (an * (Z.of_nat i + kz - 1)) / (ad * kz * (Z.of_nat n + kz - 1)))%Z in
                  (t', (acc + t')%Z)) (seq 1 terms) (t0, 0%Z))).
Definition sel_equil_sfs (ex : Q -> Q) (theta g : Q) (n i terms : nat) : Q :=
  let cb := inject_Z (zbinom n i) in
  let a := Qred ((2#1) * Qabs g)%Q in
  match Qnum g with
  | Z0 => Qred (theta / inject_Z (Z.of_nat i))%Q
  | Zneg _ => let e := ex a in                          (* e^{2|g|} *)
              Qred (theta * cb * (- sel_series_neg (Qnum a) (Zpos (Qden a)) n i terms) / (1 - e))%Q
  | Zpos _ => let e := ex (- a)%Q in                    (* e^{-2g} *)
              Qred (theta * cb * (qbeta i (n - i) - e / (1 - e) * sel_series_pos (Qnum a) (Zpos (Qden a)) n i terms))%Q
  end.
