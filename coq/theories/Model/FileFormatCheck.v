(** C14 — comparison functions used by the generated correspondence case files (harness/props/c14.py).

    Numbers are their own tokens here: [num := string], [fmt _ t := t], [parse t := t]; the harness passes the
    text Python's '%.<p>g' produced, so layout, header, labels, mask line and tokenisation are compared exactly,
    and values read back by the implementation are passed as the file token they are numerically equal to
    (or re-printed when they are equal to none). *)
From Coq Require Import String Ascii List Bool Arith NArith ZArith.
From Dadi Require Import Model.FileFormat.
Import ListNotations.
Local Open Scope list_scope.
Local Open Scope string_scope.

Definition idfmt (p : nat) (t : string) : string := t.
Definition idparse (t : string) : string := t.
Definition idround (p : nat) (t : string) : string := t.

(** strings with characters the harness does not want to put in a literal *)
Definition sb (l : list N) : string := fold_right (fun n s => String (ascii_of_N n) s) "" l.

Fixpoint list_eqb {A} (e : A -> A -> bool) (a b : list A) : bool :=
  match a, b with
  | [], [] => true
  | x :: a', y :: b' => e x y && list_eqb e a' b'
  | _, _ => false
  end.
Definition opt_eqb {A} (e : A -> A -> bool) (a b : option A) : bool :=
  match a, b with
  | None, None => true
  | Some x, Some y => e x y
  | _, _ => false
  end.
Definition strs_eqb := list_eqb String.eqb.

Definition spec_eqb (a b : spectrum string) : bool :=
  list_eqb Nat.eqb (sp_shape a) (sp_shape b) && strs_eqb (sp_data a) (sp_data b)
  && list_eqb Bool.eqb (sp_mask a) (sp_mask b) && Bool.eqb (sp_folded a) (sp_folded b)
  && opt_eqb strs_eqb (sp_labels a) (sp_labels b) && opt_eqb String.eqb (sp_extrap a) (sp_extrap b).

Definition arr_eqb {A} (e : A -> A -> bool) (a b : array A) : bool :=
  list_eqb Nat.eqb (a_shape a) (a_shape b) && list_eqb e (a_flat a) (a_flat b).

Definition read_eqb (a b : option (list string * spectrum string)) : bool :=
  opt_eqb (fun x y => strs_eqb (fst x) (fst y) && spec_eqb (snd x) (snd y)) a b.
Definition aread_eqb (a b : option (list string * array string)) : bool :=
  opt_eqb (fun x y => strs_eqb (fst x) (fst y) && arr_eqb String.eqb (snd x) (snd y)) a b.

Inductive item : Type :=
| IWrite (comments : list string) (foldmaskinfo : bool) (s : spectrum string) (text : string)
    (* the model writes exactly [text] *)
| IRead (mask_corners : bool) (text : string) (res : option (list string * spectrum string))
    (* the model reads [text] as [res] (what the implementation returned; None = it raised) *)
| IAWrite (comments : list string) (a : array string) (text : string)
| IARead (text : string) (res : option (list string * array string))
| IRound (comments : list string) (mask_corners foldmaskinfo : bool) (s : spectrum string)
    (* hypotheses and conclusion of C14_roundtrip / C14_roundtrip_old_format on this input *)
| IARound (comments : list string) (a : array string)
| IPickle (s : spectrum string)
          (args : array string * array bool * bool * option (list string) * option string)
          (res : option (spectrum string))
    (* Spectrum_pickler's argument tuple and Spectrum_unpickler's result as the implementation produced them *)
| IWriteV (comments : list string) (foldmaskinfo : bool) (dv : view string) (mv : view bool)
          (s : spectrum string) (text : string)
    (* a spectrum held in memory as the two strided views [dv] (data tokens) and [mv] (mask): both views lie inside
       their blocks, their logical content computed by the model from block, offset and strides ([v_ravel]) is the
       spectrum [s] numpy reported (ravel), and the model's to_file of that logical content is [text]
       (the file the implementation wrote for this very object) *)
| IWriteF (comments : list string) (foldmaskinfo : bool) (flag : pyflag) (kind : seqkind)
          (s : spectrum string) (text : string)
    (* a Spectrum OBJECT whose .folded attribute is the Python object [flag] (type and value as the implementation
       reported them) and whose .pop_ids is held in a container of kind [kind]; [s] is its canonical form as numpy
       reported it (bool(folded), list(pop_ids)): the model's canonical form of the object is [s] and the model's
       to_file of the object is [text] (the file the implementation wrote for this very object) *)
| IPickleF (flag : pyflag) (kind : seqkind) (s : spectrum string)
           (aflag : pyflag) (akind : seqkind) (uflag : pyflag) (ukind : seqkind) (ures : option (spectrum string)).
    (* the object as above; [aflag], [akind]: the flag object and the label container found in the reduce tuple
       Spectrum_pickler built; [uflag], [ukind], [ures]: what Spectrum_unpickler made of that tuple *)

Fixpoint pyflag_eqb (a b : pyflag) : bool :=
  match a, b with
  | PyBool x, PyBool y | NpBool x, NpBool y | PyFloat x, PyFloat y => Bool.eqb x y
  | PyInt x, PyInt y | NpInt x, NpInt y => Z.eqb x y
  | Arr0 x, Arr0 y => pyflag_eqb x y
  | _, _ => false
  end.
Definition seqkind_eqb (a b : seqkind) : bool :=
  match a, b with SeqList, SeqList | SeqTuple, SeqTuple | SeqNdarray, SeqNdarray => true | _, _ => false end.

(** memory cells that belong to no entry of the view (gaps of a stepped slice) *)
Definition FILL : string := "<no-entry>".
(** a memory block given by cell -> position of its token in a token list (cells outside the list: FILL) *)
Definition sel (l : list string) (idxs : list N) : list string := map (fun i => nth (N.to_nat i) l FILL) idxs.

Definition args_eqb (a b : array string * array bool * bool * option (list string) * option string) : bool :=
  let '(d1, m1, f1, l1, e1) := a in
  let '(d2, m2, f2, l2, e2) := b in
  arr_eqb String.eqb d1 d2 && arr_eqb Bool.eqb m1 m2 && Bool.eqb f1 f2 && opt_eqb strs_eqb l1 l2
  && opt_eqb String.eqb e1 e2.

Definition item_ok (it : item) : bool :=
  match it with
  | IWrite cs fmi s text => String.eqb (to_file idfmt 0 cs fmi s) text
  | IRead mc text res => read_eqb (from_file idparse mc text) res
  | IAWrite cs a text => String.eqb (array_to_file idfmt 0 cs a) text
  | IARead text res => aread_eqb (array_from_file idparse text) res
  | IRound cs mc fmi s =>
      wf_spectrum s && forallb comment_ok cs && forallb tok_ok (sp_data s)
      && read_eqb (from_file idparse mc (to_file idfmt 0 cs fmi s))
                  (Some (map strip cs, if fmi then after_file idround 0 mc s else after_old_file idround 0 mc s))
  | IARound cs a =>
      shape_ok (a_shape a) && Nat.eqb (length (a_flat a)) (nprod (a_shape a)) && forallb comment_ok cs
      && forallb tok_ok (a_flat a)
      && aread_eqb (array_from_file idparse (array_to_file idfmt 0 cs a)) (Some (map strip cs, a))
  | IPickle s args res =>
      args_eqb (spectrum_pickler s) args
      && opt_eqb spec_eqb (spectrum_unpickler args) res
      && opt_eqb spec_eqb (spectrum_unpickler (spectrum_pickler s)) (Some s)
  | IWriteV cs fmi dv mv s text =>
      let s' := spectrum_of_views FILL dv mv (sp_folded s) (sp_labels s) (sp_extrap s) in
      v_inbounds dv && v_inbounds mv && list_eqb Nat.eqb (v_shape dv) (v_shape mv)
      && spec_eqb s' s && String.eqb (to_file idfmt 0 cs fmi s') text
  | IWriteF cs fmi flag kind s text =>
      let o := mkObj s flag kind in
      spec_eqb (canon o) s && String.eqb (to_file_obj idfmt 0 cs fmi o) text
  | IPickleF flag kind s aflag akind uflag ukind ures =>
      let o := mkObj s flag kind in
      let '(_, _, mflag, (mkind, _), _) := spectrum_pickler_obj o in
      spec_eqb (canon o) s
      && pyflag_eqb mflag aflag && seqkind_eqb mkind akind
      && match spectrum_unpickler_obj (spectrum_pickler_obj o), ures with
         | Some u, Some r => spec_eqb (canon u) r && pyflag_eqb (so_folded u) uflag && seqkind_eqb (so_labels_kind u) ukind
                             && spec_eqb (so_spec u) s
         | None, None => true
         | _, _ => false
         end
  end.

(** a case = tagged items (tag k < 60); result = (all ok, sum of 2^k over the failing items) *)
Definition ff_check (c : list (Z * item)) : bool * Z :=
  let bad := fold_right (fun (p : Z * item) acc => if item_ok (snd p) then acc else (acc + Z.shiftl 1 (fst p))%Z) 0%Z c in
  (Z.eqb bad 0, bad).
