(** * DemesExportReorderModel: logs with reorder_pops records, and the program the importer gives back for them.

    [Demes.output] does not write a Reorder record into the graph: the record only permutes the names of the axes of
    the later records.  The importer integrates the demes of a window in the order start time / position in the graph,
    which for an exported graph is the order in which the names were created.  So the re-imported program is the
    native program written with its populations in creation order ([sorted_calls]): every argument is looked up by
    name; a reorder_pops call appears where the exporter starts a new era while the native axes are not in creation
    order (the new names are created in the native order of the axes), and at the end (the final order of the
    program).  For a log without Reorder records [sorted_calls] is [native_calls] followed by the identity reorder. *)
From Coq Require Import ZArith List Bool Arith.
From Dadi Require Import Base.Num Model.DemesFront Model.DemesExportModel.
Import ListNotations.

(** the names [ids] in creation order (names are numbers < n) *)
Definition srt (n : nat) (ids : list nat) : list nat := filter (fun x => mem x ids) (seq 0 n).
Definition pos_of (x : nat) (l : list nat) : nat := match index_of x l with Some j => j | None => 0 end.
Fixpoint pos_pair (ab : nat * nat) (l : list (nat * nat)) : nat :=
  match l with
  | [] => 0
  | x :: l' => if Nat.eqb (fst x) (fst ab) && Nat.eqb (snd x) (snd ab) then 0 else S (pos_pair ab l')
  end.

Section ReorderModel.
  Context {F : Type} `{Num F}.
  Local Open Scope num_scope.
  Local Notation call := (DemesFront.call F).

  (** the class of logs: as [log_ok], a Reorder record carries a permutation of 1..d *)
  Definition ev_okr (d : nat) (e : sev F) : Prop :=
    match e with SReorder ord => is_perm1 ord d = true | _ => ev_ok d e end.
  Definition round_okr (d : nat) (r : round F) : Prop :=
    let d' := ev_dim d (r_ev r) in
    ev_okr d (r_ev r) /\ d' <= 5 /\ (n0 <? r_T r) = true /\ length (r_sizes r) = d' /\ length (r_mig r) = length (offdiag d')
    /\ (r_const r = false -> Forall (fun s => snd s = false -> (fst (fst s) =? snd (fst s)) = false) (r_sizes r)).
  Fixpoint rounds_okr (d : nat) (rs : list (round F)) : Prop :=
    match rs with
    | [] => True
    | r :: rs' => round_okr d r /\ rounds_okr (ev_dim d (r_ev r)) rs'
    end.
  Definition log_okr (lg : elog F) : Prop := rounds_okr 1 (l_rounds lg).

  (** the calls of a record, with the axes in creation order: [ids] the native axes before the record, [next] the
      number of names created so far *)
  Definition ev_scalls (next : nat) (ids : list nat) (e : sev F) : list call :=
    let I := srt next ids in
    let d := length ids in
    match e with
    | SNone =>
      let I' := map (fun p => (next + pos_of p ids)%nat) I in
      let tgt := seq next d in
      if list_eqb I' tgt then [] else [simple_call F_reorder_pops [] (map (fun c => S (pos_of c I')) tgt) []]
    | SSplit props =>
      match nz_idx props with
      | [i] => split_calls d (pos_of (nth i ids 0%nat) I) (I ++ [next])
      | _ => admix_calls d (map (fun x => nth (pos_of x ids) props n0) I) (I ++ [next])
      end
    | SPulse srcs dst props =>
      let di := pos_of (nth1 dst ids) I in
      if Nat.leb 2 d && Nat.leb d 5
      then [simple_call (F_pulse d (S di))
                        (match d with
                         | 2 => firstn 1 props
                         | _ => sorted_props props (map (fun k => pos_of (nth1 k ids) I) srcs) (Some di) d
                         end) [] []]
      else []
    | SRemove k => [simple_call F_remove_pop [] [S (pos_of (nth1 k ids) I)] []]
    | SReorder _ => []
    end.
  Definition integ_scall (next : nat) (ids : list nat) (r : round F) : list call :=
    let I := srt next ids in
    let d := length ids in
    let sizes := map (xsize (r_const r)) (r_sizes r) in
    match int_fname d with
    | Some f => [mkCall f (r_T r) (make_nu_func (map (fun x => nth (pos_of x ids) sizes (n1, n1, SConstant)) I) (r_T r) n1)
                        (map (fun ab => nth (pos_pair (pos_of (nth (fst ab) I 0%nat) ids, pos_of (nth (snd ab) I 0%nat) ids) (offdiag d)) (r_mig r) n0)
                             (offdiag d))
                        (repeat false d) [] I]
    | None => []
    end.
  Fixpoint sscan (next : nat) (ids : list nat) (l : list (round F * F)) : list call :=
    match l with
    | [] => []
    | rb :: l' =>
      let e := r_ev (fst rb) in
      let ids' := ev_ids next ids e in
      let next' := ev_next next ids e in
      ev_scalls next ids e ++ integ_scall next' ids' (fst rb) ++ sscan next' ids' l'
    end.
  (** the whole program, the final reorder_pops to the order of the last record included (from_phi excluded) *)
  Definition sorted_calls (lg : elog F) : list call :=
    let fin := final_ids lg in
    let n := length (flat_map (@ar_births F) (annotated lg)) in
    simple_call F_phi_1D [l_nu lg] [] [0%nat] :: sscan 1 [0%nat] (timed (l_rounds lg))
    ++ [simple_call F_reorder_pops [] (map (fun x => S (pos_of x (srt n fin))) fin) []].
End ReorderModel.
