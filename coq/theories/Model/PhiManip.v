(** * PhiManip: new populations by split / admixture, in-place admixture pulses, removal and
    reordering of populations (dadi/PhiManip.py 214-300, 372-1072, 1126-1146; dadi/Numerics.py trapz).

    Densities are C-order flat lists with an explicit shape, as in Model/NDSweep.v.
    Executable model only; copied from the code, including the clamps and [where] guards of
    [_admixture_intermediates], the left-to-right evaluation order of the ad-mixed frequency, the place
    of the proportion test, and -- in the descriptor table -- the grid every function really hands over. *)
From Coq Require Import String.
From Coq Require Import List Arith Bool ZArith.
From Dadi Require Import Base.Num Model.Tridiag Model.Scheme Model.NDSweep.
Import ListNotations.
Local Open Scope bool_scope.
Local Open Scope num_scope.

(** ** descriptors of the 14 pulse functions and of the constructors *)
(** an argument handed to [_<n>_pop_admixture_intermediates]: the i-th proportion parameter of the public
    function, [1 - p0 - p1 - ...] over all its proportion parameters in order, or an integer literal *)
Inductive parg := PF (i : nat) | PRest | PZ (z : Z).
Record pdesc := {
  pd_name : string;
  pd_dim : nat;              (* number of populations of the incoming phi *)
  pd_args : list parg;       (* the pd_dim-1 proportion arguments of the helper, in order *)
  pd_axgrids : list nat;     (* for each axis slot of the helper: index of the grid parameter passed *)
  pd_gdep : nat;             (* grid parameter passed as the helper's last argument: the grid deposited on *)
  pd_dest : option nat;      (* Some k: axis k is sliced, integrated out and overwritten; None: a new last axis *)
  pd_gint : nat              (* grid parameter passed to Numerics.trapz (pulses only) *)
}.
Definition mkp n d a ax g de gi : pdesc :=
  {| pd_name := n; pd_dim := d; pd_args := a; pd_axgrids := ax; pd_gdep := g; pd_dest := de; pd_gint := gi |}.

(** what PhiManip.py does today.  Grid parameters are numbered xx=0, yy=1, zz=2, aa=3, bb=4.
    NB phi_4D_admix_into_4 / _into_3 deposit on yy, and phi_5D_admix_into_2..5 deposit on and integrate
    with xx: invisible when all axes share one grid (the only use dadi.Integration supports). *)
Definition pulse_table : list pdesc := [
  mkp "phi_2D_admix_1_into_2"        2 [PF 0]                   [0;1]       1 (Some 1) 1;
  mkp "phi_2D_admix_2_into_1"        2 [PRest]                  [0;1]       0 (Some 0) 0;
  mkp "phi_3D_admix_1_and_2_into_3"  3 [PF 0; PF 1]             [0;1;2]     2 (Some 2) 2;
  mkp "phi_3D_admix_1_and_3_into_2"  3 [PF 0; PRest]            [0;1;2]     1 (Some 1) 1;
  mkp "phi_3D_admix_2_and_3_into_1"  3 [PRest; PF 0]            [0;1;2]     0 (Some 0) 0;
  mkp "phi_4D_admix_into_1"          4 [PRest; PF 0; PF 1]      [0;1;2;3]   0 (Some 0) 0;
  mkp "phi_4D_admix_into_4"          4 [PF 0; PF 1; PF 2]       [0;1;2;3]   1 (Some 3) 3;
  mkp "phi_4D_admix_into_3"          4 [PF 0; PF 1; PRest]      [0;1;2;3]   1 (Some 2) 2;
  mkp "phi_4D_admix_into_2"          4 [PF 0; PRest; PF 1]      [0;1;2;3]   1 (Some 1) 1;
  mkp "phi_5D_admix_into_1"          5 [PRest; PF 0; PF 1; PF 2] [0;1;2;3;4] 0 (Some 0) 0;
  mkp "phi_5D_admix_into_2"          5 [PF 0; PRest; PF 1; PF 2] [0;1;2;3;4] 0 (Some 1) 0;
  mkp "phi_5D_admix_into_3"          5 [PF 0; PF 1; PRest; PF 2] [0;1;2;3;4] 0 (Some 2) 0;
  mkp "phi_5D_admix_into_4"          5 [PF 0; PF 1; PF 2; PRest] [0;1;2;3;4] 0 (Some 3) 0;
  mkp "phi_5D_admix_into_5"          5 [PF 0; PF 1; PF 2; PF 3]  [0;1;2;3;4] 0 (Some 4) 0
]%string.

(** constructors: the new population's grid is the last grid parameter.  The two split functions call
    phi_2D_to_3D_admix(phi_2D, 1|0, xx, xx, xx). *)
Definition cons_table : list pdesc := [
  mkp "phi_2D_to_3D_admix"    2 [PF 0]              [0;1]     2 None 2;
  mkp "phi_2D_to_3D_split_1"  2 [PZ 1]              [0;0]     0 None 0;
  mkp "phi_2D_to_3D_split_2"  2 [PZ 0]              [0;0]     0 None 0;
  mkp "phi_3D_to_4D"          3 [PF 0; PF 1]        [0;1;2]   3 None 3;
  mkp "phi_4D_to_5D"          4 [PF 0; PF 1; PF 2]  [0;1;2;3] 4 None 4
]%string.

(** a pulse is wired as documented when it deposits on and integrates with its destination's own grid *)
Definition own_grid (p : pdesc) : bool :=
  match pd_dest p with
  | Some k => Nat.eqb (pd_gdep p) k && Nat.eqb (pd_gint p) k
  | None => true
  end.
(** ... and well formed when every index is in range *)
Definition wf_desc (p : pdesc) : bool :=
  Nat.eqb (length (pd_args p)) (pd_dim p - 1) && Nat.eqb (length (pd_axgrids p)) (pd_dim p) &&
  match pd_dest p with
  | Some k => Nat.ltb k (pd_dim p) && Nat.ltb (pd_gdep p) (pd_dim p) && Nat.ltb (pd_gint p) (pd_dim p)
              && forallb (fun g => Nat.ltb g (pd_dim p)) (pd_axgrids p)
  | None => Nat.leb (pd_gdep p) (pd_dim p) && forallb (fun g => Nat.leb g (pd_dim p)) (pd_axgrids p)
  end.

Section PhiManip.
  Context {F : Type} `{Num F}.

  (** ** _admixture_intermediates *)
  (** numpy.searchsorted(zz, v) (side='left') on an increasing grid: first index with v <= zz[i], else len *)
  Fixpoint searchsorted (zz : list F) (v : F) : nat :=
    match zz with
    | [] => 0%nat
    | z :: t => if v <=? z then 0%nat else S (searchsorted t v)
    end.
  (** numpy.maximum(numpy.minimum(idx, len(zz)-1), 1) *)
  Definition upper_index (zz : list F) (v : F) : nat := Nat.max (Nat.min (searchsorted zz v) (length zz - 1)) 1.
  Definition lower_index (zz : list F) (v : F) : nat := (upper_index zz v - 1)%nat.

  Definition delz0 (zz : list F) (lo : nat) : F :=
    if Nat.eqb lo 0 then n0 else nthF zz lo - nthF zz (lo - 1).
  Definition delz1 (zz : list F) (lo up : nat) : F :=
    if Nat.eqb up 0 then n0 else nthF zz up - nthF zz lo.
  Definition delz2 (zz : list F) (up : nat) : F :=
    if Nat.eqb up (length zz - 1) then n0 else nthF zz ((up + 1) mod length zz) - nthF zz up.
  Definition frac_lower (zz : list F) (lo up : nat) (adz : F) : F := (nthF zz up - adz) / (nthF zz up - nthF zz lo).
  Definition frac_upper (zz : list F) (lo up : nat) (adz : F) : F := (adz - nthF zz lo) / (nthF zz up - nthF zz lo).
  Definition dep_den (zz : list F) (lo up : nat) (adz : F) : F :=
    frac_lower zz lo up adz * delz0 zz lo + delz1 zz lo up + frac_upper zz lo up adz * delz2 zz up.
  Definition dep_norm (zz : list F) (lo up : nat) (phi adz : F) : F := n2 * phi / dep_den zz lo up adz.

  (** one row of the new axis: frac_lower*norm at the lower index, frac_upper*norm at the upper index
      ([= ... ; += ...] or [= ... ; = ...] on a zero array; the two indices always differ by one) *)
  Definition deposit_col (zz : list F) (phi adz : F) : list F :=
    let up := upper_index zz adz in
    let lo := (up - 1)%nat in
    let nrm := dep_norm zz lo up phi adz in
    let lc := frac_lower zz lo up adz * nrm in
    let uc := frac_upper zz lo up adz * nrm in
    map (fun k => if Nat.eqb k up then uc else if Nat.eqb k lo then lc else n0) (seq 0 (length zz)).

  (** Numerics.trapz: sum(dx * (y[1:] + y[:-1]) / 2) *)
  Definition trapz_np (xs ys : list F) : F :=
    nsum (map (fun i => dx xs i * (nthF ys (S i) + nthF ys i) / n2) (seq 0 (length xs - 1))).

  (** ** ad-mixed frequency  f1*xx + f2*yy + ... + (1-f1-f2-...)*last, evaluated left to right *)
  Definition lsum (l : list F) : F := match l with [] => n0 | a :: t => fold_left nadd t a end.
  Definition rest_of (ps : list F) : F := fold_left nsub ps n1.
  Definition coefs_of (fs : list F) : list F := fs ++ [rest_of fs].
  (** the 3-, 4-, 5-population helpers raise ValueError when their proportion ARGUMENTS sum above 1;
      the 2-population helper has no test *)
  Definition rejected (fs : list F) : bool :=
    match fs with
    | [] | [_] => false
    | _ => n1 <? lsum fs
    end.
  Definition adfreq (grids : list (list F)) (cs : list F) (ix : list nat) : F :=
    lsum (map (fun p => fst p * nthF (fst (snd p)) (snd (snd p))) (combine cs (combine grids ix))).

  (** ** a new last axis: every entry is deposited at its ad-mixed frequency on the grid zz *)
  Definition new_pop (shape : list nat) (grids : list (list F)) (cs : list F) (zz : list F) (phi : list F) : list F :=
    flat_map (fun idx => deposit_col zz (nthF phi idx) (adfreq grids cs (unflat shape idx))) (seq 0 (prodn shape)).

  (** ** in-place pulse into axis [dest]: for every line along dest, deposit each entry on [gdep]
      (rows of phi_int), then trapz over the old coordinate with [gint] *)
  Definition pulse (shape : list nat) (grids : list (list F)) (cs : list F) (dest : nat) (gdep gint : list F)
             (phi : list F) : list F :=
    let outer := prodn (firstn dest shape) in
    let len := nth dest shape 0%nat in
    let inner := prodn (skipn (S dest) shape) in
    flat_map (fun o => flat_map (fun k => map (fun q =>
        trapz_np gint (map (fun i => let idx := ((o * len + i) * inner + q)%nat in
                                      nthF (deposit_col gdep (nthF phi idx) (adfreq grids cs (unflat shape idx))) k)
                           (seq 0 len)))
      (seq 0 inner)) (seq 0 len)) (seq 0 outer).

  (** ** running a descriptor *)
  Definition eval_arg (ps : list F) (a : parg) : F :=
    match a with PF i => nthF ps i | PRest => rest_of ps | PZ z => nofZ z end.
  Definition desc_args (p : pdesc) (ps : list F) : list F := map (eval_arg ps) (pd_args p).
  (** gs: the grid parameters of the public function, in signature order.  None = ValueError *)
  Definition run_desc (p : pdesc) (shape : list nat) (gs : list (list F)) (ps : list F) (phi : list F) : option (list F) :=
    let fs := desc_args p ps in
    if rejected fs then None else
    let grids := map (fun g => nth g gs []) (pd_axgrids p) in
    match pd_dest p with
    | None => Some (new_pop shape grids (coefs_of fs) (nth (pd_gdep p) gs []) phi)
    | Some k => Some (pulse shape grids (coefs_of fs) k (nth (pd_gdep p) gs []) (nth (pd_gint p) gs []) phi)
    end.

  (** ** phi_1D_to_2D: interior diagonal entries only *)
  Definition phi_1D_to_2D (xx phi : list F) : list F :=
    let pts := length xx in
    flat_map (fun i => map (fun j =>
        if Nat.eqb i j && Nat.ltb 0 i && Nat.ltb i (pts - 1)
        then nthF phi i * n2 / (nthF xx (i + 1) - nthF xx (i - 1)) else n0) (seq 0 pts)) (seq 0 pts).

  (** ** remove_pop / filter_pops: Numerics.trapz along axis popnum-1 *)
  Definition remove_nth {A} (k : nat) (l : list A) : list A := firstn k l ++ skipn (S k) l.
  Definition marginal_np (shape : list nat) (g : list F) (k : nat) (phi : list F) : list F :=
    let outer := prodn (firstn k shape) in
    let len := nth k shape 0%nat in
    let inner := prodn (skipn (S k) shape) in
    flat_map (fun o => map (fun q =>
        trapz_np g (map (fun i => nthF phi ((o * len + i) * inner + q)) (seq 0 len)))
      (seq 0 inner)) (seq 0 outer).
  Definition remove_pop (shape : list nat) (g : list F) (popnum : nat) (phi : list F) : list nat * list F :=
    (remove_nth (popnum - 1) shape, marginal_np shape g (popnum - 1) phi).
  (** list.remove: first occurrence, ValueError when absent *)
  Fixpoint remove_first (x : nat) (l : list nat) : option (list nat) :=
    match l with
    | [] => None
    | y :: t => if Nat.eqb y x then Some t else option_map (cons y) (remove_first x t)
    end.
  Definition filter_pops (shape : list nat) (g : list F) (tokeep : list nat) (phi : list F) : option (list nat * list F) :=
    let toremove := fold_left (fun acc p => match acc with Some l => remove_first p l | None => None end)
                              tokeep (Some (seq 1 (length shape))) in
    (* sorted(toremove)[::-1]: toremove is a sub-sequence of 1..d, hence already sorted *)
    option_map (fun l => fold_left (fun sp p => remove_pop (fst sp) g p (snd sp)) (rev l) (shape, phi)) toremove.

  (** ** reorder_pops: numpy transpose, read back in C order *)
  Fixpoint insert_sorted (x : nat) (l : list nat) : list nat :=
    match l with [] => [x] | y :: t => if Nat.leb x y then x :: l else y :: insert_sorted x t end.
  Definition isort (l : list nat) : list nat := fold_right insert_sorted [] l.
  Fixpoint list_nat_eqb (a b : list nat) : bool :=
    match a, b with [], [] => true | x :: a', y :: b' => Nat.eqb x y && list_nat_eqb a' b' | _, _ => false end.
  Fixpoint index_of (a : nat) (l : list nat) : nat :=
    match l with [] => 0%nat | x :: t => if Nat.eqb x a then 0%nat else S (index_of a t) end.
  (** result axis j is old axis axes[j] *)
  Definition transpose_flat (shape : list nat) (axes : list nat) (phi : list F) : list nat * list F :=
    let nshape := map (fun a => nth a shape 0%nat) axes in
    (nshape, map (fun idx' => let ix' := unflat nshape idx' in
                   nthF phi (flatidx shape (map (fun a => nth (index_of a axes) ix' 0%nat) (seq 0 (length shape)))))
                 (seq 0 (prodn nshape))).
  Definition reorder_pops (shape : list nat) (neworder : list nat) (phi : list F) : option (list nat * list F) :=
    if list_nat_eqb (isort neworder) (seq 1 (length shape))
    then Some (transpose_flat shape (map pred neworder) phi) else None.
End PhiManip.
