(** Q-side comparison functions used by the C10 correspondence files. *)
From Coq Require Import String.
From Coq Require Import ZArith QArith Qabs List Bool Arith.
From Dadi Require Import Base.Num Base.NumQ Model.PopOps.
Import ListNotations.

Inductive popop :=
| OpMarg (over : list nat) (mc : bool)
| OpFilter (keep : list nat)
| OpReorder (neworder : list nat)
| OpCombine2 (p q : nat)
| OpCombine (tocombine : list nat)
| OpMisc (idxs : list nat)
| OpScramble (mc : bool).

Definition run_op (o : popop) (a : spec Q) : option (spec Q) :=
  match o with
  | OpMarg over mc => marginalize over mc a
  | OpFilter keep => filter_pops keep a
  | OpReorder p => reorder_pops p a
  | OpCombine2 p q => Some (combine_two_pops p q a)
  | OpCombine tc => Some (combine_pops tc a)
  | OpMisc ix => misc_combine_pops ix a
  | OpScramble mc => Some (scramble_pop_ids mc a)
  end.

Definition poison_of (o : popop) (a : spec Q) : idx -> bool :=
  match o with
  | OpScramble _ => scramble_poison a
  | _ => fun _ => false
  end.

Record pcase := {
  pc_op : popop;
  pc_shape : list nat; pc_data : list Q; pc_mask : list bool; pc_ids : option (list string); pc_folded : bool;
  pc_ok : bool;                 (* the implementation returned a Spectrum (false: it raised) *)
  pc_oshape : list nat; pc_odata : list Q; pc_omask : list bool; pc_onan : list bool;
  pc_oids : option (list string); pc_ofolded : bool
}.

Fixpoint strs_eqb (a b : list string) : bool :=
  match a, b with
  | [], [] => true
  | x :: a', y :: b' => String.eqb x y && strs_eqb a' b'
  | _, _ => false
  end.
Definition ids_eqb (a b : option (list string)) : bool :=
  match a, b with
  | None, None => true
  | Some x, Some y => strs_eqb x y
  | _, _ => false
  end.
Fixpoint bools_eqb (a b : list bool) : bool :=
  match a, b with
  | [], [] => true
  | x :: a', y :: b' => Bool.eqb x y && bools_eqb a' b'
  | _, _ => false
  end.

(** entries that take part in the value comparison: unmasked and not poisoned *)
Fixpoint live_values (vals : list Q) (dead : list bool) : list Q :=
  match vals, dead with
  | v :: vs, d :: ds => (if d then 0 else v) :: live_values vs ds
  | _, _ => []
  end.

(** result code in the Z component when the boolean is false:
    -1 model refuses / impl returns (or the reverse), -2 shape, -3 mask, -4 labels, -5 folded flag, -6 nan pattern *)
Definition pcheck_body (tol : Q) (c : pcase) (poison : idx -> bool) (res : option (spec Q)) : bool * Z :=
  match res with
  | None => if pc_ok c then (false, (-1)%Z) else (true, (-10000)%Z)
  | Some r =>
    if negb (pc_ok c) then (false, (-1)%Z) else
    if negb (list_nat_eqb (sh r) (pc_oshape c)) then (false, (-2)%Z) else
    let mm := flat_mask r in
    if negb (bools_eqb mm (pc_omask c)) then (false, (-3)%Z) else
    if negb (ids_eqb (ids r) (pc_oids c)) then (false, (-4)%Z) else
    if negb (Bool.eqb (fo r) (pc_ofolded c)) then (false, (-5)%Z) else
    let po := map poison (indices (sh r)) in
    let expect_nan := map (fun p => snd p && negb (fst p)) (combine mm po) in
    let got_nan := map (fun p => snd p && negb (fst p)) (combine mm (pc_onan c)) in
    if negb (bools_eqb expect_nan got_nan) then (false, (-6)%Z) else
    let dead := map (fun p => fst p || snd p) (combine mm po) in
    Qlists_close tol (live_values (flat_values r) dead) (live_values (pc_odata c) dead)
  end.

Definition pcase_input (c : pcase) : spec Q :=
  of_flat (pc_shape c) (pc_data c) (pc_mask c) (pc_ids c) (pc_folded c).

Definition pcheck (tol : Q) (c : pcase) : bool * Z :=
  let a := pcase_input c in pcheck_body tol c (poison_of (pc_op c) a) (run_op (pc_op c) a).

(** the conclusions of the static theorems evaluated on the Q instance for the same input
    (a divergence between the R and the Q reading of the model would show here):
    total conserved for mask-free input by marginalize / reorder / combine / Misc.combine / scramble *)
Definition ptotal_input (c : pcase) : spec Q :=
  of_flat (pc_shape c) (pc_data c) (map (fun _ => false) (pc_mask c)) (pc_ids c) false.
Definition ptotal_op (c : pcase) : popop :=
  match pc_op c with
  | OpMarg over _ => OpMarg over false
  | OpFilter keep => OpMarg (match filter_toremove (length (pc_shape c)) keep with Some l => l | None => [] end) false
  | OpScramble _ => OpScramble false
  | x => x
  end.
Definition ptotal_body (a : spec Q) (res : option (spec Q)) : bool :=
  match res with
  | None => true
  | Some r => Qeq_bool (total r) (total a)
  end.
Definition ptotal_check (c : pcase) : bool :=
  let a := ptotal_input c in ptotal_body a (run_op (ptotal_op c) a).

Definition pcheck_full (tol : Q) (c : pcase) : bool * Z :=
  let r := pcheck tol c in
  if fst r then (if ptotal_check c then r else (false, (-7)%Z)) else r.

(** ** the same check, affordable for large sample sizes
    [binomZ] follows Pascal's rule literally (exponentially many additions: C(40,20) alone is out of reach of vm_compute);
    the correspondence files of the large cases evaluate the same re-dealing weights through rows of Pascal's triangle.
    Nothing else changes.  Proofs/PopOpsScramble.v proves [binomZ_fast n k = binomZ n k] for all n, k and
    [pcheck_full_fast tol c = pcheck_full tol c] for every case (Props/C10.v: C10_fast_binomials_are_the_binomials,
    C10_fast_check_is_the_check), so a verdict of [pcheck_full_fast] IS the verdict of the model. *)
Fixpoint pascal_next (prev : Z) (r : list Z) : list Z :=
  match r with
  | [] => [prev]
  | x :: t => (prev + x)%Z :: pascal_next x t
  end.
Fixpoint pascal_row (n : nat) : list Z :=
  match n with O => [1%Z] | S n' => pascal_next 0%Z (pascal_row n') end.
Definition binomZ_fast (n k : nat) : Z := nth k (pascal_row n) 0%Z.

(** the rows are computed once per spectrum *)
Definition deal_prob_rows (rows : list (list Z)) (prow : list Z) (c : idx) : Q :=
  ndiv (nofZ (fold_right Z.mul 1%Z (map (fun p => nth (snd p) (fst p) 0%Z) (combine rows c))))
       (nofZ (nth (isum c) prow 0%Z)).
Definition scramble_unfolded_fast (mc : bool) (a : spec Q) : spec Q :=
  let pl := pooled a in
  let s := sh a in
  let rows := map (fun x => pascal_row (pred x)) s in
  let prow := pascal_row (nsamp s) in
  {| sh := s; va := fun c => nmul (deal_prob_rows rows prow c) (pl [isum c]);
     mk := fun c => if mc then is_corner s c else false; ids := None; fo := false |}.
Definition scramble_pop_ids_fast (mc : bool) (a : spec Q) : spec Q :=
  if fo a then fold (scramble_unfolded_fast mc (unfold a)) else scramble_unfolded_fast mc a.
Definition run_op_fast (o : popop) (a : spec Q) : option (spec Q) :=
  match o with
  | OpScramble mc => Some (scramble_pop_ids_fast mc a)
  | _ => run_op o a
  end.
(** [pooled_poison a t] scans every entry (looking its mask up) for every t; here the totals of the masked entries are listed once *)
Definition poison_totals (a : spec Q) : list nat :=
  map (fun p => isum (fst p)) (filter (fun p => snd p) (combine (indices (sh a)) (flat_mask a))).
Definition scramble_poison_fast (a : spec Q) : idx -> bool :=
  if fo a then let u := unfold a in let pt := poison_totals u in
               fun c => memb (isum c) pt || memb (isum (rev_idx (sh a) c)) pt
  else let pt := poison_totals a in fun c => memb (isum c) pt.
Definition poison_of_fast (o : popop) (a : spec Q) : idx -> bool :=
  match o with
  | OpScramble _ => scramble_poison_fast a
  | _ => fun _ => false
  end.
Definition pcheck_fast (tol : Q) (c : pcase) : bool * Z :=
  let a := pcase_input c in pcheck_body tol c (poison_of_fast (pc_op c) a) (run_op_fast (pc_op c) a).
Definition ptotal_check_fast (c : pcase) : bool :=
  let a := ptotal_input c in ptotal_body a (run_op_fast (ptotal_op c) a).
Definition pcheck_full_fast (tol : Q) (c : pcase) : bool * Z :=
  let r := pcheck_fast tol c in
  if fst r then (if ptotal_check_fast c then r else (false, (-7)%Z)) else r.
