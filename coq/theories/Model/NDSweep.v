(** * NDSweep: d-dimensional densities (C-order flat lists), per-axis implicit sweeps, mutation
    influx, time-step rule and the constant / time-dependent drivers of dadi/Integration.py.
    One definition for every dimension d and every axis k.  Executable model only. *)
From Coq Require Import List Arith Bool.
From Dadi Require Import Base.Num Model.Tridiag Model.Scheme.
Import ListNotations.
Local Open Scope bool_scope.
Local Open Scope num_scope.

Definition prodn (l : list nat) : nat := fold_right Nat.mul 1%nat l.
Fixpoint unflat (shape : list nat) (idx : nat) : list nat :=
  match shape with
  | [] => []
  | n :: t => let s := prodn t in (idx / s)%nat :: unflat t (idx mod s)
  end.
Fixpoint flatidx (shape ix : list nat) : nat :=
  match shape, ix with
  | n :: t, i :: it => (i * prodn t + flatidx t it)%nat
  | _, _ => 0%nat
  end.

Section ND.
  Context {F : Type} `{Num F}.

  Record pop := { p_nu : F; p_gamma : F; p_h : F; p_beta : F;
                  p_ms : list F;          (* migration INTO this population from each other one, in axis order *)
                  p_frozen : bool; p_nomut : bool }.

  Definition all_eq (v : F) (l : list F) : bool := forallb (fun y => y =? v) l.

  (** grid coordinates of a multi-index *)
  Definition coords (grids : list (list F)) (ix : list nat) : list F :=
    map (fun p => nthF (fst p) (snd p)) (combine grids ix).

  Definition sweep_line (grids : list (list F)) (p : pop) (k : nat) (os : list F) (dt : F) (use_delj : bool)
             (line : list F) : list F :=
    line_solve (nth k grids []) (Vfunc_beta (p_nu p) (p_beta p)) (Mfunc (p_ms p) os (p_gamma p) (p_h p))
               (p_nu p) (all_eq n0 os) (all_eq n1 os) dt use_delj line.

  (** generic "apply [f os line] to every line along axis k" on a flat C-order array *)
  Definition map_lines (shape : list nat) (grids : list (list F)) (k : nat)
             (f : list F -> list F -> list F) (phi : list F) : list F :=
    let outer := prodn (firstn k shape) in
    let len := nth k shape 0%nat in
    let inner := prodn (skipn (S k) shape) in
    let gpre := firstn k grids in let gpost := skipn (S k) grids in
    let spre := firstn k shape in let spost := skipn (S k) shape in
    let table :=
      map (fun o => map (fun q =>
             let os := coords gpre (unflat spre o) ++ coords gpost (unflat spost q) in
             let line := map (fun i => nthF phi ((o * len + i) * inner + q)) (seq 0 len) in
             f os line) (seq 0 inner)) (seq 0 outer) in
    flat_map (fun o => flat_map (fun i => map (fun q => nthF (nth q (nth o table []) []) i) (seq 0 inner))
                                (seq 0 len)) (seq 0 outer).

  Definition sweep (shape : list nat) (grids : list (list F)) (pops : list pop) (k : nat) (dt : F) (use_delj : bool)
             (phi : list F) : list F :=
    match nth_error pops k with
    | Some p => map_lines shape grids k (fun os line => sweep_line grids p k os dt use_delj line) phi
    | None => phi
    end.

  (** precomputed-coefficient sweep: a,b,c are arrays of phi's shape *)
  Definition precalc_sweep (shape : list nat) (k : nat) (a b c : list F) (dt : F) (phi : list F) : list F :=
    let outer := prodn (firstn k shape) in
    let len := nth k shape 0%nat in
    let inner := prodn (skipn (S k) shape) in
    let getl (arr : list F) o q := map (fun i => nthF arr ((o * len + i) * inner + q)) (seq 0 len) in
    let table := map (fun o => map (fun q => precalc_solve (getl a o q) (getl b o q) (getl c o q) dt (getl phi o q))
                                   (seq 0 inner)) (seq 0 outer) in
    flat_map (fun o => flat_map (fun i => map (fun q => nthF (nth q (nth o table []) []) i) (seq 0 inner))
                                (seq 0 len)) (seq 0 outer).

  (** mutation influx (_inject_mutations_{1..5}D): for population k not frozen and not nomut,
      phi[e_k] += dt/x_k[1] * theta0/2 * 2^d / ((x_k[2]-x_k[0]) * prod_{j<>k} x_j[1]) *)
  Definition unit_ix (d k : nat) : list nat := map (fun j => if Nat.eqb j k then 1%nat else 0%nat) (seq 0 d).
  Definition inject_amount (grids : list (list F)) (d k : nat) (theta0 dt : F) : F :=
    let gk := nth k grids [] in
    let others := nprod (map (fun j => if Nat.eqb j k then n1 else nthF (nth j grids []) 1) (seq 0 d)) in
    dt / nthF gk 1 * theta0 / n2 * npow n2 d / ((nthF gk 2 - nthF gk 0) * others).
  Fixpoint add_at (l : list F) (i : nat) (v : F) : list F :=
    match l, i with
    | [], _ => []
    | y :: t, O => (y + v) :: t
    | y :: t, S j => y :: add_at t j v
    end.
  Definition inject (shape : list nat) (grids : list (list F)) (pops : list pop) (theta0 dt : F) (phi : list F) : list F :=
    let d := length shape in
    fold_left (fun acc kp => let '(k, p) := kp in
                 if p_frozen p || p_nomut p then acc
                 else add_at acc (flatidx shape (unit_ix d k)) (inject_amount grids d k theta0 dt))
              (combine (seq 0 d) pops) phi.

  Definition step (shape : list nat) (grids : list (list F)) (pops : list pop) (theta0 dt : F) (use_delj : bool)
             (phi : list F) : list F :=
    fold_left (fun acc kp => let '(k, p) := kp in
                 if p_frozen p then acc else sweep shape grids pops k dt use_delj acc)
              (combine (seq 0 (length shape)) pops) (inject shape grids pops theta0 dt phi).

  (** _compute_dt *)
  Definition quarter : F := n1 / n4.
  Definition maxVM (p : pop) : F :=
    let h := p_h p in
    let t1 := nabs (h + (n1 - n2 * h) * nhalf) * (nhalf * (n1 - nhalf)) in
    let t2 := nabs (h + (n1 - n2 * h) * quarter) * (quarter * (n1 - quarter)) in
    nmax (nmax (quarter / p_nu p) (nsum (p_ms p))) (nabs (p_gamma p) * n2 * nmax t1 t2).
  Definition compute_dt (tf : F) (p : pop) : option F :=      (* None = numpy.inf *)
    if n0 <? maxVM p then Some (tf / maxVM p) else None.
  Definition omin (a b : option F) : option F :=
    match a, b with Some x, Some y => Some (nmin x y) | Some x, None => Some x | None, y => y end.
  Definition dt_of (tf : F) (pops : list pop) : option F := fold_right (fun p acc => omin (compute_dt tf p) acc) None pops.

  (** constant-parameter driver: dt computed once; while t < T: this_dt = min(dt, T-t) *)
  Fixpoint integrate_const (fuel : nat) shape grids pops (theta0 tf : F) (use_delj : bool) (t T : F) (phi : list F)
    : option (list F) :=
    if negb (t <? T) then Some phi else
    match fuel with
    | O => None
    | S fuel' =>
      let this_dt := match dt_of tf pops with Some dt => nmin dt (T - t) | None => T - t end in
      integrate_const fuel' shape grids pops theta0 tf use_delj (t + this_dt) T
                      (step shape grids pops theta0 this_dt use_delj phi)
    end.

  (** time-dependent driver: dt from the current parameters, the step uses the parameters at next_t *)
  Fixpoint integrate_tdep (fuel : nat) shape grids (popsf : F -> list pop) (thetaf : F -> F) (tf : F) (use_delj : bool)
           (t T : F) (phi : list F) : option (list F) :=
    if negb (t <? T) then Some phi else
    match fuel with
    | O => None
    | S fuel' =>
      let this_dt := match dt_of tf (popsf t) with Some dt => nmin dt (T - t) | None => T - t end in
      let next_t := t + this_dt in
      integrate_tdep fuel' shape grids popsf thetaf tf use_delj next_t T
                     (step shape grids (popsf next_t) (thetaf next_t) this_dt use_delj phi)
    end.

  (** marginalisation over axis k by the trapezoid rule (Numerics.trapz along an axis; PhiManip.remove_pop) *)
  Definition marginal_out (shape : list nat) (grids : list (list F)) (k : nat) (phi : list F) : list F :=
    let outer := prodn (firstn k shape) in
    let len := nth k shape 0%nat in
    let inner := prodn (skipn (S k) shape) in
    flat_map (fun o => map (fun q =>
        trapz (nth k grids []) (map (fun i => nthF phi ((o * len + i) * inner + q)) (seq 0 len)))
      (seq 0 inner)) (seq 0 outer).
End ND.
