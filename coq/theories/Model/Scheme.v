(** * Scheme: one implicit step of dadi's finite-difference scheme along one axis.

    Executable model of integration_shared.c (Vfunc, Mfunc*, compute_dx/dfactor/xInt/delj/abc_nobc),
    of the boundary terms and right-hand side assembled in implicit_*D* (integration1D..5D.c) and of
    the corresponding Python assembly in Integration.py.  No proofs here. *)
From Coq Require Import List Arith Bool.
From Dadi Require Import Base.Num Model.Tridiag.
Import ListNotations.
Local Open Scope bool_scope.
Local Open Scope num_scope.

Section Scheme.
  Context {F : Type} `{Num F}.

  Definition nthF (l : list F) (i : nat) : F := nth i l n0.
  (** tabulate f on 0..n-1 once; outside the range the value is 0 *)
  Definition tab (n : nat) (f : nat -> F) : nat -> F := let l := map f (seq 0 n) in fun i => nth i l n0.
  Definition n4 : F := n2 * n2.

  (** population-genetic coefficient functions *)
  Definition Vfunc (nu x : F) : F := n1 / nu * (x * (n1 - x)).
  Definition Vfunc_beta (nu beta x : F) : F := n1 / nu * (x * (n1 - x)) * ((beta + n1) * (beta + n1)) / (n4 * beta).
  Definition Msel (gamma h x : F) : F := gamma * n2 * (h + (n1 - n2 * h) * x) * (x * (n1 - x)).
  (** migration from the other populations: ms and os in increasing axis order of the others *)
  Definition Mmig (ms os : list F) (x : F) : F := nsum (map (fun p => fst p * (snd p - x)) (combine ms os)).
  Definition Mfunc (ms os : list F) (gamma h x : F) : F := Mmig ms os x + Msel gamma h x.

  Section Line.
    Variable xs : list F.          (* grid along the swept axis *)
    Variable Vf Mf : F -> F.       (* V(x), M(x) on this line *)
    Variable nu : F.
    Variable c0 c1 : bool.         (* all other coordinates are 0 / are 1 *)
    Variable dt : F.
    Variable use_delj : bool.

    Definition N := length xs.
    Definition x (i : nat) := nthF xs i.
    Definition dx (i : nat) : F := x (S i) - x i.
    Definition xint (i : nat) : F := nhalf * (x (S i) + x i).
    Definition dfactor (i : nat) : F :=
      if Nat.eqb i 0 then n2 / dx 0
      else if Nat.eqb i (N - 1) then n2 / dx (N - 2)
      else n2 / (dx i + dx (i - 1)).
    Definition delj (i : nat) : F :=
      if use_delj then
        let wj := n2 * Mf (xint i) * dx i in
        let vi := Vf (xint i) in
        let epsj := nexp (wj / vi) in
        if negb (epsj =? n1) && negb (wj =? n0)
        then (- (epsj * wj) + epsj * vi - vi) / (wj - epsj * wj)
        else nhalf
      else nhalf.
    Definition atemp (i : nat) : F := Mf (xint i) * delj i + Vf (x i) / (n2 * dx i).
    Definition ctemp (i : nat) : F := - (Mf (xint i)) * (n1 - delj i) + Vf (x (S i)) / (n2 * dx i).
    Definition bc0 : F :=
      if c0 && (Mf (x 0) <=? n0) then (nhalf / nu - Mf (x 0)) * n2 / dx 0 else n0.
    Definition bc1 : F :=
      if c1 && (n0 <=? Mf (x (N - 1))) then - (- (nhalf / nu) - Mf (x (N - 1))) * n2 / dx (N - 2) else n0.
    Definition coef_a (i : nat) : F := if Nat.eqb i 0 then n0 else - (dfactor i) * atemp (i - 1).
    Definition coef_c (i : nat) : F := if Nat.eqb i (N - 1) then n0 else - (dfactor i) * ctemp i.
    (** b without the 1/dt term (this is what the constant-parameter Python drivers precompute) *)
    Definition coef_b0 (i : nat) : F :=
      (if Nat.ltb i (N - 1) then dfactor i * atemp i else n0)
      + (if Nat.ltb 0 i then dfactor i * ctemp (i - 1) else n0)
      + (if Nat.eqb i 0 then bc0 else n0) + (if Nat.eqb i (N - 1) then bc1 else n0).
    Definition coef_b (i : nat) : F := n1 / dt + coef_b0 i.

    (** specification form: one row per grid point, straight from the index functions above *)
    Definition line_rows_spec (phi : list F) : list (@row F) :=
      map (fun i => (coef_a i, coef_b i, coef_c i, nthF phi i / dt)) (seq 0 N).

    (** executable form: identical rows, with the per-interval quantities tabulated once per line
        (as the C code does with its MInt/V/VInt/delj/dfactor arrays).  Proofs/SchemeProofs.v shows
        [line_rows = line_rows_spec]. *)
    Definition line_rows (phi : list F) : list (@row F) :=
      let dxt := tab (N - 1)%nat dx in
      let xit := tab (N - 1)%nat xint in
      let Mi := tab (N - 1)%nat (fun i => Mf (xit i)) in
      let Vi := tab (N - 1)%nat (fun i => Vf (xit i)) in
      let Vx := tab N (fun i => Vf (x i)) in
      let dj := tab (N - 1)%nat (fun i =>
                  if use_delj then
                    let wj := n2 * Mi i * dxt i in
                    let vi := Vi i in
                    let epsj := nexp (wj / vi) in
                    if negb (epsj =? n1) && negb (wj =? n0)
                    then (- (epsj * wj) + epsj * vi - vi) / (wj - epsj * wj)
                    else nhalf
                  else nhalf) in
      let at_ := tab (N - 1)%nat (fun i => Mi i * dj i + Vx i / (n2 * dxt i)) in
      let ct_ := tab (N - 1)%nat (fun i => - (Mi i) * (n1 - dj i) + Vx (S i) / (n2 * dxt i)) in
      let df := tab N (fun i => if Nat.eqb i 0 then n2 / dxt 0
                                else if Nat.eqb i (N - 1)%nat then n2 / dxt (N - 2)%nat
                                else n2 / (dxt i + dxt (i - 1)%nat)) in
      let b0 := bc0 in let b1 := bc1 in
      let idt := n1 / dt in
      map (fun i =>
             (if Nat.eqb i 0 then n0 else - (df i) * at_ (i - 1)%nat,
              idt + ((if Nat.ltb i (N - 1)%nat then df i * at_ i else n0)
                     + (if Nat.ltb 0 i then df i * ct_ (i - 1)%nat else n0)
                     + (if Nat.eqb i 0 then b0 else n0) + (if Nat.eqb i (N - 1)%nat then b1 else n0)),
              if Nat.eqb i (N - 1)%nat then n0 else - (df i) * ct_ i,
              nthF phi i / dt)) (seq 0 N).
    Definition line_solve (phi : list F) : list F := thomas (line_rows phi).
  End Line.

  (** the precomputed-coefficient kernels: a, b, c given (b without 1/dt), r = phi/dt *)
  Definition precalc_rows (a b c : list F) (dt : F) (phi : list F) : list (@row F) :=
    map (fun i => (nthF a i, nthF b i + n1 / dt, nthF c i, nthF phi i / dt)) (seq 0 (length phi)).
  Definition precalc_solve (a b c : list F) (dt : F) (phi : list F) : list F := thomas (precalc_rows a b c dt phi).

  (** trapezoid weights; dfactor_i = 1 / w_i *)
  Definition trap_w (xs : list F) (i : nat) : F :=
    let Nn := length xs in
    if Nat.eqb i 0 then dx xs 0 / n2
    else if Nat.eqb i (Nn - 1) then dx xs (Nn - 2) / n2
    else (dx xs i + dx xs (i - 1)) / n2.
  Definition trapz (xs ys : list F) : F := nsum (map (fun i => trap_w xs i * nthF ys i) (seq 0 (length xs))).

  (** 1-D kernel implicit_1Dx *)
  Definition implicit_1D (xs : list F) (nu gamma h beta dt : F) (use_delj : bool) (phi : list F) : list F :=
    line_solve xs (Vfunc_beta nu beta) (Msel gamma h) nu true true dt use_delj phi.
End Scheme.
