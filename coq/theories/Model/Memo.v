(** C20 — memoisation as a state machine (executable definitions only, no proofs).

    The dadi caches are module-level dictionaries used as

        if key(args) not in cache: cache[key(args)] = f(args)
        return cache[key(args)]

    [step] is that code; a history is a list of calls, threaded through [run].
    The dadi caches themselves are instances of the generic machine, described by
    the record of what a call is, which part of it is the key and what is computed
    (special functions are oracles: Section variables). *)
From Coq Require Import List ZArith Bool Arith.
Import ListNotations.

Section Memo.
  Variables call K result : Type.
  Variable key : call -> K.
  Variable K_eq_dec : forall a b : K, {a = b} + {a <> b}.
  Variable f : call -> result.

  Definition cache := list (K * result).

  Fixpoint lookup (k : K) (c : cache) : option result :=
    match c with
    | [] => None
    | (k', r) :: c' => if K_eq_dec k k' then Some r else lookup k c'
    end.

  (** one call through the dictionary *)
  Definition step (c : cache) (x : call) : cache * result :=
    match lookup (key x) c with
    | Some r => (c, r)
    | None => ((key x, f x) :: c, f x)
    end.

  (** a history: calls in order, the cache threaded through *)
  Fixpoint run (c : cache) (h : list call) : cache * list result :=
    match h with
    | [] => (c, [])
    | x :: h' => let (c1, r) := step c x in
                 let (c2, rs) := run c1 h' in (c2, r :: rs)
    end.

  Definition results (h : list call) : list result := snd (run [] h).
  Definition keys_of (c : cache) : list K := map fst c.

  (** the invariant every proof uses: whatever is stored under a key is [f] of every call with that key *)
  Definition cache_ok (c : cache) : Prop :=
    forall x r, lookup (key x) c = Some r -> r = f x.

  Definition key_complete : Prop := forall c1 c2, key c1 = key c2 -> f c1 = f c2.
End Memo.

Arguments lookup {K result} K_eq_dec k c.
Arguments step {call K result} key K_eq_dec f c x.
Arguments run {call K result} key K_eq_dec f c h.
Arguments results {call K result} key K_eq_dec f h.
Arguments keys_of {K result} c.
Arguments cache_ok {call K result} key K_eq_dec f c.
Arguments key_complete {call K result} key f.

(* ------------------------------------------------------------------------------------------ *)
(** ** Module-level SETTINGS read by a memoised function.

    A dadi function may read, besides its arguments, a module-level variable ([dadi.Integration.timescale_factor],
    [use_delj_trick], ...) that the user re-binds between calls by plain attribute assignment - the documented way.
    For the purpose of [key_complete] such a setting IS PART OF THE CALL: a call is
    (value of the setting when the call is made, arguments), and [st_f] - the body of the function - reads both.
    [st_key_args] is the key of a memo that keeps the arguments only ([functools.lru_cache] on a function whose body
    reads the global); [st_key_full] keeps the setting as well. *)
Section SettingMemo.
  Variables S A KA result : Type.
  Variable akey : A -> KA.                       (* what the key keeps of the arguments *)
  Variable g : S -> A -> result.                 (* the body: reads the setting and the arguments *)
  Definition st_call := (S * A)%type.
  Definition st_f (c : st_call) : result := g (fst c) (snd c).
  Definition st_key_args (c : st_call) : KA := akey (snd c).
  Definition st_key_full (c : st_call) : S * KA := (fst c, akey (snd c)).

  (** a user program: the setting is changed by plain assignment ([Assign]: the memo is left as it is) or through a setter
      that also empties the memo ([Setter]: [Integration.set_timescale_factor] after the memo was added); [Call]s go through
      a memo keyed on the arguments *)
  Inductive st_event := Assign (s : S) | Setter (s : S) | Call (a : A).
  Variable KA_dec : forall a b : KA, {a = b} + {a <> b}.
  Fixpoint st_prun (s : S) (c : cache KA result) (p : list st_event) : list result :=
    match p with
    | [] => []
    | Assign s' :: p' => st_prun s' c p'
    | Setter s' :: p' => st_prun s' [] p'
    | Call a :: p' => let (c1, r) := step akey KA_dec (g s) c a in r :: st_prun s c1 p'
    end.
  (** what each call returns in a pristine interpreter that had the setting of that moment from the start *)
  Fixpoint st_pspec (s : S) (p : list st_event) : list result :=
    match p with
    | [] => []
    | Assign s' :: p' => st_pspec s' p'
    | Setter s' :: p' => st_pspec s' p'
    | Call a :: p' => g s a :: st_pspec s p'
    end.
  Fixpoint st_no_assign (p : list st_event) : bool :=
    match p with [] => true | Assign _ :: _ => false | _ :: p' => st_no_assign p' end.
End SettingMemo.

Arguments st_f {S A result} g c.
Arguments st_key_args {S A KA} akey c.
Arguments st_key_full {S A KA} akey c.
Arguments Assign {S A} s.
Arguments Setter {S A} s.
Arguments Call {S A} a.
Arguments st_prun {S A KA result} akey g KA_dec s c p.
Arguments st_pspec {S A result} g s p.
Arguments st_no_assign {S A} p.

(* ------------------------------------------------------------------------------------------ *)
(** ** The instance used by the correspondence check: calls, keys and values are numbered.

    The harness logs every entry into a memoised dadi function as (key number, number of the value a
    cache-free evaluation gives); the machine below predicts what the dictionary returns and which keys
    it holds afterwards. *)
Definition ncall := (N * N)%type.                (* (key id, id of f(call)) *)
Definition nstep := step (call := ncall) fst N.eq_dec snd.
Definition nrun := run (call := ncall) fst N.eq_dec snd.

(* ------------------------------------------------------------------------------------------ *)
(** ** The dadi caches: what a call is, what the key keeps, what is computed. *)

Definition list_eq_decZ : forall a b : list Z, {a = b} + {a <> b} := list_eq_dec Z.eq_dec.

Section DadiCaches.
  Variable V : Type.                             (* numbers *)
  (** oracles for what lies outside the modelled code (scipy.special) *)
  Variable gammaln : Z -> V.
  Variable betaln : V -> V -> V.
  Variable lncomb : Z -> Z -> V.
  Variable betainc : Z -> Z -> V -> V.           (* betainc(a, b, x) *)
  Variables (vadd vsub : V -> V -> V) (vexp : V -> V) (vofZ : Z -> V) (v0 : V).
  Variable clip01 : V -> V.                      (* numpy.minimum(numpy.maximum(x, 0), 1.0) *)

  (** Numerics._multinomln_cache :  multinomln(N), key tuple(N) *)
  Definition multinomln_call := list Z.
  Definition multinomln_key (N : multinomln_call) : list Z := N.
  Definition multinomln_f (N : multinomln_call) : V :=
    fold_left (fun res n => vsub res (gammaln (n + 1))) N (gammaln (fold_left Z.add N 0%Z + 1)).

  (** Numerics._BetaBinomln_cache :  BetaBinomln(i,n,a,b), key (i,n,a,b) *)
  Record bb_call := { bb_i : Z; bb_n : Z; bb_a : V; bb_b : V }.
  Definition bb_key (c : bb_call) : Z * Z * V * V := (bb_i c, bb_n c, bb_a c, bb_b c).
  Definition bb_f (c : bb_call) : V :=
    vsub (vadd (lncomb (bb_n c) (bb_i c))
               (betaln (vadd (vofZ (bb_i c)) (bb_a c)) (vadd (vofZ (bb_n c - bb_i c)) (bb_b c))))
         (betaln (bb_a c) (bb_b c)).

  (** Numerics._part_cache :  cached_part(x,n,minval,maxval), key (x,n,minval,maxval);
      value list(part(x,n,minval,maxval)), the non-decreasing sequences of n entries in minval..maxval summing to x *)
  Record part_call := { pc_x : Z; pc_n : nat; pc_min : Z; pc_max : Z }.
  Definition part_key (c : part_call) : Z * nat * Z * Z := (pc_x c, pc_n c, pc_min c, pc_max c).
  Fixpoint zrange (lo : Z) (cnt : nat) : list Z :=
    match cnt with O => [] | S k => lo :: zrange (lo + 1) k end.
  Fixpoint part (x : Z) (n : nat) (minval maxval : Z) : list (list Z) :=
    if negb ((Z.of_nat n * minval <=? x)%Z && (x <=? Z.of_nat n * maxval)%Z) then []
    else match n with
         | O => [[]]
         | S n' => flat_map (fun val => map (cons val) (part (x - val) n' val maxval))
                            (zrange minval (Z.to_nat (maxval + 1 - minval)))
         end.
  Definition part_f (c : part_call) : list (list Z) := part (pc_x c) (pc_n c) (pc_min c) (pc_max c).

  (** Numerics._part_precalc_cache : cached_part_precalc, same key; value (counts, multinomln(counts)) per partition,
      computed THROUGH the two caches above (both transparent) *)
  Definition count_val (p : list Z) (v : Z) : Z := Z.of_nat (length (filter (Z.eqb v) p)).
  Definition part_precalc_f (c : part_call) : list (list Z) * list V :=
    let counts := map (fun p => map (count_val p) (zrange (pc_min c) (Z.to_nat (pc_max c + 1 - pc_min c)))) (part_f c) in
    (counts, map multinomln_f counts).

  (** Numerics._projection_cache : _cached_projection(proj_to, proj_from, hits), key the triple *)
  Record proj_call := { pj_to : Z; pj_from : Z; pj_hits : Z }.
  Definition proj_key (c : proj_call) : Z * Z * Z := (pj_to c, pj_from c, pj_hits c).
  Definition proj_f (c : proj_call) : list V :=
    if (pj_from c <? pj_to c)%Z then map (fun _ => v0) (zrange 0 (Z.to_nat (pj_to c + 1)))
    else map (fun ph => vexp (vsub (vadd (lncomb (pj_to c) ph) (lncomb (pj_from c - pj_to c) (pj_hits c - ph)))
                                   (lncomb (pj_from c) (pj_hits c))))
             (zrange 0 (Z.to_nat (pj_to c + 1))).

  (** Spectrum_mod._dbeta_cache : cached_dbeta(nx, xx).  The key is built from the grid AS PASSED; the value is
      computed from the grid clipped to [0,1] - a function of the key all the same. *)
  Record dbeta_call := { db_nx : Z; db_xx : list V }.
  Definition dbeta_key (c : dbeta_call) : Z * list V := (db_nx c, db_xx c).
  Fixpoint diffs (sub : V -> V -> V) (l : list V) : list V :=
    match l with
    | a :: ((b :: _) as t) => sub b a :: diffs sub t
    | _ => []
    end.
  Definition dbeta_f (c : dbeta_call) : list (list V) * list (list V) :=
    let xc := map clip01 (db_xx c) in
    let rows := zrange 0 (Z.to_nat (db_nx c + 1)) in
    (map (fun ii => diffs vsub (map (betainc (ii + 1) (db_nx c - ii + 1)) xc)) rows,
     map (fun ii => diffs vsub (map (betainc (ii + 2) (db_nx c - ii + 1)) xc)) rows).

  (** LowPass.make_low_pass_func_GATK_multisample: precalc_cache lives in the closure; key tuple(nsub), where nsub
      (like nseq, cov_dist, sim_threshold, Fx, nsim that the value is computed from) is fixed when the closure is made.
      A call of the closure carries the model arguments only. *)
  Section LowPassClosure.
    Variable Env Args Precalc : Type.
    Variable env : Env.
    Variable env_nsub : Env -> list Z.
    Variable precalc : Env -> Precalc.
    Definition lp_key (_ : Args) : list Z := env_nsub env.
    Definition lp_f (_ : Args) : Precalc := precalc env.
  End LowPassClosure.
End DadiCaches.

(* ------------------------------------------------------------------------------------------ *)
(** ** A dictionary SHARED by all the functions a maker generates.

    [make_low_pass_func_GATK_multisample(func, cov_dist, pop_ids, nseq, nsub, sim_threshold, Fx, nsim)] returns a
    closure.  While the dictionary is a local of the maker (section LowPassClosure above) every generated function has
    its own; if it is hoisted to module level, ALL generated functions share it and a call must be identified by the
    environment its function closes over as well: the key expression then has to keep everything of that environment
    the stored value is computed from.  [kproj] is what the key expression keeps. *)
Section SharedClosureCache.
  Variables Env Args KeyT Precalc : Type.
  Variable kproj : Env -> KeyT.
  Variable precalc : Env -> Precalc.
  Definition sh_call := (Env * Args)%type.       (* the environment of the generated function, its own arguments *)
  Definition sh_key (c : sh_call) : KeyT := kproj (fst c).
  Definition sh_f (c : sh_call) : Precalc := precalc (fst c).
End SharedClosureCache.

Arguments sh_key {Env Args KeyT} kproj c.
Arguments sh_f {Env Args Precalc} precalc c.

(** the low-pass environment.  cov_dist is a dict  population name -> depth-of-coverage distribution; numbers are
    abstract (Z stands for the float's bit pattern) *)
Record lp_env := { le_cov : list (nat * list Z); le_nseq : list Z; le_nsub : list Z; le_Fx : list Z; le_thr : Z; le_nsim : Z }.

(** a key that keeps the whole environment ... *)
Definition lp_key_full (e : lp_env) : list (nat * list Z) * list Z * list Z * list Z * Z * Z :=
  (le_cov e, le_nseq e, le_nsub e, le_Fx e, le_thr e, le_nsim e).
(** ... and one written [tuple(cov_dist)]: iterating a dict yields its KEYS, the distributions are dropped *)
Definition lp_key_names (e : lp_env) : list nat * list Z * list Z * list Z * Z * Z :=
  (map fst (le_cov e), le_nseq e, le_nsub e, le_Fx e, le_thr e, le_nsim e).

(* ------------------------------------------------------------------------------------------ *)
(** ** Godambe.cache: the key contains func_ex.__hash__(), the ADDRESS of the function object.

    Every top-level call (GIM_uncert / FIM_uncert with multinom=True, LRT_adjust always) creates a new closure,
    evaluates it at a list of parameter points through the cache and drops the closure on return.  Function
    objects are modelled by what they compute ([g_code], an index into [sem]); the allocator hands out addresses
    and - like CPython's - reuses freed ones (LIFO) unless [reuse = false], which models a key that holds a
    reference to the function object (the object is then never freed while its entries exist). *)
Section Godambe.
  Variable result : Type.
  Variable sem : nat -> list Z -> result.        (* what function object number c returns at params p *)

  Record gcall := { g_code : nat; g_points : list (list Z) }.
  Record alloc_state := { a_free : list nat; a_next : nat }.
  Definition a_init := {| a_free := []; a_next := 0 |}.

  Definition alloc (reuse : bool) (s : alloc_state) : nat * alloc_state :=
    match reuse, a_free s with
    | true, a :: fl => (a, {| a_free := fl; a_next := a_next s |})
    | _, _ => (a_next s, {| a_free := a_free s; a_next := S (a_next s) |})
    end.
  Definition release (reuse : bool) (a : nat) (s : alloc_state) : alloc_state :=
    if reuse then {| a_free := a :: a_free s; a_next := a_next s |} else s.

  Definition gkey_dec : forall a b : nat * list Z, {a = b} + {a <> b}.
  Proof. decide equality; [apply list_eq_decZ | apply Nat.eq_dec]. Defined.

  Definition gcache := cache (nat * list Z) result.

  (** one top-level Godambe call *)
  Definition gstep (reuse : bool) (st : gcache * alloc_state) (c : gcall) : (gcache * alloc_state) * list result :=
    let (a, s1) := alloc reuse (snd st) in
    let (c1, rs) := run (fun p => (a, p)) gkey_dec (sem (g_code c)) (fst st) (g_points c) in
    ((c1, release reuse a s1), rs).

  Fixpoint grun (reuse : bool) (st : gcache * alloc_state) (h : list gcall) : (gcache * alloc_state) * list (list result) :=
    match h with
    | [] => (st, [])
    | c :: h' => let (st1, r) := gstep reuse st c in
                 let (st2, rs) := grun reuse st1 h' in (st2, r :: rs)
    end.

  Definition gresults (reuse : bool) (h : list gcall) : list (list result) := snd (grun reuse ([], a_init) h).
  Definition gspec (c : gcall) : list result := map (sem (g_code c)) (g_points c).
End Godambe.

Arguments gresults {result} sem reuse h.
Arguments gspec {result} sem c.
Arguments grun {result} sem reuse st h.
Arguments gstep {result} sem reuse st c.
