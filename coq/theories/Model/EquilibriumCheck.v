(** Comparison functions used by the generated C01 case files.  The Num-polymorphic models are run on the
    [NumDF] instance (Model/DFast.v: NumD's 128-bit software floating point with exact comparisons and unbounded
    exponent, plus a fast exponential on machine-word big integers). *)
From Coq Require Import ZArith QArith Qabs List Bool.
From Bignums Require Import BigZ.
From Dadi Require Import Base.Num Base.NumQ Base.NumD Model.DFast Model.Equilibrium Model.Coalescent.
From Dadi Require Model.Tridiag Model.Scheme Model.NDSweep.
Import ListNotations.

Definition z2D := map ZZ2D.
Definition Dtiny : D := mkD 1%bigZ (-1000)%bigZ.           (* 2^-1000 ~ 1e-301: below it float64 is denormal *)
(** max_i |m_i - v_i| / (|m_i| + floor) *)
Fixpoint Dmaxrel (floor : D) (m v : list D) : D :=
  match m, v with
  | [], [] => mkD 0 0
  | a :: m', b :: v' => let e := Ddiv (Dabs (Dsub a b)) (Dadd (Dabs a) floor) in
                        let r := Dmaxrel floor m' v' in if Dleb r e then e else r
  | _, _ => mkD 1%bigZ 100%bigZ
  end.
(** floor (x * 10^9) *)
Definition Dppb (x : D) : Z := let q := D2Q (Dmul x (DofZ 1000000000)) in (Qnum q / Zpos (Qden q))%Z.

(** ** density correspondence: PhiManip.phi_1D against Model.Equilibrium.phi_1D with the Gauss-Legendre oracle *)
Record dens_case := { dn_ovf : Q; dn_xs : list (Z * Z); dn_nu : Q; dn_theta0 : Q; dn_gamma : Q; dn_h : Q; dn_beta : Q;
                      dn_impl : list (Z * Z) }.
Definition dens_model (K sub : nat) (c : dens_case) : list D :=
  @phi_1D D NumDF (Q2D (dn_ovf c)) (@quad_geom D NumDF K sub) (z2D (dn_xs c)) (Q2D (dn_nu c)) (Q2D (dn_theta0 c)) (Q2D (dn_gamma c)) (Q2D (dn_h c)) (Q2D (dn_beta c)).
Definition dens_check (K sub : nat) (tol : Q) (c : dens_case) : bool * Z :=
  let m := dens_model K sub c in
  let e := Dmaxrel Dtiny m (z2D (dn_impl c)) in
  (Dleb e (Q2D tol) && Nat.eqb (length m) (length (dn_impl c)), Dlog2 e).

(** ** spectra against the coalescent oracle.  Epoch = (is_exponential, nu_recent, nu_old, T), most recent first. *)
Record hist_case := { hc_n : nat; hc_eps : list (bool * Q * Q * Q); hc_theta : Q; hc_fs3 : list (Z * Z); hc_fs4 : list (Z * Z) }.
Definition to_epoch (e : bool * Q * Q * Q) : @epoch D :=
  let '(ex, a, b, t) := e in if ex then EExp (Q2D a) (Q2D b) (Q2D t) else EConst (Q2D a) (Q2D t).
Definition hist_oracle (c : hist_case) : list D :=
  @coal_sfs_all D NumDF (@quad_geom D NumDF 24 2) (Q2D (hc_theta c)) (map to_epoch (hc_eps c)) (mkD 1 0) (hc_n c).
(** (max rel. error of the run at timescale_factor 1e-3, of the run at 1e-4), in units of 1e-9 *)
Definition hist_check (c : hist_case) : Z * Z :=
  let o := hist_oracle c in
  (Dppb (Dmaxrel Dtiny o (z2D (hc_fs3 c))), Dppb (Dmaxrel Dtiny o (z2D (hc_fs4 c)))).

(** ** the same with a mutation rate that changes from epoch to epoch: epoch = (is_exponential, nu_recent, nu_old, T, theta),
    most recent first; [ht_thA] is the theta of the ancestral (infinite) epoch of relative size 1. *)
Record hist_th_case := { ht_n : nat; ht_eps : list (bool * Q * Q * Q * Q); ht_thA : Q; ht_fs3 : list (Z * Z); ht_fs4 : list (Z * Z) }.
Definition to_epoch_th (e : bool * Q * Q * Q * Q) : D * @epoch D := (Q2D (snd e), to_epoch (fst e)).
Definition hist_th_oracle (c : hist_th_case) : list D :=
  @coal_sfs_all_th D NumDF (@quad_geom D NumDF 24 2) (map to_epoch_th (ht_eps c)) (mkD 1 0) (Q2D (ht_thA c)) (ht_n c).
Definition hist_th_check (c : hist_th_case) : Z * Z :=
  let o := hist_th_oracle c in
  (Dppb (Dmaxrel Dtiny o (z2D (ht_fs3 c))), Dppb (Dmaxrel Dtiny o (z2D (ht_fs4 c)))).
(** cross-check of the two oracles where they must coincide (all thetas equal): max rel. difference in units of 1e-9 *)
Definition hist_th_uniform_gap (n : nat) (eps : list (bool * Q * Q * Q)) (theta : Q) : Z :=
  let a := @coal_sfs_all D NumDF (@quad_geom D NumDF 24 2) (Q2D theta) (map to_epoch eps) (mkD 1 0) n in
  let b := hist_th_oracle {| ht_n := n; ht_eps := map (fun e => (e, theta)) eps; ht_thA := theta; ht_fs3 := []; ht_fs4 := [] |} in
  Dppb (Dmaxrel Dtiny a b).

(** ** spectra against the closed-form selection equilibrium (effective coefficient g, scale theta) *)
Record sel_case := { sc_n : nat; sc_theta : Q; sc_g : Q; sc_terms : nat; sc_fs3 : list (Z * Z); sc_fs4 : list (Z * Z) }.
Definition sel_oracle (c : sel_case) : list D :=
  map (fun i => Q2D (sel_equil_sfs Qexp (sc_theta c) (sc_g c) (sc_n c) i (sc_terms c))) (seq 1 (sc_n c - 1)).
Definition sel_check (c : sel_case) : Z * Z :=
  let o := sel_oracle c in
  (Dppb (Dmaxrel Dtiny o (z2D (sc_fs3 c))), Dppb (Dmaxrel Dtiny o (z2D (sc_fs4 c)))).

(** ** Integration.one_pop with every argument of its signature against the drivers of Model/NDSweep.v STARTED AT TIME t0
    (= initial_t): each of nu, gamma, h, beta, theta0 is  value + slope * t  (absolute time t; slope 0 for numbers and
    constant functions), [o1_tdep] = at least one argument is a function (the time-dependent driver: time step from the
    parameters at the current time, the step itself with the parameters at the next time), [o1_frozen] = frozen=True
    (no mutation influx, no sweep).  Run on the NumD instance, compared entrywise relative to the largest entry. *)
Record onepop_case := { o1_n : nat; o1_grid : list Q; o1_par : list (Q * Q) (* nu, gamma, h, beta, theta0 *);
                        o1_frozen : bool; o1_tdep : bool; o1_tf : Q; o1_t0 : Q; o1_T : Q;
                        o1_phi : list (Z * Z); o1_impl : list (Z * Z) }.
Definition o1_at (c : onepop_case) (k : nat) (t : D) : D :=
  let p := nth k (o1_par c) (0, 0)%Q in Dadd (Q2D (fst p)) (Dmul (Q2D (snd p)) t).
Definition o1_pop (c : onepop_case) (t : D) : @NDSweep.pop D :=
  {| NDSweep.p_nu := o1_at c 0 t; NDSweep.p_gamma := o1_at c 1 t; NDSweep.p_h := o1_at c 2 t; NDSweep.p_beta := o1_at c 3 t;
     NDSweep.p_ms := []; NDSweep.p_frozen := o1_frozen c; NDSweep.p_nomut := false |}.
Definition onepop_model (c : onepop_case) : option (list D) :=
  let grids := [map Q2D (o1_grid c)] in
  let t0 := Q2D (o1_t0 c) in
  if o1_tdep c then
    @NDSweep.integrate_tdep D NumD 5000 [o1_n c] grids (fun t => [o1_pop c t]) (fun t => o1_at c 4 t) (Q2D (o1_tf c)) false
                            t0 (Q2D (o1_T c)) (z2D (o1_phi c))
  else
    @NDSweep.integrate_const D NumD 5000 [o1_n c] grids [o1_pop c t0] (o1_at c 4 t0) (Q2D (o1_tf c)) false
                             t0 (Q2D (o1_T c)) (z2D (o1_phi c)).
Definition onepop_check (tol : Q) (c : onepop_case) : bool * Z :=
  match onepop_model c with
  | Some m => Dlists_close tol m (z2D (o1_impl c))
  | None => (false, 1%Z)
  end.
