(** Comparison functions used by the C05 correspondence files.
    Inputs arrive as exact float64 values ((mantissa, exponent) pairs); the Num-polymorphic model of
    Model/FromPhi.v is run on the [NumD] instance (128-bit software floating point, exact comparisons;
    the tail polynomials of degree 42 at 53-bit grid points would have 2000-digit rationals) and compared
    with the implementation's values inside Coq.  The beta-binomial convolution is also run over exact
    rationals, where the partition form of the code and the polynomial-power form of the theorems must
    agree exactly. *)
From Coq Require Import ZArith QArith Qabs List Bool.
From Dadi Require Import Base.Num Base.NumQ Base.NumD Model.FromPhi.
Import ListNotations.

Definition z2D := map ZZ2D.
Definition zz2D := map z2D.

Fixpoint keep {A} (mask : list bool) (l : list A) : list A :=      (* drop masked entries *)
  match mask, l with
  | m :: mt, x :: t => if m then keep mt t else x :: keep mt t
  | [], _ => l
  | _, [] => []
  end.

Definition cmp (tol : Q) (mask : list bool) (model : option (list D)) (impl : option (list (Z * Z))) : bool * Z :=
  match model, impl with
  | Some m, Some i => if Nat.eqb (length m) (length i) then Dlists_close tol (keep mask m) (keep mask (z2D i))
                      else (false, 2%Z)
  | None, None => (true, (-10000)%Z)
  | _, _ => (false, 1%Z)
  end.

(** Spectrum.from_phi *)
Record fcase := { fc_shape : list nat; fc_ns : list nat; fc_xxs : list (list (Z * Z));
                  fc_admix : option (list (list (Z * Z))); fc_het : option nat; fc_force : bool;
                  fc_phi : list (Z * Z); fc_mask : list bool; fc_impl : option (list (Z * Z)) }.
Definition fopts (c : fcase) : @opts D :=
  {| o_admix := option_map zz2D (fc_admix c); o_het := fc_het c; o_force := fc_force c |}.
Definition fmodel (c : fcase) : option (list D) :=
  from_phi (fopts c) (fc_ns c) (zz2D (fc_xxs c)) (fc_shape c) (z2D (fc_phi c)).
Definition fcheck (tol : Q) (c : fcase) : bool * Z := cmp tol (fc_mask c) (fmodel c) (fc_impl c).

(** a private _from_phi_* function called directly (paths the dispatcher cannot reach, e.g. het_ascertained='aa'):
    kind 0 = direct with ascertained axis, 1 = linalg, 2 = admix_props *)
Record pcase := { pc_kind : nat; pc_shape : list nat; pc_ns : list nat; pc_xxs : list (list (Z * Z));
                  pc_admix : list (list (Z * Z)); pc_het : option nat;
                  pc_phi : list (Z * Z); pc_mask : list bool; pc_impl : option (list (Z * Z)) }.
Definition pmodel (c : pcase) : option (list D) :=
  let xxs := zz2D (pc_xxs c) in
  match pc_kind c with
  | 0%nat => Some (nd (direct_ops (pc_het c) (pc_ns c) xxs) (pc_shape c) (z2D (pc_phi c)))
  | 1%nat => Some (nd (linalg_ops (pc_ns c) xxs) (pc_shape c) (z2D (pc_phi c)))
  | _ => Some (admix_nd (zz2D (pc_admix c)) (pc_ns c) xxs (pc_shape c) (z2D (pc_phi c)))
  end.
Definition pcheck (tol : Q) (c : pcase) : bool * Z := cmp tol (pc_mask c) (pmodel c) (pc_impl c).

(** Spectrum.from_phi_inbreeding *)
Record icase := { ic_shape : list nat; ic_ns : list nat; ic_xxs : list (list (Z * Z));
                  ic_admix : option (list (list (Z * Z))); ic_het : option nat; ic_force : bool;
                  ic_Fs : list (Z * Z); ic_ploidys : list nat;
                  ic_phi : list (Z * Z); ic_mask : list bool; ic_impl : option (list (Z * Z)) }.
Definition imodel (c : icase) : option (list D) :=
  from_phi_inbreeding {| o_admix := option_map zz2D (ic_admix c); o_het := ic_het c; o_force := ic_force c |}
                      (ic_ns c) (zz2D (ic_xxs c)) (z2D (ic_Fs c)) (ic_ploidys c) (ic_shape c) (z2D (ic_phi c)).
Definition icheck (tol : Q) (c : icase) : bool * Z := cmp tol (ic_mask c) (imodel c) (ic_impl c).

(** Numerics.BetaBinomConvolution(i, n, alpha, beta, ploidy) for i = 0..n*ploidy, over exact rationals:
    partition form == power form exactly, both close to the implementation, and the column sums to one *)
Record bcase := { bc_n : nat; bc_p : nat; bc_a : Q; bc_b : Q; bc_impl : list Q }.
Definition bcheck (tol : Q) (c : bcase) : bool * Z :=
  let is := seq 0 (S (bc_n c * bc_p c)) in
  let mp := map (fun i => bbconv i (bc_n c) (bc_a c) (bc_b c) (bc_p c)) is in
  let mw := map (fun i => bbconv_pow i (bc_n c) (bc_a c) (bc_b c) (bc_p c)) is in
  let same := forallb (fun p => Qeq_bool (fst p) (snd p)) (combine mp mw) in
  let one := Qeq_bool (fold_right Qplus 0 mp) 1 in
  let r := Qlists_close tol mp (bc_impl c) in
  (fst r && same && one, snd r).

(** the same in software floats, for large numbers of individuals (exact rationals get too big):
    partition form and power form both close to the implementation, sum close to one *)
Record bdcase := { bd_n : nat; bd_p : nat; bd_a : Z * Z; bd_b : Z * Z; bd_impl : list (Z * Z) }.
Definition bdcheck (tol : Q) (c : bdcase) : bool * Z :=
  let a := ZZ2D (bd_a c) in let b := ZZ2D (bd_b c) in
  let is := seq 0 (S (bd_n c * bd_p c)) in
  let mp := map (fun i => bbconv i (bd_n c) a b (bd_p c)) is in
  let mw := ppow (bb_table (bd_p c) a b) (bd_n c) in
  let r1 := Dlists_close tol mp (z2D (bd_impl c)) in
  let r2 := Dlists_close tol mw (z2D (bd_impl c)) in
  let one := Dlists_close tol [nsum mw] [n1] in
  (fst r1 && fst r2 && fst one, Z.max (snd r1) (snd r2)).
