(** * DFast: the [NumD] software floating point with a fast exponential.
    [Base/NumD.v] routes [nexp] through [Qexp] on Coq's binary [Z] (about 10 ms per call under vm_compute);
    the C01 oracles need ~10^5 exponentials per run, so here exp is computed directly on Bignums [bigZ]
    (machine words): x = k ln2 + r, |r| <= ln2/2, exp(r) = (Taylor_18 (r/64))^64 in 160-bit fixed point,
    result mantissa * 2^k.  Relative error < 2^-120.  Everything else is [NumD]'s arithmetic. *)
From Coq Require Import ZArith QArith List.
From Bignums Require Import BigZ.
From Dadi Require Import Base.Num Base.NumQ Base.NumD.
Local Open Scope bigZ_scope.

Definition fP : bigZ := 160.
Definition ln2B : bigZ := BigZ.of_Z fln2.            (* ln 2 with 160 fractional bits (NumQ.fln2) *)
Definition shiftB (a s : bigZ) : bigZ := if BigZ.leb 0 s then BigZ.shiftl a s else BigZ.shiftr a (- s).
Definition fmulB (a b : bigZ) : bigZ := BigZ.shiftr (a * b) fP.
Fixpoint taylorB (n : nat) (k x term acc : bigZ) : bigZ :=
  match n with
  | O => acc
  | S m => let term' := BigZ.div (fmulB term x) k in taylorB m (k + 1) x term' (acc + term')
  end.
Fixpoint squareB (n : nat) (y : bigZ) : bigZ := match n with O => y | S m => squareB m (fmulB y y) end.
Definition Dexp_fast (x : D) : D :=
  if biszero (dm x) then mkD 1 0 else
  (* |x| < 2^-170: exp x = 1 to working precision *)
  if BigZ.ltb (bbits (dm x) + de x) (-170) then mkD 1 0 else
  let xf := shiftB (dm x) (de x + fP) in
  let k := BigZ.div (2 * xf + ln2B) (2 * ln2B) in
  let r := xf - k * ln2B in
  let one := BigZ.shiftl 1 fP in
  let t := squareB 6 (taylorB 18 1 (BigZ.shiftr r 6) one one) in
  Dnorm t (k - fP).

#[global] Instance NumDF : Num D := {
  n0 := mkD 0 0; n1 := mkD 1 0;
  nadd := Dadd; nsub := Dsub; nmul := Dmul; ndiv := Ddiv;
  nopp := Dopp;
  nleb := Dleb; neqb := Deqb;
  nofZ := DofZ;
  nexp := Dexp_fast; nln := fun x => Q2D (Qln (D2Q x))
}.
