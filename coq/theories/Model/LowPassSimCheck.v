(** Q-side comparison functions used by the generated C18 simulation-replay files. *)
From Coq Require Import ZArith QArith Qabs Qreduction Qround List Bool Arith.
From Dadi Require Import Base.Num Base.NumQ Model.LowPass Model.LowPassCheck Model.LowPassSim.
Import ListNotations.
Local Open Scope nat_scope.

Fixpoint lllnat_eqb (a b : list (list (list nat))) : bool :=
  match a, b with
  | [], [] => true
  | x :: a', y :: b' => llnat_eqb x y && lllnat_eqb a' b'
  | _, _ => false
  end.

Fixpoint nodupb (l : list nat) : bool :=
  match l with [] => true | x :: t => negb (existsb (Nat.eqb x) t) && nodupb t end.

(** the hypotheses the model makes about one recorded choice: [k] distinct positions among the called genotypes of its row *)
Definition sel_okb (k : nat) (row sel : list nat) : bool :=
  (length sel =? k) && nodupb sel && forallb (fun i => i <? ncalled row) sel.

Fixpoint all2b {A B} (f : A -> B -> bool) (a : list A) (b : list B) : bool :=
  match a, b with
  | [], [] => true
  | x :: a', y :: b' => f x y && all2b f a' b'
  | _, _ => false
  end.

(** per population: a subsampled population has one valid choice per kept locus (in the order of subsample_genotypes_1D);
    a population that is not subsampled has none *)
Fixpoint sels_okb (i : nat) (pops : list spop) (kept : list (list (list nat))) (sels : list (list (list nat))) : bool :=
  match pops, sels with
  | [], [] => true
  | p :: pops', s :: sels' =>
      (if sp_nsub p =? sp_nseq p then match s with [] => true | _ => false end
       else all2b (sel_okb (sp_nsub p / 2)) (reorder (sp_nseq p / 2) (sp_nsub p / 2) (map (fun c => nth i c []) kept)) s)
      && sels_okb (S i) pops' kept sels'
  | _, _ => false
  end.

(** shapes of the recorded draws: one entry per individual, heterozygote reads a <= depth *)
Definition locus_okb (part : list (list nat)) (loc : list (list indiv)) : bool :=
  all2b (fun pt ds => (length pt =? length ds) && forallb (fun da => snd da <=? fst da) ds) part loc.

Definition pdraw_okb (pops : list spop) (pd : pdraw) : bool :=
  all2b (fun p pt => (length pt =? sp_nseq p / 2) && forallb (fun g => g <=? 2) pt) pops (pd_part pd)
  && forallb (locus_okb (pd_part pd)) (pd_loci pd)
  && sels_okb 0 pops (kept_calls pops pd) (pd_sel pd).

(** one simulate_GATK_multisample_calling call *)
Record scase := { sc_pops : list (nat * nat * Q);     (* n_sequenced, n_subsampling, F *)
                  sc_af : list nat;                    (* the allele counts simulated *)
                  sc_nsim : nat;
                  sc_draws : list pdraw;
                  sc_out : list Q }.

Definition qabsdiff (a b : Q) : Q := Qabs (a - b)%Q.

(** int(number_simulations * partition_probability) with a float probability: floor of the exact product, or its
    neighbour when the exact product is within 1e-6 of an integer *)
Definition count_okb (nsim : nat) (p : Q) (n : nat) : bool :=
  let x := (qnat nsim * p)%Q in
  let eps := (1 # 1000000)%Q in
  Qle_bool (qnat n) (x + eps)%Q && negb (Qle_bool (qnat n) (x - 1 - eps)%Q).

Definition scheck (tol : Q) (c : scase) : bool * Z :=
  let pops := map (fun t => {| sp_nseq := fst (fst t); sp_nsub := snd (fst t) |}) (sc_pops c) in
  let ptss := map (fun ta => parts (fst (fst (fst ta))) (snd ta)) (combine (sc_pops c) (sc_af c)) in
  let prss := map (fun tp => part_probs (snd (fst tp)) (snd tp)) (combine (sc_pops c) ptss) in
  let cparts := tuples ptss in
  let cprobs := map qprod (tuples prss) in
  let parts_ok := lllnat_eqb cparts (map pd_part (sc_draws c)) in
  let counts_ok := all2b (fun p pd => count_okb (sc_nsim c) p (length (pd_loci pd))) cprobs (sc_draws c) in
  let draws_ok := forallb (pdraw_okb pops) (sc_draws c) in
  let mine := simulate pops (sc_draws c) in
  let dd := Qmaxdiff mine (sc_out c) in
  ((length (sc_af c) =? length pops) && parts_ok && counts_ok && draws_ok
   && (length mine =? length (sc_out c)) && Qle_bool dd tol, Qlog2 dd).

(** one subsample_genotypes_1D call on a constructed matrix of genotype calls *)
Record ucase := { uc_N : nat; uc_nsub : nat; uc_rows : list (list nat); uc_sels : list (list nat); uc_out : list (list nat) }.

Definition ucheck (c : ucase) : bool * Z :=
  let k := uc_nsub c / 2 in
  let ok := all2b (sel_okb k) (reorder (uc_N c) k (uc_rows c)) (uc_sels c)
            && llnat_eqb (subsample_1D (uc_N c) k (uc_rows c) (uc_sels c)) (uc_out c) in
  (ok, (-10000)%Z).
