(** * Equilibrium: the one-population equilibrium density of dadi/PhiManip.py
    ([phi_1D], [phi_1D_genic], [phi_1D_snm], lines 12-195).  Executable model only, no proofs.

    Branch structure, guards and index conventions are copied from the source:
      - [phi_1D]       : h == 0.5 dispatches to the genic closed form, otherwise the quadrature form;
      - [phi_1D_genic] : gamma == 0 dispatches to the neutral density; gamma is rescaled by nu * 4 beta/(beta+1)^2;
                         interior formula switches at (rescaled) gamma > -300; phi[0] = phi[1] when xx[0] == 0;
                         the x = 1 limit switches at gamma < 300;
      - general h      : Qadjust = -2 gamma when gamma < 0 and exp(-2 gamma) overflows (threshold [ovf], a float-only
                         phenomenon carried as an explicit comparison), numerator integral with the prefactor outside
                         (gamma < 0) or inside (gamma >= 0), phi[1:-1] /= x(1-x), phi[0] = phi[1] (unconditional),
                         phi[-1] = 1/int0 or min(phi[-1], phi[-2]).
    The effective selection coefficient is gamma * nu * 4 beta/(beta+1)^2 (the source multiplies by nu since the
    repair "equilibrium density phi_1D uses the effective selection coefficient gamma*nu"; the pre-repair form,
    without the factor nu, is kept as [phi_1D_prefix] only to state what was wrong with it).

    The quadrature ([scipy.integrate.quad]) is an oracle slot: [quad f a b].  On R it is instantiated by the Riemann
    integral (hypothesis of the theorems); on the executable side by [quad_geom] below (composite 12-point
    Gauss-Legendre on panels refined geometrically toward both end points). *)
From Coq Require Import ZArith List Bool.
From Dadi Require Import Base.Num.
Import ListNotations.
Local Open Scope bool_scope.
Local Open Scope num_scope.

Section Equilibrium.
  Context {F : Type} `{Num F}.

  Definition nfour : F := n2 * n2.
  (** 4 beta / (beta+1)^2 *)
  Definition bfac (beta : F) : F := nfour * beta / ((beta + n1) * (beta + n1)).

  (** list surgery used by the source: phi[0] = phi[1];  phi[-1] = v *)
  Definition copy1to0 (l : list F) : list F := match l with _ :: b :: t => b :: b :: t | _ => l end.
  Definition set_last (l : list F) (v : F) : list F := match l with [] => [] | _ => removelast l ++ [v] end.
  Definition middle (l : list F) : list F := removelast (tl l).
  Definition lastF (l : list F) : F := last l n0.
  Definition headF (l : list F) : F := hd n0 l.

  (** ** neutral *)
  Definition snm_pt (nu theta0 x : F) : F := nu * theta0 / x.
  Definition phi_snm (xs : list F) (nu theta0 beta : F) : list F :=
    let raw := if (headF xs =? n0) && negb (Nat.eqb (length xs) 0)
               then copy1to0 (n0 :: map (snm_pt nu theta0) (tl xs))
               else map (snm_pt nu theta0) xs in
    map (fun p => p * bfac beta) raw.

  (** ** genic (h = 1/2); [g] is the rescaled gamma, non-zero *)
  Definition thr300 : F := nofZ 300.
  Definition genic_pt (g x : F) : F :=
    if (- thr300) <? g
    then n1 / (x * (n1 - x)) * (n1 - nexp (- (n2 * g) * (n1 - x))) / (n1 - nexp (- (n2 * g)))
    else n1 / (x * (n1 - x)) * nexp (n2 * g * x).
  Definition genic_limit (g : F) : F :=
    if g <? thr300 then n2 * g * nexp (n2 * g) / (nexp (n2 * g) - n1) else n2 * g.
  Definition phi_genic (xs : list F) (nu theta0 gamma beta : F) : list F :=
    if gamma =? n0 then phi_snm xs nu theta0 beta else
    let g := gamma * nu * bfac beta in
    let raw := if (headF xs =? n0) && (lastF xs =? n1) && Nat.leb 2 (length xs)
               then n0 :: map (genic_pt g) (middle xs) ++ [n0]
               else map (genic_pt g) xs in
    let raw := if headF xs =? n0 then copy1to0 raw else raw in
    let raw := if lastF xs =? n1 then set_last raw (genic_limit g) else raw in
    map (fun p => p * nu * theta0 * bfac beta) raw.

  (** ** general dominance *)
  Variable ovf : F.                             (* threshold of the overflow guard: Qadjust is used iff -2 gamma > ovf *)
  Variable quad : (F -> F) -> F -> F -> F.      (* oracle: quad f a b = integral of f over [a,b] *)

  (** the source's guard [numpy.isinf(numpy.exp(-2*gamma))] is the comparison -2 gamma > ln(DBL_MAX) = 709.782712893384:
      a float-only phenomenon, carried as an explicit threshold (the harness reads the guard off the current source) *)
  Definition ovf_float64 : F := nofZ 709782712893384 / nofZ 1000000000000.
  Definition Qf (g h x : F) : F := nfour * g * h * x + n2 * g * (n1 - n2 * h) * (x * x).
  Definition qadjust (g : F) : F := if (g <? n0) && (ovf <? - (n2 * g)) then - (n2 * g) else n0.
  (** exp(-Q(xi) - Qadjust) *)
  Definition integrand_adj (g h qa xi : F) : F := nexp (- (nfour * g * h * xi) - n2 * g * (n1 - n2 * h) * (xi * xi) - qa).
  (** prefactor pulled inside: exp(-(Q(xi) - Q(q))) *)
  Definition integrand_in (g h q xi : F) : F :=
    nexp (- (nfour * g * h * (xi - q)) - n2 * g * (n1 - n2 * h) * (xi * xi - q * q)).
  (** numerator: value of phi before the 1/(x(1-x)) factor *)
  Definition general_raw (g h int0 x : F) : F :=
    if g <? n0 then nexp (Qf g h x) * quad (integrand_adj g h (qadjust g)) x n1 / int0
    else quad (integrand_in g h x) x n1 / int0.
  Definition general_int0 (g h : F) : F := quad (integrand_adj g h (qadjust g)) n0 n1.
  (** phi[1:-1] *= 1/(x(1-x)) *)
  Fixpoint scale_mid_aux (xs raw : list F) : list F :=
    match xs, raw with
    | x :: xt, r :: rt => match xt with
                          | [] => [r]                                   (* last entry untouched *)
                          | _ => r * (n1 / (x * (n1 - x))) :: scale_mid_aux xt rt
                          end
    | _, _ => raw
    end.
  Definition scale_mid (xs raw : list F) : list F :=
    match xs, raw with
    | _ :: xt, r :: rt => r :: scale_mid_aux xt rt                       (* first entry untouched *)
    | _, _ => raw
    end.
  Definition second_last (l : list F) : F := lastF (removelast l).
  Definition phi_general (xs : list F) (nu theta0 gamma h beta : F) : list F :=
    let g := gamma * nu * bfac beta in
    let int0 := general_int0 g h in
    let raw := scale_mid xs (map (general_raw g h int0) xs) in
    let raw := copy1to0 raw in
    let raw := if qadjust g =? n0 then set_last raw (n1 / int0)
               else set_last raw (nmin (lastF raw) (second_last raw)) in
    map (fun p => p * nu * theta0 * bfac beta) raw.

  Definition phi_1D (xs : list F) (nu theta0 gamma h beta : F) : list F :=
    if h =? nhalf then phi_genic xs nu theta0 gamma beta else phi_general xs nu theta0 gamma h beta.

  (** ** the pre-repair form (selection strength gamma, not gamma*nu), expressed through the current one:
      old phi_1D(nu, theta0, gamma) = current phi_1D(1, nu*theta0, gamma).  Not stationary for nu <> 1. *)
  Definition phi_1D_prefix (xs : list F) (nu theta0 gamma h beta : F) : list F :=
    phi_1D xs n1 (nu * theta0) gamma h beta.
End Equilibrium.

(** ** executable quadrature: composite 12-point Gauss-Legendre, panels refined geometrically toward both ends *)
Section Quadrature.
  Context {F : Type} `{Num F}.
  Definition gl12_raw : list (Z * Z) :=
    [((-9815606342467192506905490901492808229602)%Z, (471753363865118271946159614850170603170)%Z);
     ((-9041172563704748566784658661190961925376)%Z, (1069393259953184309602547181939962242146)%Z);
     ((-7699026741943046870368938332128180759849)%Z, (1600783285433462263346525295433590718720)%Z);
     ((-5873179542866174472967024189405342803691)%Z, (2031674267230659217490644558097983765065)%Z);
     ((-3678314989981801937526915366437175612564)%Z, (2334925365383548087608498989248780562594)%Z);
     ((-1252334085114689154724413694638531299834)%Z, (2491470458134027850005624360429512108305)%Z);
     ((1252334085114689154724413694638531299834)%Z, (2491470458134027850005624360429512108305)%Z);
     ((3678314989981801937526915366437175612564)%Z, (2334925365383548087608498989248780562594)%Z);
     ((5873179542866174472967024189405342803691)%Z, (2031674267230659217490644558097983765065)%Z);
     ((7699026741943046870368938332128180759849)%Z, (1600783285433462263346525295433590718720)%Z);
     ((9041172563704748566784658661190961925376)%Z, (1069393259953184309602547181939962242146)%Z);
     ((9815606342467192506905490901492808229602)%Z, (471753363865118271946159614850170603170)%Z)].
  Definition gl_den : Z := (10 ^ 40)%Z.
  Definition gl12 : list (F * F) := map (fun p => (nofZ (fst p) / nofZ gl_den, nofZ (snd p) / nofZ gl_den)) gl12_raw.

  Definition gl_panel (nodes : list (F * F)) (f : F -> F) (a b : F) : F :=
    let hw := (b - a) / n2 in let mid := (a + b) / n2 in
    hw * nsum (map (fun p => snd p * f (mid + hw * fst p)) nodes).
  (** [sub] equal pieces of [a,b] *)
  Definition gl_uniform (nodes : list (F * F)) (sub : nat) (f : F -> F) (a b : F) : F :=
    let w := (b - a) / nofnat sub in
    nsum (map (fun k => gl_panel nodes f (a + w * nofnat k) (a + w * nofnat (S k))) (seq 0 sub)).
  (** offsets 0, l/2^K, l/2^(K-1), ..., l *)
  Definition geom_offsets (K : nat) (l : F) : list F := n0 :: map (fun k => l / npow n2 k) (rev (seq 0 (S K))).
  Fixpoint pairs (l : list F) : list (F * F) :=
    match l with a :: ((b :: _) as t) => (a, b) :: pairs t | _ => [] end.
  Definition quad_geom (K sub : nat) (f : F -> F) (a b : F) : F :=
    let nodes := gl12 in
    let m := (a + b) / n2 in
    let offs := pairs (geom_offsets K (m - a)) in
    nsum (map (fun p => gl_uniform nodes sub f (a + fst p) (a + snd p)) offs)
    + nsum (map (fun p => gl_uniform nodes sub f (b - snd p) (b - fst p)) offs).
End Quadrature.
