(** Q-side comparison functions used by the generated C09 correspondence files.
    Every case carries the input, what the real code returned, and is checked against the model
    of Model/Fold.v evaluated over exact rationals.  Values are compared only where unmasked. *)
From Coq Require Import ZArith QArith Qabs Qround Qpower List Bool Arith.
From Dadi Require Import Base.Num Base.NumQ Model.Fold.
Import ListNotations.

Definition qspec := lspec Q.

Fixpoint natl_eqb (a b : list nat) : bool :=
  match a, b with
  | [], [] => true
  | x :: a', y :: b' => Nat.eqb x y && natl_eqb a' b'
  | _, _ => false
  end.
Definition ids_eqb (a b : option (list nat)) : bool :=
  match a, b with
  | None, None => true
  | Some x, Some y => natl_eqb x y
  | _, _ => false
  end.
Definition zero_masked (ms : list bool) (xs : list Q) : list Q :=
  map2 (fun (m : bool) x => if m then 0%Q else x) ms xs.

(** failure codes (second component when the first is false):
    1000 + 1*shape + 2*folded + 4*mask + 8*labels + 16*extrap_x + 32*length  header mismatch
    otherwise the log2 of the relative value error *)
Definition spec_close (tol : Q) (m i : qspec) : bool * Z :=
  let b1 := natl_eqb (ls_shape m) (ls_shape i) in
  let b2 := Bool.eqb (ls_folded m) (ls_folded i) in
  let b3 := list_beq (ls_mask m) (ls_mask i) in
  let b4 := ids_eqb (ls_ids m) (ls_ids i) in
  let b5 := opt_eqb (ls_ex m) (ls_ex i) in
  let b6 := Nat.eqb (length (ls_data i)) (length (ls_mask i)) && Nat.eqb (length (ls_data m)) (length (ls_data i)) in
  if b1 && b2 && b3 && b4 && b5 && b6 then
    Qlists_close tol (zero_masked (ls_mask m) (ls_data m)) (zero_masked (ls_mask m) (ls_data i))
  else (false, (1000 + (if b1 then 0 else 1) + (if b2 then 0 else 2) + (if b3 then 0 else 4)
                     + (if b4 then 0 else 8) + (if b5 then 0 else 16) + (if b6 then 0 else 32))%Z).

Definition opt_spec_close (tol : Q) (m i : option qspec) : bool * Z :=
  match m, i with
  | None, None => (true, (-10000)%Z)              (* both refuse *)
  | Some a, Some b => spec_close tol a b
  | Some _, None => (false, 3001%Z)               (* implementation raised, model did not *)
  | None, Some _ => (false, 3002%Z)               (* model refuses, implementation did not *)
  end.

Fixpoint ql_eqb (a b : list Q) : bool :=
  match a, b with
  | [], [] => true
  | x :: a', y :: b' => Qeq_bool x y && ql_eqb a' b'
  | _, _ => false
  end.

(** numpy's element-wise floor division and power on the values the generator produces
    (non-zero divisors; integer exponents) *)
Definition qfdiv (a b : Q) : Q := inject_Z (Qfloor (a / b)).
Definition qpow (a b : Q) : Q :=
  let b' := Qred b in
  match Qden b' with
  | xH => Qred (Qpower a (Qnum b'))
  | _ => 0
  end.

(** ln Gamma(z) for integer z >= 1 (the generator keeps counts integral) *)
Fixpoint lnfact_upto (k : nat) (z : Z) : Q :=      (* sum_{j=2}^{z} ln j, k = fuel *)
  match k with
  | O => 0
  | S k' => if (z <=? 1)%Z then 0 else Qred (Qln (inject_Z z) + lnfact_upto k' (z - 1))
  end.
Definition qlgam (z : Q) : Q :=
  let n := Qfloor z in lnfact_upto (Z.to_nat n) (n - 1).

Definition and_code (ok : bool) (code : Z) (r : bool * Z) : bool * Z :=
  if ok then r else (false, code).

Inductive ccase :=
| CFold (a : qspec) (impl : option qspec)
| CUnfold (a : qspec) (impl : option qspec)
| CMisid (p : Q) (a : qspec) (impl : qspec)
| CBin (o : opname) (a : qspec) (b : operand Q) (impl : outcome Q)
| CIop (o : iopname) (a : qspec) (b : operand Q) (impl : outcome Q)
| CSlice (sel : list axsel) (a : qspec) (impl : qspec)
| CLL (multinom : bool) (model data : qspec) (impl : option Q).

Definition outcome_close (tol : Q) (m i : outcome Q) : bool * Z :=
  match m, i with
  | Refused, Refused => (true, (-10000)%Z)
  | NoSuchOp, NoSuchOp => (true, (-10000)%Z)
  | Done a, Done b => spec_close tol a b
  | Refused, _ => (false, 3002%Z)
  | _, Refused => (false, 3001%Z)
  | _, _ => (false, 3003%Z)
  end.

(** the conclusions of the C09 theorems evaluated exactly on the Q instance of the model
    (belt and braces for the R/Q parametricity step): codes 2001.. *)
Definition fold_laws (a : qspec) : bool * Z :=
  let s := ls_shape a in
  let xs := ls_data a in let ms := ls_mask a in
  let f := fold_data_l s xs in let fm := fold_mask_l s ms in
  if negb (Qeq_bool (nsum f) (nsum xs)) then (false, 2001%Z)
  else if negb (ql_eqb (fold_data_l s (rev xs)) f) then (false, 2002%Z)
  else if negb (list_beq (fold_mask_l s (rev ms)) fm) then (false, 2003%Z)
  else if negb (ql_eqb (fold_data_l s (unfold_data_l s f)) f) then (false, 2004%Z)
  else if negb (list_beq (fold_mask_l s (unfold_mask_l s fm)) fm) then (false, 2005%Z)
  else if negb (Qeq_bool (msum fm f)
                  (msum (tabulate s (fun mi => arr_of s ms false mi || arr_of s ms false (mirror_mi s mi) || is_corner s mi)) xs))
       then (false, 2006%Z)
  else (true, 0%Z).

Definition ccheck (tol : Q) (c : ccase) : bool * Z :=
  match c with
  | CFold a impl =>
      let r := opt_spec_close tol (fold_ls a) impl in
      if ls_folded a then r
      else let '(ok, code) := fold_laws a in and_code ok code r
  | CUnfold a impl => opt_spec_close tol (unfold_ls a) impl
  | CMisid p a impl =>
      let m := misid_ls p a in
      and_code (Qeq_bool (nsum (ls_data m)) (nsum (ls_data a))) 2007%Z (spec_close tol m impl)
  | CBin o a b impl => outcome_close tol (spec_binop qfdiv qpow o a b) impl
  | CIop o a b impl => outcome_close tol (spec_iop qfdiv qpow o a b) impl
  | CSlice sel a impl => spec_close tol (slice_ls sel a) impl
  | CLL mn model data impl =>
      match (if mn then ll_multinom_ls qlgam model data else ll_ls qlgam model data), impl with
      | Some m, Some i =>
          let d := Qabs (Qred (m - i)) in
          let s := Qabs m in let s := if Qle_bool s 1 then 1 else s in
          (Qle_bool d (tol * s), Qlog2 (Qred (d / s)))
      | None, None => (true, (-10000)%Z)
      | _, _ => (false, 3004%Z)
      end
  end.
