(** * PopOps: population bookkeeping on frequency spectra
    (dadi/Spectrum_mod.py marginalize, filter_pops, reorder_pops, combine_two_pops, combine_pops,
     scramble_pop_ids, fold, unfold; dadi/Misc.py combine_pops).

    Executable model only (no proofs).  A spectrum is a d-dimensional array for ARBITRARY d:
    shape (entries per axis = sample size + 1), a value function and a mask function on
    multi-indices (lists of naturals), optional population labels and the `folded` flag.
    Values under masked entries are carried along exactly like numpy carries `.data`.
    Loops of the code are modelled as loops (axis-by-axis sums from the highest axis down,
    scatter loops `new[f(index)] += old[index]`), the theorems turn them into explicit sums. *)
From Coq Require Import String.
From Coq Require Import ZArith List Bool Arith.
From Dadi Require Import Base.Num.
Import ListNotations.

(** ** multi-indices *)
Definition idx := list nat.

Fixpoint idx_eqb (a b : idx) : bool :=
  match a, b with
  | [], [] => true
  | x :: a', y :: b' => Nat.eqb x y && idx_eqb a' b'
  | _, _ => false
  end.

(** all multi-indices of an array of the given shape, in C order (numpy.ndindex) *)
Fixpoint indices (shape : list nat) : list idx :=
  match shape with
  | [] => [[]]
  | s :: t => flat_map (fun i => map (cons i) (indices t)) (seq 0 s)
  end.

(** coordinates picked in the order given: (select ks I)[i] = I[ks[i]]  (numpy.transpose on indices) *)
Definition select {A} (dflt : A) (ks : list nat) (l : list A) : list A := map (fun k => nth k l dflt) ks.
Definition isum (I : idx) : nat := fold_right Nat.add 0 I.

Fixpoint remove_nth {A} (k : nat) (l : list A) : list A :=       (* del l[k] *)
  match l, k with
  | [], _ => []
  | _ :: t, O => t
  | x :: t, S k' => x :: remove_nth k' t
  end.
Fixpoint insert_nth {A} (k : nat) (x : A) (l : list A) : list A :=
  match k, l with
  | O, _ => x :: l
  | S k', y :: t => y :: insert_nth k' x t
  | S _, [] => [x]
  end.
Fixpoint set_nth {A} (k : nat) (x : A) (l : list A) : list A :=   (* l[k] = x *)
  match l, k with
  | [], _ => []
  | _ :: t, O => x :: t
  | y :: t, S k' => y :: set_nth k' x t
  end.

(** sorted(): insertion sort *)
Fixpoint insert_sorted (x : nat) (l : list nat) : list nat :=
  match l with
  | [] => [x]
  | y :: t => if Nat.leb x y then x :: l else y :: insert_sorted x t
  end.
Definition isort (l : list nat) : list nat := fold_right insert_sorted [] l.

Definition memb (x : nat) (l : list nat) : bool := existsb (Nat.eqb x) l.
Fixpoint nodupb (l : list nat) : bool :=
  match l with [] => true | x :: t => negb (memb x t) && nodupb t end.
Definition list_nat_eqb (a b : list nat) : bool := idx_eqb a b.
Fixpoint index_of (x : nat) (l : list nat) : nat :=
  match l with [] => O | y :: t => if Nat.eqb x y then O else S (index_of x t) end.

(** delete the coordinates listed in [over], highest first (the loop of marginalize) *)
Definition drop_axes {A} (over : list nat) (l : list A) : list A :=
  fold_left (fun acc k => remove_nth k acc) (rev (isort over)) l.

(** ** geometry of a spectrum *)
Definition nsamp (shape : list nat) : nat := fold_right Nat.add 0 (map pred shape).   (* sum(sample_sizes) *)
Definition rev_idx (shape : list nat) (I : idx) : idx :=                              (* reverse_array *)
  map (fun p => fst p - 1 - snd p) (combine shape I).
Definition folded_out (shape : list nat) (I : idx) : bool := Nat.ltb (nsamp shape / 2) (isum I).
Definition ambiguous (shape : list nat) (I : idx) : bool := Nat.eqb (2 * isum I) (nsamp shape).
Definition is_corner (shape : list nat) (I : idx) : bool :=                           (* mask.flat[0], mask.flat[-1] *)
  forallb (Nat.eqb 0) I || idx_eqb I (map pred shape).

(** binomial coefficient, Pascal's rule *)
Fixpoint binomZ (n k : nat) : Z :=
  match n, k with
  | _, O => 1%Z
  | O, S _ => 0%Z
  | S n', S k' => (binomZ n' k' + binomZ n' k)%Z
  end.

Definition join_plus (l : list string) : string := String.concat "+" l.

(** index map of combine_pops for the 0-based axes t0 (smallest) and ts (the others, any order): the coordinate
    of axis t0 becomes the sum of the merged coordinates, the other merged coordinates are deleted;
    the shape and the labels change accordingly *)
Definition merge_idx (t0 : nat) (ts : list nat) (I : idx) : idx :=
  drop_axes ts (set_nth t0 (isum (select 0 (t0 :: ts) I)) I).
Definition merge_shape (t0 : nat) (ts : list nat) (shape : list nat) : list nat :=
  drop_axes ts (set_nth t0 (S (nsamp (select 0 (t0 :: ts) shape))) shape).
Definition merge_labels (t0 : nat) (ts : list nat) (l : list string) : list string :=
  drop_axes ts (set_nth t0 (join_plus (select EmptyString (t0 :: isort ts) l)) l).

Local Open Scope num_scope.

Section PopOps.
  Context {F : Type} `{Num F}.

  Record spec := mkspec {
    sh : list nat;              (* shape = sample sizes + 1 *)
    va : idx -> F;              (* .data *)
    mk : idx -> bool;           (* .mask *)
    ids : option (list string); (* .pop_ids *)
    fo : bool                   (* .folded *)
  }.

  (** value as numpy reductions see it: masked entries count as 0 *)
  Definition eff (a : spec) (I : idx) : F := if mk a I then n0 else va a I.

  (** tables: an array computed once and then looked up by multi-index *)
  Fixpoint lookup {A} (dflt : A) (tbl : list (idx * A)) (K : idx) : A :=
    match tbl with
    | [] => dflt
    | (i, v) :: t => if idx_eqb i K then v else lookup dflt t K
    end.
  Definition tabulate {A} (shape : list nat) (g : idx -> A) : list (idx * A) :=
    map (fun I => (I, g I)) (indices shape).

  Definition of_flat (shape : list nat) (data : list F) (mask : list bool)
                     (labels : option (list string)) (folded : bool) : spec :=
    let tv := combine (indices shape) data in
    let tm := combine (indices shape) mask in
    {| sh := shape; va := lookup n0 tv; mk := lookup true tm; ids := labels; fo := folded |}.
  Definition flat_values (a : spec) : list F := map (va a) (indices (sh a)).
  Definition flat_mask (a : spec) : list bool := map (mk a) (indices (sh a)).

  Definition mask_corners (a : spec) : spec :=
    {| sh := sh a; va := va a; mk := fun I => mk a I || is_corner (sh a) I; ids := ids a; fo := fo a |}.

  (** *** fold / unfold (needed because marginalize and scramble_pop_ids unfold, work, and fold back) *)
  Definition unfold (a : spec) : spec :=
    let s := sh a in
    let x := fun I => xorb (mk a I) (folded_out s I) in
    {| sh := s;
       va := fun I => (va a I + va a (rev_idx s I)) / n2;
       mk := fun I => x I || x (rev_idx s I) || is_corner s I;     (* Spectrum(...) masks the corners *)
       ids := ids a; fo := false |}.

  Definition fold (a : spec) : spec :=
    let s := sh a in
    {| sh := s;
       va := fun I =>
         if folded_out s I then n0
         else let R := rev_idx s I in
              let base := va a I + (if folded_out s R then va a R else n0) in
              if ambiguous s I then base + (- (nhalf * va a I) + nhalf * va a R) else base;
       mk := fun I => mk a I || mk a (rev_idx s I) || folded_out s I || is_corner s I;
       ids := ids a; fo := true |}.

  (** *** marginalize *)
  (** masked_array.sum(axis=k): masked entries count 0; the result is masked where every summand is *)
  Definition sum_axis (k : nat) (a : spec) : spec :=
    let n := nth k (sh a) 0%nat in
    {| sh := remove_nth k (sh a);
       va := fun J => nsum (map (fun j => eff a (insert_nth k j J)) (seq 0 n));
       mk := fun J => forallb (fun j => mk a (insert_nth k j J)) (seq 0 n);
       ids := ids a; fo := fo a |}.

  Definition marginalize_core (over : list nat) (mc : bool) (a : spec) : spec :=
    let srt := rev (isort over) in                      (* sorted(over)[::-1] *)
    let a0 := if fo a then unfold a else a in
    let out := fold_left (fun o k => sum_axis k o) srt a0 in
    let out := {| sh := sh out; va := va out; mk := mk out;
                  ids := option_map (drop_axes over) (ids a); fo := false |} in
    let out := if mc then mask_corners out else out in
    if fo a then fold out else out.

  Definition valid_over (d : nat) (over : list nat) : bool :=
    nodupb over && forallb (fun k => Nat.ltb k d) over && Nat.ltb (length over) d.

  Definition marginalize (over : list nat) (mc : bool) (a : spec) : option spec :=
    if valid_over (length (sh a)) over then Some (marginalize_core over mc a) else None.

  (** *** filter_pops: toremove = range(ndim) minus (p-1 for p in tokeep), list.remove raising when absent;
      its own mask_corners argument is not passed on (marginalize's default True applies) *)
  Fixpoint remove_first (x : nat) (l : list nat) : option (list nat) :=
    match l with
    | [] => None
    | y :: t => if Nat.eqb x y then Some t else option_map (cons y) (remove_first x t)
    end.
  Definition filter_toremove (d : nat) (tokeep : list nat) : option (list nat) :=
    fold_left (fun acc p => match acc with
                            | None => None
                            | Some l => match p with O => None | S q => remove_first q l end
                            end) tokeep (Some (seq 0 d)).
  Definition filter_pops (tokeep : list nat) (a : spec) : option spec :=
    match filter_toremove (length (sh a)) tokeep with
    | None => None
    | Some rm => marginalize rm true a
    end.

  (** *** reorder_pops *)
  Definition inv_perm (p : list nat) : list nat := map (fun k => index_of k p) (seq 0 (length p)).
  Definition transpose (p : list nat) (a : spec) : spec :=      (* numpy transpose(newaxes) *)
    let q := inv_perm p in
    {| sh := select 0%nat p (sh a);
       va := fun J => va a (select 0%nat q J);
       mk := fun J => mk a (select 0%nat q J);
       ids := ids a; fo := fo a |}.
  Definition reorder_pops (neworder : list nat) (a : spec) : option spec :=
    if list_nat_eqb (isort neworder) (seq 1 (length (sh a))) then
      let newaxes := map pred neworder in
      let t := transpose newaxes a in
      Some {| sh := sh t; va := va t; mk := mk t;
              ids := option_map (select EmptyString newaxes) (ids a); fo := fo t |}
    else None.

  (** *** scatter loops:  for index in src: acc[f index] (+)= g index *)
  Definition scatter {A} (op : A -> A -> A) (src : list idx) (f : idx -> idx) (g : idx -> A)
                     (acc0 : idx -> A) : idx -> A :=
    fold_left (fun acc I => let J := f I in let v := op (acc J) (g I) in
                            fun K => if idx_eqb K J then v else acc K) src acc0.

  (** the generic "re-index and accumulate into a fresh Spectrum" step shared by combine_two_pops and
      Misc.combine_pops: values add up, the mask is the corner mask OR-ed with every contributor's mask *)
  Definition push_scatter (newshape : list nat) (f : idx -> idx) (vals : idx -> F) (msk : idx -> bool)
                          (a : spec) (labels : option (list string)) (folded : bool) : spec :=
    let accv := scatter nadd (indices (sh a)) f vals (fun _ => n0) in
    let accm := scatter orb (indices (sh a)) f msk (is_corner newshape) in
    let tv := tabulate newshape accv in
    let tm := tabulate newshape accm in
    {| sh := newshape; va := lookup n0 tv; mk := lookup true tm; ids := labels; fo := folded |}.

  (** *** combine_two_pops([p,q]) with 1-based population numbers *)
  Definition merge2 {A} (op : A -> A -> A) (dflt : A) (t0 t1 : nat) (l : list A) : list A :=
    remove_nth t1 (set_nth t0 (op (nth t0 l dflt) (nth t1 l dflt)) l).
  Definition combine_two_pops (p q : nat) (a : spec) : spec :=
    let t0 := pred (Nat.min p q) in
    let t1 := pred (Nat.max p q) in
    let newshape := merge2 (fun x y => x + y - 1)%nat 0%nat t0 t1 (sh a) in   (* (n0+n1)+1 entries *)
    let labels := match ids a with
                  | Some l => Some (merge2 (fun x y => (x ++ "+" ++ y)%string) EmptyString t0 t1 l)
                  | None => None
                  end in
    push_scatter newshape (merge2 Nat.add 0%nat t0 t1) (va a) (mk a) a labels (fo a).   (* new_fs.folded = self.folded *)

  (** *** combine_pops(tocombine) *)
  Definition combine_pops (tocombine : list nat) (a : spec) : spec :=
    let srt := isort tocombine in
    let first := hd 1%nat srt in
    let r := fold_left (fun r right => combine_two_pops first right r) (rev (tl srt)) a in
    match ids a, ids r with
    | Some l0, Some lr =>
      {| sh := sh r; va := va r; mk := mk r; fo := fo r;
         ids := Some (set_nth (pred first) (join_plus (map (fun p => nth (pred p) l0 EmptyString) srt)) lr) |}
    | _, _ => r
    end.

  (** *** Misc.combine_pops(fs, idx): 2-D and 3-D only, merged axis first, works on the raw data,
      result is a fresh Spectrum (corners masked, no labels) *)
  Definition misc_combine_pops (idxs : list nat) (a : spec) : option spec :=
    let nomask := fun _ : idx => false in
    match sh a with
    | [s0; s1] =>
      Some (push_scatter [s0 + s1 - 1]%nat (fun I => [nth 0 I 0 + nth 1 I 0]%nat) (va a) nomask a None false)
    | [s0; s1; s2] =>
      let go x y z := Some (push_scatter [nth x (sh a) 0 + nth y (sh a) 0 - 1; nth z (sh a) 0]%nat
                                         (fun I => [nth x I 0 + nth y I 0; nth z I 0]%nat) (va a) nomask a None false) in
      match idxs with
      | [0; 1]%nat => go 0%nat 1%nat 2%nat
      | [0; 2]%nat => go 0%nat 2%nat 1%nat
      | [1; 2]%nat => go 1%nat 2%nat 0%nat
      | _ => None
      end
    | _ => None
    end.

  (** *** scramble_pop_ids *)
  (** 1-d spectrum of the pooled population: combined[total derived] += entry *)
  Definition pooled (a : spec) : idx -> F :=
    let n := nsamp (sh a) in
    let acc := scatter nadd (indices (sh a)) (fun I => [isum I]) (va a) (fun _ => n0) in
    lookup n0 (tabulate [S n] acc).
  (** iterating over a masked array yields `masked`, which becomes nan in the plain array `combined`:
      every entry with that many derived alleles is then nan *)
  Definition pooled_poison (a : spec) (t : nat) : bool :=
    existsb (fun I => mk a I && Nat.eqb (isum I) t) (indices (sh a)).
  (** probability that re-dealing gives exactly the counts c: prod C(n_i, c_i) / C(N, |c|) *)
  Definition deal_prob (shape : list nat) (c : idx) : F :=
    nofZ (fold_right Z.mul 1%Z (map (fun p => binomZ (pred (fst p)) (snd p)) (combine shape c)))
    / nofZ (binomZ (nsamp shape) (isum c)).
  Definition scramble_unfolded (mc : bool) (a : spec) : spec :=
    let pl := pooled a in
    let s := sh a in
    {| sh := s; va := fun c => deal_prob s c * pl [isum c];
       mk := fun c => if mc then is_corner s c else false; ids := None; fo := false |}.
  Definition scramble_pop_ids (mc : bool) (a : spec) : spec :=
    if fo a then fold (scramble_unfolded mc (unfold a)) else scramble_unfolded mc a.
  (** entries of the result that are nan (not masked, but poisoned by a masked input entry) *)
  Definition scramble_poison (a : spec) (c : idx) : bool :=
    if fo a then let u := unfold a in
                 pooled_poison u (isum c) || pooled_poison u (isum (rev_idx (sh a) c))
    else pooled_poison a (isum c).

  (** ** explicit re-indexing sums used as specifications *)
  (** sum of g over the entries of [a] that the index map f sends to J *)
  Definition fiber_sum (shape : list nat) (f : idx -> idx) (g : idx -> F) (J : idx) : F :=
    nsum (map (fun I => if idx_eqb (f I) J then g I else n0) (indices shape)).
  Definition fiber_any (shape : list nat) (f : idx -> idx) (g : idx -> bool) (J : idx) : bool :=
    existsb (fun I => idx_eqb (f I) J && g I) (indices shape).
  Definition fiber_all (shape : list nat) (f : idx -> idx) (g : idx -> bool) (J : idx) : bool :=
    forallb (fun I => negb (idx_eqb (f I) J) || g I) (indices shape).
  Definition total (a : spec) : F := nsum (map (va a) (indices (sh a))).

  (** total over the unmasked entries *)
  Definition etotal (a : spec) : F := nsum (map (eff a) (indices (sh a))).
  (** same spectrum: same shape, labels, folding flag, and the same data and mask at every entry *)
  Definition same_spectrum (x y : spec) : Prop :=
    sh x = sh y /\ ids x = ids y /\ fo x = fo y /\
    forall J, In J (indices (sh x)) -> va x J = va y J /\ mk x J = mk y J.
  (** same visible spectrum: same shape, labels, folding flag, mask, and the same data wherever unmasked *)
  Definition same_visible (x y : spec) : Prop :=
    sh x = sh y /\ ids x = ids y /\ fo x = fo y /\
    forall J, In J (indices (sh x)) -> mk x J = mk y J /\ (mk x J = false -> va x J = va y J).
End PopOps.

Arguments spec F : clear implicits.
