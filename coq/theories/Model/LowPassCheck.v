(** Q-side comparison functions used by the generated C18 correspondence files. *)
From Coq Require Import ZArith QArith Qabs Qreduction List Bool Arith.
From Dadi Require Import Base.Num Base.NumQ Model.LowPass.
Import ListNotations.
Local Open Scope Q_scope.

Fixpoint lnat_eqb (a b : list nat) : bool :=
  match a, b with
  | [], [] => true
  | x :: a', y :: b' => Nat.eqb x y && lnat_eqb a' b'
  | _, _ => false
  end.
Fixpoint llnat_eqb (a b : list (list nat)) : bool :=
  match a, b with
  | [], [] => true
  | x :: a', y :: b' => lnat_eqb x y && llnat_eqb a' b'
  | _, _ => false
  end.

(** absolute comparison of probability-valued lists: scale 1 *)
Definition close_abs (tol : Q) (a b : list Q) : bool * Z :=
  let dd := Qmaxdiff a b in (Qle_bool dd tol, Qlog2 dd).

Definition both (x y : bool * Z) : bool * Z := (fst x && fst y, Z.max (snd x) (snd y)).
Definition all_of (l : list (bool * Z)) : bool * Z := fold_right both (true, (-10000)%Z) l.

(** one population's helpers.  hc_what selects the helper that is compared:
    0 partitions (exact) and their probabilities, per allele count 0..nseq ('genotype' type)
    1 projection_matrix(nseq, nsub, F)      2 calling_error_matrix(cov, nsub, F)
    3 probability_of_no_call_1D(cov, nseq, F)   4 probability_enough_individuals_covered(cov, nseq, nsub)
    5 projection_inbreeding(partition, nsub) for every partition of every allele count *)
Record hcase := { hc_what : nat; hc_nseq : nat; hc_nsub : nat; hc_cov : list Q; hc_F : Q;
                  hc_parts : list (list (list nat)); hc_probs : list (list Q);
                  hc_mat : list (list Q); hc_vec : list Q }.

Definition hcheck (tol : Q) (c : hcase) : bool * Z :=
  let st := stats_of (hc_cov c) in
  let nseq := hc_nseq c in let nsub := hc_nsub c in let F := hc_F c in
  match hc_what c with
  | 0%nat =>
      let mine := map (parts nseq) (seq 0 (nseq + 1)) in
      let same := Nat.eqb (length mine) (length (hc_parts c))
                  && forallb (fun p => llnat_eqb (fst p) (snd p)) (combine mine (hc_parts c)) in
      both (same, (-10000)%Z)
           (close_abs tol (concat (map (part_probs F) mine)) (concat (hc_probs c)))
  | 1%nat => both (Nat.eqb (length (hc_mat c)) (nseq + 1), (-10000)%Z)
                  (close_abs tol (concat (proj_matrix nseq nsub F)) (concat (hc_mat c)))
  | 2%nat => both (Nat.eqb (length (hc_mat c)) (nsub + 1), (-10000)%Z)
                  (close_abs tol (concat (cem st nsub F)) (concat (hc_mat c)))
  | 3%nat => close_abs tol (nocall_1D st nseq F) (hc_vec c)
  | 4%nat => close_abs tol [enough st nseq nsub] (hc_vec c)
  | 5%nat => close_abs tol (concat (map (fun pt => proj_inb pt nsub) (concat (hc_parts c)))) (concat (hc_mat c))
  | _ => (false, 0%Z)
  end.

(** the whole corrected model.  The arrays are passed flat (C order) with their shapes;
    lc_sims = the arrays simulate_GATK_multisample_calling returned in this run (the oracle's values). *)
Record lcase := { lc_d : nat; lc_pops : list (nat * nat * list Q * Q); lc_thr : Q;
                  lc_model : list Q; lc_sims : list (list nat * list Q);
                  lc_out : list Q; lc_use : list bool }.

Fixpoint lookup (k : list nat) (tbl : list (list nat * list Q)) : list Q :=
  match tbl with
  | [] => []
  | (k', v) :: t => if lnat_eqb k k' then v else lookup k t
  end.

Fixpoint bools_eqb (a b : list bool) : bool :=
  match a, b with
  | [], [] => true
  | x :: a', y :: b' => Bool.eqb x y && bools_eqb a' b'
  | _, _ => false
  end.

Definition lcheck (tol : Q) (c : lcase) : bool * Z :=
  let d := lc_d c in
  let pops := map (fun q => match q with (ns, nb, cov, F) =>
                     {| p_nseq := ns; p_nsub := nb; p_st := stats_of cov; p_F := F |} end) (lc_pops c) in
  let shseq := map (fun p => (p_nseq p + 1)%nat) pops in
  let shsub := map (fun p => (p_nsub p + 1)%nat) pops in
  let sim := fun idx => tunflat d shsub (lookup idx (lc_sims c)) in
  let model := tunflat d shseq (lc_model c) in
  let out := tflat d (lowpass d pops (lc_thr c) sim model) in
  let vecs := pnc_vecs pops in
  let use := tflat d (tmapi d (fun idx _ => if use_sim_v (lc_thr c) vecs idx then 1 else 0) [] model) in
  let use_ok := bools_eqb (map (fun u => negb (Qeq_bool u 0)) use) (lc_use c) in
  let s := Qmaxl (Qabsmax out :: Qabsmax (lc_out c) :: nil) in
  let s := if Qle_bool s 0 then 1 else s in
  let dd := Qmaxdiff out (lc_out c) in
  (use_ok && Nat.eqb (length pops) d && Qle_bool dd (tol * s), Qlog2 (Qred (dd / s))).
