(** * ProgSem: a CONCRETE executable semantics of the model-program DSL of Model/DSL.v (C15).

    Every instruction is interpreted by the executable model of the numerical building block the library
    function calls:
      IGrid        the grid handed over by the harness (the values of Numerics.default_grid(pts))
      IPhi1D       Model/Equilibrium.v   phi_1D
      ISplit       Model/PhiManip.v      phi_1D_to_2D ; phi_2D_to_3D_split_1 / _2 (descriptor table)
      IAdmixNew    Model/PhiManip.v      phi_2D_to_3D_admix
      IPulse       Model/PhiManip.v      the five 2-/3-population pulse functions (descriptor table)
      IIntegrate   Model/NDSweep.v       integrate_const when every parameter expression is time-free,
                                         else integrate_tdep with the expressions evaluated at t
                                         (Integration.one_pop/two_pops/three_pops: one grid on all axes, theta0 and
                                         beta as written, use_delj_trick = False, T < 0 is refused)
      IRemove / IReorder   Model/PhiManip.v  remove_pop / reorder_pops
      IFromPhi     Model/FromPhi.v       from_phi, default path ;  IFromPhiInb  from_phi_inbreeding (force_direct=True)
      IMsCmd       no effect on the numerical state (the *_mscore helpers return a string)

    Definitions only.  [exec] is strict (an instruction that does not apply to the current state ends the run with
    [None]); Proofs/ProgSemProofs.v shows that on the real-number instance it is an instance of the abstract [sem]
    of Model/DSL.v.  Not modelled: the ValueError tests of Integration.py on negative sizes / rates and on frozen
    populations with migration (outside the documented parameter bounds; no library model freezes a population). *)
From Coq Require Import String.
From Coq Require Import QArith List Bool Arith ZArith.
From Dadi Require Import Base.Num Model.Tridiag Model.Scheme Model.NDSweep Model.Equilibrium Model.PhiManip
                         Model.FromPhi Model.DSL.
Import ListNotations.
Local Open Scope bool_scope.

(** ** what a state is, statically *)
Inductive kind := KInit | KGrid | KPhi (d : nat) | KFs | KErr | KBad.

(** the three descriptor tables entries an instruction refers to *)
Definition pulse_index (d : nat) (srcs : list nat) (dst : nat) : option nat :=
  match d, srcs, dst with
  | 2, [0], 1 => Some 0            (* phi_2D_admix_1_into_2 *)
  | 2, [1], 0 => Some 1            (* phi_2D_admix_2_into_1 *)
  | 3, [0; 1], 2 => Some 2         (* phi_3D_admix_1_and_2_into_3 *)
  | 3, [0; 2], 1 => Some 3         (* phi_3D_admix_1_and_3_into_2 *)
  | 3, [1; 2], 0 => Some 4         (* phi_3D_admix_2_and_3_into_1 *)
  | _, _, _ => None
  end%nat.
Definition split_index (d parent : nat) : option nat :=
  match d, parent with
  | 2, 0 => Some 1                 (* phi_2D_to_3D_split_1 *)
  | 2, 1 => Some 2                 (* phi_2D_to_3D_split_2 *)
  | _, _ => None
  end%nat.

(** an integer constant (the ploidies of from_phi_inbreeding) *)
Definition nat_const (e : expr) : option nat :=
  match e with
  | Const q => if Pos.eqb (Qden q) 1 && Z.leb 0 (Qnum q) then Some (Z.to_nat (Qnum q)) else None
  | _ => None
  end.
Fixpoint all_some {A} (l : list (option A)) : option (list A) :=
  match l with
  | [] => Some []
  | Some x :: t => option_map (cons x) (all_some t)
  | None :: _ => None
  end.

(** does the instruction apply to a state of this kind (sizes of the argument lists included) *)
Definition integrate_shape_ok (d : nat) (nnus : nat) (lms : list nat) (ngs nhs nfr nnm : nat) : bool :=
  Nat.eqb nnus d && Nat.eqb (length lms) d && forallb (Nat.eqb d) lms && Nat.eqb ngs d && Nat.eqb nhs d &&
  Nat.eqb nfr d && Nat.eqb nnm d && Nat.leb 1 d.
Definition applicable (i : instr) (k : kind) : bool :=
  match k with
  | KErr => true
  | KBad => false
  | _ =>
    match i, k with
    | IGrid, KInit => true
    | IPhi1D _ _ _ _ _, KGrid => true
    | ISplit d parent, KPhi d' => Nat.eqb d d' && ((Nat.eqb d 1 && Nat.eqb parent 0) || match split_index d parent with Some _ => true | None => false end)
    | IAdmixNew d fs, KPhi d' => Nat.eqb d d' && Nat.eqb d 2 && Nat.eqb (length fs) 1
    | IPulse d srcs dst fs, KPhi d' => Nat.eqb d d' && match pulse_index d srcs dst with Some _ => true | None => false end
    | IIntegrate _ nus ms gs hs _ _ fr nm, KPhi d =>
        integrate_shape_ok d (length nus) (map (@length _) ms) (length gs) (length hs) (length fr) (length nm)
    | IRemove k0, KPhi d => Nat.ltb k0 d && Nat.leb 2 d
    | IReorder pi, KPhi d => Nat.eqb (length pi) d
    | IFromPhi d, KPhi d' => Nat.eqb d d'
    | IFromPhiInb d Fs pl, KPhi d' =>
        Nat.eqb d d' && Nat.eqb (length Fs) d && Nat.eqb (length pl) d &&
        match all_some (map nat_const pl) with Some _ => true | None => false end
    | IMsCmd _, _ => true
    | _, _ => false
    end
  end.
(** the kind of the resulting state, unless the operation fails at run time (then KErr) *)
Definition next_kind (i : instr) (k : kind) : kind :=
  match k with
  | KErr => KErr
  | _ =>
    match i with
    | IGrid => KGrid
    | IPhi1D _ _ _ _ _ => KPhi 1
    | ISplit d _ => KPhi (S d)
    | IAdmixNew d _ => KPhi (S d)
    | IRemove _ => match k with KPhi d => KPhi (d - 1) | _ => k end
    | IFromPhi _ | IFromPhiInb _ _ _ => KFs
    | IPulse _ _ _ _ | IIntegrate _ _ _ _ _ _ _ _ _ | IReorder _ | IMsCmd _ => k
    end
  end.
(** static check of a program: every instruction applies to the kind of state it meets *)
Fixpoint prog_ok (p : prog) (k : kind) : bool :=
  match p with
  | Done => true
  | Step i r => applicable i k && prog_ok r (next_kind i k)
  | IfGe _ _ p1 p2 => prog_ok p1 k && prog_ok p2 k
  end.
(** ... and it ends with a spectrum *)
Fixpoint ends_in_fs (p : prog) (k : kind) : bool :=
  match p with
  | Done => match k with KFs => true | _ => false end
  | Step i r => ends_in_fs r (next_kind i k)
  | IfGe _ _ p1 p2 => ends_in_fs p1 k && ends_in_fs p2 k
  end.

Section ProgSem.
  Context {F : Type} `{Num F}.
  Local Open Scope num_scope.

  (** oracle slots of Model/Equilibrium.v (used only when h <> 1/2), fuel of the drivers, the run's inputs *)
  Variable ovf : F.
  Variable quad : (F -> F) -> F -> F -> F.
  Variable fuel : nat.
  Variable pts : nat.
  Variable grid0 : list F.        (* Numerics.default_grid(pts) *)
  Variable ns : list nat.
  Variable tf : F.                (* Integration.timescale_factor *)

  (** ** expressions over F *)
  Definition constF (q : Q) : F := nofZ (Qnum q) / nofZ (Zpos (Qden q)).
  Fixpoint evalF (e : expr) (env : nat -> F) (t : F) : F :=
    match e with
    | Var i => env i
    | TVar => t
    | Const q => constF q
    | Add a b => evalF a env t + evalF b env t
    | Sub a b => evalF a env t - evalF b env t
    | Mul a b => evalF a env t * evalF b env t
    | Div a b => evalF a env t / evalF b env t
    | Neg a => - evalF a env t
    | Exp a => nexp (evalF a env t)
    | Log a => nln (evalF a env t)
    | Pow a b => nexp (evalF b env t * nln (evalF a env t))
    end.

  (** ** states *)
  Inductive state :=
  | SInit
  | SGrid (g : list F)
  | SPhi (g : list F) (d : nat) (phi : list F)       (* density of d populations on the grid g along every axis *)
  | SFs (shape : list nat) (fs : list F)
  | SErr.

  Fixpoint incrb (l : list F) : bool :=
    match l with
    | a :: ((b :: _) as t) => (a <? b) && incrb t
    | _ => true
    end.
  Definition grid_ok (g : list F) : bool := Nat.leb 2 (length g) && incrb g.
  Definition shape_of (g : list F) (d : nat) : list nat := repeat (length g) d.
  Definition phi_ok (g : list F) (d : nat) (phi : list F) : bool :=
    grid_ok g && Nat.eqb (length phi) (prodn (shape_of g d)).
  Definition kind_of (s : state) : kind :=
    match s with
    | SInit => KInit
    | SGrid g => if grid_ok g then KGrid else KBad
    | SPhi g d phi => if phi_ok g d phi then KPhi d else KBad
    | SFs _ _ => KFs
    | SErr => KErr
    end.
  Definition mkgrid (g : list F) : state := if grid_ok g then SGrid g else SErr.
  Definition mkphi (g : list F) (d : nat) (phi : list F) : state := if phi_ok g d phi then SPhi g d phi else SErr.
  Definition mkphi_opt (g : list F) (d : nat) (r : option (list F)) : state :=
    match r with Some phi => mkphi g d phi | None => SErr end.

  (** ** one operation per instruction, on semantic values *)
  Definition do_grid (s : state) : state :=
    match s with
    | SInit => if Nat.eqb (length grid0) pts then mkgrid grid0 else SErr
    | _ => SErr
    end.
  Definition do_phi1d (nu theta0 gamma h beta : F) (s : state) : state :=
    match s with
    | SGrid g => mkphi g 1 (phi_1D ovf quad g nu theta0 gamma h beta)
    | _ => SErr
    end.
  Definition no_desc : pdesc := mkp EmptyString 0 [] [] 0 None 0.
  Definition do_split (d parent : nat) (s : state) : state :=
    match s with
    | SPhi g _ phi =>
        if Nat.eqb d 1 then mkphi g 2 (phi_1D_to_2D g phi)
        else match split_index d parent with
             | Some k => mkphi_opt g (S d) (run_desc (nth k cons_table no_desc) (shape_of g d) [g] [] phi)
             | None => SErr
             end
    | _ => SErr
    end.
  Definition do_admixnew (d : nat) (fs : list F) (s : state) : state :=
    match s with
    | SPhi g _ phi => mkphi_opt g (S d) (run_desc (nth 0 cons_table no_desc) (shape_of g d) [g; g; g] fs phi)
    | _ => SErr
    end.
  Definition do_pulse (d : nat) (srcs : list nat) (dst : nat) (fs : list F) (s : state) : state :=
    match s with
    | SPhi g _ phi =>
        match pulse_index d srcs dst with
        | Some k => mkphi_opt g d (run_desc (nth k pulse_table no_desc) (shape_of g d) (repeat g d) fs phi)
        | None => SErr
        end
    | _ => SErr
    end.

  (** populations of an integration: migration INTO population i from the others, in axis order *)
  Definition mkpops (nus : list F) (ms : list (list F)) (gs hs : list F) (beta : F) (fr nm : list bool) : list pop :=
    map (fun i => {| p_nu := nthF nus i; p_gamma := nthF gs i; p_h := nthF hs i; p_beta := beta;
                     p_ms := remove_nth i (nth i ms []); p_frozen := nth i fr false; p_nomut := nth i nm false |})
        (seq 0 (length nus)).
  Definition at_t (fs : list (F -> F)) (t : F) : list F := map (fun f => f t) fs.
  Definition popsf_of (nus : list (F -> F)) (ms : list (list (F -> F))) (gs hs : list (F -> F)) (be : F -> F)
             (fr nm : list bool) (t : F) : list pop :=
    mkpops (at_t nus t) (map (fun r => at_t r t) ms) (at_t gs t) (at_t hs t) (be t) fr nm.
  (** the time-dependent driver (parameters as functions of time) *)
  Definition do_integrate (T : F) (nus : list (F -> F)) (ms : list (list (F -> F))) (gs hs : list (F -> F))
             (th be : F -> F) (fr nm : list bool) (s : state) : state :=
    match s with
    | SPhi g d phi =>
        if T <? n0 then SErr else
        mkphi_opt g d (integrate_tdep fuel (shape_of g d) (repeat g d) (popsf_of nus ms gs hs be fr nm) th tf false n0 T phi)
    | _ => SErr
    end.
  (** the constant-parameter driver *)
  Definition do_integrate_const (T : F) (nus : list F) (ms : list (list F)) (gs hs : list F)
             (th be : F) (fr nm : list bool) (s : state) : state :=
    match s with
    | SPhi g d phi =>
        if T <? n0 then SErr else
        mkphi_opt g d (integrate_const fuel (shape_of g d) (repeat g d) (mkpops nus ms gs hs be fr nm) th tf false n0 T phi)
    | _ => SErr
    end.
  Definition do_remove (k : nat) (s : state) : state :=
    match s with
    | SPhi g d phi => mkphi g (d - 1) (snd (remove_pop (shape_of g d) g (S k) phi))
    | _ => SErr
    end.
  Definition do_reorder (pi : list nat) (s : state) : state :=
    match s with
    | SPhi g d phi => mkphi_opt g d (option_map snd (reorder_pops (shape_of g d) (map S pi) phi))
    | _ => SErr
    end.
  Definition plain_opts : @opts F := {| o_admix := None; o_het := None; o_force := false |}.
  Definition direct_opts : @opts F := {| o_admix := None; o_het := None; o_force := true |}.
  Definition mkfs (r : option (list F)) : state :=
    match r with Some fs => SFs (map S ns) fs | None => SErr end.
  Definition do_fromphi (d : nat) (s : state) : state :=
    match s with
    | SPhi g _ phi => mkfs (from_phi plain_opts ns (repeat g d) (shape_of g d) phi)
    | _ => SErr
    end.
  Definition do_fromphi_inb (d : nat) (Fs : list F) (pl : list nat) (s : state) : state :=
    match s with
    | SPhi g _ phi => mkfs (from_phi_inbreeding direct_opts ns (repeat g d) Fs pl (shape_of g d) phi)
    | _ => SErr
    end.

  (** ** instructions *)
  Definition ev0F (env : nat -> F) (e : expr) : F := evalF e env n0.
  Definition evfF (env : nat -> F) (e : expr) : F -> F := fun t => evalF e env t.
  Definition integrate_tfree (nus : list expr) (ms : list (list expr)) (gs hs : list expr) (th be : expr) : bool :=
    forallb tfreeb nus && forallb (forallb tfreeb) ms && forallb tfreeb gs && forallb tfreeb hs && tfreeb th && tfreeb be.

  Definition do_instr (i : instr) (env : nat -> F) (s : state) : state :=
    match s with
    | SErr => SErr
    | _ =>
      match i with
      | IGrid => do_grid s
      | IPhi1D nu th g h be => do_phi1d (ev0F env nu) (ev0F env th) (ev0F env g) (ev0F env h) (ev0F env be) s
      | ISplit d p => do_split d p s
      | IAdmixNew d fs => do_admixnew d (map (ev0F env) fs) s
      | IPulse d srcs dst fs => do_pulse d srcs dst (map (ev0F env) fs) s
      | IIntegrate T nus ms gs hs th be fr nm =>
          if integrate_tfree nus ms gs hs th be
          then do_integrate_const (ev0F env T) (map (ev0F env) nus) (map (map (ev0F env)) ms) (map (ev0F env) gs)
                                  (map (ev0F env) hs) (ev0F env th) (ev0F env be) fr nm s
          else do_integrate (ev0F env T) (map (evfF env) nus) (map (map (evfF env)) ms) (map (evfF env) gs)
                            (map (evfF env) hs) (evfF env th) (evfF env be) fr nm s
      | IRemove k => do_remove k s
      | IReorder pi => do_reorder pi s
      | IFromPhi d => do_fromphi d s
      | IFromPhiInb d Fs pl =>
          match all_some (map nat_const pl) with
          | Some pln => do_fromphi_inb d (map (ev0F env) Fs) pln s
          | None => SErr
          end
      | IMsCmd _ => s
      end
    end.

  Definition apply_instr (i : instr) (env : nat -> F) (s : state) : option state :=
    if applicable i (kind_of s) then Some (do_instr i env s) else None.

  Fixpoint exec (p : prog) (env : nat -> F) (s : state) : option state :=
    match p with
    | Done => Some s
    | Step i r => match apply_instr i env s with Some s' => exec r env s' | None => None end
    | IfGe a b p1 p2 => if ev0F env b <=? ev0F env a then exec p1 env s else exec p2 env s
    end.

  Definition env_of_list (params : list F) : nat -> F := fun i => nth i params n0.
  Definition result_of (s : option state) : option (list F) :=
    match s with Some (SFs _ fs) => Some fs | _ => None end.
  Definition run_prog (p : prog) (params : list F) : option (list F) :=
    result_of (exec p (env_of_list params) SInit).
End ProgSem.
